#!/usr/bin/env python3
"""Rewrites section 10 of DESIGN.md from design_asbuilt.tmpl.md and the seeded-change results."""
import subprocess, glob
s = open('/verif/DESIGN.md').read()
marker = "\n---------------------------------------------------------------------------\n\n## 10. As built"
i = s.find(marker)
if i >= 0:
    s = s[:i]
s = s.rstrip('\n') + '\n'
t = open('/verif/design_asbuilt.tmpl.md').read()
table = subprocess.check_output(['python3', '/verif/gen_seeded_table.py'] + sorted(glob.glob('/verif/seeded/RESULTS-*.txt'))).decode()
t = t.replace('@@SEEDED_TABLE@@', table)
open('/verif/DESIGN.md', 'w').write(s + t)
