#!/opt/veriftools/pyvenv/bin/python
"""Validate MANIFEST.json and evidence files against the schemas."""
import json, sys, glob, jsonschema
ok = True
m = json.load(open('/verif/MANIFEST.json')) if len(sys.argv) < 2 or sys.argv[1] != '--evidence-only' else None
if m is not None:
    jsonschema.validate(m, json.load(open('/root/.vp/MANIFEST.schema.json')))
    print('MANIFEST ok,', len(m['checks']), 'checks')
es = json.load(open('/root/.vp/EVIDENCE.schema.json'))
for f in sorted(glob.glob('/verif/evidence/*.json')):
    try:
        jsonschema.validate(json.load(open(f)), es)
        print(f, 'ok')
    except Exception as e:
        ok = False
        print(f, 'INVALID', str(e)[:300])
sys.exit(0 if ok else 1)
