#!/bin/bash
# usage: mutest.sh <patch> <ID> [extra check args]  — applies a seeded change to /repo, runs the check, reverts.
patch="$1"; id="$2"; shift 2
cd /repo || exit 2
if ! git diff --quiet; then echo "repo has uncommitted changes" >&2; exit 2; fi
git apply "$patch" || { echo "patch does not apply" >&2; exit 2; }
(cd /verif && timeout 1800 ./check "$id" "$@" 2>&1 | grep -E "VIOLATION|KNOWN-FINDING|HARNESS-ERROR|^OK|clause=" | cut -c1-400 | head -20; echo "exit=${PIPESTATUS[0]}")
git -C /repo checkout -- . 
