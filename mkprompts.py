#!/usr/bin/env python3
"""mkprompts.py <round>: write /tmp/seed/prompts<round>/Cxx.txt, the briefs for the sub-agents that prepare
seeded changes number 2*round-1 and 2*round for every property (nothing from /verif but the property text and
one-line descriptions of the earlier changes goes into a brief)."""
import json, sys, os, glob
R = int(sys.argv[1])
a, b = 2 * R - 1, 2 * R
props = [json.loads(l) for l in open('/verif/properties.jsonl')]
out = f'/tmp/seed/prompts{R}'
os.makedirs(out, exist_ok=True)
for p in props:
    i = p['id']
    earlier = []
    for d in sorted(glob.glob(f'/verif/seeded/{i}-*/meta.json'), key=lambda s: int(s.split('-')[-1].split('/')[0])):
        m = json.load(open(d))
        files = ', '.join(m.get('files', []))
        earlier.append(f"- {files}: {m.get('summary','')[:200]}")
    text = f"""You are helping to test a verification effort for the Go library seehuhn/go-sfnt (a pure-Go library for reading, writing and subsetting TrueType/OpenType/CFF fonts, with a GSUB/GPOS engine and a text DSL for lookups).

SETUP
- Create your own scratch git worktree of the library:  git -C /repo worktree add --detach /tmp/seed/wt-{i}-r{R} HEAD
- Work ONLY inside /tmp/seed/wt-{i}-r{R} and /tmp/seed/out/{i}/ (mkdir -p it; files of earlier rounds may be there already, leave them alone). Never modify /repo itself (ignore whatever `git status` shows there). Do NOT read, list or use anything under /verif (it is off limits: your work must be independent of it). Do not use `git stash` (the stash is shared with /repo); to get back to a clean tree use `git checkout -- .` inside your worktree.
- No network. Every go command needs:  export GOFLAGS=-mod=mod GOPROXY=off GOSUMDB=off GOTOOLCHAIN=local
- The full existing test suite is:  go build ./... && go test -vet=off -count=1 ./...   (run at the worktree root; takes a minute or two)

THE PROPERTY ({i}): {p['title']}
{p['statement']}
(Quantified over: {p['quantifier']['text']})

TASK
Produce TWO independent changes (numbered {a} and {b}) to the library's non-test source, each of which BREAKS this property while the library still compiles and the whole existing test suite still passes. Each change should look like a plausible slip a maintainer could make during a refactoring, optimisation, clean-up or "bug fix" - not sabotage - and should need something SPECIFIC to manifest: a particular interleaving, a fault at a particular point, a multi-step sequence of operations, an unusual (but legal) input, a size threshold, or two cooperating sites that each look fine alone. Do not produce changes that ordinary use would expose at once. Prefer parts of the property's statement, and parts of the code, that the earlier changes listed below did NOT touch: read the statement clause by clause and pick clauses/code paths nobody has attacked yet (different files, functions, table formats, lookup types, operators, API entry points). The two changes must use different code areas / mechanisms from each other, and must differ from these changes that were already made by others for this property:
{chr(10).join(earlier)}

Before you choose, list for yourself the separate clauses of the property statement and the public entry points / file formats / operators / lookup types each clause covers, mark which of them the changes above already attacked, and pick two that are still untouched. Changes whose effect only shows after a multi-step history (write then read then write again; use an object, then use it again; subset a subset; parse, explain, parse), at a size threshold, at an index 0 / last / one-past boundary, or through an unusual but legal combination of options are especially welcome. The change must break the property on the CURRENT HEAD by itself (do not rely on another defect of the library to make it visible).

FOR EACH change n in {{{a},{b}}} deliver these three files:
1. /tmp/seed/out/{i}/m<n>.diff - output of `git diff` (relative to HEAD) containing ONLY that change; it must apply with `git apply` at the root of a clean checkout of HEAD, independently of the other change.
2. /tmp/seed/out/{i}/demo<n>_test.go - a Go test file whose FIRST line is a comment of the exact form `// place at: <path relative to the repo root where this file must be copied, e.g. opentype/gtab/demo<n>_test.go>`. It contains one test function that FAILS with the change applied and PASSES on clean HEAD (deterministically, e.g. if it depends on scheduling or map order make it loop/arrange things so that it fails every time). It may use any package of the module (including internal ones) and the module's existing dependencies only.
3. /tmp/seed/out/{i}/meta<n>.json - {{"property":"{i}","summary":"what was changed and why it looks plausible","needs":"what specific circumstance it needs in order to manifest","files":["paths changed"],"demo_test":"<name of the test function>","demo_pkg":"./<package dir>","verified":{{"suite_passes_with_change":true,"demo_fails_with_change":true,"demo_passes_without_change":true}}}}

Verify all three facts yourself (suite passes with the change; demo fails with it; demo passes without it) before writing meta<n>.json; if a candidate change makes an existing test fail, pick another one. Keep each diff small (a few lines to a few dozen).

WHEN DONE: make sure the three files per change are in /tmp/seed/out/{i}/, then remove your worktree and its build output:  git -C /repo worktree remove --force /tmp/seed/wt-{i}-r{R}
Reply with a short summary (what each change does, where). If, while reading the code, you notice something that looks like an existing defect of the library on HEAD (not one of your changes), mention it in one or two sentences at the end.
"""
    open(f'{out}/{i}.txt', 'w').write(text)
print('wrote', out)
