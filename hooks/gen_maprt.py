#!/usr/bin/env python3
"""Map-iteration-order seam: writes build/gen/runtime/map.go, a copy of the installed runtime's map.go in
which the random iteration start and the per-map hash seed come from a variable the harness controls
(runtime.verifMapSeed, active only while runtime.verifMapSeedOn is set), and build/overlay_rt.json.
Nothing outside /verif/build is touched; without the harness switching the seam on the runtime behaves
exactly as before.  Fails loudly when the runtime source does not look as expected."""
import json, os, subprocess, sys
build = sys.argv[1]
goroot = subprocess.check_output(["go", "env", "GOROOT"]).decode().strip()
src = os.path.join(goroot, "src", "runtime", "map.go")
s = open(src).read()
n_hash = s.count("h.hash0 = uint32(rand())")
n_iter = s.count("r := uintptr(rand())") + s.count("r := int(rand())")
if n_hash < 3 or n_iter < 1 or "func mapiterinit(" not in s:
    sys.exit("gen_maprt: unexpected runtime/map.go (hash0 sites %d, iterator sites %d)" % (n_hash, n_iter))
s = s.replace("h.hash0 = uint32(rand())", "h.hash0 = uint32(verifRandHash())")
s = s.replace("r := uintptr(rand())", "r := uintptr(verifRandIter())")
s = s.replace("r := int(rand())", "r := int(verifRandIter())")
s += '''

// ---- verification seam (added by /verif/hooks/gen_maprt.py; build overlay only) ----

// verifMapSeedOn switches the seam on; verifMapSeed then determines where map
// iteration starts (low 16 bits) and the hash seed of maps made meanwhile
// (the remaining bits).
//
//go:linkname verifMapSeedOn
var verifMapSeedOn bool

//go:linkname verifMapSeed
var verifMapSeed uint64

func verifRandIter() uint64 {
	if verifMapSeedOn {
		return verifMapSeed & 0xFFFF
	}
	return rand()
}

func verifRandHash() uint64 {
	if verifMapSeedOn {
		return (verifMapSeed >> 16) * 2654435761
	}
	return rand()
}
'''
out = os.path.join(build, "gen", "runtime")
os.makedirs(out, exist_ok=True)
open(os.path.join(out, "map.go"), "w").write(s)
# the per-process hash key is fixed, so that a map order found under a seed is the same in the replaying process
alg_src = os.path.join(goroot, "src", "runtime", "alg.go")
a = open(alg_src).read()
if a.count("key[i] = bootstrapRand()") != 1 or a.count("hashkey[i] = uintptr(bootstrapRand())") != 1:
    sys.exit("gen_maprt: unexpected runtime/alg.go")
a = a.replace("key[i] = bootstrapRand()", "key[i] = 0x9E3779B97F4A7C15 * uint64(i+1)")
a = a.replace("hashkey[i] = uintptr(bootstrapRand())", "hashkey[i] = uintptr(0x9E3779B97F4A7C15 * uint64(i+1))")
open(os.path.join(out, "alg.go"), "w").write(a)
# maps that do not escape are made by compiler-generated code, which takes the hash seed from rand32()
rand_src = os.path.join(goroot, "src", "runtime", "rand.go")
rs = open(rand_src).read()
old = "func rand32() uint32 {\n\treturn uint32(rand())\n}"
if rs.count(old) != 1:
    sys.exit("gen_maprt: unexpected runtime/rand.go")
rs = rs.replace(old, "func rand32() uint32 {\n\tif verifMapSeedOn {\n\t\treturn uint32((verifMapSeed >> 16) * 2654435761)\n\t}\n\treturn uint32(rand())\n}")
open(os.path.join(out, "rand.go"), "w").write(rs)
json.dump({"Replace": {src: os.path.join(out, "map.go"), alg_src: os.path.join(out, "alg.go"), rand_src: os.path.join(out, "rand.go")}}, open(os.path.join(build, "overlay_rt.json"), "w"), indent=1)
print("gen_maprt: %d hash sites, %d iterator sites" % (n_hash, n_iter))
