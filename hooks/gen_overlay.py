#!/usr/bin/env python3
"""Generate build/overlay.json: adds the export-seam files of /verif/hooks/export/<pkg path>/*.go
to the corresponding package directories of the repository (nothing in /repo is modified)."""
import json, os, sys
repo, root, build = sys.argv[1:4]
ov = {}
exp = os.path.join(root, "hooks", "export")
for d, _, files in os.walk(exp):
    rel = os.path.relpath(d, exp)
    for f in files:
        if f.endswith(".go") or f.endswith(".s"):
            tgt = os.path.normpath(os.path.join(repo, rel, "zz_verif_" + f))
            ov[tgt] = os.path.join(d, f)
for name in ("overlay_extra.json", "overlay_tick.json", "overlay_rt.json", "overlay_sched.json"):
    extra = os.path.join(build, name)
    if name == "overlay_sched.json":
        # the free-running -race pass of C19 is built from the repository's own builder sources
        json.dump({"Replace": ov}, open(os.path.join(build, "overlay_nosched.json"), "w"), indent=1)
    if os.path.exists(extra):
        ov.update(json.load(open(extra))["Replace"])
json.dump({"Replace": ov}, open(os.path.join(build, "overlay.json"), "w"), indent=1)
