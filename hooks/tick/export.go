//go:build verif

package sfnt

import "seehuhn.de/go/sfnt/internal/vtick"

// VerifTickStart resets the step counter and enables it with the given budget.
func VerifTickStart(budget int64) {
	vtick.Count, vtick.Budget, vtick.Enabled = 0, budget, true
}

// VerifTickStop disables the counter and returns the number of steps counted
// and whether the budget was exceeded.
func VerifTickStop() (steps int64, exceeded bool) {
	vtick.Enabled = false
	return vtick.Count, vtick.Count > vtick.Budget
}
