// Package vtick is the step counter of the verification harness (property
// C02).  It exists only in the build overlay of /verif; the library's own
// sources never import it.
package vtick

// Exceeded is the panic value raised when the step budget is used up.
type Exceeded struct{}

var (
	// Enabled is set only while a single goroutine runs library code (the
	// serial cost pass); all other harnesses leave it false and only read it.
	Enabled bool
	Count   int64
	Budget  int64
)

// Tick counts one step: one function entry or one loop iteration.
func Tick() {
	if Enabled {
		Count++
		if Count > Budget {
			Enabled = false
			panic(Exceeded{})
		}
	}
}
