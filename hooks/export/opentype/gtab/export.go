//go:build verif

package gtab

import (
	"bytes"

	"golang.org/x/text/language"

	"seehuhn.de/go/sfnt/parser"
)

// VerifTagTables exposes the OpenType script and language tag tables.
func VerifTagTables() (scripts, langs map[string]string) {
	scripts = map[string]string{}
	for k, v := range scriptBcp47 {
		scripts[string(k)] = v
	}
	langs = map[string]string{}
	for k, v := range langBcp47 {
		langs[string(k)] = v
	}
	return
}

// VerifOtfToBCP47 exposes the tag conversion.
func VerifOtfToBCP47(script, lang string) (language.Tag, error) {
	return otfToBCP47(otfScript(script), otfLang(lang))
}

// VerifBCP47ToOtf exposes the reverse conversion.
func VerifBCP47ToOtf(tag language.Tag) (string, string, error) {
	s, l, err := bcp47ToOtf(tag)
	return string(s), string(l), err
}

// VerifSubtableSizes returns the declared and the emitted size of a subtable.
func VerifSubtableSizes(st Subtable) (declared, emitted int) {
	return st.encodeLen(), len(st.encode())
}

// VerifSubtableLen returns the declared size of a subtable (without encoding it).
func VerifSubtableLen(st Subtable) (declared int, ok bool) {
	return st.encodeLen(), true
}

// VerifEncodeFeatureList exposes the feature list encoder.
func VerifEncodeFeatureList(info FeatureListInfo) []byte { return info.encode() }

// VerifReadFeatureList exposes the feature list reader.
func VerifReadFeatureList(data []byte) (FeatureListInfo, error) {
	return readFeatureList(parser.New(bytes.NewReader(data)), 0)
}

// VerifEncodeSubtable exposes the encoder of one subtable.
func VerifEncodeSubtable(st Subtable) []byte { return st.encode() }
