//go:build verif

package name

// VerifLanguageTables exposes the platform language id -> BCP 47 tables
// (read-only) to the verification harness.
func VerifLanguageTables() (apple, ms map[uint16]string) { return appleBCP, msBCP }

// VerifGet / VerifSet expose the name-id accessors of a Table.
func VerifGet(t *Table, id ID) string { return t.get(id) }
func VerifSet(t *Table, id ID, v string) { t.set(id, v) }
func VerifKeys(t *Table) []ID         { return t.keys() }
