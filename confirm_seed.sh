#!/bin/bash
# usage: confirm_seed.sh <ID> <N>  — independently confirms a seeded change produced by a sub-agent:
# in a scratch worktree: (1) demo passes on unchanged tree, (2) patch applies, suite passes, (3) demo fails with patch.
# On success the change is stored as /verif/seeded/<ID>-<N>/{patch.diff,demo_test.go,meta.json}.
id="$1"; n="$2"
src=/tmp/seed/out/$id
export GOFLAGS=-mod=mod GOPROXY=off GOSUMDB=off GOTOOLCHAIN=local
wt=$(mktemp -d /tmp/confirm-XXXXXX); rmdir $wt
git -C /repo worktree add -q --detach $wt HEAD || exit 2
trap 'git -C /repo worktree remove --force '$wt'; rm -rf '$wt'' EXIT
place=$(head -3 $src/demo$n\_test.go | grep -o 'place at: *[^ ]*' | sed 's/place at: *//')
[ -n "$place" ] || { echo "no place-at comment"; exit 2; }
test=$(python3 -c "import json;print(json.load(open('$src/meta$n.json'))['demo_test'])")
pkg=./$(dirname $place)
cd $wt
cp $src/demo$n\_test.go $place
go test -vet=off -count=1 -run "^$test\$" $pkg > /tmp/confirm.$id.$n.clean.log 2>&1; clean=$?
git apply $src/m$n.diff || { echo "patch does not apply"; exit 2; }
go test -vet=off -count=1 -run "^$test\$" $pkg > /tmp/confirm.$id.$n.mut.log 2>&1; mut=$?
rm $place
go build ./... > /tmp/confirm.$id.$n.suite.log 2>&1 && go test -vet=off -count=1 ./... >> /tmp/confirm.$id.$n.suite.log 2>&1; suite=$?
echo "$id-$n: demo_on_clean=$clean (want 0) demo_with_change=$mut (want !=0) suite_with_change=$suite (want 0)"
if [ $clean = 0 ] && [ $mut != 0 ] && [ $suite = 0 ]; then
  d=/verif/seeded/$id-$n; mkdir -p $d
  cp $src/m$n.diff $d/patch.diff; cp $src/demo$n\_test.go $d/demo_test.go
  python3 - <<PY
import json
m=json.load(open('$src/meta$n.json'))
m['confirmed']={'by':'confirm_seed.sh in a scratch worktree of /repo HEAD','demo_on_unchanged_tree':'pass','demo_with_change':'fail','suite_with_change':'pass (go test -vet=off -count=1 ./...)'}
m['breaks_property']='$id'
json.dump(m,open('$d/meta.json','w'),indent=1)
PY
  echo "stored $d"
else
  echo "NOT CONFIRMED"; tail -5 /tmp/confirm.$id.$n.*.log
fi
