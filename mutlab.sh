#!/bin/bash
# usage: mutlab.sh <patch> <ID> [extra check args]
# Runs one property's check against a seeded change in an isolated lab: a scratch worktree of /repo HEAD with the
# patch applied plus a scratch copy of /verif's committed HEAD pointed at it (so /repo and /verif are untouched and several labs can
# run side by side).  Prints the VIOLATION / KNOWN-FINDING lines and "exit=<rc>"; removes the lab afterwards.
patch="$(readlink -f "$1")"; id="$2"; shift 2
lab=$(mktemp -d /tmp/mutlab-XXXXXX)
trap 'git -C /repo worktree remove --force '$lab'/repo 2>/dev/null; rm -rf '$lab'' EXIT
git -C /repo worktree add -q --detach $lab/repo HEAD || exit 2
git -C $lab/repo apply "$patch" || { echo "patch does not apply"; echo "exit=APPLY-FAILED"; exit 2; }
mkdir -p $lab/verif && git -C /verif archive HEAD | tar -x -C $lab/verif   # the committed state, not a half-edited working tree
sed -i "s#=> /repo#=> $lab/repo#" $lab/verif/vmc/go.mod
cd $lab/verif
VERIF_REPO=$lab/repo timeout 3000 ./check "$id" "$@" > $lab/out.log 2>&1; rc=$?
echo "violations=$(grep -c '^VIOLATION' $lab/out.log)"
grep -oE "harness=[^ ]+ clause=[^ ]+" $lab/out.log | sort | uniq -c | sort -rn | head -${MUTLAB_LINES:-8}
grep -E "HARNESS-ERROR|^NOTE" $lab/out.log | cut -c1-300 | head -5
[ -n "${MUTLAB_KEEP_LOG:-}" ] && cp $lab/out.log "$MUTLAB_KEEP_LOG"
echo "exit=$rc"
