#!/usr/bin/env python3
"""Regenerates MANIFEST.json from the table below (kept valid at all times)."""
import json
props = [json.loads(l) for l in open('/verif/properties.jsonl')]
# id -> (level, technique, level text, level note, design ref)
claimed = {
 "C17": ("model_checking",
         "explicit-state BFS over operation histories of the real parser.Parser vs. a slice model",
         "Every operation history over the boundary alphabet (seeks, skips, fixed-size, bulk and io.Reader-style reads) is explored breadth-first on the real Parser for 11 input lengths x 4 underlying-reader behaviours, merging states on a reflective dump of all Parser fields; closure is reached for the small inputs, a reported depth otherwise. Each step is compared with a plain slice model (value, position, failure iff past the end).",
         "Alphabet of offsets/sizes is the boundary set of the 1024-byte buffer; readers obey the io.Reader contract; input bytes fixed per length.",
         "DESIGN.md 4/C17"),
 "C18": ("fault_enumeration",
         "exhaustive fault-point enumeration: every byte offset x every fault mode on the real write/read paths",
         "For every corpus font (glyf, glyf with a raw table physically last, CFF, CID-keyed; Go Regular in the thorough tier) and every k in 0..len(file): writers that accept k bytes then reject or short-write (Write, WriteTrueTypePDF / WriteOpenTypeCFFPDF, cff.Font.Write), the file truncated to k bytes (ReaderAt and streaming), a ReaderAt failing for every access touching offset >= k (with and without partial data) and a stream failing after k bytes. Oracle: error iff the fault was hit, byte count == bytes the destination accepted, no panic.",
         "Fault model: permanent failure from offset k; io.Writer/io.ReaderAt contracts are respected by the injected devices. Corpus fonts are small (1-2 kB) except Go Regular.",
         "DESIGN.md 4/C18"),
 "C03": ("model_checking",
         "bounded exhaustive enumeration of table maps / generator fonts on the real writer, judged by an independent container walker and by golang.org/x/image as second reader",
         "header.Write is run on every map of up to 3 (quick) / 4 (thorough) tags from a 7-tag alphabet x table lengths around the 4-byte alignment x scaler types x nil entries; each output is walked by refsfnt (sorted directory, count and binary-search fields, alignment, bounds, overlap, per-table checksums, 0xB1B0AFBA), read back with header.Read/ReadTableBytes and written a second time. Every generator font (outline kind x glyph count x shapes x cmap x layout tables) is written with Font.Write, walked, and cross-read with x/image (glyph count, units/em, GlyphIndex, advances, names, outlines).",
         "Alphabet bounds as listed; a table named head has >= 12 bytes; x/image rounds CFF coordinates to whole units (tolerance 0.5 there).",
         "DESIGN.md 4/C03"),
 "C01": ("model_checking",
         "bounded exhaustive enumeration of font values (structure product x metadata deviations <= d) and of accepted files, against an explicit normal form",
         "Every generator font (3 outline kinds x glyph counts x shape rotations x names/encodings/FD layouts x 4 cmap layouts x 5 layout-table combinations, every metadata field deviating to each of its boundary values, d=1 quick / d=2 thorough) is written and read: the result must equal normalForm(F) field by field, a second cycle must be a fixed point with identical bytes, and two writes of one font must agree. Accepted files: 12 gofont TTFs, x/image test fonts, and all 2^11 subsets of optional tables removed from a generated glyf and CFF file.",
         "normalForm encodes the documented representation limits (Version to 3 decimals, angle to 16.16, naming rules for bold/italic/regular, nil widths == zero widths, synthetic liga table); ScriptList keys are generated in canonical -x- form; byte reproducibility is observed over Go's randomised map iteration (two writes per font), not yet over a controlled map-order seam.",
         "DESIGN.md 4/C01"),
 "C12": ("model_checking",
         "bounded exhaustive enumeration: boundary-value deviations (d<=2) of every Info field, all width vectors / caret slopes / version values, derived fields recomputed from definitions",
         "head, maxp, OS/2 and post Info values with every field at its boundary values (<= 2 fields deviating, every flag, every code-page bit) must satisfy Read(Encode(x)) == normalForm(x); hmtx/hhea: all width vectors of length 1..5/6 over {0,500,501} x extents x explicit/implicit LSB, with advanceWidthMax, min LSB/RSB, xMaxExtent, numberOfHMetrics recomputed from their definitions on the raw bytes; all coprime caret slopes; all 2^17 low Version values; for every generator font the head bbox, xAvgCharWidth, first/last char index and the metric queries are checked against the outlines.",
         "normal form: OS/2 Unicode-range bit 57 is derived, non-positive cap/x-height == unset, fsSelection REGULAR excludes BOLD/ITALIC (skipped), Vendor is a 4-character tag, post italic angle is 16.16.",
         "DESIGN.md 4/C12"),
 "C09": ("model_checking",
         "bounded exhaustive enumeration of code->glyph maps and hand-assembled subtables against an independent specification decoder",
         "Format 4: all 3^10 (quick) / 4^11 maps over a code window at both ends of the BMP (incl. 0xFFFF and wrapping glyph ids), all [run][gap][run] structures at three offsets, subtables near the 64 KiB limit; format 12: all 4^7 maps over BMP/astral boundary codes; every Encode output is decoded by the library and by refcmap (written from the specification) and compared with the original on the window and its neighbourhood; header fields checked against the spec formulas. Byte-level: assembled format 4 with idRangeOffset+idDelta and the customary final segments, format 6, format 0 under Unicode and Macintosh keys. cmap.Table: all 3^7 key subsets with shared/distinct subtables, sharing, GetBest precedence.",
         "Code points are non-negative; the code window is finite (boundary codes); known finding: format 0 under the Macintosh key.",
         "DESIGN.md 4/C09"),
 "C14": ("model_checking",
         "exhaustive enumeration over the library's own language / script tables, all Mac Roman byte pairs, all BMP code points and bounded name-list alphabets, judged by independent name/post parsers and x/text's Macintosh charmap",
         "Mac Roman: all 65536 two-byte strings in both directions against the published table. name.Info: every supported Macintosh and Windows language (all table entries) x 16 name ids x strings; all subsets of a 6-language set x shared/distinct strings x three size classes; every BMP scalar and the surrogate corner cases through Windows records; an independent parser checks platform/language ids and raw string encodings. Every script x language pair of the OpenType tag tables goes OTF -> BCP 47 -> OTF and through gtab.Info.Encode/gtab.Read with the raw 4-byte tags checked. post: all name lists of length <= 4 over a 6-name alphabet, the standard Macintosh order, all its prefixes, permutations, 259 and 1000 names, read back by the library and by an independent post parser.",
         "Mac strings are over the Mac Roman repertoire (0xDB = euro as the library documents); glyph names are at most 255 bytes; known finding: name storage above 64 KiB is written corrupt.",
         "DESIGN.md 4/C14"),
 "C11": ("model_checking",
         "bounded exhaustive enumeration of glyf/loca inputs built by an independent assembler; independent simple-glyph point decoder",
         "All glyph sets of 1..2 (quick) / 1..3 glyphs: the first glyph from the full alphabet {empty; simple with 0..2 contours, 1..3 points, coordinates at the 8/16-bit boundaries, long / short / repeat-packed flags, instructions, 0/1/3 padding bytes; composite with 1..3 components, byte/word arguments, all four transform sizes, absent / empty / 2-byte instructions}, further glyphs from a reduced alphabet, short and long loca. Decode -> Encode -> Decode must be the identity (glyph bytes preserved bit for bit, second Encode identical), loca non-decreasing / even / inside glyf / spanning it, SimpleGlyph.Decode equal to an independent specification decoder, Components/FixComponents exact and non-aliasing. Scaled sets around the 64 KiB and 128 KiB boundaries and 65535 glyphs.",
         "Coordinates and sizes from the stated boundary sets; x/image's rasteriser view of outlines is covered in C03.",
         "DESIGN.md 4/C11"),
 "C06": ("model_checking",
         "bounded exhaustive enumeration of lookup lists x ALL glyph sequences up to a length bound, compared with an independent token-list reference shaper",
         "Simple part: every simple GSUB (11) and GPOS (6) lookup of the menu x 11 flag combinations x 4 GDEF variants x optional second lookup in both orders, on all sequences of length <= 4 (quick) / 5 over {A,B,M,N,L}. Nested part: lookup lists [context parent in all six formats, two children (simple or contextual), grandchild, optional second top-level lookup] - all lists within deviation bound 3 (quick) / 4 of a deliberately rich default across 11 dimensions - on all sequences of length <= 5 / 6 over {A,B,M,L}; GSUB and GPOS flavours. Glyph ids, text, offsets and advances must equal the reference, which reproduces all 43 pinned cases of testcases sections 1-3 at start-up; cases outside the defined region are counted, not compared.",
         "The reference model (refshape) is the trusted base; its undefined-region rules are listed in the evidence assumptions; GSUB inputs carry zero advances.",
         "DESIGN.md 4/C06"),
 "C07": ("model_checking",
         "bounded exhaustive enumeration of hostile lookup structures / mutated table bytes x all short input sequences, and of Apply/Layout call histories, on the real engine",
         "Structures: generator lookup lists (deviation bound 2/3) with one of 15 hostile modifications (out-of-range lookup, sequence, class, coverage, ligature-set and mark-filtering-set indices, empty replacement lists, self reference, 12-deep nesting, rules with 63..200 actions), passed through the library's own encoder and reader so that only shapes the reader can deliver are applied, on all sequences of length <= 4 over {A,B,M,0,0xFFFF} and on 200-glyph inputs: no panic, returns (20 s watchdog), every input character exactly once in the output. Bytes: every 16-bit field of encoded tables overwritten with 7 boundary values; whatever gtab.Read accepts is applied. Histories: all histories of <= 3 Apply calls over 6 inputs on one Context (and of <= 3 Layout calls over 7 strings on one Layouter): each probe equals the result on a fresh object.",
         "Termination is observed with a generous wall-clock watchdog (20 s vs. microseconds); map-order independence only through Go's randomised iteration; the output-length clause is not checked beyond termination and text conservation (no sound closed-form bound for nested rules).",
         "DESIGN.md 4/C07"),
 "C05": ("model_checking",
         "grammar-bounded exhaustive enumeration of Type 2 programs, assembled into complete CFF tables by an independent assembler and compared with an independent specification interpreter",
         "Every path operator in every legal operand-count form and its illegal neighbours x 3 operand rotations x every preceding path operator x with/without width; flex1 direction cases; every arithmetic/logic/stack operator on all tuples from a 6-value alphabet, ifelse on all 4-tuples, put/get, roll/index for all (n,j) <= 4; stems x masks x implicit vstems x hm variants x width for 0..9 stems per direction; the five number encodings at their boundaries; subroutine tables of sizes 0..33900 (40000 thorough) called at first/last/one-past index, nesting 1..12; CID-keyed fonts with all FDSelect functions on 4 glyphs over 2..3 font dicts with different widths and local subroutines; single faults (truncation at every byte, every byte deleted, every operator with 0..3 operands before/after moveto, 47..50 operands). cff.Read's glyph (path, stems, masks, width) must equal reft2's to 2^-16; programs reft2 rejects for one of the listed fault classes must be rejected.",
         "reft2/refcff (independent, cross-checked against x/image on two real fonts) are the trusted base; ill-formed programs outside the property's list (undefined arithmetic, odd operand counts, misplaced hints) are not compared; two known findings (delta clamp at +-32000, path operators with too few operands skipped).",
         "DESIGN.md 4/C05"),
 "C04": ("model_checking",
         "bounded exhaustive enumeration of glyph programs, stem/mask layouts and width assignments; emitted charstrings executed by a strict independent interpreter",
         "All glyph programs of <= 3 segments over a 30-segment alphabet chosen from the encoder's case analysis (lines with zero/non-zero deltas, degenerate lines, curves with all 16 zero/non-zero patterns of the outer deltas, flex-like couples, moves; fractional deltas) from two start points; periodic runs (period <= 3 over 8 segment types with steps such as 0.1, 1/3, 1/7) of lengths 1..60 crossing the 48-entry stack limit; stem counts {0,1,2,23,24,25,47,48,96} per direction x four mask placements x own/default width; all 7^4 width assignments of a 4-glyph font incl. fractional widths. Font.Write's output is walked by refcff, every charstring executed by reft2 in strict mode (legal operand counts, stack <= 48, endchar, nothing after it) and compared with the source glyph with an absolute tolerance of 2^-16 per coordinate.",
         "reft2/refcff are the trusted base (each stem operator restarts at 0, as in FreeType); coordinates within +-32000.",
         "DESIGN.md 4/C04"),
 "C13": ("model_checking",
         "bounded exhaustive enumeration of cff.Font values; field-by-field round trip plus an independent walk of the bytes",
         "Simple fonts: glyph counts {1,2,3,229,230,300} x four name sets (forcing charset formats 0/1/2 and SID/custom strings, 1- and 127-character names) x five encodings (standard, none, sparse, multiply encoded, all 256 codes) x three charstring payload sizes; INDEX bodies swept through 300 consecutive sizes around 255 (String, Name, CharStrings INDEX) and around 65535; full 256-code encodings in k ranges for k in {1,2,3,127,128,129,200,254,255}. CID-keyed fonts: all FDSelect functions on 5 glyphs -> 1..3 font dicts, 256 font dicts, three GID->CID maps, font matrices, supplements; all 5^4 width assignments over 2 private dicts. DICT numbers: integers at every size-class boundary +-1, reals incl. 1.23456789e-20 and -7.5e12 through BlueScale/StdHW/ItalicAngle/underline/FontMatrix. Read(Write(F)) is compared field by field; refcff walks the bytes (offsets monotone, minimal offSize, DICT operands, charset / encoding / FDSelect) and reft2 re-derives the widths.",
         "Domain: CIDs < 65536, encodings obey the documented contiguity rule, BlueScale in [0,1] and not within 1e-6 of the default, StdHW in [0,10000], italic angles within +-90 degrees.",
         "DESIGN.md 4/C13"),
 "C08": ("model_checking",
         "bounded exhaustive enumeration of coverage / class-definition / GDEF values and gtab.Info values; round trip compared up to nil == empty, sizes recomputed independently",
         "coverage.Table/Set: all 2^10 subsets of 10 glyph ids at both ends of the 16-bit range (EncodeLen == emitted, indices in glyph order checked by an independent reader, smaller format chosen); classdef.Table: all 3^8 (quick) / 3^10 class maps; gdef.Table: 36 combinations; gtab.Info: every simple GSUB/GPOS lookup and every contextual form x pattern x action list x 11 flag combinations, alone and with further lookups, per-subtable encodeLen == len(encode) through an export seam; all assignments of subtable size classes {tiny, 20, 33, 66 KiB} over <= 2 (quick) / 4 lookups x 1..2 subtables (reordering / extension logic); lookup counts {0,1,2,255,256,300} x sizes, feature lists up to 10900 features, all subsets of a 6-tag script list with/without required features.",
         "nil == empty; a nil and an all-zero value record are the same; nil LookupList/FeatureList mean 'absent' (empty lists are passed as non-nil); an encoder panic counts as a loud refusal; one known finding (subtable offset inside one lookup beyond 16 bits).",
         "DESIGN.md 4/C08"),
}
checks = []
na = []
for p in props:
    i = p["id"]
    if i in claimed:
        lvl, tech, text, note, ref = claimed[i]
        checks.append({
            "property_id": i,
            "quick_cmd": f"./check {i} --tier quick",
            "thorough_cmd": f"./check {i} --tier thorough",
            "evidence_file": f"/verif/evidence/{i}.json",
            "replay_cmd_template": f"./check {i} --replay {{path}}",
            "engine": "vmc",
            "level_claimed": {"category": lvl, "text": text, "design_ref": ref},
            "level_note": note,
            "technique": tech,
        })
    else:
        na.append({"property_id": i, "reason": "harness not built yet in this session (planned: bounded exhaustive exploration, see DESIGN.md section 4)"})
m = {
 "version": 1,
 "setup_cmd": "./check --setup",
 "hooks": {
   "guard": "verif",
   "enable": "go build -tags verif -overlay /verif/build/overlay.json (export-seam files from /verif/hooks/export are added to library packages by overlay; nothing is committed to /repo for instrumentation)",
   "baseline_off_cmd": "cd /repo && GOFLAGS=-mod=mod GOPROXY=off GOSUMDB=off GOTOOLCHAIN=local go test -json -vet=off -count=1 -timeout 25m ./...",
   "source_commits": [],
   "add_only": True,
 },
 "engines": [{"name": "vmc", "path": "/verif/vmc", "serves_properties": sorted(claimed),
              "kind_free_text": "hand-written Go model checker: stateless deviation-bounded choice explorer (exhaustive enumeration of choice sequences on the real code), explicit-state BFS over operation histories, cooperative scheduler for the goroutines that exist; reference models in Go"}],
 "checks": checks,
 "not_applicable": na,
 "notes": "All checks rebuild the harness from /repo's working tree. Exit 0 held / 1 VIOLATION / 2 the check itself is broken.",
}
json.dump(m, open('/verif/MANIFEST.json', 'w'), indent=1)
print("claimed", len(checks), "not_applicable", len(na))
