#!/bin/bash
# rebase_seeded.sh: after a fix commit in /repo, find the kept and pending seeded patches that no longer apply to
# /repo HEAD and rebase them with a three-way merge in a scratch worktree (conflicts are reported, not resolved).
wt=$(mktemp -d /tmp/rebase-XXXXXX)
git -C /repo worktree add -q --detach $wt/repo HEAD || exit 2
trap 'git -C /repo worktree remove --force '$wt'/repo 2>/dev/null; rm -rf '$wt'' EXIT
for d in /verif/seeded/*/patch.diff /tmp/seed/out/*/m*.diff; do
  [ -f "$d" ] || continue
  case "$d" in /tmp/seed/out/*) n=$(basename $d .diff); n=${n#m}; id=$(basename $(dirname $d)); [ -d /verif/seeded/$id-$n ] && continue;; esac
  git -C /repo apply --check "$d" 2>/dev/null && continue
  git -C $wt/repo checkout -q -- . ; git -C $wt/repo clean -fdq
  if git -C $wt/repo apply --3way "$d" >/dev/null 2>&1 && ! git -C $wt/repo diff --name-only --diff-filter=U | grep -q .; then
    git -C $wt/repo diff HEAD > "$d.new" && [ -s "$d.new" ] && mv "$d.new" "$d" && echo "REBASED $d"
  else
    echo "CONFLICT $d"
  fi
done
