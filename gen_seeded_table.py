#!/usr/bin/env python3
"""Builds the detection table of DESIGN.md 10.5 from /verif/seeded/*/meta.json and the result files
(lines '<ID>-<N> rc=<exit code> harness=... clause=...;... [(retest ...)]' written by seedrun.sh / retest runs).
For every change: the first result (before any strengthening) and the last one."""
import json, glob, os, re, sys
first, last = {}, {}
for f in sys.argv[1:]:
    for l in open(f):
        m = re.match(r'(C\d\d-\d+) rc=(\S+) ?(.*)', l.strip())
        if not m:
            continue
        k = m.group(1)
        v = (m.group(2), m.group(3))
        if m.group(2) in ('2', 'APPLY-FAILED') and k in first:
            continue  # lab problems (build in progress) are not results
        if m.group(2) in ('2', 'APPLY-FAILED'):
            continue
        first.setdefault(k, v)
        last[k] = v
rows = ["| change | file(s) | what it does (short) | first run | reported by (harness / clause) |", "|---|---|---|---|---|"]
missed = 0
for d in sorted(glob.glob('/verif/seeded/C*-*')):
    n = os.path.basename(d)
    meta = json.load(open(d + '/meta.json'))
    s = meta['summary'].replace('\n', ' ').replace('|', '/')
    s = re.split(r'(?<=[a-z\)])\. ', s)[0][:200]
    rc, cl = last.get(n, ('?', ''))
    frc = first.get(n, ('?', ''))[0]
    cl = re.sub(r'\(retest.*', '', cl)
    firstcl = cl.split(';')[0].replace('harness=', '').replace(' clause=', ' / ').strip()
    verdict = firstcl if rc == '1' else ('NOT RUN' if rc == '?' else 'MISSED')
    if rc != '1' and meta.get('judged'):
        verdict = 'not reported: ' + meta['judged']
    fr = 'caught' if frc == '1' else ('-' if frc == '?' else 'missed')
    if frc not in ('1', '?'):
        missed += 1
    rows.append("| %s | %s | %s | %s | %s |" % (n, ', '.join(os.path.basename(x) for x in meta.get('files', [])), s, fr, verdict))
print('\n'.join(rows))
print('\n%d changes, %d missed by the check as it stood when the change arrived, %d missed now' % (len(rows) - 2, missed, sum(1 for r in rows if r.endswith('MISSED |'))), file=sys.stderr)
