#!/usr/bin/env python3
"""Builds the detection table of DESIGN.md 10.5 from /verif/seeded/*/meta.json and a results file
(lines '<ID>-<N> rc=<exit code> harness=… clause=…;…' written by the isolated mutant lab)."""
import json, glob, os, re, sys
res = {}
for f in sys.argv[1:]:
    for l in open(f):
        m = re.match(r'(C\d\d-\d+) rc=(\d+) ?(.*)', l.strip())
        if m:
            res[m.group(1)] = (m.group(2), m.group(3))
rows = ["| change | file(s) | what it does (short) | reported by (harness / clause) |", "|---|---|---|---|"]
for d in sorted(glob.glob('/verif/seeded/C*-*')):
    n = os.path.basename(d)
    meta = json.load(open(d + '/meta.json'))
    s = meta['summary'].replace('\n', ' ').replace('|', '/')
    s = re.split(r'(?<=[a-z\)])\. ', s)[0][:230]
    rc, cl = res.get(n, ('?', ''))
    first = cl.split(';')[0].replace('harness=', '').replace(' clause=', ' / ')
    verdict = first if rc == '1' else ('NOT RUN' if rc == '?' else 'rc=%s %s' % (rc, first))
    rows.append("| %s | %s | %s | %s |" % (n, ', '.join(os.path.basename(x) for x in meta.get('files', [])), s, verdict))
print('\n'.join(rows))
