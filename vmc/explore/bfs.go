package explore

import (
	"fmt"
	"runtime"
	"sort"
	"sync"
	"time"
)

// BFSConfig parametrises an explicit-state breadth-first search.  The body
// must take one step per choice point: `for c.More() { op := c.Choose(...);
// apply; c.State(key) }`.  A state is represented by the shortest history that
// reaches it; the successor is computed by replaying the history on a fresh
// object and taking one more step.
type BFSConfig struct {
	Name      string
	MaxDepth  int
	MaxStates int
	Workers   int
	Deadline  time.Time
	MaxFails  int
	NSamples  int
	Seed      int64
}

// BFSResult reports an explicit-state search.
type BFSResult struct {
	States      int64
	Transitions int64
	Executions  int64
	Depth       int
	Closure     bool // frontier emptied: all histories of any length are covered
	CapHit      string
	Violations  []*Violation
	HarnessErrs []string
	Samples     []any
	Wall        time.Duration
	DeadEnds    int64 // states with no enabled step
}

type bfsOut struct {
	hist   []int
	key    string
	hasKey bool
	n      int // alternatives at the last point
	fails  []Failure
	cas    any
	err    string
	dead   bool // no step was enabled
}

// BFS runs the search.
func BFS(cfg BFSConfig, body func(*Ctx)) *BFSResult {
	if cfg.Workers <= 0 {
		cfg.Workers = runtime.NumCPU()
	}
	if cfg.MaxFails <= 0 {
		cfg.MaxFails = 25
	}
	if cfg.NSamples <= 0 {
		cfg.NSamples = 3
	}
	start := time.Now()
	res := &BFSResult{}
	seen := map[string]struct{}{}
	viol := map[string]*Violation{}

	runHist := func(h []int) bfsOut {
		c, pmsg := ExecLimit(body, h, false, len(h))
		o := bfsOut{hist: h, key: c.stateKey, hasKey: c.hasKey, fails: c.fails}
		if c.replayErr != "" {
			o.err = c.replayErr
			return o
		}
		if pmsg != "" {
			o.fails = append(o.fails, Failure{Clause: "panic", Sig: PanicSignature(pmsg), Msg: pmsg})
		}
		if len(c.choices) < len(h) && pmsg == "" {
			o.dead = true // no enabled step in the state reached by h[:len-1]
			return o
		}
		if len(c.choices) > len(h) {
			o.err = fmt.Sprintf("history %v: body made %d choices (More() not honoured)", h, len(c.choices))
			return o
		}
		if len(c.choices) > 0 {
			o.n = c.ns[len(c.choices)-1]
		}
		if len(o.fails) > 0 || len(h)%3 == 0 {
			o.cas = c.SampleValue()
		}
		return o
	}

	// initial state: empty history
	init := runHist(nil)
	if init.err != "" {
		res.HarnessErrs = append(res.HarnessErrs, cfg.Name+": "+init.err)
		return res
	}
	seen[init.key] = struct{}{}
	res.States = 1
	frontier := [][]int{{}}
	depth := 0
	for len(frontier) > 0 {
		if cfg.MaxDepth > 0 && depth >= cfg.MaxDepth {
			res.CapHit = fmt.Sprintf("max depth %d (frontier %d states)", cfg.MaxDepth, len(frontier))
			break
		}
		if StopAll.Load() || !cfg.Deadline.IsZero() && time.Now().After(cfg.Deadline) {
			res.CapHit = fmt.Sprintf("deadline at depth %d", depth)
			break
		}
		depth++
		// expand every frontier state by every alternative, in parallel
		outs := make([][]bfsOut, len(frontier))
		var wg sync.WaitGroup
		idx := make(chan int, len(frontier))
		for i := range frontier {
			idx <- i
		}
		close(idx)
		for w := 0; w < cfg.Workers; w++ {
			wg.Add(1)
			go func() {
				defer wg.Done()
				for i := range idx {
					h := frontier[i]
					first := runHist(append(append([]int{}, h...), 0))
					if first.err != "" || first.dead {
						outs[i] = []bfsOut{first}
						continue
					}
					os := []bfsOut{first}
					for alt := 1; alt < first.n; alt++ {
						os = append(os, runHist(append(append([]int{}, h...), alt)))
					}
					outs[i] = os
				}
			}()
		}
		wg.Wait()
		var next [][]int
		for i := range frontier {
			for _, o := range outs[i] {
				res.Executions++
				if o.dead {
					res.DeadEnds++
					continue
				}
				if o.err != "" {
					res.HarnessErrs = append(res.HarnessErrs, cfg.Name+": "+o.err)
					continue
				}
				res.Transitions++
				for _, f := range o.fails {
					k := f.Clause + "\x00" + f.Sig
					if v, ok := viol[k]; ok {
						v.Count++
						continue
					}
					if len(viol) < cfg.MaxFails {
						viol[k] = &Violation{Failure: f, Harness: cfg.Name, Choices: o.hist, Case: o.cas, Count: 1}
					}
				}
				if len(o.fails) > 0 {
					continue // do not explore beyond a failing step
				}
				if !o.hasKey {
					res.HarnessErrs = append(res.HarnessErrs, cfg.Name+": body did not report a state key")
					continue
				}
				if _, ok := seen[o.key]; ok {
					continue
				}
				seen[o.key] = struct{}{}
				res.States++
				if len(res.Samples) < cfg.NSamples && o.cas != nil && (int64(len(o.hist))+cfg.Seed)%2 == 0 {
					res.Samples = append(res.Samples, o.cas)
				}
				next = append(next, o.hist)
			}
		}
		if len(res.HarnessErrs) > 0 {
			break
		}
		if cfg.MaxStates > 0 && int(res.States) > cfg.MaxStates {
			res.CapHit = fmt.Sprintf("max states %d at depth %d", cfg.MaxStates, depth)
			frontier = next
			break
		}
		frontier = next
	}
	res.Depth = depth
	res.Closure = len(frontier) == 0 && res.CapHit == "" && len(viol) == 0
	for _, v := range viol {
		res.Violations = append(res.Violations, v)
	}
	sort.Slice(res.Violations, func(i, j int) bool {
		return res.Violations[i].Clause+res.Violations[i].Sig < res.Violations[j].Clause+res.Violations[j].Sig
	})
	res.Wall = time.Since(start)
	return res
}
