// Package explore is the stateless, deviation-bounded choice explorer
// described in DESIGN.md section 2.1.
//
// A harness body is a deterministic function of the choices it is given.  The
// explorer re-executes the body once per choice sequence, systematically
// enumerating every sequence (uniform points) and every sequence with at most
// Bound departures from the default answer (deviation points).
package explore

import (
	"fmt"
	"hash/fnv"
	"os"
	"runtime"
	"runtime/debug"
	"sort"
	"strconv"
	"strings"
	"sync"
	"sync/atomic"
	"time"
)

// Ctx is handed to the harness body for one execution.
type Ctx struct {
	prefix  []int
	choices []int
	ns      []int
	dev     []bool
	labels  []string
	wantLab bool

	fails      []Failure
	outcome    uint64
	hasOutcome bool
	nontrivial bool
	sample     func() any
	tags       []string
	counts     map[string]int64
	replayErr  string

	limit    int // BFS: stop offering steps once this many choices were made (<0 = no limit)
	stateKey string
	hasKey   bool

	shardI, shardK int      // sharded exploration: this process owns the executions with key % shardK == shardI
	ckpt           *os.File // sharded exploration: the execution in flight is recorded here (crash containment)
}

// Shard is called by a body after its last choice point with a key computed
// from the choices.  Under a sharded exploration (several processes walking
// the same choice tree) the execution continues only in the process that owns
// the key; elsewhere it ends here (the choice points made so far still
// generate the same children in every process).
func (c *Ctx) Shard(key uint64) {
	if c.shardK > 1 && int(key%uint64(c.shardK)) != c.shardI {
		panic(abortExec{"shard"})
	}
}

// Checkpoint records the choice sequence made so far as "in flight", so that
// the parent process can name the input if this process dies (stack overflow
// and out-of-memory are fatal in Go and cannot be recovered).
func (c *Ctx) Checkpoint() {
	if c.ckpt == nil {
		return
	}
	var buf [4096]byte
	b := strconv.AppendInt(buf[:0], int64(len(c.choices)), 10)
	for _, x := range c.choices {
		b = append(b, ' ')
		b = strconv.AppendInt(b, int64(x), 10)
		if len(b) > 4000 {
			break
		}
	}
	b = append(b, '\n')
	c.ckpt.WriteAt(b[:len(b)], 0)
}

// KeyOf mixes integers into a shard key.
func KeyOf(vals ...int) uint64 {
	h := uint64(0x9E3779B97F4A7C15)
	for _, v := range vals {
		h ^= uint64(v) + 0x9E3779B97F4A7C15 + (h << 6) + (h >> 2)
		h *= 0xD1B54A32D192ED03
		h ^= h >> 31
	}
	return h
}

// More reports whether the body should take another step.  Under the
// breadth-first engine a body takes exactly one step beyond the replayed
// history; under the depth-first engine it is bounded by the limit given in
// the configuration (MaxSteps).
func (c *Ctx) More() bool { return c.limit < 0 || len(c.choices) < c.limit }

// State reports the canonical key of the state reached after a step.
func (c *Ctx) State(key string) { c.stateKey, c.hasKey = key, true }

// Failure is one oracle clause that did not hold in one execution.
type Failure struct {
	Clause string // stable clause id, e.g. "C17.value"
	Sig    string // witness signature: identifies the failing call site / minimal case
	Msg    string // human readable detail
	// Observed marks a failure that is its own witness (two identical calls
	// inside one execution gave different answers): it needs no confirmation
	// by re-execution, and may not reproduce when the cause is nondeterminism.
	Observed bool
}

type abortExec struct{ why string }

func (c *Ctx) point(n int, label string, dev bool) int {
	if n <= 0 {
		panic(fmt.Sprintf("explore: choice point %q with n=%d", label, n))
	}
	i := len(c.choices)
	v := 0
	if i < len(c.prefix) {
		v = c.prefix[i]
		if v >= n {
			c.replayErr = fmt.Sprintf("replayed choice %d at point %d (%s) out of range n=%d", v, i, label, n)
			panic(abortExec{c.replayErr})
		}
	}
	c.choices = append(c.choices, v)
	c.ns = append(c.ns, n)
	c.dev = append(c.dev, dev)
	if c.wantLab {
		c.labels = append(c.labels, label)
	}
	return v
}

// Choose is a uniform choice point: every alternative costs nothing.
func (c *Ctx) Choose(n int, label string) int { return c.point(n, label, false) }

// Deviate is a deviation point: alternative 0 is the default answer and is
// free, every other alternative costs one unit of the deviation bound.
func (c *Ctx) Deviate(n int, label string) int { return c.point(n, label, true) }

// Bool is Choose(2) != 0.
func (c *Ctx) Bool(label string) bool { return c.Choose(2, label) != 0 }

// Pick returns one of the given values.
func Pick[T any](c *Ctx, label string, vals ...T) T { return vals[c.Choose(len(vals), label)] }

// PickDev is Pick through a deviation point (vals[0] is the default).
func PickDev[T any](c *Ctx, label string, vals ...T) T { return vals[c.Deviate(len(vals), label)] }

// Fail records a violated oracle clause.
func (c *Ctx) Fail(clause, sig, format string, args ...any) {
	c.fails = append(c.fails, Failure{Clause: clause, Sig: sig, Msg: fmt.Sprintf(format, args...)})
}

// FailObserved records a nondeterminism witnessed inside this execution.
func (c *Ctx) FailObserved(clause, sig, format string, args ...any) {
	c.fails = append(c.fails, Failure{Clause: clause, Sig: sig, Msg: fmt.Sprintf(format, args...), Observed: true})
}

// StopAll is set by an execution that observed a call which does not return and keeps allocating memory
// (the goroutine cannot be stopped): the exploration ends as at a deadline, so that the violation is
// reported before the process runs out of memory.
var StopAll atomic.Bool

// StopExploration ends this and all later explorations of the process (see StopAll).
func (c *Ctx) StopExploration() { StopAll.Store(true) }

// Failed reports whether a clause has failed in this execution.
func (c *Ctx) Failed() bool { return len(c.fails) > 0 }

// Outcome records the observable result of the execution (for the
// distinct-outcome count).  Multiple calls are combined.
func (c *Ctx) Outcome(parts ...any) {
	h := fnv.New64a()
	fmt.Fprint(h, c.outcome)
	for _, p := range parts {
		switch v := p.(type) {
		case []byte:
			h.Write(v)
		case string:
			h.Write([]byte(v))
		default:
			fmt.Fprintf(h, "%v", v)
		}
		h.Write([]byte{0})
	}
	c.outcome = h.Sum64()
	c.hasOutcome = true
}

// Nontrivial marks the execution as non-trivial by the harness's stated rule.
func (c *Ctx) Nontrivial() { c.nontrivial = true }

// Tag counts the execution under a named category (reported in evidence).
func (c *Ctx) Tag(t string) { c.tags = append(c.tags, t) }

// Count adds n to a named counter (reported with the tags in the evidence).
func (c *Ctx) Count(name string, n int64) {
	if c.counts == nil {
		c.counts = map[string]int64{}
	}
	c.counts[name] += n
}

// Sample registers a function that renders the case in human-readable form;
// it is only called for cases that are written out.
func (c *Ctx) Sample(f func() any) { c.sample = f }

// Skip aborts the execution without a verdict (case outside the domain).
func (c *Ctx) Skip(why string) { panic(abortExec{"skip:" + why}) }

// Config parametrises one exploration.
type Config struct {
	Name      string // harness name, e.g. "C17.bfs"
	Bound     int    // deviation bound (ignored when no Deviate points are used)
	Workers   int
	Deadline  time.Time // zero = none
	MaxExec   int64     // 0 = unlimited
	Seed      int64     // rotates which samples are kept
	NSamples  int
	MaxFails  int                 // stop after that many distinct failure classes (default 25)
	PanicSig  func(string) string // optional: turn a panic stack into a signature
	NoRecover bool
	// sharded exploration (see Ctx.Shard)
	ShardIndex, ShardCount int
	Checkpoint             *os.File
}

// Violation is a distinct failure class with the first execution that showed it.
type Violation struct {
	Failure
	Harness string
	Choices []int
	Labels  []string
	Case    any
	Count   int64
	// Concurrent is set by the driver when the failure only occurs while several executions run at once.
	Concurrent int
}

// Result of an exploration.
type Result struct {
	Name             string
	Bound            int
	Executions       int64
	Skipped          int64
	ChoicePoints     int64
	MaxDepth         int
	DistinctOutcomes int
	OutcomeSet       []uint64 `json:",omitempty"` // sharded exploration: the outcome hashes, for merging
	NontrivSet       []uint64 `json:",omitempty"`
	Nontrivial       int64    // executions flagged non-trivial
	DistinctNontriv  int      // distinct outcomes among non-trivial executions
	Exhaustive       bool
	CapHit           string
	Tags             map[string]int64
	Samples          []any
	Violations       []*Violation
	HarnessErrors    []string // nondeterminism and the like: exit 2
	Wall             time.Duration
}

type task struct {
	prefix []int
	cost   int
}

type explorer struct {
	cfg  Config
	body func(*Ctx)

	mu       sync.Mutex
	cond     *sync.Cond
	queue    []task
	active   int
	stop     bool
	capHit   string
	outcomes map[uint64]struct{}
	ntOut    map[uint64]struct{}
	viol     map[string]*Violation
	tags     map[string]int64
	samples  []any
	sampleN  int64
	herr     []string
	maxDepth int

	execs, skipped, points, nontriv atomic.Int64
}

// Run explores body exhaustively within cfg.Bound.
func Run(cfg Config, body func(*Ctx)) *Result {
	if cfg.Workers <= 0 {
		cfg.Workers = runtime.NumCPU()
	}
	if cfg.NSamples <= 0 {
		cfg.NSamples = 4
	}
	if cfg.MaxFails <= 0 {
		cfg.MaxFails = 25
	}
	e := &explorer{cfg: cfg, body: body,
		outcomes: map[uint64]struct{}{}, ntOut: map[uint64]struct{}{},
		viol: map[string]*Violation{}, tags: map[string]int64{}}
	e.cond = sync.NewCond(&e.mu)
	e.queue = []task{{nil, 0}}
	start := time.Now()
	var wg sync.WaitGroup
	for w := 0; w < cfg.Workers; w++ {
		wg.Add(1)
		go func() {
			defer wg.Done()
			e.worker()
		}()
	}
	wg.Wait()
	r := &Result{Name: cfg.Name, Bound: cfg.Bound,
		Executions: e.execs.Load(), Skipped: e.skipped.Load(), ChoicePoints: e.points.Load(),
		MaxDepth: e.maxDepth, DistinctOutcomes: len(e.outcomes), Nontrivial: e.nontriv.Load(),
		DistinctNontriv: len(e.ntOut), Exhaustive: e.capHit == "" && len(e.herr) == 0,
		CapHit: e.capHit, Tags: e.tags, Samples: e.samples, HarnessErrors: e.herr,
		Wall: time.Since(start)}
	if cfg.ShardCount > 1 {
		for h := range e.outcomes {
			r.OutcomeSet = append(r.OutcomeSet, h)
		}
		for h := range e.ntOut {
			r.NontrivSet = append(r.NontrivSet, h)
		}
	}
	for _, v := range e.viol {
		r.Violations = append(r.Violations, v)
	}
	sort.Slice(r.Violations, func(i, j int) bool {
		a, b := r.Violations[i], r.Violations[j]
		if a.Clause != b.Clause {
			return a.Clause < b.Clause
		}
		return a.Sig < b.Sig
	})
	if len(r.Violations) >= cfg.MaxFails {
		r.Exhaustive = false
		if r.CapHit == "" {
			r.CapHit = "stopped after max distinct failure classes"
		}
	}
	return r
}

func (e *explorer) worker() {
	var local []task
	for {
		var t task
		if len(local) > 0 {
			t = local[len(local)-1]
			local = local[:len(local)-1]
		} else {
			e.mu.Lock()
			for len(e.queue) == 0 && e.active > 0 && !e.stop {
				e.cond.Wait()
			}
			if e.stop || len(e.queue) == 0 {
				e.mu.Unlock()
				e.cond.Broadcast()
				return
			}
			t = e.queue[len(e.queue)-1]
			e.queue = e.queue[:len(e.queue)-1]
			e.active++
			e.mu.Unlock()
		}

		children := e.runOne(t)

		e.mu.Lock()
		stop := e.stop
		share := len(e.queue) < 4*e.cfg.Workers
		if stop {
			children = nil
			local = nil
		}
		if share && len(children) > 0 {
			// hand the shallowest half to the shared queue
			k := (len(children) + 1) / 2
			e.queue = append(e.queue, children[:k]...)
			children = children[k:]
			e.cond.Broadcast()
		}
		local = append(local, children...)
		if len(local) == 0 {
			e.active--
			if e.active == 0 {
				e.cond.Broadcast()
			}
		}
		e.mu.Unlock()
		if len(local) == 0 {
			continue
		}
	}
}

// Exec runs body once on the given choice sequence (default answers after
// it) and returns the context.  Used for replay.
func Exec(body func(*Ctx), prefix []int, labels bool) (c *Ctx, panicMsg string) {
	return ExecLimit(body, prefix, labels, -1)
}

// ExecLimit is Exec with a step limit (see Ctx.More).
func ExecLimit(body func(*Ctx), prefix []int, labels bool, limit int) (c *Ctx, panicMsg string) {
	return execCfg(body, prefix, labels, limit, nil)
}

func execCfg(body func(*Ctx), prefix []int, labels bool, limit int, cfg *Config) (c *Ctx, panicMsg string) {
	c = &Ctx{prefix: prefix, wantLab: labels, limit: limit}
	if cfg != nil {
		c.shardI, c.shardK, c.ckpt = cfg.ShardIndex, cfg.ShardCount, cfg.Checkpoint
	}
	func() {
		defer func() {
			if r := recover(); r != nil {
				if a, ok := r.(abortExec); ok {
					if strings.HasPrefix(a.why, "skip:") || a.why == "shard" {
						c.fails = nil
						c.hasOutcome = false
						c.tags = append(c.tags, a.why)
					}
					return
				}
				panicMsg = fmt.Sprintf("%v\n%s", r, debug.Stack())
			}
		}()
		body(c)
	}()
	return c, panicMsg
}

// Choices returns the choice sequence of the execution.
func (c *Ctx) Choices() []int { return c.choices }

// Labels returns the labels of the choice points (if recorded).
func (c *Ctx) Labels() []string { return c.labels }

// Fails returns the failures recorded.
func (c *Ctx) Fails() []Failure { return c.fails }

// ReplayErr is non-empty if the replayed prefix did not fit the body.
func (c *Ctx) ReplayErr() string { return c.replayErr }

// SampleValue renders the case.
func (c *Ctx) SampleValue() any {
	if c.sample == nil {
		return map[string]any{"choices": c.choices}
	}
	return safeSample(c.sample)
}

func safeSample(f func() any) (v any) {
	defer func() {
		if r := recover(); r != nil {
			v = fmt.Sprintf("sample renderer panicked: %v", r)
		}
	}()
	return f()
}

// PanicSignature extracts the innermost library frame from a panic stack.
func PanicSignature(stack string) string {
	lines := strings.Split(stack, "\n")
	first := lines[0]
	if len(first) > 80 {
		first = first[:80]
	}
	// find first frame after "panic(" that belongs to seehuhn.de/go/sfnt
	seenPanic := false
	for i := 0; i < len(lines); i++ {
		l := lines[i]
		if strings.HasPrefix(l, "panic(") {
			seenPanic = true
			continue
		}
		if seenPanic && strings.HasPrefix(l, "seehuhn.de/go/sfnt") {
			fn := l
			if k := strings.LastIndex(fn, "("); k > 0 {
				fn = fn[:k]
			}
			return fn + ": " + normalisePanic(first)
		}
	}
	return normalisePanic(first)
}

func normalisePanic(s string) string {
	// drop concrete numbers from "index out of range [5] with length 3"
	var b strings.Builder
	inNum := false
	for _, r := range s {
		if r >= '0' && r <= '9' {
			if !inNum {
				b.WriteByte('N')
			}
			inNum = true
			continue
		}
		inNum = false
		b.WriteRune(r)
	}
	return b.String()
}

func (e *explorer) runOne(t task) []task {
	if StopAll.Load() {
		e.mu.Lock()
		e.stop = true
		e.capHit = "stopped: a call that does not return was observed"
		e.mu.Unlock()
		e.cond.Broadcast()
		return nil
	}
	if !e.cfg.Deadline.IsZero() && time.Now().After(e.cfg.Deadline) {
		e.mu.Lock()
		e.stop = true
		e.capHit = "deadline"
		e.mu.Unlock()
		e.cond.Broadcast()
		return nil
	}
	n := e.execs.Add(1)
	if e.cfg.MaxExec > 0 && n > e.cfg.MaxExec {
		e.execs.Add(-1)
		e.mu.Lock()
		e.stop = true
		e.capHit = fmt.Sprintf("max executions %d", e.cfg.MaxExec)
		e.mu.Unlock()
		e.cond.Broadcast()
		return nil
	}
	c, pmsg := execCfg(e.body, t.prefix, false, -1, &e.cfg)
	if c.replayErr != "" || len(c.choices) < len(t.prefix) {
		e.mu.Lock()
		e.herr = append(e.herr, fmt.Sprintf("%s: nondeterministic harness: prefix %v: %s (consumed %d of %d)", e.cfg.Name, t.prefix, c.replayErr, len(c.choices), len(t.prefix)))
		e.stop = true
		e.mu.Unlock()
		e.cond.Broadcast()
		return nil
	}
	e.points.Add(int64(len(c.choices) - len(t.prefix)))
	if len(t.prefix) > 0 {
		e.points.Add(1) // the alternative taken at the last prefix position is a step of its own
	}
	if pmsg != "" {
		sig := PanicSignature(pmsg)
		if e.cfg.PanicSig != nil {
			sig = e.cfg.PanicSig(pmsg)
		}
		c.fails = append(c.fails, Failure{Clause: "panic", Sig: sig, Msg: pmsg})
	}
	skipped := false
	for i, tg := range c.tags {
		if strings.HasPrefix(tg, "skip:") {
			skipped = true
		}
		if tg == "shard" {
			// the execution belongs to another process: it only contributes its choice points
			skipped = true
			e.execs.Add(-1)
			e.skipped.Add(-1)
			c.tags = append(c.tags[:i:i], c.tags[i+1:]...)
			c.nontrivial = false
			break
		}
	}
	if skipped {
		e.skipped.Add(1)
	}
	if c.nontrivial {
		e.nontriv.Add(1)
	}

	e.mu.Lock()
	if len(c.choices) > e.maxDepth {
		e.maxDepth = len(c.choices)
	}
	if c.hasOutcome {
		e.outcomes[c.outcome] = struct{}{}
		if c.nontrivial {
			e.ntOut[c.outcome] = struct{}{}
		}
	}
	for _, tg := range c.tags {
		e.tags[tg]++
	}
	for k, n := range c.counts {
		if strings.HasPrefix(k, "max:") {
			e.tags[k] = max(e.tags[k], n)
		} else {
			e.tags[k] += n
		}
	}
	if !skipped && c.sample != nil {
		// reservoir of NSamples, rotated by seed
		e.sampleN++
		if len(e.samples) < e.cfg.NSamples {
			e.samples = append(e.samples, c.SampleValue())
		} else {
			h := uint64(e.sampleN)*0x9E3779B97F4A7C15 ^ uint64(e.cfg.Seed)*0xD1B54A32D192ED03
			h ^= h >> 29
			if h%uint64(e.sampleN) < uint64(e.cfg.NSamples) {
				e.samples[h%uint64(e.cfg.NSamples)] = c.SampleValue()
			}
		}
	}
	for _, f := range c.fails {
		key := f.Clause + "\x00" + f.Sig
		if v, ok := e.viol[key]; ok {
			v.Count++
			// keep the shortest witness
			if len(c.choices) < len(v.Choices) {
				v.Choices = append([]int(nil), c.choices...)
				v.Msg = f.Msg
				v.Case = c.SampleValue()
			}
			continue
		}
		if len(e.viol) >= e.cfg.MaxFails {
			e.stop = true
			break
		}
		e.viol[key] = &Violation{Failure: f, Harness: e.cfg.Name,
			Choices: append([]int(nil), c.choices...), Case: c.SampleValue(), Count: 1}
	}
	stopped := e.stop
	e.mu.Unlock()
	if stopped {
		e.cond.Broadcast()
		return nil
	}

	// children: for every point after the prefix, every alternative within the bound
	var kids []task
	cost := t.cost
	// cost of positions inside the prefix is already in t.cost
	for i := len(t.prefix); i < len(c.choices); i++ {
		ni := c.ns[i]
		if ni > 1 {
			altCost := cost
			if c.dev[i] {
				altCost++
			}
			if !c.dev[i] || altCost <= e.cfg.Bound {
				for alt := 1; alt < ni; alt++ {
					p := make([]int, i+1)
					copy(p, c.choices[:i])
					p[i] = alt
					kids = append(kids, task{p, altCost})
				}
			}
		}
		// choices after the prefix are all 0 (default), so no cost accrues
	}
	// order: deepest first at the end so that LIFO explores depth-first
	return kids
}

// Fatal prints a harness error and exits 2 (the check is broken, not the code).
func Fatal(format string, args ...any) {
	fmt.Fprintf(os.Stderr, "HARNESS-ERROR: "+format+"\n", args...)
	os.Exit(2)
}
