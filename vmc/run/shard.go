package run

import (
	"bytes"
	"encoding/json"
	"fmt"
	"os"
	"os/exec"
	"runtime"
	"strconv"
	"strings"
	"sync"
	"syscall"
	"time"

	"verif/explore"
)

// Sharded exploration: K worker processes walk the same choice tree, each one
// executing only the executions whose shard key it owns (explore.Ctx.Shard),
// with ONE explorer worker per process.  This gives
//   - crash containment: stack overflow and out-of-memory are fatal in Go; when
//     a worker process dies the parent names the input that was in flight
//     (explore.Ctx.Checkpoint) and reports it as a violation;
//   - exact per-execution accounting: with one goroutine running library code
//     per process, the step counter and the allocation counter of an
//     execution are not polluted by other executions.

type shardSpec struct {
	name     string
	i, k     int
	deadline time.Time
	ckpt     string
	out      string
}

func childSpec() *shardSpec {
	v := os.Getenv("VERIF_SHARD")
	if v == "" {
		return nil
	}
	f := strings.Split(v, "|")
	if len(f) != 6 {
		explore.Fatal("bad VERIF_SHARD %q", v)
	}
	i, _ := strconv.Atoi(f[1])
	k, _ := strconv.Atoi(f[2])
	ms, _ := strconv.ParseInt(f[3], 10, 64)
	return &shardSpec{name: f[0], i: i, k: k, deadline: time.UnixMilli(ms), ckpt: f[4], out: f[5]}
}

// InChild reports whether this process is a shard worker (harnesses skip everything but the named part).
func InChild() bool { return os.Getenv("VERIF_SHARD") != "" }

// skipInChild: parts other than the one this worker process was started for are not run.
func skipInChild(name string) bool {
	sp := childSpec()
	return sp != nil && sp.name != name
}

// ExploreSharded is Explore with the executions distributed over k worker processes.
func (r *Run) ExploreSharded(cfg explore.Config, rule string, k int, memLimit uint64, body func(*explore.Ctx)) *Part {
	if r.replay != nil {
		if r.replay.Harness == cfg.Name {
			r.doReplay(cfg, body)
		}
		return &Part{Name: cfg.Name}
	}
	if sp := childSpec(); sp != nil {
		if sp.name != cfg.Name {
			return &Part{Name: cfg.Name}
		}
		// ---- worker process ----
		if memLimit > 0 {
			lim := syscall.Rlimit{Cur: memLimit, Max: memLimit}
			syscall.Setrlimit(syscall.RLIMIT_AS, &lim)
		}
		f, err := os.OpenFile(sp.ckpt, os.O_RDWR|os.O_CREATE, 0o644)
		if err != nil {
			explore.Fatal("shard worker: %v", err)
		}
		cfg.Workers, cfg.ShardIndex, cfg.ShardCount, cfg.Checkpoint = 1, sp.i, sp.k, f
		cfg.Deadline, cfg.Seed = sp.deadline, r.Seed
		res := explore.Run(cfg, body)
		data, err := json.Marshal(res)
		if err != nil {
			explore.Fatal("shard worker: %v", err)
		}
		if err := os.WriteFile(sp.out, data, 0o644); err != nil {
			explore.Fatal("shard worker: %v", err)
		}
		os.Exit(0)
	}
	if only := os.Getenv("VERIF_ONLY"); only != "" && !strings.Contains(cfg.Name, only) {
		return &Part{Name: cfg.Name}
	}
	// ---- parent ----
	if cfg.Deadline.IsZero() {
		cfg.Deadline = r.deadline
	}
	if k <= 0 {
		k = runtime.NumCPU()
	}
	start := time.Now()
	dir, err := os.MkdirTemp(os.Getenv("VERIF_BUILD"), "shard-")
	if err != nil {
		explore.Fatal("ExploreSharded: %v", err)
	}
	defer os.RemoveAll(dir)
	type childRes struct {
		res    *explore.Result
		crash  string
		inFlt  []int
		hasFlt bool
	}
	results := make([]childRes, k)
	var wg sync.WaitGroup
	for i := 0; i < k; i++ {
		wg.Add(1)
		go func(i int) {
			defer wg.Done()
			ckpt := fmt.Sprintf("%s/inflight-%d", dir, i)
			out := fmt.Sprintf("%s/result-%d.json", dir, i)
			cmd := exec.Command(os.Args[0], r.Prop, "--tier", r.Tier)
			cmd.Env = append(os.Environ(),
				fmt.Sprintf("VERIF_SHARD=%s|%d|%d|%d|%s|%s", cfg.Name, i, k, cfg.Deadline.UnixMilli(), ckpt, out),
				"GOMAXPROCS=2", "GOTRACEBACK=single")
			var stderr bytes.Buffer
			cmd.Stderr = &stderr
			cmd.Stdout = &stderr
			err := cmd.Run()
			if err == nil {
				if data, rerr := os.ReadFile(out); rerr == nil {
					var res explore.Result
					if jerr := json.Unmarshal(data, &res); jerr == nil {
						results[i].res = &res
						return
					}
				}
			}
			// the worker died (or reported a harness error)
			msg := stderr.String()
			if len(msg) > 3000 {
				msg = msg[:1500] + "\n...\n" + msg[len(msg)-1500:]
			}
			results[i].crash = fmt.Sprintf("worker process %d of %d ended abnormally (%v):\n%s", i, k, err, msg)
			if data, rerr := os.ReadFile(ckpt); rerr == nil {
				line := strings.SplitN(string(data), "\n", 2)[0]
				fs := strings.Fields(line)
				if len(fs) >= 1 {
					n, _ := strconv.Atoi(fs[0])
					if n == len(fs)-1 {
						for _, x := range fs[1:] {
							v, _ := strconv.Atoi(x)
							results[i].inFlt = append(results[i].inFlt, v)
						}
						results[i].hasFlt = true
					}
				}
			}
		}(i)
	}
	wg.Wait()
	p := &Part{Name: cfg.Name, Engine: fmt.Sprintf("choice-explorer, %d worker processes (one explorer goroutine each; crash-contained, per-execution step and allocation counters)", k),
		Rule: rule, Bound: cfg.Bound, Exhaustive: true, Tags: map[string]int64{}}
	outcomes, ntOut := map[uint64]struct{}{}, map[uint64]struct{}{}
	viol := map[string]*explore.Violation{}
	var order []string
	var samples []any
	var herr []string
	for i, cr := range results {
		if cr.res == nil {
			p.Exhaustive = false
			p.CapHit = "a worker process died; the rest of its shard was not explored"
			if strings.Contains(cr.crash, "HARNESS-ERROR") || !cr.hasFlt {
				herr = append(herr, cr.crash)
				continue
			}
			sig := "process died"
			for _, l := range strings.Split(cr.crash, "\n") {
				if strings.HasPrefix(l, "fatal error:") || strings.HasPrefix(l, "runtime: goroutine stack exceeds") || strings.HasPrefix(l, "signal:") {
					sig = strings.TrimSpace(l)
					break
				}
			}
			key := r.Prop + ".crash\x00" + sig
			if _, ok := viol[key]; !ok {
				order = append(order, key)
				viol[key] = &explore.Violation{Failure: explore.Failure{Clause: r.Prop + ".crash", Sig: sig,
					Msg: "the process running the library died (not recoverable) while executing the recorded choice sequence:\n" + cr.crash, Observed: true},
					Harness: cfg.Name, Choices: cr.inFlt, Count: 1}
			}
			continue
		}
		res := cr.res
		p.Executions += res.Executions
		p.Skipped += res.Skipped
		p.Nontrivial += res.Nontrivial
		if i == 0 || res.ChoicePoints > p.Transitions {
			p.Transitions = res.ChoicePoints // every worker walks the whole tree
		}
		p.MaxDepth = max(p.MaxDepth, res.MaxDepth)
		if !res.Exhaustive {
			p.Exhaustive = false
			if p.CapHit == "" {
				p.CapHit = res.CapHit
			}
		}
		for _, h := range res.OutcomeSet {
			outcomes[h] = struct{}{}
		}
		for _, h := range res.NontrivSet {
			ntOut[h] = struct{}{}
		}
		for t, n := range res.Tags {
			if strings.HasPrefix(t, "max:") {
				p.Tags[t] = max(p.Tags[t], n)
			} else {
				p.Tags[t] += n
			}
		}
		if len(samples) < 4 {
			samples = append(samples, res.Samples...)
		}
		herr = append(herr, res.HarnessErrors...)
		for _, v := range res.Violations {
			key := v.Clause + "\x00" + v.Sig
			if old, ok := viol[key]; ok {
				old.Count += v.Count
				if len(v.Choices) < len(old.Choices) {
					old.Choices, old.Msg, old.Case = v.Choices, v.Msg, v.Case
				}
			} else {
				order = append(order, key)
				viol[key] = v
			}
		}
	}
	if len(samples) > 4 {
		samples = samples[:4]
	}
	var vl []*explore.Violation
	for _, kx := range order {
		vl = append(vl, viol[kx])
	}
	p.States, p.DistinctOutcomes, p.DistinctNontriv = int64(len(outcomes)), int64(len(outcomes)), int64(len(ntOut))
	p.WallS = time.Since(start).Seconds()
	p.samples, p.violations, p.herr, p.body = samples, vl, herr, body
	r.parts = append(r.parts, p)
	fmt.Printf("part %s: processes=%d executions=%d choice_points=%d max_depth=%d distinct_outcomes=%d nontrivial=%d distinct_nontrivial=%d exhaustive=%v %s violations=%d wall=%.1fs\n",
		p.Name, k, p.Executions, p.Transitions, p.MaxDepth, p.DistinctOutcomes, p.Nontrivial, p.DistinctNontriv, p.Exhaustive, p.CapHit, len(vl), p.WallS)
	return p
}
