// Package run is the per-property driver: it collects the results of the
// explorations ("parts") that make up one check, classifies violations
// (known finding / violation / flaky harness), writes the replay artefacts
// and the evidence file, and decides the exit code.
package run

import (
	"crypto/sha1"
	"encoding/json"
	"fmt"
	"os"
	"path/filepath"
	"runtime"
	"sort"
	"strings"
	"sync"
	"time"

	"verif/explore"
)

// Root is the /verif directory.
var Root = func() string {
	if r := os.Getenv("VERIF_ROOT"); r != "" {
		return r
	}
	return "/verif"
}()

// Part is the record of one exploration inside a check.
type Part struct {
	Name             string           `json:"name"`
	Engine           string           `json:"engine"`
	Rule             string           `json:"rule,omitempty"`
	Bound            int              `json:"deviation_bound"`
	Executions       int64            `json:"executions"`
	Skipped          int64            `json:"skipped_out_of_domain,omitempty"`
	States           int64            `json:"states"`
	Transitions      int64            `json:"transitions"`
	MaxDepth         int              `json:"max_depth"`
	DistinctOutcomes int64            `json:"distinct_outcomes"`
	Nontrivial       int64            `json:"nontrivial_executions"`
	DistinctNontriv  int64            `json:"distinct_nontrivial"`
	Exhaustive       bool             `json:"exhaustive"`
	CapHit           string           `json:"cap_hit,omitempty"`
	Closure          *bool            `json:"closure_reached,omitempty"`
	Tags             map[string]int64 `json:"tags,omitempty"`
	WallS            float64          `json:"wall_s"`
	Extra            map[string]any   `json:"extra,omitempty"`
	samples          []any
	violations       []*explore.Violation
	herr             []string
	body             func(*explore.Ctx)
	bfs              bool
	workers          int // explorer workers that ran executions of this part concurrently in one process
}

// Run is one invocation of a check.
type Run struct {
	Prop   string
	Tier   string
	Seed   int64
	Level  string // evidence level
	Rule   string
	Assume []string
	start  time.Time
	parts  []*Part
	replay *Replay
	// MinNontrivial makes the check exit 2 (vacuous) when fewer distinct
	// non-trivial cases were seen.
	MinNontrivial int64
	deadline      time.Time
	notes         []string
}

// Replay is the on-disk form of a violation.
type Replay struct {
	Property string         `json:"property"`
	Harness  string         `json:"harness"`
	Tier     string         `json:"tier"`
	Clause   string         `json:"clause"`
	Sig      string         `json:"signature"`
	Choices  []int          `json:"choices"`
	Labels   []string       `json:"labels,omitempty"`
	Case     any            `json:"case"`
	Message  string         `json:"message"`
	Extra    map[string]any `json:"extra,omitempty"`
	BFS      bool           `json:"bfs_history,omitempty"` // choices are a BFS history: run exactly these steps
	// Concurrent > 0: the failure only occurs while several executions run concurrently in one process
	// (shared state inside the library); the replay runs the witness on that many goroutines at once.
	Concurrent int `json:"concurrent_workers,omitempty"`
}

// Finding is an entry of known_findings.json.
type Finding struct {
	Property string `json:"property"`
	Clause   string `json:"clause"`
	Sig      string `json:"signature"`
	Status   string `json:"status"` // "known" or "fixed"
	Commit   string `json:"commit,omitempty"`
	Text     string `json:"text"`
}

// New creates a run.
func New(prop, tier string, seed int64) *Run {
	r := &Run{Prop: prop, Tier: tier, Seed: seed, Level: "model_checking", start: time.Now()}
	budget := 110 * time.Second
	if tier == "thorough" {
		budget = 25 * time.Minute
	}
	if s := os.Getenv("VERIF_BUDGET_S"); s != "" {
		var n int
		fmt.Sscan(s, &n)
		if n > 0 {
			budget = time.Duration(n) * time.Second
		}
	}
	r.deadline = r.start.Add(budget)
	return r
}

// Quick reports whether this is the quick tier.
func (r *Run) Quick() bool { return r.Tier != "thorough" }

// Deadline is the internal deadline of the whole check.
func (r *Run) Deadline() time.Time { return r.deadline }

// PartDeadline gives a part a share of the remaining time.
func (r *Run) PartDeadline(share float64) time.Time {
	rem := time.Until(r.deadline)
	if rem < 0 {
		rem = 0
	}
	return time.Now().Add(time.Duration(float64(rem) * share))
}

// SetReplay puts the run into replay mode.
func (r *Run) SetReplay(rp *Replay) { r.replay = rp }

// Note adds a free-text note to the evidence.
func (r *Run) Note(format string, args ...any) {
	r.notes = append(r.notes, fmt.Sprintf(format, args...))
}

// Explore runs one exploration and records it.
func (r *Run) Explore(cfg explore.Config, rule string, body func(*explore.Ctx)) *Part {
	if r.replay != nil {
		if r.replay.Harness == cfg.Name {
			r.doReplay(cfg, body)
		}
		return &Part{Name: cfg.Name}
	}
	if only := os.Getenv("VERIF_ONLY"); only != "" && !strings.Contains(cfg.Name, only) {
		return &Part{Name: cfg.Name}
	}
	if explore.StopAll.Load() {
		return &Part{Name: cfg.Name} // a call that does not return was observed: report what there is
	}
	if skipInChild(cfg.Name) {
		return &Part{Name: cfg.Name}
	}
	if cfg.Deadline.IsZero() {
		cfg.Deadline = r.deadline
	}
	cfg.Seed = r.Seed
	if cfg.Workers == 0 {
		cfg.Workers = runtime.NumCPU()
	}
	res := explore.Run(cfg, body)
	p := &Part{Name: cfg.Name, Engine: "choice-explorer", Rule: rule, Bound: cfg.Bound,
		Executions: res.Executions, Skipped: res.Skipped,
		States: int64(res.DistinctOutcomes), Transitions: res.ChoicePoints,
		MaxDepth: res.MaxDepth, DistinctOutcomes: int64(res.DistinctOutcomes),
		Nontrivial: res.Nontrivial, DistinctNontriv: int64(res.DistinctNontriv),
		Exhaustive: res.Exhaustive, CapHit: res.CapHit, Tags: res.Tags,
		WallS: res.Wall.Seconds(), samples: res.Samples, violations: res.Violations,
		herr: res.HarnessErrors, body: body, workers: cfg.Workers}
	r.parts = append(r.parts, p)
	fmt.Printf("part %s: executions=%d choice_points=%d max_depth=%d distinct_outcomes=%d nontrivial=%d distinct_nontrivial=%d exhaustive=%v %s violations=%d wall=%.1fs\n",
		p.Name, p.Executions, p.Transitions, p.MaxDepth, p.DistinctOutcomes, p.Nontrivial, p.DistinctNontriv, p.Exhaustive, p.CapHit, len(p.violations), p.WallS)
	return p
}

// BFS runs an explicit-state search and records it.
func (r *Run) BFS(cfg explore.BFSConfig, rule string, body func(*explore.Ctx)) *Part {
	if r.replay != nil {
		if r.replay.Harness == cfg.Name {
			r.doReplay(explore.Config{Name: cfg.Name}, body)
		}
		return &Part{Name: cfg.Name}
	}
	if only := os.Getenv("VERIF_ONLY"); only != "" && !strings.Contains(cfg.Name, only) {
		return &Part{Name: cfg.Name}
	}
	if explore.StopAll.Load() {
		return &Part{Name: cfg.Name} // a call that does not return was observed: report what there is
	}
	if cfg.Deadline.IsZero() {
		cfg.Deadline = r.deadline
	}
	cfg.Seed = r.Seed
	res := explore.BFS(cfg, body)
	cl := res.Closure
	p := &Part{Name: cfg.Name, Engine: "explicit-state BFS over histories (state = shortest history, successor = replay on fresh object + 1 step)",
		Rule: rule, Executions: res.Executions, States: res.States, Transitions: res.Transitions,
		MaxDepth: res.Depth, DistinctOutcomes: res.States, Nontrivial: res.Transitions, DistinctNontriv: res.States,
		Exhaustive: res.CapHit == "" && len(res.HarnessErrs) == 0, CapHit: res.CapHit, Closure: &cl, WallS: res.Wall.Seconds(),
		Extra:   map[string]any{"dead_end_states": res.DeadEnds},
		samples: res.Samples, violations: res.Violations, herr: res.HarnessErrs, body: body, bfs: true}
	r.parts = append(r.parts, p)
	fmt.Printf("part %s: BFS states=%d transitions=%d executions=%d depth=%d closure=%v %s violations=%d wall=%.1fs\n",
		p.Name, p.States, p.Transitions, p.Executions, p.MaxDepth, cl, p.CapHit, len(p.violations), p.WallS)
	return p
}

// AddPart records a part produced by a custom engine (BFS, scheduler).
// body (may be nil) replays a choice sequence for confirmation.
func (r *Run) AddPart(p *Part, samples []any, viol []*explore.Violation, herr []string, body func(*explore.Ctx)) {
	if r.replay != nil || InChild() {
		return
	}
	p.samples, p.violations, p.herr, p.body = samples, viol, herr, body
	r.parts = append(r.parts, p)
	fmt.Printf("part %s: engine=%s executions=%d states=%d transitions=%d max_depth=%d exhaustive=%v %s violations=%d wall=%.1fs\n",
		p.Name, p.Engine, p.Executions, p.States, p.Transitions, p.MaxDepth, p.Exhaustive, p.CapHit, len(viol), p.WallS)
}

// Replaying reports whether the run is a replay of the named harness (or any
// harness when name is empty).
func (r *Run) Replaying() bool { return r.replay != nil }

// ReplayOf returns the replay record when it belongs to the named harness.
func (r *Run) ReplayOf(name string) *Replay {
	if r.replay != nil && r.replay.Harness == name {
		return r.replay
	}
	return nil
}

func (r *Run) doReplay(cfg explore.Config, body func(*explore.Ctx)) {
	rp := r.replay
	if rp.Concurrent > 0 {
		sig := strings.TrimSuffix(rp.Sig, " / only while other calls run concurrently")
		n := concurrentFailures(body, rp.Choices, rp.Clause, sig, rp.Concurrent)
		fmt.Printf("replay of %s, choices %v, on %d goroutines at once, 8 executions each\n", rp.Harness, rp.Choices, rp.Concurrent)
		if n == 0 {
			fmt.Println("no oracle clause failed on this tree")
			os.Exit(0)
		}
		fmt.Printf("FAILED clause=%s signature=%q in %d of %d concurrent executions\n", rp.Clause, rp.Sig, n, 8*rp.Concurrent)
		fmt.Printf("VIOLATION property=%s replay=%s\n", rp.Property, os.Getenv("VERIF_REPLAY_PATH"))
		os.Exit(1)
	}
	var first string
	for i := 0; i < 2; i++ {
		lim := -1
		if rp.BFS {
			lim = len(rp.Choices)
		}
		c, pmsg := explore.ExecLimit(body, rp.Choices, true, lim)
		fails := c.Fails()
		if pmsg != "" {
			sig := explore.PanicSignature(pmsg)
			if cfg.PanicSig != nil {
				sig = cfg.PanicSig(pmsg)
			}
			fails = append(fails, explore.Failure{Clause: "panic", Sig: sig, Msg: pmsg})
		}
		var obs []string
		for _, f := range fails {
			obs = append(obs, f.Clause+" | "+f.Sig+" | "+f.Msg)
		}
		o := strings.Join(obs, "\n")
		if i == 0 {
			first = o
			fmt.Printf("replay of %s, choices %v\n", rp.Harness, rp.Choices)
			b, _ := json.MarshalIndent(c.SampleValue(), "", " ")
			fmt.Printf("case: %s\n", b)
			lab := c.Labels()
			for k, ch := range c.Choices() {
				if k < len(lab) {
					fmt.Printf("  choice[%d] %s = %d\n", k, lab[k], ch)
				}
			}
			if len(fails) == 0 {
				fmt.Println("no oracle clause failed on this tree")
			}
			for _, f := range fails {
				fmt.Printf("FAILED clause=%s signature=%q\n%s\n", f.Clause, f.Sig, f.Msg)
			}
		} else if o != first {
			explore.Fatal("replay is not deterministic:\n--- first\n%s\n--- second\n%s", first, o)
		}
		if c.ReplayErr() != "" {
			explore.Fatal("replay diverged: %s", c.ReplayErr())
		}
	}
	matched := false
	if first != "" {
		for _, l := range strings.Split(first, "\n") {
			if strings.HasPrefix(l, rp.Clause+" | "+rp.Sig+" | ") {
				matched = true
			}
		}
	}
	if matched {
		fmt.Printf("VIOLATION property=%s replay=%s\n", rp.Property, os.Getenv("VERIF_REPLAY_PATH"))
		os.Exit(1)
	}
	if first != "" {
		fmt.Println("replay fails, but with a different clause/signature than recorded")
		os.Exit(1)
	}
	os.Exit(0)
}

func loadFindings() []Finding {
	b, err := os.ReadFile(filepath.Join(Root, "known_findings.json"))
	if err != nil {
		return nil
	}
	var f struct {
		Findings []Finding `json:"findings"`
	}
	if err := json.Unmarshal(b, &f); err != nil {
		explore.Fatal("known_findings.json: %v", err)
	}
	return f.Findings
}

// Finish writes evidence and exits.
func (r *Run) Finish() {
	if InChild() {
		explore.Fatal("shard worker: the part %q was not reached", os.Getenv("VERIF_SHARD"))
	}
	if r.replay != nil {
		explore.Fatal("replay harness %q not found in property %s", r.replay.Harness, r.Prop)
	}
	findings := loadFindings()
	known := map[string]Finding{}
	for _, f := range findings {
		if f.Property == r.Prop && f.Status == "known" {
			known[f.Clause+"\x00"+f.Sig] = f
		}
	}
	var herr, flaky []string
	nviol := 0
	nknown := 0
	seenKnown := map[string]bool{}
	var lines []string
	for _, p := range r.parts {
		herr = append(herr, p.herr...)
		for _, v := range p.violations {
			key := v.Clause + "\x00" + v.Sig
			if f, ok := known[key]; ok {
				if !seenKnown[key] {
					seenKnown[key] = true
					lines = append(lines, fmt.Sprintf("KNOWN-FINDING: property=%s clause=%s %s [%s]", r.Prop, v.Clause, f.Text, v.Sig))
				}
				nknown++
				continue
			}
			// confirm determinism: re-execute the witness twice
			if p.body != nil && !v.Observed {
				ok := 0
				for i := 0; i < 2; i++ {
					lim := -1
					if p.bfs {
						lim = len(v.Choices)
					}
					c, pmsg := explore.ExecLimit(p.body, v.Choices, i == 0, lim)
					fails := c.Fails()
					if pmsg != "" {
						fails = append(fails, explore.Failure{Clause: "panic", Sig: explore.PanicSignature(pmsg)})
					}
					for _, f := range fails {
						if f.Clause == v.Clause && f.Sig == v.Sig {
							ok++
							break
						}
					}
					if i == 0 {
						v.Labels = c.Labels()
					}
				}
				if ok == 0 && p.workers > 1 && !p.bfs {
					// The failure was seen while other executions of the same part ran concurrently in this
					// process and does not occur when the witness runs alone (twice).  The harness bodies are
					// functions of their choices and share nothing, so the calls into the library interfere with
					// each other: state shared between independent calls (a package-level buffer or cache).
					// Confirm it with a concurrent re-execution: the witness on all workers at once.
					if n := concurrentFailures(p.body, v.Choices, v.Clause, v.Sig, p.workers); n > 0 {
						v.Concurrent = p.workers
						v.Sig += " / only while other calls run concurrently"
						v.Msg = fmt.Sprintf("the witness passes when it runs alone and fails in %d of %d executions that run concurrently in one process: independent calls into the library interfere (shared state).  When run concurrently: %s", n, 8*p.workers, v.Msg)
						ok = 2
					}
				}
				if ok != 2 {
					flaky = append(flaky, fmt.Sprintf("%s: violation %s/%s not reproducible on re-execution (%d/2): flaky oracle", p.Name, v.Clause, v.Sig, ok))
					continue
				}
			}
			nviol++
			rp := Replay{Property: r.Prop, Harness: v.Harness, Tier: r.Tier, Clause: v.Clause, Sig: v.Sig,
				Choices: v.Choices, Labels: v.Labels, Case: v.Case, Message: v.Msg, BFS: p.bfs, Concurrent: v.Concurrent}
			path := writeReplay(&rp)
			lines = append(lines, fmt.Sprintf("VIOLATION property=%s replay=%s", r.Prop, path))
			msg := v.Msg
			if ls := strings.Split(msg, "\n"); len(ls) > 14 {
				msg = strings.Join(ls[:14], "\n") + "\n…"
			}
			if len(msg) > 1500 {
				msg = msg[:1500] + "…"
			}
			lines = append(lines, fmt.Sprintf("  harness=%s clause=%s signature=%q occurrences=%d\n  %s", v.Harness, v.Clause, v.Sig, v.Count, strings.ReplaceAll(msg, "\n", "\n  ")))
		}
	}
	r.writeEvidence(nviol, nknown)
	for _, l := range lines {
		fmt.Println(l)
	}
	if len(herr) > 0 {
		for _, h := range herr {
			fmt.Fprintln(os.Stderr, "HARNESS-ERROR:", h)
		}
		os.Exit(2)
	}
	if len(flaky) > 0 {
		// a failure that does not reproduce is never reported as a violation; when nothing else was
		// found the check itself is suspect (exit 2), next to confirmed violations it is only noted
		for _, h := range flaky {
			if nviol > 0 {
				fmt.Fprintln(os.Stderr, "NOTE:", h)
			} else {
				fmt.Fprintln(os.Stderr, "HARNESS-ERROR:", h)
			}
		}
		if nviol == 0 {
			os.Exit(2)
		}
	}
	if nviol > 0 {
		os.Exit(1)
	}
	var dn int64
	for _, p := range r.parts {
		dn += p.DistinctNontriv
	}
	if dn < r.MinNontrivial || dn < 2 {
		fmt.Fprintf(os.Stderr, "HARNESS-ERROR: vacuous exploration: %d distinct non-trivial cases (< %d)\n", dn, max(r.MinNontrivial, 2))
		os.Exit(2)
	}
	fmt.Printf("OK property=%s tier=%s wall=%.1fs\n", r.Prop, r.Tier, time.Since(r.start).Seconds())
	os.Exit(0)
}

func writeReplay(rp *Replay) string {
	h := sha1.Sum([]byte(rp.Harness + "\x00" + rp.Clause + "\x00" + rp.Sig))
	dir := filepath.Join(Root, "replays", rp.Property)
	os.MkdirAll(dir, 0o755)
	path := filepath.Join(dir, fmt.Sprintf("%x.json", h[:6]))
	b, err := json.MarshalIndent(rp, "", " ")
	if err != nil {
		rp.Case = fmt.Sprintf("%v", rp.Case)
		b, _ = json.MarshalIndent(rp, "", " ")
	}
	os.WriteFile(path, b, 0o644)
	return path
}

// LoadReplay reads a replay file.
func LoadReplay(path string) *Replay {
	b, err := os.ReadFile(path)
	if err != nil {
		explore.Fatal("%v", err)
	}
	var rp Replay
	if err := json.Unmarshal(b, &rp); err != nil {
		explore.Fatal("%s: %v", path, err)
	}
	return &rp
}

func (r *Run) writeEvidence(nviol, nknown int) {
	var ev, st, tr, dn, nt int64
	exhaustive := true
	var samples []any
	var rules []string
	var caps []string
	for _, p := range r.parts {
		ev += p.Executions
		st += p.States
		tr += p.Transitions
		dn += p.DistinctNontriv
		nt += p.Nontrivial
		if !p.Exhaustive {
			exhaustive = false
			caps = append(caps, p.Name+": "+p.CapHit)
		}
		for i, s := range p.samples {
			if i < 3 {
				samples = append(samples, map[string]any{"part": p.Name, "case": s})
			}
		}
		if p.Rule != "" {
			rules = append(rules, p.Name+": "+p.Rule)
		}
	}
	if len(samples) == 0 {
		samples = append(samples, "no case was explored")
	}
	sort.Strings(caps)
	cov := map[string]any{
		"evaluations":                   ev,
		"distinct_nontrivial":           dn,
		"nontrivial_executions":         nt,
		"rule":                          r.Rule + " || " + strings.Join(rules, " || "),
		"samples":                       samples,
		"states":                        st,
		"transitions":                   tr,
		"traces_validated_against_impl": ev,
		"exhaustive":                    exhaustive,
		"caps_hit":                      caps,
		"parts":                         r.parts,
		"known_findings_matched":        nknown,
		"explanation":                   "states = distinct observable outcomes (choice explorer) or distinct canonical states (BFS); transitions = choice steps taken / BFS edges; every execution runs the implementation built from /repo's working tree, so traces_validated_against_impl = executions",
	}
	if len(r.notes) > 0 {
		cov["notes"] = r.notes
	}
	e := map[string]any{
		"property_id": r.Prop,
		"tier":        r.Tier,
		"seed":        r.Seed,
		"level":       r.Level,
		"coverage":    cov,
		"assumptions": r.Assume,
		"wall_s":      time.Since(r.start).Seconds(),
		"violations":  nviol,
	}
	if r.Assume == nil {
		e["assumptions"] = []string{}
	}
	b, err := json.MarshalIndent(e, "", " ")
	if err != nil {
		// samples may contain unmarshalable values: stringify
		for i := range samples {
			samples[i] = fmt.Sprintf("%v", samples[i])
		}
		b, err = json.MarshalIndent(e, "", " ")
		if err != nil {
			explore.Fatal("evidence: %v", err)
		}
	}
	dir := filepath.Join(Root, "evidence")
	os.MkdirAll(dir, 0o755)
	if err := os.WriteFile(filepath.Join(dir, r.Prop+".json"), b, 0o644); err != nil {
		explore.Fatal("evidence: %v", err)
	}
}

// concurrentFailures runs the witness 8 times on every other one of n goroutines at once (the rest run neighbouring
// executions) and counts the executions
// in which the given failure occurs.
func concurrentFailures(body func(*explore.Ctx), choices []int, clause, sig string, n int) int {
	var mu sync.Mutex
	var wg sync.WaitGroup
	count := 0
	for w := 0; w < n; w++ {
		wg.Add(1)
		go func() {
			defer wg.Done()
			for i := 0; i < 8; i++ {
				if w%2 == 1 && len(choices) > 0 {
					// every other goroutine runs neighbours of the witness (its own choices cut short and continued
					// with the default answers) so that state shared between calls is exercised with different data
					explore.ExecLimit(body, choices[:(w/2+i)%len(choices)], false, -1)
					continue
				}
				c, pmsg := explore.ExecLimit(body, choices, false, -1)
				fails := c.Fails()
				if pmsg != "" {
					fails = append(fails, explore.Failure{Clause: "panic", Sig: explore.PanicSignature(pmsg)})
				}
				for _, f := range fails {
					if f.Clause == clause && f.Sig == sig {
						mu.Lock()
						count++
						mu.Unlock()
						break
					}
				}
			}
		}()
	}
	wg.Wait()
	return count
}
