// Package c16ops defines the shared fonts and the read-only operations of
// property C16 (used by the harness and by the -race binary).
package c16ops

import (
	"bytes"
	"crypto/sha1"
	"fmt"
	"io"
	"seehuhn.de/go/postscript/funit"
	"seehuhn.de/go/sfnt/glyf"
	"sort"
	"strings"
	"sync"

	"golang.org/x/text/language"

	"seehuhn.de/go/geom/matrix"
	"seehuhn.de/go/sfnt"
	"seehuhn.de/go/sfnt/cff"
	"seehuhn.de/go/sfnt/cmap"
	"seehuhn.de/go/sfnt/glyph"
	"seehuhn.de/go/sfnt/opentype/classdef"
	"seehuhn.de/go/sfnt/opentype/coverage"
	"seehuhn.de/go/sfnt/opentype/gtab"
	"seehuhn.de/go/sfnt/opentype/gtab/builder"

	"verif/explore"
	"verif/gen"
)

// Op is a read-only operation on a shared font; it returns a digest of its result.
type Op struct {
	Name string
	Only string // "", "glyf" or "cff"
	Run  func(f *sfnt.Font) string
}

func digest(b []byte) string { return fmt.Sprintf("%d:%x", len(b), sha1.Sum(b)) }

// Ops is the alphabet of the property.
var Ops = []Op{
	{"Write", "", func(f *sfnt.Font) string {
		buf := &bytes.Buffer{}
		n, err := f.Write(buf)
		return fmt.Sprint(n, err, digest(buf.Bytes()))
	}},
	{"WritePDF", "", func(f *sfnt.Font) string {
		buf := &bytes.Buffer{}
		if f.IsGlyf() {
			n, err := f.WriteTrueTypePDF(buf)
			return fmt.Sprint(n, err, digest(buf.Bytes()))
		}
		err := f.WriteOpenTypeCFFPDF(buf)
		return fmt.Sprint(err, digest(buf.Bytes()))
	}},
	{"Subset", "", func(f *sfnt.Font) string {
		if !subsettable(f) {
			return "not supported by the subsetter (declared)"
		}
		s := f.Subset([]glyph.ID{0, 3, 1})
		buf := &bytes.Buffer{}
		_, err := s.Write(buf)
		// the order of glyphs appended by the closure is not specified: the widths as a set, and what every
		// cmap subtable of the subset maps the probe characters to (identified by the glyph's width)
		var ws []float64
		for i := 0; i < s.NumGlyphs(); i++ {
			ws = append(ws, s.GlyphWidth(glyph.ID(i)))
		}
		sort.Float64s(ws)
		out := fmt.Sprint(s.NumGlyphs(), err, ws)
		var keys []cmap.Key
		for k := range s.CMapTable {
			keys = append(keys, k)
		}
		sort.Slice(keys, func(i, j int) bool {
			a, b := keys[i], keys[j]
			return a.PlatformID < b.PlatformID || a.PlatformID == b.PlatformID && (a.EncodingID < b.EncodingID || a.EncodingID == b.EncodingID && a.Language < b.Language)
		})
		for _, k := range keys {
			sub, err := s.CMapTable.Get(k)
			if err != nil {
				out += fmt.Sprint(k, err)
				continue
			}
			for _, r := range []rune{'A', 'B', 'f', 'i', 0x80, 0xC4, 0x1F600} {
				out += fmt.Sprint(k, r, s.GlyphWidth(sub.Lookup(r)), ";")
			}
		}
		return out
	}},
	{"Clone", "", func(f *sfnt.Font) string {
		c := f.Clone()
		return fmt.Sprint(c.FamilyName, c.NumGlyphs(), c.UnitsPerEm)
	}},
	{"FontBBox", "", func(f *sfnt.Font) string { return fmt.Sprint(f.FontBBox(), f.FontBBoxPDF()) }},
	{"Widths", "", func(f *sfnt.Font) string {
		return fmt.Sprint(f.Widths(), f.WidthsPDF(), f.WidthsMapPDF(), f.GlyphWidthPDF(1), f.IsFixedPitch())
	}},
	{"GlyphBBoxes", "", func(f *sfnt.Font) string {
		return fmt.Sprint(f.GlyphBBoxes(), f.GlyphBBox(1), f.Outlines.GlyphBBoxPDF(matrix.Matrix{0.001, 0, 0, 0.001, 0, 0}, 2))
	}},
	{"MakeGlyphNames", "", func(f *sfnt.Font) string { return fmt.Sprint(f.MakeGlyphNames()) }},
	{"GetFontInfo", "", func(f *sfnt.Font) string {
		return fmt.Sprintf("%+v %s %s %s", *f.GetFontInfo(), f.PostScriptName(), f.FullName(), f.Subfamily())
	}},
	{"AsCFF.Write", "cff", func(f *sfnt.Font) string {
		buf := &bytes.Buffer{}
		err := f.AsCFF().Write(buf)
		return fmt.Sprint(err, digest(buf.Bytes()))
	}},
	{"Layout", "", func(f *sfnt.Font) string {
		l, err := f.NewLayouter(language.English, nil, nil)
		if err != nil {
			return err.Error()
		}
		return fmt.Sprint(l.Layout("AfiB"), l.Layout("ABBA"), l.Layout("fB\ufb01"), l.Layout("AB\ufb01"))
	}},
	{"gtab.Apply", "", func(f *sfnt.Font) string {
		out := ""
		seq := func() []glyph.Info {
			return []glyph.Info{{GID: 1, Text: []rune("a")}, {GID: 2, Text: []rune("b")}, {GID: 3, Text: []rune("c")}, {GID: 4, Text: []rune("d")}}
		}
		if f.Gsub != nil {
			var all []gtab.LookupIndex
			for i := range f.Gsub.LookupList {
				all = append(all, gtab.LookupIndex(i))
			}
			out += fmt.Sprint(gtab.NewContext(f.Gsub.LookupList, f.Gdef, all).Apply(seq()))
			if len(all) > 3 {
				// the chained context lookup on sequences its three rules match (backtrack B A in front of
				// f i | fi, in front of i, and B f in front of fi): their nested actions run
				ctx := gtab.NewContext(f.Gsub.LookupList, f.Gdef, []gtab.LookupIndex{3})
				for _, gids := range [][]glyph.ID{{1, 2, 3, 4, 5}, {1, 2, 4}, {3, 2, 5}, {1, 2, 5, 5}} {
					var in []glyph.Info
					for i, g := range gids {
						in = append(in, glyph.Info{GID: g, Text: []rune{rune('a' + i)}})
					}
					out += fmt.Sprint(ctx.Apply(in))
				}
			}
		}
		if f.Gpos != nil {
			out += fmt.Sprint(gtab.NewContext(f.Gpos.LookupList, f.Gdef, []gtab.LookupIndex{0}).Apply(seq()))
		}
		return out
	}},
	{"Explain", "", func(f *sfnt.Font) string {
		out := ""
		if f.Gsub != nil {
			out += builder.ExplainGsub(f)
		}
		if f.Gpos != nil {
			out += fmt.Sprint(builder.ExplainGpos(f))
		}
		return out
	}},
	{"FindLookups", "", func(f *sfnt.Font) string {
		return fmt.Sprint(f.Gsub.FindLookups(language.German, gtab.GsubDefaultFeatures), f.Gpos.FindLookups(language.Und, gtab.GposDefaultFeatures))
	}},
}

// WriterOp is an operation that streams its output to a writer (used by the
// interleaving exploration, which preempts at every Write call).
type WriterOp struct {
	Name string
	Only string
	Run  func(f *sfnt.Font, w io.Writer) string
}

// WriterOps are the output forms of the property.
var WriterOps = []WriterOp{
	{"Write", "", func(f *sfnt.Font, w io.Writer) string { n, err := f.Write(w); return fmt.Sprint(n, err) }},
	{"WritePDF", "", func(f *sfnt.Font, w io.Writer) string {
		if f.IsGlyf() {
			n, err := f.WriteTrueTypePDF(w)
			return fmt.Sprint(n, err)
		}
		return fmt.Sprint(f.WriteOpenTypeCFFPDF(w))
	}},
	{"AsCFF.Write", "cff", func(f *sfnt.Font, w io.Writer) string { return fmt.Sprint(f.AsCFF().Write(w)) }},
	{"Subset.Write", "", func(f *sfnt.Font, w io.Writer) string {
		if !subsettable(f) {
			n, err := w.Write([]byte("not supported by the subsetter (declared)"))
			return fmt.Sprint(n, err)
		}
		n, err := f.Subset([]glyph.ID{0, 2, 1}).Write(w)
		return fmt.Sprint(n, err)
	}},
}

// subsettable: the subsetter declares GSUB lookup types other than 1 and 4 unsupported (it panics).
func subsettable(f *sfnt.Font) bool {
	if f.Gsub != nil {
		for _, l := range f.Gsub.LookupList {
			if l.Meta.LookupType != 1 && l.Meta.LookupType != 4 {
				return false
			}
		}
	}
	return true
}

// FontNames names the shared fonts.
// "cid-read" is a CID-keyed font as sfnt.Read returns it (24 glyphs, three font dictionaries in runs, so
// that FDSelect is stored in its range format): structures and closures made by the reader, not by the test.
var FontNames = []string{"glyf", "cff", "cid", "cid-read"}

var (
	cidReadOnce sync.Once
	cidReadFile []byte
)

func cidReadFont() *sfnt.Font {
	cidReadOnce.Do(func() {
		var f *sfnt.Font
		_, pm := explore.Exec(func(c *explore.Ctx) { f, _ = gen.Font(c, gen.FontOpts{NoMeta: true, Compact: true}) }, []int{2, 2, 1, 1, 0, 1, 0}, false)
		if pm != "" {
			panic(pm)
		}
		ol := f.Outlines.(*cff.Outlines)
		o := *ol
		for len(o.Private) < 3 {
			o.Private = append(o.Private, o.Private[0])
			o.FontMatrices = append(o.FontMatrices, o.FontMatrices[0])
		}
		for i := len(o.Glyphs); i < 24; i++ {
			g := *ol.Glyphs[1+i%5]
			g.Width = float64(400 + i)
			o.Glyphs = append(o.Glyphs, &g)
			o.GIDToCID = append(o.GIDToCID, o.GIDToCID[len(o.GIDToCID)-1]+1)
		}
		o.FDSelect = func(g glyph.ID) int { return int(g) / 8 }
		f.Outlines = &o
		buf := &bytes.Buffer{}
		if _, err := f.Write(buf); err != nil {
			panic(err)
		}
		cidReadFile = buf.Bytes()
	})
	f, err := sfnt.Read(bytes.NewReader(cidReadFile))
	if err != nil {
		panic(err)
	}
	return f
}

// Font builds the k-th shared font (6 glyphs, cmap, ligature GSUB, pair GPOS, GDEF classes for glyf).
func Font(k int) *sfnt.Font {
	if k == 3 {
		return cidReadFont()
	}
	var f *sfnt.Font
	// kind, glyph count 6, shape rotation 1, names/encoding/fd choice, cmap format 4, layout combination
	choices := [][]int{{0, 2, 1, 1, 1, 2}, {1, 2, 1, 1, 1, 2}, {2, 2, 1, 1, 0, 1, 2}}[k]
	_, pm := explore.Exec(func(c *explore.Ctx) { f, _ = gen.Font(c, gen.FontOpts{NoMeta: true, Compact: true}) }, choices, false)
	if pm != "" {
		panic(pm)
	}
	if f.Gsub != nil && len(f.Gsub.LookupList) == 1 {
		// a required feature with an unsorted lookup list containing a duplicate, and two optional features
		l0 := f.Gsub.LookupList[0]
		l1 := gen.MakeLookup(1, gen.Flags[0], []gtab.Subtable{&gtab.Gsub1_1{Cov: coverage.Set{1: true}, Delta: 1}})
		l2 := gen.MakeLookup(1, gen.Flags[0], []gtab.Subtable{&gtab.Gsub1_1{Cov: coverage.Set{2: true}, Delta: 2}})
		// chained context rules in all three formats with a backtrack sequence of two different glyphs; two of
		// them start with an action that can never apply (sequence index outside the input, lookup index
		// outside the list: legal, skipped by the engine)
		l3 := gen.MakeLookup(6, gen.Flags[0], []gtab.Subtable{
			&gtab.ChainedSeqContext1{Cov: coverage.Table{3: 0}, Rules: [][]*gtab.ChainedSeqRule{{{Backtrack: []glyph.ID{2, 1}, Input: []glyph.ID{4}, Lookahead: []glyph.ID{5}, Actions: []gtab.SeqLookup{{SequenceIndex: 7, LookupListIndex: 1}, {SequenceIndex: 0, LookupListIndex: 1}}}}}},
			&gtab.ChainedSeqContext2{Cov: coverage.Table{4: 0}, Backtrack: classdef.Table{1: 1, 2: 2}, Input: classdef.Table{4: 1}, Lookahead: classdef.Table{},
				Rules: [][]*gtab.ChainedClassSeqRule{nil, {{Backtrack: []uint16{2, 1}, Actions: []gtab.SeqLookup{{SequenceIndex: 0, LookupListIndex: 2}}}}}},
			&gtab.ChainedSeqContext3{Backtrack: []coverage.Set{{2: true}, {1: true, 3: true}}, Input: []coverage.Set{{5: true}}, Actions: []gtab.SeqLookup{{SequenceIndex: 0, LookupListIndex: 9}, {SequenceIndex: 0, LookupListIndex: 1}}},
		})
		f.Gsub = &gtab.Info{
			ScriptList:  gtab.ScriptListInfo{language.MustParse("und-Zzzz-x-dflt"): {Required: 0, Optional: []gtab.FeatureIndex{1, 2}}},
			FeatureList: []*gtab.Feature{{Tag: "rqrd", Lookups: append(make([]gtab.LookupIndex, 0, 8), 2, 2, 1)}, {Tag: "liga", Lookups: []gtab.LookupIndex{0, 3}}, {Tag: "smcp", Lookups: []gtab.LookupIndex{0, 2}}},
			LookupList:  gtab.LookupList{l0, l1, l2, l3},
		}
		if k != 0 {
			// an alternate substitution whose alternates are an ordered list, not in glyph order
			l4 := gen.MakeLookup(3, gen.Flags[0], []gtab.Subtable{&gtab.Gsub3_1{Cov: coverage.Table{1: 0, 2: 1}, Alternates: [][]glyph.ID{{5, 3, 4}, {4, 1}}}})
			f.Gsub.LookupList = append(f.Gsub.LookupList, l4)
			f.Gsub.FeatureList = append(f.Gsub.FeatureList, &gtab.Feature{Tag: "aalt", Lookups: []gtab.LookupIndex{4}})
			for _, fe := range f.Gsub.ScriptList {
				fe.Optional = append(fe.Optional, 3)
			}
		}
		// a lookup that names a mark filtering set although the font has no GDEF table (files like this
		// are accepted; the flag and the index are part of the font)
		l2.Meta.LookupFlags |= gtab.UseMarkFilteringSet
		l2.Meta.MarkFilteringSet = 1
		if k == 0 {
			// the subsetter declares contextual lookups unsupported: the glyf font keeps a GSUB it can subset
			f.Gsub.LookupList = gtab.LookupList{l0, l1, l2}
			f.Gsub.FeatureList[1].Lookups = []gtab.LookupIndex{0}
		}
	}
	if f.Gpos != nil {
		// pair adjustments of which only some move the second glyph (as a table built with the lookup
		// language has them; tables read from a file are uniform)
		for _, l := range f.Gpos.LookupList {
			for _, st := range l.Subtables {
				if pairs, ok := st.(gtab.Gpos2_1); ok {
					pairs[glyph.Pair{Left: 3, Right: 4}] = &gtab.PairAdjust{First: &gtab.GposValueRecord{XAdvance: -15}, Second: &gtab.GposValueRecord{YPlacement: 20}}
				}
			}
		}
	}
	if k == 1 {
		// no built-in encoding given (the writer falls back to the standard encoding; that is not stored
		// in the shared font)
		if o, ok := f.Outlines.(*cff.Outlines); ok {
			o2 := *o
			o2.Encoding = nil
			f.Outlines = &o2
		}
	}
	if k == 1 {
		// no cap height / x-height given although 'H' and 'x' are mapped (the writer derives the OS/2 values
		// from the glyphs; that must not be stored in the shared font)
		f.CapHeight, f.XHeight = 0, 0
		f.InstallCMap(cmap.Format4{'A': 1, 'B': 2, 'f': 3, 'i': 4, 0xFB01: 5, 'H': 3, 'x': 4})
	}
	if k == 0 {
		// a Macintosh and a Windows record that share one subtable (the same bytes), with codes above 0x7F:
		// the Macintosh record is keyed by Mac Roman bytes, the Windows record by code points
		shared := cmap.Format4{'A': 1, 'B': 2, 'f': 3, 'i': 4, 0x80: 5, 0xC4: 2}.Encode(0)
		f.CMapTable = cmap.Table{{PlatformID: 3, EncodingID: 1}: shared, {PlatformID: 1, EncodingID: 0}: shared}
		// a glyph name of 101 bytes (the post table holds up to 255)
		o := f.Outlines.(*glyf.Outlines)
		if len(o.Names) != len(o.Glyphs) {
			panic("c16ops: the glyf font has no glyph names")
		}
		o.Names[len(o.Names)-1] = "uni0066_uni0069." + strings.Repeat("long_", 17)
		// a blank glyph that is stored as a record of its own (no contour, no instruction, but a bounding
		// box in its header)
		o.Glyphs = append(glyf.Glyphs{}, o.Glyphs...)
		o.Glyphs[len(o.Glyphs)-1] = &glyf.Glyph{Rect16: funit.Rect16{LLx: 5, LLy: 5, URx: 20, URy: 30}, Data: glyf.SimpleGlyph{NumContours: 0, Encoded: []byte{0, 0}}}
		// raw tables the font carries along (the writers add them to what they generate)
		o.Tables = map[string][]byte{"cvt ": {0, 1, 0, 2, 0, 3}, "gasp": {0, 1, 0, 1, 0xFF, 0xFF, 0, 3}}
	}
	return f
}

// Applicable returns the operations that apply to a font kind.
func Applicable(kind string) []Op {
	kind = strings.TrimSuffix(kind, "-read")
	var out []Op
	for _, o := range Ops {
		if o.Only == "" || o.Only == kind || (o.Only == "cff" && kind == "cid") {
			out = append(out, o)
		}
	}
	return out
}
