// Package c16ops defines the shared fonts and the read-only operations of
// property C16 (used by the harness and by the -race binary).
package c16ops

import (
	"bytes"
	"crypto/sha1"
	"fmt"
	"io"
	"strings"
	"sync"

	"golang.org/x/text/language"

	"seehuhn.de/go/geom/matrix"
	"seehuhn.de/go/sfnt"
	"seehuhn.de/go/sfnt/cff"
	"seehuhn.de/go/sfnt/glyph"
	"seehuhn.de/go/sfnt/opentype/coverage"
	"seehuhn.de/go/sfnt/opentype/gtab"
	"seehuhn.de/go/sfnt/opentype/gtab/builder"

	"verif/explore"
	"verif/gen"
)

// Op is a read-only operation on a shared font; it returns a digest of its result.
type Op struct {
	Name string
	Only string // "", "glyf" or "cff"
	Run  func(f *sfnt.Font) string
}

func digest(b []byte) string { return fmt.Sprintf("%d:%x", len(b), sha1.Sum(b)) }

// Ops is the alphabet of the property.
var Ops = []Op{
	{"Write", "", func(f *sfnt.Font) string {
		buf := &bytes.Buffer{}
		n, err := f.Write(buf)
		return fmt.Sprint(n, err, digest(buf.Bytes()))
	}},
	{"WritePDF", "", func(f *sfnt.Font) string {
		buf := &bytes.Buffer{}
		if f.IsGlyf() {
			n, err := f.WriteTrueTypePDF(buf)
			return fmt.Sprint(n, err, digest(buf.Bytes()))
		}
		err := f.WriteOpenTypeCFFPDF(buf)
		return fmt.Sprint(err, digest(buf.Bytes()))
	}},
	{"Subset", "", func(f *sfnt.Font) string {
		s := f.Subset([]glyph.ID{0, 3, 1})
		buf := &bytes.Buffer{}
		_, err := s.Write(buf)
		// the order of glyphs appended by the closure is not specified: digest the widths as a set
		return fmt.Sprint(s.NumGlyphs(), err)
	}},
	{"Clone", "", func(f *sfnt.Font) string {
		c := f.Clone()
		return fmt.Sprint(c.FamilyName, c.NumGlyphs(), c.UnitsPerEm)
	}},
	{"FontBBox", "", func(f *sfnt.Font) string { return fmt.Sprint(f.FontBBox(), f.FontBBoxPDF()) }},
	{"Widths", "", func(f *sfnt.Font) string {
		return fmt.Sprint(f.Widths(), f.WidthsPDF(), f.WidthsMapPDF(), f.GlyphWidthPDF(1), f.IsFixedPitch())
	}},
	{"GlyphBBoxes", "", func(f *sfnt.Font) string {
		return fmt.Sprint(f.GlyphBBoxes(), f.GlyphBBox(1), f.Outlines.GlyphBBoxPDF(matrix.Matrix{0.001, 0, 0, 0.001, 0, 0}, 2))
	}},
	{"MakeGlyphNames", "", func(f *sfnt.Font) string { return fmt.Sprint(f.MakeGlyphNames()) }},
	{"GetFontInfo", "", func(f *sfnt.Font) string {
		return fmt.Sprintf("%+v %s %s %s", *f.GetFontInfo(), f.PostScriptName(), f.FullName(), f.Subfamily())
	}},
	{"AsCFF.Write", "cff", func(f *sfnt.Font) string {
		buf := &bytes.Buffer{}
		err := f.AsCFF().Write(buf)
		return fmt.Sprint(err, digest(buf.Bytes()))
	}},
	{"Layout", "", func(f *sfnt.Font) string {
		l, err := f.NewLayouter(language.English, nil, nil)
		if err != nil {
			return err.Error()
		}
		return fmt.Sprint(l.Layout("AfiB"), l.Layout("ABBA"))
	}},
	{"gtab.Apply", "", func(f *sfnt.Font) string {
		out := ""
		seq := func() []glyph.Info {
			return []glyph.Info{{GID: 1, Text: []rune("a")}, {GID: 2, Text: []rune("b")}, {GID: 3, Text: []rune("c")}, {GID: 4, Text: []rune("d")}}
		}
		if f.Gsub != nil {
			out += fmt.Sprint(gtab.NewContext(f.Gsub.LookupList, f.Gdef, []gtab.LookupIndex{0}).Apply(seq()))
		}
		if f.Gpos != nil {
			out += fmt.Sprint(gtab.NewContext(f.Gpos.LookupList, f.Gdef, []gtab.LookupIndex{0}).Apply(seq()))
		}
		return out
	}},
	{"Explain", "", func(f *sfnt.Font) string {
		out := ""
		if f.Gsub != nil {
			out += builder.ExplainGsub(f)
		}
		if f.Gpos != nil {
			out += fmt.Sprint(builder.ExplainGpos(f))
		}
		return out
	}},
	{"FindLookups", "", func(f *sfnt.Font) string {
		return fmt.Sprint(f.Gsub.FindLookups(language.German, gtab.GsubDefaultFeatures), f.Gpos.FindLookups(language.Und, gtab.GposDefaultFeatures))
	}},
}

// WriterOp is an operation that streams its output to a writer (used by the
// interleaving exploration, which preempts at every Write call).
type WriterOp struct {
	Name string
	Only string
	Run  func(f *sfnt.Font, w io.Writer) string
}

// WriterOps are the output forms of the property.
var WriterOps = []WriterOp{
	{"Write", "", func(f *sfnt.Font, w io.Writer) string { n, err := f.Write(w); return fmt.Sprint(n, err) }},
	{"WritePDF", "", func(f *sfnt.Font, w io.Writer) string {
		if f.IsGlyf() {
			n, err := f.WriteTrueTypePDF(w)
			return fmt.Sprint(n, err)
		}
		return fmt.Sprint(f.WriteOpenTypeCFFPDF(w))
	}},
	{"AsCFF.Write", "cff", func(f *sfnt.Font, w io.Writer) string { return fmt.Sprint(f.AsCFF().Write(w)) }},
	{"Subset.Write", "", func(f *sfnt.Font, w io.Writer) string {
		n, err := f.Subset([]glyph.ID{0, 2, 1}).Write(w)
		return fmt.Sprint(n, err)
	}},
}

// FontNames names the shared fonts.
// "cid-read" is a CID-keyed font as sfnt.Read returns it (24 glyphs, three font dictionaries in runs, so
// that FDSelect is stored in its range format): structures and closures made by the reader, not by the test.
var FontNames = []string{"glyf", "cff", "cid", "cid-read"}

var (
	cidReadOnce sync.Once
	cidReadFile []byte
)

func cidReadFont() *sfnt.Font {
	cidReadOnce.Do(func() {
		var f *sfnt.Font
		_, pm := explore.Exec(func(c *explore.Ctx) { f, _ = gen.Font(c, gen.FontOpts{NoMeta: true, Compact: true}) }, []int{2, 2, 1, 1, 0, 1, 0}, false)
		if pm != "" {
			panic(pm)
		}
		ol := f.Outlines.(*cff.Outlines)
		o := *ol
		for len(o.Private) < 3 {
			o.Private = append(o.Private, o.Private[0])
			o.FontMatrices = append(o.FontMatrices, o.FontMatrices[0])
		}
		for i := len(o.Glyphs); i < 24; i++ {
			g := *ol.Glyphs[1+i%5]
			g.Width = float64(400 + i)
			o.Glyphs = append(o.Glyphs, &g)
			o.GIDToCID = append(o.GIDToCID, o.GIDToCID[len(o.GIDToCID)-1]+1)
		}
		o.FDSelect = func(g glyph.ID) int { return int(g) / 8 }
		f.Outlines = &o
		buf := &bytes.Buffer{}
		if _, err := f.Write(buf); err != nil {
			panic(err)
		}
		cidReadFile = buf.Bytes()
	})
	f, err := sfnt.Read(bytes.NewReader(cidReadFile))
	if err != nil {
		panic(err)
	}
	return f
}

// Font builds the k-th shared font (6 glyphs, cmap, ligature GSUB, pair GPOS, GDEF classes for glyf).
func Font(k int) *sfnt.Font {
	if k == 3 {
		return cidReadFont()
	}
	var f *sfnt.Font
	// kind, glyph count 6, shape rotation 1, names/encoding/fd choice, cmap format 4, layout combination
	choices := [][]int{{0, 2, 1, 1, 1, 2}, {1, 2, 1, 1, 1, 2}, {2, 2, 1, 1, 0, 1, 2}}[k]
	_, pm := explore.Exec(func(c *explore.Ctx) { f, _ = gen.Font(c, gen.FontOpts{NoMeta: true, Compact: true}) }, choices, false)
	if pm != "" {
		panic(pm)
	}
	if f.Gsub != nil && len(f.Gsub.LookupList) == 1 {
		// a required feature with an unsorted lookup list containing a duplicate, and two optional features
		l0 := f.Gsub.LookupList[0]
		l1 := gen.MakeLookup(1, gen.Flags[0], []gtab.Subtable{&gtab.Gsub1_1{Cov: coverage.Set{1: true}, Delta: 1}})
		l2 := gen.MakeLookup(1, gen.Flags[0], []gtab.Subtable{&gtab.Gsub1_1{Cov: coverage.Set{2: true}, Delta: 2}})
		f.Gsub = &gtab.Info{
			ScriptList:  gtab.ScriptListInfo{language.MustParse("und-Zzzz-x-dflt"): {Required: 0, Optional: []gtab.FeatureIndex{1, 2}}},
			FeatureList: []*gtab.Feature{{Tag: "rqrd", Lookups: append(make([]gtab.LookupIndex, 0, 8), 2, 2, 1)}, {Tag: "liga", Lookups: []gtab.LookupIndex{0}}, {Tag: "smcp", Lookups: []gtab.LookupIndex{0, 2}}},
			LookupList:  gtab.LookupList{l0, l1, l2},
		}
	}
	return f
}

// Applicable returns the operations that apply to a font kind.
func Applicable(kind string) []Op {
	kind = strings.TrimSuffix(kind, "-read")
	var out []Op
	for _, o := range Ops {
		if o.Only == "" || o.Only == kind || (o.Only == "cff" && kind == "cid") {
			out = append(out, o)
		}
	}
	return out
}
