// Package vsched is a cooperative scheduler for the goroutines of the lookup
// description language (opentype/gtab/builder).  At check time the package's
// sources are rewritten (build overlay; nothing in /repo changes) so that
// `make(chan T)`, sends, receives, range-over-channel, close and `go` call this
// package.  When no exploration is active the shims use real channels and
// goroutines, so the rewritten package behaves exactly like the original.
//
// Under exploration exactly one goroutine runs at a time; every channel
// operation and every goroutine start is a scheduling point at which the
// explorer decides who runs next.  Unbuffered rendezvous is modelled exactly:
// a receive is enabled only when a sender is parked on the channel (or the
// channel is closed); a send completes only after a receiver took its value.
package vsched

import (
	"context"
	"fmt"
	"reflect"
	"runtime/pprof"
	"strconv"
	"sync"
	"sync/atomic"
	"unsafe"
)

// Chooser picks one of n enabled goroutines; currentEnabled tells whether
// index 0 is the goroutine that was running (switching away from it is a
// preemption).
type Chooser func(n int, currentEnabled bool) int

type gstate struct {
	id    int
	wake  chan struct{}
	ready func() bool // nil = runnable
	done  bool
	where string
}

// Sched is one controlled execution.
type Sched struct {
	gs       []*gstate
	cur      *gstate
	choose   Chooser
	steps    int
	maxSteps int
	trace    []int
	abort    bool
	mainDone bool
	quiet    chan struct{}
	res      *Result
}

type abortSentinel struct{}

// Controlled executions by goroutine: several Runs may be active at once (one
// per explorer worker).  A goroutine belongs to the Run that started it: Run
// attaches a fresh profiler label set to its goroutine, the runtime copies the
// label pointer to every goroutine started from it, and current() maps that
// pointer back to the Sched.  (runtime.Stack-based goroutine ids were tried
// first and serialise all workers on the runtime's print lock.)
var byLabel sync.Map // label pointer -> *Sched

//go:linkname runtime_getProfLabel runtime/pprof.runtime_getProfLabel
func runtime_getProfLabel() unsafe.Pointer

var runSeq atomic.Uint64

// Result of a controlled run.
type Result struct {
	Deadlock  string   // non-empty: nothing enabled although main has not returned
	Leaked    []string // goroutines still parked after main returned and the rest ran to quiescence
	Steps     int
	Trace     []int
	StepLimit bool
	Spawned   int
}

func current() *Sched {
	p := runtime_getProfLabel()
	if p == nil {
		return nil
	}
	if v, ok := byLabel.Load(p); ok {
		return v.(*Sched)
	}
	return nil
}

// Run executes f (as goroutine 0) under the scheduler and then runs the
// remaining goroutines to quiescence.
func Run(choose Chooser, maxSteps int, f func()) (res *Result) {
	s := &Sched{choose: choose, maxSteps: maxSteps, quiet: make(chan struct{}, 1), res: &Result{}}
	main := &gstate{id: 0, wake: make(chan struct{}, 1)}
	s.gs = []*gstate{main}
	s.cur = main
	if current() != nil {
		panic("vsched: nested Run")
	}
	pprof.SetGoroutineLabels(pprof.WithLabels(context.Background(), pprof.Labels("vsched", strconv.FormatUint(runSeq.Add(1), 10))))
	me := runtime_getProfLabel()
	byLabel.Store(me, s)
	defer func() {
		// let every parked goroutine die, then deactivate
		s.abort = true
		for _, g := range s.gs[1:] {
			if !g.done {
				g.wake <- struct{}{}
				<-s.quiet
			}
		}
		byLabel.Delete(me)
		pprof.SetGoroutineLabels(context.Background())
		s.res.Steps, s.res.Trace, s.res.Spawned = s.steps, s.trace, len(s.gs)-1
		res = s.res
		if r := recover(); r != nil {
			if _, ok := r.(abortSentinel); !ok {
				panic(r)
			}
		}
	}()
	f()
	// main has returned: run everything else to quiescence
	main.done = true
	s.mainDone = true
	if next := s.pick(); next != nil {
		next.wake <- struct{}{}
		<-s.quiet
	}
	for _, g := range s.gs {
		if !g.done {
			s.res.Leaked = append(s.res.Leaked, fmt.Sprintf("goroutine %d parked at %s", g.id, g.where))
		}
	}
	return s.res
}

// pick chooses the next goroutine to run (nil = nothing is enabled).
func (s *Sched) pick() *gstate {
	var enabled []*gstate
	curEnabled := false
	for _, g := range s.gs {
		if !g.done && (g.ready == nil || g.ready()) {
			if g == s.cur {
				curEnabled = true
			} else {
				enabled = append(enabled, g)
			}
		}
	}
	if curEnabled {
		enabled = append([]*gstate{s.cur}, enabled...)
	}
	if len(enabled) == 0 {
		return nil
	}
	s.steps++
	if s.maxSteps > 0 && s.steps > s.maxSteps {
		s.res.StepLimit = true
		return nil
	}
	k := 0
	if len(enabled) > 1 {
		k = s.choose(len(enabled), curEnabled)
	}
	next := enabled[k]
	s.cur = next
	s.trace = append(s.trace, next.id)
	return next
}

// yield is a scheduling point of goroutine g: it may proceed once ready() holds.
func (s *Sched) yield(g *gstate, ready func() bool, where string) {
	if s.abort {
		panic(abortSentinel{})
	}
	g.ready, g.where = ready, where
	next := s.pick()
	switch {
	case next == g:
	case next == nil:
		// nothing can run
		if !s.mainDone {
			s.res.Deadlock = s.describe()
			if g.id == 0 {
				panic(abortSentinel{})
			}
			// wake main so that it can abort the run
			s.abort = true
			s.gs[0].wake <- struct{}{}
		} else {
			s.quiet <- struct{}{}
		}
		<-g.wake
	default:
		next.wake <- struct{}{}
		<-g.wake
	}
	if s.abort {
		panic(abortSentinel{})
	}
	g.ready = nil
}

func (s *Sched) describe() string {
	out := ""
	for _, g := range s.gs {
		if !g.done {
			out += fmt.Sprintf("goroutine %d parked at %s; ", g.id, g.where)
		}
	}
	return out
}

// Go starts f as a controlled goroutine (a real goroutine when no exploration is active).
func Go(f func()) {
	s := current()
	if s == nil {
		go f()
		return
	}
	parent := s.cur
	g := &gstate{id: len(s.gs), wake: make(chan struct{}, 1), where: "start"}
	s.gs = append(s.gs, g)
	go func() {
		<-g.wake
		defer func() {
			r := recover()
			g.done = true
			if _, ok := r.(abortSentinel); ok || s.abort {
				s.quiet <- struct{}{}
				return
			}
			if r != nil {
				// a panic in a library goroutine would crash the process: record it as a deadlock-like failure
				s.res.Deadlock = fmt.Sprintf("goroutine %d panicked: %v", g.id, r)
			}
			// hand control on
			if next := s.pick(); next != nil {
				next.wake <- struct{}{}
			} else if s.mainDone {
				s.quiet <- struct{}{}
			} else {
				s.res.Deadlock = s.describe()
				s.abort = true
				s.gs[0].wake <- struct{}{}
			}
		}()
		if s.abort {
			panic(abortSentinel{})
		}
		f()
	}()
	// starting a goroutine is a scheduling point
	s.yield(parent, nil, "go statement")
}

// Chan is the shim for a channel (unbuffered, or buffered with capacity cap).
type Chan[T any] struct {
	s       *Sched // the controlled execution the channel was made in (nil: free-running)
	real    chan T
	senders []*pending[T]
	closed  bool
	cap     int
	buf     []T

	recvWaiting int // goroutines parked in a receive on this channel
}

// NewChanBuf replaces make(chan T, n).
func NewChanBuf[T any](n int) *Chan[T] { return &Chan[T]{s: current(), real: make(chan T, n), cap: n} }

type pending[T any] struct {
	v     T
	taken bool
	group *selGroup // non-nil: the send case of a select statement (at most one case of a group fires)
}

// selGroup ties the cases of one select statement together.
type selGroup struct{ done bool }

// NewChan replaces make(chan T).
func NewChan[T any]() *Chan[T] { return &Chan[T]{s: current(), real: make(chan T)} }

// Send replaces c <- v.
func (c *Chan[T]) Send(v T) {
	s := c.s
	if s == nil {
		c.real <- v
		return
	}
	g := s.cur
	if c.closed {
		panic("send on closed channel")
	}
	if c.cap > 0 {
		// buffered: proceed as soon as there is room
		s.yield(g, func() bool { return len(c.buf) < c.cap || c.closed }, "channel send (buffered)")
		if c.closed {
			panic("send on closed channel")
		}
		c.buf = append(c.buf, v)
		return
	}
	p := &pending[T]{v: v}
	c.senders = append(c.senders, p)
	s.yield(g, func() bool { return p.taken || c.closed }, "channel send")
	if !p.taken && c.closed {
		panic("send on closed channel")
	}
}

// Recv replaces <-c.
func (c *Chan[T]) Recv() T {
	v, _ := c.RecvOk()
	return v
}

// RecvOk replaces v, ok := <-c.
func (c *Chan[T]) RecvOk() (T, bool) {
	s := c.s
	if s == nil {
		v, ok := <-c.real
		return v, ok
	}
	g := s.cur
	c.recvWaiting++
	func() {
		defer func() { c.recvWaiting-- }()
		s.yield(g, func() bool { return len(c.buf) > 0 || c.pendingSender() != nil || c.closed }, "channel receive")
	}()
	if len(c.buf) > 0 {
		v := c.buf[0]
		c.buf = c.buf[1:]
		return v, true
	}
	if p := c.pendingSender(); p != nil {
		return p.take(), true
	}
	var zero T
	return zero, false
}

func (c *Chan[T]) pendingSender() *pending[T] {
	for _, p := range c.senders {
		if !p.taken && (p.group == nil || !p.group.done) {
			return p
		}
	}
	return nil
}

// take completes the rendezvous with a pending sender.
func (p *pending[T]) take() T {
	p.taken = true
	if p.group != nil {
		p.group.done = true
	}
	return p.v
}

// Close replaces close(c).
func (c *Chan[T]) Close() {
	s := c.s
	if s == nil {
		close(c.real)
		return
	}
	if c.closed {
		panic("close of closed channel")
	}
	c.closed = true
	s.yield(s.cur, nil, "close")
}

// SelCase is one communication clause of a select statement.
type SelCase interface {
	prepare(g *selGroup)
	ready(withDefault bool) bool
	fired() bool
	commit()
	withdraw()
	reflectCase() reflect.SelectCase
	setRecv(v reflect.Value, ok bool)
}

// SendClause is `case c <- v`.
type SendClause[T any] struct {
	c *Chan[T]
	v T
	p *pending[T]
}

// RecvClause is `case v, ok := <-c`; Val and Ok hold what was received.
type RecvClause[T any] struct {
	c   *Chan[T]
	Val T
	Ok  bool
}

// SendCase builds the clause `case c <- v`.
func SendCase[T any](c *Chan[T], v T) *SendClause[T] { return &SendClause[T]{c: c, v: v} }

// RecvCase builds the clause `case ... <-c`.
func RecvCase[T any](c *Chan[T]) *RecvClause[T] { return &RecvClause[T]{c: c} }

func (sc *SendClause[T]) prepare(g *selGroup) {
	if sc.c == nil || sc.c.cap > 0 {
		return
	}
	sc.p = &pending[T]{v: sc.v, group: g}
	sc.c.senders = append(sc.c.senders, sc.p)
}
func (sc *SendClause[T]) ready(withDefault bool) bool {
	switch {
	case sc.c == nil:
		return false
	case sc.c.closed:
		return true // the send panics, as in Go
	case sc.c.cap > 0:
		return len(sc.c.buf) < sc.c.cap
	case withDefault:
		return sc.c.recvWaiting > 0 // a receiver is parked on the channel: it takes the value when it runs next
	}
	return sc.p.taken
}
func (sc *SendClause[T]) fired() bool { return sc.p != nil && sc.p.taken }
func (sc *SendClause[T]) commit() {
	if sc.c.closed {
		panic("send on closed channel")
	}
	if sc.c.cap > 0 {
		sc.c.buf = append(sc.c.buf, sc.v)
		return
	}
	if sc.p == nil {
		// select with default and a parked receiver: the value stays with the channel for that receiver
		sc.c.senders = append(sc.c.senders, &pending[T]{v: sc.v})
	}
}
func (sc *SendClause[T]) withdraw() {
	if sc.p == nil || sc.p.taken {
		return
	}
	for i, q := range sc.c.senders {
		if q == sc.p {
			sc.c.senders = append(sc.c.senders[:i:i], sc.c.senders[i+1:]...)
			break
		}
	}
}
func (sc *SendClause[T]) reflectCase() reflect.SelectCase {
	if sc.c == nil {
		return reflect.SelectCase{Dir: reflect.SelectSend, Chan: reflect.ValueOf((chan T)(nil)), Send: reflect.ValueOf(sc.v)}
	}
	return reflect.SelectCase{Dir: reflect.SelectSend, Chan: reflect.ValueOf(sc.c.real), Send: reflect.ValueOf(sc.v)}
}
func (sc *SendClause[T]) setRecv(reflect.Value, bool) {}

func (rc *RecvClause[T]) prepare(*selGroup) {}
func (rc *RecvClause[T]) ready(bool) bool {
	c := rc.c
	return c != nil && (len(c.buf) > 0 || c.pendingSender() != nil || c.closed)
}
func (rc *RecvClause[T]) fired() bool { return false }
func (rc *RecvClause[T]) commit() {
	c := rc.c
	switch {
	case len(c.buf) > 0:
		rc.Val, rc.Ok = c.buf[0], true
		c.buf = c.buf[1:]
	case c.pendingSender() != nil:
		rc.Val, rc.Ok = c.pendingSender().take(), true
	}
}
func (rc *RecvClause[T]) withdraw() {}
func (rc *RecvClause[T]) reflectCase() reflect.SelectCase {
	if rc.c == nil {
		return reflect.SelectCase{Dir: reflect.SelectRecv, Chan: reflect.ValueOf((chan T)(nil))}
	}
	return reflect.SelectCase{Dir: reflect.SelectRecv, Chan: reflect.ValueOf(rc.c.real)}
}
func (rc *RecvClause[T]) setRecv(v reflect.Value, ok bool) {
	if ok {
		rc.Val = v.Interface().(T)
	}
	rc.Ok = ok
}

// Select replaces a select statement: it returns the index of the clause that fired, -1 for the default
// clause.  Under the scheduler the statement is one scheduling point; when several clauses can proceed
// the explorer chooses among them (Go chooses at random).
func Select(withDefault bool, cases ...SelCase) int {
	s := current()
	if s == nil {
		rc := make([]reflect.SelectCase, 0, len(cases)+1)
		for _, c := range cases {
			rc = append(rc, c.reflectCase())
		}
		if withDefault {
			rc = append(rc, reflect.SelectCase{Dir: reflect.SelectDefault})
		}
		i, v, ok := reflect.Select(rc)
		if i == len(cases) {
			return -1
		}
		cases[i].setRecv(v, ok)
		return i
	}
	g := s.cur
	grp := &selGroup{}
	if !withDefault {
		for _, c := range cases {
			c.prepare(grp)
		}
	}
	anyReady := func() bool {
		for _, c := range cases {
			if c.ready(withDefault) {
				return true
			}
		}
		return false
	}
	if withDefault {
		s.yield(g, nil, "select")
	} else {
		func() {
			defer func() {
				if r := recover(); r != nil {
					for _, c := range cases {
						c.withdraw()
					}
					panic(r)
				}
			}()
			s.yield(g, anyReady, "select")
		}()
	}
	chosen := -1
	for i, c := range cases {
		if c.fired() {
			chosen = i // a receiver has taken the value of this send clause: it is the one that happened
		}
	}
	if chosen < 0 {
		var ready []int
		for i, c := range cases {
			if c.ready(withDefault) {
				ready = append(ready, i)
			}
		}
		switch len(ready) {
		case 0:
		case 1:
			chosen = ready[0]
		default:
			chosen = ready[s.choose(len(ready), false)%len(ready)]
		}
	}
	grp.done = true
	for i, c := range cases {
		if i != chosen {
			c.withdraw()
		}
	}
	if chosen >= 0 {
		cases[chosen].commit()
	}
	return chosen
}
