package vsched

import (
	"fmt"
	"sort"
	"testing"
)

// exploreAll runs body under every schedule (depth-first over the chooser's decisions).
func exploreAll(t *testing.T, body func() string) (outcomes map[string]int, leaks, deadlocks int) {
	outcomes = map[string]int{}
	var prefix []int
	for runs := 0; runs < 100000; runs++ {
		var trace, width []int
		choose := func(n int, _ bool) int {
			k := 0
			if len(trace) < len(prefix) {
				k = prefix[len(trace)]
			}
			trace = append(trace, k)
			width = append(width, n)
			return k
		}
		out := ""
		res := Run(choose, 10000, func() { out = body() })
		if res.Deadlock != "" {
			deadlocks++
		}
		if len(res.Leaked) > 0 {
			leaks++
		}
		outcomes[out]++
		// next schedule
		i := len(trace) - 1
		for i >= 0 && trace[i]+1 >= width[i] {
			i--
		}
		if i < 0 {
			return
		}
		prefix = append(append([]int{}, trace[:i]...), trace[i]+1)
	}
	t.Fatal("too many schedules")
	return
}

func keys(m map[string]int) string {
	var ks []string
	for k := range m {
		ks = append(ks, k)
	}
	sort.Strings(ks)
	return fmt.Sprint(ks)
}

func TestSelectSendOrDone(t *testing.T) {
	// a producer that gives up when done is closed; the consumer takes one value or none
	for _, take := range []bool{true, false} {
		outcomes, leaks, deadlocks := exploreAll(t, func() string {
			c := NewChan[int]()
			done := NewChan[struct{}]()
			sent := NewChanBuf[string](1)
			Go(func() {
				s0, s1 := SendCase(c, 7), RecvCase(done)
				switch Select(false, s0, s1) {
				case 0:
					sent.Send("sent")
				case 1:
					sent.Send("gave up")
				}
			})
			got := -1
			if take {
				got = c.Recv()
			}
			done.Close()
			return fmt.Sprint(got, sent.Recv())
		})
		want := "[-1gave up]"
		if take {
			want = "[7sent]"
		}
		if keys(outcomes) != want || leaks != 0 || deadlocks != 0 {
			t.Errorf("take=%v: outcomes %v leaks %d deadlocks %d, want %s", take, outcomes, leaks, deadlocks, want)
		}
	}
}

func TestSelectLeak(t *testing.T) {
	// nobody receives and done is never closed: the goroutine is left parked in every schedule
	_, leaks, _ := exploreAll(t, func() string {
		c := NewChan[int]()
		done := NewChan[struct{}]()
		Go(func() {
			Select(false, SendCase(c, 1), RecvCase(done))
		})
		return ""
	})
	if leaks == 0 {
		t.Error("the parked select was not reported")
	}
}

func TestSelectChoice(t *testing.T) {
	// two ready receive clauses: both outcomes are explored
	outcomes, _, _ := exploreAll(t, func() string {
		a, b := NewChanBuf[int](1), NewChanBuf[int](1)
		a.Send(1)
		b.Send(2)
		ra, rb := RecvCase(a), RecvCase(b)
		switch Select(false, ra, rb) {
		case 0:
			return fmt.Sprint("a", ra.Val, ra.Ok)
		default:
			return fmt.Sprint("b", rb.Val, rb.Ok)
		}
	})
	if keys(outcomes) != "[a1 true b2 true]" && keys(outcomes) != "[a 1 true b 2 true]" {
		t.Errorf("outcomes %v", outcomes)
	}
}

func TestSelectDefault(t *testing.T) {
	outcomes, _, _ := exploreAll(t, func() string {
		c := NewChan[int]()
		r := RecvCase(c)
		if Select(true, r) != -1 {
			return "received"
		}
		return "default"
	})
	if keys(outcomes) != "[default]" {
		t.Errorf("outcomes %v", outcomes)
	}
	// free-running (no scheduler): the real channels are used
	c := NewChanBuf[int](1)
	c.Send(5)
	r := RecvCase(c)
	if Select(true, r) != 0 || r.Val != 5 || !r.Ok {
		t.Errorf("free-running select: %+v", r)
	}
}
