// Package c19in holds the input families of the C19 harness that are shared
// between the scheduler-controlled exploration (harness/c19.go) and the
// free-running -race pass (cmd/race19).
package c19in

import (
	"regexp"
	"strings"
)

// Tokens is the alphabet of the token-string enumeration.
var Tokens = []string{"GSUB1", "GSUB2", "GSUB4", "GSUB5", "GSUB6", "GPOS1", "GPOS2", ":", "-", "marks", "ligs", "A", "B", "M", `"AB"`, `"AZ"`, `"ZAB"`, `"A`, "->", ",", "[", "]", "|", "||", "@", "1", "0", ";", "\n", "/", "&", ":c:", "class", "=", "$", "x+5", "#c"}

// TokenStrings returns all strings of at most maxLen tokens, joined by spaces.
func TokenStrings(maxLen int) []string {
	var out []string
	var rec func(prefix []string)
	rec = func(prefix []string) {
		out = append(out, strings.Join(prefix, " "))
		if len(prefix) == maxLen {
			return
		}
		for _, t := range Tokens {
			rec(append(append([]string{}, prefix...), t))
		}
	}
	rec(nil)
	return out
}

var tokRe = regexp.MustCompile(`"(?:[^"\\]|\\.)*"|->|\|\||[A-Za-z_.][A-Za-z0-9_.]*|[0-9]+|\n|[^\sA-Za-z0-9]`)

// Mutations returns the single-token deletions / replacements / insertions of a valid description
// (limit > 0: only at the first limit+1 token positions).
func Mutations(desc string, limit int) []string {
	locs := tokRe.FindAllStringIndex(desc, -1)
	repl := []string{"", "-", "->", "|", "A", "5", `"A`, "@", "marks", ",", "\n"}
	var out []string
	for k, loc := range locs {
		for _, rp := range repl {
			out = append(out, desc[:loc[0]]+rp+desc[loc[1]:]) // deletion or replacement
			if rp != "" {
				out = append(out, desc[:loc[0]]+rp+" "+desc[loc[0]:]) // insertion
			}
		}
		if limit > 0 && k >= limit {
			break
		}
	}
	return out
}
