package harness

import (
	"bytes"
	"fmt"
	"io"
	"math"
	"runtime"
	"slices"
	"sort"
	"strings"

	"golang.org/x/image/font"
	xsfnt "golang.org/x/image/font/sfnt"
	"golang.org/x/image/math/fixed"

	"seehuhn.de/go/postscript/funit"
	"seehuhn.de/go/sfnt"
	"seehuhn.de/go/sfnt/cff"
	"seehuhn.de/go/sfnt/cmap"
	"seehuhn.de/go/sfnt/glyf"
	"seehuhn.de/go/sfnt/glyph"
	"seehuhn.de/go/sfnt/header"

	"verif/explore"
	"verif/gen"
	"verif/refcmap"
	"verif/refsfnt"
	"verif/run"
)

// C03: written files are well-formed sfnt containers an independent parser accepts.

var c03Tags = []string{"head", "glyf", "OS/2", "abcd", "zzzz", "    ", "~~~~"}

func c03Fill(n int, pat int, tag string) []byte {
	b := make([]byte, n)
	for i := range b {
		if pat == 0 {
			b[i] = byte(i*37 + int(tag[0]))
		} else {
			b[i] = 0xFF
		}
	}
	return b
}

func c03Container(r *run.Run) {
	lens := []int{0, 1, 4, 5}
	maxTables, fills := 3, 1
	if !r.Quick() {
		lens = []int{0, 1, 3, 4, 5, 12, 54}
		maxTables, fills = 4, 2
	}
	scalers := []uint32{header.ScalerTypeTrueType, header.ScalerTypeCFF, header.ScalerTypeApple}
	r.Explore(explore.Config{Name: "C03.container", Deadline: r.PartDeadline(0.4)},
		"header.Write on every map of <=3 (quick) / <=4 (thorough) tags from {head,glyf,OS/2,abcd,zzzz,'    ','~~~~'} x lengths x fill patterns x scaler types (head >= 12 bytes), with optional nil entries, x storage {separate allocations, adjacent sub-slices of one array in ascending / descending tag order}; non-trivial = at least two tables",
		func(c *explore.Ctx) {
			scaler := scalers[c.Choose(len(scalers), "scaler")]
			pat := c.Choose(fills, "fill")
			tables := map[string][]byte{}
			orig := map[string][]byte{}
			var desc []string
			present := 0
			for _, tag := range c03Tags {
				if present >= maxTables {
					break
				}
				opts := lens
				if tag == "head" {
					opts = []int{12, 54}
				}
				k := c.Choose(len(opts)+2, "table "+tag)
				switch {
				case k == 0: // absent
				case k == 1:
					tables[tag] = nil // a nil entry means "no such table"
					desc = append(desc, tag+":nil")
				default:
					b := c03Fill(opts[k-2], pat, tag)
					tables[tag] = b
					orig[tag] = append([]byte{}, b...)
					present++
					desc = append(desc, fmt.Sprintf("%s:%d", tag, len(b)))
				}
			}
			if present == 0 {
				// nothing to write: an error, or a well-formed container without tables - not a panic
				buf := &bytes.Buffer{}
				var err error
				if p := guard(func() { _, err = header.Write(buf, scaler, tables) }); p != "" {
					c.Fail("C03.panic", "header.Write without a table: "+explore.PanicSignature(p), "header.Write panics for a map without tables (%v): %s", desc, p)
					return
				}
				c.Outcome("no table", err != nil, buf.Len())
				if err == nil {
					if _, probs := refsfnt.Walk(buf.Bytes()); len(probs) > 0 {
						c.Fail("C03.wellformed", "header.Write without a table", "%s (%d bytes)", probs[0], buf.Len())
					}
				}
				return
			}
			// storage of the caller's slices: separate allocations, or consecutive sub-slices of one
			// array (tables cut out of a memory image) in ascending / descending tag order, the last one
			// followed by spare capacity
			storage := c.Choose(3, "storage")
			var image, imageBefore []byte
			headAt := -1
			if storage > 0 {
				var tags []string
				for t, b := range tables {
					if b != nil {
						tags = append(tags, t)
					}
				}
				sort.Strings(tags)
				if storage == 2 {
					slices.Reverse(tags)
				}
				for _, t := range tags {
					image = append(image, tables[t]...)
				}
				image = append(image, 0xA5, 0xA5, 0xA5, 0xA5)
				pos := 0
				for _, t := range tags {
					n := len(tables[t])
					tables[t] = image[pos : pos+n]
					if t == "head" {
						headAt = pos
					}
					pos += n
				}
				imageBefore = append([]byte{}, image...)
				desc = append(desc, fmt.Sprintf("storage: sub-slices of one array in order %q", tags))
			}
			c.Sample(func() any {
				return map[string]any{"scaler": fmt.Sprintf("%#08x", scaler), "fill": pat, "tables": desc}
			})
			if present >= 2 {
				c.Nontrivial()
			}
			sig := "header.Write"
			if len(tables) != present {
				sig = "header.Write with nil entries"
			}
			buf := &bytes.Buffer{}
			n, err := header.Write(buf, scaler, tables)
			if err != nil {
				c.Fail("C03.write-err", sig, "header.Write failed: %v (%v)", err, desc)
				return
			}
			out := buf.Bytes()
			if int(n) != len(out) {
				c.Fail("C03.count", sig, "header.Write reported %d bytes, wrote %d (%v)", n, len(out), desc)
			}
			if headAt >= 0 { // the checksum adjustment of the head table is patched in place (documented)
				copy(image[headAt+8:headAt+12], imageBefore[headAt+8:headAt+12])
			}
			if !bytes.Equal(image, imageBefore) {
				c.Fail("C03.tables", sig+" / caller's data", "header.Write modified the caller's table data (%v)", desc)
			}
			c.Outcome(out)
			cont, probs := refsfnt.Walk(out)
			for _, p := range probs {
				c.Fail("C03.wellformed", sig, "%s (tables %v)", p, desc)
				break
			}
			if cont == nil {
				return
			}
			if cont.Scaler != scaler {
				c.Fail("C03.wellformed", sig, "scaler type %#x want %#x", cont.Scaler, scaler)
			}
			var got, want []string
			for _, rec := range cont.Records {
				got = append(got, rec.Tag)
			}
			for t := range orig {
				want = append(want, t)
			}
			sort.Strings(want)
			if fmt.Sprint(got) != fmt.Sprint(want) {
				c.Fail("C03.tables", sig, "directory lists %q, written tables are %q", got, want)
				return
			}
			for t, w := range orig {
				g, _ := cont.Table(out, t)
				if t == "head" {
					g = append([]byte{}, g...)
					copy(g[8:12], w[8:12])
				}
				if !bytes.Equal(g, w) {
					c.Fail("C03.tables", sig, "table %q differs from what was written (%v)", t, desc)
				}
			}
			// read back through the library
			dir, err := header.Read(bytes.NewReader(out))
			if err != nil {
				c.Fail("C03.readback", sig, "header.Read rejects the written file: %v (%v)", err, desc)
				return
			}
			if dir.ScalerType != scaler || len(dir.Toc) != len(orig) {
				c.Fail("C03.readback", sig, "header.Read: scaler %#x, %d tables; want %#x, %d (%v)", dir.ScalerType, len(dir.Toc), scaler, len(orig), desc)
			}
			for t, w := range orig {
				g, err := dir.ReadTableBytes(bytes.NewReader(out), t)
				if err != nil {
					c.Fail("C03.readback", sig, "ReadTableBytes(%q): %v (%v)", t, err, desc)
					continue
				}
				if t == "head" {
					copy(g[8:12], w[8:12])
				}
				if !bytes.Equal(g, w) {
					c.Fail("C03.readback", sig, "ReadTableBytes(%q) returns different bytes (%v)", t, desc)
				}
			}
			// writing the same map again gives the same bytes
			buf2 := &bytes.Buffer{}
			if _, err := header.Write(buf2, scaler, tables); err != nil || !bytes.Equal(buf2.Bytes(), out) {
				c.Fail("C03.deterministic", sig, "second header.Write of the same map differs (err=%v) (%v)", err, desc)
			}
		})
}

// ---- full fonts, cross-checked with golang.org/x/image/font/sfnt ----

type seg struct {
	op   byte // 'M','L','Q','C'
	args [6]float64
}

func (s seg) String() string {
	n := map[byte]int{'M': 2, 'L': 2, 'Q': 4, 'C': 6}[s.op]
	return fmt.Sprintf("%c%v", s.op, s.args[:n])
}

// glyfSegs renders a TrueType glyph the way a straightforward rasteriser walks
// it: contours start at an on-curve point; off-curve points are quadratic
// control points; the contour is closed with a line if needed.
func glyfSegs(ol *glyf.Outlines, gid glyph.ID, dx, dy float64, depth int) ([]seg, bool) {
	if int(gid) >= len(ol.Glyphs) || depth > 4 {
		return nil, false
	}
	g := ol.Glyphs[gid]
	if g == nil {
		return nil, true
	}
	switch d := g.Data.(type) {
	case glyf.SimpleGlyph:
		info, err := d.Decode()
		if err != nil {
			return nil, false
		}
		var out []seg
		for _, ct := range info.Contours {
			if len(ct) == 0 || !ct[0].OnCurve {
				return nil, false
			}
			p := func(i int) (float64, float64) {
				return float64(ct[i%len(ct)].X) + dx, float64(ct[i%len(ct)].Y) + dy
			}
			x0, y0 := p(0)
			out = append(out, seg{op: 'M', args: [6]float64{x0, y0}})
			for i := 1; i <= len(ct); i++ {
				q := ct[i%len(ct)]
				x, y := p(i)
				if q.OnCurve {
					if i == len(ct) && len(ct) == 1 {
						break
					}
					out = append(out, seg{op: 'L', args: [6]float64{x, y}})
				} else {
					nx, ny := p(i + 1)
					if !ct[(i+1)%len(ct)].OnCurve {
						return nil, false
					}
					out = append(out, seg{op: 'Q', args: [6]float64{x, y, nx, ny}})
					i++
				}
			}
		}
		return out, true
	case glyf.CompositeGlyph:
		var out []seg
		for _, comp := range d.Components {
			if comp.Flags&glyf.FlagArgsAreXYValues == 0 || comp.Flags&(glyf.FlagWeHaveAScale|glyf.FlagWeHaveAnXAndYScale|glyf.FlagWeHaveATwoByTwo|glyf.FlagArg1And2AreWords) != 0 || len(comp.Data) != 2 {
				return nil, false
			}
			s, ok := glyfSegs(ol, comp.GlyphIndex, dx+float64(int8(comp.Data[0])), dy+float64(int8(comp.Data[1])), depth+1)
			if !ok {
				return nil, false
			}
			out = append(out, s...)
		}
		return out, true
	}
	return nil, false
}

func cffSegs(g *cff.Glyph) []seg {
	var out []seg
	var sx, sy, cx, cy float64
	open := false
	closeIt := func() {
		if open && (cx != sx || cy != sy) {
			out = append(out, seg{op: 'L', args: [6]float64{sx, sy}})
		}
		open = false
	}
	for _, cmd := range g.Cmds {
		switch cmd.Op {
		case cff.OpMoveTo:
			closeIt()
			sx, sy = cmd.Args[0], cmd.Args[1]
			cx, cy = sx, sy
			out = append(out, seg{op: 'M', args: [6]float64{sx, sy}})
			open = true
		case cff.OpLineTo:
			cx, cy = cmd.Args[0], cmd.Args[1]
			out = append(out, seg{op: 'L', args: [6]float64{cx, cy}})
		case cff.OpCurveTo:
			cx, cy = cmd.Args[4], cmd.Args[5]
			var a [6]float64
			copy(a[:], cmd.Args)
			out = append(out, seg{op: 'C', args: a})
		}
	}
	closeIt()
	return out
}

func xSegs(ss xsfnt.Segments) []seg {
	var out []seg
	for _, s := range ss {
		var g seg
		n := 0
		switch s.Op {
		case xsfnt.SegmentOpMoveTo:
			g.op, n = 'M', 1
		case xsfnt.SegmentOpLineTo:
			g.op, n = 'L', 1
		case xsfnt.SegmentOpQuadTo:
			g.op, n = 'Q', 2
		case xsfnt.SegmentOpCubeTo:
			g.op, n = 'C', 3
		}
		for i := 0; i < n; i++ {
			g.args[2*i] = float64(s.Args[i].X) / 64
			g.args[2*i+1] = -float64(s.Args[i].Y) / 64 // x/image's y axis points down
		}
		out = append(out, g)
	}
	return out
}

func segsEqual(a, b []seg, tol float64) bool {
	if len(a) != len(b) {
		return false
	}
	for i := range a {
		if a[i].op != b[i].op {
			return false
		}
		for k := range a[i].args {
			if math.Abs(a[i].args[k]-b[i].args[k]) > tol {
				return false
			}
		}
	}
	return true
}

// crossCheckXImage compares what golang.org/x/image reads from the written
// file with the font value.  It returns the number of comparisons made.
func crossCheckXImage(c *explore.Ctx, prefix string, f *sfnt.Font, runes map[rune]glyph.ID, file []byte) int {
	xf, err := xsfnt.Parse(file)
	if err != nil {
		if f.CMapTable == nil {
			c.Tag("ximage: no cmap, not parsed")
			return 0
		}
		c.Fail(prefix+".ximage-parse", "xsfnt.Parse", "independent parser rejects the written file: %v", err)
		return 0
	}
	n := 0
	var buf xsfnt.Buffer
	if xf.NumGlyphs() != f.NumGlyphs() {
		c.Fail(prefix+".ximage", "NumGlyphs", "independent parser sees %d glyphs, font has %d", xf.NumGlyphs(), f.NumGlyphs())
		return n
	}
	if int(xf.UnitsPerEm()) != int(f.UnitsPerEm) {
		c.Fail(prefix+".ximage", "UnitsPerEm", "independent parser sees unitsPerEm %d, font has %d", xf.UnitsPerEm(), f.UnitsPerEm)
	}
	n += 2
	best, _ := f.CMapTable.GetBest()
	probe := []rune{0, 'A', 'B', 'C', 'f', 'i', 'x', 'H', 0xFB01, 0xFFFF, 0x1F600, 0x1F601}
	for _, r := range probe {
		want := glyph.ID(0)
		if best != nil {
			want = best.Lookup(r)
		}
		if g, ok := runes[r]; ok && best != nil && g != want {
			c.Fail(prefix+".cmap", "Lookup", "font's own best subtable maps %U to %d, font was built with %d", r, want, g)
		}
		got, err := xf.GlyphIndex(&buf, r)
		if err != nil {
			c.Fail(prefix+".ximage", "GlyphIndex", "GlyphIndex(%U): %v", r, err)
			continue
		}
		if glyph.ID(got) != want {
			c.Fail(prefix+".ximage", "GlyphIndex", "independent parser maps %U to glyph %d, font maps it to %d", r, got, want)
		}
		n++
	}
	ppem := fixed.Int26_6(int(f.UnitsPerEm) << 6)
	for gid := 0; gid < f.NumGlyphs(); gid++ {
		adv, err := xf.GlyphAdvance(&buf, xsfnt.GlyphIndex(gid), ppem, font.HintingNone)
		if err != nil {
			c.Fail(prefix+".ximage", "GlyphAdvance", "GlyphAdvance(%d): %v", gid, err)
		} else if want := math.Trunc(f.GlyphWidth(glyph.ID(gid))); float64(adv)/64 != want {
			c.Fail(prefix+".ximage", "GlyphAdvance", "independent parser reports advance %v for glyph %d, font has %v", float64(adv)/64, gid, want)
		}
		n++
		if name := f.GlyphName(glyph.ID(gid)); name != "" {
			got, err := xf.GlyphName(&buf, xsfnt.GlyphIndex(gid))
			if f.IsGlyf() { // x/image reads names from the post table only
				if err != nil || got != name {
					c.Fail(prefix+".ximage", "GlyphName", "independent parser reports name %q (err=%v) for glyph %d, font has %q", got, err, gid, name)
				}
				n++
			}
		}
		var want []seg
		ok := true
		switch ol := f.Outlines.(type) {
		case *glyf.Outlines:
			want, ok = glyfSegs(ol, glyph.ID(gid), 0, 0, 0)
		case *cff.Outlines:
			want = cffSegs(ol.Glyphs[gid])
		}
		if !ok {
			c.Tag("ximage: outline shape outside the comparison model")
			continue
		}
		ss, err := xf.LoadGlyph(&buf, xsfnt.GlyphIndex(gid), ppem, nil)
		if err != nil {
			c.Fail(prefix+".ximage", "LoadGlyph", "LoadGlyph(%d): %v", gid, err)
			continue
		}
		got := xSegs(ss)
		tol := 1.0/64 + 1e-9
		if f.IsCFF() {
			tol = 0.5 + 1e-9 // x/image rounds Type 2 operands to whole units
		}
		if !segsEqual(got, want, tol) {
			c.Fail(prefix+".ximage", "LoadGlyph", "glyph %d: independent parser sees outline %v, font has %v", gid, got, want)
		}
		n++
	}
	return n
}

func c03Fonts(r *run.Run) {
	bound := 0 // metadata values do not affect container well-formedness; C01 sweeps them
	if !r.Quick() {
		bound = 1
	}
	r.Explore(explore.Config{Name: "C03.fonts", Bound: bound},
		"every font of the shared generator (outline kind x glyph count x shapes x cmap x GSUB x GPOS x GDEF, metadata deviation bound d) written with Font.Write; container walk + golang.org/x/image/font/sfnt cross-check; non-trivial = x/image parsed the file",
		func(c *explore.Ctx) {
			f, spec := gen.Font(c, gen.FontOpts{Compact: r.Quick()})
			c.Sample(func() any { return spec })
			buf := &bytes.Buffer{}
			n, err := f.Write(buf)
			if err != nil {
				c.Fail("C03.write-err", "Font.Write", "Write failed: %v", err)
				return
			}
			out := buf.Bytes()
			if int(n) != len(out) {
				c.Fail("C03.count", "Font.Write", "Write reported %d bytes, wrote %d", n, len(out))
			}
			_, probs := refsfnt.Walk(out)
			for _, p := range probs {
				c.Fail("C03.wellformed", "Font.Write", "%s", p)
				break
			}
			k := crossCheckXImage(c, "C03", f, spec.Runes, out)
			if k > 0 {
				c.Nontrivial()
			}
			c.Outcome(out)
		})
}

// c03CFFRuns: CFF glyphs whose paths are long runs of one segment type with a tail of another type (the
// Type 2 encoder has to split them at the 48-entry argument stack): the independent implementation
// loads every glyph and sees the same outline.
func c03CFFRuns(r *run.Run) {
	r.Explore(explore.Config{Name: "C03.cff-runs"},
		"CFF fonts written with Font.Write whose glyph 'A' is a run of every length 1..60 of one of 9 segment types followed by one segment of another of the 9 types: container walk, and golang.org/x/image loads every glyph and agrees on the outlines",
		func(c *explore.Ctx) {
			a := c04RunReps[c.Choose(len(c04RunReps), "run segment")]
			b := c04RunReps[c.Choose(len(c04RunReps), "tail segment")]
			f, spec := FontFromChoices(gen.FontOpts{NoMeta: true, NoLayout: true}, gen.KindCFF, 2, 0, 0, 1)
			ol := *f.Outlines.(*cff.Outlines)
			ol.Glyphs = append([]*cff.Glyph{}, ol.Glyphs...)
			gid := spec.Runes['A']
			old := ol.Glyphs[gid]
			desc := fmt.Sprintf("%s x 1..60, %s", a.name, b.name)
			c.Sample(func() any { return desc })
			for n := 1; n <= 60; n++ {
				var segs []c04Seg
				for i := 0; i < n; i++ {
					segs = append(segs, a)
				}
				segs = append(segs, b)
				g := buildGlyph(old.Name, old.Width, [2]float64{-100, 50}, segs)
				ol.Glyphs[gid] = g
				f.Outlines = &ol
				buf := &bytes.Buffer{}
				if _, err := f.Write(buf); err != nil {
					c.Fail("C03.write-err", "Font.Write / cff runs", "Write failed: %v (%s, run of %d)", err, desc, n)
					return
				}
				if _, probs := refsfnt.Walk(buf.Bytes()); len(probs) > 0 {
					c.Fail("C03.wellformed", "Font.Write / cff runs", "%s (%s, run of %d)", probs[0], desc, n)
					return
				}
				if crossCheckXImage(c, "C03", f, spec.Runes, buf.Bytes()) > 0 {
					c.Nontrivial()
				}
				if c.Failed() {
					c.Tag(fmt.Sprintf("fails at a run of %d", n))
					return
				}
			}
			c.Outcome(desc)
		})
}

// c03CFFHints: CFF glyphs with stem hints and hint / counter masks at every place a mask may stand: the
// independent implementation must be able to load the glyph (it counts the stems to know how long a mask is).
func c03CFFHints(r *run.Run) {
	r.Explore(explore.Config{Name: "C03.cff-hints"},
		"CFF fonts written with Font.Write whose glyph 'A' has 0..3 horizontal and 0..3 vertical stem hints and no mask, a hint mask or counter mask as the first command, a hint mask after the first line or after the first contour, or both, with the glyph's own or the default width, the second contour starting elsewhere or exactly where the first ended: container walk, and golang.org/x/image loads every glyph and agrees on the outlines",
		func(c *explore.Ctx) {
			nh := c.Choose(4, "hstems")
			nv := c.Choose(4, "vstems")
			place := c.Choose(6, "mask placement") // none, hintmask first, cntrmask first, after the first line, after the first contour, first and later
			if nh+nv == 0 && place != 0 {
				c.Skip("mask without stems")
			}
			f, spec := FontFromChoices(gen.FontOpts{NoMeta: true, NoLayout: true}, gen.KindCFF, 2, 0, 0, 1)
			ol := *f.Outlines.(*cff.Outlines)
			ol.Glyphs = append([]*cff.Glyph{}, ol.Glyphs...)
			gid := spec.Runes['A']
			old := ol.Glyphs[gid]
			w := old.Width
			if c.Bool("own width") {
				w = 777
			}
			g := cff.NewGlyph(old.Name, w)
			for i := 0; i < nh; i++ {
				g.HStem = append(g.HStem, float64(20*i), float64(20*i+8))
			}
			for i := 0; i < nv; i++ {
				g.VStem = append(g.VStem, float64(30*i+5), float64(30*i+12))
			}
			mask := func(op cff.GlyphOpType, b byte) {
				g.Cmds = append(g.Cmds, cff.GlyphOp{Op: op, Args: []float64{float64(b)}})
			}
			switch place {
			case 1, 5:
				mask(cff.OpHintMask, 0xA0)
			case 2:
				mask(cff.OpCntrMask, 0xC0)
			}
			g.MoveTo(10, 10)
			g.LineTo(200, 10)
			if place == 3 {
				mask(cff.OpHintMask, 0x60)
			}
			g.LineTo(100, 300)
			if place == 4 || place == 5 {
				mask(cff.OpHintMask, 0x40)
			}
			// the second contour starts somewhere else, or exactly where the first one ended (a moveto
			// without any displacement still begins a new contour)
			touching := c.Bool("the second contour starts where the first ended")
			if touching {
				g.MoveTo(100, 300)
			} else {
				g.MoveTo(50, 50)
			}
			g.LineTo(80, 50)
			g.LineTo(60, 90)
			ol.Glyphs[gid] = g
			f.Outlines = &ol
			desc := fmt.Sprintf("%d hstems, %d vstems, mask placement %d, width %v, touching contours %v", nh, nv, place, w, touching)
			c.Sample(func() any { return desc })
			c.Outcome(desc)
			buf := &bytes.Buffer{}
			if _, err := f.Write(buf); err != nil {
				c.Fail("C03.write-err", "Font.Write / cff hints", "Write failed: %v (%s)", err, desc)
				return
			}
			if _, probs := refsfnt.Walk(buf.Bytes()); len(probs) > 0 {
				c.Fail("C03.wellformed", "Font.Write / cff hints", "%s (%s)", probs[0], desc)
				return
			}
			if crossCheckXImage(c, "C03", f, spec.Runes, buf.Bytes()) > 0 {
				c.Nontrivial()
			}
		})
}

// c03StandardNames: TrueType fonts with exactly 258 glyphs named with the 258 standard Macintosh names
// (the compact version 1 post table is only right when they are in the standard order).
func c03StandardNames(r *run.Run) {
	std := postStandardNames()
	r.Explore(explore.Config{Name: "C03.post-standard-names"},
		"glyf fonts with 258 glyphs named with the 258 standard Macintosh glyph names: in the standard order, with two names exchanged (4 pairs), with capital and small letters exchanged, with one standard name used twice: golang.org/x/image reports the font's glyph names, and so does the library after reading the file back",
		func(c *explore.Ctx) {
			names := append([]string{}, std...)
			var desc string
			switch k := c.Choose(7, "variant"); k {
			case 0:
				desc = "standard order"
			case 1, 2, 3, 4:
				p := [][2]int{{1, 2}, {10, 20}, {36, 68}, {256, 257}}[k-1]
				names[p[0]], names[p[1]] = names[p[1]], names[p[0]]
				desc = fmt.Sprintf("%q and %q exchanged", names[p[0]], names[p[1]])
			case 5:
				for i := 0; i < 26; i++ {
					names[36+i], names[68+i] = names[68+i], names[36+i]
				}
				desc = "capital and small letters exchanged"
			case 6:
				names[100] = names[50]
				desc = fmt.Sprintf("%q used twice", names[50])
			}
			f, _ := FontFromChoices(gen.FontOpts{NoMeta: true, NoLayout: true}, gen.KindGlyf, 2, 0, 0, 1)
			base := f.Outlines.(*glyf.Outlines)
			ol := *base
			ol.Glyphs, ol.Widths = nil, nil
			for i := 0; i < 258; i++ {
				ol.Glyphs = append(ol.Glyphs, base.Glyphs[i%len(base.Glyphs)])
				ol.Widths = append(ol.Widths, funit.Int16(400+i))
			}
			ol.Names = names
			f.Outlines = &ol
			c.Sample(func() any { return desc })
			c.Outcome(desc)
			buf := &bytes.Buffer{}
			if _, err := f.Write(buf); err != nil {
				c.Fail("C03.write-err", "Font.Write / standard names", "Write failed: %v (%s)", err, desc)
				return
			}
			out := buf.Bytes()
			if _, probs := refsfnt.Walk(out); len(probs) > 0 {
				c.Fail("C03.wellformed", "Font.Write / standard names", "%s (%s)", probs[0], desc)
				return
			}
			xf, err := xsfnt.Parse(out)
			if err != nil {
				c.Fail("C03.ximage-parse", "xsfnt.Parse", "independent parser rejects the written file: %v (%s)", err, desc)
				return
			}
			c.Nontrivial()
			var xb xsfnt.Buffer
			for gid, want := range names {
				got, err := xf.GlyphName(&xb, xsfnt.GlyphIndex(gid))
				if err != nil || got != want {
					c.Fail("C03.ximage", "GlyphName / standard names", "independent parser reports name %q (err=%v) for glyph %d, the font has %q (%s)", got, err, gid, want, desc)
					return
				}
			}
			back, err := sfnt.Read(bytes.NewReader(out))
			if err != nil {
				c.Fail("C03.readback", "standard names", "the library rejects the written file: %v (%s)", err, desc)
				return
			}
			for gid, want := range names {
				if got := back.GlyphName(glyph.ID(gid)); got != want {
					c.Fail("C03.readback", "standard names", "glyph %d is called %q after reading the file back, the font has %q (%s)", gid, got, want, desc)
					return
				}
			}
		})
}

// ---- whole glyf fonts whose glyf table sits at the short/long loca thresholds ----

func c03FillerGlyph(fill int) *glyf.Glyph {
	body := append([]byte{0, 2, byte(fill >> 8), byte(fill)}, make([]byte, fill)...)
	// a triangle (0,0) (100,0) (100,100); the instructions are the filler
	body = append(body, 0x31, 0x33, 0x35, 100, 100)
	return &glyf.Glyph{Rect16: funit.Rect16{URx: 100, URy: 100}, Data: glyf.SimpleGlyph{NumContours: 1, Encoded: body}}
}

func c03Scaled(r *run.Run) {
	sizes := []int{0xFFFC, 0xFFFE, 0x10000, 0x10002, 0x1FFFC, 0x1FFFE, 0x20000, 0x20002, 0x20004}
	r.Explore(explore.Config{Name: "C03.scaled"},
		"glyf fonts written with Font.Write whose glyf table is exactly 0xFFFC..0x10002 and 0x1FFFC..0x20004 bytes long (one or two filler glyphs behind the 6 base glyphs, or many 32-byte glyphs): container walk, and golang.org/x/image loads every glyph and agrees on count, advances and outlines",
		func(c *explore.Ctx) {
			total := sizes[c.Choose(len(sizes), "glyf size")]
			many := c.Bool("many small glyphs")
			f, spec := FontFromChoices(gen.FontOpts{NoMeta: true, NoLayout: true}, gen.KindGlyf, 2, 0, 0, 1)
			base := f.Outlines.(*glyf.Outlines)
			ol := *base
			ol.Glyphs = append(glyf.Glyphs{}, base.Glyphs...)
			ol.Names = nil
			baseLen := len(ol.Glyphs.Encode().GlyfData)
			small := gen.SimpleGlyf([][]gen.Pt{{{0, 0, true}, {300, 0, true}, {150, 400, true}}}, nil)
			smallLen := len(glyf.Glyphs{small}.Encode().GlyfData)
			if many {
				for baseLen+len(ol.Glyphs[len(base.Glyphs):])*smallLen+smallLen+64 < total {
					ol.Glyphs = append(ol.Glyphs, small)
				}
			}
			rest := total - len(ol.Glyphs.Encode().GlyfData) - smallLen
			ok := false
			for _, parts := range []int{1, 2} {
				if rest/parts > 0xFFFF+15 {
					continue
				}
				for adj := -8; adj <= 8 && !ok; adj++ {
					var fillers glyf.Glyphs
					fill := rest/parts - 19 + adj
					if fill < 0 {
						continue
					}
					for k := 0; k < parts; k++ {
						fillers = append(fillers, c03FillerGlyph(min(fill, 0xFFFF)))
					}
					cand := append(append(glyf.Glyphs{}, ol.Glyphs...), fillers...)
					cand = append(cand, nil, small)
					if len(cand.Encode().GlyfData) == total {
						ol.Glyphs, ok = cand, true
					}
				}
				if ok {
					break
				}
			}
			if !ok {
				c.Skip(fmt.Sprintf("size %#x not reachable", total))
			}
			ol.Widths = make([]funit.Int16, len(ol.Glyphs))
			for i := range ol.Widths {
				ol.Widths[i] = funit.Int16(400 + i%7)
			}
			f.Outlines = &ol
			desc := fmt.Sprintf("glyf table %#x bytes, %d glyphs", total, len(ol.Glyphs))
			c.Sample(func() any { return desc })
			c.Nontrivial()
			out, err := writeFont(f)
			if err != nil {
				c.Fail("C03.write-err", "Font.Write scaled", "Write failed: %v (%s)", err, desc)
				return
			}
			cont, probs := refsfnt.Walk(out)
			for _, p := range probs {
				c.Fail("C03.wellformed", "Font.Write scaled", "%s (%s)", p, desc)
				return
			}
			if g, ok := cont.Table(out, "glyf"); !ok || len(g) != total {
				explore.Fatal("C03.scaled: glyf table has %d bytes, wanted %d", len(g), total)
			}
			crossCheckXImage(c, "C03", f, spec.Runes, out)
			c.Outcome(total, many)
		})
}

// ---- sizes and layouts inside tables that the container walk cannot see, judged by the second reader ----

func c03Inner(r *run.Run) {
	r.Explore(explore.Config{Name: "C03.inner-layout"},
		"complete fonts whose inner table layout varies: CFF / CID fonts with copyright lengths 0..400 (offset sizes of the CFF INDEX structures), glyf fonts with every non-empty subset of four cmap subtables holding the same two or three characters (consecutive; with a gap in the glyphs; with a gap of one unmapped code and one unencoded glyph) in 262 (format 0), 32 / 40 (format 4), 14 / 16 (format 6) and 28 / 40 (format 12) bytes under Macintosh, Unicode and Windows keys (offsets of the encoding records): the file is a well-formed container, the library reads it back, and golang.org/x/image agrees on glyph count, character mapping, advances and outlines",
		func(c *explore.Ctx) {
			var f *sfnt.Font
			var spec *gen.FontSpec
			var desc string
			if c.Bool("cmap layouts") {
				f, spec = FontFromChoices(gen.FontOpts{NoMeta: true, NoLayout: true}, gen.KindGlyf, 2, 0, 0, 1)
				// all subtables hold the same mapping (the second reader may prefer another subtable than the library)
				three := c.Choose(3, "three characters")
				var f0 cmap.Format0
				f0.Data['A'], f0.Data['B'] = 1, 2
				four := cmap.Format4{'A': 1, 'B': 2}
				sixGlyphs := []uint16{1, 2} // format 6 has no encoder in the library: assembled independently
				twelve := cmap.Format12{'A': 1, 'B': 2}
				want := map[rune]glyph.ID{'A': 1, 'B': 2, 'C': 0, 'D': 0}
				switch three {
				case 1:
					f0.Data['C'], four['C'], twelve['C'] = 5, 5, 5 // not consecutive: one more segment / group
					sixGlyphs = []uint16{1, 2, 5}
					want['C'] = 5
				case 2:
					// 'C' is not mapped and glyph 3 has no character: the gap in the codes is as large as the gap in the glyphs
					f0.Data['D'], four['D'], twelve['D'] = 4, 4, 4
					sixGlyphs = []uint16{1, 2, 0, 4}
					want['D'] = 4
				}
				six := refcmap.Assemble6('A', sixGlyphs, 0, false)
				t := cmap.Table{}
				if c.Bool("(1,0) format 0") {
					t[cmap.Key{PlatformID: 1, EncodingID: 0}] = f0.Encode(0)
				}
				if c.Bool("(0,3) format 6") {
					t[cmap.Key{PlatformID: 0, EncodingID: 3}] = six
				}
				if c.Bool("(3,1) format 4") {
					t[cmap.Key{PlatformID: 3, EncodingID: 1}] = four.Encode(0)
				}
				if c.Bool("(3,10) format 12") {
					t[cmap.Key{PlatformID: 3, EncodingID: 10}] = twelve.Encode(0)
				}
				if len(t) == 0 {
					c.Skip("no subtable")
				}
				f.CMapTable = t
				var keys []string
				for k, d := range t {
					keys = append(keys, fmt.Sprintf("(%d,%d):%d bytes", k.PlatformID, k.EncodingID, len(d)))
				}
				sort.Strings(keys)
				desc = "glyf font, cmap " + strings.Join(keys, " ")
				// (what the characters map to is known from the construction, whatever subtable a reader prefers)
				spec.Runes = want
			} else {
				kind := gen.KindCFF + c.Choose(2, "CID-keyed")
				f, spec = FontFromChoices(gen.FontOpts{NoMeta: true, Compact: true}, kind, 2, 0, 0, 0, 1)
				n := c.Choose(401, "copyright length")
				f.Copyright = strings.Repeat("Copyright notice. ", 30)[:n]
				desc = fmt.Sprintf("%s font, copyright of %d characters", gen.KindNames[kind], n)
			}
			c.Sample(func() any { return desc })
			c.Nontrivial()
			out, err := writeFont(f)
			if err != nil {
				c.Fail("C03.write-err", "Font.Write inner layout", "Write failed: %v (%s)", err, desc)
				return
			}
			c.Outcome(out)
			if _, probs := refsfnt.Walk(out); len(probs) > 0 {
				c.Fail("C03.wellformed", "Font.Write inner layout", "%s (%s)", probs[0], desc)
				return
			}
			if _, err := sfnt.Read(bytes.NewReader(out)); err != nil {
				c.Fail("C03.readback", "Font.Write inner layout", "the library cannot read the file it wrote: %v (%s)", err, desc)
			}
			crossCheckXImage(c, "C03", f, spec.Runes, out)
		})
}

// ---- concurrent writers: interleavings at the destination's Write calls ----

type c03Job struct {
	name string
	run  func(w io.Writer) (int64, error)
}

func c03Jobs() []c03Job {
	hw := func(name string, scaler uint32, tables map[string][]byte) c03Job {
		return c03Job{name, func(w io.Writer) (int64, error) {
			t := map[string][]byte{}
			for k, v := range tables {
				t[k] = append([]byte{}, v...)
			}
			return header.Write(w, scaler, t)
		}}
	}
	jobs := []c03Job{
		hw("header.Write{head:54}", header.ScalerTypeTrueType, map[string][]byte{"head": c03Fill(54, 0, "head")}),
		hw("header.Write{head:12,glyf:5}", header.ScalerTypeApple, map[string][]byte{"head": c03Fill(12, 1, "head"), "glyf": c03Fill(5, 0, "glyf")}),
		hw("header.Write{OS/2:5,abcd:1,zzzz:4}", header.ScalerTypeCFF, map[string][]byte{"OS/2": c03Fill(5, 0, "OS/2"), "abcd": c03Fill(1, 0, "abcd"), "zzzz": c03Fill(4, 1, "zzzz")}),
	}
	for kind := 0; kind < 2; kind++ {
		f, _ := FontFromChoices(gen.FontOpts{Compact: true}, kind)
		jobs = append(jobs, c03Job{"Font.Write(" + gen.KindNames[kind] + ")", func(w io.Writer) (int64, error) { return f.Write(w) }})
	}
	return jobs
}

func c03Interleaved(r *run.Run) {
	bound := 3
	if !r.Quick() {
		bound = 5
	}
	jobs := c03Jobs()
	solo := make([][]byte, len(jobs))
	for i, j := range jobs {
		buf := &bytes.Buffer{}
		if _, err := j.run(buf); err != nil {
			explore.Fatal("C03.interleaved: %s fails when run alone: %v", j.name, err)
		}
		solo[i] = buf.Bytes()
	}
	r.Explore(explore.Config{Name: "C03.interleaved", Bound: bound, Workers: 1, Deadline: r.PartDeadline(0.5)},
		fmt.Sprintf("two goroutines writing different containers / fonts at the same time (3 header.Write table maps, Font.Write of a glyf and of a CFF font; all unordered pairs incl. the same job twice) under a cooperative scheduler that can preempt at every Write call of the destination: all schedules with <= %d preemptions; each file must be a well-formed container (independent walker) and byte-identical to the file written alone", bound),
		func(c *explore.Ctx) {
			a := c.Choose(len(jobs), "job of goroutine 0")
			b := a + c.Choose(len(jobs)-a, "job of goroutine 1")
			sel := []int{a, b}
			var schedule []int
			c.Sample(func() any {
				return map[string]any{"jobs": []string{jobs[a].name, jobs[b].name}, "schedule": schedule}
			})
			var bodies []func(io.Writer) string
			for _, k := range sel {
				j := jobs[k]
				bodies = append(bodies, func(w io.Writer) string {
					n, err := j.run(w)
					return fmt.Sprintf("n=%d err=%v", n, err)
				})
			}
			results, outputs := coRun(c, bodies, &schedule)
			if len(schedule) > 2 {
				c.Nontrivial()
			}
			sig := jobs[a].name + " || " + jobs[b].name
			for g, k := range sel {
				want := fmt.Sprintf("n=%d err=<nil>", len(solo[k]))
				if results[g] != want {
					c.FailObserved("C03.interleaved", sig, "goroutine %d (%s) returned %s, want %s; schedule %v", g, jobs[k].name, results[g], want, schedule)
					continue
				}
				if _, probs := refsfnt.Walk(outputs[g]); len(probs) > 0 {
					c.FailObserved("C03.interleaved", sig, "goroutine %d (%s) wrote a malformed container: %s; schedule %v (each number = which goroutine ran until its next Write call)", g, jobs[k].name, probs[0], schedule)
				} else if !bytes.Equal(outputs[g], solo[k]) {
					c.FailObserved("C03.interleaved", sig, "goroutine %d (%s) wrote different bytes than when run alone; schedule %v", g, jobs[k].name, schedule)
				}
			}
			c.Outcome(a, b, fmt.Sprint(schedule))
		})
}

func init() {
	Register("C03", func(r *run.Run) {
		r.Rule = "bounded exhaustive enumeration of table maps and generator fonts; independent container walker (refsfnt) and golang.org/x/image as second reader"
		r.Assume = []string{
			"a nil map entry means 'table absent'; a table called head has at least the 12 bytes the writer patches",
			"x/image comparison: glyph count, units/em, GlyphIndex on a probe set, advances, post names (glyf fonts), outlines to 1/64 unit",
		}
		c03Container(r)
		c03Fonts(r)
		c03Scaled(r)
		c03CFFRuns(r)
		c03CFFHints(r)
		c03StandardNames(r)
		c03Inner(r)
		// one P: the goroutines of the interleaving exploration share per-P caches (sync.Pool), as on a loaded machine
		old := runtime.GOMAXPROCS(1)
		c03Interleaved(r)
		runtime.GOMAXPROCS(old)
	})
}

func refsfntWalk(b []byte) (*refsfnt.Container, []string) { return refsfnt.Walk(b) }
