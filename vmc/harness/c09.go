package harness

import (
	"bytes"
	"fmt"
	"sort"

	"seehuhn.de/go/sfnt/cmap"
	"seehuhn.de/go/sfnt/glyph"

	"verif/explore"
	"verif/refcmap"
	"verif/run"
)

// C09: character maps encode and decode faithfully and select the right subtable.

func fmtMap(m map[uint32]uint16) string {
	var ks []uint32
	for k := range m {
		ks = append(ks, k)
	}
	sort.Slice(ks, func(i, j int) bool { return ks[i] < ks[j] })
	s := ""
	for _, k := range ks {
		s += fmt.Sprintf("%#x:%d ", k, m[k])
	}
	return s
}

// check4 encodes a format 4 map and compares library decode, reference
// decode and the original on the given probe codes plus all mapped codes.
func c09Check4(c *explore.Ctx, sig string, m map[uint32]uint16, probes []uint32, lang uint16) {
	f4 := cmap.Format4{}
	for k, v := range m {
		if v != 0 {
			f4[uint16(k)] = glyph.ID(v)
		}
	}
	enc := f4.Encode(lang)
	c.Outcome(enc)
	for _, p := range refcmap.Check4(enc) {
		c.Fail("C09.format4-structure", sig, "%s (map %s)", p, fmtMap(m))
	}
	if len(enc) > 65535 {
		c.Fail("C09.format4-structure", sig, "subtable of %d bytes exceeds the 16-bit length field", len(enc))
	}
	ref, err := refcmap.Decode(enc)
	if err != nil {
		c.Fail("C09.format4-ref", sig, "specification decoder rejects Encode output: %v (map %s)", err, fmtMap(m))
		return
	}
	tab := cmap.Table{{PlatformID: 3, EncodingID: 1}: enc}
	sub, err := tab.Get(cmap.Key{PlatformID: 3, EncodingID: 1})
	if err != nil {
		c.Fail("C09.format4-lib", sig, "library decoder rejects Encode output: %v (map %s)", err, fmtMap(m))
		return
	}
	all := append([]uint32{}, probes...)
	for k := range m {
		all = append(all, k)
	}
	for _, code := range all {
		want := m[code]
		if got := ref[code]; got != want {
			c.Fail("C09.format4-ref", sig, "specification decoder maps %#x to %d, want %d (map %s)", code, got, want, fmtMap(m))
			return
		}
		if got := sub.Lookup(rune(code)); uint16(got) != want {
			c.Fail("C09.format4-lib", sig, "library maps %#x to %d, want %d (map %s)", code, got, want, fmtMap(m))
			return
		}
		// code points outside the BMP, and values that are no code points at all, are unmapped
		for _, r := range []rune{rune(code) + 0x10000, rune(code) + 0x100000, rune(code) - 0x10000, -1 - rune(code)} {
			if got := sub.Lookup(r); got != 0 {
				c.Fail("C09.format4-lib", sig+" / outside the BMP", "library maps %#x (not a code of a format 4 subtable) to %d (map %s)", r, got, fmtMap(m))
				return
			}
		}
	}
	if len(ref) != len(f4) {
		c.Fail("C09.format4-ref", sig, "specification decoder finds %d mapped codes, want %d (map %s)", len(ref), len(f4), fmtMap(m))
	}
}

var c09Window = []uint32{0, 1, 2, 3, 4, 5, 6, 7, 0xFFFC, 0xFFFD, 0xFFFE, 0xFFFF}
var c09Probes = []uint32{0, 1, 2, 3, 4, 5, 6, 7, 8, 9, 99, 100, 101, 0x7FFF, 0x8000, 0xFFEF, 0xFFF0, 0xFFFB, 0xFFFC, 0xFFFD, 0xFFFE, 0xFFFF}

func c09Format4(r *run.Run) {
	window := c09Window[:10]
	if !r.Quick() {
		window = c09Window[:11]
	}
	window = append(append([]uint32{}, window[:len(window)-2]...), 0xFFFE, 0xFFFF)
	nvals := 3
	if !r.Quick() {
		nvals = 4
	}
	r.Explore(explore.Config{Name: "C09.format4-window", Deadline: r.PartDeadline(0.5)},
		"all maps over a code window {0..k, 0xFFFC.., 0xFFFE, 0xFFFF} with per-code value from {unmapped, code+10, 7, wrapping}; Encode then library decode == specification decode == original; non-trivial = at least 2 mapped codes",
		func(c *explore.Ctx) {
			m := map[uint32]uint16{}
			for _, code := range window {
				switch c.Choose(nvals, fmt.Sprintf("value@%#x", code)) {
				case 1:
					m[code] = uint16(code + 10) // wraps for the high codes
				case 2:
					m[code] = 7
				case 3:
					m[code] = uint16(code + 0xFFF0) // glyph ids that wrap modulo 65536
				}
				if m[code] == 0 {
					delete(m, code)
				}
			}
			if len(m) >= 2 {
				c.Nontrivial()
			}
			c.Sample(func() any { return fmtMap(m) })
			c09Check4(c, "window", m, c09Probes, 0)
		})

	r.Explore(explore.Config{Name: "C09.format4-runs"},
		"run structures [run a][gap g][run b] (a,b in 1..6, g in 0..7, same/different delta, optional constant run) at offsets {0,100,0xFFF0}, glyph ids from {20, 0xF000, 0x8000, 0x7FFF, 0xFFF8, 1} (deltas that wrap around 16 bits in both directions), with and without code 0xFFFF",
		func(c *explore.Ctx) {
			base := explore.Pick(c, "offset", uint32(0), uint32(100), uint32(0xFFF0))
			a := 1 + c.Choose(6, "run a")
			g := c.Choose(8, "gap")
			b := 1 + c.Choose(6, "run b")
			kind := c.Choose(3, "second run kind")
			// glyph ids of the first run: small ones, ids that lie 0x8000 or more above / below the code
			// (the 16-bit delta arithmetic wraps around in both directions), and the top of the glyph range
			gbase := explore.Pick(c, "glyph id of the first run", uint16(20), uint16(0xF000), uint16(0x8000), uint16(0x7FFF), uint16(0xFFF8), uint16(1))
			m := map[uint32]uint16{}
			code := base
			for i := 0; i < a && code <= 0xFFFF; i++ {
				m[code] = gbase + uint16(i)
				code++
			}
			code += uint32(g)
			for i := 0; i < b && code <= 0xFFFF; i++ {
				switch kind {
				case 0:
					m[code] = gbase + uint16(a+g+i) // same delta as run a
				case 1:
					m[code] = uint16(500 + 3*i) // irregular: needs glyphIdArray
				default:
					m[code] = 9 // constant
				}
				code++
			}
			if c.Bool("map 0xFFFF") {
				m[0xFFFF] = 3
			}
			c.Nontrivial()
			c.Sample(func() any { return fmtMap(m) })
			var probes []uint32
			for x := base; x < base+40 && x <= 0xFFFF; x++ {
				probes = append(probes, x)
			}
			probes = append(probes, c09Probes...)
			c09Check4(c, "runs", m, probes, 0)
		})

	if !r.Quick() {
		r.Explore(explore.Config{Name: "C09.format4-large"},
			"large format 4 subtables around the 64 KiB limit: n isolated codes (one segment each)",
			func(c *explore.Ctx) {
				n := explore.Pick(c, "segments", 1000, 8000, 8180, 8188)
				m := map[uint32]uint16{}
				for i := 0; i < n; i++ {
					m[uint32(3*i+1)] = uint16(i%1000 + 1)
				}
				c.Nontrivial()
				c.Sample(func() any { return fmt.Sprintf("%d isolated codes", n) })
				c09Check4(c, "large", m, c09Probes, 0)
			})
	}
}

func c09Format12(r *run.Run) {
	codes := []uint32{0, 1, 2, 0xFFFF, 0x10000, 0x10001, 0x10FFFF}
	r.Explore(explore.Config{Name: "C09.format12-window", Bound: 1},
		"all maps over {0,1,2,0xFFFF,0x10000,0x10001,0x10FFFF} x {unmapped, consecutive, other, same-gap-as-codes}; Encode then library decode == specification decode == original for the window and its neighbours",
		func(c *explore.Ctx) {
			m := map[uint32]uint16{}
			for i, code := range codes {
				switch c.Choose(4, fmt.Sprintf("value@%#x", code)) {
				case 1:
					m[code] = uint16(10 + i) // consecutive glyphs
				case 2:
					m[code] = uint16(300 - 7*i)
				case 3:
					m[code] = uint16(code%60000 + 5) // glyph gap equals code gap
				}
			}
			lang := uint16(c.Deviate(2, "language") * 7)
			if len(m) >= 2 {
				c.Nontrivial()
			}
			c.Sample(func() any { return fmtMap(m) })
			f12 := cmap.Format12{}
			for k, v := range m {
				f12[k] = glyph.ID(v)
			}
			enc := f12.Encode(lang)
			c.Outcome(enc)
			ref, err := refcmap.Decode(enc)
			if err != nil {
				c.Fail("C09.format12-ref", "window", "specification decoder rejects Encode output: %v (%s)", err, fmtMap(m))
				return
			}
			tab := cmap.Table{{PlatformID: 3, EncodingID: 10}: enc}
			sub, err := tab.Get(cmap.Key{PlatformID: 3, EncodingID: 10})
			if err != nil {
				c.Fail("C09.format12-lib", "window", "library rejects Encode output: %v (%s)", err, fmtMap(m))
				return
			}
			if int(enc[4])<<24|int(enc[5])<<16|int(enc[6])<<8|int(enc[7]) != len(enc) {
				c.Fail("C09.format12-structure", "window", "length field differs from subtable size")
			}
			if uint16(enc[10])<<8|uint16(enc[11]) != lang {
				c.Fail("C09.format12-structure", "window", "language field %d want %d", uint16(enc[10])<<8|uint16(enc[11]), lang)
			}
			var probes []uint32
			for _, code := range codes {
				for d := -2; d <= 2; d++ {
					if p := int64(code) + int64(d); p >= 0 && p <= 0x10FFFF {
						probes = append(probes, uint32(p))
					}
				}
			}
			probes = append(probes, 0x8000, 0x20000, 0xE0000)
			for _, p := range probes {
				if ref[p] != m[p] {
					c.Fail("C09.format12-ref", "window", "specification decoder maps %#x to %d, want %d (%s)", p, ref[p], m[p], fmtMap(m))
					return
				}
				if got := sub.Lookup(rune(p)); uint16(got) != m[p] {
					c.Fail("C09.format12-lib", "window", "library maps %#x to %d, want %d (%s)", p, got, m[p], fmtMap(m))
					return
				}
			}
		})
	r.Explore(explore.Config{Name: "C09.format12-glyph-wrap"},
		"all maps of the four consecutive codes U+0041..U+0044 (and of U+1F600..U+1F603) to {unmapped, 0, 1, 2, 0xFFFE, 0xFFFF}: glyph ids of a group must not run past 0xFFFF; library decode == specification decode == original",
		func(c *explore.Ctx) {
			base := []uint32{0x41, 0x1F600}[c.Choose(2, "first code")]
			vals := []int{-1, 0, 1, 2, 0xFFFE, 0xFFFF}
			m := map[uint32]uint16{}
			f12 := cmap.Format12{}
			for i := uint32(0); i < 4; i++ {
				if v := vals[c.Choose(len(vals), fmt.Sprintf("glyph of code %d", i))]; v >= 0 {
					m[base+i] = uint16(v)
					f12[base+i] = glyph.ID(v)
				}
			}
			if len(m) >= 2 {
				c.Nontrivial()
			}
			c.Sample(func() any { return fmtMap(m) })
			enc := f12.Encode(0)
			c.Outcome(enc)
			ref, err := refcmap.Decode(enc)
			if err != nil {
				c.Fail("C09.format12-ref", "glyph wrap", "specification decoder rejects Encode output: %v (%s)", err, fmtMap(m))
				return
			}
			tab := cmap.Table{{PlatformID: 3, EncodingID: 10}: enc}
			sub, err := tab.Get(cmap.Key{PlatformID: 3, EncodingID: 10})
			if err != nil {
				c.Fail("C09.format12-lib", "glyph wrap", "library rejects Encode output: %v (%s)", err, fmtMap(m))
				return
			}
			for p := base - 2; p < base+6; p++ {
				if ref[p] != m[p] {
					c.Fail("C09.format12-ref", "glyph wrap", "specification decoder maps %#x to %d, want %d (%s; subtable % x)", p, ref[p], m[p], fmtMap(m), enc)
					return
				}
				if got := sub.Lookup(rune(p)); uint16(got) != m[p] {
					c.Fail("C09.format12-lib", "glyph wrap", "library maps %#x to %d, want %d (%s)", p, got, m[p], fmtMap(m))
					return
				}
			}
		})
	r.Explore(explore.Config{Name: "C09.format12-sizes"},
		"format 12 maps with {1, 255, 256, 65535, 65536} entries (the property's bound; the reader refuses larger maps) laid out as one group, as groups of two codes with gaps, or as single codes (one group per entry), starting at code 0 / 0x20 / 0x10000: the subtable written by Encode is accepted by the library and by the specification decoder, and every entry, the codes next to the ends and code 0 decode to the glyph written",
		func(c *explore.Ctx) {
			n := explore.Pick(c, "entries", 1, 255, 256, 65535, 65536)
			layout := c.Choose(3, "layout")
			start := explore.Pick(c, "first code", uint32(0), uint32(0x20), uint32(0x10000))
			f12 := cmap.Format12{}
			code := start
			for i := 0; i < n; i++ {
				f12[code] = glyph.ID(1 + i%65535)
				switch layout {
				case 0:
					code++
				case 1:
					code += 1 + uint32(i%2)
				default:
					code += 2
				}
			}
			last := code
			desc := fmt.Sprintf("%d entries from %#x, layout %d", n, start, layout)
			c.Sample(func() any { return desc })
			c.Nontrivial()
			enc := f12.Encode(0)
			c.Outcome(len(enc), desc)
			ref, err := refcmap.Decode(enc)
			if err != nil {
				c.Fail("C09.format12-ref", "sizes", "specification decoder rejects Encode output: %v (%s)", err, desc)
				return
			}
			tab := cmap.Table{{PlatformID: 3, EncodingID: 10}: enc}
			sub, err := tab.Get(cmap.Key{PlatformID: 3, EncodingID: 10})
			if err != nil {
				c.Fail("C09.format12-lib", fmt.Sprintf("sizes / %d entries", n), "the library rejects the subtable its encoder wrote: %v (%s, %d bytes)", err, desc, len(enc))
				return
			}
			check := func(code uint32) bool {
				want := uint16(f12[code])
				if got := uint16(sub.Lookup(rune(code))); got != want || ref[code] != want {
					c.Fail("C09.format12-lib", "sizes / lookup", "code %#x: library %d, specification decoder %d, written %d (%s)", code, got, ref[code], want, desc)
					return false
				}
				return true
			}
			for code := range f12 {
				if !check(code) {
					return
				}
			}
			for _, code := range []uint32{0, start + 1, last, last + 1, last + 2, 0x10FFFF} {
				if code <= 0x10FFFF && !check(code) {
					return
				}
			}
			if start > 0 && !check(start-1) {
				return
			}
		})
}

// byte-level cases: subtables as found in files, assembled by refcmap.
func c09Bytes(r *run.Run) {
	r.Explore(explore.Config{Name: "C09.bytes-format4"},
		"hand-assembled format 4: segments with idRangeOffset != 0 and idDelta in {0, 5, 0xFFFF}, glyphIdArray values incl. 0; direct segments with wrapping delta; the customary final 0xFFFF segment in its usual variants and final segments that map 0xFFFF to a glyph (by delta, through the glyphIdArray, as the end of a longer segment)",
		func(c *explore.Ctx) {
			delta := explore.Pick(c, "idDelta of array segment", uint16(0), uint16(5), uint16(0xFFFF))
			vals := [][]uint16{{11, 12, 13}, {11, 0, 13}, {0, 0, 0}, {0xFFFF, 1, 2}}[c.Choose(4, "glyphIdArray")]
			directDelta := explore.Pick(c, "idDelta of direct segment", uint16(100), uint16(0xFFD0), uint16(0xFFFF-0x40+1))
			final := c.Choose(7, "final segment")
			segs := []refcmap.Seg4{
				{Start: 0x20, End: 0x22, Delta: delta, Glyphs: vals},
				{Start: 0x40, End: 0x45, Delta: directDelta},
			}
			switch final {
			case 0:
				segs = append(segs, refcmap.Seg4{Start: 0xFFFF, End: 0xFFFF, Delta: 1})
			case 1:
				segs = append(segs, refcmap.Seg4{Start: 0xFFFF, End: 0xFFFF, Delta: 0})
			case 2:
				segs = append(segs, refcmap.Seg4{Start: 0xFFFF, End: 0xFFFF, Delta: 0, Glyphs: []uint16{0}})
			case 3: // code 0xFFFF mapped to a glyph through the glyphIdArray
				segs = append(segs, refcmap.Seg4{Start: 0xFFFF, End: 0xFFFF, Delta: 0, Glyphs: []uint16{7}})
			case 4:
				segs = append(segs, refcmap.Seg4{Start: 0xFFFF, End: 0xFFFF, Delta: 5, Glyphs: []uint16{7}})
			case 5: // the final segment starts in front of 0xFFFF
				segs = append(segs, refcmap.Seg4{Start: 0xFFFE, End: 0xFFFF, Delta: 0, Glyphs: []uint16{8, 9}})
			case 6: // code 0xFFFF mapped to a glyph by a wrapping delta
				segs = append(segs, refcmap.Seg4{Start: 0xFFFF, End: 0xFFFF, Delta: 8})
			}
			b := refcmap.Assemble4(segs, 0)
			c.Sample(func() any { return fmt.Sprintf("segments %+v", segs) })
			c.Outcome(b)
			ref, err := refcmap.Decode(b)
			if err != nil {
				explore.Fatal("refcmap rejects its own assembly: %v", err)
			}
			tab := cmap.Table{{PlatformID: 3, EncodingID: 1}: b}
			sub, err := tab.Get(cmap.Key{PlatformID: 3, EncodingID: 1})
			if err != nil {
				c.Fail("C09.bytes-format4", "decode", "library rejects a well-formed format 4 subtable: %v (%+v)", err, segs)
				return
			}
			c.Nontrivial()
			sig := "idRangeOffset+idDelta"
			if delta == 0 {
				sig = "idRangeOffset"
			}
			for code := uint32(0x1E); code <= 0x48; code++ {
				if got := sub.Lookup(rune(code)); uint16(got) != ref[code] {
					s := sig
					if code >= 0x40 {
						s = "direct segment"
					}
					c.Fail("C09.bytes-format4", s, "code %#x: library gives glyph %d, the specification defines %d (segments %+v)", code, got, ref[code], segs)
					return
				}
			}
			for _, code := range []uint32{0, 0xFFFE, 0xFFFF} {
				if got := sub.Lookup(rune(code)); uint16(got) != ref[code] {
					c.Fail("C09.bytes-format4", "final segment", "code %#x: library gives glyph %d, the specification defines %d (segments %+v)", code, got, ref[code], segs)
				}
			}
		})

	r.Explore(explore.Config{Name: "C09.bytes-format6-0"},
		"format 6 (first/count boundaries, trailing 0x0000 pad) and format 0 under Unicode and Macintosh keys",
		func(c *explore.Ctx) {
			if c.Bool("format 0") {
				var g [256]byte
				for i := range g {
					g[i] = byte((i*7 + 3) % 251)
				}
				g[0x41] = 0
				macKey := c.Bool("mac key")
				b := refcmap.Assemble0(g, 0)
				key := cmap.Key{PlatformID: 0, EncodingID: 3}
				if macKey {
					key = cmap.Key{PlatformID: 1, EncodingID: 0}
				}
				c.Sample(func() any { return fmt.Sprintf("format 0 under key %+v", key) })
				tab := cmap.Table{key: b}
				sub, err := tab.Get(key)
				if err != nil {
					c.Fail("C09.bytes-format0", "decode", "library rejects format 0: %v", err)
					return
				}
				c.Nontrivial()
				c.Outcome(b, macKey)
				for code := 0; code < 256; code++ {
					r := rune(code)
					if macKey {
						r = refMacRoman(byte(code)) // character codes of a (1,0) subtable are Mac Roman (published table, independent of the library's)
					}
					if got := sub.Lookup(r); uint16(got) != uint16(g[code]) {
						sig := "unicode key"
						if macKey {
							sig = "mac key"
							if code < 128 {
								sig = "mac key ascii"
							}
						}
						c.Fail("C09.bytes-format0", sig, "byte code %#x (rune %U): library gives glyph %d, table says %d", code, r, got, g[code])
						return
					}
				}
				for _, r := range []rune{256, 0x2000, 0x10FFFF} {
					if !macKey && sub.Lookup(r) != 0 {
						c.Fail("C09.bytes-format0", "unmapped", "rune %U maps to %d", r, sub.Lookup(r))
					}
				}
				return
			}
			first := explore.Pick(c, "firstCode", uint16(0), uint16(0x41), uint16(0xFFFD))
			count := c.Choose(4, "entryCount")
			pad := c.Bool("trailing pad")
			var gl []uint16
			for i := 0; i < count && int(first)+i <= 0xFFFF; i++ {
				gl = append(gl, uint16([]int{5, 0, 9}[i%3]))
			}
			b := refcmap.Assemble6(first, gl, 0, pad)
			c.Sample(func() any { return fmt.Sprintf("format 6 first=%#x glyphs=%v pad=%v", first, gl, pad) })
			ref, _ := refcmap.Decode(b)
			tab := cmap.Table{{PlatformID: 3, EncodingID: 1}: b}
			sub, err := tab.Get(cmap.Key{PlatformID: 3, EncodingID: 1})
			if err != nil {
				c.Fail("C09.bytes-format6", "decode", "library rejects format 6 (first=%#x count=%d pad=%v): %v", first, len(gl), pad, err)
				return
			}
			c.Nontrivial()
			c.Outcome(b)
			for d := -1; d <= len(gl)+1; d++ {
				code := int(first) + d
				if code < 0 || code > 0xFFFF {
					continue
				}
				if got := sub.Lookup(rune(code)); uint16(got) != ref[uint32(code)] {
					c.Fail("C09.bytes-format6", "lookup", "code %#x: library %d, specification %d (first=%#x glyphs=%v)", code, got, ref[uint32(code)], first, gl)
				}
			}
		})

	r.Explore(explore.Config{Name: "C09.bytes-mac"},
		"format 4 (delta and glyph-array segments) and format 6 subtables under the Macintosh Roman key (1,0) with codes in 0x20..0xFF and holes, first codes {0x20,0x41,0x7E,0x80,0xA0} x lengths {1,2,0x20,0x60}: every BMP rune maps to the glyph of the Mac Roman byte that encodes it (published Mac OS Roman table), all others to glyph 0; the same bytes under a Unicode key decode unchanged",
		func(c *explore.Ctx) {
			first := explore.Pick(c, "first code", 0x20, 0x41, 0x7E, 0x80, 0xA0)
			n := explore.Pick(c, "codes", 1, 2, 0x20, 0x60)
			if first+n > 0x100 {
				n = 0x100 - first
			}
			form := c.Choose(3, "subtable form") // format 6, format 4 delta segments, format 4 glyph array
			glyphOf := map[int]uint16{}
			gl := make([]uint16, n)
			for i := range gl {
				if i%5 != 3 { // holes
					gl[i] = uint16(10 + i)
					glyphOf[first+i] = gl[i]
				}
			}
			var b []byte
			switch form {
			case 0:
				b = refcmap.Assemble6(uint16(first), gl, 0, false)
			case 1:
				var segs []refcmap.Seg4
				for i := 0; i < n; i++ {
					if gl[i] != 0 {
						code := uint16(first + i)
						segs = append(segs, refcmap.Seg4{Start: code, End: code, Delta: gl[i] - code})
					}
				}
				b = refcmap.Assemble4(append(segs, refcmap.Seg4{Start: 0xFFFF, End: 0xFFFF, Delta: 1}), 0)
			default:
				b = refcmap.Assemble4([]refcmap.Seg4{{Start: uint16(first), End: uint16(first + n - 1), Glyphs: gl}, {Start: 0xFFFF, End: 0xFFFF, Delta: 1}}, 0)
			}
			desc := fmt.Sprintf("%s, codes %#x..%#x", []string{"format 6", "format 4 (delta segments)", "format 4 (glyph array)"}[form], first, first+n-1)
			c.Sample(func() any { return desc })
			c.Nontrivial()
			c.Outcome(b)
			macKey := cmap.Key{PlatformID: 1, EncodingID: 0}
			uniKey := cmap.Key{PlatformID: 0, EncodingID: 3}
			tab := cmap.Table{macKey: b, uniKey: b}
			enc := tab.Encode()
			tab2, err := cmap.Decode(enc)
			if err != nil {
				c.Fail("C09.bytes-mac", "table", "cmap.Decode(Encode(t)) fails: %v (%s)", err, desc)
				return
			}
			msub, err := tab2.Get(macKey)
			if err != nil {
				c.Fail("C09.bytes-mac", "decode", "library rejects the subtable under the Macintosh key: %v (%s)", err, desc)
				return
			}
			usub, err := tab2.Get(uniKey)
			if err != nil {
				c.Fail("C09.bytes-mac", "decode", "library rejects the subtable under the Unicode key: %v (%s)", err, desc)
				return
			}
			want := map[rune]uint16{}
			for code, g := range glyphOf {
				want[refMacRoman(byte(code))] = g
			}
			for ru := rune(0); ru <= 0xFFFF; ru++ {
				if got := msub.Lookup(ru); uint16(got) != want[ru] {
					c.Fail("C09.bytes-mac", "mac key "+[]string{"format 6", "format 4", "format 4"}[form], "%U under the Macintosh key: library gives glyph %d, want %d (Mac Roman byte table); %s", ru, got, want[ru], desc)
					break
				}
			}
			for ru := rune(0); ru <= 0x200; ru++ {
				if got := usub.Lookup(ru); uint16(got) != glyphOf[int(ru)] {
					c.Fail("C09.bytes-mac", "unicode key", "%U under the Unicode key: library gives glyph %d, want %d; %s", ru, got, glyphOf[int(ru)], desc)
					break
				}
			}
		})
}

// c09TableLayouts: cmap tables as other producers lay them out: the subtables stored in any order
// (not that of the encoding records), packed or with gaps, shared between records.
func c09TableLayouts(r *run.Run) {
	keys := []cmap.Key{{PlatformID: 0, EncodingID: 3}, {PlatformID: 1, EncodingID: 0}, {PlatformID: 3, EncodingID: 1}}
	var f0 cmap.Format0
	f0.Data[65] = 4
	subs := [][]byte{cmap.Format4{65: 1, 66: 2}.Encode(0), f0.Encode(0), cmap.Format4{65: 3, 0x2000: 9}.Encode(0)}
	perms := [][]int{{0, 1, 2}, {0, 2, 1}, {1, 0, 2}, {1, 2, 0}, {2, 0, 1}, {2, 1, 0}}
	r.Explore(explore.Config{Name: "C09.table-layouts"},
		"cmap tables assembled by hand: 3 encoding records (Unicode, Macintosh, Windows) each pointing at one of 3 subtables (all 27 assignments, shared subtables included; the Macintosh record at a format 0 or a format 4 subtable), the subtables stored in each of the 6 orders, packed or 2 bytes apart: Decode accepts the table, every key gets the bytes of its subtable, records sharing a subtable stay shared on re-encoding",
		func(c *explore.Ctx) {
			var pick [3]int
			for i := range keys {
				pick[i] = c.Choose(3, fmt.Sprintf("subtable of record %d", i))
			}
			perm := perms[c.Choose(len(perms), "storage order")]
			gap := 2 * c.Choose(2, "gap")
			used := map[int]bool{}
			for _, k := range pick {
				used[k] = true
			}
			hdr := 4 + 8*len(keys)
			pos := hdr
			offs := map[int]int{}
			var body []byte
			for _, k := range perm {
				if !used[k] {
					continue
				}
				offs[k] = pos
				body = append(body, subs[k]...)
				body = append(body, make([]byte, gap)...)
				pos += len(subs[k]) + gap
			}
			data := be16(0, len(keys))
			for i, key := range keys {
				data = append(data, be16(int(key.PlatformID), int(key.EncodingID))...)
				data = append(data, be32(offs[pick[i]])...)
			}
			data = append(data, body...)
			desc := fmt.Sprintf("records -> subtables %v, storage order %v, gap %d", pick, perm, gap)
			c.Sample(func() any { return desc })
			c.Outcome(desc)
			t, err := cmap.Decode(data)
			if err != nil {
				c.Fail("C09.table", "layouts / decode", "cmap.Decode rejects a well-formed table: %v (%s)", err, desc)
				return
			}
			c.Nontrivial()
			if len(t) != len(keys) {
				c.Fail("C09.table", "layouts / keys", "%d keys come back as %d (%s)", len(keys), len(t), desc)
				return
			}
			for i, key := range keys {
				if !bytes.Equal(t[key], subs[pick[i]]) {
					c.Fail("C09.table", "layouts / bytes", "key %v gets %d bytes that are not its subtable (%s)", key, len(t[key]), desc)
					return
				}
			}
			back, err := cmap.Decode(t.Encode())
			if err != nil || len(back) != len(keys) {
				c.Fail("C09.table", "layouts / re-encode", "the decoded table does not survive Encode/Decode: %v (%s)", err, desc)
				return
			}
			for i, key := range keys {
				if !bytes.Equal(back[key], subs[pick[i]]) {
					c.Fail("C09.table", "layouts / re-encode", "key %v changes on re-encoding (%s)", key, desc)
					return
				}
			}
			// sharing: the re-encoded table stores every distinct subtable once
			want := 4 + 8*len(keys)
			for k := range used {
				want += len(subs[k])
			}
			if got := len(t.Encode()); got != want {
				c.Fail("C09.table", "layouts / sharing", "the re-encoded table has %d bytes, %d with every distinct subtable stored once (%s)", got, want, desc)
			}
		})
}

func c09Table(r *run.Run) {
	// keys 8 and 9: full-Unicode (32-bit header) subtables under the Macintosh platform that differ in the language only;
	// the last two: the ISO and Custom platforms (2 and 4)
	keys := []cmap.Key{{0, 3, 0}, {0, 4, 0}, {1, 0, 0}, {1, 0, 5}, {3, 1, 0}, {3, 10, 0}, {3, 0, 0}, {1, 0, 7}, {1, 0, 9}, {2, 1, 0}, {4, 0, 0}, {0, 5, 0}}
	f4 := cmap.Format4{65: 1, 66: 2}
	f4b := cmap.Format4{65: 3}
	f12 := cmap.Format12{65: 1, 0x1F600: 2}
	var f0 cmap.Format0
	f0.Data[65] = 4
	r.Explore(explore.Config{Name: "C09.table"},
		"cmap.Table over all subsets of 12 (platform, encoding, language) keys (platforms 0..4; a format 14 subtable under (0,5); the full-Unicode keys with a format 12 or an undecodable format 13 subtable) (incl. 16- and 32-bit subtable headers under Macintosh keys with non-zero languages) with shared / distinct subtables: Decode(Encode(t)) keeps keys, bytes and sharing; GetBest prefers (3,10) > (0,4) > (3,1) > (0,3) > (1,0) among the subtables it can decode",
		func(c *explore.Ctx) {
			t := cmap.Table{}
			wantMap := map[cmap.Key][3]glyph.ID{} // the glyphs of 'A', 'B' and U+1F600 under each key
			undecodable := map[cmap.Key]bool{}
			var desc []string
			for i, k := range keys {
				nch := 3
				if k.PlatformID == 2 || k.PlatformID == 4 || k.PlatformID == 1 || k.EncodingID == 5 {
					nch = 2 // one possible subtable only
				}
				ch := c.Choose(nch, fmt.Sprintf("key %v", k))
				if ch == 0 {
					continue
				}
				var data []byte
				switch {
				case k.PlatformID == 1 && k.Language >= 7:
					data = cmap.Format12{65: glyph.ID(k.Language), 0x1F600: 2}.Encode(k.Language)
					wantMap[k] = [3]glyph.ID{glyph.ID(k.Language), 0, 2}
				case k.PlatformID == 1:
					data = f0.Encode(k.Language)
					wantMap[k] = [3]glyph.ID{4, 0, 0}
				case k.EncodingID == 5:
					// Unicode variation sequences (format 14, a 32-bit length directly behind the format): kept as bytes
					data = []byte{0, 14, 0, 0, 0, 10, 0, 0, 0, 0}
				case (k.EncodingID == 10 || k.EncodingID == 4) && ch == 2:
					// a many-to-one subtable (format 13), which the library stores but does not decode:
					// the choice of the best subtable passes over it
					data = f12.Encode(0)
					data[1] = 13
					undecodable[k] = true
				case k.EncodingID == 10 || k.EncodingID == 4:
					data = f12.Encode(0)
					wantMap[k] = [3]glyph.ID{1, 0, 2}
				case ch == 1:
					data = f4.Encode(0) // shared between all BMP keys that pick it
					wantMap[k] = [3]glyph.ID{1, 2, 0}
				default:
					data = f4b.Encode(0)
					wantMap[k] = [3]glyph.ID{3, 0, 0}
				}
				_ = i
				t[k] = data
				desc = append(desc, fmt.Sprintf("%v:fmt%d/%d", k, data[1], len(data)))
			}
			if len(t) == 0 {
				c.Skip("empty table")
			}
			c.Sample(func() any { return desc })
			if len(t) >= 3 {
				c.Nontrivial()
			}
			enc := t.Encode()
			c.Outcome(enc)
			t2, err := cmap.Decode(enc)
			if err != nil {
				c.Fail("C09.table", "Decode", "Decode(Encode(t)) fails: %v (%v)", err, desc)
				return
			}
			if len(t2) != len(t) {
				c.Fail("C09.table", "keys", "%d keys come back as %d (%v)", len(t), len(t2), desc)
			}
			for k, d := range t {
				if !bytes.Equal(t2[k], d) {
					c.Fail("C09.table", "bytes", "subtable %v differs after the round trip (%v)", k, desc)
				}
			}
			// every key still leads to the mapping its subtable was encoded from (the encoded subtables were all
			// produced before the first of them was used); judged by the reference decoder
			for _, k := range keys {
				w, ok := wantMap[k]
				if !ok {
					continue
				}
				m, err := refcmap.Decode(t2[k])
				if err != nil {
					c.Fail("C09.table", "mapping", "subtable %v is malformed after the round trip: %v (%v)", k, err, desc)
					continue
				}
				for j, r := range []uint32{65, 66, 0x1F600} {
					if g := m[r]; g != uint16(w[j]) {
						c.Fail("C09.table", "mapping", "subtable %v maps %U to glyph %d after the round trip, %d was encoded (%v)", k, r, g, w[j], desc)
					}
				}
			}
			// sharing: total size = header + distinct subtables
			distinct := map[string]bool{}
			size := 4 + 8*len(t)
			for _, d := range t {
				if !distinct[string(d)] {
					distinct[string(d)] = true
					size += len(d)
				}
			}
			if len(enc) != size {
				c.Fail("C09.table", "sharing", "encoded table has %d bytes, %d expected with identical subtables stored once (%v)", len(enc), size, desc)
			}
			// best subtable
			var wantKey *cmap.Key
			for _, cand := range []cmap.Key{{3, 10, 0}, {0, 4, 0}, {3, 1, 0}, {0, 3, 0}, {1, 0, 0}} {
				if _, ok := t[cand]; ok && !undecodable[cand] {
					k := cand
					wantKey = &k
					break
				}
			}
			best, err := t.GetBest()
			if wantKey == nil {
				if err == nil {
					c.Fail("C09.best", "none", "GetBest succeeded without a usable subtable (%v)", desc)
				}
				return
			}
			if err != nil {
				c.Fail("C09.best", "error", "GetBest fails: %v (%v)", err, desc)
				return
			}
			want, _ := t.Get(*wantKey)
			for _, r := range []rune{65, 66, 0x1F600, 67} {
				if best.Lookup(r) != want.Lookup(r) {
					c.Fail("C09.best", fmt.Sprint(*wantKey), "GetBest does not behave like subtable %v on %U: %d vs %d (%v)", *wantKey, r, best.Lookup(r), want.Lookup(r), desc)
				}
			}
		})
}

func init() {
	Register("C09", func(r *run.Run) {
		r.Rule = "bounded exhaustive enumeration of code->glyph maps and of hand-assembled subtables; independent specification decoder (refcmap)"
		r.Assume = []string{"code points queried are non-negative", "format 12 glyph ids are 16 bit"}
		c09Format4(r)
		c09Format12(r)
		c09Bytes(r)
		c09Table(r)
		c09TableLayouts(r)
	})
}
