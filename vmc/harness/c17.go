package harness

import (
	"bytes"
	"errors"
	"fmt"
	"hash/fnv"
	"io"
	"reflect"
	"time"

	"seehuhn.de/go/sfnt/parser"

	"verif/explore"
	"verif/run"
)

// C17: the buffered reader is observationally a plain random-access byte view.
//
// Explicit-state search on the real parser.Parser.  A state is the operation
// history that reaches it; the canonical key is a reflective dump of *all*
// fields of the Parser (buffer contents up to `used`, offsets) plus the
// position of the underlying reader, so two merged states really have the
// same futures: the parser's behaviour is a function of exactly these.

type c17Reader struct {
	data []byte
	off  int64
	mode int // 0 full, 1 one byte at a time, 2 seven bytes, 3 n>0 together with io.EOF, 4 seven bytes with an empty read before each
	tick bool
}

var c17ReaderModes = []string{"full reads", "1-byte reads", "7-byte reads", "n>0 together with io.EOF", "7-byte reads, each after an empty read (0, nil)"}

func (r *c17Reader) Read(p []byte) (int, error) {
	if len(p) == 0 {
		return 0, nil
	}
	if r.off >= int64(len(r.data)) {
		return 0, io.EOF
	}
	n := len(p)
	switch r.mode {
	case 1:
		n = 1
	case 2:
		n = min(n, 7)
	case 4:
		// "nothing happened, try again" is a legal answer of an io.Reader
		if r.tick = !r.tick; r.tick {
			return 0, nil
		}
		n = min(n, 7)
	}
	n = copy(p[:n], r.data[r.off:])
	r.off += int64(n)
	if r.mode == 3 && r.off >= int64(len(r.data)) {
		return n, io.EOF
	}
	return n, nil
}

func (r *c17Reader) Seek(offset int64, whence int) (int64, error) {
	var abs int64
	switch whence {
	case io.SeekStart:
		abs = offset
	case io.SeekCurrent:
		abs = r.off + offset
	case io.SeekEnd:
		abs = int64(len(r.data)) + offset
	}
	if abs < 0 {
		return 0, errors.New("negative position")
	}
	r.off = abs
	return abs, nil
}

func (r *c17Reader) Size() int64 { return int64(len(r.data)) }

func c17Input(n int) []byte {
	b := make([]byte, n)
	for i := range b {
		switch {
		case i%4 == 0:
			b[i] = 0 // makes 16-bit counts at multiples of 4 small, so ReadUint16Slice succeeds sometimes
		case i%4 == 1:
			b[i] = byte((i / 4) % 7)
		default:
			b[i] = byte((i*131 + i/256*17 + 5) % 256)
		}
	}
	return b
}

type c17Op struct {
	kind string
	arg  int64
}

func (o c17Op) String() string {
	switch o.kind {
	case "Pos", "Size", "ReadUint8", "ReadUint16", "ReadInt16", "ReadUint32", "ReadUint16Slice":
		return o.kind + "()"
	}
	return fmt.Sprintf("%s(%d)", o.kind, o.arg)
}

func c17Ops(L int, cur int64, failed bool, thorough bool) []c17Op {
	var ops []c17Op
	seen := map[int64]bool{}
	for _, p := range []int64{0, 1, int64(L) - 1, int64(L), int64(L) + 1, 1023, 1024, 1025, 2048, cur - 1, cur + 1} {
		if p < 0 || seen[p] {
			continue
		}
		if p > int64(L)+2 {
			continue // everything more than one byte past the end behaves alike
		}
		seen[p] = true
		ops = append(ops, c17Op{"SeekPos", p})
	}
	if failed {
		// the position after a failed read is unspecified: continue only through SeekPos
		return ops
	}
	limit := int64(L) + 2 // keeps the position, and with it the state space, finite
	for _, n := range []int64{0, 1, 2, 1023, 1024} {
		if cur+n <= limit {
			ops = append(ops, c17Op{"Discard", n})
		}
	}
	for _, k := range []string{"ReadUint8", "ReadUint16", "ReadInt16", "ReadUint32", "ReadUint16Slice", "Pos", "Size"} {
		ops = append(ops, c17Op{k, 0})
	}
	for _, n := range []int64{0, 1, 2, 1023, 1024} {
		ops = append(ops, c17Op{"ReadBytes", n})
	}
	for _, n := range []int64{0, 1, 1024, 1025, 3000} {
		ops = append(ops, c17Op{"Read", n})
	}
	if thorough {
		ops = append(ops, c17Op{"ReadBytes", 7}, c17Op{"Read", 2049})
		if cur+1025 <= limit {
			ops = append(ops, c17Op{"Discard", 1025})
		}
	}
	return ops
}

// c17Key dumps every field of the parser reflectively.
func c17Key(p *parser.Parser, rd *c17Reader, failed bool) string {
	v := reflect.ValueOf(p).Elem()
	t := v.Type()
	used := -1
	if f := v.FieldByName("used"); f.IsValid() && f.CanInt() {
		used = int(f.Int())
	}
	h := fnv.New64a()
	s := ""
	for i := 0; i < v.NumField(); i++ {
		f := v.Field(i)
		name := t.Field(i).Name
		switch f.Kind() {
		case reflect.Int, reflect.Int64, reflect.Int32:
			if name == "lastRead" {
				continue // write-only bookkeeping field
			}
			s += fmt.Sprintf("%s=%d ", name, f.Int())
		case reflect.Slice:
			if f.Type().Elem().Kind() == reflect.Uint8 {
				b := f.Bytes()
				if name == "buf" && used >= 0 && used <= len(b) {
					b = b[:used]
				}
				h.Write(b)
				s += fmt.Sprintf("%s#%d ", name, len(b))
			}
		case reflect.Bool:
			s += fmt.Sprintf("%s=%v ", name, f.Bool())
		case reflect.Interface, reflect.Ptr:
			// the underlying reader: its state is added below
		default:
			s += fmt.Sprintf("%s=%v ", name, f)
		}
	}
	return fmt.Sprintf("%sroff=%d failed=%v h=%x", s, rd.off, failed, h.Sum64())
}

func c17Body(L int, mode int, thorough bool) func(c *explore.Ctx) {
	data := c17Input(L)
	return func(c *explore.Ctx) {
		rd := &c17Reader{data: append([]byte(nil), data...), mode: mode}
		var hist []string
		// the reader handed to New need not stand at the start of the input (the caller may have looked
		// at some bytes before): offsets are offsets into the input all the same
		var firstOp *c17Op
		if c.More() {
			ops := c17Ops(L, 0, false, thorough)
			k := c.Choose(len(ops)+2, "op")
			if k >= len(ops) {
				rd.off = []int64{1, int64(L)}[k-len(ops)]
				hist = append(hist, fmt.Sprintf("(reader initially at offset %d)", rd.off))
			} else {
				firstOp = &ops[k]
			}
		}
		p := parser.New(rd)
		var model int64 // offset just past the last byte consumed
		failed := false
		c.Sample(func() any {
			return map[string]any{"input_len": L, "reader": c17ReaderModes[mode], "ops": hist}
		})
		c.State(c17Key(p, rd, failed))
		if got := p.Pos(); got != 0 {
			c.Fail("C17.pos", "New", "Pos()=%d after New", got)
		}
		for firstOp != nil || c.More() {
			var op c17Op
			if firstOp != nil {
				op, firstOp = *firstOp, nil
			} else {
				ops := c17Ops(L, model, failed, thorough)
				op = ops[c.Choose(len(ops), "op")]
			}
			hist = append(hist, op.String())
			avail := int64(L) - model // may be negative after seeking past the end
			sig := op.kind
			checkFail := func(need int64, err error, what string) bool {
				// returns true when the read had to fail
				if need > avail && (need > 0) {
					if need == 0 {
						return false
					}
					if err == nil {
						c.Fail("C17.eof", sig, "%s at offset %d of %d-byte input (%s) needs %d bytes but succeeded; history %v", what, model, L, c17ReaderModes[mode], need, hist)
					} else if !errors.Is(err, io.ErrUnexpectedEOF) {
						c.Fail("C17.errkind", sig, "%s at offset %d: error %v, want io.ErrUnexpectedEOF; history %v", what, model, err, hist)
					}
					failed = true
					return true
				}
				if err != nil {
					c.Fail("C17.spurious", sig, "%s at offset %d of %d-byte input (%s) needs %d ≤ %d available bytes but failed with %v; history %v", what, model, L, c17ReaderModes[mode], need, avail, err, hist)
					failed = true
					return true
				}
				return false
			}
			be := func(n int64) uint64 {
				var x uint64
				for i := int64(0); i < n; i++ {
					x = x<<8 | uint64(data[model+i])
				}
				return x
			}
			switch op.kind {
			case "SeekPos":
				if err := p.SeekPos(op.arg); err != nil {
					c.Fail("C17.seek", sig, "SeekPos(%d) failed: %v; history %v", op.arg, err, hist)
				}
				model = op.arg
				failed = false
			case "Discard":
				if err := p.Discard(int(op.arg)); err != nil {
					c.Fail("C17.seek", sig, "Discard(%d) failed: %v; history %v", op.arg, err, hist)
				}
				model += op.arg
			case "Pos":
			case "Size":
				if got := p.Size(); got != int64(L) {
					c.Fail("C17.size", sig, "Size()=%d want %d", got, L)
				}
			case "ReadUint8":
				v, err := p.ReadUint8()
				if !checkFail(1, err, "ReadUint8") {
					if uint64(v) != be(1) {
						c.Fail("C17.value", sig, "ReadUint8 at %d = %#x want %#x; history %v", model, v, be(1), hist)
					}
					model++
				}
			case "ReadUint16":
				v, err := p.ReadUint16()
				if !checkFail(2, err, "ReadUint16") {
					if uint64(v) != be(2) {
						c.Fail("C17.value", sig, "ReadUint16 at %d = %#x want %#x; history %v", model, v, be(2), hist)
					}
					model += 2
				}
			case "ReadInt16":
				v, err := p.ReadInt16()
				if !checkFail(2, err, "ReadInt16") {
					if v != int16(uint16(be(2))) {
						c.Fail("C17.value", sig, "ReadInt16 at %d = %d want %d; history %v", model, v, int16(uint16(be(2))), hist)
					}
					model += 2
				}
			case "ReadUint32":
				v, err := p.ReadUint32()
				if !checkFail(4, err, "ReadUint32") {
					if uint64(v) != be(4) {
						c.Fail("C17.value", sig, "ReadUint32 at %d = %#x want %#x; history %v", model, v, be(4), hist)
					}
					model += 4
				}
			case "ReadUint16Slice":
				need := int64(2)
				if avail >= 2 {
					need = 2 + 2*int64(be(2))
				}
				v, err := p.ReadUint16Slice()
				if !checkFail(need, err, "ReadUint16Slice") {
					n := int64(be(2))
					if int64(len(v)) != n {
						c.Fail("C17.value", sig, "ReadUint16Slice at %d returned %d values want %d; history %v", model, len(v), n, hist)
					} else {
						for i := int64(0); i < n; i++ {
							want := uint16(data[model+2+2*i])<<8 | uint16(data[model+3+2*i])
							if v[i] != want {
								c.Fail("C17.value", sig, "ReadUint16Slice at %d: element %d = %#x want %#x; history %v", model, i, v[i], want, hist)
								break
							}
						}
					}
					model += need
				}
			case "ReadBytes":
				v, err := p.ReadBytes(int(op.arg))
				if op.arg == 0 && avail < 0 {
					// zero-length read beyond the end: not specified
					if err != nil {
						failed = true
					}
					break
				}
				if !checkFail(op.arg, err, fmt.Sprintf("ReadBytes(%d)", op.arg)) {
					if int64(len(v)) != op.arg || !bytes.Equal(v, data[model:model+op.arg]) {
						c.Fail("C17.value", sig, "ReadBytes(%d) at %d returned wrong data (len %d); history %v", op.arg, model, len(v), hist)
					}
					model += op.arg
				}
			case "Read":
				buf := make([]byte, op.arg)
				for i := range buf {
					buf[i] = 0xEE
				}
				n, err := p.Read(buf)
				if op.arg == 0 && avail < 0 {
					if err != nil {
						failed = true
					}
					break
				}
				if op.arg > avail {
					// must fail, with n < len(buf); what was delivered must be input data
					if err == nil {
						c.Fail("C17.eof", sig, "Read(buf[%d]) at offset %d of %d-byte input succeeded (n=%d); history %v", op.arg, model, L, n, hist)
					} else {
						if !errors.Is(err, io.ErrUnexpectedEOF) {
							c.Fail("C17.errkind", sig, "Read(buf[%d]) at %d: error %v, want io.ErrUnexpectedEOF; history %v", op.arg, model, err, hist)
						}
						if int64(n) >= op.arg {
							c.Fail("C17.partial", sig, "Read(buf[%d]) at %d returned n=%d together with error %v; history %v", op.arg, model, n, err, hist)
						} else if avail >= 0 && (int64(n) > avail || !bytes.Equal(buf[:n], data[model:model+int64(n)])) {
							c.Fail("C17.partial", sig, "Read(buf[%d]) at %d returned n=%d bytes that are not the input's (available %d); history %v", op.arg, model, n, avail, hist)
						} else if avail < 0 && n != 0 {
							c.Fail("C17.partial", sig, "Read(buf[%d]) beyond the end returned n=%d; history %v", op.arg, n, hist)
						} else if n > 0 {
							// the bytes the call reports as read are consumed: the position is just past them
							if got := p.Pos(); got != model+int64(n) {
								c.Fail("C17.pos", sig, "Read(buf[%d]) at %d delivered %d bytes together with %v, but Pos()=%d, want %d; history %v", op.arg, model, n, err, got, model+int64(n), hist)
							}
						}
					}
					failed = true
				} else {
					if err != nil || int64(n) != op.arg {
						c.Fail("C17.spurious", sig, "Read(buf[%d]) at offset %d of %d-byte input (%s): n=%d err=%v; history %v", op.arg, model, L, c17ReaderModes[mode], n, err, hist)
						failed = true
					} else if !bytes.Equal(buf, data[model:model+op.arg]) {
						c.Fail("C17.value", sig, "Read(buf[%d]) at %d returned wrong data; history %v", op.arg, model, hist)
					}
					model += op.arg
				}
			}
			if !failed {
				if got := p.Pos(); got != model {
					c.Fail("C17.pos", sig, "after %s: Pos()=%d want %d; history %v", op, got, model, hist)
				}
			}
			if !bytes.Equal(rd.data, data) {
				c.Fail("C17.input-modified", sig, "the parser wrote into its input; history %v", hist)
			}
			c.State(c17Key(p, rd, failed))
		}
	}
}

func init() {
	Register("C17", func(r *run.Run) {
		r.Rule = "explicit-state search on the real parser.Parser against a slice model; state key = reflective dump of all Parser fields + underlying reader offset"
		r.Assume = []string{
			"alphabet: offsets/sizes from the boundary set of the 1024-byte buffer; input contents fixed per length",
			"underlying readers obey the io.Reader contract (no (0,nil) reads, no errors other than io.EOF: those are C18)",
			"position after a failed read is unspecified: successors of a failed read only through SeekPos",
		}
		lens := []int{0, 1, 2, 3, 1023, 1024, 1025, 2047, 2048, 2049, 5000}
		maxStates := 6000
		maxDepth := 0
		if !r.Quick() {
			maxStates = 60000
		}
		r.MinNontrivial = 1000 // a search that collapses to a handful of states is vacuous
		nparts := len(lens) * len(c17ReaderModes)
		i := 0
		for _, L := range lens {
			for mode := range c17ReaderModes {
				// equal share of the remaining budget
				dl := time.Now().Add(time.Until(r.Deadline()) / time.Duration(nparts-i))
				if r.Quick() {
					dl = time.Now().Add(min(time.Until(dl), 1500*time.Millisecond))
				}
				i++
				r.BFS(explore.BFSConfig{Name: fmt.Sprintf("C17.bfs/len=%d/reader=%d", L, mode), MaxStates: maxStates, MaxDepth: maxDepth, Deadline: dl},
					fmt.Sprintf("all operation histories over the boundary alphabet on a %d-byte input, %s", L, c17ReaderModes[mode]),
					c17Body(L, mode, !r.Quick()))
			}
		}
	})
}
