package harness

import (
	"bytes"
	"fmt"
	"math"
	"os"
	"path/filepath"
	"reflect"
	"sort"
	"strconv"
	"strings"

	"github.com/google/go-cmp/cmp"
	"github.com/google/go-cmp/cmp/cmpopts"
	"golang.org/x/image/font/gofont/gobold"
	"golang.org/x/image/font/gofont/gobolditalic"
	"golang.org/x/image/font/gofont/goitalic"
	"golang.org/x/image/font/gofont/gomedium"
	"golang.org/x/image/font/gofont/gomediumitalic"
	"golang.org/x/image/font/gofont/gomono"
	"golang.org/x/image/font/gofont/gomonobold"
	"golang.org/x/image/font/gofont/gomonobolditalic"
	"golang.org/x/image/font/gofont/gomonoitalic"
	"golang.org/x/image/font/gofont/goregular"
	"golang.org/x/image/font/gofont/gosmallcaps"
	"golang.org/x/image/font/gofont/gosmallcapsitalic"
	"golang.org/x/text/language"

	"seehuhn.de/go/geom/matrix"
	"seehuhn.de/go/postscript/cid"
	"seehuhn.de/go/postscript/funit"
	"seehuhn.de/go/sfnt"
	"seehuhn.de/go/sfnt/cff"
	"seehuhn.de/go/sfnt/cmap"
	"seehuhn.de/go/sfnt/glyf"
	"seehuhn.de/go/sfnt/glyph"
	"seehuhn.de/go/sfnt/head"
	"seehuhn.de/go/sfnt/opentype/coverage"
	"seehuhn.de/go/sfnt/opentype/gtab"

	"verif/dump"
	"verif/explore"
	"verif/gen"
	"verif/run"
)

// C01: whole-font write/read round trip is lossless and reaches a byte fixed point.

var cmpOpts = []cmp.Option{
	cmpopts.EquateEmpty(),
	cmp.Exporter(func(reflect.Type) bool { return true }),
	cmp.Comparer(func(a, b cff.FDSelectFn) bool { return true }), // compared pointwise separately
}

// fontDiff compares two fonts field by field.  tol is the tolerance for
// glyph coordinates and matrix entries (0 = exact).
func fontDiff(a, b *sfnt.Font, tol float64) string {
	opts := cmpOpts
	if tol > 0 {
		opts = append(append([]cmp.Option{}, cmpOpts...), cmpopts.EquateApprox(1e-8, tol))
	}
	// fast path: equal canonical dumps (nil and empty slices identified) mean equal fonts; only when the
	// dumps differ does the slower comparison with tolerances and normal-form options decide
	if da, db := strings.ReplaceAll(dump.String(a), "nil[]", "[]"), strings.ReplaceAll(dump.String(b), "nil[]", "[]"); da != db {
		if !cmp.Equal(a, b, opts...) {
			return cmp.Diff(a, b, opts...)
		}
	}
	// matrix entries are small numbers: nine significant digits, whatever the tolerance for coordinates is
	relDiff := func(x, y float64) bool { return math.Abs(x-y) > 1e-8*math.Max(math.Abs(x), math.Abs(y))+1e-15 }
	for i := range a.FontMatrix {
		if relDiff(a.FontMatrix[i], b.FontMatrix[i]) {
			return fmt.Sprintf("FontMatrix: %v vs %v", a.FontMatrix, b.FontMatrix)
		}
	}
	oa, oka := a.Outlines.(*cff.Outlines)
	ob, okb := b.Outlines.(*cff.Outlines)
	if oka && okb && len(oa.FontMatrices) == len(ob.FontMatrices) {
		for k := range oa.FontMatrices {
			for i := range oa.FontMatrices[k] {
				if relDiff(oa.FontMatrices[k][i], ob.FontMatrices[k][i]) {
					return fmt.Sprintf("FontMatrices[%d]: %v vs %v", k, oa.FontMatrices[k], ob.FontMatrices[k])
				}
			}
		}
	}
	if oka && okb {
		for gid := range oa.Glyphs {
			if oa.FDSelect(glyph.ID(gid)) != ob.FDSelect(glyph.ID(gid)) {
				return fmt.Sprintf("FDSelect(%d): %d vs %d", gid, oa.FDSelect(glyph.ID(gid)), ob.FDSelect(glyph.ID(gid)))
			}
		}
	}
	return ""
}

// diffSig names the field in which a cmp diff first occurs (witness signature).
func diffSig(d string) string {
	type ent struct {
		indent int
		name   string
	}
	var stack []ent
	fieldName := func(t string) string {
		i := strings.Index(t, ":")
		if i <= 0 || strings.ContainsAny(t[:i], " \"{(") {
			return ""
		}
		return t[:i]
	}
	d = strings.ReplaceAll(strings.ReplaceAll(d, "\u00a0", " "), "\t", "    ")
	for _, l := range strings.Split(d, "\n") {
		if l == "" {
			continue
		}
		changed := l[0] == '-' || l[0] == '+'
		body := l
		if changed {
			body = " " + l[1:]
		}
		t := strings.TrimLeft(body, " \t")
		indent := len(body) - len(t)
		for len(stack) > 0 && stack[len(stack)-1].indent >= indent {
			stack = stack[:len(stack)-1]
		}
		name := fieldName(t)
		if changed {
			var path []string
			for _, e := range stack {
				path = append(path, e.name)
			}
			if name != "" {
				path = append(path, name)
			}
			if len(path) > 3 {
				path = path[len(path)-3:]
			}
			if len(path) == 0 {
				return "font"
			}
			return strings.Join(path, ".")
		}
		if name != "" {
			stack = append(stack, ent{indent, name})
		}
	}
	return "font"
}

func roundVersion(v head.Version) head.Version {
	s := strconv.FormatFloat(float64(v)/65536, 'f', 3, 64)
	x, _ := strconv.ParseFloat(s, 64)
	return head.Version(x*65536 + 0.5)
}

// refLigatures is the documented synthetic GSUB table for fonts without GSUB:
// the standard f-ligatures the font's best cmap contains.
func refLigatures(best cmap.Subtable) *gtab.Info {
	type lig struct {
		out  rune
		comp []rune
	}
	all := []lig{{0xFB03, []rune("ffi")}, {0xFB04, []rune("ffl")}, {0xFB00, []rune("ff")}, {0xFB01, []rune("fi")}, {0xFB02, []rune("fl")}}
	by := map[glyph.ID][]gtab.Ligature{}
	for _, l := range all {
		out := best.Lookup(l.out)
		ok := out != 0
		var gg []glyph.ID
		for _, r := range l.comp {
			g := best.Lookup(r)
			ok = ok && g != 0
			gg = append(gg, g)
		}
		if ok {
			by[gg[0]] = append(by[gg[0]], gtab.Ligature{In: gg[1:], Out: out})
		}
	}
	if len(by) == 0 {
		return nil
	}
	var keys []glyph.ID
	for k := range by {
		keys = append(keys, k)
	}
	sort.Slice(keys, func(i, j int) bool { return keys[i] < keys[j] })
	cov := coverage.Table{}
	var repl [][]gtab.Ligature
	for i, k := range keys {
		cov[k] = i
		repl = append(repl, by[k])
	}
	return &gtab.Info{
		ScriptList:  map[language.Tag]*gtab.Features{language.MustParse("und-Latn-x-latn"): {Required: 0xFFFF, Optional: []gtab.FeatureIndex{0}}}, // (no required feature: the caller can switch the ligatures off)
		FeatureList: []*gtab.Feature{{Tag: "liga", Lookups: []gtab.LookupIndex{0}}},
		LookupList:  []*gtab.LookupTable{{Meta: &gtab.LookupMetaInfo{LookupType: 4}, Subtables: []gtab.Subtable{&gtab.Gsub4_1{Cov: cov, Repl: repl}}}},
	}
}

// normalForm states what must come back from Read(Write(F)): identity except
// for the representation limits of the file format (DESIGN.md, C01 table).
func normalForm(f *sfnt.Font) *sfnt.Font {
	n := f.Clone()
	n.Version = roundVersion(f.Version)
	n.ItalicAngle = math.Round(f.ItalicAngle*65536) / 65536
	n.UnderlinePosition = funit.Float64(math.Round(float64(f.UnderlinePosition)))
	n.UnderlineThickness = funit.Float64(math.Round(float64(f.UnderlineThickness)))
	sub := f.Subfamily()
	n.IsItalic = f.IsItalic || f.IsOblique || n.ItalicAngle != 0 || strings.Contains(sub, "Italic")
	n.IsBold = f.IsBold
	if strings.Contains(sub, "Bold") && !strings.Contains(sub, "Semi Bold") && !strings.Contains(sub, "Extra Bold") {
		n.IsBold = true
	}
	n.IsRegular = f.IsRegular && !n.IsItalic && !n.IsBold
	n.IsScript = f.IsScript && !f.IsSerif
	if f.IsGlyf() {
		q := 1 / float64(f.UnitsPerEm)
		n.FontMatrix = matrix.Matrix{q, 0, 0, q, 0, 0}
		ol := *f.Outlines.(*glyf.Outlines)
		tt := map[string][]byte{}
		for k, v := range ol.Tables {
			if len(v) > 0 {
				tt[k] = v
			}
		}
		ol.Tables = tt
		n.Outlines = &ol
	}
	if f.Gsub == nil && !f.IsFixedPitch() {
		if best, _ := f.CMapTable.GetBest(); best != nil {
			n.Gsub = refLigatures(best)
		}
	}
	return n
}

func writeFont(f *sfnt.Font) ([]byte, error) {
	buf := &bytes.Buffer{}
	n, err := f.Write(buf)
	if err == nil && int(n) != buf.Len() {
		err = fmt.Errorf("Write reported %d bytes but wrote %d", n, buf.Len())
	}
	return buf.Bytes(), err
}

// fixedPointChecks: for accepted bytes b0 with F1 = Read(b0):
// Read(Write(F1)) == F1 and Write(Read(Write(F1))) == Write(F1).
func fixedPointChecks(c *explore.Ctx, sig string, f1 *sfnt.Font) []byte {
	w1, err := writeFont(f1)
	if err != nil {
		c.Fail("C01.rewrite", sig, "a font returned by Read cannot be written: %v", err)
		return nil
	}
	f2, err := sfnt.Read(bytes.NewReader(w1))
	if err != nil {
		c.Fail("C01.reread", sig, "Read(Write(F1)) fails: %v", err)
		return nil
	}
	if o1, ok := f1.Outlines.(*glyf.Outlines); ok && o1.Widths == nil {
		// a font without hmtx data has no widths; the API reports them as 0 (GlyphWidth), and that is what is written
		o := *o1
		o.Widths = make([]funit.Int16, len(o.Glyphs))
		g := f1.Clone()
		g.Outlines = &o
		f1 = g
	}
	if d := fontDiff(f1, f2, 0); d != "" {
		c.Fail("C01.fixedpoint", sig+"/"+diffSig(d), "Read(Write(F1)) differs from F1 (first-read font):\n%s", trimDiff(d))
		return w1
	}
	w2, err := writeFont(f2)
	if err != nil {
		c.Fail("C01.rewrite", sig, "second write failed: %v", err)
		return w1
	}
	if !bytes.Equal(w1, w2) {
		c.FailObserved("C01.bytes", sig, "Write(F2) differs from Write(F1) although F2 == F1: %s", byteDiff(w1, w2))
	}
	w1b, _ := writeFont(f1)
	if !bytes.Equal(w1, w1b) {
		c.FailObserved("C01.deterministic", sig, "writing the same font twice gives different bytes: %s", byteDiff(w1, w1b))
	}
	return w1
}

func trimDiff(d string) string {
	ls := strings.Split(d, "\n")
	var keep []string
	for _, l := range ls {
		if strings.HasPrefix(l, "-") || strings.HasPrefix(l, "+") {
			keep = append(keep, l)
		}
		if len(keep) >= 12 {
			break
		}
	}
	return strings.Join(keep, "\n")
}

func byteDiff(a, b []byte) string {
	if len(a) != len(b) {
		return fmt.Sprintf("lengths %d vs %d", len(a), len(b))
	}
	for i := range a {
		if a[i] != b[i] {
			tag := "?"
			if cont, _ := refsfntWalk(a); cont != nil {
				for _, r := range cont.Records {
					if uint32(i) >= r.Offset && uint32(i) < r.Offset+r.Length {
						tag = r.Tag
					}
				}
			}
			return fmt.Sprintf("first difference at byte %d (table %q)", i, tag)
		}
	}
	return "equal"
}

func c01Generated(r *run.Run) {
	bound := 1
	if !r.Quick() {
		bound = 2
	}
	r.Explore(explore.Config{Name: "C01.generated", Bound: bound, Deadline: r.PartDeadline(0.7)},
		"generator fonts (structure product, metadata fields deviating from the base font in <= d fields): Read(Write(F)) == normalForm(F); second cycle is a fixed point, bytes identical; non-trivial = font has layout tables or a metadata deviation",
		func(c *explore.Ctx) {
			f, spec := gen.Font(c, gen.FontOpts{Compact: true})
			c.Sample(func() any { return spec })
			if len(spec.Devs) > 0 || spec.Gsub != "" || spec.Gpos != "" {
				c.Nontrivial()
			}
			c01Cycle(c, f, spec.Kind, spec.Devs)
		})
}

// c01Cycle: Read(Write(F)) == normalForm(F), then the fixed-point clauses on the re-read font.
func c01Cycle(c *explore.Ctx, f *sfnt.Font, sig string, devs any) {
	w0, err := writeFont(f)
	if err != nil {
		c.Fail("C01.write", sig, "Write(F) failed: %v", err)
		return
	}
	w0b, _ := writeFont(f)
	if !bytes.Equal(w0, w0b) {
		c.FailObserved("C01.deterministic", sig, "writing the same font twice gives different bytes: %s", byteDiff(w0, w0b))
	}
	f1, err := sfnt.Read(bytes.NewReader(w0))
	if err != nil {
		c.Fail("C01.read", sig, "Read(Write(F)) fails: %v (deviations %v)", err, devs)
		return
	}
	if d := fontDiff(normalForm(f), f1, 1.0/65536); d != "" {
		c.Fail("C01.roundtrip", sig+"/"+diffSig(d), "Read(Write(F)) differs from normalForm(F) (deviations %v):\n%s", devs, trimDiff(d))
	}
	fixedPointChecks(c, sig, f1)
	c.Outcome(w0)
}

// c01Contexts: fonts whose GSUB or GPOS table holds a contextual lookup of every form followed by the lookup
// it runs (class-based rule sets that are absent, present without a rule, or present with a rule).
func c01Contexts(r *run.Run) {
	r.Explore(explore.Config{Name: "C01.contexts", Deadline: r.PartDeadline(0.2)},
		fmt.Sprintf("fonts of each outline kind whose GSUB / GPOS table is [contextual lookup -> simple lookup] for all 6 contextual forms x %d patterns x GSUB / GPOS: same round-trip and fixed-point oracle as C01.generated", len(gen.Patterns)),
		func(c *explore.Ctx) {
			kind := c.Choose(3, "outline kind")
			gpos := c.Bool("gpos")
			form := c.Choose(len(gen.ContextForms), "form")
			pat := gen.Patterns[c.Choose(len(gen.Patterns), "pattern")]
			f, _ := FontFromChoices(gen.FontOpts{NoMeta: true, Compact: true, NoLayout: true}, kind, 2)
			menu, typ := gen.GsubSimple, uint16(5)
			if gpos {
				menu, typ = gen.GposSimple, 7
			}
			if form >= 3 {
				typ++
			}
			info := &gtab.Info{
				ScriptList:  gtab.ScriptListInfo{language.MustParse("und-Zzzz-x-dflt"): {Required: 0xFFFF, Optional: []gtab.FeatureIndex{0}}},
				FeatureList: []*gtab.Feature{{Tag: "test", Lookups: []gtab.LookupIndex{0}}},
				LookupList: gtab.LookupList{
					gen.MakeLookup(typ, gen.Flags[0], []gtab.Subtable{gen.Context(form, pat, []gtab.SeqLookup{{SequenceIndex: 0, LookupListIndex: 1}})}),
					gen.MakeLookup(menu[0].Type, gen.Flags[0], menu[0].Sub()),
				},
			}
			if gpos {
				f.Gpos = info
			} else {
				f.Gsub = info
			}
			desc := fmt.Sprintf("%s, %s %s, gpos %v", gen.KindNames[kind], gen.ContextForms[form], pat.Name, gpos)
			c.Sample(func() any { return desc })
			c.Nontrivial()
			c01Cycle(c, f, gen.KindNames[kind]+" contexts", desc)
		})
}

// c01EdgeValues: values at the edges of what their representation in the file holds: font versions whose
// fraction rounds up to the next integer, matrices of the font dictionaries of a CID-keyed font that equal
// the conventional default of one side or the other.
func c01EdgeValues(r *run.Run) {
	versions := []head.Version{0x00010000, 0x0001FFDF, 0x0001FFE0, 0x0001FFF0, 0x0001FFFF, 0x00020000, 0x0000FFF8, 0x7FFFFFF0}
	fds := []matrix.Matrix{{1, 0, 0, 1, 0, 0}, {0.001, 0, 0, 0.001, 0, 0}, {0.002, 0, 0, 0.002, 0, 0}}
	tops := []matrix.Matrix{{0.001, 0, 0, 0.001, 0, 0}, {1, 0, 0, 1, 0, 0}}
	r.Explore(explore.Config{Name: "C01.edge-values"},
		"fonts of each outline kind with the version 1.0, 1.99948.. 1.99998 (fractions that round up to 2.000 when written with three decimals), 2.0, 0.9999 or 32767.9998, CID-keyed fonts with the matrices [1 0 0 1 0 0], [0.001 0 0 0.001 0 0] or [0.002 0 0 0.002 0 0] in every font dictionary under a top-level matrix of 0.001 or 1: same round-trip and fixed-point oracle as C01.generated (the version to three decimals)",
		func(c *explore.Ctx) {
			kind := c.Choose(3, "outline kind")
			f, _ := FontFromChoices(gen.FontOpts{NoMeta: true, Compact: true, NoLayout: true}, kind, 2)
			f.Version = versions[c.Choose(len(versions), "version")]
			desc := fmt.Sprintf("%s, version %#x", gen.KindNames[kind], uint32(f.Version))
			if o, ok := f.Outlines.(*cff.Outlines); ok && o.IsCIDKeyed() {
				o2 := *o
				fd := fds[c.Choose(len(fds), "matrix of the font dictionaries")]
				o2.FontMatrices = make([]matrix.Matrix, len(o.FontMatrices))
				for i := range o2.FontMatrices {
					o2.FontMatrices[i] = fd
				}
				f.Outlines = &o2
				f.FontMatrix = tops[c.Choose(len(tops), "top-level matrix")]
				desc += fmt.Sprintf(", font dictionaries %v, top level %v", fd, f.FontMatrix)
			}
			c.Sample(func() any { return desc })
			c.Nontrivial()
			c01Cycle(c, f, gen.KindNames[kind]+" edge values", desc)
		})
}

// c01Sizes sweeps the sizes that decide offset widths and table formats inside a whole font: string
// lengths (CFF String and Name INDEX offset sizes, name table storage) and the number of glyphs
// (CharStrings INDEX, charset and FDSelect formats, loca, hmtx), one step at a time.
func c01Sizes(r *run.Run) {
	sweeps := []struct {
		name string
		n    int
	}{{"copyright length", 601}, {"trademark length with a 200-character copyright", 200}, {"family name length", 120}, {"extra glyphs", 300}, {"stem hint pairs on a glyph with its own width (CFF)", 100}, {"contours (0..2) and instruction bytes (0..6) of a simple glyph (glyf)", 21}, {"glyphs, all of them blank", 7}, {"segments of a CFF contour whose steps are thirds and tenths (CFF)", 161}, {"bytes of glyph data around 64 KiB and 128 KiB, in steps of two (glyf)", 16}}
	if !r.Quick() {
		sweeps[0].n, sweeps[3].n = 2001, 1200
	}
	r.Explore(explore.Config{Name: "C01.sizes", Deadline: r.PartDeadline(0.3)},
		fmt.Sprintf("size sweeps on a 6-glyph base font of each outline kind, every value in the range: copyright length 0..%d, trademark length 0..%d next to a 200-character copyright, family name length 1..%d, 0..%d extra glyphs with generated names/CIDs, 0..99 stem hint pairs (two thirds horizontal) on a glyph with its own width, a simple TrueType glyph with 0..2 contours x 0..6 instruction bytes, fonts of 1..6 glyphs that are all blank, a CFF contour of 1..160 lines or curves whose coordinates are thirds and tenths (one rounding per coordinate, not adding up), TrueType glyph data of 0xFFFA..0x10006 and 0x1FFF8..0x20008 bytes; same round-trip and fixed-point oracle as C01.generated", sweeps[0].n-1, sweeps[1].n-1, sweeps[2].n, sweeps[3].n-1),
		func(c *explore.Ctx) {
			kind := c.Choose(3, "outline kind")
			sw := c.Choose(len(sweeps), "sweep")
			v := c.Choose(sweeps[sw].n, sweeps[sw].name)
			f, _ := FontFromChoices(gen.FontOpts{NoMeta: true, Compact: true}, kind, 2)
			fill := func(n int) string {
				b := make([]byte, n)
				for i := range b {
					b[i] = "Abc dEf, "[i%9]
				}
				return string(b)
			}
			switch sw {
			case 0:
				f.Copyright = fill(v)
			case 1:
				f.Copyright = fill(200)
				f.Trademark = fill(v)
			case 2:
				f.FamilyName = strings.TrimSpace(fill(v+1)) + "x"
			case 3:
				switch ol := f.Outlines.(type) {
				case *glyf.Outlines:
					o := *ol
					for i := 0; i < v; i++ {
						o.Glyphs = append(o.Glyphs, ol.Glyphs[1+i%5])
						o.Widths = append(o.Widths, funit.Int16(300+i))
						if o.Names != nil {
							o.Names = append(o.Names, fmt.Sprintf("extra%04d", i))
						}
					}
					f.Outlines = &o
				case *cff.Outlines:
					o := *ol
					for i := 0; i < v; i++ {
						g := *ol.Glyphs[1+i%5]
						if !ol.IsCIDKeyed() {
							g.Name = fmt.Sprintf("extra%04d", i)
						}
						g.Width = float64(300 + i)
						o.Glyphs = append(o.Glyphs, &g)
						if ol.IsCIDKeyed() {
							o.GIDToCID = append(o.GIDToCID, o.GIDToCID[len(o.GIDToCID)-1]+1+cid.CID(i%3/2))
						}
					}
					if !ol.IsCIDKeyed() {
						o.Encoding = cff.StandardEncoding(o.Glyphs)
					}
					f.Outlines = &o
				}
			}
			if sw == 4 {
				ol, ok := f.Outlines.(*cff.Outlines)
				if !ok {
					c.Skip("stem hints are a CFF feature")
				}
				o := *ol
				o.Glyphs = append([]*cff.Glyph{}, ol.Glyphs...)
				g := *ol.Glyphs[2]
				g.Width = 777 // not the most frequent width: the charstring carries a width operand
				for i := 0; i < v; i++ {
					if i%3 == 2 {
						g.VStem = append(g.VStem, float64(10*i), float64(10*i+3))
					} else {
						g.HStem = append(g.HStem, float64(-200+7*i), float64(-200+7*i)+2.5)
					}
				}
				o.Glyphs[2] = &g
				f.Outlines = &o
			}
			if sw == 5 {
				ol, ok := f.Outlines.(*glyf.Outlines)
				if !ok {
					c.Skip("instructions are a TrueType feature")
				}
				o := *ol
				o.Glyphs = append(glyf.Glyphs{}, ol.Glyphs...)
				contours := [][]gen.Pt{{{0, 0, true}, {300, 0, true}, {150, 400, true}}, {{10, 10, true}, {20, 10, true}, {15, 30, false}}}[:v%3]
				o.Glyphs[len(o.Glyphs)-1] = gen.SimpleGlyf(contours, []byte{0xB0, 0x01, 0xB0, 0x02, 0x21, 0x21}[:v/3])
				f.Outlines = &o
			}
			if sw == 8 {
				// the glyph data ends exactly at, just below or just above what the short loca format can
				// address (0x1FFFE bytes) and where the library changes to the long format (64 KiB)
				ol, ok := f.Outlines.(*glyf.Outlines)
				if !ok {
					c.Skip("glyf outlines only")
				}
				target := []int{0xFFFA, 0xFFFC, 0xFFFE, 0x10000, 0x10002, 0x10004, 0x10006, 0x1FFF8, 0x1FFFA, 0x1FFFC, 0x1FFFE, 0x20000, 0x20002, 0x20004, 0x20006, 0x20008}[v]
				o := *ol
				o.Glyphs = append(glyf.Glyphs{}, ol.Glyphs...)
				base := len(o.Glyphs.Encode().GlyfData)
				big := func(fill int) *glyf.Glyph {
					body := append([]byte{0, 0, byte(fill >> 8), byte(fill)}, make([]byte, fill)...)
					return &glyf.Glyph{Rect16: funit.Rect16{URx: 10, URy: 10}, Data: glyf.SimpleGlyph{NumContours: 1, Encoded: append(body, 0x31)}}
				}
				// two filler glyphs of 16 + fill bytes each (fill odd: even sizes)
				need := target - base - 32
				fa := need/4*2 + 1
				fb := need - fa + 2
				o.Glyphs = append(o.Glyphs, big(fa-1), big(fb-1))
				o.Widths = append(append([]funit.Int16{}, ol.Widths...), 444, 445)
				if o.Names != nil {
					o.Names = append(append([]string{}, ol.Names...), "filler.a", "filler.b")
				}
				f.Outlines = &o
				if got := len(o.Glyphs.Encode().GlyfData); got != target {
					c.Tag(fmt.Sprintf("glyph data has %#x bytes instead of %#x", got, target))
				}
			}
			if sw == 7 {
				// a long contour whose coordinates are no 16.16 numbers: every coordinate is rounded once,
				// the rounding does not add up along the contour; lines for even, curves for odd counts
				ol, ok := f.Outlines.(*cff.Outlines)
				if !ok || v == 0 {
					c.Skip("CFF outlines only")
				}
				o := *ol
				o.Glyphs = append([]*cff.Glyph{}, ol.Glyphs...)
				g := cff.NewGlyph(ol.Glyphs[2].Name, ol.Glyphs[2].Width)
				x, y := 1.0/3, 0.1
				g.MoveTo(x, y)
				for i := 0; i < v; i++ {
					if v%2 == 0 {
						x, y = x+1.0/3, y+0.7
						g.LineTo(x, y)
					} else {
						g.CurveTo(x+0.1, y+1.0/3, x+2.0/3, y+0.9, x+1, y+0.1)
						x, y = x+1, y+0.1
					}
				}
				o.Glyphs[2] = g
				f.Outlines = &o
			}
			if sw == 6 {
				// a font without any outline (the glyf table of such a font is empty)
				if v == 0 {
					c.Skip("no glyph")
				}
				switch ol := f.Outlines.(type) {
				case *glyf.Outlines:
					o := *ol
					o.Glyphs = make(glyf.Glyphs, v)
					o.Widths = append([]funit.Int16{}, ol.Widths[:v]...)
					if o.Names != nil {
						o.Names = append([]string{}, ol.Names[:v]...)
					}
					f.Outlines = &o
				case *cff.Outlines:
					o := *ol
					o.Glyphs = nil
					for i := 0; i < v; i++ {
						o.Glyphs = append(o.Glyphs, cff.NewGlyph(ol.Glyphs[i].Name, ol.Glyphs[i].Width))
					}
					if ol.IsCIDKeyed() {
						o.GIDToCID = append([]cid.CID{}, ol.GIDToCID[:v]...)
					} else {
						o.Encoding = cff.StandardEncoding(o.Glyphs)
					}
					f.Outlines = &o
				}
				f.CMapTable, f.Gsub, f.Gpos, f.Gdef = nil, nil, nil, nil
			}
			desc := fmt.Sprintf("%s, %s = %d", gen.KindNames[kind], sweeps[sw].name, v)
			c.Sample(func() any { return desc })
			c.Nontrivial()
			c01Cycle(c, f, gen.KindNames[kind]+" "+sweeps[sw].name, desc)
		})
}

type namedFile struct {
	name string
	data []byte
}

func c01Corpus() []namedFile {
	files := []namedFile{
		{"goregular", goregular.TTF}, {"gobold", gobold.TTF}, {"goitalic", goitalic.TTF}, {"gobolditalic", gobolditalic.TTF},
		{"gomedium", gomedium.TTF}, {"gomediumitalic", gomediumitalic.TTF}, {"gomono", gomono.TTF}, {"gomonobold", gomonobold.TTF},
		{"gomonoitalic", gomonoitalic.TTF}, {"gomonobolditalic", gomonobolditalic.TTF}, {"gosmallcaps", gosmallcaps.TTF}, {"gosmallcapsitalic", gosmallcapsitalic.TTF},
	}
	// x/image's own test fonts, if the module cache has them
	dir := filepath.Join(os.Getenv("HOME"), "go/pkg/mod/golang.org/x/image@v0.18.0/font/testdata")
	for _, n := range []string{"CFFTest.otf", "glyfTest.ttf", "cmapTest.ttf"} {
		if b, err := os.ReadFile(filepath.Join(dir, n)); err == nil {
			files = append(files, namedFile{n, b})
		}
	}
	// fuzz seeds of the repository's font-level fuzz target
	// files other producers write that the library's own writer does not: a legacy kern table and no GPOS
	// (the reader turns it into a GPOS table), for a glyf and a CFF font
	for _, kind := range []int{gen.KindGlyf, gen.KindCFF} {
		f, _ := FontFromChoices(gen.FontOpts{NoMeta: true, NoLayout: true}, kind, 2, 0, 0, 1)
		if b, err := writeFont(f); err == nil {
			files = append(files, namedFile{"generated " + gen.KindNames[kind] + " font + kern table", addTable(b, "kern", kernTable([]kernSub{{coverage: 1, pairs: map[[2]uint16]int16{{1, 2}: -50, {2, 1}: 30}}}))})
		}
	}
	return files
}

// dropTables rebuilds a container without the given tables (independent
// assembler: tables in tag order, checksums not needed by the reader).
func rebuildWithout(file []byte, drop map[string]bool) []byte {
	cont, _ := refsfntWalk(file)
	if cont == nil {
		return nil
	}
	type tb struct {
		tag  string
		data []byte
	}
	var tabs []tb
	for _, rec := range cont.Records {
		if drop[rec.Tag] {
			continue
		}
		d, _ := cont.Table(file, rec.Tag)
		tabs = append(tabs, tb{rec.Tag, d})
	}
	n := len(tabs)
	out := make([]byte, 12+16*n)
	out[0], out[1], out[2], out[3] = file[0], file[1], file[2], file[3]
	out[4], out[5] = byte(n>>8), byte(n)
	off := len(out)
	for i, t := range tabs {
		r := out[12+16*i:]
		copy(r, t.tag)
		r[8], r[9], r[10], r[11] = byte(off>>24), byte(off>>16), byte(off>>8), byte(off)
		l := len(t.data)
		r[12], r[13], r[14], r[15] = byte(l>>24), byte(l>>16), byte(l>>8), byte(l)
		off += (l + 3) &^ 3
	}
	for _, t := range tabs {
		out = append(out, t.data...)
		for len(out)%4 != 0 {
			out = append(out, 0)
		}
	}
	return out
}

func c01Accepted(r *run.Run) {
	corpus := c01Corpus()
	// base files for the optional-table family: a glyf and a CFF font with every table present
	g, _ := FontFromChoices(gen.FontOpts{NoMeta: true, Compact: true}, 0, 2, 1, 1, 1, 2)
	gfile, _ := writeFont(g)
	cf, _ := FontFromChoices(gen.FontOpts{NoMeta: true, Compact: true}, 1, 2, 1, 1, 1, 2)
	cfile, _ := writeFont(cf)
	bases := []namedFile{{"gen-glyf", gfile}, {"gen-cff", cfile}}
	optional := []string{"OS/2", "name", "post", "cmap", "hhea", "hmtx", "head", "maxp", "GDEF", "GSUB", "GPOS"}
	r.Explore(explore.Config{Name: "C01.accepted", Deadline: r.PartDeadline(0.9)},
		"accepted byte strings: gofont TTFs, x/image test fonts, and every subset of the optional tables removed from a generated glyf and CFF file (reader precedence rules); for those Read accepts: Read(Write(Read(b))) == Read(b), bytes fixed from generation 1; non-trivial = Read accepted b",
		func(c *explore.Ctx) {
			var b []byte
			var name string
			if k := c.Choose(len(corpus)+len(bases), "file"); k < len(corpus) {
				b, name = corpus[k].data, corpus[k].name
			} else {
				base := bases[k-len(corpus)]
				drop := map[string]bool{}
				var dropped []string
				for _, t := range optional {
					if c.Bool("drop " + t) {
						drop[t] = true
						dropped = append(dropped, t)
					}
				}
				b = rebuildWithout(base.data, drop)
				name = base.name + " without " + strings.Join(dropped, ",")
			}
			c.Sample(func() any { return map[string]any{"file": name, "bytes": len(b)} })
			f1, err := sfnt.Read(bytes.NewReader(b))
			if err != nil {
				c.Outcome("rejected", errClass(err))
				return
			}
			c.Nontrivial()
			if f1.CreationTime.IsZero() && f1.ModificationTime.IsZero() {
				c.Tag("skip-bytes: no timestamp (name table would embed today's date)")
				c.Outcome("accepted-no-time")
				return
			}
			w1 := fixedPointChecks(c, strings.SplitN(name, " ", 2)[0], f1)
			c.Outcome(w1)
		})
}

func init() {
	Register("C01", func(r *run.Run) {
		r.Rule = "bounded exhaustive enumeration of font values (structure product x metadata deviations) and of accepted files; normal form written out independently of read.go/write.go"
		r.Assume = []string{
			"domain: at least one timestamp set; flag/weight combinations are compared through the documented naming rules (Subfamily); integer advance widths (fractions: C04/C13)",
			"glyph coordinates of generated CFF fonts are 16.16-representable",
		}
		c01Sizes(r)
		c01EdgeValues(r)
		c01Contexts(r)
		// the GSUB/GPOS table of a font: lookup lists at the points where extension records set in (shared with C08)
		c08ExtensionWindowPart(r, "C01.lookup-list-extension", 1, 4, 4)
		c01Generated(r)
		c01Accepted(r)
		c01MapOrder(r)
	})
}
