package harness

import (
	"bytes"
	"fmt"
	"sort"

	"golang.org/x/text/language"

	"seehuhn.de/go/postscript/funit"
	"seehuhn.de/go/sfnt"
	"seehuhn.de/go/sfnt/cmap"
	"seehuhn.de/go/sfnt/glyf"
	"seehuhn.de/go/sfnt/glyph"
	"seehuhn.de/go/sfnt/maxp"
	"seehuhn.de/go/sfnt/opentype/classdef"
	"seehuhn.de/go/sfnt/opentype/gdef"
	"seehuhn.de/go/sfnt/opentype/gtab"

	"verif/explore"
	"verif/gen"
	"verif/refcmap"
	"verif/refsfnt"
	"verif/refshape"
	"verif/run"
)

// C15: end-to-end layout: cmap, feature selection, widths and kerning compose right.

// script / language systems of the FindLookups enumerations: two non-default language systems under one
// script (with and without that script's default system) make the fallback choice visible
var c15Tags = []string{"und-Zzzz-x-dflt", "und-Latn-x-latn", "tr-Latn-x-latn-trk", "de-Latn-x-latn-deu", "und-Cyrl-x-cyrl"}

func c15FindLookups(r *run.Run) {
	tags := c15Tags
	langs := []language.Tag{language.Und, language.English, language.German, language.Turkish, language.Japanese, language.Russian}
	features := []*gtab.Feature{{Tag: "liga", Lookups: []gtab.LookupIndex{2, 0}}, {Tag: "kern", Lookups: []gtab.LookupIndex{1}}, {Tag: "locl", Lookups: []gtab.LookupIndex{3, 3, 1}}, {Tag: "smcp", Lookups: []gtab.LookupIndex{4, 9}}}
	switches := []map[string]bool{nil, {}, {"liga": true}, {"liga": false, "kern": true}, {"liga": true, "kern": true, "locl": true, "smcp": true}, {"zzzz": true}}
	r.Explore(explore.Config{Name: "C15.findlookups"},
		"FindLookups: all script lists over the subsets of {DFLT, latn, latn/TRK, latn/DEU, cyrl} x required feature in {none, 0, 2, out of range} x optional lists x 6 feature-switch maps x 6 language tags: ascending, duplicate-free, in range, equal to required + enabled optional lookups of ONE language system of the list, Turkish picks latn/TRK when present, and 4 repeated calls agree (every map iteration order: C15.map-order-findlookups)",
		func(c *explore.Ctx) {
			info := &gtab.Info{ScriptList: gtab.ScriptListInfo{}, FeatureList: features}
			for i := 0; i < 5; i++ {
				info.LookupList = append(info.LookupList, gen.MakeLookup(1, gen.Flags[0], gen.GsubSimple[0].Sub()))
			}
			var used []string
			for i, t := range tags {
				if !c.Bool("system " + t) {
					continue
				}
				fe := &gtab.Features{Required: []gtab.FeatureIndex{0xFFFF, 0, 2, 77}[c.Choose(4, "required")]}
				for k := 0; k < 4; k++ {
					if (i+k)%2 == 0 {
						fe.Optional = append(fe.Optional, gtab.FeatureIndex(k))
					}
				}
				if i == 2 {
					fe.Optional = append(fe.Optional, 1, 55) // duplicates and an out-of-range index
				}
				info.ScriptList[language.MustParse(t)] = fe
				used = append(used, t)
			}
			sw := switches[c.Choose(len(switches), "switches")]
			lang := langs[c.Choose(len(langs), "language")]
			c.Sample(func() any { return map[string]any{"systems": used, "switches": sw, "lang": lang.String()} })
			if len(used) == 0 {
				if got := info.FindLookups(lang, sw); len(got) != 0 {
					c.Fail("C15.findlookups", "empty script list", "FindLookups on an empty script list returns %v", got)
				}
				c.Outcome("empty")
				return
			}
			if len(used) >= 2 {
				c.Nontrivial()
			}
			expect := func(fe *gtab.Features) []gtab.LookupIndex {
				set := map[gtab.LookupIndex]bool{}
				add := func(fi gtab.FeatureIndex, always bool) {
					if int(fi) >= len(features) {
						return
					}
					if !always && !sw[features[fi].Tag] {
						return
					}
					for _, l := range features[fi].Lookups {
						if int(l) < len(info.LookupList) {
							set[l] = true
						}
					}
				}
				add(fe.Required, true)
				for _, fi := range fe.Optional {
					add(fi, false)
				}
				var out []gtab.LookupIndex
				for l := range set {
					out = append(out, l)
				}
				sort.Slice(out, func(i, j int) bool { return out[i] < out[j] })
				return out
			}
			got := info.FindLookups(lang, sw)
			c.Outcome(fmt.Sprint(used, sw, lang, got))
			for i := range got {
				if int(got[i]) >= len(info.LookupList) {
					c.Fail("C15.findlookups", "range", "lookup index %d out of range in %v", got[i], got)
				}
				if i > 0 && got[i] <= got[i-1] {
					c.Fail("C15.findlookups", "order", "result %v is not strictly ascending", got)
				}
			}
			matches := ""
			for _, t := range used {
				if fmt.Sprint(expect(info.ScriptList[language.MustParse(t)])) == fmt.Sprint(got) {
					matches = t
				}
			}
			if matches == "" {
				c.Fail("C15.findlookups", "selection", "result %v is not required + enabled optional lookups of any language system (systems %v, switches %v, language %v)", got, used, sw, lang)
			}
			if lang == language.Turkish {
				if fe, ok := info.ScriptList[language.MustParse("tr-Latn-x-latn-trk")]; ok && fmt.Sprint(expect(fe)) != fmt.Sprint(got) {
					c.Fail("C15.findlookups", "language match", "Turkish with a latn/TRK system present: got %v, the TRK system gives %v", got, expect(fe))
				}
			}
			for k := 0; k < 4; k++ {
				if again := info.FindLookups(lang, sw); fmt.Sprint(again) != fmt.Sprint(got) {
					c.FailObserved("C15.findlookups", "same on every call", "FindLookups(%v, %v) returned %v and then %v (systems %v)", lang, sw, got, again, used)
					break
				}
			}
		})
}

// reference pipeline
func refLayout(f *sfnt.Font, s string, lang language.Tag, gsubF, gposF map[string]bool) []glyph.Info {
	best, _ := f.CMapTable.GetBest()
	var seq []glyph.Info
	for _, r := range s {
		var g glyph.ID
		if best != nil {
			g = best.Lookup(r)
		}
		seq = append(seq, glyph.Info{GID: g, Text: []rune{r}})
	}
	if f.Gsub != nil {
		if gsubF == nil {
			gsubF = gtab.GsubDefaultFeatures
		}
		sh := &refshape.Shaper{LL: f.Gsub.LookupList, Gdef: f.Gdef}
		seq = sh.Apply(f.Gsub.FindLookups(lang, gsubF), seq)
	}
	for i := range seq {
		if !f.Gdef.IsMark(seq[i].GID) {
			seq[i].Advance = funit.Int16(f.GlyphWidth(seq[i].GID))
		}
	}
	if f.Gpos != nil {
		if gposF == nil {
			gposF = gtab.GposDefaultFeatures
		}
		sh := &refshape.Shaper{LL: f.Gpos.LookupList, Gdef: f.Gdef}
		seq = sh.Apply(f.Gpos.FindLookups(lang, gposF), seq)
	}
	return seq
}

func allStrings(alphabet []rune, maxLen int, f func(string) bool) {
	var rec func(prefix []rune) bool
	rec = func(prefix []rune) bool {
		if !f(string(prefix)) {
			return false
		}
		if len(prefix) == maxLen {
			return true
		}
		for _, r := range alphabet {
			if !rec(append(prefix, r)) {
				return false
			}
		}
		return true
	}
	rec(nil)
}

// c15FlagPairs: two lookups selected by one feature, all pairs of lookup flags (incl. equal flag words
// with different mark filtering sets): each lookup is applied under its own flags, on a Layouter that is
// reused for all strings.
func c15FlagPairs(r *run.Run) {
	alphabet := []rune{'A', 'B', 'M', 'N', 'L'}
	lookups := []int{5, 7} // GSUB4 AAA->X AA->Y AB->L; GSUB4 AM->X A->Y
	r.Explore(explore.Config{Name: "C15.flag-pairs"},
		fmt.Sprintf("Layouter.Layout on a font with GDEF classes, attachment classes and two mark sets and two ligature lookups under the liga feature: ALL pairs of lookup flags from the %d-entry flag menu x 2 x 2 lookups, on all strings of length <= 4 (quick) / 5 over {A,B,M,N,L} laid out with one reused Layouter: equals the reference pipeline", len(gen.Flags)),
		func(c *explore.Ctx) {
			f1 := gen.Flags[c.Choose(len(gen.Flags), "flags of the first lookup")]
			f2 := gen.Flags[c.Choose(len(gen.Flags), "flags of the second lookup")]
			l1 := gen.GsubSimple[lookups[c.Choose(len(lookups), "first lookup")]]
			l2 := gen.GsubSimple[lookups[c.Choose(len(lookups), "second lookup")]]
			f := c19Font(true)
			f.Gdef, _ = gen.Gdef(0)
			f.Gsub = gsubInfo("liga", gen.MakeLookup(l1.Type, f1, l1.Sub()), gen.MakeLookup(l2.Type, f2, l2.Sub()))
			desc := fmt.Sprintf("%s %s; %s %s", l1.Name, f1.Name, l2.Name, f2.Name)
			c.Sample(func() any { return desc })
			c.Nontrivial()
			c.Outcome(desc)
			lay, err := f.NewLayouter(language.Und, nil, nil)
			if err != nil {
				c.Fail("C15.layouter", "NewLayouter", "NewLayouter fails: %v", err)
				return
			}
			maxLen := 4
			if !r.Quick() {
				maxLen = 5
			}
			allStrings(alphabet, maxLen, func(s string) bool {
				got := append([]glyph.Info{}, lay.Layout(s)...)
				want := refLayout(f, s, language.Und, nil, nil)
				if !infosEqual(got, want) {
					c.Fail("C15.layout", "flag pairs", "Layout(%q): [%s], reference pipeline: [%s]; lookups %s", s, fmtInfos(got), fmtInfos(want), desc)
					return false
				}
				return true
			})
		})
}

// c15FindLookupsBytes: language systems as they come out of a file: the list of optional features may
// contain the index 0xFFFF (which the reader skips); only the features that are listed are selected.
func c15FindLookupsBytes(r *run.Run) {
	idx := []int{0, 1, 0xFFFF}
	r.Explore(explore.Config{Name: "C15.findlookups-bytes"},
		"GSUB tables assembled byte by byte: one default language system with required feature in {none, 0, 1} and every list of <= 3 optional feature indices over {0, 1, 0xFFFF} (0xFFFF is skipped by the reader), two features with one lookup each: gtab.Read + FindLookups with both features enabled selects exactly the lookups of the required and the listed features",
		func(c *explore.Ctx) {
			req := []int{0xFFFF, 0, 1}[c.Choose(3, "required feature")]
			n := c.Choose(4, "optional features")
			var opt []int
			for i := 0; i < n; i++ {
				opt = append(opt, idx[c.Choose(len(idx), "feature index")])
			}
			// header; script list at 10
			langSys := be16(0, req, len(opt))
			langSys = append(langSys, be16(opt...)...)
			scriptTable := append(be16(4, 0), langSys...) // default LangSys at offset 4, no further languages
			scriptList := append(append(be16(1), []byte("DFLT")...), be16(8)...)
			scriptList = append(scriptList, scriptTable...)
			feature := func(lookup int) []byte { return be16(0, 1, lookup) }
			featureList := append(be16(2), []byte("aaaa")...)
			featureList = append(featureList, be16(14)...)
			featureList = append(featureList, []byte("bbbb")...)
			featureList = append(featureList, be16(20)...)
			featureList = append(featureList, feature(0)...)
			featureList = append(featureList, feature(1)...)
			single := func(gid, delta int) []byte { // lookup type 1, one subtable of format 1 with a one-glyph coverage
				return append(be16(1, 0, 1, 8), be16(1, 6, delta, 1, 1, gid)...)
			}
			l0, l1 := single(1, 1), single(2, 1)
			lookupList := append(be16(2, 6, 6+len(l0)), append(l0, l1...)...)
			hdr := be16(1, 0, 10, 10+len(scriptList), 10+len(scriptList)+len(featureList))
			data := append(append(append(hdr, scriptList...), featureList...), lookupList...)
			desc := fmt.Sprintf("required %#x, optional %v", req, opt)
			c.Sample(func() any { return desc })
			c.Outcome(desc)
			info, err := gtab.Read(bytes.NewReader(data), gtab.TypeGsub)
			if err != nil {
				c.Fail("C15.findlookups", "bytes / read", "gtab.Read rejects the assembled table: %v (%s)", err, desc)
				return
			}
			c.Nontrivial()
			want := map[gtab.LookupIndex]bool{}
			if req != 0xFFFF {
				want[gtab.LookupIndex(req)] = true
			}
			for _, k := range opt {
				if k != 0xFFFF {
					want[gtab.LookupIndex(k)] = true
				}
			}
			var wl []gtab.LookupIndex
			for k := range want {
				wl = append(wl, k)
			}
			sort.Slice(wl, func(i, j int) bool { return wl[i] < wl[j] })
			got := info.FindLookups(language.Und, map[string]bool{"aaaa": true, "bbbb": true})
			if fmt.Sprint(got) != fmt.Sprint(wl) {
				c.Fail("C15.findlookups", "bytes / selection", "FindLookups selects %v, the language system lists the features of lookups %v (%s)", got, wl, desc)
			}
		})
}

// c15SharedLangSys: several language system records of a script table may point at one LangSys table
// (font compilers merge identical ones); every record keeps its language system.
func c15SharedLangSys(r *run.Run) {
	r.Explore(explore.Config{Name: "C15.shared-langsys"},
		"GSUB tables assembled byte by byte: a latn script table with a default language system and records for DEU and TRK, each of the three pointing at one of two LangSys tables (all 8 assignments: shared offsets in every combination), the two tables stored in either order: gtab.Read keeps all three language systems, and FindLookups for de / tr selects the lookups of the table the record points at",
		func(c *explore.Ctx) {
			var pick [3]int
			for i, n := range []string{"default", "DEU", "TRK"} {
				pick[i] = c.Choose(2, "LangSys of "+n)
			}
			swap := c.Bool("second LangSys table stored first")
			langSys := func(feature int) []byte { return be16(0, 0xFFFF, 1, feature) }
			tabs := [][]byte{langSys(0), langSys(1)}
			hdrLen := 4 + 2*6
			offs := [2]int{hdrLen, hdrLen + len(tabs[0])}
			body := append(append([]byte{}, tabs[0]...), tabs[1]...)
			if swap {
				offs = [2]int{hdrLen + len(tabs[1]), hdrLen}
				body = append(append([]byte{}, tabs[1]...), tabs[0]...)
			}
			scriptTable := be16(offs[pick[0]], 2)
			scriptTable = append(scriptTable, []byte("DEU ")...)
			scriptTable = append(scriptTable, be16(offs[pick[1]])...)
			scriptTable = append(scriptTable, []byte("TRK ")...)
			scriptTable = append(scriptTable, be16(offs[pick[2]])...)
			scriptTable = append(scriptTable, body...)
			scriptList := append(append(be16(1), []byte("latn")...), be16(8)...)
			scriptList = append(scriptList, scriptTable...)
			feature := func(lookup int) []byte { return be16(0, 1, lookup) }
			featureList := append(be16(2), []byte("aaaa")...)
			featureList = append(featureList, be16(14)...)
			featureList = append(featureList, []byte("bbbb")...)
			featureList = append(featureList, be16(20)...)
			featureList = append(featureList, feature(0)...)
			featureList = append(featureList, feature(1)...)
			single := func(gid, delta int) []byte {
				return append(be16(1, 0, 1, 8), be16(1, 6, delta, 1, 1, gid)...)
			}
			l0, l1 := single(1, 1), single(2, 1)
			lookupList := append(be16(2, 6, 6+len(l0)), append(l0, l1...)...)
			hdr := be16(1, 0, 10, 10+len(scriptList), 10+len(scriptList)+len(featureList))
			data := append(append(append(hdr, scriptList...), featureList...), lookupList...)
			desc := fmt.Sprintf("default/DEU/TRK -> LangSys %v, swapped %v", pick, swap)
			c.Sample(func() any { return desc })
			c.Outcome(desc)
			info, err := gtab.Read(bytes.NewReader(data), gtab.TypeGsub)
			if err != nil {
				c.Fail("C15.findlookups", "shared LangSys / read", "gtab.Read rejects the assembled table: %v (%s)", err, desc)
				return
			}
			c.Nontrivial()
			if len(info.ScriptList) != 3 {
				c.Fail("C15.findlookups", "shared LangSys / records", "the script list has %d language systems, the table 3 (%s)", len(info.ScriptList), desc)
				return
			}
			on := map[string]bool{"aaaa": true, "bbbb": true}
			// (which language system an undetermined language selects is the matcher's business: only the
			// languages that have a record of their own are pinned)
			for i, tag := range []language.Tag{language.Und, language.German, language.Turkish} {
				if i == 0 {
					continue
				}
				got := info.FindLookups(tag, on)
				want := []gtab.LookupIndex{gtab.LookupIndex(pick[i])}
				if fmt.Sprint(got) != fmt.Sprint(want) {
					c.Fail("C15.findlookups", "shared LangSys / selection", "FindLookups(%v) selects %v, its language system lists the feature of lookup %v (%s)", tag, got, want, desc)
					return
				}
			}
		})
}

func c15Layout(r *run.Run) {
	alphabet := []rune{'f', 'i', 'A', 'B', 'Z', 0x1F600}
	maxLen := 3
	if !r.Quick() {
		maxLen = 4
	}
	swMenu := []map[string]bool{nil, {}, {"liga": false, "kern": false}, {"liga": true, "kern": true, "ss01": true, "cpsp": true}}
	r.Explore(explore.Config{Name: "C15.layout"},
		"Layouter.Layout on generator fonts (outline kinds x cmap layouts x GSUB/GPOS/GDEF combinations) x languages {und,en,tr} x 4 feature-switch maps on ALL strings of length <= 3 (quick) / 4 over {f,i,A,B,unmapped Z, astral}: equals the reference pipeline (best cmap -> reference GSUB -> advance widths for non-marks -> reference GPOS); with no applicable rule: one glyph per character with the font's advance",
		func(c *explore.Ctx) {
			f, spec := gen.Font(c, gen.FontOpts{Compact: true, NoMeta: true, GlyphCounts: []int{6}})
			if f.CMapTable == nil {
				c.Skip("no cmap")
			}
			lang := []language.Tag{language.Und, language.English, language.Turkish}[c.Choose(3, "language")]
			swg := swMenu[c.Choose(len(swMenu), "gsub switches")]
			swp := swMenu[c.Choose(len(swMenu), "gpos switches")]
			c.Sample(func() any { return map[string]any{"font": spec, "lang": lang.String(), "gsub": swg, "gpos": swp} })
			lay, err := f.NewLayouter(lang, swg, swp)
			if err != nil {
				c.Fail("C15.layouter", "NewLayouter", "NewLayouter fails: %v", err)
				return
			}
			if f.Gsub != nil || f.Gpos != nil {
				c.Nontrivial()
			}
			best, _ := f.CMapTable.GetBest()
			n := 0
			allStrings(alphabet, maxLen, func(s string) bool {
				got := append([]glyph.Info{}, lay.Layout(s)...)
				want := refLayout(f, s, lang, swg, swp)
				n++
				if !infosEqual(got, want) {
					c.Fail("C15.layout", spec.Kind+"/"+spec.Gsub+"/"+spec.Gpos, "Layout(%q): [%s], reference pipeline: [%s]; font %+v", s, fmtInfos(got), fmtInfos(want), spec)
					return false
				}
				if f.Gsub == nil && f.Gpos == nil {
					rs := []rune(s)
					if len(got) != len(rs) {
						c.Fail("C15.layout", "plain", "font without rules: %d glyphs for %d characters", len(got), len(rs))
						return false
					}
					for i, g := range got {
						if string(g.Text) != string(rs[i]) || g.GID != best.Lookup(rs[i]) || float64(g.Advance) != f.GlyphWidth(g.GID) && !f.Gdef.IsMark(g.GID) {
							c.Fail("C15.layout", "plain", "Layout(%q) glyph %d: %s", s, i, fmtInfos(got[i:i+1]))
							return false
						}
					}
				}
				return true
			})
			c.Count("strings laid out", int64(n))
			c.Outcome(fmt.Sprint(spec), lang, swg, swp)
		})
}

// cmap selection inside Layout: every subset of the five selectable (platform, encoding) keys, each
// with its own mapping, so that the glyphs show which subtable the layouter used; the Macintosh
// subtable is keyed by Mac Roman bytes.  The expected choice and the decoding are spelled out here
// (independent of Table.GetBest and of the library's decoders).
func c15CmapSelection(r *run.Run) {
	type key struct {
		k     cmap.Key
		glyph uint16
		full  bool
	}
	// preference order of the property: full Unicode over BMP over legacy
	keys := []key{{cmap.Key{PlatformID: 3, EncodingID: 10}, 1, true}, {cmap.Key{PlatformID: 0, EncodingID: 4}, 2, true}, {cmap.Key{PlatformID: 3, EncodingID: 1}, 3, false}, {cmap.Key{PlatformID: 0, EncodingID: 3}, 4, false}, {cmap.Key{PlatformID: 1, EncodingID: 0}, 5, false}}
	runes := []rune{'A', 0xC4, 0x1F600, 'x', 0x10041} // A, A-umlaut (Mac Roman 0x80), an astral character, an unmapped one, an unmapped astral one that equals 'A' in its low 16 bits
	macByte := map[rune]uint16{'A': 0x41, 0xC4: 0x80}
	r.Explore(explore.Config{Name: "C15.cmap-selection"},
		"fonts whose cmap table holds every subset of the keys (3,10) (0,4) (3,1) (0,3) (1,0), each subtable with its own target glyph (formats 12, with a zero or a non-zero language field, / 4; the Macintosh subtable in format 4 or 6 keyed by Mac Roman bytes), laid out on all strings of length <= 2 over {A, U+00C4, U+1F600, unmapped x, unmapped U+10041}: each character must get the glyph of the preferred subtable present, or glyph 0",
		func(c *explore.Ctx) {
			f, _ := FontFromChoices(gen.FontOpts{NoMeta: true, NoLayout: true}, gen.KindGlyf, 2, 0, 0, 1)
			t := cmap.Table{}
			var desc []string
			var winner *key
			macFmt := 0
			for i := range keys {
				k := &keys[i]
				n := 3 // absent; present; present with a language field (formats 12: a non-zero field that means nothing outside the Macintosh platform)
				ch := c.Choose(n, fmt.Sprintf("key %v", k.k))
				if ch == 0 {
					continue
				}
				if ch == 2 && k.k.PlatformID != 1 && !k.full {
					c.Skip("one variant only")
				}
				switch {
				case k.full:
					lang := uint16(0)
					if ch == 2 {
						lang = 0x0409
					}
					t[k.k] = cmap.Format12{'A': glyph.ID(k.glyph), 0xC4: glyph.ID(k.glyph), 0x1F600: glyph.ID(k.glyph)}.Encode(lang)
				case k.k.PlatformID == 1 && ch == 1:
					t[k.k] = refcmap.Assemble4([]refcmap.Seg4{{Start: 0x41, End: 0x41, Delta: k.glyph - 0x41}, {Start: 0x80, End: 0x80, Delta: k.glyph - 0x80}, {Start: 0xFFFF, End: 0xFFFF, Delta: 1}}, 0)
					macFmt = 4
				case k.k.PlatformID == 1:
					gl := make([]uint16, 0x40)
					gl[0], gl[0x3F] = k.glyph, k.glyph
					t[k.k] = refcmap.Assemble6(0x41, gl, 0, false)
					macFmt = 6
				default:
					t[k.k] = cmap.Format4{'A': glyph.ID(k.glyph), 0xC4: glyph.ID(k.glyph)}.Encode(0)
				}
				desc = append(desc, fmt.Sprintf("(%d,%d)->glyph %d", k.k.PlatformID, k.k.EncodingID, k.glyph))
				if winner == nil {
					winner = k
				}
			}
			if winner == nil {
				c.Skip("no subtable")
			}
			if macFmt != 0 {
				desc = append(desc, fmt.Sprintf("Macintosh subtable in format %d", macFmt))
			}
			c.Sample(func() any { return desc })
			if len(t) > 1 {
				c.Nontrivial()
			}
			// the table as a reader finds it in a file
			if dec, err := cmap.Decode(t.Encode()); err != nil {
				c.Fail("C15.cmap", "decode", "the character map table cannot be decoded: %v (cmap %v)", err, desc)
				return
			} else {
				f.CMapTable = dec
			}
			want := func(ru rune) glyph.ID {
				switch {
				case winner.full:
					if ru == 'A' || ru == 0xC4 || ru == 0x1F600 {
						return glyph.ID(winner.glyph)
					}
				case winner.k.PlatformID == 1:
					if _, ok := macByte[ru]; ok {
						return glyph.ID(winner.glyph)
					}
				default:
					if ru == 'A' || ru == 0xC4 {
						return glyph.ID(winner.glyph)
					}
				}
				return 0
			}
			lay, err := f.NewLayouter(language.Und, nil, nil)
			if err != nil {
				c.Fail("C15.layouter", "NewLayouter/cmap", "NewLayouter fails: %v (cmap %v)", err, desc)
				return
			}
			sig := fmt.Sprintf("cmap selection (%d,%d)", winner.k.PlatformID, winner.k.EncodingID)
			allStrings(runes, 2, func(s string) bool {
				got := lay.Layout(s)
				rs := []rune(s)
				if len(got) != len(rs) {
					c.Fail("C15.cmap", sig, "Layout(%q): %d glyphs for %d characters (cmap %v)", s, len(got), len(rs), desc)
					return false
				}
				for i, g := range got {
					if g.GID != want(rs[i]) || string(g.Text) != string(rs[i]) || float64(g.Advance) != f.GlyphWidth(g.GID) {
						c.Fail("C15.cmap", sig, "Layout(%q): character %d (%U) becomes [%s], want glyph %d with the font's advance %v; cmap %v", s, i, rs[i], fmtInfos(got[i:i+1]), want(rs[i]), f.GlyphWidth(want(rs[i])), desc)
						return false
					}
				}
				return true
			})
			c.Outcome(fmt.Sprint(desc))
		})
}

// addTable rebuilds a font file with one more table.
func addTable(file []byte, tag string, data []byte) []byte {
	cont, _ := refsfnt.Walk(file)
	type tb struct {
		tag  string
		data []byte
	}
	tabs := []tb{{tag, data}}
	for _, rec := range cont.Records {
		d, _ := cont.Table(file, rec.Tag)
		tabs = append(tabs, tb{rec.Tag, d})
	}
	sort.Slice(tabs, func(i, j int) bool { return tabs[i].tag < tabs[j].tag })
	n := len(tabs)
	out := make([]byte, 12+16*n)
	copy(out, file[:4])
	out[4], out[5] = byte(n>>8), byte(n)
	off := len(out)
	for i, t := range tabs {
		r := out[12+16*i:]
		copy(r, t.tag)
		r[8], r[9], r[10], r[11] = byte(off>>24), byte(off>>16), byte(off>>8), byte(off)
		l := len(t.data)
		r[12], r[13], r[14], r[15] = byte(l>>24), byte(l>>16), byte(l>>8), byte(l)
		off += (l + 3) &^ 3
	}
	for _, t := range tabs {
		out = append(out, t.data...)
		for len(out)%4 != 0 {
			out = append(out, 0)
		}
	}
	return out
}

type kernSub struct {
	coverage byte // low byte of the coverage field: bit0 horizontal, bit1 minimum, bit2 cross-stream, bit3 override
	pairs    map[[2]uint16]int16
}

func kernTable(subs []kernSub) []byte {
	b := []byte{0, 0, byte(len(subs) >> 8), byte(len(subs))}
	for _, s := range subs {
		var keys [][2]uint16
		for k := range s.pairs {
			keys = append(keys, k)
		}
		sort.Slice(keys, func(i, j int) bool {
			if keys[i][0] != keys[j][0] {
				return keys[i][0] < keys[j][0]
			}
			return keys[i][1] < keys[j][1]
		})
		n := len(keys)
		l := 14 + 6*n
		b = append(b, 0, 0, byte(l>>8), byte(l), 0, s.coverage, byte(n>>8), byte(n), 0, 0, 0, 0, 0, 0)
		for _, k := range keys {
			v := s.pairs[k]
			b = append(b, byte(k[0]>>8), byte(k[0]), byte(k[1]>>8), byte(k[1]), byte(uint16(v)>>8), byte(v))
		}
	}
	return b
}

// refKern: kerning value of a pair per the kern table specification
// (format 0; horizontal subtables only; minimum and override bits).
func refKern(subs []kernSub, l, r uint16) int {
	v := 0
	for _, s := range subs {
		if s.coverage&1 == 0 || s.coverage&4 != 0 || s.coverage&0xF0 != 0 {
			continue // vertical or cross-stream data does not affect horizontal advances
		}
		x, ok := s.pairs[[2]uint16{l, r}]
		if !ok {
			continue
		}
		switch {
		case s.coverage&2 != 0:
			if v < int(x) {
				v = int(x)
			}
		case s.coverage&8 != 0:
			v = int(x)
		default:
			v += int(x)
		}
	}
	return v
}

func c15Kern(r *run.Run) {
	// a monospaced glyf font (no synthetic GSUB), 4 glyphs, cmap A,B,C
	mkBase := func(withGdef bool) []byte {
		ol := &glyf.Outlines{Maxp: &maxp.TTFInfo{MaxZones: 2}}
		for i := 0; i < 4; i++ {
			ol.Glyphs = append(ol.Glyphs, gen.GlyfShape(1+i%3, i))
			ol.Widths = append(ol.Widths, 600)
		}
		f, _ := FontFromChoices(gen.FontOpts{NoMeta: true, NoLayout: true}, 0, 1, 0, 0, 0)
		f.Outlines = ol
		f.InstallCMap(cmap.Format4{'A': 1, 'B': 2, 'C': 3})
		if withGdef {
			// glyph 3 ('C') is a mark: it gets no advance of its own, but pairs with it are kerned like any other
			f.Gdef = &gdef.Table{GlyphClass: classdef.Table{1: gdef.GlyphClassBase, 2: gdef.GlyphClassBase, 3: gdef.GlyphClassMark}}
		}
		b, err := writeFont(f)
		if err != nil {
			explore.Fatal("C15 kern base font: %v", err)
		}
		return b
	}
	base, baseGdef := mkBase(false), mkBase(true)
	covs := []byte{0x01, 0x03, 0x09, 0x00, 0x05}
	covNames := []string{"horizontal", "horizontal+minimum", "horizontal+override", "vertical", "horizontal+cross-stream"}
	vals := []int16{-50, 0, 30}
	pairKeys := [][2]uint16{{1, 2}, {2, 1}, {1, 1}}
	r.Explore(explore.Config{Name: "C15.kern"},
		"fonts carrying only a legacy kern table: 1..2 format-0 subtables x coverage flags {horizontal, +minimum, +override, vertical, +cross-stream} x all assignments of {absent,-50,0,30} to 3 glyph pairs: every pair of the laid-out string is adjusted by exactly the value the kern specification defines, for two languages and whatever optional positioning features the caller asks for (default, none, mark and mkmk); the same with a GDEF table that makes one glyph a mark (pairs around and between marks are kerned like any other)",
		func(c *explore.Ctx) {
			withGdef := c.Bool("GDEF with a mark glyph")
			ns := 1 + c.Choose(2, "subtables")
			var subs []kernSub
			var desc []string
			file0 := base
			strs := []string{"AB", "BA", "AA", "ABA", "AC", "BAAB"}
			if withGdef {
				// one subtable with pairs around the mark glyph C
				file0, ns = baseGdef, 0
				ci := c.Choose(len(covs), "coverage")
				s := kernSub{coverage: covs[ci], pairs: map[[2]uint16]int16{{1, 3}: -50, {3, 2}: 30, {1, 2}: -20, {3, 3}: 7}}
				subs = append(subs, s)
				desc = append(desc, fmt.Sprintf("GDEF marks C; %s %v", covNames[ci], s.pairs))
				strs = []string{"AC", "CB", "ACB", "AB", "CAB", "ACCB", "C"}
			}
			for i := 0; i < ns; i++ {
				ci := c.Choose(len(covs), "coverage")
				s := kernSub{coverage: covs[ci], pairs: map[[2]uint16]int16{}}
				for _, k := range pairKeys {
					if v := c.Choose(len(vals)+1, fmt.Sprintf("pair %v", k)); v > 0 {
						s.pairs[k] = vals[v-1]
					}
				}
				subs = append(subs, s)
				desc = append(desc, fmt.Sprintf("%s %v", covNames[ci], s.pairs))
			}
			c.Sample(func() any { return desc })
			file := addTable(file0, "kern", kernTable(subs))
			f, err := sfnt.Read(bytes.NewReader(file))
			if err != nil {
				c.Fail("C15.kern", "Read", "font with a kern table rejected: %v (%v)", err, desc)
				return
			}
			c.Outcome(fmt.Sprint(desc))
			c.Nontrivial()
			// "kerns every pair": for every language and whatever optional positioning features the caller asks for
			type env struct {
				lang language.Tag
				sw   map[string]bool
			}
			envs := []env{{language.English, nil}, {language.English, map[string]bool{}}, {language.Turkish, map[string]bool{"mark": true, "mkmk": true}}}
			for _, e := range envs {
				lay, err := f.NewLayouter(e.lang, nil, e.sw)
				if err != nil {
					c.Fail("C15.kern", "NewLayouter", "%v", err)
					return
				}
				for _, s := range strs {
					got := lay.Layout(s)
					rs := []rune(s)
					if len(got) != len(rs) {
						c.Fail("C15.kern", "glyph count", "Layout(%q) gives %d glyphs", s, len(got))
						return
					}
					for i := range rs {
						want := 600
						if withGdef && rs[i] == 'C' {
							want = 0 // a mark glyph gets no advance width
						}
						if i+1 < len(rs) {
							want += refKern(subs, uint16(rs[i]-'A'+1), uint16(rs[i+1]-'A'+1))
						}
						if int(got[i].Advance) != want || got[i].XOffset != 0 || got[i].YOffset != 0 {
							c.Fail("C15.kern", "pair value", "Layout(%q) for language %v with the positioning features %v: glyph %d has advance %d offsets (%d,%d), the kern table defines advance %d; subtables %v", s, e.lang, e.sw, i, got[i].Advance, got[i].XOffset, got[i].YOffset, want, desc)
							return
						}
					}
				}
			}
		})
}

// proportional fonts without GSUB get the standard f-ligatures they contain
func c15Ligatures(r *run.Run) {
	ligs := []rune{0xFB00, 0xFB01, 0xFB02, 0xFB03, 0xFB04}
	r.Explore(explore.Config{Name: "C15.synthetic-ligatures", Bound: 1},
		"fonts without GSUB read from a file: proportional and monospaced (by their advance widths; the isFixedPitch field of the post table agrees or contradicts; .notdef with or without an advance), all 32 subsets of U+FB00..FB04 mapped, with/without f, i, l mapped: proportional fonts ligate exactly the ligatures whose characters they map (longest first), monospaced fonts do not, and nothing is ligated when the caller switches the liga feature off or passes an empty feature map",
		func(c *explore.Ctx) {
			mono := c.Bool("monospaced")
			letters := []rune{'f', 'i', 'l'}
			cm := cmap.Format4{}
			gid := glyph.ID(1)
			for _, l := range letters {
				if c.Deviate(2, fmt.Sprintf("drop %c", l)) == 0 {
					cm[uint16(l)] = gid
				}
				gid++
			}
			var mapped []rune
			for _, l := range ligs {
				if c.Bool(fmt.Sprintf("map %U", l)) {
					cm[uint16(l)] = gid
					mapped = append(mapped, l)
				}
				gid++
			}
			ol := &glyf.Outlines{Maxp: &maxp.TTFInfo{MaxZones: 2}}
			for i := 0; i < int(gid); i++ {
				ol.Glyphs = append(ol.Glyphs, gen.GlyfShape(1+i%3, i))
				w := 500 + 10*i
				if mono {
					w = 600
				}
				ol.Widths = append(ol.Widths, funit.Int16(w))
			}
			// a glyph without an advance (here: .notdef) does not make a monospaced font proportional
			notdefZero := c.Bool(".notdef has no advance")
			if notdefZero {
				ol.Widths[0] = 0
			}
			f, _ := FontFromChoices(gen.FontOpts{NoMeta: true, NoLayout: true}, 0, 1, 0, 0, 0)
			f.Outlines = ol
			if len(cm) == 0 {
				c.Skip("empty cmap")
			}
			f.InstallCMap(cm)
			c.Sample(func() any { return map[string]any{"mono": mono, "cmap": fmt.Sprint(cm)} })
			file, err := writeFont(f)
			if err != nil {
				c.Fail("C15.ligatures", "write", "%v", err)
				return
			}
			// the isFixedPitch field of the post table is only a hint: what counts are the advance widths
			postFlag := c.Choose(2, "post isFixedPitch field contradicts the widths")
			if postFlag == 1 {
				cont, _ := refsfnt.Walk(file)
				patched := false
				for _, rec := range cont.Records {
					if rec.Tag == "post" && rec.Length >= 16 {
						v := byte(1)
						if mono {
							v = 0
						}
						file = append([]byte{}, file...)
						copy(file[int(rec.Offset)+12:], []byte{0, 0, 0, v})
						patched = true
					}
				}
				if !patched {
					c.Skip("no post table")
				}
			}
			g, err := sfnt.Read(bytes.NewReader(file))
			if err != nil {
				c.Fail("C15.ligatures", "read", "%v", err)
				return
			}
			// feature switches: the defaults, the ligatures switched off, no optional feature at all
			swk := c.Choose(3, "feature switches")
			sw := []map[string]bool{nil, {"liga": false}, {}}[swk]
			c.Outcome(mono, fmt.Sprint(cm), swk, postFlag, notdefZero)
			lay, err := g.NewLayouter(language.English, sw, nil)
			if err != nil {
				c.Fail("C15.ligatures", "NewLayouter", "%v", err)
				return
			}
			if swk > 0 {
				mono = true // switched off by the caller: one glyph per character, as for a monospaced font
			}
			if len(mapped) > 0 {
				c.Nontrivial()
			}
			// model: ligatures in the order ffi, ffl, ff, fi, fl; available iff the ligature and all components are mapped
			table := []struct {
				comp string
				out  rune
			}{{"ffi", 0xFB03}, {"ffl", 0xFB04}, {"ff", 0xFB00}, {"fi", 0xFB01}, {"fl", 0xFB02}}
			for _, s := range []string{"fi", "fl", "ff", "ffi", "ffl", "fffi", "fif", "lfi", "fii"} {
				var want []glyph.ID
				rs := []rune(s)
				for i := 0; i < len(rs); {
					matched := false
					if !mono {
						for _, t := range table {
							comp := []rune(t.comp)
							ok := cm[uint16(t.out)] != 0 && i+len(comp) <= len(rs)
							for k := 0; ok && k < len(comp); k++ {
								ok = rs[i+k] == comp[k] && cm[uint16(comp[k])] != 0
							}
							if ok {
								want = append(want, cm[uint16(t.out)])
								i += len(comp)
								matched = true
								break
							}
						}
					}
					if !matched {
						want = append(want, cm[uint16(rs[i])])
						i++
					}
				}
				var got []glyph.ID
				for _, gi := range lay.Layout(s) {
					got = append(got, gi.GID)
				}
				if fmt.Sprint(got) != fmt.Sprint(want) {
					c.Fail("C15.ligatures", fmt.Sprintf("mono=%v switches=%d", mono, swk), "Layout(%q) with feature switches %v gives glyphs %v, expected %v (cmap %v)", s, sw, got, want, cm)
					return
				}
			}
		})
}

func init() {
	Register("C15", func(r *run.Run) {
		r.Rule = "bounded exhaustive enumeration of script lists / feature switches / languages, of generator fonts x all short strings, of kern tables and of ligature-character subsets; reference pipeline built from the reference shaper and specification readers"
		r.Assume = []string{"lookup selection inside the layout comparison uses the library's FindLookups (checked separately)", "determinism across calls: 4 repetitions inside C15.findlookups, and every map iteration order of the seam's alphabet in C15.map-order*"}
		// cheap parts first; the layout comparison on all strings is the largest and comes last
		c15CmapSelection(r)
		c15Ligatures(r)
		c15FindLookups(r)
		c15FindLookupsBytes(r)
		c15SharedLangSys(r)
		c15Kern(r)
		c15FlagPairs(r)
		c15MapOrderFind(r)
		c15MapOrder(r)
		c15Layout(r)
	})
}
