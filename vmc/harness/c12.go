package harness

import (
	"bytes"
	"encoding/binary"
	"fmt"
	"math"
	"reflect"
	"seehuhn.de/go/geom/matrix"
	"seehuhn.de/go/sfnt/cff"
	"seehuhn.de/go/sfnt/glyf"
	"time"

	"github.com/google/go-cmp/cmp"

	"seehuhn.de/go/postscript/funit"
	"seehuhn.de/go/sfnt"
	"seehuhn.de/go/sfnt/glyph"
	"seehuhn.de/go/sfnt/head"
	"seehuhn.de/go/sfnt/hmtx"
	"seehuhn.de/go/sfnt/maxp"
	"seehuhn.de/go/sfnt/os2"
	"seehuhn.de/go/sfnt/post"

	"verif/explore"
	"verif/gen"
	"verif/refsfnt"
	"verif/run"
)

// C12: metrics/header tables round-trip exactly; derived fields match definitions.

var timeAlts = []time.Time{{}, time.Date(1904, 1, 1, 0, 0, 1, 0, time.UTC), time.Date(1970, 1, 1, 0, 0, 0, 0, time.UTC), time.Unix(1<<31, 0), time.Unix(1<<40-2082844800, 0)}

// structDeviations walks the exported fields of a struct; every field is a
// deviation point whose alternatives are the boundary values of its type.
// skip lists fields the caller sets itself.
func structDeviations(c *explore.Ctx, v reflect.Value, path string, skip map[string]bool, devs *[]string) {
	t := v.Type()
	for i := 0; i < v.NumField(); i++ {
		f := v.Field(i)
		name := path + t.Field(i).Name
		if !t.Field(i).IsExported() || skip[name] {
			continue
		}
		set := func(label string, alts ...any) {
			k := c.Deviate(len(alts)+1, name)
			if k > 0 {
				f.Set(reflect.ValueOf(alts[k-1]).Convert(f.Type()))
				*devs = append(*devs, fmt.Sprintf("%s=%v", name, alts[k-1]))
			}
		}
		switch f.Interface().(type) {
		case time.Time:
			var aa []any
			for _, a := range timeAlts {
				aa = append(aa, a)
			}
			set(name, aa...)
			continue
		case os2.Weight:
			set(name, 1, 100, 400, 700, 1000)
			continue
		case os2.Width:
			set(name, 1, 5, 9)
			continue
		case os2.Permissions:
			set(name, os2.PermEdit, os2.PermView, os2.PermRestricted)
			continue
		case head.Version:
			set(name, uint32(0x00010000), uint32(0x00018000), uint32(0xFFFFFFFF), uint32(1))
			continue
		}
		switch f.Kind() {
		case reflect.Bool:
			set(name, !f.Bool())
		case reflect.Int16:
			set(name, int16(-32768), int16(-1), int16(1), int16(32767))
		case reflect.Uint16:
			set(name, uint16(1), uint16(0x8000), uint16(0xFFFF))
		case reflect.Int:
			set(name, 1, 2, 65535)
		case reflect.Uint32:
			set(name, uint32(1), uint32(0x80000000), uint32(0xFFFFFFFF))
		case reflect.Uint64:
			set(name, uint64(1), uint64(1)<<63, ^uint64(0))
		case reflect.Float64:
			set(name, -12.0, 0.5, 1.0/65536, -45.25, 89.0)
		case reflect.String:
			set(name, "ABCD", "x  y", "Ab d")
		case reflect.Struct:
			structDeviations(c, f, name+".", skip, devs)
		case reflect.Array:
			if f.Type().Elem().Kind() == reflect.Uint8 {
				k := c.Deviate(3, name)
				if k > 0 {
					for j := 0; j < f.Len(); j++ {
						f.Index(j).SetUint(uint64([]int{0, 0xFF, j + 1}[k]))
					}
					*devs = append(*devs, fmt.Sprintf("%s=pattern%d", name, k))
				}
			} else if f.Type().Elem().Kind() == reflect.Uint32 {
				k := c.Deviate(3, name)
				if k > 0 {
					for j := 0; j < f.Len(); j++ {
						f.Index(j).SetUint(uint64([]uint32{0, 0xFFFFFFFF, 1 << uint(j)}[k]))
					}
					*devs = append(*devs, fmt.Sprintf("%s=pattern%d", name, k))
				}
			}
		}
	}
}

func c12Tables(r *run.Run) {
	bound := 2
	// head
	r.Explore(explore.Config{Name: "C12.head", Bound: bound}, "head.Info: every field at boundary values, <= 2 fields deviating; Read(Encode(x)) == x", func(c *explore.Ctx) {
		x := &head.Info{UnitsPerEm: 1000, Created: timeAlts[2], Modified: timeAlts[3], LowestRecPPEM: 7}
		var devs []string
		structDeviations(c, reflect.ValueOf(x).Elem(), "", nil, &devs)
		c.Sample(func() any { return devs })
		if len(devs) > 0 {
			c.Nontrivial()
		}
		b := x.Encode()
		y, err := head.Read(bytes.NewReader(b))
		if err != nil {
			c.Fail("C12.head", "Read", "head.Read(Encode(x)) fails: %v (%v)", err, devs)
			return
		}
		c.Outcome(b)
		if !x.Created.Equal(y.Created) || !x.Modified.Equal(y.Modified) {
			c.Fail("C12.head", "time", "timestamps %v/%v come back as %v/%v", x.Created, x.Modified, y.Created, y.Modified)
		}
		y.Created, y.Modified = x.Created, x.Modified
		if d := cmp.Diff(x, y); d != "" {
			c.Fail("C12.head", diffSig(d), "head round trip (%v):\n%s", devs, trimDiff(d))
		}
	})
	// maxp
	r.Explore(explore.Config{Name: "C12.maxp", Bound: bound}, "maxp.Info with and without TrueType part, boundary values, <= 2 deviations", func(c *explore.Ctx) {
		x := &maxp.Info{NumGlyphs: 3}
		if c.Bool("ttf") {
			x.TTF = &maxp.TTFInfo{MaxZones: 2}
		}
		var devs []string
		structDeviations(c, reflect.ValueOf(x).Elem(), "", map[string]bool{"TTF": true}, &devs)
		if x.TTF != nil {
			structDeviations(c, reflect.ValueOf(x.TTF).Elem(), "TTF.", nil, &devs)
		}
		c.Sample(func() any { return devs })
		if len(devs) > 0 {
			c.Nontrivial()
		}
		b := x.Encode()
		y, err := maxp.Read(bytes.NewReader(b))
		if err != nil {
			c.Fail("C12.maxp", "Read", "maxp.Read(Encode(x)) fails: %v (%v)", err, devs)
			return
		}
		c.Outcome(b)
		if d := cmp.Diff(x, y); d != "" {
			c.Fail("C12.maxp", diffSig(d), "maxp round trip (%v):\n%s", devs, trimDiff(d))
		}
	})
	// OS/2
	r.Explore(explore.Config{Name: "C12.os2", Bound: bound}, "os2.Info boundary values, <= 2 deviations; all flag bits; every code-page bit singly", func(c *explore.Ctx) {
		x := &os2.Info{WeightClass: 400, WidthClass: 5, Vendor: "VRF ", Ascent: 800, Descent: -200}
		var devs []string
		if k := c.Deviate(65, "single code page bit"); k > 0 {
			x.CodePageRange = 1 << uint(k-1)
			devs = append(devs, fmt.Sprintf("codepage bit %d", k-1))
		}
		structDeviations(c, reflect.ValueOf(x).Elem(), "", nil, &devs)
		c.Sample(func() any { return devs })
		if len(devs) > 0 {
			c.Nontrivial()
		}
		if x.IsRegular && (x.IsBold || x.IsItalic) {
			c.Skip("fsSelection: REGULAR excludes BOLD and ITALIC (bits 0 and 5, OpenType spec), not representable; OBLIQUE is independent")
		}
		b := x.Encode()
		y, err := os2.Read(bytes.NewReader(b))
		if err != nil {
			c.Fail("C12.os2", "Read", "os2.Read(Encode(x)) fails: %v (%v)", err, devs)
			return
		}
		c.Outcome(b)
		want := *x
		// normal form: Unicode range bit 57 (non-plane-0) is derived from usLastCharIndex == 0xFFFF;
		// non-positive cap/x heights mean "not set"
		want.UnicodeRange[1] &^= 1 << 25
		if x.LastCharIndex == 0xFFFF {
			want.UnicodeRange[1] |= 1 << 25
		}
		want.CapHeight, want.XHeight = max(0, x.CapHeight), max(0, x.XHeight)
		if d := cmp.Diff(&want, y); d != "" {
			c.Fail("C12.os2", diffSig(d), "OS/2 round trip (%v):\n%s", devs, trimDiff(d))
		}
	})
	// post (names are C14)
	r.Explore(explore.Config{Name: "C12.post", Bound: bound}, "post.Info scalar fields, boundary values", func(c *explore.Ctx) {
		x := &post.Info{UnderlinePosition: -100, UnderlineThickness: 50}
		var devs []string
		structDeviations(c, reflect.ValueOf(x).Elem(), "", map[string]bool{"Names": true}, &devs)
		c.Sample(func() any { return devs })
		if len(devs) > 0 {
			c.Nontrivial()
		}
		b := x.Encode()
		y, err := post.Read(bytes.NewReader(b))
		if err != nil {
			c.Fail("C12.post", "Read", "post.Read(Encode(x)) fails: %v (%v)", err, devs)
			return
		}
		c.Outcome(b)
		want := *x
		want.ItalicAngle = math.Round(x.ItalicAngle*65536) / 65536 // 16.16 in the file
		if d := cmp.Diff(&want, y); d != "" {
			c.Fail("C12.post", diffSig(d), "post round trip (%v):\n%s", devs, trimDiff(d))
		}
	})
}

func gcd(a, b int) int {
	if a < 0 {
		a = -a
	}
	if b < 0 {
		b = -b
	}
	for b != 0 {
		a, b = b, a%b
	}
	return a
}

func c12Hmtx(r *run.Run) {
	wvals := []funit.Int16{0, 500, 501}
	boxes := []funit.Rect16{{}, {LLx: 10, LLy: 0, URx: 400, URy: 700}, {LLx: -32768, LLy: -32768, URx: 32767, URy: 32767}, {LLx: -5, LLy: -200, URx: 600, URy: 10}}
	maxN := 5
	if !r.Quick() {
		maxN = 8
	}
	r.Explore(explore.Config{Name: "C12.hmtx"}, "all width vectors of length 1..5 (quick) / 1..8 over {0,500,501} (every constant-tail length) x extents rotation x explicit/implicit LSB; Decode(Encode(x)) == x and hhea derived fields recomputed from their definitions; non-trivial = tail compression applies",
		func(c *explore.Ctx) {
			n := 1 + c.Choose(maxN, "glyphs")
			x := &hmtx.Info{Ascent: 800, Descent: -200, LineGap: 10, CaretOffset: 3}
			for i := 0; i < n; i++ {
				x.Widths = append(x.Widths, wvals[c.Choose(len(wvals), "width")])
			}
			rot := c.Choose(len(boxes), "extent rotation")
			for i := 0; i < n; i++ {
				x.GlyphExtents = append(x.GlyphExtents, boxes[(i+rot)%len(boxes)])
			}
			explicit := c.Bool("explicit LSB")
			if explicit {
				for i := 0; i < n; i++ {
					x.LSB = append(x.LSB, funit.Int16(7*i-3))
				}
			}
			c.Sample(func() any { return map[string]any{"widths": x.Widths, "rot": rot, "explicitLSB": explicit} })
			hh, hm := x.Encode()
			c.Outcome(hh, hm)
			y, err := hmtx.Decode(hh, hm)
			if err != nil {
				c.Fail("C12.hmtx", "Decode", "Decode(Encode(x)) fails: %v", err)
				return
			}
			if fmt.Sprint(y.Widths) != fmt.Sprint(x.Widths) {
				c.Fail("C12.hmtx", "Widths", "widths %v come back as %v", x.Widths, y.Widths)
			}
			wantLSB := x.LSB
			if wantLSB == nil {
				for _, e := range x.GlyphExtents {
					wantLSB = append(wantLSB, e.LLx)
				}
			}
			if fmt.Sprint(y.LSB) != fmt.Sprint(wantLSB) {
				c.Fail("C12.hmtx", "LSB", "left side bearings %v come back as %v (widths %v)", wantLSB, y.LSB, x.Widths)
			}
			if y.Ascent != x.Ascent || y.Descent != x.Descent || y.LineGap != x.LineGap || y.CaretOffset != x.CaretOffset || math.Abs(y.CaretAngle-x.CaretAngle) > 1e-9 {
				c.Fail("C12.hmtx", "hhea scalars", "ascent/descent/linegap/caret: %+v vs %+v", x, y)
			}
			// derived fields from the raw hhea bytes, by definition
			if len(hh) != 36 {
				c.Fail("C12.hmtx", "hhea length", "hhea has %d bytes", len(hh))
				return
			}
			i16 := func(off int) int { return int(int16(binary.BigEndian.Uint16(hh[off:]))) }
			advMax, minL, minR, xMaxExt, first := 0, 0, 0, 0, true
			for i := 0; i < n; i++ {
				advMax = max(advMax, int(x.Widths[i]))
				e := x.GlyphExtents[i]
				if e.IsZero() {
					continue
				}
				lsb := int(wantLSB[i])
				rsb := int(x.Widths[i]) - int(e.URx)
				ext := int(e.URx)
				if first {
					minL, minR, xMaxExt, first = lsb, rsb, ext, false
				} else {
					minL, minR, xMaxExt = min(minL, lsb), min(minR, rsb), max(xMaxExt, ext)
				}
			}
			clamp := func(v int) int { return int(int16(v)) } // the fields are 16 bit
			if got := i16(10); got != advMax {
				c.Fail("C12.derived", "advanceWidthMax", "advanceWidthMax=%d want %d (widths %v)", got, advMax, x.Widths)
			}
			if got := i16(12); got != minL {
				c.Fail("C12.derived", "minLeftSideBearing", "minLeftSideBearing=%d want %d", got, minL)
			}
			if got := i16(14); got != clamp(minR) {
				c.Fail("C12.derived", "minRightSideBearing", "minRightSideBearing=%d want %d (widths %v extents %v)", got, minR, x.Widths, x.GlyphExtents)
			}
			if got := i16(16); got != xMaxExt {
				c.Fail("C12.derived", "xMaxExtent", "xMaxExtent=%d want %d", got, xMaxExt)
			}
			nLong := n
			for nLong > 1 && x.Widths[nLong-1] == x.Widths[nLong-2] {
				nLong--
			}
			if nLong < n {
				c.Nontrivial()
			}
			if got := int(binary.BigEndian.Uint16(hh[34:])); got != nLong {
				c.Fail("C12.derived", "numberOfHMetrics", "numberOfHMetrics=%d want the minimal %d (widths %v)", got, nLong, x.Widths)
			}
			if len(hm) != 4*nLong+2*(n-nLong) {
				c.Fail("C12.derived", "hmtx length", "hmtx has %d bytes want %d", len(hm), 4*nLong+2*(n-nLong))
			}
		})

	lim := 24
	if !r.Quick() {
		lim = 160
	}
	r.Explore(explore.Config{Name: "C12.caret", Bound: 1}, "caret slopes: all coprime (rise, run) with |rise|,|run| <= 24 (quick) / 160 plus 9 extreme fractions with components near 32767; the encoded slope decodes to the same angle, and a slope read from a file is written back as the same fraction", func(c *explore.Ctx) {
		rise := c.Choose(2*lim+1, "rise") - lim
		run := c.Choose(2*lim+1, "run") - lim
		if rise == 0 && run == 0 || gcd(rise, run) != 1 {
			c.Skip("not coprime")
		}
		switch c.Deviate(10, "extreme") {
		case 1:
			rise, run = 32767, 1
		case 2:
			rise, run = 32767, 32766
		case 3:
			rise, run = 1, 32767
		case 4:
			rise, run = 32766, 32767
		case 5:
			rise, run = 32767, -32766
		case 6:
			rise, run = 32765, 32767
		case 7:
			rise, run = 2, 32767
		case 8:
			rise, run = -32767, 32766
		case 9:
			rise, run = 16383, 16384
		}
		angle := math.Atan2(float64(rise), float64(run)) - math.Pi/2
		x := &hmtx.Info{CaretAngle: angle}
		c.Sample(func() any { return map[string]any{"rise": rise, "run": run, "angle": angle} })
		hh, _ := x.Encode()
		y, err := hmtx.Decode(hh, nil)
		if err != nil {
			c.Fail("C12.caret", "Decode", "%v", err)
			return
		}
		c.Nontrivial()
		c.Outcome(hh)
		gr, gn := int(int16(binary.BigEndian.Uint16(hh[18:]))), int(int16(binary.BigEndian.Uint16(hh[20:])))
		d := math.Abs(y.CaretAngle - angle)
		if d > math.Pi {
			d = 2*math.Pi - d
		}
		if d > 1e-7 {
			c.Fail("C12.caret", "angle", "caret slope %d/%d (angle %.9f) written as %d/%d, read as angle %.9f", rise, run, angle, gr, gn, y.CaretAngle)
		}
		// exactly: a slope that is stored in a file as the reduced fraction rise/run is written back as the
		// same fraction (the same direction: equal up to a common sign)
		patched := append([]byte{}, hh...)
		binary.BigEndian.PutUint16(patched[18:], uint16(int16(rise)))
		binary.BigEndian.PutUint16(patched[20:], uint16(int16(run)))
		z, err := hmtx.Decode(patched, nil)
		if err != nil {
			c.Fail("C12.caret", "Decode", "hhea with caret slope %d/%d rejected: %v", rise, run, err)
			return
		}
		hh2, _ := z.Encode()
		r2, n2 := int(int16(binary.BigEndian.Uint16(hh2[18:]))), int(int16(binary.BigEndian.Uint16(hh2[20:])))
		if !(r2 == rise && n2 == run) && !(r2 == -rise && n2 == -run) {
			c.Fail("C12.caret", "exact", "an hhea table with caret slope rise/run = %d/%d is decoded and written back with %d/%d", rise, run, r2, n2)
		}
	})

	r.Explore(explore.Config{Name: "C12.version"}, "all 2^17 low values of head.Version: the three-decimal string form parses back to the rounded value, and rounding is idempotent", func(c *explore.Ctx) {
		hi := c.Choose(2, "integer part") // 1 or 2
		lo := c.Choose(1<<16, "fraction")
		v := head.Version(uint32(hi+1)<<16 | uint32(lo))
		c.Sample(func() any { return fmt.Sprintf("%#08x", uint32(v)) })
		want := roundVersion(v)
		got, err := head.VersionFromString("Version " + v.String())
		if err != nil || got != want {
			c.Fail("C12.version", "VersionFromString", "version %#08x prints as %q and parses back as %#08x (err=%v), want %#08x", uint32(v), v.String(), uint32(got), err, uint32(want))
		}
		// Version.Round() is not compared: on the 8 exact ties (x.xxx5 representable in binary) it rounds half
		// away from zero while the string form rounds half to even; no listed property depends on it.
		if roundVersion(want) != want {
			c.Fail("C12.version", "oracle", "rounding not idempotent in the reference for %#08x", uint32(v))
		}
		if lo%4096 == 1 {
			c.Nontrivial()
		}
		c.Outcome(uint32(want))
	})
}

// c12Derived: derived fields of whole fonts, recomputed from definitions on the raw bytes.
func c12Derived(r *run.Run) {
	r.Explore(explore.Config{Name: "C12.derived-fonts", Bound: 0}, "every generator font: derived fields of head/hhea/OS/2 in the written file equal their definitions; metric queries consistent with outlines and with each other",
		func(c *explore.Ctx) {
			f, spec := gen.Font(c, gen.FontOpts{Compact: true, NoMeta: true})
			c.Sample(func() any { return spec })
			file, err := writeFont(f)
			if err != nil {
				c.Fail("C12.write", spec.Kind, "Write: %v", err)
				return
			}
			c.Outcome(file)
			cont, _ := refsfnt.Walk(file)
			n := f.NumGlyphs()
			boxes := make([]funit.Rect16, n)
			var bbox funit.Rect16
			first := true
			ww := f.Widths()
			sum, cnt := 0, 0
			for i := 0; i < n; i++ {
				boxes[i] = f.GlyphBBox(glyph.ID(i))
				if !boxes[i].IsZero() {
					if first {
						bbox, first = boxes[i], false
					} else {
						bbox.LLx, bbox.LLy = min(bbox.LLx, boxes[i].LLx), min(bbox.LLy, boxes[i].LLy)
						bbox.URx, bbox.URy = max(bbox.URx, boxes[i].URx), max(bbox.URy, boxes[i].URy)
					}
				}
				if ww[i] > 0 {
					sum += int(ww[i])
					cnt++
				}
			}
			if len(ww) > 0 {
				c.Nontrivial()
			}
			if got := f.FontBBox(); got != bbox {
				c.Fail("C12.query", "FontBBox", "FontBBox()=%v, union of non-empty glyph boxes %v", got, bbox)
			}
			hd, _ := cont.Table(file, "head")
			if len(hd) >= 44 {
				got := funit.Rect16{LLx: funit.Int16(binary.BigEndian.Uint16(hd[36:])), LLy: funit.Int16(binary.BigEndian.Uint16(hd[38:])), URx: funit.Int16(binary.BigEndian.Uint16(hd[40:])), URy: funit.Int16(binary.BigEndian.Uint16(hd[42:]))}
				if got != bbox {
					c.Fail("C12.derived", "head.FontBBox", "head bbox %v want %v", got, bbox)
				}
			}
			o2, _ := cont.Table(file, "OS/2")
			if len(o2) >= 68 {
				avg := 0
				if cnt > 0 {
					avg = (sum + cnt/2) / cnt
				}
				if got := int(int16(binary.BigEndian.Uint16(o2[2:]))); got != avg {
					c.Fail("C12.derived", "xAvgCharWidth", "xAvgCharWidth=%d want %d (widths %v)", got, avg, ww)
				}
				lo, hi := 0xFFFF+1, -1
				for ru := range spec.Runes {
					lo, hi = min(lo, int(ru)), max(hi, int(ru))
				}
				if hi >= 0 {
					lo, hi = min(lo, 0xFFFF), min(hi, 0xFFFF)
					gl, gh := int(binary.BigEndian.Uint16(o2[64:])), int(binary.BigEndian.Uint16(o2[66:]))
					if gl != lo || gh != hi {
						c.Fail("C12.derived", "first/lastCharIndex", "usFirstCharIndex/usLastCharIndex = %#x/%#x want %#x/%#x", gl, gh, lo, hi)
					}
				}
			}
			// queries
			wp := f.WidthsPDF()
			fixed := true
			var w0 float64
			for i := 0; i < n; i++ {
				gw := f.GlyphWidth(glyph.ID(i))
				if gw != ww[i] {
					c.Fail("C12.query", "GlyphWidth", "GlyphWidth(%d)=%v, Widths()[%d]=%v", i, gw, i, ww[i])
				}
				q := f.FontMatrix[0] * 1000
				if f.IsCFF() && !isCID(f) || f.IsGlyf() {
					if got := f.GlyphWidthPDF(glyph.ID(i)); math.Abs(got-ww[i]*q) > 1e-6 {
						c.Fail("C12.query", "GlyphWidthPDF", "GlyphWidthPDF(%d)=%v want %v", i, got, ww[i]*q)
					}
				}
				if wp != nil && math.Abs(wp[i]-ww[i]*f.FontMatrix[0]) > 1e-9 {
					c.Fail("C12.query", "WidthsPDF", "WidthsPDF()[%d]=%v want %v", i, wp[i], ww[i]*f.FontMatrix[0])
				}
				if ww[i] != 0 {
					if w0 == 0 {
						w0 = ww[i]
					} else if math.Abs(w0-ww[i]) >= 0.5 {
						fixed = false
					}
				}
			}
			if got := f.IsFixedPitch(); got != (fixed && n > 0) {
				c.Fail("C12.query", "IsFixedPitch", "IsFixedPitch()=%v, widths %v", got, ww)
			}
		})
}

// c12BBoxQuadrants: glyph outlines placed in every position relative to the origin (the bounding box of a
// font whose glyphs all lie strictly on one side of an axis does not contain the origin); the expected
// boxes come from the points the glyphs were built from, not from the library.
func c12BBoxQuadrants(r *run.Run) {
	offs := []int16{-2000, -100, 0, 1, 1000}
	r.Explore(explore.Config{Name: "C12.bbox-quadrants"},
		"fonts of each outline kind whose glyphs are triangles at every offset (x, y) in {-2000, -100, 0, 1, 1000}^2 (boxes left of, right of, below, above, touching and containing the origin), with an empty or an outlined glyph 0: GlyphBBox of every glyph, FontBBox, FontBBoxPDF and the head table's box equal the boxes of the points the glyphs were built from; under 5 font matrices that shear, rotate or mirror, FontBBoxPDF lies between the box of the transformed points and the box of the transformed glyph boxes",
		func(c *explore.Ctx) {
			kind := c.Choose(3, "outline kind")
			ox := offs[c.Choose(len(offs), "x offset")]
			oy := offs[c.Choose(len(offs), "y offset")]
			emptyFirst := c.Bool("glyph 0 empty")
			f, _ := FontFromChoices(gen.FontOpts{NoMeta: true, Compact: true, NoLayout: true}, kind, 1)
			n := f.NumGlyphs()
			want := make([]funit.Rect16, n)
			var union funit.Rect16
			first := true
			tri := func(i int) [3][2]int16 {
				x, y := ox+int16(10*i), oy+int16(7*i)
				return [3][2]int16{{x, y}, {x + 100, y}, {x + 50, y + 80}}
			}
			for i := 0; i < n; i++ {
				if i == 0 && emptyFirst {
					continue
				}
				t := tri(i)
				want[i] = funit.Rect16{LLx: funit.Int16(t[0][0]), LLy: funit.Int16(t[0][1]), URx: funit.Int16(t[1][0]), URy: funit.Int16(t[2][1])}
				if first {
					union, first = want[i], false
				} else {
					union.LLx, union.LLy = min(union.LLx, want[i].LLx), min(union.LLy, want[i].LLy)
					union.URx, union.URy = max(union.URx, want[i].URx), max(union.URy, want[i].URy)
				}
			}
			switch ol := f.Outlines.(type) {
			case *glyf.Outlines:
				o := *ol
				o.Glyphs = append(glyf.Glyphs{}, ol.Glyphs...)
				for i := range o.Glyphs {
					if i == 0 && emptyFirst {
						o.Glyphs[i] = nil
						continue
					}
					t := tri(i)
					o.Glyphs[i] = gen.SimpleGlyf([][]gen.Pt{{{t[0][0], t[0][1], true}, {t[1][0], t[1][1], true}, {t[2][0], t[2][1], true}}}, nil)
				}
				f.Outlines = &o
			case *cff.Outlines:
				o := *ol
				o.Glyphs = append([]*cff.Glyph{}, ol.Glyphs...)
				for i, old := range ol.Glyphs {
					g := cff.NewGlyph(old.Name, old.Width)
					if !(i == 0 && emptyFirst) {
						t := tri(i)
						g.MoveTo(float64(t[0][0]), float64(t[0][1]))
						g.LineTo(float64(t[1][0]), float64(t[1][1]))
						g.LineTo(float64(t[2][0]), float64(t[2][1]))
					}
					o.Glyphs[i] = g
				}
				f.Outlines = &o
			}
			desc := fmt.Sprintf("%s, triangles at (%d,%d), glyph 0 empty: %v", gen.KindNames[kind], ox, oy, emptyFirst)
			c.Sample(func() any { return desc })
			c.Nontrivial()
			c.Outcome(desc)
			for i := 0; i < n; i++ {
				if got := f.GlyphBBox(glyph.ID(i)); got != want[i] {
					c.Fail("C12.query", "GlyphBBox", "GlyphBBox(%d)=%v, the glyph's points span %v (%s)", i, got, want[i], desc)
				}
			}
			if got := f.FontBBox(); got != union {
				c.Fail("C12.query", "FontBBox", "FontBBox()=%v, union of the glyph boxes %v (%s)", got, union, desc)
			}
			q := f.FontMatrix[0] * 1000
			pdf := f.FontBBoxPDF()
			wantPDF := [4]float64{float64(union.LLx) * q, float64(union.LLy) * q, float64(union.URx) * q, float64(union.URy) * q}
			if got := [4]float64{pdf.LLx, pdf.LLy, pdf.URx, pdf.URy}; math.Abs(got[0]-wantPDF[0]) > 1e-6 || math.Abs(got[1]-wantPDF[1]) > 1e-6 || math.Abs(got[2]-wantPDF[2]) > 1e-6 || math.Abs(got[3]-wantPDF[3]) > 1e-6 {
				c.Fail("C12.query", "FontBBoxPDF", "FontBBoxPDF()=%v want %v (%s)", got, wantPDF, desc)
			}
			// font matrices that shear, rotate or mirror: the box in PDF units contains the transformed points of
			// every glyph and lies inside the box of the transformed corners of the glyph boxes
			if !isCID(f) {
				for _, fm := range []matrix.Matrix{{0.001, 0, -0.0002, 0.001, 0, 0}, {0.001, 0, 0.0003, 0.001, 0, 0}, {0.001, -0.0004, 0, 0.001, 0, 0}, {0.000866, 0.0005, -0.0005, 0.000866, 0, 0}, {-0.001, 0, 0, 0.002, 0, 0}} {
					g := f.Clone()
					g.FontMatrix = fm
					lo := [4]float64{math.Inf(1), math.Inf(1), math.Inf(-1), math.Inf(-1)}
					hi := lo
					ext := func(b *[4]float64, x, y float64) {
						px, py := 1000*(fm[0]*x+fm[2]*y+fm[4]), 1000*(fm[1]*x+fm[3]*y+fm[5])
						b[0], b[1], b[2], b[3] = math.Min(b[0], px), math.Min(b[1], py), math.Max(b[2], px), math.Max(b[3], py)
					}
					for i := 0; i < n; i++ {
						if i == 0 && emptyFirst {
							continue
						}
						for _, p := range tri(i) {
							ext(&lo, float64(p[0]), float64(p[1]))
						}
						w := want[i]
						for _, p := range [][2]funit.Int16{{w.LLx, w.LLy}, {w.LLx, w.URy}, {w.URx, w.LLy}, {w.URx, w.URy}} {
							ext(&hi, float64(p[0]), float64(p[1]))
						}
					}
					got := g.FontBBoxPDF()
					const eps = 1e-6
					if got.LLx > lo[0]+eps || got.LLy > lo[1]+eps || got.URx < lo[2]-eps || got.URy < lo[3]-eps {
						c.Fail("C12.query", "FontBBoxPDF under a general font matrix", "font matrix %v: FontBBoxPDF()=%v does not contain the transformed outlines %v (%s)", fm, got, lo, desc)
						break
					}
					if got.LLx < hi[0]-eps || got.LLy < hi[1]-eps || got.URx > hi[2]+eps || got.URy > hi[3]+eps {
						c.Fail("C12.query", "FontBBoxPDF under a general font matrix", "font matrix %v: FontBBoxPDF()=%v is larger than the transformed glyph boxes %v (%s)", fm, got, hi, desc)
						break
					}
				}
			}
			file, err := writeFont(f)
			if err != nil {
				c.Fail("C12.write", gen.KindNames[kind], "Write: %v (%s)", err, desc)
				return
			}
			cont, _ := refsfnt.Walk(file)
			hd, _ := cont.Table(file, "head")
			if len(hd) >= 44 {
				got := funit.Rect16{LLx: funit.Int16(binary.BigEndian.Uint16(hd[36:])), LLy: funit.Int16(binary.BigEndian.Uint16(hd[38:])), URx: funit.Int16(binary.BigEndian.Uint16(hd[40:])), URy: funit.Int16(binary.BigEndian.Uint16(hd[42:]))}
				if got != union {
					c.Fail("C12.derived", "head.FontBBox", "head bbox %v want %v (%s)", got, union, desc)
				}
			}
		})
}

// c12BBoxCurves: glyph boxes of CFF glyphs whose curves bulge beyond their end points: a box "consistent
// with the outline" contains the outline (the true extrema of every curve, computed here from the roots of
// the derivative) and lies inside the box of all control points.
func c12BBoxCurves(r *run.Run) {
	ctrl := [][2]float64{{0, 100}, {100, 100}, {-50, 40}, {150, -60}, {30, 0}, {70, 0}}
	r.Explore(explore.Config{Name: "C12.bbox-curves"},
		"simple and CID-keyed CFF fonts with a glyph made of one curve from (0,0) to (100,0) with both control points from {(0,100), (100,100), (-50,40), (150,-60), (30,0), (70,0)} (bulging up, down, left and right of the chord, or flat), optionally behind a line, at 3 offsets, with 1000 or 2048 units per em: GlyphBBox, FontBBox and the head box contain the curve's true extrema and lie inside the box of the control points; FontBBoxPDF and GlyphBBoxPDF agree with them after scaling",
		func(c *explore.Ctx) {
			kind := 1 + c.Choose(2, "outline kind")
			c1 := ctrl[c.Choose(len(ctrl), "first control point")]
			c2 := ctrl[c.Choose(len(ctrl), "second control point")]
			off := []float64{0, 500, -700}[c.Choose(3, "offset")]
			f, spec := FontFromChoices(gen.FontOpts{NoMeta: true, Compact: true, NoLayout: true}, kind, 1)
			ol := *f.Outlines.(*cff.Outlines)
			ol.Glyphs = append([]*cff.Glyph{}, ol.Glyphs...)
			n := len(ol.Glyphs)
			px := [4]float64{off, off + c1[0], off + c2[0], off + 100}
			py := [4]float64{off, off + c1[1], off + c2[1], off}
			lineFirst := c.Bool("a line before the curve")
			for i := range ol.Glyphs {
				g := cff.NewGlyph(ol.Glyphs[i].Name, ol.Glyphs[i].Width)
				if lineFirst {
					// (the line lies on the chord: the extent of the outline is that of the curve)
					g.MoveTo(px[0]+50, py[0])
					g.LineTo(px[0], py[0])
				} else {
					g.MoveTo(px[0], py[0])
				}
				g.CurveTo(px[1], py[1], px[2], py[2], px[3], py[3])
				ol.Glyphs[i] = g
			}
			f.Outlines = &ol
			if c.Bool("2048 units per em") {
				f.UnitsPerEm = 2048
				f.FontMatrix = matrix.Matrix{1.0 / 2048, 0, 0, 1.0 / 2048, 0, 0}
			}
			_ = spec
			extrema := func(p [4]float64) (lo, hi float64) {
				lo, hi = math.Min(p[0], p[3]), math.Max(p[0], p[3])
				a := -p[0] + 3*p[1] - 3*p[2] + p[3]
				b := 2 * (p[0] - 2*p[1] + p[2])
				cc := p[1] - p[0]
				var ts []float64
				if math.Abs(a) < 1e-12 {
					if math.Abs(b) > 1e-12 {
						ts = append(ts, -cc/b)
					}
				} else if d := b*b - 4*a*cc; d >= 0 {
					ts = append(ts, (-b+math.Sqrt(d))/(2*a), (-b-math.Sqrt(d))/(2*a))
				}
				for _, t := range ts {
					if t > 0 && t < 1 {
						v := (1-t)*(1-t)*(1-t)*p[0] + 3*(1-t)*(1-t)*t*p[1] + 3*(1-t)*t*t*p[2] + t*t*t*p[3]
						lo, hi = math.Min(lo, v), math.Max(hi, v)
					}
				}
				return
			}
			xlo, xhi := extrema(px)
			ylo, yhi := extrema(py)
			hull := func(p [4]float64) (float64, float64) {
				return math.Min(math.Min(p[0], p[1]), math.Min(p[2], p[3])), math.Max(math.Max(p[0], p[1]), math.Max(p[2], p[3]))
			}
			hxlo, hxhi := hull(px)
			hylo, hyhi := hull(py)
			desc := fmt.Sprintf("%s, %d units per em, line first %v, curve (%v,%v) (%v,%v) (%v,%v) (%v,%v)", gen.KindNames[kind], f.UnitsPerEm, lineFirst, px[0], py[0], px[1], py[1], px[2], py[2], px[3], py[3])
			c.Sample(func() any { return desc })
			c.Nontrivial()
			c.Outcome(desc)
			const eps = 1e-6
			inside := func(what string, b funit.Rect16) {
				if float64(b.LLx) > xlo+eps || float64(b.LLy) > ylo+eps || float64(b.URx) < xhi-eps || float64(b.URy) < yhi-eps {
					c.Fail("C12.query", what+" does not contain the outline", "%s = %v, the curve extends over [%.3f, %.3f] x [%.3f, %.3f] (%s)", what, b, xlo, xhi, ylo, yhi, desc)
				}
				if float64(b.LLx) < math.Floor(hxlo)-eps || float64(b.LLy) < math.Floor(hylo)-eps || float64(b.URx) > math.Ceil(hxhi)+eps || float64(b.URy) > math.Ceil(hyhi)+eps {
					c.Fail("C12.query", what+" larger than the control points", "%s = %v, the control points span [%v, %v] x [%v, %v] (%s)", what, b, hxlo, hxhi, hylo, hyhi, desc)
				}
			}
			for i := 0; i < n; i++ {
				inside(fmt.Sprintf("GlyphBBox(%d)", i), f.GlyphBBox(glyph.ID(i)))
			}
			fb := f.FontBBox()
			inside("FontBBox", fb)
			q := f.FontMatrix[0] * 1000
			pdf := f.FontBBoxPDF()
			if pdf.LLx > xlo*q+eps || pdf.LLy > ylo*q+eps || pdf.URx < xhi*q-eps || pdf.URy < yhi*q-eps {
				c.Fail("C12.query", "FontBBoxPDF does not contain the outline", "FontBBoxPDF = %v, the curve extends over [%.3f, %.3f] x [%.3f, %.3f] design units, scale %v (%s)", pdf, xlo, xhi, ylo, yhi, q, desc)
			}
			if pdf.LLx < hxlo*q-1-eps || pdf.LLy < hylo*q-1-eps || pdf.URx > hxhi*q+1+eps || pdf.URy > hyhi*q+1+eps {
				c.Fail("C12.query", "FontBBoxPDF larger than the control points", "FontBBoxPDF = %v, the control points span [%v, %v] x [%v, %v] design units, scale %v (%s)", pdf, hxlo, hxhi, hylo, hyhi, q, desc)
			}
			for i := 0; i < n; i++ {
				gb := f.Outlines.GlyphBBoxPDF(f.FontMatrix, glyph.ID(i))
				if gb.LLx > xlo*q+eps || gb.LLy > ylo*q+eps || gb.URx < xhi*q-eps || gb.URy < yhi*q-eps || gb.LLx < hxlo*q-1-eps || gb.LLy < hylo*q-1-eps || gb.URx > hxhi*q+1+eps || gb.URy > hyhi*q+1+eps {
					c.Fail("C12.query", "GlyphBBoxPDF", "GlyphBBoxPDF(%d) = %v, the curve extends over [%.3f, %.3f] x [%.3f, %.3f] and its control points over [%v, %v] x [%v, %v] design units, scale %v (%s)", i, gb, xlo, xhi, ylo, yhi, hxlo, hxhi, hylo, hyhi, q, desc)
					break
				}
			}
			file, err := writeFont(f)
			if err != nil {
				c.Fail("C12.write", gen.KindNames[kind], "Write: %v (%s)", err, desc)
				return
			}
			cont, _ := refsfnt.Walk(file)
			hd, _ := cont.Table(file, "head")
			if len(hd) >= 44 {
				inside("head box", funit.Rect16{LLx: funit.Int16(binary.BigEndian.Uint16(hd[36:])), LLy: funit.Int16(binary.BigEndian.Uint16(hd[38:])), URx: funit.Int16(binary.BigEndian.Uint16(hd[40:])), URy: funit.Int16(binary.BigEndian.Uint16(hd[42:]))})
			}
		})
}

// c12BBoxElevated: cubic curves that are quadratic curves in disguise (outlines converted from TrueType): the
// cubic coefficient of such a curve is zero up to rounding, which is where a root formula loses its digits.
func c12BBoxElevated(r *run.Run) {
	starts, mids, ends := []float64{0.1, 0, 10.3}, []float64{150.3, -77.7, 33.1, 5.05}, []float64{0.7, 0, -20.9}
	r.Explore(explore.Config{Name: "C12.bbox-elevated"},
		"CFF glyphs made of one cubic curve that is a degree-elevated quadratic curve with the control values (p, q, r), p in {0.1, 0, 10.3}, q in {150.3, -77.7, 33.1, 5.05}, r in {0.7, 0, -20.9} in x and in y (the extremum of the quadratic curve is known in closed form): GlyphBBox contains the curve and is not larger than its extent rounded outwards",
		func(c *explore.Ctx) {
			pick := func(xs []float64, what string) float64 { return xs[c.Choose(len(xs), what)] }
			px, qx, rx := pick(starts, "x start"), pick(mids, "x control"), pick(ends, "x end")
			py, qy, ry := pick(starts, "y start"), pick(mids, "y control"), pick(ends, "y end")
			f, _ := FontFromChoices(gen.FontOpts{NoMeta: true, Compact: true, NoLayout: true}, 1, 1)
			ol := *f.Outlines.(*cff.Outlines)
			ol.Glyphs = append([]*cff.Glyph{}, ol.Glyphs...)
			g := cff.NewGlyph(ol.Glyphs[1].Name, ol.Glyphs[1].Width)
			g.MoveTo(px, py)
			g.CurveTo(px+2*(qx-px)/3, py+2*(qy-py)/3, rx+2*(qx-rx)/3, ry+2*(qy-ry)/3, rx, ry)
			ol.Glyphs[1] = g
			f.Outlines = &ol
			ext := func(p, q, r float64) (lo, hi float64) {
				lo, hi = math.Min(p, r), math.Max(p, r)
				if d := p - 2*q + r; d != 0 {
					if t := (p - q) / d; t > 0 && t < 1 {
						v := (1-t)*(1-t)*p + 2*(1-t)*t*q + t*t*r
						lo, hi = math.Min(lo, v), math.Max(hi, v)
					}
				}
				return
			}
			xlo, xhi := ext(px, qx, rx)
			ylo, yhi := ext(py, qy, ry)
			desc := fmt.Sprintf("quadratic curve (%v,%v) (%v,%v) (%v,%v) written as a cubic curve", px, py, qx, qy, rx, ry)
			c.Sample(func() any { return desc })
			c.Outcome(desc)
			c.Nontrivial()
			b := f.GlyphBBox(1)
			const eps = 1e-6
			if float64(b.LLx) > xlo+eps || float64(b.LLy) > ylo+eps || float64(b.URx) < xhi-eps || float64(b.URy) < yhi-eps {
				c.Fail("C12.query", "GlyphBBox does not contain the outline", "GlyphBBox = %v, the curve extends over [%.4f, %.4f] x [%.4f, %.4f] (%s)", b, xlo, xhi, ylo, yhi, desc)
			}
			if float64(b.LLx) < math.Floor(xlo)-eps || float64(b.LLy) < math.Floor(ylo)-eps || float64(b.URx) > math.Ceil(xhi)+eps || float64(b.URy) > math.Ceil(yhi)+eps {
				c.Fail("C12.query", "GlyphBBox larger than the outline", "GlyphBBox = %v, the curve extends over [%.4f, %.4f] x [%.4f, %.4f] (%s)", b, xlo, xhi, ylo, yhi, desc)
			}
		})
}

// c12WidthQueries: the four ways of asking for an advance width in PDF units agree with each other for every
// font matrix, also for CID-keyed fonts whose font dictionaries carry matrices of their own.
func c12WidthQueries(r *run.Run) {
	tops := []matrix.Matrix{{0.001, 0, 0, 0.001, 0, 0}, {0.0005, 0, 0, 0.001, 0, 0}, {0.001, 0, 0.0002, 0.001, 0, 0}, {0.001, 0.0002, 0.0003, 0.001, 0, 0}, {1, 0, 0, 1, 0, 0}}
	fds := []matrix.Matrix{{1, 0, 0, 1, 0, 0}, {2, 0, 0, 2, 0, 0}, {0.5, 0, 0, 1, 0, 0}, {0.001, 0, 0, 0.001, 0, 0}, {1, 0.1, 0.2, 1, 0, 0}}
	r.Explore(explore.Config{Name: "C12.width-queries"},
		"simple and CID-keyed CFF fonts under 5 top-level font matrices (plain, condensed, sheared, general, identity) x 5 matrices of the font dictionaries (CID-keyed: identity, scaled, condensed, 0.001 with an identity top-level matrix, general): WidthsPDF()[i] * 1000 = GlyphWidthPDF(i) for every glyph, also through the cff.Font, and WidthsMapPDF()[name] = GlyphWidthPDF(i) for simple fonts",
		func(c *explore.Ctx) {
			kind := 1 + c.Choose(2, "outline kind")
			f, _ := FontFromChoices(gen.FontOpts{NoMeta: true, Compact: true, NoLayout: true}, kind, 1)
			f.FontMatrix = tops[c.Choose(len(tops), "font matrix")]
			desc := fmt.Sprintf("%s, font matrix %v", gen.KindNames[kind], f.FontMatrix)
			o := *f.Outlines.(*cff.Outlines)
			if o.IsCIDKeyed() {
				o.FontMatrices = append([]matrix.Matrix{}, o.FontMatrices...)
				fd := fds[c.Choose(len(fds), "matrix of the font dictionaries")]
				for i := range o.FontMatrices {
					o.FontMatrices[i] = fd
				}
				f.Outlines = &o
				desc += fmt.Sprintf(", font dictionaries %v", fd)
			}
			c.Sample(func() any { return desc })
			c.Nontrivial()
			wp := f.WidthsPDF()
			wm := f.WidthsMapPDF()
			cf := f.AsCFF()
			c.Outcome(desc, wp)
			for i := 0; i < f.NumGlyphs(); i++ {
				g := f.GlyphWidthPDF(glyph.ID(i))
				tol := 1e-9 * math.Max(1, math.Abs(g))
				if math.Abs(wp[i]*1000-g) > tol {
					c.Fail("C12.query", "WidthsPDF vs GlyphWidthPDF", "glyph %d (design width %v): WidthsPDF gives %v text space units, GlyphWidthPDF %v glyph space units; %s", i, f.GlyphWidth(glyph.ID(i)), wp[i], g, desc)
					return
				}
				if g2 := cf.GlyphWidthPDF(glyph.ID(i)); math.Abs(g2-g) > tol {
					c.Fail("C12.query", "cff GlyphWidthPDF", "glyph %d: cff.Font.GlyphWidthPDF gives %v, sfnt.Font.GlyphWidthPDF %v; %s", i, g2, g, desc)
					return
				}
				if wm != nil {
					if w, ok := wm[f.GlyphName(glyph.ID(i))]; !ok || math.Abs(w-g) > tol {
						c.Fail("C12.query", "WidthsMapPDF", "glyph %d: WidthsMapPDF gives %v (present %v), GlyphWidthPDF %v; %s", i, w, ok, g, desc)
						return
					}
				}
			}
		})
}

func isCID(f *sfnt.Font) bool {
	o, ok := f.Outlines.(interface{ IsCIDKeyed() bool })
	return ok && o.IsCIDKeyed()
}

// timestamps through the whole-font writer and reader: every combination of set / unset creation and
// modification time (at least one set), each value at the boundaries of the format
func c12FontTimes(r *run.Run) {
	r.Explore(explore.Config{Name: "C12.font-times"},
		"Font.Write / sfnt.Read on a font of each outline kind with creation and modification time from {unset, 1904-01-01 00:00:01, 1970, 2038, 2^40 s after 1904} in all combinations with at least one set: both come back unchanged to the second, an unset time stays unset",
		func(c *explore.Ctx) {
			kind := c.Choose(3, "outline kind")
			f, _ := FontFromChoices(gen.FontOpts{NoMeta: true, Compact: true}, kind, 1)
			f.CreationTime = timeAlts[c.Choose(len(timeAlts), "creation time")]
			f.ModificationTime = timeAlts[c.Choose(len(timeAlts), "modification time")]
			if f.CreationTime.IsZero() && f.ModificationTime.IsZero() {
				c.Skip("no timestamp at all: the writer uses the current time")
			}
			desc := fmt.Sprintf("%s created %v modified %v", gen.KindNames[kind], f.CreationTime.UTC(), f.ModificationTime.UTC())
			c.Sample(func() any { return desc })
			c.Nontrivial()
			file, err := writeFont(f)
			if err != nil {
				c.Fail("C12.times", "write", "Write fails: %v (%s)", err, desc)
				return
			}
			back, err := sfnt.Read(bytes.NewReader(file))
			if err != nil {
				c.Fail("C12.times", "read", "Read(Write(F)) fails: %v (%s)", err, desc)
				return
			}
			c.Outcome(desc)
			same := func(a, b time.Time) bool { return a.IsZero() == b.IsZero() && a.Unix() == b.Unix() }
			if !same(f.CreationTime, back.CreationTime) {
				c.Fail("C12.times", "creation time", "creation time %v comes back as %v (%s)", f.CreationTime.UTC(), back.CreationTime.UTC(), desc)
			}
			if !same(f.ModificationTime, back.ModificationTime) {
				c.Fail("C12.times", "modification time", "modification time %v comes back as %v (%s)", f.ModificationTime.UTC(), back.ModificationTime.UTC(), desc)
			}
		})
}

// c12FontVertical: ascent, descent and line gap through the whole-font writer and reader, at the signed
// extremes and with the unusual signs (a descent above the baseline, an ascent below it).
func c12FontVertical(r *run.Run) {
	asc := []funit.Int16{800, 0, -5, 32767, -32768}
	desc := []funit.Int16{-200, 0, 5, 32767, -32768}
	gap := []funit.Int16{0, 100, -1, 32767, -32768}
	r.Explore(explore.Config{Name: "C12.font-vertical"},
		"Font.Write / sfnt.Read on a font of each outline kind with ascent from {800, 0, -5, 32767, -32768}, descent from {-200, 0, 5, 32767, -32768} and line gap from {0, 100, -1, 32767, -32768} in all combinations: all three come back unchanged",
		func(c *explore.Ctx) {
			kind := c.Choose(3, "outline kind")
			f, _ := FontFromChoices(gen.FontOpts{NoMeta: true, Compact: true}, kind, 1)
			f.Ascent, f.Descent, f.LineGap = asc[c.Choose(len(asc), "ascent")], desc[c.Choose(len(desc), "descent")], gap[c.Choose(len(gap), "line gap")]
			d := fmt.Sprintf("%s ascent %d descent %d line gap %d", gen.KindNames[kind], f.Ascent, f.Descent, f.LineGap)
			c.Sample(func() any { return d })
			c.Nontrivial()
			file, err := writeFont(f)
			if err != nil {
				c.Fail("C12.vertical", "write", "Write fails: %v (%s)", err, d)
				return
			}
			back, err := sfnt.Read(bytes.NewReader(file))
			if err != nil {
				c.Fail("C12.vertical", "read", "Read(Write(F)) fails: %v (%s)", err, d)
				return
			}
			c.Outcome(d)
			if back.Ascent != f.Ascent || back.Descent != f.Descent || back.LineGap != f.LineGap {
				c.Fail("C12.vertical", "values", "ascent %d descent %d line gap %d come back as %d, %d, %d (%s)", f.Ascent, f.Descent, f.LineGap, back.Ascent, back.Descent, back.LineGap, gen.KindNames[kind])
			}
		})
}

// large horizontal metrics tables: the number of long metrics is a 16-bit count and 4 * count bytes long
func c12HmtxScaled(r *run.Run) {
	cases := [][2]int{{255, 0}, {256, 1}, {16383, 0}, {16384, 0}, {16385, 0}, {16385, 5}, {20000, 0}, {32768, 1}, {40000, 20000}, {65535, 0}, {65535, 65000}, {65535, 49152}}
	r.Explore(explore.Config{Name: "C12.hmtx-scaled"},
		"hmtx/hhea for {255, 256, 16383, 16384, 16385, 20000, 32768, 40000, 65535} glyphs with distinct widths followed by a constant tail of {0, 1, 5, 20000, 49152, 65000} glyphs, explicit and implicit left side bearings: Decode(Encode(x)) returns the same widths and side bearings, numberOfHMetrics is minimal",
		func(c *explore.Ctx) {
			cs := cases[c.Choose(len(cases), "glyphs, constant tail")]
			n, tail := cs[0], cs[1]
			explicit := c.Bool("explicit LSB")
			x := &hmtx.Info{Ascent: 800, Descent: -200}
			for i := 0; i < n; i++ {
				w := funit.Int16(300 + i%977)
				if i >= n-tail {
					w = 555
				}
				x.Widths = append(x.Widths, w)
				x.GlyphExtents = append(x.GlyphExtents, funit.Rect16{LLx: funit.Int16(i%50 - 10), URx: funit.Int16(200 + i%90), URy: 700})
				if explicit {
					x.LSB = append(x.LSB, funit.Int16(i%31-7))
				}
			}
			desc := fmt.Sprintf("%d glyphs, constant tail of %d, explicit LSB %v", n, tail, explicit)
			c.Sample(func() any { return desc })
			c.Nontrivial()
			hh, hm := x.Encode()
			c.Outcome(len(hm), desc)
			y, err := hmtx.Decode(hh, hm)
			if err != nil {
				c.Fail("C12.hmtx", "scaled Decode", "Decode(Encode(x)) fails: %v (%s)", err, desc)
				return
			}
			if len(y.Widths) != n {
				c.Fail("C12.hmtx", "scaled count", "%d widths come back as %d (%s)", n, len(y.Widths), desc)
				return
			}
			for i := 0; i < n; i++ {
				wl := x.GlyphExtents[i].LLx
				if explicit {
					wl = x.LSB[i]
				}
				if y.Widths[i] != x.Widths[i] || i < len(y.LSB) && y.LSB[i] != wl || len(y.LSB) != n {
					c.Fail("C12.hmtx", "scaled values", "glyph %d: width %d, LSB %d (of %d) come back, written %d, %d (%s)", i, y.Widths[i], y.LSB[min(i, len(y.LSB)-1)], len(y.LSB), x.Widths[i], wl, desc)
					return
				}
			}
			nLong := int(binary.BigEndian.Uint16(hh[34:]))
			wantLong := n
			for wantLong > 1 && x.Widths[wantLong-2] == x.Widths[n-1] {
				wantLong--
			}
			if nLong != wantLong || len(hm) != 4*nLong+2*(n-nLong) {
				c.Fail("C12.hmtx", "scaled numberOfHMetrics", "numberOfHMetrics = %d and %d bytes of hmtx; the minimal count is %d (%d bytes) (%s)", nLong, len(hm), wantLong, 4*wantLong+2*(n-wantLong), desc)
			}
		})
}

func init() {
	Register("C12", func(r *run.Run) {
		r.Rule = "boundary-value deviations (d<=2) of every Info field via reflection; exhaustive width vectors, caret slopes and version values; derived fields recomputed from definitions on raw bytes"
		r.Assume = []string{"advance widths are non-negative", "angles compared to 1e-7 rad; post italic angle to 16.16"}
		c12Tables(r)
		c12Hmtx(r)
		c12HmtxScaled(r)
		c12Derived(r)
		c12BBoxQuadrants(r)
		c12WidthQueries(r)
		c12BBoxElevated(r)
		c12BBoxCurves(r)
		c12FontTimes(r)
		c12FontVertical(r)
	})
}
