package harness

import (
	"bytes"
	"fmt"
	"golang.org/x/text/language"
	"seehuhn.de/go/sfnt/opentype/anchor"
	"seehuhn.de/go/sfnt/opentype/coverage"
	"seehuhn.de/go/sfnt/opentype/markarray"

	"seehuhn.de/go/postscript/funit"
	"seehuhn.de/go/sfnt/glyph"
	"seehuhn.de/go/sfnt/opentype/gdef"
	"seehuhn.de/go/sfnt/opentype/gtab"

	"verif/explore"
	"verif/gen"
	"verif/refshape"
	"verif/run"
)

// C06: GSUB/GPOS lookup application follows OpenType semantics (reference model).

// mkSeq builds the input; advances are only assigned for GPOS lists (GSUB runs
// before advances exist, and what a substitution does to them is not specified).
func mkSeq(gids []glyph.ID, gpos bool) []glyph.Info {
	seq := make([]glyph.Info, len(gids))
	for i, g := range gids {
		seq[i] = glyph.Info{GID: g, Text: []rune{rune('a' + i)}}
		if gpos && g != gen.GM && g != gen.GN {
			seq[i].Advance = funit.Int16(100 * int(g))
		}
	}
	return seq
}

func fmtInfos(seq []glyph.Info) string {
	s := ""
	for _, g := range seq {
		name := fmt.Sprintf("<%d>", g.GID)
		if int(g.GID) < len(gen.GlyphNames) {
			name = gen.GlyphNames[g.GID]
		}
		s += fmt.Sprintf("%s%q", name, string(g.Text))
		if g.XOffset != 0 || g.YOffset != 0 {
			s += fmt.Sprintf("@(%d,%d)", g.XOffset, g.YOffset)
		}
		s += fmt.Sprintf("+%d ", g.Advance)
	}
	return s
}

func infosEqual(a, b []glyph.Info) bool {
	if len(a) != len(b) {
		return false
	}
	for i := range a {
		if a[i].GID != b[i].GID || string(a[i].Text) != string(b[i].Text) || a[i].XOffset != b[i].XOffset || a[i].YOffset != b[i].YOffset || a[i].Advance != b[i].Advance {
			return false
		}
	}
	return true
}

// compareShaping runs library and reference on every sequence; returns
// counters.  sigBase identifies the lookup configuration class.
func compareShaping(c *explore.Ctx, ll gtab.LookupList, gd *gdef.Table, applied []gtab.LookupIndex, gpos bool, alphabet []glyph.ID, maxLen int, sigBase string, desc any) {
	var compared, undefined, matched int64
	failed := false
	gen.Sequences(alphabet, maxLen, func(gids []glyph.ID) bool {
		ref := &refshape.Shaper{LL: ll, Gdef: gd}
		want := ref.Apply(applied, mkSeq(gids, gpos))
		if len(ref.Undefined) > 0 {
			undefined++
			return true
		}
		got := gtab.NewContext(ll, gd, applied).Apply(mkSeq(gids, gpos))
		compared++
		if ref.Matched > 0 {
			matched++
		}
		if !infosEqual(got, want) {
			c.Fail("C06.apply", sigBase, "input %s: library gives [%s], reference model gives [%s]; lookups %v", gen.SeqName(gids), fmtInfos(got), fmtInfos(want), desc)
			failed = true
			return false
		}
		return true
	})
	c.Count("compared", compared)
	c.Count("compared_with_a_rule_matching", matched)
	c.Count("undefined_by_spec_not_compared", undefined)
	if matched > 0 && !failed {
		c.Nontrivial()
	}
	c.Outcome(fmt.Sprint(desc), compared, matched)
}

func c06Simple(r *run.Run, maxLen int) {
	alphabet := []glyph.ID{gen.GA, gen.GB, gen.GM, gen.GN, gen.GL}
	r.Explore(explore.Config{Name: "C06.simple", Deadline: r.PartDeadline(0.4)},
		"every simple lookup of the GSUB and GPOS menus x every flag combination x 4 GDEF variants, optionally followed by a second lookup, on all glyph sequences up to the length bound over {A,B,M,N,L}",
		func(c *explore.Ctx) {
			gpos := c.Bool("gpos")
			menu := gen.GsubSimple
			if gpos {
				menu = gen.GposSimple
			}
			k := c.Choose(len(menu), "lookup")
			f := gen.Flags[c.Choose(len(gen.Flags), "flags")]
			gd, gdn := gen.Gdef(c.Choose(4, "gdef"))
			ll := gtab.LookupList{gen.MakeLookup(menu[k].Type, f, menu[k].Sub())}
			applied := []gtab.LookupIndex{0}
			desc := []string{menu[k].Name + " " + f.Name, "gdef:" + gdn}
			if k2 := c.Choose(len(menu)+1, "second lookup"); k2 > 0 {
				ll = append(ll, gen.MakeLookup(menu[k2-1].Type, gen.Flags[0], menu[k2-1].Sub()))
				if c.Bool("second first") {
					applied = []gtab.LookupIndex{1, 0}
				} else {
					applied = []gtab.LookupIndex{0, 1}
				}
				desc = append(desc, menu[k2-1].Name, fmt.Sprint("order ", applied))
			}
			c.Sample(func() any { return desc })
			compareShaping(c, ll, gd, applied, gpos, alphabet, maxLen, "simple: "+menu[k].Name, desc)
		})
}

func c06Nested(r *run.Run, maxLen, bound int) {
	alphabet := []glyph.ID{gen.GA, gen.GB, gen.GM, gen.GL}
	for _, gpos := range []bool{false, true} {
		name := "C06.nested-gsub"
		if gpos {
			name = "C06.nested-gpos"
		}
		share := 0.65
		if gpos {
			share = 0.95
		}
		r.Explore(explore.Config{Name: name, Bound: bound, Deadline: r.PartDeadline(share)},
			"nested lookup lists [context parent, child 0, child 1 (simple or itself contextual), grandchild, optional second top-level lookup]: parent form (6) x pattern (7) x flags x action list (9) x children x child flags x GDEF, all lists within the deviation bound of a deliberately rich default, on all glyph sequences up to the length bound over {A,B,M,L}",
			func(c *explore.Ctx) {
				ll, gd, spec := gen.Nested(c, gpos)
				c.Sample(func() any { return spec })
				compareShaping(c, ll, gd, spec.Applied, gpos, alphabet, maxLen, "nested: "+spec.Sig, spec)
			})
	}
}

// c06NestedFlags: the full product of parent flags x child flags (incl. equal flag words with
// different mark filtering sets, and filtering set + attachment type), which the deviation-bounded
// lists above only touch one flag at a time.
func c06NestedFlags(r *run.Run, maxLen int) {
	alphabet := []glyph.ID{gen.GA, gen.GB, gen.GM, gen.GN, gen.GL}
	children := map[bool][]int{false: {5, 1, 2, 7}, true: {0, 2, 4}}
	pats := []int{0, 1, 5}
	actionSets := []int{3, 4, 1}
	r.Explore(explore.Config{Name: "C06.nested-flags", Deadline: r.PartDeadline(0.4)},
		fmt.Sprintf("nested lists [context parent, child, second child]: ALL pairs of parent flags x child flags from the full 11-entry flag menu (ignore marks/ligatures/bases, both mark filtering sets, both attachment types, filtering set + attachment type) x parent form (6) x 3 patterns x 3 action lists x 4 GSUB / 3 GPOS children, GDEF with classes, attachment classes and two mark sets, on all glyph sequences of length <= %d over {A,B,M,N,L}", maxLen),
		func(c *explore.Ctx) {
			gpos := c.Bool("gpos")
			menu, ctxType, chainType := gen.GsubSimple, uint16(5), uint16(6)
			if gpos {
				menu, ctxType, chainType = gen.GposSimple, 7, 8
			}
			form := c.Choose(6, "parent form")
			pf := gen.Flags[c.Choose(len(gen.Flags), "parent flags")]
			cf := gen.Flags[c.Choose(len(gen.Flags), "child flags")]
			child := menu[children[gpos][c.Choose(len(children[gpos]), "child")]]
			pat := gen.Patterns[pats[c.Choose(len(pats), "pattern")]]
			acts := gen.ActionSets[actionSets[c.Choose(len(actionSets), "actions")]]
			var actions []gtab.SeqLookup
			for _, a := range acts {
				actions = append(actions, gtab.SeqLookup{SequenceIndex: uint16(a[0]), LookupListIndex: gtab.LookupIndex(1 + a[1])})
			}
			t := ctxType
			if form >= 3 {
				t = chainType
			}
			other := menu[1]
			ll := gtab.LookupList{
				gen.MakeLookup(t, pf, []gtab.Subtable{gen.Context(form, pat, actions)}),
				gen.MakeLookup(child.Type, cf, child.Sub()),
				gen.MakeLookup(other.Type, cf, other.Sub()),
			}
			gd, _ := gen.Gdef(0)
			desc := []string{fmt.Sprintf("0: %s %s [%s] actions %v", gen.ContextForms[form], pf.Name, pat.Name, acts), "1: " + child.Name + " " + cf.Name, "2: " + other.Name + " " + cf.Name, "gdef: classes+attach+marksets"}
			c.Sample(func() any { return desc })
			compareShaping(c, ll, gd, []gtab.LookupIndex{0}, gpos, alphabet, maxLen, "nested flags: "+gen.ContextForms[form]+" / "+child.Name, desc)
		})
}

// c06Subtables: lookups with two subtables ("the first subtable that matches at a position"): all
// ordered pairs of menu entries of the same lookup type, incl. subtables that match without changing
// anything (a class pair with an empty record shadows a later subtable).
func c06Subtables(r *run.Run, maxLen int) {
	alphabet := []glyph.ID{gen.GA, gen.GB, gen.GM, gen.GN, gen.GL}
	flags := []int{0, 1, 4, 9}
	r.Explore(explore.Config{Name: "C06.subtables", Deadline: r.PartDeadline(0.2)},
		fmt.Sprintf("lookups with two or three subtables: all ordered pairs (and the pair followed by the first again) of menu entries of one lookup type (GSUB 1-4, GPOS 1, 2, 4) x 4 flag sets x 2 GDEF variants, on all glyph sequences of length <= %d over {A,B,M,N,L}: the first subtable that matches at a position is applied, no other", maxLen),
		func(c *explore.Ctx) {
			gpos := c.Bool("gpos")
			menu := gen.GsubSimple
			if gpos {
				menu = gen.GposSimple
			}
			a := c.Choose(len(menu), "first subtable")
			b := c.Choose(len(menu), "second subtable")
			if menu[a].Type != menu[b].Type || menu[a].Type == 8 {
				c.Skip("different lookup types")
			}
			third := c.Bool("third subtable")
			f := gen.Flags[flags[c.Choose(len(flags), "flags")]]
			gd, gdn := gen.Gdef(c.Choose(2, "gdef"))
			subs := append(append([]gtab.Subtable{}, menu[a].Sub()...), menu[b].Sub()...)
			desc := []string{menu[a].Name + " || " + menu[b].Name + " " + f.Name, "gdef:" + gdn}
			if third {
				subs = append(subs, menu[(a+1)%len(menu)].Sub()...)
				if menu[(a+1)%len(menu)].Type != menu[a].Type {
					c.Skip("third subtable of a different type")
				}
				desc[0] = menu[a].Name + " || " + menu[b].Name + " || " + menu[(a+1)%len(menu)].Name + " " + f.Name
			}
			ll := gtab.LookupList{gen.MakeLookup(menu[a].Type, f, subs)}
			c.Sample(func() any { return desc })
			compareShaping(c, ll, gd, []gtab.LookupIndex{0}, gpos, alphabet, maxLen, "subtables: "+menu[a].Name, desc)
		})
}

// c06NestedContext: a contextual parent runs a chained contextual child whose backtrack / lookahead
// context lies outside the parent's match (the input of a nested lookup is confined to the parent's
// match, its context is the whole sequence), which in turn runs a simple lookup.
func c06NestedContext(r *run.Run, maxLen int) {
	alphabet := []glyph.ID{gen.GA, gen.GB, gen.GM}
	parentPats := []int{2, 0, 1}   // A, AA, ABA
	childPats := []int{3, 4, 5, 0} // B|AA, AA|B, B|AB|A, AA
	r.Explore(explore.Config{Name: "C06.nested-context", Deadline: r.PartDeadline(0.2)},
		fmt.Sprintf("lists [context parent -> chained context child at index 0 or 1 -> single substitution / ligature]: parent form (6) x parent pattern {A, AA, ABA} x child form (chained 1-3) x child pattern {B|AA, AA|B, B|AB|A, AA} (backtrack and lookahead reaching outside the parent's match) x child flags {none, ignore marks} x GSUB / GPOS, on all glyph sequences of length <= %d over {A,B,M}", maxLen),
		func(c *explore.Ctx) {
			gpos := c.Bool("gpos")
			menu, ctxType, chainType := gen.GsubSimple, uint16(5), uint16(6)
			leaf := 0
			if gpos {
				menu, ctxType, chainType = gen.GposSimple, 7, 8
				leaf = 1
			}
			pform := c.Choose(6, "parent form")
			ppat := gen.Patterns[parentPats[c.Choose(len(parentPats), "parent pattern")]]
			at := c.Choose(2, "child at sequence index")
			cform := 3 + c.Choose(3, "child form")
			cpat := gen.Patterns[childPats[c.Choose(len(childPats), "child pattern")]]
			cf := gen.Flags[c.Choose(2, "child flags")]
			pt := ctxType
			if pform >= 3 {
				pt = chainType
			}
			ll := gtab.LookupList{
				gen.MakeLookup(pt, gen.Flags[0], []gtab.Subtable{gen.Context(pform, ppat, []gtab.SeqLookup{{SequenceIndex: uint16(at), LookupListIndex: 1}})}),
				gen.MakeLookup(chainType, cf, []gtab.Subtable{gen.Context(cform, cpat, []gtab.SeqLookup{{SequenceIndex: 0, LookupListIndex: 2}})}),
				gen.MakeLookup(menu[leaf].Type, gen.Flags[0], menu[leaf].Sub()),
			}
			gd, _ := gen.Gdef(0)
			desc := []string{fmt.Sprintf("0: %s [%s] 1@%d", gen.ContextForms[pform], ppat.Name, at), fmt.Sprintf("1: %s %s [%s] 2@0", gen.ContextForms[cform], cf.Name, cpat.Name), "2: " + menu[leaf].Name}
			c.Sample(func() any { return desc })
			compareShaping(c, ll, gd, []gtab.LookupIndex{0}, gpos, alphabet, maxLen, "nested context: "+gen.ContextForms[cform]+" under "+gen.ContextForms[pform], desc)
		})
}

// c06ThreeLevels: a context rule runs a context rule that runs a substitution: the innermost lookup works
// inside the match of the middle one, which lies inside the match of the outer one - also when the middle
// lookup ignores glyphs that the outer one does not.
func c06ThreeLevels(r *run.Run, maxLen int) {
	alphabet := []glyph.ID{gen.GA, gen.GB, gen.GM, gen.GC}
	outerPats := []gen.Pattern{{Name: "AB", Input: []glyph.ID{gen.GA, gen.GB}}, {Name: "ABM", Input: []glyph.ID{gen.GA, gen.GB, gen.GM}}, gen.Patterns[2]}
	middlePats := []gen.Pattern{{Name: "B", Input: []glyph.ID{gen.GB}}, {Name: "AB", Input: []glyph.ID{gen.GA, gen.GB}}, gen.Patterns[2]}
	leaves := []struct {
		name string
		st   gtab.Subtable
	}{
		{"GSUB4 B M -> X", &gtab.Gsub4_1{Cov: coverage.Table{gen.GB: 0}, Repl: [][]gtab.Ligature{{{In: []glyph.ID{gen.GM}, Out: gen.GX}}}}},
		{"GSUB4 A B -> L", &gtab.Gsub4_1{Cov: coverage.Table{gen.GA: 0}, Repl: [][]gtab.Ligature{{{In: []glyph.ID{gen.GB}, Out: gen.GL}}}}},
		{"GSUB1 B -> Y, M -> N", &gtab.Gsub1_2{Cov: coverage.Table{gen.GB: 0, gen.GM: 1}, SubstituteGlyphIDs: []glyph.ID{gen.GY, gen.GN}}},
	}
	r.Explore(explore.Config{Name: "C06.three-levels", Deadline: r.PartDeadline(0.2)},
		fmt.Sprintf("lists [context rule -> context rule -> ligature / single substitution]: outer form (6) x outer pattern {AB, ABM, A} x position of the middle lookup x middle form (6) x middle pattern {B, AB, A} x middle flags {none, ignore marks} x position of the innermost lookup x 3 innermost lookups, on all glyph sequences of length <= %d over {A,B,M,C}", maxLen),
		func(c *explore.Ctx) {
			oform := c.Choose(6, "outer form")
			opat := outerPats[c.Choose(len(outerPats), "outer pattern")]
			at1 := c.Choose(2, "middle lookup at sequence index")
			mform := c.Choose(6, "middle form")
			mpat := middlePats[c.Choose(len(middlePats), "middle pattern")]
			mf := gen.Flags[c.Choose(2, "middle flags")]
			at2 := c.Choose(2, "innermost lookup at sequence index")
			leaf := leaves[c.Choose(len(leaves), "innermost lookup")]
			typ := func(form int) uint16 {
				if form >= 3 {
					return 6
				}
				return 5
			}
			lt := uint16(4)
			if _, ok := leaf.st.(*gtab.Gsub1_2); ok {
				lt = 1
			}
			ll := gtab.LookupList{
				gen.MakeLookup(typ(oform), gen.Flags[0], []gtab.Subtable{gen.Context(oform, opat, []gtab.SeqLookup{{SequenceIndex: uint16(at1), LookupListIndex: 1}})}),
				gen.MakeLookup(typ(mform), mf, []gtab.Subtable{gen.Context(mform, mpat, []gtab.SeqLookup{{SequenceIndex: uint16(at2), LookupListIndex: 2}})}),
				gen.MakeLookup(lt, gen.Flags[0], []gtab.Subtable{leaf.st}),
			}
			gd, _ := gen.Gdef(0)
			desc := []string{fmt.Sprintf("0: %s [%s] 1@%d", gen.ContextForms[oform], opat.Name, at1), fmt.Sprintf("1: %s %s [%s] 2@%d", gen.ContextForms[mform], mf.Name, mpat.Name, at2), "2: " + leaf.name}
			c.Sample(func() any { return desc })
			compareShaping(c, ll, gd, []gtab.LookupIndex{0}, false, alphabet, maxLen, "three levels: "+gen.ContextForms[mform]+" under "+gen.ContextForms[oform], desc)
		})
}

// c06RuleSets: two rules in one rule set of a glyph-based (format 1) context or chained context subtable: the
// first rule that matches is used, and what an earlier rule matched before it failed leaves no trace.
func c06RuleSets(r *run.Run, maxLen int) {
	alphabet := []glyph.ID{gen.GA, gen.GB, gen.GC, gen.GL}
	tails := [][]glyph.ID{{gen.GB}, {gen.GB, gen.GC}, {gen.GB, gen.GL}, {gen.GC}}
	r.Explore(explore.Config{Name: "C06.rule-sets", Deadline: r.PartDeadline(0.2)},
		fmt.Sprintf("context and chained context subtables in format 1 whose rule set for A holds two rules, inputs A+{B, BC, BL, C} each, every action position 0..2 (also beyond the rule's input), the first rule of a chained set with or without a lookahead glyph, nested lookup B->Y C->X L->N A->M: on all glyph sequences of length <= %d over {A,B,C,L}", maxLen),
		func(c *explore.Ctx) {
			chained := c.Bool("chained")
			t1 := tails[c.Choose(len(tails), "first rule")]
			a1 := c.Choose(3, "action position of the first rule")
			t2 := tails[c.Choose(len(tails), "second rule")]
			a2 := c.Choose(3, "action position of the second rule")
			child := gen.MakeLookup(1, gen.Flags[0], []gtab.Subtable{&gtab.Gsub1_2{Cov: coverage.Table{gen.GA: 0, gen.GB: 1, gen.GC: 2, gen.GL: 3}, SubstituteGlyphIDs: []glyph.ID{gen.GM, gen.GY, gen.GX, gen.GN}}})
			act := func(i int) []gtab.SeqLookup { return []gtab.SeqLookup{{SequenceIndex: uint16(i), LookupListIndex: 1}} }
			var parent *gtab.LookupTable
			desc := fmt.Sprintf("rules A%s -> 1@%d, A%s -> 1@%d", gen.SeqName(t1), a1, gen.SeqName(t2), a2)
			if chained {
				var la []glyph.ID
				if c.Bool("the first rule has a lookahead glyph") {
					la = []glyph.ID{gen.GC}
					desc += ", first rule followed by C"
				}
				parent = gen.MakeLookup(6, gen.Flags[0], []gtab.Subtable{&gtab.ChainedSeqContext1{Cov: coverage.Table{gen.GA: 0}, Rules: [][]*gtab.ChainedSeqRule{{
					{Input: t1, Lookahead: la, Actions: act(a1)}, {Input: t2, Actions: act(a2)}}}}})
				desc = "chained context fmt1, " + desc
			} else {
				parent = gen.MakeLookup(5, gen.Flags[0], []gtab.Subtable{&gtab.SeqContext1{Cov: coverage.Table{gen.GA: 0}, Rules: [][]*gtab.SeqRule{{
					{Input: t1, Actions: act(a1)}, {Input: t2, Actions: act(a2)}}}}})
				desc = "context fmt1, " + desc
			}
			c.Sample(func() any { return desc })
			compareShaping(c, gtab.LookupList{parent, child}, nil, []gtab.LookupIndex{0}, false, alphabet, maxLen, "rule sets", desc)
		})
}

// c06ExceptionSubtables: a contextual lookup whose first subtable matches without doing anything (no nested
// lookups: the way exceptions are written) in front of a subtable that does something: the first subtable
// that matches at a position ends the search there, whether or not it has actions.
func c06ExceptionSubtables(r *run.Run, maxLen int) {
	alphabet := []glyph.ID{gen.GA, gen.GB, gen.GM}
	r.Explore(explore.Config{Name: "C06.exception-subtables", Deadline: r.PartDeadline(0.2)},
		fmt.Sprintf("contextual lookups with two subtables of the same type, the first one without nested lookups: 3 x 3 forms (context or chained context) x %d x %d patterns, nested single substitution, on all glyph sequences of length <= %d over {A,B,M}", len(gen.Patterns), len(gen.Patterns), maxLen),
		func(c *explore.Ctx) {
			chained := c.Bool("chained")
			base, typ := 0, uint16(5)
			if chained {
				base, typ = 3, 6
			}
			f1 := base + c.Choose(3, "form of the first subtable")
			p1 := gen.Patterns[c.Choose(len(gen.Patterns), "pattern of the first subtable")]
			f2 := base + c.Choose(3, "form of the second subtable")
			p2 := gen.Patterns[c.Choose(len(gen.Patterns), "pattern of the second subtable")]
			ll := gtab.LookupList{
				gen.MakeLookup(typ, gen.Flags[0], []gtab.Subtable{gen.Context(f1, p1, nil), gen.Context(f2, p2, []gtab.SeqLookup{{SequenceIndex: 0, LookupListIndex: 1}})}),
				gen.MakeLookup(gen.GsubSimple[0].Type, gen.Flags[0], gen.GsubSimple[0].Sub()),
			}
			desc := fmt.Sprintf("%s [%s] without actions || %s [%s] 1@0; 1: %s", gen.ContextForms[f1], p1.Name, gen.ContextForms[f2], p2.Name, gen.GsubSimple[0].Name)
			c.Sample(func() any { return desc })
			compareShaping(c, ll, nil, []gtab.LookupIndex{0}, false, alphabet, maxLen, "exception subtables", desc)
		})
}

// c06NestedLigature: a nested ligature / multiple substitution that skips marks the parent matched as
// ordinary input glyphs, followed (or preceded) by a second action at every sequence index: the
// positions the parent recorded for its input glyphs have to be renumbered after glyphs were merged or
// inserted, also for an unmerged glyph lying between ligature components.
func c06NestedLigature(r *run.Run, maxLen int) {
	alphabet := []glyph.ID{gen.GA, gen.GM}
	var pats []gen.Pattern
	for n := 3; n <= 5; n++ {
		for bits := 0; bits < 1<<(n-1); bits++ {
			in := []glyph.ID{gen.GA}
			name := "A"
			for i := 0; i < n-1; i++ {
				if bits>>i&1 != 0 {
					in = append(in, gen.GM)
					name += "M"
				} else {
					in = append(in, gen.GA)
					name += "A"
				}
			}
			pats = append(pats, gen.Pattern{Name: name, Input: in})
		}
	}
	children := []int{5, 7, 2, 3} // AAA->X AA->Y AB->L; AM->X A->Y; A->AM B->XYA; A->AA
	r.Explore(explore.Config{Name: "C06.nested-ligature", Deadline: r.PartDeadline(0.2)},
		fmt.Sprintf("lists [context parent without flags, ligature or multiple-substitution child, single-substitution child mapping every glyph]: all %d parent patterns A{A,M}^2..4 x context format 1-3 x 4 children x child flags {none, ignore marks} x the child's action at sequence index 0/1 x the second action at every sequence index 0..4, before or after it, on all glyph sequences of length <= %d over {A,M}", len(pats), maxLen),
		func(c *explore.Ctx) {
			pat := pats[c.Choose(len(pats), "parent pattern")]
			form := c.Choose(3, "parent form")
			child := gen.GsubSimple[children[c.Choose(len(children), "child")]]
			cf := gen.Flags[c.Choose(2, "child flags")]
			at := c.Choose(2, "child at sequence index")
			at2 := c.Choose(5, "second action at sequence index")
			if at2 >= len(pat.Input) {
				c.Skip("sequence index outside the pattern")
			}
			actions := []gtab.SeqLookup{{SequenceIndex: uint16(at), LookupListIndex: 1}, {SequenceIndex: uint16(at2), LookupListIndex: 2}}
			if c.Bool("second action first") {
				actions[0], actions[1] = actions[1], actions[0]
			}
			other := gen.GsubSimple[1]
			ll := gtab.LookupList{
				gen.MakeLookup(5, gen.Flags[0], []gtab.Subtable{gen.Context(form, pat, actions)}),
				gen.MakeLookup(child.Type, cf, child.Sub()),
				gen.MakeLookup(other.Type, gen.Flags[0], other.Sub()),
			}
			gd, _ := gen.Gdef(0)
			desc := []string{fmt.Sprintf("0: %s [%s] actions %v", gen.ContextForms[form], pat.Name, actions), "1: " + child.Name + " " + cf.Name, "2: " + other.Name}
			c.Sample(func() any { return desc })
			compareShaping(c, ll, gd, []gtab.LookupIndex{0}, false, alphabet, maxLen, "nested ligature: "+gen.ContextForms[form]+" / "+child.Name, desc)
		})
}

// c06FlagPairs: two top-level lookups applied one after the other, all pairs of lookup flags (incl. equal
// flag words with different mark filtering sets): each lookup runs under its own flags.
func c06FlagPairs(r *run.Run, maxLen int) {
	alphabet := []glyph.ID{gen.GA, gen.GB, gen.GM, gen.GN, gen.GL}
	lookups := map[bool][]int{false: {5, 7}, true: {2, 4}}
	r.Explore(explore.Config{Name: "C06.flag-pairs", Deadline: r.PartDeadline(0.2)},
		fmt.Sprintf("lists of two simple lookups applied in order: ALL pairs of lookup flags from the %d-entry flag menu x 2 x 2 lookups (GSUB ligatures / GPOS pair and mark attachment), GDEF with classes, attachment classes and two mark sets, on all glyph sequences of length <= %d over {A,B,M,N,L}", len(gen.Flags), maxLen),
		func(c *explore.Ctx) {
			gpos := c.Bool("gpos")
			menu := gen.GsubSimple
			if gpos {
				menu = gen.GposSimple
			}
			f1 := gen.Flags[c.Choose(len(gen.Flags), "flags of the first lookup")]
			f2 := gen.Flags[c.Choose(len(gen.Flags), "flags of the second lookup")]
			l1 := menu[lookups[gpos][c.Choose(2, "first lookup")]]
			l2 := menu[lookups[gpos][c.Choose(2, "second lookup")]]
			ll := gtab.LookupList{gen.MakeLookup(l1.Type, f1, l1.Sub()), gen.MakeLookup(l2.Type, f2, l2.Sub())}
			gd, _ := gen.Gdef(0)
			desc := []string{"0: " + l1.Name + " " + f1.Name, "1: " + l2.Name + " " + f2.Name}
			c.Sample(func() any { return desc })
			compareShaping(c, ll, gd, []gtab.LookupIndex{0, 1}, gpos, alphabet, maxLen, "flag pairs: "+l1.Name, desc)
		})
}

// c06AnchorOrigin: GPOS tables as a file holds them, in which an anchor that is present has the coordinates
// (0,0), x = 0 or y = 0.  The expected offsets do not come from a structure with that anchor (in the library's
// structures an anchor at the origin stands for "no anchor", and the reference shaper follows the
// structures): they are extrapolated from two runs of the reference with the anchor shifted by (1,1) and
// by (2,2) - the attachment offset is linear in the anchor.
func c06AnchorOrigin(r *run.Run) {
	alphabet := []glyph.ID{gen.GA, gen.GM, gen.GN}
	coords := [][2]int16{{0, 0}, {0, 5}, {5, 0}, {-3, 4}}
	const mx, my = 0x7A7B, 0x7C7D // marker coordinates, replaced in the encoded table
	mkList := func(typ int, x, y funit.Int16) gtab.LookupList {
		if typ == 4 {
			return gtab.LookupList{gen.MakeLookup(4, gen.Flags[0], []gtab.Subtable{&gtab.Gpos4_1{
				MarkCov: coverage.Table{gen.GM: 0, gen.GN: 1}, BaseCov: coverage.Table{gen.GA: 0},
				MarkArray: []markarray.Record{{Class: 0, Table: anchor.Table{X: 10, Y: 20}}, {Class: 1, Table: anchor.Table{X: 0, Y: 0}}},
				BaseArray: [][]anchor.Table{{{X: x, Y: y}, {X: 260, Y: -50}}}}})}
		}
		return gtab.LookupList{gen.MakeLookup(6, gen.Flags[0], []gtab.Subtable{&gtab.Gpos6_1{
			Mark1Cov: coverage.Table{gen.GN: 0}, Mark2Cov: coverage.Table{gen.GM: 0},
			Mark1Array: []markarray.Record{{Class: 0, Table: anchor.Table{X: 7, Y: -2}}},
			Mark2Array: [][]anchor.Table{{{X: x, Y: y}}}}})}
	}
	r.Explore(explore.Config{Name: "C06.anchor-origin"},
		"mark-to-base and mark-to-mark tables as stored in a file whose base / second-mark anchor is present with the coordinates (0,0), (0,5), (5,0) or (-3,4) (written into the encoded bytes), applied to all sequences of <= 3 glyphs over {A, M, N}: the offsets are those of the reference shaper, extrapolated from two runs with the anchor moved by (1,1) and (2,2)",
		func(c *explore.Ctx) {
			typ := 4 + 2*c.Choose(2, "lookup type")
			xy := coords[c.Choose(len(coords), "anchor")]
			gd, _ := gen.Gdef(1)
			enc := (&gtab.Info{ScriptList: gtab.ScriptListInfo{language.MustParse("und-Zzzz-x-dflt"): {Required: 0xFFFF, Optional: []gtab.FeatureIndex{0}}},
				FeatureList: []*gtab.Feature{{Tag: "mark", Lookups: []gtab.LookupIndex{0}}}, LookupList: mkList(typ, mx, my)}).Encode()
			marker := []byte{0, 1, mx >> 8, mx & 0xFF, my >> 8, my & 0xFF}
			at := bytes.Index(enc, marker)
			if at < 0 || bytes.Count(enc, marker) != 1 {
				explore.Fatal("C06.anchor-origin: the marker anchor occurs %d times in the encoded table", bytes.Count(enc, marker))
			}
			enc = append([]byte{}, enc...)
			copy(enc[at+2:], []byte{byte(uint16(xy[0]) >> 8), byte(xy[0]), byte(uint16(xy[1]) >> 8), byte(xy[1])})
			info, err := gtab.Read(bytes.NewReader(enc), gtab.TypeGpos)
			if err != nil || len(info.LookupList) != 1 {
				c.Fail("C06.apply", "anchor at the origin: read", "a GPOS%d table with an anchor at (%d,%d) is not read: %v", typ, xy[0], xy[1], err)
				return
			}
			desc := fmt.Sprintf("GPOS%d, anchor (%d,%d) present in the file", typ, xy[0], xy[1])
			c.Sample(func() any { return desc })
			c.Outcome(desc)
			l1 := mkList(typ, funit.Int16(xy[0]+1), funit.Int16(xy[1]+1))
			l2 := mkList(typ, funit.Int16(xy[0]+2), funit.Int16(xy[1]+2))
			matched := false
			gen.Sequences(alphabet, 3, func(gids []glyph.ID) bool {
				r1 := &refshape.Shaper{LL: l1, Gdef: gd}
				w1 := r1.Apply([]gtab.LookupIndex{0}, mkSeq(gids, true))
				r2 := &refshape.Shaper{LL: l2, Gdef: gd}
				w2 := r2.Apply([]gtab.LookupIndex{0}, mkSeq(gids, true))
				if len(r1.Undefined) > 0 || len(r2.Undefined) > 0 || len(w1) != len(w2) {
					return true
				}
				want := append([]glyph.Info{}, w1...)
				for i := range want {
					want[i].XOffset = 2*w1[i].XOffset - w2[i].XOffset
					want[i].YOffset = 2*w1[i].YOffset - w2[i].YOffset
					matched = matched || w1[i].XOffset != w2[i].XOffset
				}
				got := gtab.NewContext(info.LookupList, gd, []gtab.LookupIndex{0}).Apply(mkSeq(gids, true))
				if !infosEqual(got, want) {
					sig := "explicit anchor with a zero coordinate"
					if xy[0] == 0 && xy[1] == 0 {
						sig = "explicit anchor at the origin"
					}
					c.Fail("C06.apply", sig, "input %s: library gives [%s], the rules give [%s]; %s", gen.SeqName(gids), fmtInfos(got), fmtInfos(want), desc)
					return false
				}
				return true
			})
			if matched {
				c.Nontrivial()
			}
		})
}

func init() {
	Register("C06", func(r *run.Run) {
		r.Rule = "lookup lists from the shared generator x ALL input sequences up to a length bound; library result compared with the token-list reference shaper; cases the specification + testcases sections 1-3 do not define are counted, not compared; non-trivial = lookup lists for which at least one compared sequence had a matching rule"
		r.Assume = []string{
			"reference shaper reproduces all pinned cases of testcases sections 1-3 (self-test at the start of every run)",
			"undefined region: nested replacement of a glyph the parent ignored with actions pending (section 4), nested look-ahead beyond the parent match, GSUB 8 with overlapping contexts, mark attachment with pre-existing offsets or ambiguous base search, > 60 nested actions",
		}
		n, _, err := refshape.SelfTest()
		if err != nil || n < 40 {
			explore.Fatal("reference shaper self-test failed (%d cases): %v", n, err)
		}
		r.Note("reference shaper self-test: %d pinned cases of testcases sections 1-3 reproduced", n)
		maxLen, bound := 5, 3
		if !r.Quick() {
			maxLen, bound = 6, 4
		}
		// cheap parts first; the deviation-bounded nested lists are the largest and take what remains
		c06AnchorOrigin(r)
		c06Subtables(r, maxLen-1)
		c06NestedContext(r, maxLen)
		c06ThreeLevels(r, maxLen-1)
		c06RuleSets(r, maxLen-1)
		c06ExceptionSubtables(r, maxLen-1)
		c06NestedLigature(r, maxLen+1)
		c06FlagPairs(r, maxLen-1)
		c06Simple(r, maxLen-1)
		c06NestedFlags(r, maxLen-1)
		c06Nested(r, maxLen, bound)
		r.MinNontrivial = 100
	})
}
