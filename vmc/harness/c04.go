package harness

import (
	"bytes"
	"fmt"
	"math"

	"seehuhn.de/go/postscript/funit"
	"seehuhn.de/go/postscript/type1"
	"seehuhn.de/go/sfnt/cff"
	"seehuhn.de/go/sfnt/glyph"

	"verif/explore"
	"verif/refcff"
	"verif/reft2"
	"verif/run"
)

// C04: compiling glyphs to Type 2 charstrings preserves outline, hints and width.

func c04Font(glyphs []*cff.Glyph) *cff.Font {
	return &cff.Font{
		FontInfo: &type1.FontInfo{FontName: "Verif", FontMatrix: [6]float64{0.001, 0, 0, 0.001, 0, 0}},
		Outlines: &cff.Outlines{
			Glyphs:   glyphs,
			Private:  []*type1.PrivateDict{{BlueValues: []funit.Int16{-10, 0, 700, 710}, BlueScale: 0.039625, BlueShift: 7, BlueFuzz: 1}},
			FDSelect: func(glyph.ID) int { return 0 },
		},
	}
}

// c04Check writes the font, extracts the charstrings with the independent
// CFF reader and executes them with the strict reference interpreter.
func c04Check(c *explore.Ctx, sig string, glyphs []*cff.Glyph, desc any) {
	f := c04Font(glyphs)
	buf := &bytes.Buffer{}
	if err := f.Write(buf); err != nil {
		c.Fail("C04.write", sig, "Font.Write failed: %v; %v", err, desc)
		return
	}
	c.Outcome(buf.Bytes())
	rf, err := refcff.Parse(buf.Bytes())
	if err != nil {
		c.Fail("C04.cff", sig, "independent CFF reader cannot walk the output: %v; %v", err, desc)
		return
	}
	if len(rf.CharStrings) != len(glyphs) || len(rf.Privates) != 1 {
		c.Fail("C04.cff", sig, "%d charstrings / %d private dicts for %d glyphs", len(rf.CharStrings), len(rf.Privates), len(glyphs))
		return
	}
	env := &reft2.Env{GlobalSubrs: rf.GlobalSubrs, LocalSubrs: rf.Privates[0].LocalSubrs, DefaultWidthX: rf.Privates[0].DefaultWidthX, NominalWidthX: rf.Privates[0].NominalWidthX}
	for gi, g := range glyphs {
		ref, err := reft2.Interpret(rf.CharStrings[gi], env)
		if err != nil {
			cls := "ill-formed charstring"
			c.Fail("C04.wellformed", sig+" / "+cls, "glyph %d: the emitted charstring is not well formed under TN5177: %v; glyph %v; charstring % x", gi, err, g, rf.CharStrings[gi])
			return
		}
		if ref.MaxStack > 48 {
			c.Fail("C04.stack", sig, "glyph %d: the emitted charstring needs %d operand stack entries; %v", gi, ref.MaxStack, desc)
		}
		if math.Abs(ref.Width-g.Width) > 1.0/65536+1e-12 {
			c.Fail("C04.width", sig+" / width", "glyph %d: width %v comes out as %v (defaultWidthX %v, nominalWidthX %v, explicit=%v); widths %v", gi, g.Width, ref.Width, env.DefaultWidthX, env.NominalWidthX, ref.HasWidth, widthsOf(glyphs))
		}
		cmpS := func(what string, a, b []float64) {
			ok := len(a) == len(b)
			for i := 0; ok && i < len(a); i++ {
				ok = math.Abs(a[i]-b[i]) <= 1.0/65536+1e-12
			}
			if !ok {
				c.Fail("C04.stems", sig+" / "+what, "glyph %d: %s %v come out as %v", gi, what, a, b)
			}
		}
		cmpS("hstems", g.HStem, ref.HStem)
		cmpS("vstems", g.VStem, ref.VStem)
		if len(ref.Ops) != len(g.Cmds) {
			c.Fail("C04.path", sig, "glyph %d: %d commands come out as %d: %v vs %s; %v", gi, len(g.Cmds), len(ref.Ops), g.Cmds, fmtOps(ref.Ops), desc)
			return
		}
		for i, cmd := range g.Cmds {
			o := ref.Ops[i]
			kind := map[cff.GlyphOpType]byte{cff.OpMoveTo: 'M', cff.OpLineTo: 'L', cff.OpCurveTo: 'C', cff.OpHintMask: 'H', cff.OpCntrMask: 'K'}[cmd.Op]
			ok := kind == o.Kind
			if ok && (kind == 'H' || kind == 'K') {
				ok = len(cmd.Args) == len(o.Mask)
				for k := 0; ok && k < len(o.Mask); k++ {
					ok = cmd.Args[k] == float64(o.Mask[k])
				}
			} else if ok {
				ok = len(cmd.Args) == len(o.Args)
				for k := 0; ok && k < len(o.Args); k++ {
					// absolute tolerance: one 16.16 rounding per coordinate, not accumulating along the path
					ok = math.Abs(cmd.Args[k]-o.Args[k]) <= 1.0/65536+1e-12
				}
			}
			if !ok {
				c.Fail("C04.path", sig, "glyph %d command %d: %v comes out as %s (drift %v); %v", gi, i, cmd, fmtOps(ref.Ops[i:i+1]), drift(cmd.Args, o.Args), desc)
				return
			}
		}
	}
}

func drift(a, b []float64) float64 {
	d := 0.0
	for i := range a {
		if i < len(b) {
			d = math.Max(d, math.Abs(a[i]-b[i]))
		}
	}
	return d * 65536
}

func widthsOf(gs []*cff.Glyph) []float64 {
	var w []float64
	for _, g := range gs {
		w = append(w, g.Width)
	}
	return w
}

// segment alphabet: what the encoder's case analysis can distinguish
type c04Seg struct {
	name string
	kind byte // 'M','L','C'
	d    [6]float64
}

func c04Alphabet(thorough bool) []c04Seg {
	var segs []c04Seg
	mags := []float64{10, -3.5, 0.1, 1200}
	if thorough {
		mags = []float64{10, -3.5, 0.1, 1200, -20000.25, 107.5}
	}
	for _, m := range mags {
		segs = append(segs,
			c04Seg{fmt.Sprintf("line(%v,0)", m), 'L', [6]float64{m, 0}},
			c04Seg{fmt.Sprintf("line(0,%v)", m), 'L', [6]float64{0, m}},
			c04Seg{fmt.Sprintf("line(%v,%v)", m, -m), 'L', [6]float64{m, -m}},
		)
	}
	segs = append(segs, c04Seg{"line(0,0)", 'L', [6]float64{0, 0}})
	// curves: zero/non-zero pattern of (dxa,dya,dxc,dyc), middle control always non-zero
	for pat := 0; pat < 16; pat++ {
		var d [6]float64
		v := []float64{7, -5.25, 3, 11}
		for b := 0; b < 4; b++ {
			if pat&(1<<b) != 0 {
				idx := []int{0, 1, 4, 5}[b]
				d[idx] = v[b]
			}
		}
		d[2], d[3] = 6, -4
		segs = append(segs, c04Seg{fmt.Sprintf("curve(pattern %04b)", pat), 'C', d})
		if thorough {
			d[2], d[3] = -1200.5, 4
			segs = append(segs, c04Seg{fmt.Sprintf("curve(pattern %04b, middle (-1200.5,4))", pat), 'C', d})
		}
	}
	// flex-like couples: second curve mirrors the first
	segs = append(segs, c04Seg{"curve(hflex a)", 'C', [6]float64{10, 0, 10, 5, 10, 0}}, c04Seg{"curve(hflex b)", 'C', [6]float64{10, 0, 10, -5, 10, 0}})
	segs = append(segs, c04Seg{"move(20,0)", 'M', [6]float64{20, 0}}, c04Seg{"move(0,-20)", 'M', [6]float64{0, -20}}, c04Seg{"move(5,5.5)", 'M', [6]float64{5, 5.5}}, c04Seg{"move(0,0)", 'M', [6]float64{0, 0}})
	return segs
}

func buildGlyph(name string, width float64, start [2]float64, segs []c04Seg) *cff.Glyph {
	g := cff.NewGlyph(name, width)
	x, y := start[0], start[1]
	g.MoveTo(x, y)
	for _, s := range segs {
		switch s.kind {
		case 'M':
			x, y = x+s.d[0], y+s.d[1]
			g.MoveTo(x, y)
		case 'L':
			x, y = x+s.d[0], y+s.d[1]
			g.LineTo(x, y)
		case 'C':
			x1, y1 := x+s.d[0], y+s.d[1]
			x2, y2 := x1+s.d[2], y1+s.d[3]
			x, y = x2+s.d[4], y2+s.d[5]
			g.CurveTo(x1, y1, x2, y2, x, y)
		}
	}
	return g
}

func c04Programs(r *run.Run) {
	alpha := c04Alphabet(true)
	maxLen := 3
	if !r.Quick() {
		maxLen = 4
	}
	r.Explore(explore.Config{Name: "C04.segments", Deadline: r.PartDeadline(0.5)},
		fmt.Sprintf("all glyph programs of <= %d segments over a %d-segment alphabet (lines with zero/non-zero deltas, degenerate lines, curves with every zero/non-zero pattern of the outer deltas, flex-like couples, moves), start points {(0,0),(31000,-31000),(-5000,9000)} (paths leaving +-32000 are skipped), fractional and integer deltas", maxLen, len(alpha)),
		func(c *explore.Ctx) {
			start := [][2]float64{{0, 0}, {31000, -31000}, {-5000, 9000}}[c.Choose(3, "start")]
			n := 1 + c.Choose(maxLen, "segments")
			var segs []c04Seg
			var names []string
			for i := 0; i < n; i++ {
				s := alpha[c.Choose(len(alpha), "segment")]
				segs = append(segs, s)
				names = append(names, s.name)
			}
			c.Sample(func() any { return map[string]any{"start": start, "segments": names} })
			x, y := start[0], start[1]
			for _, sg := range segs {
				for k := 0; k < 6; k += 2 {
					x, y = x+sg.d[k], y+sg.d[k+1]
					if math.Abs(x) > 32000 || math.Abs(y) > 32000 {
						c.Skip("path leaves the coordinate range of the format")
					}
				}
			}
			c.Nontrivial()
			g := buildGlyph("A", 500, start, segs)
			c04Check(c, "segments", []*cff.Glyph{cff.NewGlyph(".notdef", 500), g}, names)
		})

	r.Explore(explore.Config{Name: "C04.runs"},
		"periodic runs (period <= 3 over 8 representative segment types) of every length 1..60 (quick) / period <= 4, every length 1..100 (thorough), crossing the 48-entry stack limit; steps of 0.1 and 1/3 (not 16.16 values: rounding must not accumulate)",
		func(c *explore.Ctx) {
			reps := []c04Seg{
				{"line(0.1,0)", 'L', [6]float64{0.1, 0}}, {"line(0,1/3)", 'L', [6]float64{0, 1.0 / 3}}, {"line(1/3,-0.1)", 'L', [6]float64{1.0 / 3, -0.1}},
				{"curve(general 1/7)", 'C', [6]float64{1.0 / 7, 2, 3, 1.0 / 9, 5, 1.0 / 7}}, {"curve(h..v)", 'C', [6]float64{0.1, 0, 3, 4, 0, 0.1}}, {"curve(v..h)", 'C', [6]float64{0, 0.3, 3, 4, 0.7, 0}},
				{"curve(h..h)", 'C', [6]float64{0.1, 0, 3, 4, 0.9, 0}}, {"line(10,0)", 'L', [6]float64{10, 0}},
			}
			maxPeriod := 3
			if !r.Quick() {
				maxPeriod = 4
			}
			period := 1 + c.Choose(maxPeriod, "period")
			var unit []c04Seg
			var names []string
			for i := 0; i < period; i++ {
				s := reps[c.Choose(len(reps), "segment")]
				unit = append(unit, s)
				names = append(names, s.name)
			}
			var lengths []int
			for l := 1; l <= 60 || !r.Quick() && l <= 100; l++ {
				lengths = append(lengths, l)
			}
			length := lengths[c.Choose(len(lengths), "length")]
			var segs []c04Seg
			for i := 0; i < length; i++ {
				segs = append(segs, unit[i%period])
			}
			c.Sample(func() any { return map[string]any{"unit": names, "length": length} })
			c.Nontrivial()
			c04Check(c, "periodic run", []*cff.Glyph{cff.NewGlyph(".notdef", 0), buildGlyph("A", 321.5, [2]float64{-100, 50}, segs)}, fmt.Sprint(names, " x ", length))
		})

	r.Explore(explore.Config{Name: "C04.run-tail"},
		"a run of every length 1..60 of one segment type followed by a single segment of another type (the combined operators rlinecurve / rcurveline and the alternating forms take the tail with them: stack room for the tail), optionally followed by a second run, over 9 representative segment types",
		func(c *explore.Ctx) {
			reps := c04RunReps
			a := reps[c.Choose(len(reps), "run segment")]
			b := reps[c.Choose(len(reps), "tail segment")]
			n := 1 + c.Choose(60, "run length")
			again := c.Choose(3, "second run length") * 11
			var segs []c04Seg
			for i := 0; i < n; i++ {
				segs = append(segs, a)
			}
			segs = append(segs, b)
			for i := 0; i < again; i++ {
				segs = append(segs, a)
			}
			desc := fmt.Sprintf("%s x %d, %s, %s x %d", a.name, n, b.name, a.name, again)
			c.Sample(func() any { return desc })
			c.Nontrivial()
			c04Check(c, "run and tail", []*cff.Glyph{cff.NewGlyph(".notdef", 0), buildGlyph("A", 321, [2]float64{-100, 50}, segs)}, desc)
		})
	r.Explore(explore.Config{Name: "C04.curve-pairs"},
		"two consecutive curves with every combination of the six vertical (or, transposed, horizontal) steps from {0, 5, -5, 7} and fixed steps in the other direction (all shapes the flex operators hflex, hflex1, flex1 and flex can or cannot express: horizontal joins, returns to the start level, asymmetric bumps), alone or followed by a line",
		func(c *explore.Ctx) {
			vals := []float64{0, 5, -5, 7}
			var d [6]float64
			for i := range d {
				d[i] = vals[c.Choose(len(vals), fmt.Sprintf("step %d", i+1))]
			}
			transposed := c.Bool("transposed")
			tail := c.Bool("line behind")
			along := [6]float64{10, 11, 12, 13, 14, 15}
			mk := func(k int) c04Seg {
				a := [6]float64{along[3*k], d[3*k], along[3*k+1], d[3*k+1], along[3*k+2], d[3*k+2]}
				if transposed {
					for i := 0; i < 6; i += 2 {
						a[i], a[i+1] = a[i+1], a[i]
					}
				}
				return c04Seg{"curve", 'C', a}
			}
			segs := []c04Seg{mk(0), mk(1)}
			if tail {
				segs = append(segs, c04Seg{"line", 'L', [6]float64{3, 4}})
			}
			desc := fmt.Sprintf("steps %v transposed=%v line=%v", d, transposed, tail)
			c.Sample(func() any { return desc })
			c.Nontrivial()
			c04Check(c, "curve pairs", []*cff.Glyph{cff.NewGlyph(".notdef", 0), buildGlyph("A", 321, [2]float64{-100, 50}, segs)}, desc)
		})

	{
		const u = 1.0 / 65536
		lineVals := []float64{0, u, -3 * u, 6 * u, 10}
		curveVals := []float64{0, 2 * u, -10}
		var tiny []c04Seg
		for _, dx := range lineVals {
			for _, dy := range lineVals {
				tiny = append(tiny, c04Seg{fmt.Sprintf("line(%v/65536,%v/65536)", dx*65536, dy*65536), 'L', [6]float64{dx, dy}},
					c04Seg{fmt.Sprintf("move(%v/65536,%v/65536)", dx*65536, dy*65536), 'M', [6]float64{dx, dy}})
			}
		}
		for i := 0; i < 81; i++ {
			d := [6]float64{curveVals[i%3], curveVals[i/3%3], 6, -4, curveVals[i/9%3], curveVals[i/27%3]}
			tiny = append(tiny, c04Seg{fmt.Sprintf("curve(%v,%v,6,-4,%v,%v)/65536", d[0]*65536, d[1]*65536, d[4]*65536, d[5]*65536), 'C', d})
		}
		r.Explore(explore.Config{Name: "C04.tiny-steps"},
			fmt.Sprintf("paths of 1..2 segments over a %d-segment alphabet whose steps are zero, a few units of the 16.16 resolution (1, 2, 3, 6 units of 1/65536) or ordinary: a step is left out of the charstring only when it is exactly zero (almost axis-aligned lines, curves and moves)", len(tiny)),
			func(c *explore.Ctx) {
				n := 1 + c.Choose(2, "segments")
				var segs []c04Seg
				var names []string
				for i := 0; i < n; i++ {
					sg := tiny[c.Choose(len(tiny), "segment")]
					segs = append(segs, sg)
					names = append(names, sg.name)
				}
				c.Sample(func() any { return names })
				c.Nontrivial()
				g := buildGlyph("A", 500, [2]float64{100, 200}, append(segs, c04Seg{"line(10,10)", 'L', [6]float64{10, 10}}))
				c04Check(c, "tiny steps", []*cff.Glyph{cff.NewGlyph(".notdef", 500), g}, names)
			})
	}
	r.Explore(explore.Config{Name: "C04.far-jumps"},
		"paths of 1..2 segments (moveto, lineto, curveto) between the corners and edge midpoints of the coordinate range [-32000, 32000]^2: single steps of up to 64000 units, more than one charstring number can hold",
		func(c *explore.Ctx) {
			pts := [][2]float64{{-32000, -32000}, {32000, 32000}, {-32000, 32000}, {0, 0}, {32000, -1}, {767, -32000}}
			start := pts[c.Choose(len(pts), "start")]
			g := cff.NewGlyph("A", 500)
			g.MoveTo(start[0], start[1])
			desc := fmt.Sprintf("M%v", start)
			n := 1 + c.Choose(2, "segments")
			for i := 0; i < n; i++ {
				to := pts[c.Choose(len(pts), "target")]
				switch c.Choose(3, "kind") {
				case 0:
					g.MoveTo(to[0], to[1])
					desc += fmt.Sprintf(" M%v", to)
				case 1:
					g.LineTo(to[0], to[1])
					desc += fmt.Sprintf(" L%v", to)
				default:
					mid := pts[c.Choose(len(pts), "control point")]
					g.CurveTo(mid[0], mid[1], mid[0], to[1], to[0], to[1])
					desc += fmt.Sprintf(" C%v..%v", mid, to)
				}
			}
			// the largest step between consecutive points of the path (control points included)
			maxStep := 0.0
			x, y := 0.0, 0.0
			for _, cmd := range g.Cmds {
				for k := 0; k+1 < len(cmd.Args); k += 2 {
					maxStep = max(maxStep, math.Abs(cmd.Args[k]-x), math.Abs(cmd.Args[k+1]-y))
					x, y = cmd.Args[k], cmd.Args[k+1]
				}
			}
			sig := "jumps within the number range"
			if maxStep >= 32768 {
				sig = "far jumps (a step of 32768 units or more)"
			}
			c.Sample(func() any { return desc })
			c.Nontrivial()
			c04Check(c, sig, []*cff.Glyph{cff.NewGlyph(".notdef", 500), g}, desc)
		})
}

// c04RunReps: representative segments with whole-unit steps (shared with C03.cff-runs, where an
// independent implementation that rounds operands reads the outlines).
var c04RunReps = []c04Seg{
	{"line(3,2)", 'L', [6]float64{3, 2}}, {"line(5,0)", 'L', [6]float64{5, 0}}, {"line(0,-4)", 'L', [6]float64{0, -4}},
	{"curve(general)", 'C', [6]float64{1, 2, 3, -1, 5, 2}}, {"curve(h..v)", 'C', [6]float64{2, 0, 3, 4, 0, 1}}, {"curve(v..h)", 'C', [6]float64{0, 3, 3, 4, 2, 0}},
	{"curve(h..h)", 'C', [6]float64{1, 0, 3, 4, 2, 0}}, {"curve(v..v)", 'C', [6]float64{0, 1, 3, -2, 0, 2}}, {"line(-2,7)", 'L', [6]float64{-2, 7}},
}

func c04Stems(r *run.Run) {
	var counts []int
	for k := 0; k <= 50; k++ {
		counts = append(counts, k)
	}
	counts = append(counts, 71, 72, 73, 95, 96)
	r.Explore(explore.Config{Name: "C04.stems-masks"},
		"stem hints: every count 0..50 and {71,72,73,95,96} split between horizontal and vertical, edges that are 16.16 numbers or thirds, with a hint mask first / later / absent, counter masks (one, or three in a row), two hint masks in a row, glyph width equal / not equal to the default width",
		func(c *explore.Ctx) {
			nh := counts[c.Choose(len(counts), "hstems")]
			nv := counts[c.Choose(len(counts), "vstems")]
			if nh+nv > 96 {
				c.Skip("more than 96 stems")
			}
			// none, first, later, cntr+hint, several counter masks then a hint mask, two hint masks in a row later
			mask := c.Choose(6, "mask placement")
			ownWidth := c.Bool("own width")
			w := 500.0
			if ownWidth {
				w = 623
			}
			g := cff.NewGlyph("A", w)
			// stem edges that are 16.16 numbers, or thirds (every edge is rounded once, and the rounding
			// must not accumulate from edge to edge)
			thirds := c.Bool("stem edges in thirds")
			for i := 0; i < nh; i++ {
				if thirds {
					g.HStem = append(g.HStem, float64(31*i)/3, float64(31*i+10)/3)
				} else {
					g.HStem = append(g.HStem, float64(10*i), float64(10*i+4))
				}
			}
			for i := 0; i < nv; i++ {
				if thirds {
					g.VStem = append(g.VStem, -300+float64(22*i)/3, -300+float64(22*i+7)/3)
				} else {
					g.VStem = append(g.VStem, float64(-300+7*i), float64(-300+7*i)+2.5)
				}
			}
			nb := (nh + nv + 7) / 8
			mk := func(seed int) []float64 {
				m := make([]float64, nb)
				for i := range m {
					m[i] = float64((0x5A + seed*37 + i*11) & 0xFF)
				}
				return m
			}
			if nb == 0 && mask != 0 {
				c.Skip("mask without stems")
			}
			if mask == 3 || mask == 4 {
				g.Cmds = append(g.Cmds, cff.GlyphOp{Op: cff.OpCntrMask, Args: mk(1)})
			}
			if mask == 4 {
				// every cntrmask declares a further counter group
				g.Cmds = append(g.Cmds, cff.GlyphOp{Op: cff.OpCntrMask, Args: mk(3)}, cff.GlyphOp{Op: cff.OpCntrMask, Args: mk(4)})
			}
			if mask == 1 || mask == 3 || mask == 4 {
				g.Cmds = append(g.Cmds, cff.GlyphOp{Op: cff.OpHintMask, Args: mk(0)})
			}
			g.MoveTo(0, 0)
			g.LineTo(100, 0)
			if mask == 2 || mask == 5 {
				g.Cmds = append(g.Cmds, cff.GlyphOp{Op: cff.OpHintMask, Args: mk(2)})
			}
			if mask == 5 {
				g.Cmds = append(g.Cmds, cff.GlyphOp{Op: cff.OpHintMask, Args: mk(5)})
			}
			g.LineTo(100, 100)
			c.Sample(func() any {
				return map[string]any{"hstems": nh, "vstems": nv, "mask": mask, "own_width": ownWidth, "thirds": thirds}
			})
			if nh+nv > 0 {
				c.Nontrivial()
			}
			c04Check(c, fmt.Sprintf("stems mask=%d", mask), []*cff.Glyph{cff.NewGlyph(".notdef", 500), g, cff.NewGlyph("B", 500)}, fmt.Sprintf("hstems=%d vstems=%d mask=%d width=%v thirds=%v", nh, nv, mask, w, thirds))
		})
}

func c04Widths(r *run.Run) {
	ws := []float64{0, 500, 500.5, 393, 607, 1000, -50}
	ws = append(ws, 1131.75, 32000, 499.99998)
	ng := 5
	if !r.Quick() {
		ws = append(ws, -107, 108, 250.25)
		ng = 5
	}
	r.Explore(explore.Config{Name: "C04.widths"},
		fmt.Sprintf("all %d-glyph fonts with widths from %v: every width is recovered to 2^-16 from the charstring and the stored defaultWidthX / nominalWidthX", ng, ws),
		func(c *explore.Ctx) {
			var gl []*cff.Glyph
			names := []string{".notdef", "A", "B", "C", "D"}
			var wsel []float64
			for i := 0; i < ng; i++ {
				w := ws[c.Choose(len(ws), "width")]
				wsel = append(wsel, w)
				g := cff.NewGlyph(names[i], w)
				g.MoveTo(0, 0)
				g.LineTo(10, float64(i))
				gl = append(gl, g)
			}
			c.Sample(func() any { return wsel })
			c.Nontrivial()
			sig := "integer widths"
			for _, w := range wsel {
				if w != math.Trunc(w) {
					sig = "fractional widths"
				}
			}
			c04Check(c, sig, gl, wsel)
		})
}

// c04WidthsFew: fonts with one, two and three glyphs (the writer chooses defaultWidthX and nominalWidthX by other rules
// when there is hardly anything to count) over a list of widths that includes fractions with ten significant digits,
// which a number of the private dictionary cannot hold.
func c04WidthsFew(r *run.Run) {
	ws := []float64{0, 500, 500.5, 393, 1000, -50, 1131.75, 32000, 499.99998, 12345.67895, 20000.00004, 31999.99996, -15000.12345, 0.00002}
	r.Explore(explore.Config{Name: "C04.widths-few"},
		fmt.Sprintf("all fonts with 1, 2 and 3 glyphs and widths from %v: every width is recovered to 2^-16 from the charstring and the stored defaultWidthX / nominalWidthX", ws),
		func(c *explore.Ctx) {
			ng := 1 + c.Choose(3, "number of glyphs")
			var gl []*cff.Glyph
			names := []string{".notdef", "A", "B"}
			var wsel []float64
			for i := 0; i < ng; i++ {
				w := ws[c.Choose(len(ws), "width")]
				wsel = append(wsel, w)
				g := cff.NewGlyph(names[i], w)
				if c.Choose(2, "blank glyph") == 0 {
					g.MoveTo(0, 0)
					g.LineTo(10, float64(i))
				}
				gl = append(gl, g)
			}
			c.Sample(func() any { return wsel })
			c.Nontrivial()
			c04Check(c, fmt.Sprintf("%d glyphs", ng), gl, wsel)
		})
}

func init() {
	Register("C04", func(r *run.Run) {
		r.Rule = "bounded exhaustive enumeration of glyph programs, stem/mask layouts and width assignments; the emitted CFF is walked by the independent reader and every charstring executed by the strict independent interpreter (operand counts, stack depth <= 48, endchar)"
		r.Assume = []string{"reft2/refcff are the trusted base", "coordinates within +-32000; single deltas within the 16.16 range"}
		c04Programs(r)
		c04Stems(r)
		c04WidthsFew(r)
		c04Widths(r)
	})
}
