package harness

import "runtime"

func runtimeStack(buf []byte) int { return runtime.Stack(buf, false) }
