package harness

import (
	"runtime"

	"seehuhn.de/go/sfnt/glyph"
)

func runtimeStack(buf []byte) int { return runtime.Stack(buf, false) }

func glyphID(i int) glyph.ID { return glyph.ID(i) }
