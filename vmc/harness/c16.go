package harness

import (
	"bufio"
	"bytes"
	"fmt"
	"io"
	"os"
	"os/exec"
	"path/filepath"
	"runtime"
	"sort"
	"strings"
	"time"

	"verif/c16ops"
	"verif/dump"
	"verif/explore"
	"verif/run"
)

// C16: a font that is not being modified is safe for concurrent use.

// libGlobals is filled by the generated registry (vinstr): import path ->
// accessor returning pointers to every package-level variable.
var libGlobals = map[string]func() map[string]any{}

func globalsSnapshot() map[string]uint64 {
	out := map[string]uint64{}
	for pkg, f := range libGlobals {
		for name, p := range f() {
			out[pkg+"."+name] = dump.Hash(p)
		}
	}
	return out
}

func diffSnapshots(a, b map[string]uint64) []string {
	var d []string
	for k, v := range a {
		if b[k] != v {
			d = append(d, k)
		}
	}
	sort.Strings(d)
	return d
}

func c16Histories(r *run.Run) {
	depth := 2
	if !r.Quick() {
		depth = 3
	}
	if len(libGlobals) < 15 {
		explore.Fatal("C16: the generated registry of package-level variables is missing (%d packages)", len(libGlobals))
	}
	nvars := len(globalsSnapshot())
	r.Note("package-level variables snapshotted: %d in %d packages", nvars, len(libGlobals))
	r.Explore(explore.Config{Name: "C16.histories", Deadline: r.PartDeadline(0.6)},
		fmt.Sprintf("all operation histories of length <= %d over the 13-14 read-only operations on each of three shared fonts (glyf, CFF, CID-keyed): after every operation a canonical deep dump of everything reachable from the font and of every package-level variable of the library (%d variables, generated accessor) is unchanged, and every result equals the result on a pristine font (this includes all serial orders of up to %d operations)", depth, nvars, depth),
		func(c *explore.Ctx) {
			k := c.Choose(len(c16ops.FontNames), "font")
			kind := c16ops.FontNames[k]
			ops := c16ops.Applicable(kind)
			n := 1 + c.Choose(depth, "history length")
			font := c16ops.Font(k)
			before := dump.String(font)
			gBefore := globalsSnapshot()
			var hist []string
			c.Sample(func() any { return map[string]any{"font": kind, "history": hist} })
			c.Nontrivial()
			for i := 0; i < n; i++ {
				oi := c.Choose(len(ops), "operation")
				op := ops[oi]
				hist = append(hist, op.Name)
				want := op.Run(c16ops.Font(k)) // alone, on a pristine font
				got := op.Run(font)
				if got != want {
					c.Fail("C16.result", kind+" "+op.Name, "after history %v, %s on the shared %s font returns a different result than on a pristine font:\n%.300s\nvs\n%.300s", hist[:i], op.Name, kind, got, want)
					return
				}
				if after := dump.String(font); after != before {
					c.Fail("C16.immutable", kind+" "+op.Name+" modifies the font", "%s modified the shared %s font (history %v); first difference: %s", op.Name, kind, hist, firstDifference(before, after))
					return
				}
				if d := diffSnapshots(gBefore, globalsSnapshot()); len(d) > 0 {
					c.Fail("C16.globals", kind+" "+op.Name+" modifies "+d[0], "%s modified package-level state %v (history %v)", op.Name, d, hist)
					return
				}
			}
			c.Outcome(kind, fmt.Sprint(hist))
		})
}

func firstDifference(a, b string) string {
	i := 0
	for i < len(a) && i < len(b) && a[i] == b[i] {
		i++
	}
	lo := max(0, i-60)
	return fmt.Sprintf("...%s [was: %s | now: %s]", a[lo:i], a[i:min(len(a), i+40)], b[i:min(len(b), i+40)])
}

// ---- interleavings of the output operations, preempted at every Write call ----

type coSched struct {
	c       *explore.Ctx
	resume  []chan struct{}
	events  chan coEvent
	running int
}

type coEvent struct {
	g    int
	done bool
}

type yieldWriter struct {
	s   *coSched
	g   int
	buf bytes.Buffer
}

func (w *yieldWriter) Write(p []byte) (int, error) {
	// a scheduling point: the destination is where an operation can be descheduled
	w.s.events <- coEvent{g: w.g}
	<-w.s.resume[w.g]
	return w.buf.Write(p)
}

// coRun runs the bodies as goroutines under a cooperative scheduler: exactly one runs at a time, each
// is descheduled at every Write call on its destination, and the explorer decides who runs next
// (switching away from a runnable goroutine is a deviation = preemption).  It returns each body's
// result and the bytes its destination received; *schedule records which goroutine ran in each step.
func coRun(c *explore.Ctx, bodies []func(io.Writer) string, schedule *[]int) ([]string, [][]byte) {
	s := &coSched{c: c, events: make(chan coEvent), running: -1}
	writers := make([]*yieldWriter, len(bodies))
	results := make([]string, len(bodies))
	for g := range bodies {
		s.resume = append(s.resume, make(chan struct{}))
		writers[g] = &yieldWriter{s: s, g: g}
	}
	for g, o := range bodies {
		go func(g int, o func(io.Writer) string) {
			<-s.resume[g]
			results[g] = o(writers[g])
			s.events <- coEvent{g: g, done: true}
		}(g, o)
	}
	alive := make([]bool, len(bodies))
	for g := range alive {
		alive[g] = true
	}
	cur := 0
	for {
		// enabled goroutines in canonical order: the running one first
		var enabled []int
		if alive[cur] {
			enabled = append(enabled, cur)
		}
		for g := range alive {
			if alive[g] && g != cur {
				enabled = append(enabled, g)
			}
		}
		if len(enabled) == 0 {
			break
		}
		next := enabled[0]
		if len(enabled) > 1 {
			if alive[cur] {
				next = enabled[c.Deviate(len(enabled), "run")] // switching away from a runnable goroutine is a preemption
			} else {
				next = enabled[c.Choose(len(enabled), "run (current finished)")]
			}
		}
		cur = next
		*schedule = append(*schedule, cur)
		s.resume[cur] <- struct{}{}
		ev := <-s.events
		if ev.g != cur {
			explore.Fatal("coRun: goroutine %d ran while %d was scheduled", ev.g, cur)
		}
		if ev.done {
			alive[cur] = false
		}
	}
	outputs := make([][]byte, len(bodies))
	for g := range writers {
		outputs[g] = writers[g].buf.Bytes()
	}
	return results, outputs
}

func c16Interleavings(r *run.Run) {
	bound := 2
	r.Explore(explore.Config{Name: "C16.interleavings", Bound: bound, Workers: 1, Deadline: r.PartDeadline(0.5)},
		"two goroutines each writing the shared font in one of its output forms (Write, the PDF forms, AsCFF().Write, Subset+Write), under a cooperative scheduler that can preempt at every Write call of the destination: all schedules with <= 2 preemptions, every output byte-identical to the output of the operation run alone",
		func(c *explore.Ctx) {
			k := c.Choose(len(c16ops.FontNames), "font")
			kind := c16ops.FontNames[k]
			var ops []c16ops.WriterOp
			for _, o := range c16ops.WriterOps {
				if o.Only == "" || kind != "glyf" {
					ops = append(ops, o)
				}
			}
			a := c.Choose(len(ops), "operation of goroutine 0")
			b := a + c.Choose(len(ops)-a, "operation of goroutine 1")
			sel := []c16ops.WriterOp{ops[a], ops[b]}
			font := c16ops.Font(k)
			// solo references
			var want []string
			for _, o := range sel {
				var buf bytes.Buffer
				res := o.Run(c16ops.Font(k), &buf)
				want = append(want, res+" "+fmt.Sprintf("%x", buf.Bytes()))
			}
			var schedule []int
			c.Sample(func() any {
				return map[string]any{"font": kind, "ops": []string{sel[0].Name, sel[1].Name}, "schedule": schedule}
			})
			var bodies []func(io.Writer) string
			for _, o := range sel {
				o := o
				bodies = append(bodies, func(w io.Writer) string { return o.Run(font, w) })
			}
			results, outputs := coRun(c, bodies, &schedule)
			if len(schedule) > 2 {
				c.Nontrivial()
			}
			for g, o := range sel {
				got := results[g] + " " + fmt.Sprintf("%x", outputs[g])
				if got != want[g] {
					c.FailObserved("C16.interleaving", kind+" "+sel[0].Name+" || "+sel[1].Name, "goroutine %d (%s) produced different output than when run alone, schedule %v (each number = which goroutine ran until its next Write call)", g, o.Name, schedule)
				}
			}
			c.Outcome(kind, sel[0].Name, sel[1].Name, fmt.Sprint(schedule))
		})
}

// the free-running -race pass
func c16Race(r *run.Run) {
	bin := filepath.Join(os.Getenv("VERIF_BUILD"), "race.bin")
	if _, err := os.Stat(bin); err != nil {
		explore.Fatal("C16: %s not built (the check script builds it with -race): %v", bin, err)
	}
	size, reps := 2, 3
	if !r.Quick() {
		size, reps = 3, 2
	}
	if rp := r.ReplayOf("C16.race"); rp != nil {
		size = 3
	}
	start := time.Now()
	p := &run.Part{Name: "C16.race", Engine: "free-running goroutines behind a barrier under the Go race detector (access monitor) + comparison with the sequential result",
		Rule:       fmt.Sprintf("every multiset of 2..%d operations (incl. the same operation twice) from the alphabet on each of the three shared fonts, %d repetitions each, GOMAXPROCS=16; independence of all pairs => all interleavings are equivalent to a serial order (dynamic partial-order argument)", size, reps),
		Exhaustive: true}
	var viol []*explore.Violation
	var samples []any
	var herr []string
	seen := map[string]bool{}
	for k := range c16ops.FontNames {
		cmd := exec.Command(bin, fmt.Sprint(k), fmt.Sprint(size), fmt.Sprint(reps))
		cmd.Env = append(os.Environ(), "GORACE=halt_on_error=0 history_size=3")
		var stderr bytes.Buffer
		cmd.Stderr = &stderr
		cmd.Stdout = &stderr
		err := cmd.Run()
		mark := ""
		done := false
		var raceText []string
		sc := bufio.NewScanner(&stderr)
		sc.Buffer(make([]byte, 1<<20), 1<<22)
		inRace := false
		flush := func() {
			if len(raceText) > 0 {
				key := "C16.race\x00" + raceSig(raceText)
				if !seen[key] {
					seen[key] = true
					viol = append(viol, &explore.Violation{Failure: explore.Failure{Clause: "C16.race", Sig: raceSig(raceText), Msg: "data race while running {" + mark + "} concurrently on one shared font:\n" + strings.Join(raceText[:min(len(raceText), 30)], "\n"), Observed: true}, Harness: "C16.race", Case: mark, Count: 1})
				}
				raceText = nil
			}
		}
		for sc.Scan() {
			line := sc.Text()
			switch {
			case strings.HasPrefix(line, "MARK "):
				flush()
				inRace = false
				mark = strings.TrimPrefix(line, "MARK ")
				p.Executions += int64(reps)
				p.States++
				if len(samples) < 4 {
					samples = append(samples, mark)
				}
			case strings.HasPrefix(line, "MISMATCH "):
				sig := strings.TrimPrefix(line, "MISMATCH ")
				if !seen[sig] {
					seen[sig] = true
					viol = append(viol, &explore.Violation{Failure: explore.Failure{Clause: "C16.result", Sig: "concurrent result differs: " + strings.SplitN(sig, ": ", 2)[1], Msg: sig, Observed: true}, Harness: "C16.race", Case: mark, Count: 1})
				}
			case strings.HasPrefix(line, "DONE "):
				done = true
			case strings.HasPrefix(line, "WARNING: DATA RACE"):
				flush()
				inRace = true
				raceText = []string{line}
			case strings.HasPrefix(line, "=================="):
				if inRace && len(raceText) > 1 {
					flush()
					inRace = false
				}
			default:
				if inRace {
					raceText = append(raceText, line)
				}
			}
		}
		flush()
		if !done {
			herr = append(herr, fmt.Sprintf("C16.race: %s font: race binary did not finish: %v", c16ops.FontNames[k], err))
		}
	}
	p.Transitions = p.Executions
	p.DistinctOutcomes, p.Nontrivial, p.DistinctNontriv = p.States, p.Executions, p.States
	p.WallS = time.Since(start).Seconds()
	r.AddPart(p, samples, viol, herr, nil)
}

// raceSig: the innermost library frames of the two conflicting accesses.
func raceSig(lines []string) string {
	var frames []string
	for i, l := range lines {
		t := strings.TrimSpace(l)
		if (strings.HasPrefix(t, "Write at") || strings.HasPrefix(t, "Read at") || strings.HasPrefix(t, "Previous write at") || strings.HasPrefix(t, "Previous read at")) && i+1 < len(lines) {
			// first frame that belongs to the library
			for j := i + 1; j < len(lines) && strings.TrimSpace(lines[j]) != ""; j++ {
				fr := strings.TrimSpace(lines[j])
				if strings.HasPrefix(fr, "seehuhn.de/go/sfnt") {
					if k := strings.Index(fr, "("); k > 0 {
						fr = fr[:k]
					}
					frames = append(frames, fr)
					break
				}
			}
		}
	}
	sort.Strings(frames)
	if len(frames) == 0 {
		return "race outside the library"
	}
	return strings.Join(frames, " / ")
}

func init() {
	Register("C16", func(r *run.Run) {
		r.Rule = "the library has no synchronisation operations, so an operation is one atomic step for a scheduler; the property is decided by (1) pairwise/triple independence under the race detector as access monitor (=> one equivalence class of interleavings), (2) immutability of the font and of all package-level state over all operation histories, (3) equality with the solo result in every serial order"
		r.Assume = []string{
			"interleavings inside an operation are not enumerated: they are discharged by the independence argument, whose premise rests on the race detector (which can forget an access after several later accesses to the same word) and on the immutability search",
			"hardware memory ordering is not modelled",
		}
		if rp := r.ReplayOf("C16.race"); rp != nil {
			c16Race(r)
			fmt.Println("replay: see the race reports above (run with three-operation multisets)")
			os.Exit(0)
		}
		c16Histories(r)
		// one P: every goroutine of the interleaving exploration shares per-P caches (sync.Pool), as on a loaded machine
		old := runtime.GOMAXPROCS(1)
		c16Interleavings(r)
		runtime.GOMAXPROCS(old)
		c16Race(r)
	})
}
