package harness

import (
	"bytes"
	"encoding/binary"
	"fmt"
	"hash/fnv"
	"io"
	"runtime/metrics"
	"seehuhn.de/go/postscript/cid"
	"seehuhn.de/go/postscript/funit"
	"seehuhn.de/go/postscript/type1"
	"sort"
	"sync"
	"time"

	"golang.org/x/image/font/gofont/goregular"
	"golang.org/x/text/language"
	"seehuhn.de/go/geom/matrix"
	"seehuhn.de/go/sfnt"
	"seehuhn.de/go/sfnt/cff"
	"seehuhn.de/go/sfnt/cmap"
	"seehuhn.de/go/sfnt/glyf"
	"seehuhn.de/go/sfnt/glyph"
	"seehuhn.de/go/sfnt/head"
	"seehuhn.de/go/sfnt/header"
	"seehuhn.de/go/sfnt/hmtx"
	"seehuhn.de/go/sfnt/kern"
	"seehuhn.de/go/sfnt/maxp"
	"seehuhn.de/go/sfnt/name"
	"seehuhn.de/go/sfnt/opentype/classdef"
	"seehuhn.de/go/sfnt/opentype/coverage"
	"seehuhn.de/go/sfnt/opentype/gdef"
	"seehuhn.de/go/sfnt/opentype/gtab"
	"seehuhn.de/go/sfnt/os2"
	"seehuhn.de/go/sfnt/parser"
	"seehuhn.de/go/sfnt/post"

	"verif/explore"
	"verif/gen"
	"verif/refcff"
	"verif/refcmap"
	"verif/run"
)

// C02: decoders are total on untrusted bytes.

// c02Seed is a valid input of one decoder; run decodes a (mutated) copy.
type c02Seed struct {
	dec   string // decoder name, as in the property's list
	name  string
	data  []byte
	run   func(b []byte) (any, error)
	whole bool // a whole font file: structural deviations of the table directory apply
}

type c02HeaderVal struct {
	info *header.Info
	b    []byte
}
type c02GtabVal struct {
	info *gtab.Info
	tp   gtab.Type
}

var c02Window = []rune{0, 1, 0x20, 'A', 'B', 'H', 'x', 0x7E, 0x7F, 0x80, 0xFF, 0x100, 0xD7FF, 0xE000, 0xFFFE, 0xFFFF, 0x10000, 0x10001, 0x10FFFF, 0x110000, -1}

var c02PDFMatrix = matrix.Matrix{0.001, 0, 0, 0.001, 0, 0}

// c02Use hands a successfully decoded value to the library's own lazy decoders and accessors.
func c02Use(v any) {
	switch x := v.(type) {
	case *sfnt.Font:
		n := x.NumGlyphs()
		x.Widths()
		x.WidthsPDF()
		x.WidthsMapPDF()
		x.GlyphBBoxes()
		x.FontBBox()
		x.FontBBoxPDF()
		x.IsFixedPitch()
		x.BuiltinEncoding()
		x.GetFontInfo()
		x.PostScriptName()
		x.FullName()
		x.Subfamily()
		for gid := 0; gid < n+2 && gid < 300; gid++ {
			g := glyph.ID(gid)
			if gid < n {
				x.GlyphWidth(g)
				x.GlyphWidthPDF(g)
				x.GlyphBBox(g)
				x.GlyphName(g)
				x.Outlines.GlyphBBoxPDF(c02PDFMatrix, g)
			}
		}
		if x.CMapTable != nil {
			c02Use(x.CMapTable)
		}
		if o, ok := x.Outlines.(*glyf.Outlines); ok {
			c02Use(o.Glyphs)
		}
		x.Write(io.Discard)
		if x.IsGlyf() {
			x.WriteTrueTypePDF(io.Discard)
		} else {
			x.WriteOpenTypeCFFPDF(io.Discard)
			x.AsCFF().Write(io.Discard)
		}
		x.Clone()
	case c02HeaderVal:
		names := make([]string, 0, len(x.info.Toc))
		for n := range x.info.Toc {
			names = append(names, n)
		}
		sort.Strings(names)
		r := bytes.NewReader(x.b)
		for _, n := range names {
			x.info.Has(n)
			x.info.ReadTableBytes(r, n)
			if sr, err := x.info.TableReader(r, n); err == nil {
				var one [1]byte
				sr.Read(one[:])
			}
		}
		x.info.ReadTableBytes(r, "none")
	case *cff.Font:
		x.Widths()
		x.WidthsPDF()
		x.WidthsMapPDF()
		x.FontBBoxPDF()
		if x.Outlines != nil {
			n := x.Outlines.NumGlyphs()
			x.Outlines.BBox()
			x.Outlines.IsCIDKeyed()
			x.Outlines.BuiltinEncoding()
			for gid := 0; gid < n && gid < 300; gid++ {
				x.GlyphWidthPDF(glyph.ID(gid))
				x.Outlines.GlyphBBoxPDF(c02PDFMatrix, glyph.ID(gid))
				if g := x.Outlines.Glyphs[gid]; g != nil {
					g.Extent()
				}
			}
		}
		x.Write(io.Discard)
		x.Clone()
	case cmap.Table:
		keys := make([]cmap.Key, 0, len(x))
		for k := range x {
			keys = append(keys, k)
		}
		sort.Slice(keys, func(i, j int) bool {
			a, b := keys[i], keys[j]
			if a.PlatformID != b.PlatformID {
				return a.PlatformID < b.PlatformID
			}
			if a.EncodingID != b.EncodingID {
				return a.EncodingID < b.EncodingID
			}
			return a.Language < b.Language
		})
		use := func(s cmap.Subtable) {
			if s == nil {
				return
			}
			for _, r := range c02Window {
				s.Lookup(r)
			}
			lo, hi := s.CodeRange()
			s.Lookup(lo)
			s.Lookup(hi)
			s.Lookup(lo - 1)
			s.Lookup(hi + 1)
			if hi-lo <= 4096 {
				// re-encoding a format 4 subtable is a shortest-path computation over all mapped codes; a
				// 300-byte table may map 65536 codes, which is the library's documented data model, and
				// would dominate the run: re-encoded up to 4096 codes here
				s.Encode(0)
			}
		}
		for i, k := range keys {
			if i >= 8 {
				// every Get decodes a subtable (up to 65536 entries, the documented data model): the number
				// of calls is the caller's choice, not the decoder's, so it is kept constant here
				break
			}
			if s, err := x.Get(k); err == nil {
				use(s)
			}
			if s, err := x.GetNoLang(k.PlatformID, k.EncodingID); err == nil {
				use(s)
			}
		}
		if s, err := x.GetBest(); err == nil {
			use(s)
		}
		x.Encode()
	case glyf.Glyphs:
		for _, g := range x {
			if g == nil {
				continue
			}
			switch d := g.Data.(type) {
			case glyf.SimpleGlyph:
				d.Decode()
			case *glyf.SimpleGlyph:
				d.Decode()
			}
			g.Components()
		}
		x.Encode()
	case c02GtabVal:
		x.info.FindLookups(language.Und, map[string]bool{"test": true, "kern": true, "liga": true})
		x.info.Encode()
	case *gdef.Table:
		for gid := glyph.ID(0); gid < 8; gid++ {
			x.IsMark(gid)
		}
		x.Encode()
	case coverage.Table:
		x.Glyphs()
		x.Contains(1)
		x.EncodeLen()
		x.Encode()
		x.ToSet()
	case coverage.Set:
		x.Glyphs()
		x.ToTable()
	case classdef.Table:
		x.NumClasses()
		x.Glyphs()
		x.Append(make([]byte, 0, x.AppendLen()))
	case *name.Info:
		x.Encode(1)
		x.Encode(10)
	case *head.Info:
		x.Encode()
	case *hmtx.Info:
		x.Encode()
	case *maxp.Info:
		x.Encode()
	case *os2.Info:
		x.Encode()
	case *post.Info:
		x.Encode()
	case kern.Info:
		x.Encode()
	case nil:
	default:
		explore.Fatal("C02: no accessor driver for %T", v)
	}
}

func c02TableSeed(dec, seedName string, data []byte) *c02Seed {
	s := &c02Seed{dec: dec, name: seedName, data: data}
	rd := func(b []byte) *bytes.Reader { return bytes.NewReader(b) }
	switch dec {
	case "cmap.Decode":
		s.run = func(b []byte) (any, error) { return wrapNil(cmap.Decode(b)) }
	case "gtab.Read/GSUB":
		s.run = func(b []byte) (any, error) {
			i, err := gtab.Read(rd(b), gtab.TypeGsub)
			if err != nil {
				return nil, err
			}
			return c02GtabVal{i, gtab.TypeGsub}, nil
		}
	case "gtab.Read/GPOS":
		s.run = func(b []byte) (any, error) {
			i, err := gtab.Read(rd(b), gtab.TypeGpos)
			if err != nil {
				return nil, err
			}
			return c02GtabVal{i, gtab.TypeGpos}, nil
		}
	case "gdef.Read":
		s.run = func(b []byte) (any, error) { return wrapNil(gdef.Read(rd(b))) }
	case "coverage.Read":
		s.run = func(b []byte) (any, error) { return wrapNil(coverage.Read(parser.New(rd(b)), 0)) }
	case "coverage.ReadSet":
		s.run = func(b []byte) (any, error) { return wrapNil(coverage.ReadSet(parser.New(rd(b)), 0)) }
	case "classdef.Read":
		s.run = func(b []byte) (any, error) { return wrapNil(classdef.Read(parser.New(rd(b)), 0)) }
	case "name.Decode":
		s.run = func(b []byte) (any, error) { return wrapNil(name.Decode(b)) }
	case "head.Read":
		s.run = func(b []byte) (any, error) { return wrapNil(head.Read(rd(b))) }
	case "maxp.Read":
		s.run = func(b []byte) (any, error) { return wrapNil(maxp.Read(rd(b))) }
	case "os2.Read":
		s.run = func(b []byte) (any, error) { return wrapNil(os2.Read(rd(b))) }
	case "post.Read":
		s.run = func(b []byte) (any, error) { return wrapNil(post.Read(rd(b))) }
	case "kern.Read":
		s.run = func(b []byte) (any, error) { return wrapNil(kern.Read(rd(b))) }
	case "cff.Read":
		s.run = func(b []byte) (any, error) { return wrapNil(cff.Read(rd(b))) }
	case "header.Read":
		s.run = func(b []byte) (any, error) {
			i, err := header.Read(rd(b))
			if err != nil {
				return nil, err
			}
			return c02HeaderVal{i, b}, nil
		}
	case "sfnt.Read":
		s.whole = true
		s.run = func(b []byte) (any, error) { return wrapNil(sfnt.Read(rd(b))) }
	default:
		explore.Fatal("C02: unknown decoder %s", dec)
	}
	return s
}

// wrapNil turns a (typed value, error) pair into (any, error) without typed-nil surprises.
func wrapNil[T any](v T, err error) (any, error) {
	if err != nil {
		return nil, err
	}
	return v, nil
}

// two-input decoders: one input is mutated, the other one stays as in the seed
func c02GlyfSeeds(name string, glyfData, locaData []byte, format int16) []*c02Seed {
	dec := func(g, l []byte) (any, error) {
		// exactly sized slices: reading beyond the length must not be saved by spare capacity
		g = append(make([]byte, 0, len(g)), g...)
		l = append(make([]byte, 0, len(l)), l...)
		return wrapNil(glyf.Decode(&glyf.Encoded{GlyfData: g[:len(g):len(g)], LocaData: l[:len(l):len(l)], LocaFormat: format}))
	}
	return []*c02Seed{
		{dec: "glyf.Decode", name: name + "/glyf data", data: glyfData, run: func(b []byte) (any, error) { return dec(b, locaData) }},
		{dec: "glyf.Decode", name: name + "/loca data", data: locaData, run: func(b []byte) (any, error) { return dec(glyfData, b) }},
	}
}

func c02HmtxSeeds(name string, hhea, hm []byte) []*c02Seed {
	return []*c02Seed{
		{dec: "hmtx.Decode", name: name + "/hhea data", data: hhea, run: func(b []byte) (any, error) { return wrapNil(hmtx.Decode(b, hm)) }},
		{dec: "hmtx.Decode", name: name + "/hmtx data", data: hm, run: func(b []byte) (any, error) { return wrapNil(hmtx.Decode(hhea, b)) }},
	}
}

var c02TableDecoder = map[string]string{
	"cmap": "cmap.Decode", "GSUB": "gtab.Read/GSUB", "GPOS": "gtab.Read/GPOS", "GDEF": "gdef.Read",
	"name": "name.Decode", "head": "head.Read", "maxp": "maxp.Read", "OS/2": "os2.Read", "post": "post.Read",
	"kern": "kern.Read", "CFF ": "cff.Read",
}

func be16(v ...int) []byte {
	var out []byte
	for _, x := range v {
		out = binary.BigEndian.AppendUint16(out, uint16(x))
	}
	return out
}

// c02KernTable: two format-0 subtables (plain and override).
func c02KernTable() []byte {
	sub := func(flags int, pairs ...[3]int) []byte {
		b := be16(0, 14+6*len(pairs), flags, len(pairs), 0, 0, 0)
		for _, p := range pairs {
			b = append(b, be16(p[0], p[1], p[2])...)
		}
		return b
	}
	out := be16(0, 2)
	out = append(out, sub(0x0001, [3]int{1, 2, -40}, [3]int{2, 1, 25})...)
	out = append(out, sub(0x0009, [3]int{1, 2, -30})...)
	return out
}

func c02FontTables(file []byte) (uint32, map[string][]byte) {
	dir, err := header.Read(bytes.NewReader(file))
	if err != nil {
		explore.Fatal("C02: seed font unreadable: %v", err)
	}
	tables := map[string][]byte{}
	for n := range dir.Toc {
		b, err := dir.ReadTableBytes(bytes.NewReader(file), n)
		if err != nil {
			explore.Fatal("C02: seed font table %s: %v", n, err)
		}
		tables[n] = b
	}
	return dir.ScalerType, tables
}

func c02Rebuild(scaler uint32, tables map[string][]byte) []byte {
	// header.Write patches the head checksum in place: work on copies
	cp := map[string][]byte{}
	for k, v := range tables {
		if v != nil {
			cp[k] = append([]byte{}, v...)
		}
	}
	buf := &bytes.Buffer{}
	if _, err := header.Write(buf, scaler, cp); err != nil {
		explore.Fatal("C02: cannot rebuild seed font: %v", err)
	}
	return buf.Bytes()
}

var (
	c02Once     sync.Once
	c02AllSeeds []*c02Seed
)

func c02Seeds(thorough bool) []*c02Seed {
	c02Once.Do(func() {
		var seeds []*c02Seed
		seen := map[string]bool{}
		add := func(s ...*c02Seed) {
			for _, x := range s {
				key := x.dec + "\x00" + string(x.data)
				if x.dec == "glyf.Decode" || x.dec == "hmtx.Decode" {
					key += x.name
				}
				if !seen[key] {
					seen[key] = true
					seeds = append(seeds, x)
				}
			}
		}
		// ---- whole fonts ----
		type ff struct {
			name string
			file []byte
		}
		var fonts []ff
		for _, cf := range c18Fonts(false) {
			if cf.large {
				continue // (the seeds are small: every single deviation of every byte is tried)
			}
			fonts = append(fonts, ff{cf.name, cf.file})
		}
		// a font whose character map gives 'H' and 'x' by explicit glyph-id fields (format 12), with no
		// cap/x-height in OS/2 (Read measures the glyphs), and a kern table instead of GPOS
		{
			g, _ := FontFromChoices(gen.FontOpts{NoMeta: true, NoLayout: true}, 0, 2, 1, 1, 1)
			g.CapHeight, g.XHeight = 0, 0
			g.InstallCMap(cmap.Format12{'A': 1, 'H': 3, 'x': 5, 0x1F600: 2})
			buf := &bytes.Buffer{}
			if _, err := g.Write(buf); err != nil {
				explore.Fatal("C02: %v", err)
			}
			sc, tb := c02FontTables(buf.Bytes())
			tb["kern"] = c02KernTable()
			fonts = append(fonts, ff{"glyf-6-cmap12-kern", c02Rebuild(sc, tb)})
			// the same with a format 4 character map and a CFF font without OS/2 heights
			g.InstallCMap(cmap.Format4{'A': 1, 'H': 3, 'x': 5})
			buf = &bytes.Buffer{}
			g.Write(buf)
			fonts = append(fonts, ff{"glyf-6-cmap4", buf.Bytes()})
			cf, _ := FontFromChoices(gen.FontOpts{NoMeta: true, NoLayout: true}, 1, 2, 1, 1, 2, 1)
			cf.CapHeight, cf.XHeight = 0, 0
			cf.InstallCMap(cmap.Format12{'A': 1, 'H': 3, 'x': 5})
			buf = &bytes.Buffer{}
			if _, err := cf.Write(buf); err != nil {
				explore.Fatal("C02: %v", err)
			}
			fonts = append(fonts, ff{"cff-6-cmap12", buf.Bytes()})
		}
		for _, f := range fonts {
			add(c02TableSeed("sfnt.Read", f.name, f.file))
			add(c02TableSeed("header.Read", f.name, f.file))
			_, tb := c02FontTables(f.file)
			names := make([]string, 0, len(tb))
			for n := range tb {
				names = append(names, n)
			}
			sort.Strings(names)
			for _, n := range names {
				if d, ok := c02TableDecoder[n]; ok {
					add(c02TableSeed(d, f.name+"/"+n, tb[n]))
				}
			}
			if tb["glyf"] != nil && tb["loca"] != nil && tb["head"] != nil {
				hi, err := head.Read(bytes.NewReader(tb["head"]))
				if err == nil {
					add(c02GlyfSeeds(f.name, tb["glyf"], tb["loca"], hi.LocaFormat)...)
				}
			}
			if tb["hhea"] != nil && tb["hmtx"] != nil {
				add(c02HmtxSeeds(f.name, tb["hhea"], tb["hmtx"])...)
			}
		}
		// ---- stand-alone tables: one per lookup type / format ----
		encode := func(tp gtab.Type, ll gtab.LookupList) []byte {
			var out []byte
			if p := guard(func() { out = c08Info(tp, ll).Encode() }); p != "" {
				explore.Fatal("C02: cannot encode a seed: %s", p)
			}
			return out
		}
		for _, m := range gen.GsubSimple {
			add(c02TableSeed("gtab.Read/GSUB", m.Name, encode(gtab.TypeGsub, gtab.LookupList{gen.MakeLookup(m.Type, gen.Flags[0], m.Sub())})))
		}
		for _, m := range gen.GposSimple {
			add(c02TableSeed("gtab.Read/GPOS", m.Name, encode(gtab.TypeGpos, gtab.LookupList{gen.MakeLookup(m.Type, gen.Flags[0], m.Sub())})))
		}
		for _, m := range c19GposMenu[len(gen.GposSimple):] {
			add(c02TableSeed("gtab.Read/GPOS", m.Name, encode(gtab.TypeGpos, gtab.LookupList{gen.MakeLookup(m.Type, gen.Flags[0], m.Sub())})))
		}
		for form := 0; form < 6; form++ {
			pat := gen.Patterns[5]
			acts := []gtab.SeqLookup{{SequenceIndex: 0, LookupListIndex: 1}, {SequenceIndex: 1, LookupListIndex: 1}}
			t := uint16(5)
			if form >= 3 {
				t = 6
			}
			ll := gtab.LookupList{gen.MakeLookup(t, gen.Flags[0], []gtab.Subtable{gen.Context(form, pat, acts)}), gen.MakeLookup(1, gen.Flags[0], gen.GsubSimple[0].Sub())}
			add(c02TableSeed("gtab.Read/GSUB", gen.ContextForms[form], encode(gtab.TypeGsub, ll)))
			ll2 := gtab.LookupList{gen.MakeLookup(t+2, gen.Flags[0], []gtab.Subtable{gen.Context(form, pat, acts)}), gen.MakeLookup(1, gen.Flags[0], gen.GposSimple[0].Sub())}
			add(c02TableSeed("gtab.Read/GPOS", gen.ContextForms[form], encode(gtab.TypeGpos, ll2)))
		}
		// a lookup with a mark filtering set, and one reached through an extension subtable is produced by the encoder when needed only;
		// the flag is exercised here
		{
			l := gen.MakeLookup(1, gen.FlagSet{Flags: gtab.UseMarkFilteringSet | gtab.IgnoreLigatures, Set: 1}, gen.GsubSimple[0].Sub())
			add(c02TableSeed("gtab.Read/GSUB", "mark filtering set", encode(gtab.TypeGsub, gtab.LookupList{l})))
		}
		// lookup types the generator does not produce, assembled by hand: mark-to-ligature attachment
		// (GPOS 5) and extension lookups (GSUB 7 / GPOS 9) wrapping a single substitution / adjustment
		{
			wrap := func(lookupType int, sub []byte) []byte {
				out := be16(1, 0, 10, 12, 14) // header; empty script and feature lists
				out = append(out, be16(0, 0)...)
				out = append(out, be16(1, 4)...)                // lookup list: one lookup
				out = append(out, be16(lookupType, 0, 1, 8)...) // lookup: one subtable
				return append(out, sub...)
			}
			anchor := func(x, y int) []byte { return be16(1, x, y) }
			gpos5 := be16(1, 12, 18, 1, 24, 36)     // format, mark cov, lig cov, class count, mark array, lig array
			gpos5 = append(gpos5, be16(1, 1, 5)...) // mark coverage: M
			gpos5 = append(gpos5, be16(1, 1, 4)...) // ligature coverage: L
			gpos5 = append(gpos5, be16(1, 0, 6)...) // mark array: one record, class 0
			gpos5 = append(gpos5, anchor(10, 20)...)
			gpos5 = append(gpos5, be16(1, 4)...)     // ligature array: one ligature
			gpos5 = append(gpos5, be16(2, 6, 12)...) // ligature attach: two components, one class
			gpos5 = append(gpos5, anchor(100, 700)...)
			gpos5 = append(gpos5, anchor(400, 700)...)
			add(c02TableSeed("gtab.Read/GPOS", "GPOS5 mark-to-ligature (hand-assembled)", wrap(5, gpos5)))
			ext := func(extType int, sub []byte) []byte {
				out := be16(1, extType)
				out = append(out, be32(8)...)
				return append(out, sub...)
			}
			gsub1 := append(be16(1, 6, 1), be16(1, 1, 1)...) // single substitution format 1: coverage {A}, delta 1
			add(c02TableSeed("gtab.Read/GSUB", "GSUB7 extension wrapping GSUB1 (hand-assembled)", wrap(7, ext(1, gsub1))))
			gpos1 := append(be16(1, 8, 4, 10), be16(1, 1, 1)...) // single adjustment format 1: coverage {A}, xAdvance 10
			add(c02TableSeed("gtab.Read/GPOS", "GPOS9 extension wrapping GPOS1 (hand-assembled)", wrap(9, ext(1, gpos1))))
		}
		// coverage and class definition tables, both formats
		cov1 := be16(1, 3, 1, 2, 5)
		cov2 := be16(2, 2, 1, 3, 0, 7, 8, 3)
		for _, d := range []string{"coverage.Read", "coverage.ReadSet"} {
			add(c02TableSeed(d, "format 1", cov1), c02TableSeed(d, "format 2", cov2))
		}
		add(c02TableSeed("classdef.Read", "format 1", be16(1, 2, 3, 1, 2, 1)), c02TableSeed("classdef.Read", "format 2", be16(2, 2, 1, 3, 1, 7, 8, 2)))
		// GDEF with every sub-table
		{
			for k := 0; k < 4; k++ {
				gd, gname := gen.Gdef(k)
				if gd == nil {
					continue
				}
				var b []byte
				if p := guard(func() { b = gd.Encode() }); p == "" && b != nil {
					add(c02TableSeed("gdef.Read", "generator GDEF "+gname, b))
				}
			}
		}
		// cmap: formats 0, 4 (with glyph id array), 6, 12 under several keys
		{
			cm := func(subs ...[]byte) []byte {
				keys := [][2]int{{3, 1}, {1, 0}, {0, 3}, {3, 10}}
				out := be16(0, len(subs))
				off := 4 + 8*len(subs)
				for i, s := range subs {
					out = append(out, be16(keys[i][0], keys[i][1])...)
					out = binary.BigEndian.AppendUint32(out, uint32(off))
					off += len(s)
				}
				for _, s := range subs {
					out = append(out, s...)
				}
				return out
			}
			var g0 [256]byte
			g0['A'], g0['H'], g0['x'] = 1, 3, 5
			f4 := refcmap.Assemble4([]refcmap.Seg4{{Start: 'A', End: 'C', Delta: 0, Glyphs: []uint16{1, 2, 3}}, {Start: 'H', End: 'H', Delta: uint16(0x10000 + 3 - 'H')}, {Start: 0xFFFF, End: 0xFFFF, Delta: 1}}, 0)
			f6 := refcmap.Assemble6('A', []uint16{1, 2, 3, 0, 0, 0, 0, 3}, 0, false)
			f12 := cmap.Format12{'A': 1, 'H': 3, 0x10000: 2, 0x10001: 3}.Encode(0)
			add(c02TableSeed("cmap.Decode", "formats 4+0", cm(f4, refcmap.Assemble0(g0, 0))))
			add(c02TableSeed("cmap.Decode", "format 6", cm(f6)))
			add(c02TableSeed("cmap.Decode", "format 12", cm(f12)))
			add(c02TableSeed("cmap.Decode", "formats 4+12 shared", func() []byte {
				// two records pointing at one subtable, plus a format 12 one
				out := be16(0, 3, 0, 3)
				out = binary.BigEndian.AppendUint32(out, 28)
				out = append(out, be16(3, 1)...)
				out = binary.BigEndian.AppendUint32(out, 28)
				out = append(out, be16(3, 10)...)
				out = binary.BigEndian.AppendUint32(out, uint32(28+len(f4)))
				out = append(out, f4...)
				return append(out, f12...)
			}()))
		}
		// name: Macintosh and Windows records; post: formats 1, 2, 3
		{
			ni := &name.Info{Mac: name.Tables{"en": {Family: "Test", Subfamily: "Regular"}}, Windows: name.Tables{"en-US": {Family: "Test", Subfamily: "Regular", Version: "1.0"}, "de-DE": {Family: "Pr\u00fcfung"}}}
			var b []byte
			if p := guard(func() { b = ni.Encode(1) }); p == "" {
				add(c02TableSeed("name.Decode", "mac+windows", b))
			}
			for i, pi := range []*post.Info{{}, {Names: []string{".notdef", "A", "B", "custom", "A"}}, {Names: []string{".notdef", ".null", "nonmarkingreturn", "space"}}} {
				var pb []byte
				if p := guard(func() { pb = pi.Encode() }); p == "" {
					add(c02TableSeed("post.Read", fmt.Sprintf("post variant %d", i), pb))
				}
			}
		}
		// a glyf table whose last glyph is a composite with an instruction block (nothing behind it in the buffer)
		{
			simple := gen.SimpleGlyf([][]gen.Pt{{{0, 0, true}, {300, 0, true}, {150, 400, true}}}, nil)
			comp := gen.CompositeGlyf(funit.Rect16{URx: 300, URy: 400}, 0)
			d := comp.Data.(glyf.CompositeGlyph)
			d.Components[0].Flags |= glyf.FlagWeHaveInstructions
			d.Instructions = []byte{0xB0, 0x01, 0xB0}
			comp.Data = d
			enc := glyf.Glyphs{simple, comp}.Encode()
			add(c02GlyfSeeds("composite with instructions last", enc.GlyfData, enc.LocaData, enc.LocaFormat)...)
		}
		// a CID-keyed CFF table whose FDSelect has long runs (written in the range format 3)
		{
			f := &cff.Font{FontInfo: &type1.FontInfo{FontName: "Runs", FontMatrix: matrix.Matrix{0.001, 0, 0, 0.001, 0, 0}},
				Outlines: &cff.Outlines{ROS: &cid.SystemInfo{Registry: "Adobe", Ordering: "Identity"},
					Private:      []*type1.PrivateDict{{BlueValues: []funit.Int16{-10, 0, 700, 710}, BlueScale: 0.039625, BlueShift: 7, BlueFuzz: 1}, {BlueValues: []funit.Int16{-12, 0, 650, 660}, BlueScale: 0.039625, BlueShift: 7, BlueFuzz: 1}},
					FontMatrices: []matrix.Matrix{matrix.Identity, matrix.Identity},
					FDSelect:     func(g glyph.ID) int { return int(g) / 12 % 2 }}}
			for i := 0; i < 30; i++ {
				g := cff.NewGlyph("", float64(500+i))
				g.MoveTo(0, 0)
				g.LineTo(float64(100+i), 50)
				f.Glyphs = append(f.Glyphs, g)
				f.GIDToCID = append(f.GIDToCID, cid.CID(i))
			}
			buf := &bytes.Buffer{}
			if err := f.Write(buf); err == nil {
				add(c02TableSeed("cff.Read", "CID-keyed, FDSelect with three ranges", buf.Bytes()))
			}
		}
		add(c02TableSeed("kern.Read", "two subtables", c02KernTable()))
		c02AllSeeds = seeds
	})
	_ = thorough
	return c02AllSeeds
}

// ---- mutations ----

// c02Mutation is one deviation from a seed.
type c02Mutation struct {
	kind string
	pos  int
	val  uint32
}

func (m c02Mutation) String() string { return fmt.Sprintf("%s@%d=%#x", m.kind, m.pos, m.val) }

// c02ByteMutations enumerates the single-field deviations of a seed of length n (in a fixed order).
func c02ByteMutations(data []byte) []c02Mutation {
	n := len(data)
	var out []c02Mutation
	for k := 0; k < n; k++ {
		out = append(out, c02Mutation{"truncate", k, 0})
	}
	for p := 0; p < n; p++ {
		for _, v := range []byte{0x00, 0x01, 0x7F, 0x80, 0xFF} {
			if data[p] != v {
				out = append(out, c02Mutation{"byte", p, uint32(v)})
			}
		}
	}
	for p := 0; p+2 <= n; p += 2 {
		old := binary.BigEndian.Uint16(data[p:])
		seen := map[uint16]bool{old: true}
		vals := []int{0, 1, 2, 3, 4, 5, 6, 7, 8, 0x7FFF, 0x8000, 0xFFFE, 0xFFFF, n - 1, n, n + 1, n - p, n - p - 1, int(old) + 1, int(old) - 1, int(old) * 2, int(old) + 2}
		for _, v := range vals {
			u := uint16(v)
			if !seen[u] {
				seen[u] = true
				out = append(out, c02Mutation{"u16", p, uint32(u)})
			}
		}
	}
	for p := 0; p+4 <= n; p += 2 {
		old := binary.BigEndian.Uint32(data[p:])
		seen := map[uint32]bool{old: true}
		for _, v := range []uint32{0, 0x7FFFFFFF, 0x80000000, 0xFFFFFFFF, 0xFFFFFFFE, uint32(n), uint32(n - 1), uint32(n + 1), old + 1, old - 1} {
			if !seen[v] {
				seen[v] = true
				out = append(out, c02Mutation{"u32", p, v})
			}
		}
	}
	// appended bytes (a decoder that trusts "rest of the table")
	out = append(out, c02Mutation{"append", n, 1}, c02Mutation{"append", n, 3})
	return out
}

func c02Apply(data []byte, m c02Mutation) []byte {
	switch m.kind {
	case "truncate":
		return append([]byte{}, data[:min(m.pos, len(data))]...)
	case "append":
		return append(append([]byte{}, data...), make([]byte, m.val)...)
	}
	b := append([]byte{}, data...)
	switch m.kind {
	case "byte":
		if m.pos < len(b) {
			b[m.pos] = byte(m.val)
		}
	case "u16":
		if m.pos+2 <= len(b) {
			binary.BigEndian.PutUint16(b[m.pos:], uint16(m.val))
		}
	case "u32":
		if m.pos+4 <= len(b) {
			binary.BigEndian.PutUint32(b[m.pos:], m.val)
		}
	}
	return b
}

// structural deviations of a whole font: the table directory is rebuilt
func c02Structural(file []byte) (names []string, files [][]byte) {
	sc, tb := c02FontTables(file)
	tags := make([]string, 0, len(tb))
	for n := range tb {
		tags = append(tags, n)
	}
	sort.Strings(tags)
	variant := func(name string, scaler uint32, f func(m map[string][]byte)) {
		m := map[string][]byte{}
		for k, v := range tb {
			m[k] = v
		}
		f(m)
		names = append(names, name)
		files = append(files, c02Rebuild(scaler, m))
	}
	for _, t := range tags {
		t := t
		variant("remove "+t, sc, func(m map[string][]byte) { delete(m, t) })
		variant("empty "+t, sc, func(m map[string][]byte) { m[t] = []byte{} })
		variant("halve "+t, sc, func(m map[string][]byte) { m[t] = m[t][:len(m[t])/2] })
		variant("extend "+t+" by 10 bytes", sc, func(m map[string][]byte) { m[t] = append(append([]byte{}, m[t]...), 0, 1, 0, 2, 0, 3, 0, 4, 0, 5) })
	}
	// every table empty; only one table, which is empty
	variant("empty every table", sc, func(m map[string][]byte) {
		for t := range m {
			m[t] = []byte{}
		}
	})
	for _, t := range tags {
		t := t
		variant("only "+t+", empty", sc, func(m map[string][]byte) {
			for u := range m {
				delete(m, u)
			}
			m[t] = []byte{}
		})
	}
	// one table removed and another one of a different size: the tables that cross-check each other's
	// counts (maxp, hhea/hmtx, loca, post, CFF) get out of step in pairs
	coupled := map[string]bool{"maxp": true, "hhea": true, "hmtx": true, "head": true, "loca": true, "post": true, "CFF ": true, "glyf": true}
	for _, a := range tags {
		for _, b := range tags {
			if a != b && coupled[a] && coupled[b] {
				a, b := a, b
				variant("remove "+a+", extend "+b+" by 10 bytes", sc, func(m map[string][]byte) {
					delete(m, a)
					m[b] = append(append([]byte{}, m[b]...), 0, 1, 0, 2, 0, 3, 0, 4, 0, 5)
				})
				variant("remove "+a+", halve "+b, sc, func(m map[string][]byte) { delete(m, a); m[b] = m[b][:len(m[b])/2] })
			}
		}
	}
	for _, a := range tags {
		for _, b := range tags {
			if a < b {
				a, b := a, b
				variant("remove "+a+" and "+b, sc, func(m map[string][]byte) { delete(m, a); delete(m, b) })
			}
			if a != b {
				a, b := a, b
				variant("content of "+a+" under tag "+b, sc, func(m map[string][]byte) { m[b] = m[a] })
			}
		}
	}
	for _, s := range []uint32{0x00010000, 0x4F54544F, 0x74727565, 0x74797031, 0x74746366, 0} {
		if s != sc {
			variant(fmt.Sprintf("scaler %#x", s), s, func(m map[string][]byte) {})
		}
	}
	// outline tables of the other kind added
	variant("add empty CFF ", sc, func(m map[string][]byte) {
		if m["CFF "] == nil {
			m["CFF "] = []byte{}
		} else {
			m["glyf"], m["loca"] = []byte{}, []byte{}
		}
	})
	return
}

func c02Sig(seed *c02Seed, pm string) string {
	return seed.dec + " / " + explore.PanicSignature(pm)
}

// c02RunOne decodes b and drives the accessors; the result is a panic message (or ""), and whether the call finished.
func c02RunOne(seed *c02Seed, b []byte, limit time.Duration) (finished bool, decodeErr error, panicMsg string, stage string) {
	stage = "decode"
	finished, panicMsg = withWatchdog(limit, func() {
		v, err := seed.run(b)
		decodeErr = err
		if err == nil {
			stage = "accessors"
			c02Use(v)
		}
	})
	return
}

// cost bounds (see DESIGN.md, C02): steps <= c02S0 + c02S1*len(b), allocated bytes <= c02A0 + c02A1*len(b).
// A step is one function entry or one loop iteration of the library (vtick seam).
const (
	c02S0 = 1 << 24
	c02S1 = 1 << 10
	c02A0 = 256 << 20
	c02A1 = 16 << 10
)

var c02AllocSample = []metrics.Sample{{Name: "/gc/heap/allocs:bytes"}}

func c02AllocBytes() uint64 {
	metrics.Read(c02AllocSample)
	return c02AllocSample[0].Value.Uint64()
}

// c02Check runs one input: value or error, no panic, within the step and allocation bounds.  It must run
// in a process where no other goroutine executes library code (sharded exploration, or replay).
func c02Check(c *explore.Ctx, seed *c02Seed, b []byte, what func() string) {
	c.Checkpoint()
	budget := int64(c02S0 + c02S1*len(b))
	a0 := c02AllocBytes()
	sfnt.VerifTickStart(budget)
	finished, err, pm, stage := c02RunOne(seed, b, 120*time.Second)
	steps, exceeded := sfnt.VerifTickStop()
	alloc := c02AllocBytes() - a0
	c.Count("max:steps per execution", steps)
	c.Count("max:allocated bytes per execution", int64(alloc))
	c.Count("max:steps per input byte x1000 (inputs >= 64 bytes)", func() int64 {
		if len(b) < 64 {
			return 0
		}
		return steps * 1000 / int64(len(b))
	}())
	if !finished {
		c.FailObserved("C02.terminates", seed.dec+" / "+stage, "%s (%s) does not return within 120 s on a %d-byte input: %s", seed.dec, stage, len(b), what())
		return
	}
	if exceeded {
		c.Fail("C02.steps", seed.dec+" / "+stage, "%s (%s) needs more than %d steps (bound %d + %d per byte) on a %d-byte input: %s", seed.dec, stage, budget, c02S0, c02S1, len(b), what())
		return
	}
	if pm != "" {
		clause := "C02.panic"
		if stage == "accessors" {
			clause = "C02.accessor-panic"
		}
		c.Fail(clause, c02Sig(seed, pm), "%s panics (%s) on %s:\n%s", seed.dec, stage, what(), pm)
		return
	}
	if alloc > uint64(c02A0+c02A1*len(b)) {
		c.Fail("C02.alloc", seed.dec+" / "+stage, "%s (%s) allocates %d bytes (bound %d + %d per byte) on a %d-byte input: %s", seed.dec, stage, alloc, c02A0, c02A1, len(b), what())
	}
	// a case is the (decoder, input) pair; the behaviours (accepted / class of error) are counted separately
	h := fnv.New64a()
	h.Write(b)
	if err == nil {
		c.Nontrivial()
		c.Outcome(seed.dec, "accepted", h.Sum64())
		c.Count("behaviour: "+seed.dec+" accepts", 1)
	} else {
		c.Outcome(seed.dec, "rejected", h.Sum64())
		c.Count("behaviour: "+seed.dec+" rejects", 1)
	}
}

const c02Procs = 16
const c02Mem = 12 << 30 // address-space limit of a worker process

func c02Corruptions(r *run.Run, seeds []*c02Seed) {
	muts := make([][]c02Mutation, len(seeds))
	total := 0
	for i, s := range seeds {
		muts[i] = c02ByteMutations(s.data)
		total += len(muts[i])
	}
	r.ExploreSharded(explore.Config{Name: "C02.corruptions-1", Deadline: r.PartDeadline(0.6)},
		fmt.Sprintf("%d seeds (every decoder of the property; whole fonts and their tables, one table per lookup type/format, cmap formats 0/4/6/12, name, post 1/2/3, kern) x EVERY single deviation (%d in total): every truncation length, every byte x {00,01,7F,80,FF}, every 2-aligned 16-bit field x {0..8,7FFF,8000,FFFE,FFFF,len-1,len,len+1,len-pos,old+-1,old+2,2*old}, every 2-aligned 32-bit field x {0,7FFFFFFF,80000000,FFFFFFFE,FFFFFFFF,len,len+-1,old+-1}, appended bytes; after a successful decode the lazy accessors run", len(seeds), total), c02Procs, c02Mem,
		func(c *explore.Ctx) {
			si := c.Choose(len(seeds), "seed")
			seed := seeds[si]
			k := c.Choose(1+len(muts[si]), "deviation")
			b := seed.data
			desc := "the unmodified seed"
			if k > 0 {
				m := muts[si][k-1]
				b = c02Apply(seed.data, m)
				desc = m.String()
			}
			c.Sample(func() any { return seed.dec + " " + seed.name + " " + desc })
			c.Shard(explore.KeyOf(si, k))
			c02Check(c, seed, b, func() string {
				return fmt.Sprintf("seed %q with %s (%d bytes: %x)", seed.name, desc, len(b), b[:min(len(b), 96)])
			})
			if k == 0 {
				// the seeds themselves must be accepted, otherwise the corruptions explore nothing
				if _, err := seed.run(seed.data); err != nil {
					explore.Fatal("C02: seed %s %q is rejected: %v", seed.dec, seed.name, err)
				}
			}
		})
}

func c02Pairs(r *run.Run, seeds []*c02Seed, maxLen int, share float64) {
	var small []*c02Seed
	for _, s := range seeds {
		if len(s.data) <= maxLen {
			small = append(small, s)
		}
	}
	muts := make([][]c02Mutation, len(small))
	for i, s := range small {
		for _, m := range c02ByteMutations(s.data) {
			if m.kind != "byte" { // byte deviations are subsumed by the 16-bit ones for pairs
				muts[i] = append(muts[i], m)
			}
		}
	}
	r.ExploreSharded(explore.Config{Name: "C02.corruptions-2", Deadline: r.PartDeadline(share)},
		fmt.Sprintf("every PAIR of deviations (truncation, 16-bit and 32-bit field values as above) on the %d seeds of at most %d bytes", len(small), maxLen), c02Procs, c02Mem,
		func(c *explore.Ctx) {
			si := c.Choose(len(small), "seed")
			seed := small[si]
			mm := muts[si]
			k1 := c.Choose(len(mm), "first deviation")
			rest := len(mm) - k1 - 1
			if rest <= 0 {
				c.Skip("no second deviation")
			}
			k2 := k1 + 1 + c.Choose(rest, "second deviation")
			c.Shard(explore.KeyOf(si, k1, k2))
			b := c02Apply(c02Apply(seed.data, mm[k1]), mm[k2])
			c.Sample(func() any { return seed.dec + " " + seed.name + " " + mm[k1].String() + " " + mm[k2].String() })
			c02Check(c, seed, b, func() string {
				return fmt.Sprintf("seed %q with %s and %s (%d bytes: %x)", seed.name, mm[k1], mm[k2], len(b), b[:min(len(b), 96)])
			})
		})
}

func c02StructuralPart(r *run.Run, seeds []*c02Seed, bound int) {
	type sv struct {
		seed  *c02Seed
		names []string
		files [][]byte
	}
	var all []sv
	total := 0
	for _, s := range seeds {
		if s.whole {
			n, f := c02Structural(s.data)
			all = append(all, sv{s, n, f})
			total += len(f)
		}
	}
	hdr := c02TableSeed("header.Read", "", nil)
	r.ExploreSharded(explore.Config{Name: "C02.structural", Bound: bound, Deadline: r.PartDeadline(0.3)},
		fmt.Sprintf("%d whole fonts x %d structural deviations of the table directory (a byte alphabet never yields another valid tag): every table removed, emptied, halved, extended; all tables emptied; a single empty table; every pair of tables removed; one of the tables {maxp, hhea, hmtx, head, loca, glyf, post, CFF} removed and another one of them extended or halved; the content of every table under every other tag; scaler types exchanged; x (nothing | within the deviation bound: one further single-field deviation inside the first 12+16*numTables bytes); sfnt.Read and header.Read", len(all), total), c02Procs, c02Mem,
		func(c *explore.Ctx) {
			fi := c.Choose(len(all), "font")
			v := all[fi]
			k := c.Choose(len(v.names), "structural deviation")
			b := v.files[k]
			desc := v.names[k]
			// one more deviation in the directory
			dirLen := min(len(b), 12+16*int(binary.BigEndian.Uint16(b[4:])))
			dm := c02ByteMutations(b[:dirLen])
			j := c.Deviate(1+len(dm), "directory field")
			c.Shard(explore.KeyOf(fi, k, j))
			if j > 0 {
				m := dm[j-1]
				if m.kind == "truncate" || m.kind == "append" {
					c.Skip("truncations are covered by the single deviations")
				}
				b = c02Apply(b, m)
				desc += " + " + m.String()
			}
			c.Sample(func() any { return v.seed.name + ": " + desc })
			c02Check(c, v.seed, b, func() string { return fmt.Sprintf("font %q with %s", v.seed.name, desc) })
			c02Check(c, hdr, b, func() string { return fmt.Sprintf("font %q with %s", v.seed.name, desc) })
		})
}

// all byte strings of length <= maxLen over a small alphabet, for the header-less decoders
func c02Tiny(r *run.Run, maxLen int) {
	alphabet := []byte{0x00, 0x01, 0x02, 0xFF}
	decs := []string{"coverage.Read", "coverage.ReadSet", "classdef.Read", "maxp.Read", "kern.Read", "cmap.Decode", "name.Decode", "post.Read", "gdef.Read", "gtab.Read/GSUB", "gtab.Read/GPOS", "head.Read", "os2.Read", "cff.Read", "header.Read", "sfnt.Read"}
	var seeds []*c02Seed
	for _, d := range decs {
		seeds = append(seeds, c02TableSeed(d, "tiny", nil))
	}
	seeds = append(seeds, c02GlyfSeeds("tiny", nil, be16(0, 2, 4), 0)...)
	seeds = append(seeds, c02HmtxSeeds("tiny", make([]byte, 36), nil)...)
	r.ExploreSharded(explore.Config{Name: "C02.tiny", Deadline: r.PartDeadline(0.4)},
		fmt.Sprintf("ALL byte strings of length <= %d over {00,01,02,FF} given to each of %d decoder entry points", maxLen, len(seeds)), c02Procs, c02Mem,
		func(c *explore.Ctx) {
			di := c.Choose(len(seeds), "decoder")
			seed := seeds[di]
			n := c.Choose(maxLen+1, "length")
			b := make([]byte, n)
			key := []int{di, n}
			for i := range b {
				k := c.Choose(len(alphabet), "byte")
				b[i] = alphabet[k]
				key = append(key, k)
			}
			c.Shard(explore.KeyOf(key...))
			c.Sample(func() any { return fmt.Sprintf("%s %x", seed.dec, b) })
			c02Check(c, seed, b, func() string { return fmt.Sprintf("the %d-byte input %x", len(b), b) })
		})
}

// Type 2 programs over the complete operator alphabet: every one-byte operator code (incl. the reserved
// ones) and every escaped operator, each with too few, enough and too many operands, in all ordered
// pairs; assembled into a complete CFF by the independent assembler and handed to cff.Read.
func c02Programs(r *run.Run) {
	var ops [][]byte
	for b := 0; b < 32; b++ {
		if b == 12 || b == 28 {
			continue
		}
		ops = append(ops, []byte{byte(b)})
	}
	for b := 0; b <= 40; b++ {
		ops = append(ops, []byte{12, byte(b)})
	}
	ops = append(ops, []byte{12}, []byte{28, 1}, []byte{255, 0, 1}) // truncated escape and numbers
	num := func(v int) []byte {
		switch {
		case v >= -107 && v <= 107:
			return []byte{byte(v + 139)}
		default:
			return []byte{28, byte(uint16(int16(v)) >> 8), byte(v)}
		}
	}
	operands := [][]int{{}, {0}, {1}, {-1}, {32}, {1, 0}, {5, 31}, {5, 32}, {-107, -107}, {0, 0, 0}, {1, 2, 3, 4}, {3, 1, 2, 1, 4}, {1, 2, 3, 4, 5, 6, 7}}
	seed := c02TableSeed("cff.Read", "type 2 programs", nil)
	subr := [][]byte{{11}, {139 + 1, 139 + 2, 21, 11}}
	r.ExploreSharded(explore.Config{Name: "C02.t2-programs", Deadline: r.PartDeadline(0.3)},
		fmt.Sprintf("charstrings 'operands op1 operands op2 [endchar]' over ALL %d operator encodings (every one-byte code incl. reserved ones, every escaped operator 12 0..40, truncated escape / number prefixes) x %d operand lists (0..7 operands incl. the storage indices 31 / 32 / -1 and subroutine numbers), with local and global subroutines present, assembled into a CFF by the independent assembler: cff.Read returns a value or an error", len(ops), len(operands)),
		c02Procs, c02Mem,
		func(c *explore.Ctx) {
			a := c.Choose(len(ops), "first operator")
			pa := c.Choose(len(operands), "operands of the first operator")
			bsel := c.Choose(len(ops)+1, "second operator")
			pb := 0
			if bsel > 0 {
				pb = c.Choose(len(operands), "operands of the second operator")
			}
			end := c.Bool("endchar")
			c.Shard(explore.KeyOf(a, pa, bsel, pb))
			var prog []byte
			for _, v := range operands[pa] {
				prog = append(prog, num(v)...)
			}
			prog = append(prog, ops[a]...)
			if bsel > 0 {
				for _, v := range operands[pb] {
					prog = append(prog, num(v)...)
				}
				prog = append(prog, ops[bsel-1]...)
			}
			if end {
				prog = append(prog, 14)
			}
			b := refcff.Assemble(&refcff.AsmSpec{Name: "T2", CharStrings: [][]byte{{14}, prog}, GlyphNames: []string{"A"}, GlobalSubrs: subr, Privates: []refcff.AsmPrivate{{LocalSubrs: subr}}})
			c.Sample(func() any { return fmt.Sprintf("charstring % x", prog) })
			c02Check(c, seed, b, func() string { return fmt.Sprintf("a CFF font whose glyph 1 is the charstring <% x>", prog) })
		})
}

// c02Recursion: subroutines that call themselves or each other, in every position of the call (in the middle,
// as the last operator, in front of the return): the interpreter bounds the nesting, whatever the shape.
func c02Recursion(r *run.Run) {
	const callsubr, callgsubr, ret = 10, 29, 11
	s0, s1 := byte(139-107), byte(139-106) // subroutine numbers 0 and 1 (bias 107)
	bodies := [][]byte{
		{ret},
		{s0, callsubr}, {s0, callsubr, ret}, {s0, callgsubr}, {s0, callgsubr, ret},
		{s1, callsubr, ret}, {s1, callgsubr, ret},
		{140, 141, 21, s0, callgsubr}, {s0, callsubr, 140, 141, 21, ret},
	}
	seed := c02TableSeed("cff.Read", "type 2 recursion", nil)
	r.Explore(explore.Config{Name: "C02.t2-recursion", Workers: 1, Deadline: r.PartDeadline(0.2)},
		fmt.Sprintf("CFF fonts with two global and two local subroutines, each with one of %d bodies (return; a call of subroutine 0 or 1 of either kind as the last operator, in front of a return, or followed by a move), and a glyph that calls local or global subroutine 0: cff.Read returns a value or an error within the step bound (direct and mutual recursion in every shape)", len(bodies)),
		func(c *explore.Ctx) {
			pick := func(what string) []byte { return bodies[c.Choose(len(bodies), what)] }
			g := [][]byte{pick("global subroutine 0"), pick("global subroutine 1")}
			l := [][]byte{pick("local subroutine 0"), pick("local subroutine 1")}
			prog := []byte{s0, callsubr, 14}
			if c.Bool("the glyph calls the global subroutine") {
				prog = []byte{s0, callgsubr, 14}
			}
			b := refcff.Assemble(&refcff.AsmSpec{Name: "Rec", CharStrings: [][]byte{{14}, prog}, GlyphNames: []string{"A"}, GlobalSubrs: g, Privates: []refcff.AsmPrivate{{LocalSubrs: l}}})
			what := func() string {
				return fmt.Sprintf("a CFF font with the global subroutines <% x> <% x>, the local subroutines <% x> <% x> and the glyph <% x>", g[0], g[1], l[0], l[1], prog)
			}
			c.Sample(func() any { return what() })
			c02Check(c, seed, b, what)
		})
}

// a real-world sized font (Go Regular, 149 kB) with a thinned-out deviation alphabet
func c02Large(r *run.Run) {
	seed := c02TableSeed("sfnt.Read", "Go Regular", goregular.TTF)
	n := len(seed.data)
	type dv struct {
		pos  int
		kind int
	}
	var devs []dv
	for p := 0; p+2 <= n; p += 2 {
		for k := 0; k < 3; k++ {
			devs = append(devs, dv{p, k})
		}
	}
	for p := 0; p < n; p += 256 {
		devs = append(devs, dv{p, 3})
	}
	r.ExploreSharded(explore.Config{Name: "C02.large", Deadline: r.PartDeadline(0.9)},
		fmt.Sprintf("Go Regular (%d bytes): every 2-aligned 16-bit field x {0000, FFFF, old+1} and truncation at every 256th length (%d deviations), sfnt.Read + accessors", n, len(devs)), c02Procs, c02Mem,
		func(c *explore.Ctx) {
			k := c.Choose(len(devs), "deviation")
			c.Shard(explore.KeyOf(k))
			d := devs[k]
			var b []byte
			desc := ""
			switch d.kind {
			case 3:
				b = seed.data[:d.pos]
				desc = fmt.Sprintf("truncate@%d", d.pos)
			default:
				old := binary.BigEndian.Uint16(seed.data[d.pos:])
				v := []uint16{0, 0xFFFF, old + 1}[d.kind]
				if v == old {
					c.Skip("same value")
				}
				b = append([]byte{}, seed.data...)
				binary.BigEndian.PutUint16(b[d.pos:], v)
				desc = fmt.Sprintf("u16@%d=%#x", d.pos, v)
			}
			c.Sample(func() any { return "Go Regular " + desc })
			c02Check(c, seed, b, func() string { return "Go Regular with " + desc })
		})
}

func init() {
	Register("C02", func(r *run.Run) {
		r.Rule = "every decoder of the property on bounded exhaustive families of inputs: all tiny byte strings, every single (and, for small seeds, every pair of) field deviation(s) and truncation of valid seeds, structural deviations of the table directory, amplification families at growing scale; oracle: value or error, no panic (recover), termination (step budget), work and allocation linear in the input size"
		r.Assume = []string{
			"the deviation alphabet is the listed boundary values; other byte values are not tried",
			"seeds are small (tables of 10-2000 bytes, fonts of 1-3 kB); 'several MB' inputs are represented by the amplification families only",
		}
		seeds := c02Seeds(!r.Quick())
		maxTiny := 7
		pairLen := 40
		if !r.Quick() {
			maxTiny, pairLen = 9, 120
		}
		c02FamiliesPart(r)
		c02Programs(r)
		c02Recursion(r)
		c02ReencodeLimits(r)
		c02ReencodeGdef(r)
		c02ReencodeHeader(r)
		c02Corruptions(r, seeds)
		sb := 0
		if !r.Quick() {
			sb = 1
		}
		c02StructuralPart(r, seeds, sb)
		c02Tiny(r, maxTiny)
		c02Pairs(r, seeds, pairLen, 0.8)
		if !r.Quick() {
			c02Large(r)
		}
	})
}
