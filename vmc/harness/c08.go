package harness

import (
	"bytes"
	"encoding/binary"
	"fmt"
	"reflect"
	"sort"

	"github.com/google/go-cmp/cmp"
	"github.com/google/go-cmp/cmp/cmpopts"
	"golang.org/x/text/language"

	"seehuhn.de/go/postscript/funit"
	"seehuhn.de/go/sfnt/glyph"
	"seehuhn.de/go/sfnt/opentype/anchor"
	"seehuhn.de/go/sfnt/opentype/classdef"
	"seehuhn.de/go/sfnt/opentype/coverage"
	"seehuhn.de/go/sfnt/opentype/gdef"
	"seehuhn.de/go/sfnt/opentype/gtab"
	"seehuhn.de/go/sfnt/opentype/markarray"
	"seehuhn.de/go/sfnt/parser"

	"verif/explore"
	"verif/gen"
	"verif/run"
)

// C08: GSUB/GPOS/GDEF binary encoding round-trips with consistent offsets and sizes.

var c08Gids = []glyph.ID{0, 1, 2, 3, 5, 6, 7, 0xFFFD, 0xFFFE, 0xFFFF}

// normal form: a nil value record and an all-zero value record are the same thing (whether the second
// record of a pair is stored is a property of the whole subtable: valueFormat2)
var c08cmp = []cmp.Option{cmpopts.EquateEmpty(), cmp.Exporter(func(reflect.Type) bool { return true }),
	cmp.Comparer(func(a, b *gtab.GposValueRecord) bool {
		var zero gtab.GposValueRecord
		if a == nil {
			a = &zero
		}
		if b == nil {
			b = &zero
		}
		return *a == *b
	})}

func guard(f func()) (panicMsg string) {
	defer func() {
		if r := recover(); r != nil {
			panicMsg = fmt.Sprint(r)
		}
	}()
	f()
	return ""
}

func c08Coverage(r *run.Run) {
	r.Explore(explore.Config{Name: "C08.coverage"},
		"coverage.Table and coverage.Set: all 2^10 subsets of the glyph ids {0,1,2,3,5,6,7,0xFFFD,0xFFFE,0xFFFF}: Read(Encode(x)) == x, EncodeLen == len(Encode), coverage indices 0..n-1 in increasing glyph order, the smaller of the two formats chosen",
		func(c *explore.Ctx) {
			var gl []glyph.ID
			for _, g := range c08Gids {
				if c.Bool(fmt.Sprintf("glyph %#x", g)) {
					gl = append(gl, g)
				}
			}
			c.Sample(func() any { return fmt.Sprint(gl) })
			if len(gl) >= 2 {
				c.Nontrivial()
			}
			tab := coverage.Table{}
			set := coverage.Set{}
			for i, g := range gl {
				tab[g] = i
				set[g] = true
			}
			enc := tab.Encode()
			c.Outcome(enc)
			if tab.EncodeLen() != len(enc) {
				c.Fail("C08.sizes", "coverage.Table", "EncodeLen()=%d but Encode() emits %d bytes for %v", tab.EncodeLen(), len(enc), gl)
			}
			// independent size computation
			ranges := 0
			for i, g := range gl {
				if i == 0 || g != gl[i-1]+1 {
					ranges++
				}
			}
			f1, f2 := 4+2*len(gl), 4+6*ranges
			if len(enc) != min(f1, f2) {
				c.Fail("C08.minimal", "coverage.Table", "coverage of %v encoded in %d bytes; format 1 needs %d, format 2 needs %d", gl, len(enc), f1, f2)
			}
			// independent decode
			if got := refCoverage(enc); fmt.Sprint(got) != fmt.Sprint(gl) {
				c.Fail("C08.structure", "coverage.Table", "an independent reader sees glyphs %v (in coverage-index order), want %v", got, gl)
			}
			back, err := coverage.Read(parser.New(bytes.NewReader(enc)), 0)
			if err != nil {
				c.Fail("C08.roundtrip", "coverage.Table", "Read(Encode(%v)) fails: %v", gl, err)
			} else if d := cmp.Diff(tab, back, c08cmp...); d != "" {
				c.Fail("C08.roundtrip", "coverage.Table", "Read(Encode(%v)) differs: %s", gl, trimDiff(d))
			}
			senc := set.ToTable().Encode()
			sback, err := coverage.ReadSet(parser.New(bytes.NewReader(senc)), 0)
			if err != nil {
				c.Fail("C08.roundtrip", "coverage.Set", "ReadSet fails for %v: %v", gl, err)
			} else if d := cmp.Diff(set, sback, c08cmp...); d != "" {
				c.Fail("C08.roundtrip", "coverage.Set", "ReadSet(Encode(%v)) differs: %s", gl, trimDiff(d))
			}
		})
}

// refCoverage decodes a coverage table per the specification; returns the glyphs in coverage-index order.
func refCoverage(b []byte) []glyph.ID {
	if len(b) < 4 {
		return nil
	}
	n := int(binary.BigEndian.Uint16(b[2:]))
	var out []glyph.ID
	switch binary.BigEndian.Uint16(b) {
	case 1:
		for i := 0; i < n && 4+2*i+2 <= len(b); i++ {
			out = append(out, glyph.ID(binary.BigEndian.Uint16(b[4+2*i:])))
		}
	case 2:
		for i := 0; i < n && 4+6*i+6 <= len(b); i++ {
			s, e, idx := int(binary.BigEndian.Uint16(b[4+6*i:])), int(binary.BigEndian.Uint16(b[6+6*i:])), int(binary.BigEndian.Uint16(b[8+6*i:]))
			if idx != len(out) {
				return append(out, 0xDEAD) // startCoverageIndex inconsistent
			}
			for g := s; g <= e; g++ {
				out = append(out, glyph.ID(g))
			}
		}
	}
	return out
}

func c08Classdef(r *run.Run) {
	ids := c08Gids
	if r.Quick() {
		ids = []glyph.ID{0, 1, 2, 3, 5, 0xFFFD, 0xFFFE, 0xFFFF}
	}
	r.Explore(explore.Config{Name: "C08.classdef"},
		"classdef.Table: all maps glyph -> class in {0,1,2} over 8 (quick) / 10 glyph ids at both ends of the glyph range: Read(Append(x)) == x with class 0 entries dropped, AppendLen == emitted size, the smaller of the two formats chosen",
		func(c *explore.Ctx) {
			tab := classdef.Table{}
			for _, g := range ids {
				if k := c.Choose(3, fmt.Sprintf("class of %#x", g)); k > 0 {
					tab[g] = uint16(k)
				}
			}
			c.Sample(func() any { return fmt.Sprint(tab) })
			if len(tab) >= 2 {
				c.Nontrivial()
			}
			var enc []byte
			if p := guard(func() { enc = tab.Append(nil) }); p != "" {
				c.Fail("C08.panic", "classdef.Append", "Append panics for %v: %s", tab, p)
				return
			}
			c.Outcome(enc)
			if tab.AppendLen() != len(enc) {
				c.Fail("C08.sizes", "classdef.Table", "AppendLen()=%d but Append emits %d bytes for %v", tab.AppendLen(), len(enc), tab)
			}
			// sizes per the specification
			var gl []int
			for g := range tab {
				gl = append(gl, int(g))
			}
			sort.Ints(gl)
			f1, f2 := 6, 4
			if len(gl) > 0 {
				f1 = 6 + 2*(gl[len(gl)-1]-gl[0]+1)
				ranges := 0
				for i, g := range gl {
					if i == 0 || g != gl[i-1]+1 || tab[glyph.ID(g)] != tab[glyph.ID(gl[i-1])] {
						ranges++
					}
				}
				f2 = 4 + 6*ranges
			}
			if len(enc) > min(f1, f2) {
				c.Fail("C08.minimal", "classdef.Table", "class definition %v encoded in %d bytes; format 1 needs %d, format 2 needs %d", tab, len(enc), f1, f2)
			}
			back, err := classdef.Read(parser.New(bytes.NewReader(enc)), 0)
			if err != nil {
				c.Fail("C08.roundtrip", "classdef.Table", "Read(Append(%v)) fails: %v", tab, err)
			} else if d := cmp.Diff(tab, back, c08cmp...); d != "" {
				c.Fail("C08.roundtrip", "classdef.Table", "Read(Append(%v)) differs: %s", tab, trimDiff(d))
			}
		})
}

// coverage and class-definition tables that span the whole glyph range: counts of 65535 / 65536
// entries or ranges sit at the limit of the 16-bit count fields
func c08RangeLimits(r *run.Run) {
	spans := [][2]int{{0, 0xFFFF}, {0, 0xFFFE}, {1, 0xFFFF}, {0, 0x7FFF}, {0x8000, 0xFFFF}, {0, 0xFFFD}}
	r.Explore(explore.Config{Name: "C08.range-limits"},
		"coverage tables and class definitions over the glyph spans [0,0xFFFF] [0,0xFFFE] [1,0xFFFF] [0,0x7FFF] [0x8000,0xFFFF] [0,0xFFFD] x {every glyph, every second glyph, alternating classes 1/2, one class}: the encoder either refuses loudly (panic) or the bytes have the declared length and decode to the same table",
		func(c *explore.Ctx) {
			sp := spans[c.Choose(len(spans), "span")]
			pattern := c.Choose(4, "pattern")
			kind := c.Choose(2, "table kind")
			desc := fmt.Sprintf("%s over [%#x,%#x], pattern %s", []string{"coverage", "classdef"}[kind], sp[0], sp[1], []string{"every glyph", "every second glyph", "alternating classes", "every third glyph missing"}[pattern])
			c.Sample(func() any { return desc })
			c.Nontrivial()
			in := func(g int) bool {
				switch pattern {
				case 1:
					return (g-sp[0])%2 == 0
				case 3:
					return (g-sp[0])%3 != 2
				}
				return true
			}
			if kind == 0 {
				tab := coverage.Table{}
				for g := sp[0]; g <= sp[1]; g++ {
					if in(g) {
						tab[glyph.ID(g)] = len(tab)
					}
				}
				var enc []byte
				if p := guard(func() { enc = tab.Encode() }); p != "" {
					c.Tag("refused loudly: " + p)
					c.Outcome("refused", desc)
					return
				}
				c.Outcome(len(enc), desc)
				if tab.EncodeLen() != len(enc) {
					c.Fail("C08.sizes", "coverage.Table range limits", "EncodeLen()=%d but Encode() emits %d bytes; %s", tab.EncodeLen(), len(enc), desc)
				}
				back, err := coverage.Read(parser.New(bytes.NewReader(enc)), 0)
				if err != nil {
					c.Fail("C08.roundtrip", "coverage.Table range limits", "Read(Encode(x)) fails: %v; %s (%d entries, %d bytes, format %d, count field %d)", err, desc, len(tab), len(enc), enc[1], binary.BigEndian.Uint16(enc[2:]))
				} else if len(back) != len(tab) || !reflect.DeepEqual(tab, back) {
					c.Fail("C08.roundtrip", "coverage.Table range limits", "Read(Encode(x)) has %d entries, x has %d (or indices differ); %s (%d bytes, format %d, count field %d)", len(back), len(tab), desc, len(enc), enc[1], binary.BigEndian.Uint16(enc[2:]))
				}
				return
			}
			tab := classdef.Table{}
			for g := sp[0]; g <= sp[1]; g++ {
				if in(g) {
					cls := uint16(1)
					if pattern == 2 {
						cls = uint16(1 + (g-sp[0])%2)
					}
					tab[glyph.ID(g)] = cls
				}
			}
			var enc []byte
			if p := guard(func() { enc = tab.Append(nil) }); p != "" {
				c.Tag("refused loudly: " + p)
				c.Outcome("refused", desc)
				return
			}
			c.Outcome(len(enc), desc)
			if tab.AppendLen() != len(enc) {
				c.Fail("C08.sizes", "classdef.Table range limits", "AppendLen()=%d but Append emits %d bytes; %s", tab.AppendLen(), len(enc), desc)
			}
			back, err := classdef.Read(parser.New(bytes.NewReader(enc)), 0)
			if err != nil {
				c.Fail("C08.roundtrip", "classdef.Table range limits", "Read(Append(x)) fails: %v; %s (%d entries, %d bytes, format %d)", err, desc, len(tab), len(enc), enc[1])
			} else if !reflect.DeepEqual(tab, back) {
				c.Fail("C08.roundtrip", "classdef.Table range limits", "Read(Append(x)) has %d entries, x has %d (or classes differ); %s (%d bytes, format %d, count field %d)", len(back), len(tab), desc, len(enc), enc[1], binary.BigEndian.Uint16(enc[2:]))
			}
		})
}

func c08Gdef(r *run.Run) {
	classes := []classdef.Table{nil, {1: 1, 2: 3}, {0: 2, 0xFFFF: 4, 7: 1}, {1: 1, 2: 1, 3: 1, 4: 1, 5: 1, 6: 3}}
	attach := []classdef.Table{nil, {2: 1}, {2: 1, 6: 2, 0xFFFE: 255}}
	sets := [][]coverage.Set{nil, {{2: true}}, {{2: true, 6: true}, {}, {0: true, 0xFFFF: true}}}
	r.Explore(explore.Config{Name: "C08.gdef"},
		"gdef.Table: all combinations of 4 glyph-class tables x 3 mark-attachment-class tables x 3 mark-glyph-set lists: Read(Encode(x)) == x",
		func(c *explore.Ctx) {
			t := &gdef.Table{GlyphClass: classes[c.Choose(len(classes), "glyph classes")], MarkAttachClass: attach[c.Choose(len(attach), "attach classes")], MarkGlyphSets: sets[c.Choose(len(sets), "mark sets")]}
			c.Sample(func() any { return fmt.Sprintf("%+v", t) })
			c.Nontrivial()
			enc := t.Encode()
			c.Outcome(enc)
			back, err := gdef.Read(bytes.NewReader(enc))
			if err != nil {
				c.Fail("C08.roundtrip", "gdef.Table", "Read(Encode(x)) fails: %v for %+v", err, t)
				return
			}
			if d := cmp.Diff(t, back, c08cmp...); d != "" {
				c.Fail("C08.roundtrip", "gdef.Table "+diffSig(d), "GDEF differs after the round trip: %s", trimDiff(d))
			}
		})
}

// c08GdefLimits: the header of a GDEF table has 16-bit offsets to its parts; glyph class and mark
// attachment class tables over many glyphs push the later parts beyond 64 KiB.
func c08GdefLimits(r *run.Run) {
	alternating := func(n int, a, b uint16) classdef.Table {
		t := classdef.Table{}
		for i := 0; i < n; i++ {
			t[glyph.ID(1+i)] = []uint16{a, b}[i%2]
		}
		return t
	}
	// with n alternating classes a class definition table takes 6 + 2n bytes (format 1)
	counts := []int{1, 1000, 32740}
	for n := 32748; n <= 32770; n++ {
		counts = append(counts, n)
	}
	counts = append(counts, 40000, 65535)
	r.Explore(explore.Config{Name: "C08.gdef-limits"},
		"gdef.Table with glyph class / mark attachment class tables of n alternating classes, n in {1, 1000, 32740, every value 32748..32770 (the following part starts at offset 0x10000 +- 20), 40000, 65535}, the large table in either position, with no / 1 / 3 / an empty list of mark glyph sets: Read(Encode(x)) == x or the encoder refuses loudly",
		func(c *explore.Ctx) {
			n := counts[c.Choose(len(counts), "entries of the large class table")]
			where := c.Choose(3, "large table")
			t := &gdef.Table{}
			switch where {
			case 0: // large glyph class table, small mark attachment table behind it
				t.GlyphClass = alternating(n, 1, 3)
				t.MarkAttachClass = classdef.Table{2: 1, 4: 2}
			case 1: // small glyph class table, large mark attachment table (mark sets behind it)
				t.GlyphClass = classdef.Table{1: 1, 2: 3}
				t.MarkAttachClass = alternating(n, 1, 2)
			default: // two tables of half the size each
				t.GlyphClass = alternating(n/2, 1, 3)
				t.MarkAttachClass = alternating(n-n/2, 2, 1)
			}
			sets := c.Choose(4, "mark glyph sets")
			if sets == 1 || sets == 2 {
				t.MarkGlyphSets = []coverage.Set{{2: true, 6: true}}
			}
			if sets == 2 {
				t.MarkGlyphSets = append(t.MarkGlyphSets, coverage.Set{}, coverage.Set{4: true})
			}
			if sets == 3 {
				t.MarkGlyphSets = []coverage.Set{} // present but empty (what Read returns for a count of 0): still a version 1.2 table
			}
			desc := fmt.Sprintf("%d alternating classes, large table %d, %d mark glyph sets", n, where, len(t.MarkGlyphSets))
			c.Sample(func() any { return desc })
			c.Nontrivial()
			var enc []byte
			if p := guard(func() { enc = t.Encode() }); p != "" {
				c.Tag("refused loudly: " + p)
				c.Outcome("refused", desc)
				return
			}
			c.Outcome(len(enc), desc)
			back, err := gdef.Read(bytes.NewReader(enc))
			if err != nil {
				c.Fail("C08.roundtrip", "gdef.Table at the offset limit", "Read(Encode(x)) fails: %v (%d bytes; %s)", err, len(enc), desc)
				return
			}
			if !reflect.DeepEqual(t, back) {
				if d := cmp.Diff(t, back, c08cmp...); d != "" {
					c.Fail("C08.roundtrip", "gdef.Table at the offset limit "+diffSig(d), "GDEF differs after the round trip (%d bytes; %s): %s", len(enc), desc, trimDiff(d))
				}
			}
		})
}

// c08ScriptListLimits: script tables and the script list use 16-bit offsets; many language systems with
// long feature lists push them beyond 64 KiB.
func c08ScriptListLimits(r *run.Run) {
	scripts, langs := gtab.VerifTagTables()
	var ss, ll []string
	for k := range scripts {
		ss = append(ss, k)
	}
	for k := range langs {
		ll = append(ll, k)
	}
	sort.Strings(ss)
	sort.Strings(ll)
	mk := func(nScripts, nLangs, nFeat int) *gtab.Info {
		info := &gtab.Info{ScriptList: gtab.ScriptListInfo{}, LookupList: gtab.LookupList{gen.MakeLookup(1, gen.Flags[0], gen.GsubSimple[0].Sub())}}
		for i := 0; i < max(nFeat, 1); i++ {
			info.FeatureList = append(info.FeatureList, &gtab.Feature{Tag: fmt.Sprintf("f%03d", i), Lookups: []gtab.LookupIndex{0}})
		}
		var opt []gtab.FeatureIndex
		for i := 0; i < nFeat; i++ {
			opt = append(opt, gtab.FeatureIndex(i))
		}
		for si := 0; si < nScripts; si++ {
			for li := -1; li < nLangs; li++ {
				lang := ""
				if li >= 0 {
					lang = ll[(li+7*si)%len(ll)]
				}
				tag, err := gtab.VerifOtfToBCP47(ss[si], lang)
				if err != nil {
					continue
				}
				info.ScriptList[tag] = &gtab.Features{Required: 0xFFFF, Optional: opt}
			}
		}
		return info
	}
	r.Explore(explore.Config{Name: "C08.script-list-limits", Deadline: r.PartDeadline(0.3)},
		fmt.Sprintf("script lists at the 16-bit offset limits: one script with all %d languages of the tag table x 0..64 optional features per language system (the script table crosses 64 KiB), one script with 500..%d languages x 56 features, and all %d scripts x 15..40 languages x 1 feature (the script list crosses 64 KiB): the list comes back intact or the encoder refuses loudly", len(ll), len(ll), len(ss)),
		func(c *explore.Ctx) {
			var info *gtab.Info
			var desc string
			switch c.Choose(3, "family") {
			case 0:
				f := c.Choose(65, "optional features")
				info, desc = mk(1, len(ll), f), fmt.Sprintf("1 script x %d languages x %d features", len(ll), f)
			case 1:
				l := 500 + c.Choose(len(ll)-499, "languages")
				info, desc = mk(1, l, 56), fmt.Sprintf("1 script x %d languages x 56 features", l)
			default:
				m := 15 + c.Choose(26, "languages per script")
				info, desc = mk(len(ss), m, 1), fmt.Sprintf("%d scripts x %d languages x 1 feature", len(ss), m)
			}
			c.Sample(func() any { return desc })
			c.Nontrivial()
			c08RoundTripOnce(c, "script list limits", info, gtab.TypeGsub, desc)
		})
}

// c08HeaderOrders: tables in which one, two or all three of script list, feature list and lookup list are
// large.  The header holds three 16-bit offsets, so a table is representable if some order of the lists lets
// every list start within the first 64 KiB (the reader accepts every order).
func c08HeaderOrders(r *run.Run) {
	_, langs := gtab.VerifTagTables()
	var ll []string
	for k := range langs {
		ll = append(ll, k)
	}
	sort.Strings(ll)
	mk := func(nLang, nFeat, nLookup int) *gtab.Info {
		info := &gtab.Info{ScriptList: gtab.ScriptListInfo{}}
		for i := 0; i < nLookup; i++ {
			info.LookupList = append(info.LookupList, gen.MakeLookup(1, gen.Flags[0], []gtab.Subtable{&gtab.Gsub1_1{Cov: coverage.Set{glyph.ID(1 + i%50): true}, Delta: glyph.ID(1 + i%7)}}))
		}
		for i := 0; i < max(nFeat, 64); i++ {
			info.FeatureList = append(info.FeatureList, &gtab.Feature{Tag: fmt.Sprintf("f%03d", i%1000), Lookups: []gtab.LookupIndex{gtab.LookupIndex(i % nLookup)}})
		}
		var opt []gtab.FeatureIndex
		for i := 0; i < 64; i++ {
			opt = append(opt, gtab.FeatureIndex(i))
		}
		for li := -1; li < nLang; li++ {
			lang := ""
			if li >= 0 {
				lang = ll[li]
			}
			if tag, err := gtab.VerifOtfToBCP47("latn", lang); err == nil {
				info.ScriptList[tag] = &gtab.Features{Required: 0xFFFF, Optional: opt}
			}
		}
		return info
	}
	langCounts, featCounts, lookupCounts := []int{0, 180, 310}, []int{64, 2100, 3600}, []int{1, 1150, 1950}
	size := func(a, b, c int) int {
		n := -1
		guard(func() { n = len(mk(langCounts[a], featCounts[b], lookupCounts[c]).Encode()) })
		return n
	}
	r.Explore(explore.Config{Name: "C08.header-orders"},
		"tables whose script list, feature list and lookup list each have about 1, 25 or 43 kB (27 combinations): if some order of the three lists lets each of them start within the first 64 KiB the table comes back intact, otherwise the encoder refuses loudly",
		func(c *explore.Ctx) {
			a, b, cc := c.Choose(3, "script list"), c.Choose(3, "feature list"), c.Choose(3, "lookup list")
			base := size(0, 0, 0)
			sa, sb, sc := size(a, 0, 0)-base, size(0, b, 0)-base, size(0, 0, cc)-base
			s0, f0, l0 := 0, 0, 0
			{
				// the sizes of the three small lists: from the encoded small table (header offsets)
				enc := mk(langCounts[0], featCounts[0], lookupCounts[0]).Encode()
				so, fo, lo := int(enc[4])<<8|int(enc[5]), int(enc[6])<<8|int(enc[7]), int(enc[8])<<8|int(enc[9])
				s0, f0, l0 = fo-so, lo-fo, len(enc)-lo
			}
			S, F, L := s0+sa, f0+sb, l0+sc
			desc := fmt.Sprintf("script list %d bytes, feature list %d bytes, lookup list %d bytes", S, F, L)
			c.Sample(func() any { return desc })
			c.Nontrivial()
			representable := 10+S+F+L-max(S, F, L) <= 0xFFFF && 10+S <= 0xFFFF
			info := mk(langCounts[a], featCounts[b], lookupCounts[cc])
			refused := guard(func() { info.Encode() }) != ""
			if refused && representable {
				c.Fail("C08.roundtrip", "header orders: refused", "the encoder refuses a table that fits when its largest list is written last; %s", desc)
				return
			}
			c08RoundTripOnce(c, "header orders", info, gtab.TypeGsub, desc)
		})
}

func c08Info(tp gtab.Type, ll gtab.LookupList) *gtab.Info {
	var idx []gtab.LookupIndex
	for i := range ll {
		idx = append(idx, gtab.LookupIndex(i))
	}
	return &gtab.Info{
		ScriptList:  gtab.ScriptListInfo{language.MustParse("und-Zzzz-x-dflt"): {Required: 0xFFFF, Optional: []gtab.FeatureIndex{0}}},
		FeatureList: []*gtab.Feature{{Tag: "test", Lookups: idx}},
		LookupList:  ll,
	}
}

// c08RoundTrip encodes and reads back an Info; refused=true when the encoder panics (refused loudly).
func c08RoundTrip(c *explore.Ctx, sig string, info *gtab.Info, tp gtab.Type, desc any) {
	c08RoundTripOpt(c, sig, info, tp, desc, false)
}

func c08RoundTripOnce(c *explore.Ctx, sig string, info *gtab.Info, tp gtab.Type, desc any) {
	c08RoundTripOpt(c, sig, info, tp, desc, true)
}

func c08RoundTripOpt(c *explore.Ctx, sig string, info *gtab.Info, tp gtab.Type, desc any, once bool) {
	for li, l := range info.LookupList {
		for si, st := range l.Subtables {
			var d, e int
			if p := guard(func() { d, e = gtab.VerifSubtableSizes(st) }); p != "" {
				c.Tag("subtable encoder refuses: " + p)
				continue
			}
			if d != e {
				c.Fail("C08.sizes", sig+fmt.Sprintf(" / %T", st), "lookup %d subtable %d (%T): encodeLen()=%d but encode() emits %d bytes; %v", li, si, st, d, e, desc)
			}
		}
	}
	var enc []byte
	if p := guard(func() { enc = info.Encode() }); p != "" {
		c.Tag("refused loudly: " + p)
		c.Outcome("refused", p)
		return
	}
	c.Outcome(len(enc), fmt.Sprint(desc))
	back, err := gtab.Read(bytes.NewReader(enc), tp)
	if err != nil {
		c.Fail("C08.roundtrip", sig, "Read(Encode(x)) fails: %v (%d bytes); %v", err, len(enc), desc)
		return
	}
	if !(reflect.DeepEqual(info, back) || cmp.Equal(info, back, c08cmp...)) {
		if d := cmp.Diff(info, back, c08cmp...); d != "" {
			c.Fail("C08.roundtrip", sig+" / "+diffSig(d), "the structure differs after Encode/Read (%d bytes); %v:\n%s", len(enc), desc, trimDiff(d))
			return
		}
	}
	if once {
		return
	}
	// second generation: what the reader returns (e.g. empty but non-nil rule sets, normalised
	// coverage and class tables) is a structure the library can represent, too
	for li, l := range back.LookupList {
		for si, st := range l.Subtables {
			var d, e int
			if p := guard(func() { d, e = gtab.VerifSubtableSizes(st) }); p != "" {
				c.Fail("C08.sizes", sig+fmt.Sprintf(" / re-read %T", st), "lookup %d subtable %d (%T) as returned by Read: the encoder panics: %s; %v", li, si, st, p, desc)
				continue
			}
			if d != e {
				c.Fail("C08.sizes", sig+fmt.Sprintf(" / re-read %T", st), "lookup %d subtable %d (%T) as returned by Read: encodeLen()=%d but encode() emits %d bytes; %v", li, si, st, d, e, desc)
			}
		}
	}
	var enc2 []byte
	if p := guard(func() { enc2 = back.Encode() }); p != "" {
		c.Fail("C08.roundtrip", sig+" / second generation", "Encode(Read(Encode(x))) panics: %s; %v", p, desc)
		return
	}
	back2, err := gtab.Read(bytes.NewReader(enc2), tp)
	if err != nil {
		c.Fail("C08.roundtrip", sig+" / second generation", "Read(Encode(Read(Encode(x)))) fails: %v (%d bytes, first generation %d bytes); %v", err, len(enc2), len(enc), desc)
		return
	}
	if !(reflect.DeepEqual(back, back2) || cmp.Equal(back, back2, c08cmp...)) {
		c.Fail("C08.roundtrip", sig+" / second generation", "the structure differs after a second Encode/Read (%d bytes); %v:\n%s", len(enc2), desc, trimDiff(cmp.Diff(back, back2, c08cmp...)))
	}
}

// c08RuleSetShape varies the rule-set lists of the format 1 and 2 contextual subtables: shape 1 makes
// every set without rules an empty, non-nil list (what the reader returns for a set with zero rules);
// shape 2 duplicates the rule (with its input shortened by one where possible) and gives every
// class / covered glyph a set.
func c08RuleSetShape(sub gtab.Subtable, shape int) {
	if shape == 0 {
		return
	}
	switch st := sub.(type) {
	case *gtab.SeqContext1:
		c08Shape(&st.Rules, shape, func(r *gtab.SeqRule) *gtab.SeqRule {
			q := *r
			q.Input = shorten(r.Input)
			return &q
		})
	case *gtab.SeqContext2:
		c08Shape(&st.Rules, shape, func(r *gtab.ClassSeqRule) *gtab.ClassSeqRule {
			q := *r
			q.Input = shorten(r.Input)
			return &q
		})
	case *gtab.ChainedSeqContext1:
		c08Shape(&st.Rules, shape, func(r *gtab.ChainedSeqRule) *gtab.ChainedSeqRule {
			q := *r
			q.Input = shorten(r.Input)
			return &q
		})
	case *gtab.ChainedSeqContext2:
		c08Shape(&st.Rules, shape, func(r *gtab.ChainedClassSeqRule) *gtab.ChainedClassSeqRule {
			q := *r
			q.Input = shorten(r.Input)
			return &q
		})
	}
}

func shorten[T any](in []T) []T {
	if len(in) == 0 {
		return nil
	}
	return append([]T{}, in[:len(in)-1]...)
}

func c08Shape[R any](sets *[][]*R, shape int, variant func(*R) *R) {
	var proto *R
	for _, set := range *sets {
		if len(set) > 0 {
			proto = set[0]
		}
	}
	if proto == nil {
		return
	}
	for i, set := range *sets {
		switch {
		case shape == 1 && len(set) == 0:
			(*sets)[i] = []*R{}
		case shape == 2 && len(set) == 0:
			(*sets)[i] = []*R{variant(proto)}
		case shape == 2:
			(*sets)[i] = append(set, variant(proto))
		}
	}
}

func c08Lookups(r *run.Run) {
	r.Explore(explore.Config{Name: "C08.lookups"},
		"gtab.Info with every simple GSUB/GPOS lookup of the menu and every contextual form x pattern x action list, x every flag combination (incl. mark filtering sets), alone and followed by a second lookup: Read(Encode(x)) == x, per-subtable encodeLen == len(encode)",
		func(c *explore.Ctx) {
			gpos := c.Bool("gpos")
			menu, tp := gen.GsubSimple, gtab.Type(gtab.TypeGsub)
			ctxType, chainType := uint16(5), uint16(6)
			if gpos {
				menu, tp = gen.GposSimple, gtab.TypeGpos
				ctxType, chainType = 7, 8
			}
			f := gen.Flags[c.Choose(len(gen.Flags), "flags")]
			var ll gtab.LookupList
			var desc []string
			if c.Bool("contextual") {
				form := c.Choose(6, "form")
				pat := gen.Patterns[c.Choose(len(gen.Patterns), "pattern")]
				acts := gen.ActionSets[c.Choose(len(gen.ActionSets), "actions")]
				var actions []gtab.SeqLookup
				for _, a := range acts {
					actions = append(actions, gtab.SeqLookup{SequenceIndex: uint16(a[0]), LookupListIndex: gtab.LookupIndex(1 + a[1])})
				}
				t := ctxType
				if form >= 3 {
					t = chainType
				}
				sub := gen.Context(form, pat, actions)
				shape := c.Choose(3, "rule sets")
				c08RuleSetShape(sub, shape)
				ll = append(ll, gen.MakeLookup(t, f, []gtab.Subtable{sub}))
				desc = append(desc, gen.ContextForms[form]+" "+pat.Name+" "+f.Name+[]string{"", " (other rule sets empty, not nil)", " (two rules per set, all classes)"}[shape])
			} else {
				k := c.Choose(len(menu), "lookup")
				ll = append(ll, gen.MakeLookup(menu[k].Type, f, menu[k].Sub()))
				desc = append(desc, menu[k].Name+" "+f.Name)
			}
			if k2 := c.Choose(3, "more lookups"); k2 > 0 {
				for i := 0; i < k2; i++ {
					m := menu[(i*3+1)%len(menu)]
					ll = append(ll, gen.MakeLookup(m.Type, gen.Flags[0], m.Sub()))
					desc = append(desc, m.Name)
				}
			}
			c.Sample(func() any { return desc })
			c.Nontrivial()
			c08RoundTrip(c, "lookups: "+desc[0][:min(len(desc[0]), 24)], c08Info(tp, ll), tp, desc)
		})
}

// big subtables: sizes {tiny, ~20 KiB, ~33 KiB, ~66 KiB}
func c08BigSub(kind, size int) gtab.Subtable {
	n := []int{2, 5000, 8200, 16500}[size]
	switch kind {
	case 0: // GSUB 1.2 with n glyphs
		cov := coverage.Table{}
		subst := make([]glyph.ID, n)
		for i := 0; i < n; i++ {
			cov[glyph.ID(2*i+1)] = i
			subst[i] = glyph.ID(i + 7)
		}
		return &gtab.Gsub1_2{Cov: cov, SubstituteGlyphIDs: subst}
	case 1: // GSUB 4.1 with n/4 ligatures
		m := max(n/5, 1)
		cov := coverage.Table{}
		var repl [][]gtab.Ligature
		for i := 0; i < m; i++ {
			cov[glyph.ID(3*i+1)] = i
			repl = append(repl, []gtab.Ligature{{In: []glyph.ID{glyph.ID(i + 2)}, Out: glyph.ID(i + 9)}})
		}
		return &gtab.Gsub4_1{Cov: cov, Repl: repl}
	default: // context format 1 with n/6 rules
		m := max(n/8, 1)
		cov := coverage.Table{}
		var rules [][]*gtab.SeqRule
		for i := 0; i < m; i++ {
			cov[glyph.ID(2*i+1)] = i
			rules = append(rules, []*gtab.SeqRule{{Input: []glyph.ID{glyph.ID(i + 1)}, Actions: []gtab.SeqLookup{{SequenceIndex: 1, LookupListIndex: 0}}}})
		}
		return &gtab.SeqContext1{Cov: cov, Rules: rules}
	}
}

// c08Scaled builds the k-th subtable kind with n entries (for the sweep across the 64 KiB limit of the
// 16-bit offsets inside one subtable).
var c08ScaledKinds = []string{"GSUB1.2", "GSUB2.1", "GSUB3.1", "GSUB4.1 (two ligature sets)", "GSUB4.1 (one ligature per set)", "context format 1", "chained context format 1", "GPOS1.2", "GPOS2.1", "GPOS2.2", "GPOS4.1", "context format 2", "chained context format 2", "context format 3", "chained context format 3", "GSUB8.1", "GPOS3.1", "GPOS6.1", "context format 2 (large class table)", "chained context format 2 (large class tables)", "GPOS2.2 (large class tables)", "GSUB1.1", "GPOS1.1", "GPOS6.1 (n x 2 anchors, all but the last one empty)", "GPOS4.1 (n x 2 anchors, all but the last one empty)", "GPOS6.1 (n mark1 glyphs)", "GPOS4.1 (n mark glyphs)"}

func c08Scaled(k, n int) (gtab.Subtable, uint16, bool) {
	g := func(i int) glyph.ID { return glyph.ID(1 + i) }
	covN := func(n int) coverage.Table {
		cov := coverage.Table{}
		for i := 0; i < n; i++ {
			cov[g(2*i)] = i
		}
		return cov
	}
	switch k {
	case 0:
		st := &gtab.Gsub1_2{Cov: covN(n)}
		for i := 0; i < n; i++ {
			st.SubstituteGlyphIDs = append(st.SubstituteGlyphIDs, g(i+3))
		}
		return st, 1, false
	case 1:
		st := &gtab.Gsub2_1{Cov: covN(n)}
		for i := 0; i < n; i++ {
			st.Repl = append(st.Repl, []glyph.ID{g(i), g(i + 1)})
		}
		return st, 2, false
	case 2:
		st := &gtab.Gsub3_1{Cov: covN(n)}
		for i := 0; i < n; i++ {
			st.Alternates = append(st.Alternates, []glyph.ID{g(i + 5), g(i)})
		}
		return st, 3, false
	case 3:
		st := &gtab.Gsub4_1{Cov: covN(2), Repl: make([][]gtab.Ligature, 2)}
		for i := 0; i < n; i++ {
			st.Repl[i%3/2] = append(st.Repl[i%3/2], gtab.Ligature{In: []glyph.ID{g(i)}, Out: g(i + 7)})
		}
		if len(st.Repl[1]) == 0 {
			st.Repl[1] = []gtab.Ligature{{In: []glyph.ID{g(1)}, Out: g(2)}}
		}
		return st, 4, false
	case 4:
		st := &gtab.Gsub4_1{Cov: covN(n)}
		for i := 0; i < n; i++ {
			st.Repl = append(st.Repl, []gtab.Ligature{{In: []glyph.ID{g(i)}, Out: g(i + 7)}})
		}
		return st, 4, false
	case 5:
		st := &gtab.SeqContext1{Cov: covN(n)}
		for i := 0; i < n; i++ {
			st.Rules = append(st.Rules, []*gtab.SeqRule{{Input: []glyph.ID{g(i)}, Actions: []gtab.SeqLookup{{SequenceIndex: 1, LookupListIndex: 0}}}})
		}
		return st, 5, false
	case 6:
		st := &gtab.ChainedSeqContext1{Cov: covN(n)}
		for i := 0; i < n; i++ {
			st.Rules = append(st.Rules, []*gtab.ChainedSeqRule{{Backtrack: []glyph.ID{g(i + 1)}, Input: []glyph.ID{g(i)}, Lookahead: []glyph.ID{g(3)}, Actions: []gtab.SeqLookup{{SequenceIndex: 1, LookupListIndex: 0}}}})
		}
		return st, 6, false
	case 7:
		st := &gtab.Gpos1_2{Cov: covN(n)}
		for i := 0; i < n; i++ {
			st.Adjust = append(st.Adjust, &gtab.GposValueRecord{XAdvance: funit.Int16(i%100 + 1), XPlacement: 3})
		}
		return st, 1, true
	case 8:
		st := gtab.Gpos2_1{}
		for i := 0; i < n; i++ {
			st[glyph.Pair{Left: g(i % 40), Right: g(i / 40)}] = &gtab.PairAdjust{First: &gtab.GposValueRecord{XAdvance: funit.Int16(-1 - i%50)}}
		}
		return st, 2, true
	case 9:
		// an m x m class matrix, m*m about n
		m := 1
		for (m+1)*(m+1) <= n {
			m++
		}
		st := &gtab.Gpos2_2{Cov: coverage.Set{}, Class1: classdef.Table{}, Class2: classdef.Table{}}
		for i := 1; i < m; i++ {
			st.Cov[g(i)] = true
			st.Class1[g(i)] = uint16(i)
			st.Class2[g(i+m)] = uint16(i)
		}
		st.Cov[g(0)] = true
		for i := 0; i < m; i++ {
			row := make([]*gtab.PairAdjust, m)
			for j := range row {
				row[j] = &gtab.PairAdjust{First: &gtab.GposValueRecord{XAdvance: funit.Int16(i - j + 1000)}}
			}
			st.Adjust = append(st.Adjust, row)
		}
		return st, 2, true
	case 11, 12:
		// n rules in the rule set of class 1
		cls := classdef.Table{g(0): 1, g(1): 2}
		if k == 11 {
			st := &gtab.SeqContext2{Cov: covN(1), Input: cls, Rules: make([][]*gtab.ClassSeqRule, 3)}
			for i := 0; i < n; i++ {
				st.Rules[1] = append(st.Rules[1], &gtab.ClassSeqRule{Input: []uint16{uint16(i % 3), 1}, Actions: []gtab.SeqLookup{{SequenceIndex: 1, LookupListIndex: 0}}})
			}
			return st, 5, false
		}
		st := &gtab.ChainedSeqContext2{Cov: covN(1), Backtrack: cls, Input: cls, Lookahead: cls, Rules: make([][]*gtab.ChainedClassSeqRule, 3)}
		for i := 0; i < n; i++ {
			st.Rules[1] = append(st.Rules[1], &gtab.ChainedClassSeqRule{Backtrack: []uint16{1}, Input: []uint16{uint16(i % 3)}, Lookahead: []uint16{2}, Actions: []gtab.SeqLookup{{SequenceIndex: 1, LookupListIndex: 0}}})
		}
		return st, 6, false
	case 13, 14, 15:
		// n coverage tables of 8 glyphs each (format 1: 20 bytes)
		sets := func(n, salt int) []coverage.Set {
			var out []coverage.Set
			for i := 0; i < n; i++ {
				cs := coverage.Set{}
				for j := 0; j < 8; j++ {
					cs[g(3*j+(i+salt)%3+(i+salt)%7*30)] = true
				}
				out = append(out, cs)
			}
			return out
		}
		switch k {
		case 13:
			return &gtab.SeqContext3{Input: sets(n, 0), Actions: []gtab.SeqLookup{{SequenceIndex: 1, LookupListIndex: 0}}}, 5, false
		case 14:
			return &gtab.ChainedSeqContext3{Backtrack: sets(n/3, 1), Input: sets(n-n/3-n/3, 0), Lookahead: sets(n/3, 2), Actions: []gtab.SeqLookup{{SequenceIndex: 0, LookupListIndex: 0}}}, 6, false
		default:
			st := &gtab.Gsub8_1{Input: coverage.Table{g(0): 0, g(1): 1}, SubstituteGlyphIDs: []glyph.ID{g(5), g(6)}}
			for _, cs := range sets(n/2, 1) {
				st.Backtrack = append(st.Backtrack, cs.ToTable())
			}
			for _, cs := range sets(n-n/2, 2) {
				st.Lookahead = append(st.Lookahead, cs.ToTable())
			}
			return st, 8, false
		}
	case 18, 19, 20:
		// class definition tables of n alternating classes (6 + 2n bytes in format 1)
		alt := func(n, salt int) classdef.Table {
			t := classdef.Table{}
			for i := 0; i < n; i++ {
				t[g(i)] = uint16(1 + (i+salt)%2)
			}
			return t
		}
		switch k {
		case 18:
			st := &gtab.SeqContext2{Cov: covN(2), Input: alt(n, 0), Rules: make([][]*gtab.ClassSeqRule, 3)}
			for cls := 1; cls <= 2; cls++ {
				st.Rules[cls] = []*gtab.ClassSeqRule{{Input: []uint16{uint16(cls), 1}, Actions: []gtab.SeqLookup{{SequenceIndex: 1, LookupListIndex: 0}}}}
			}
			return st, 5, false
		case 19:
			st := &gtab.ChainedSeqContext2{Cov: covN(2), Backtrack: alt(n/3, 0), Input: alt(n-n/3-n/3, 1), Lookahead: alt(n/3, 0), Rules: make([][]*gtab.ChainedClassSeqRule, 3)}
			for cls := 1; cls <= 2; cls++ {
				st.Rules[cls] = []*gtab.ChainedClassSeqRule{{Backtrack: []uint16{1}, Input: []uint16{uint16(cls)}, Lookahead: []uint16{2}, Actions: []gtab.SeqLookup{{SequenceIndex: 0, LookupListIndex: 0}}}}
			}
			return st, 6, false
		default:
			st := &gtab.Gpos2_2{Cov: coverage.Set{g(0): true, g(1): true}, Class1: alt(n/2, 0), Class2: alt(n-n/2, 1)}
			for i := 0; i < 3; i++ {
				row := make([]*gtab.PairAdjust, 3)
				for j := range row {
					row[j] = &gtab.PairAdjust{First: &gtab.GposValueRecord{XAdvance: funit.Int16(10*i + j + 1)}}
				}
				st.Adjust = append(st.Adjust, row)
			}
			return st, 2, true
		}
	case 21:
		return &gtab.Gsub1_1{Cov: covN(n).ToSet(), Delta: 1}, 1, false
	case 22:
		return &gtab.Gpos1_1{Cov: covN(n), Adjust: &gtab.GposValueRecord{XAdvance: 7}}, 1, true
	case 16:
		st := &gtab.Gpos3_1{Cov: covN(n)}
		for i := 0; i < n; i++ {
			st.Records = append(st.Records, gtab.EntryExitRecord{Entry: anchor.Table{X: funit.Int16(i%100 + 1), Y: 2}, Exit: anchor.Table{X: 500, Y: funit.Int16(i%50 + 1)}})
		}
		return st, 3, true
	case 17:
		st := &gtab.Gpos6_1{Mark1Cov: coverage.Table{g(0): 0, g(1): 1}, Mark2Cov: coverage.Table{},
			Mark1Array: []markarray.Record{{Class: 0, Table: anchor.Table{X: 1, Y: 2}}, {Class: 1, Table: anchor.Table{X: 3, Y: 4}}}}
		for i := 0; i < n; i++ {
			st.Mark2Cov[g(2+i)] = i
			st.Mark2Array = append(st.Mark2Array, []anchor.Table{{X: funit.Int16(i%300 + 1), Y: 700}, {X: 5, Y: funit.Int16(-1 - i%200)}})
		}
		return st, 6, true
	case 23:
		// the offset array alone approaches 64 KiB: n mark2 glyphs x 2 mark classes, one anchor at the very end
		st := &gtab.Gpos6_1{Mark1Cov: coverage.Table{g(0): 0, g(1): 1}, Mark2Cov: coverage.Table{},
			Mark1Array: []markarray.Record{{Class: 0, Table: anchor.Table{X: 1, Y: 2}}, {Class: 1, Table: anchor.Table{X: 3, Y: 4}}}}
		for i := 0; i < n; i++ {
			st.Mark2Cov[g(2+i)] = i
			st.Mark2Array = append(st.Mark2Array, make([]anchor.Table, 2))
		}
		st.Mark2Array[n-1][1] = anchor.Table{X: 5, Y: -7}
		return st, 6, true
	case 24:
		st := &gtab.Gpos4_1{MarkCov: coverage.Table{g(0): 0, g(1): 1}, BaseCov: coverage.Table{},
			MarkArray: []markarray.Record{{Class: 0, Table: anchor.Table{X: 1, Y: 2}}, {Class: 1, Table: anchor.Table{X: 3, Y: 4}}}}
		for i := 0; i < n; i++ {
			st.BaseCov[g(2+i)] = i
			st.BaseArray = append(st.BaseArray, make([]anchor.Table, 2))
		}
		st.BaseArray[n-1][1] = anchor.Table{X: 5, Y: -7}
		return st, 4, true
	case 25:
		// the mark array grows: n mark1 glyphs of two classes, one mark2 glyph
		st := &gtab.Gpos6_1{Mark1Cov: coverage.Table{}, Mark2Cov: coverage.Table{g(0): 0},
			Mark2Array: [][]anchor.Table{{{X: 1, Y: 700}, {X: 5, Y: -3}}}}
		for i := 0; i < n; i++ {
			st.Mark1Cov[g(1+i)] = i
			st.Mark1Array = append(st.Mark1Array, markarray.Record{Class: uint16(i % 2), Table: anchor.Table{X: funit.Int16(i%300 + 1), Y: funit.Int16(-1 - i%200)}})
		}
		return st, 6, true
	case 26:
		st := &gtab.Gpos4_1{MarkCov: coverage.Table{}, BaseCov: coverage.Table{g(0): 0},
			BaseArray: [][]anchor.Table{{{X: 1, Y: 700}, {X: 5, Y: -3}}}}
		for i := 0; i < n; i++ {
			st.MarkCov[g(1+i)] = i
			st.MarkArray = append(st.MarkArray, markarray.Record{Class: uint16(i % 2), Table: anchor.Table{X: funit.Int16(i%300 + 1), Y: funit.Int16(-1 - i%200)}})
		}
		return st, 4, true
	default:
		// n base glyphs x 2 mark classes
		st := &gtab.Gpos4_1{MarkCov: coverage.Table{g(0): 0, g(1): 1}, BaseCov: coverage.Table{},
			MarkArray: []markarray.Record{{Class: 0, Table: anchor.Table{X: 1, Y: 2}}, {Class: 1, Table: anchor.Table{X: 3, Y: 4}}}}
		for i := 0; i < n; i++ {
			st.BaseCov[g(2+i)] = i
			st.BaseArray = append(st.BaseArray, []anchor.Table{{X: funit.Int16(i%300 + 1), Y: 700}, {X: 5, Y: funit.Int16(-1 - i%200)}})
		}
		return st, 4, true
	}
}

// the 64 KiB limit inside one subtable: entry counts around the point where the subtable's size crosses 0xFFFF
func c08SubtableLimit(r *run.Run) {
	window := 6
	if !r.Quick() {
		window = 40
	}
	// the entry count at which the encoded size first exceeds 0xFFFF, per kind (by bisection on encodeLen)
	cross := make([]int, len(c08ScaledKinds))
	for k := range cross {
		lo, hi := 1, 40000
		for lo < hi {
			mid := (lo + hi) / 2
			st, _, _ := c08Scaled(k, mid)
			d := 0
			if p := guard(func() { d, _ = gtab.VerifSubtableLen(st) }); p != "" {
				d = 1 << 20
			}
			if d > 0xFFFF {
				hi = mid
			} else {
				lo = mid + 1
			}
		}
		cross[k] = lo
	}
	// ... and the smallest entry count that does not round-trip cleanly (refused or corrupt), by bisection:
	// some internal offset (e.g. that of a trailing coverage table) overflows well before the total size does
	mkInfo := func(k, n int) (*gtab.Info, gtab.Type) {
		st, typ, gpos := c08Scaled(k, n)
		tp := gtab.Type(gtab.TypeGsub)
		if gpos {
			tp = gtab.TypeGpos
		}
		ll := gtab.LookupList{gen.MakeLookup(typ, gen.Flags[0], []gtab.Subtable{st})}
		if (typ == 5 || typ == 6) && !gpos {
			ll = append(ll, gen.MakeLookup(1, gen.Flags[0], gen.GsubSimple[0].Sub()))
		}
		return c08Info(tp, ll), tp
	}
	clean := func(k, n int) bool {
		info, tp := mkInfo(k, n)
		ok := false
		guard(func() {
			back, err := gtab.Read(bytes.NewReader(info.Encode()), tp)
			ok = err == nil && (reflect.DeepEqual(info, back) || cmp.Equal(info, back, c08cmp...))
		})
		return ok
	}
	firstBad := make([]int, len(c08ScaledKinds))
	for k := range firstBad {
		lo, hi := 1, cross[k]+50
		for lo < hi {
			mid := (lo + hi) / 2
			if clean(k, mid) {
				lo = mid + 1
			} else {
				hi = mid
			}
		}
		firstBad[k] = lo
	}
	r.Explore(explore.Config{Name: "C08.subtable-limit", Deadline: r.PartDeadline(0.7)},
		fmt.Sprintf("%d subtable kinds (GSUB 1.2, 2.1, 3.1, 4.1 in two shapes, 8.1, all six context forms, GPOS 1.2, 2.1, 2.2, 3.1, 4.1, 6.1, the last two also with anchor arrays that are empty but for their last cell and with a growing mark array) with every entry count in a window of +-%d around (a) the count at which the encoded subtable crosses 64 KiB and (b) the smallest count that does not round-trip (found by bisection; an internal 16-bit offset, e.g. that of a trailing coverage table, overflows before the total size does): the encoder refuses loudly, or the table comes back intact", len(c08ScaledKinds), window),
		func(c *explore.Ctx) {
			k := c.Choose(len(c08ScaledKinds), "subtable kind")
			centre := cross[k]
			if c.Bool("around the first count that does not round-trip") {
				centre = firstBad[k]
			}
			n := centre - window + c.Choose(2*window+1, "entries relative to the centre")
			if n < 1 {
				c.Skip("no entries")
			}
			info, tp := mkInfo(k, n)
			desc := fmt.Sprintf("%s with %d entries (the size crosses 0xFFFF at %d entries, the first count that does not round-trip is %d)", c08ScaledKinds[k], n, cross[k], firstBad[k])
			c.Sample(func() any { return desc })
			c.Nontrivial()
			c08RoundTripOnce(c, "subtable limit: "+c08ScaledKinds[k], info, tp, desc)
		})
}

// the 16-bit offsets of the feature list: n small features, optionally followed by one feature with many
// lookups (its table may extend past 64 KiB as long as it starts below); entry counts around the
// smallest count that does not round-trip (bisection)
func c08ListLimits(r *run.Run) {
	window := 5
	if !r.Quick() {
		window = 30
	}
	type kind struct {
		name string
		mk   func(n int) *gtab.Info
	}
	featureList := func(last int) func(n int) *gtab.Info {
		return func(n int) *gtab.Info {
			info := &gtab.Info{ScriptList: gtab.ScriptListInfo{}, LookupList: gtab.LookupList{gen.MakeLookup(1, gen.Flags[0], gen.GsubSimple[0].Sub())}}
			var opt []gtab.FeatureIndex
			for i := 0; i < n; i++ {
				info.FeatureList = append(info.FeatureList, &gtab.Feature{Tag: fmt.Sprintf("f%03d", i%1000), Lookups: []gtab.LookupIndex{0}})
				if i%97 == 0 {
					opt = append(opt, gtab.FeatureIndex(i))
				}
			}
			if last > 0 {
				f := &gtab.Feature{Tag: "last"}
				for i := 0; i < last; i++ {
					f.Lookups = append(f.Lookups, 0)
				}
				info.FeatureList = append(info.FeatureList, f)
				opt = append(opt, gtab.FeatureIndex(n))
			}
			info.ScriptList[language.MustParse("und-Zzzz-x-dflt")] = &gtab.Features{Required: 0xFFFF, Optional: opt}
			return info
		}
	}
	kinds := []kind{
		{"feature list of n one-lookup features", featureList(0)},
		{"feature list of n one-lookup features and a last feature with 3000 lookups", featureList(3000)},
		{"feature list of n one-lookup features and a last feature with 40000 lookups", featureList(40000)},
	}
	clean := func(k, n int) bool {
		info := kinds[k].mk(n)
		ok := false
		guard(func() {
			back, err := gtab.Read(bytes.NewReader(info.Encode()), gtab.TypeGsub)
			ok = err == nil && (reflect.DeepEqual(info, back) || cmp.Equal(info, back, c08cmp...))
		})
		return ok
	}
	firstBad := make([]int, len(kinds))
	for k := range kinds {
		lo, hi := 1, 12000
		for lo < hi {
			mid := (lo + hi) / 2
			if clean(k, mid) {
				lo = mid + 1
			} else {
				hi = mid
			}
		}
		firstBad[k] = lo
	}
	r.Explore(explore.Config{Name: "C08.list-limits", Deadline: r.PartDeadline(0.5)},
		fmt.Sprintf("feature lists of n one-lookup features, alone or followed by a last feature with 3000 / 40000 lookups (a table that starts below 64 KiB may extend beyond it), for every n in a window of +-%d around the smallest n that does not round-trip (bisection): the encoder refuses loudly or the list comes back intact", window),
		func(c *explore.Ctx) {
			k := c.Choose(len(kinds), "kind")
			n := firstBad[k] - window + c.Choose(2*window+1, "n relative to the first count that does not round-trip")
			if n < 1 {
				c.Skip("no entries")
			}
			desc := fmt.Sprintf("%s, n = %d (the first n that does not round-trip is %d)", kinds[k].name, n, firstBad[k])
			c.Sample(func() any { return desc })
			c.Nontrivial()
			c08RoundTripOnce(c, "list limit: "+kinds[k].name, kinds[k].mk(n), gtab.TypeGsub, desc)
		})
}

// the feature list on its own (encoder and reader of the list, through the export seam): a feature table
// may start below 64 KiB and extend beyond it
func c08FeatureListLimits(r *run.Run) {
	window := 5
	if !r.Quick() {
		window = 30
	}
	lasts := []int{0, 1, 3000, 40000}
	mk := func(last, n int) gtab.FeatureListInfo {
		var info gtab.FeatureListInfo
		for i := 0; i < n; i++ {
			info = append(info, &gtab.Feature{Tag: fmt.Sprintf("f%03d", i%1000), Lookups: []gtab.LookupIndex{gtab.LookupIndex(i % 7), gtab.LookupIndex(i%7 + 1)}})
		}
		if last > 0 {
			f := &gtab.Feature{Tag: "last"}
			for i := 0; i < last; i++ {
				f.Lookups = append(f.Lookups, gtab.LookupIndex(i%500))
			}
			info = append(info, f)
		}
		return info
	}
	roundTrip := func(info gtab.FeatureListInfo) (refused string, back gtab.FeatureListInfo, size int, err error) {
		var enc []byte
		if p := guard(func() { enc = gtab.VerifEncodeFeatureList(info) }); p != "" {
			return p, nil, 0, nil
		}
		back, err = gtab.VerifReadFeatureList(enc)
		return "", back, len(enc), err
	}
	firstBad := make([]int, len(lasts))
	for k, last := range lasts {
		lo, hi := 1, 12000
		for lo < hi {
			mid := (lo + hi) / 2
			info := mk(last, mid)
			refused, back, _, err := roundTrip(info)
			if refused == "" && err == nil && reflect.DeepEqual(info, back) {
				lo = mid + 1
			} else {
				hi = mid
			}
		}
		firstBad[k] = lo
	}
	r.Explore(explore.Config{Name: "C08.feature-list-limits", Deadline: r.PartDeadline(0.5)},
		fmt.Sprintf("the feature list encoder and reader on lists of n two-lookup features, alone or followed by a last feature with 1 / 3000 / 40000 lookup indices, for every n in a window of +-%d around the smallest n that does not round-trip (bisection): the encoder refuses loudly or the list comes back intact (the 16-bit limit applies to where a feature table starts, not to where it ends)", window),
		func(c *explore.Ctx) {
			k := c.Choose(len(lasts), "lookups of the last feature")
			n := firstBad[k] - window + c.Choose(2*window+1, "n relative to the first count that does not round-trip")
			if n < 1 {
				c.Skip("no entries")
			}
			desc := fmt.Sprintf("%d two-lookup features and a last feature with %d lookups (the first n that does not round-trip is %d)", n, lasts[k], firstBad[k])
			c.Sample(func() any { return desc })
			c.Nontrivial()
			info := mk(lasts[k], n)
			refused, back, size, err := roundTrip(info)
			c.Outcome(desc, refused != "", err == nil)
			switch {
			case refused != "":
				c.Tag("refused loudly: " + refused)
			case err != nil:
				c.Fail("C08.roundtrip", "feature list limit", "the reader rejects the feature list the encoder wrote (%d bytes): %v; %s", size, err, desc)
			case !reflect.DeepEqual(info, back):
				c.Fail("C08.roundtrip", "feature list limit", "the feature list differs after encode / read (%d bytes); %s", size, desc)
			}
		})
}

// extension records: three or four lookups that together exceed 64 KiB, so that all but the largest are
// reached through extension subtables, for every mix of subtable kinds (the type of the extension
// records has to be derived from the list) in GSUB and in GPOS
func c08Extension(r *run.Run) {
	r.Explore(explore.Config{Name: "C08.extension", Deadline: r.PartDeadline(0.3)},
		"lookup lists of 3 lookups of 33..37 KiB each (more than 64 KiB together: extension records are needed), every combination of subtable kinds {single substitution 1.2, ligature 4.1, context 1} for GSUB and {single adjustment 1.2, pair 2.1, context 1} for GPOS, with and without a small fourth lookup in front: the list comes back intact",
		func(c *explore.Ctx) {
			gpos := c.Bool("gpos")
			tp := gtab.Type(gtab.TypeGsub)
			if gpos {
				tp = gtab.TypeGpos
			}
			var ll gtab.LookupList
			var desc []string
			if c.Bool("small lookup in front") {
				if gpos {
					ll = append(ll, gen.MakeLookup(1, gen.Flags[0], gen.GposSimple[0].Sub()))
				} else {
					ll = append(ll, gen.MakeLookup(1, gen.Flags[0], gen.GsubSimple[0].Sub()))
				}
				desc = append(desc, "small")
			}
			for i := 0; i < 3; i++ {
				kind := c.Choose(3, "kind")
				var st gtab.Subtable
				var typ uint16
				switch {
				case kind == 2:
					st, typ = c08BigSub(2, 3), 5
					if gpos {
						typ = 7
					}
					desc = append(desc, "context 1")
				case !gpos:
					st, typ = c08BigSub(kind, 2), []uint16{1, 4}[kind]
					desc = append(desc, []string{"GSUB 1.2", "GSUB 4.1"}[kind])
				case kind == 0:
					st, typ, _ = c08Scaled(7, 5400)
					desc = append(desc, "GPOS 1.2")
				default:
					st, typ, _ = c08Scaled(8, 8500) // 8500 pairs: 34 KiB
					desc = append(desc, "GPOS 2.1")
				}
				ll = append(ll, gen.MakeLookup(typ, gen.Flags[i%2*4], []gtab.Subtable{st}))
			}
			c.Sample(func() any { return desc })
			c.Nontrivial()
			c08RoundTripOnce(c, "extension records", c08Info(tp, ll), tp, desc)
		})
}

// c08ExtensionWindow: the points at which LookupList.encode starts to move one more lookup behind
// extension records (the offset of the last lookup has to fit into 16 bits) depend on the exact sizes of
// the lookup headers, incl. the mark filtering set field.  For every configuration the size of one lookup
// is swept in 2-byte steps through each such point (found by bisection on the number of extension
// lookups in the encoded table).
func c08ExtensionWindow(r *run.Run) {
	window := 6
	if !r.Quick() {
		window = 40
	}
	c08ExtensionWindowPart(r, "C08.extension-window", window, 3, 4)
}

func c08ExtensionWindowPart(r *run.Run, name string, window, minFixed, maxFixed int) {
	sub := func(n int) gtab.Subtable { // single substitution 1.2 with n adjacent glyphs: 16 + 2n bytes
		cov := coverage.Table{}
		subst := make([]glyph.ID, n)
		for i := 0; i < n; i++ {
			cov[glyph.ID(i+1)] = i
			subst[i] = glyph.ID(i%5000 + 7)
		}
		return &gtab.Gsub1_2{Cov: cov, SubstituteGlyphIDs: subst}
	}
	// nf lookups of fixed size (20, 21, ... KiB), the lookup whose size is swept, and the largest lookup
	mk := func(nf, marks, nsub, n int) gtab.LookupList {
		var ll gtab.LookupList
		add := func(i, n int) {
			f := gen.Flags[0]
			if marks>>i&1 != 0 {
				f = gen.Flags[4+i%2] // mark filtering set 0 / 1
			}
			var subs []gtab.Subtable
			for j := 0; j < nsub; j++ {
				subs = append(subs, sub(n/nsub+j))
			}
			ll = append(ll, gen.MakeLookup(1, f, subs))
		}
		add(0, n) // the lookup whose size is swept: the smallest one, replaced last
		for i := 0; i < nf; i++ {
			add(1+i, 10000+500*i)
		}
		add(nf+1, 12600) // the largest lookup (25 KiB)
		return ll
	}
	// number of lookups written with the extension type, -1 if the encoder refuses
	extCount := func(nf, marks, nsub, n int) int {
		var enc []byte
		if p := guard(func() { enc = c08Info(gtab.TypeGsub, mk(nf, marks, nsub, n)).Encode() }); p != "" {
			return -1
		}
		llPos := int(enc[8])<<8 | int(enc[9]) // header: version, script list, feature list, lookup list
		cnt := int(enc[llPos])<<8 | int(enc[llPos+1])
		k := 0
		for i := 0; i < cnt; i++ {
			off := llPos + (int(enc[llPos+2+2*i])<<8 | int(enc[llPos+3+2*i]))
			if off+2 <= len(enc) && (int(enc[off])<<8|int(enc[off+1])) == 7 {
				k++
			}
		}
		return k
	}
	type cfg struct{ nf, marks, nsub int }
	type point struct {
		cfg
		n int
	}
	var points []point
	const lo, hi = 2, 9900
	for nf := minFixed; nf <= maxFixed; nf++ {
		for marks := 0; marks < 1<<(nf+1); marks++ {
			for nsub := 1; nsub <= 2; nsub++ {
				var find func(a, b, fa, fb int)
				find = func(a, b, fa, fb int) {
					if fa == fb {
						return
					}
					if b-a == 1 {
						points = append(points, point{cfg{nf, marks, nsub}, b})
						return
					}
					mid := (a + b) / 2
					fm := extCount(nf, marks, nsub, mid)
					find(a, mid, fa, fm)
					find(mid, b, fm, fb)
				}
				find(lo, hi, extCount(nf, marks, nsub, lo), extCount(nf, marks, nsub, hi))
			}
		}
	}
	r.Explore(explore.Config{Name: name, Deadline: r.PartDeadline(0.4)},
		fmt.Sprintf("lookup lists of single-substitution lookups [n entries; %d..%d lookups of 20, 21, ... KiB; 25 KiB] x all assignments of mark filtering sets to the lookups but the last x 1 or 2 subtables per lookup: the entry count n of the first (smallest) lookup in every step of a window of +-%d around each of the %d points (found by bisection over n = %d..%d) at which the encoder moves one more lookup behind extension records or starts to refuse: the list comes back intact or the encoder refuses loudly", minFixed, maxFixed, window, len(points), lo, hi),
		func(c *explore.Ctx) {
			pt := points[c.Choose(len(points), "configuration and transition point")]
			n := pt.n - window + c.Choose(2*window+1, "entries relative to the transition point")
			if n < 1 {
				c.Skip("no entries")
			}
			desc := fmt.Sprintf("lookups of %d entries, %d lookups of 10000, 10500, ... entries, 12600 entries; %d subtable(s) each, mark filtering sets on lookups %b (bit i = lookup i); the number of extension lookups changes at n = %d", n, pt.nf, pt.nsub, pt.marks, pt.n)
			c.Sample(func() any { return desc })
			c.Nontrivial()
			c08RoundTripOnce(c, "extension window", c08Info(gtab.TypeGsub, mk(pt.nf, pt.marks, pt.nsub, n)), gtab.TypeGsub, desc)
		})
}

func c08Sizes(r *run.Run) {
	maxLookups := 2
	if !r.Quick() {
		maxLookups = 4
	}
	r.Explore(explore.Config{Name: "C08.sizes", Deadline: r.PartDeadline(0.6)},
		"lookup lists whose subtables are scaled to {tiny, ~20 KiB, ~33 KiB, ~66 KiB}: all size assignments over <= 2 (quick) / 4 lookups x 1..2 subtables of GSUB 1.2 / 4.1 / context 1 - every branch of the reordering / extension-subtable logic and the 16-bit offset limits: the list comes back intact or the encoder refuses loudly",
		func(c *explore.Ctx) {
			nl := 1 + c.Choose(maxLookups, "lookups")
			var ll gtab.LookupList
			var desc []string
			total := 0
			sig := "sizes"
			for i := 0; i < nl; i++ {
				kind := c.Choose(3, "kind")
				ns := 1 + c.Choose(2, "subtables")
				var subs []gtab.Subtable
				d := fmt.Sprintf("L%d kind%d:", i, kind)
				for j := 0; j < ns; j++ {
					sz := c.Choose(4, "size class")
					if j == 0 && sz == 3 && ns == 2 {
						sig = "sizes: subtable offset inside one lookup exceeds 16 bits"
					}
					subs = append(subs, c08BigSub(kind, sz))
					d += fmt.Sprintf(" %d", sz)
					total += []int{0, 20, 33, 66}[sz]
				}
				typ := []uint16{1, 4, 5}[kind]
				ll = append(ll, gen.MakeLookup(typ, gen.Flags[i%2*4], subs))
				desc = append(desc, d)
			}
			c.Sample(func() any { return desc })
			if total > 64 {
				c.Nontrivial()
			}
			c08RoundTrip(c, sig, c08Info(gtab.TypeGsub, ll), gtab.TypeGsub, desc)
		})

	r.Explore(explore.Config{Name: "C08.counts"},
		"lookup counts {0,1,2,255,256,300} (small lookups), many medium lookups (120, 200, 300 lookups of a few hundred bytes: total > 64 KiB), feature lists of {0,1,2,1000,10900} features, script lists over all subsets of a 6-tag set with/without required features",
		func(c *explore.Ctx) {
			switch c.Choose(3, "family") {
			case 0:
				n := explore.Pick(c, "lookups", 0, 1, 2, 255, 256, 300)
				per := explore.Pick(c, "glyphs per lookup", 1, 60, 150)
				ll := gtab.LookupList{} // an empty, but present, lookup list
				for i := 0; i < n; i++ {
					cov := coverage.Table{}
					subst := make([]glyph.ID, per)
					for k := 0; k < per; k++ {
						cov[glyph.ID(2*k+i%5)] = k
						subst[k] = glyph.ID(k + i)
					}
					ll = append(ll, gen.MakeLookup(1, gen.Flags[0], []gtab.Subtable{&gtab.Gsub1_2{Cov: cov, SubstituteGlyphIDs: subst}}))
				}
				if n > 2 {
					c.Nontrivial()
				}
				c.Sample(func() any { return fmt.Sprintf("%d lookups of %d glyphs", n, per) })
				c08RoundTrip(c, "counts", c08Info(gtab.TypeGsub, ll), gtab.TypeGsub, fmt.Sprintf("%d lookups of %d glyphs", n, per))
			case 1:
				n := explore.Pick(c, "features", 0, 1, 2, 1000, 10900)
				info := &gtab.Info{ScriptList: gtab.ScriptListInfo{}, FeatureList: gtab.FeatureListInfo{}, LookupList: gtab.LookupList{gen.MakeLookup(1, gen.Flags[0], gen.GsubSimple[0].Sub())}}
				var opt []gtab.FeatureIndex
				for i := 0; i < n; i++ {
					info.FeatureList = append(info.FeatureList, &gtab.Feature{Tag: fmt.Sprintf("f%03d", i%1000), Lookups: []gtab.LookupIndex{0}})
					if i%97 == 0 {
						opt = append(opt, gtab.FeatureIndex(i))
					}
				}
				info.ScriptList[language.MustParse("und-Zzzz-x-dflt")] = &gtab.Features{Required: 0xFFFF, Optional: opt}
				if n > 2 {
					c.Nontrivial()
				}
				c.Sample(func() any { return fmt.Sprintf("%d features", n) })
				c08RoundTrip(c, "features", info, gtab.TypeGsub, fmt.Sprintf("%d features", n))
			case 2:
				tags := []string{"und-Zzzz-x-dflt", "und-Latn-x-latn", "tr-Latn-x-latn-trk", "de-Latn-x-latn-deu", "und-Cyrl-x-cyrl", "sr-Cyrl-x-cyrl-srb"}
				info := &gtab.Info{ScriptList: gtab.ScriptListInfo{}, LookupList: gtab.LookupList{gen.MakeLookup(1, gen.Flags[0], gen.GsubSimple[0].Sub())},
					FeatureList: []*gtab.Feature{{Tag: "liga", Lookups: []gtab.LookupIndex{0}}, {Tag: "kern"}, {Tag: "locl", Lookups: []gtab.LookupIndex{0, 0}}}}
				var used []string
				for i, t := range tags {
					if !c.Bool("script " + t) {
						continue
					}
					fe := &gtab.Features{Required: 0xFFFF}
					if c.Bool("required") {
						fe.Required = gtab.FeatureIndex(i % 3)
					}
					for k := 0; k < i%3; k++ {
						fe.Optional = append(fe.Optional, gtab.FeatureIndex((i+k)%3))
					}
					info.ScriptList[language.MustParse(t)] = fe
					used = append(used, t)
				}
				if len(used) == 0 {
					c.Skip("no script")
				}
				c.Nontrivial()
				c.Sample(func() any { return used })
				c08RoundTrip(c, "scripts", info, gtab.TypeGsub, used)
			}
		})
}

func init() {
	Register("C08", func(r *run.Run) {
		r.Rule = "bounded exhaustive enumeration of coverage / class-definition / GDEF values and of gtab.Info values (lookup menu x flags x sizes x counts x script and feature lists); Read(Encode(x)) compared with x up to nil == empty; sizes recomputed independently"
		r.Assume = []string{"normal form: nil == empty; class 0 entries are not stored; encoder panics count as 'refused loudly'", "device/variation offsets and GPOS 3/5 are not generated"}
		c08Coverage(r)
		c08Classdef(r)
		c08RangeLimits(r)
		c08Gdef(r)
		c08GdefLimits(r)
		c08Lookups(r)
		c08Extension(r)
		c08ExtensionWindow(r)
		c08SubtableLimit(r)
		c08ListLimits(r)
		c08FeatureListLimits(r)
		tagTablesPart(r, "C08.script-tags", "C08.roundtrip")
		c08ScriptListLimits(r)
		c08HeaderOrders(r)
		c08Sizes(r)
	})
}
