package harness

import (
	"fmt"
	"regexp"
	"slices"
	"strconv"
	"strings"
	"time"

	"seehuhn.de/go/postscript/funit"
	"seehuhn.de/go/sfnt"
	"seehuhn.de/go/sfnt/cmap"
	"seehuhn.de/go/sfnt/glyf"
	"seehuhn.de/go/sfnt/glyph"
	"seehuhn.de/go/sfnt/maxp"
	"seehuhn.de/go/sfnt/opentype/anchor"
	"seehuhn.de/go/sfnt/opentype/coverage"
	"seehuhn.de/go/sfnt/opentype/gtab"
	"seehuhn.de/go/sfnt/opentype/gtab/builder"
	"seehuhn.de/go/sfnt/opentype/gtab/testcases"
	"seehuhn.de/go/sfnt/opentype/markarray"

	"verif/c19in"
	"verif/dump"
	"verif/explore"
	"verif/gen"
	"verif/run"
	"verif/vsched"
)

// C19: the lookup description language is a faithful, total notation.

// c19Font: the glyph universe of the lookup generator as a font (glyph names A, B, C, L, M, N, X, Y and a cmap).
func c19Font(withNames bool) *sfnt.Font {
	f, _ := FontFromChoices(gen.FontOpts{NoMeta: true, NoLayout: true}, 0, 1, 0, 0, 0)
	ol := &glyf.Outlines{Maxp: &maxp.TTFInfo{MaxZones: 2}}
	for i := range gen.GlyphNames {
		ol.Glyphs = append(ol.Glyphs, gen.GlyfShape(i+1, i))
		ol.Widths = append(ol.Widths, 500)
	}
	if withNames {
		ol.Names = append([]string{}, gen.GlyphNames...)
	}
	f.Outlines = ol
	cm := cmap.Format4{}
	for i, n := range gen.GlyphNames {
		if i > 0 {
			cm[uint16(n[0])] = glyph.ID(i)
		}
	}
	cm['"'] = 1 // a quote, a backslash and a non-printable character are mapped as well
	cm['\\'] = 2
	cm[0x07] = 3
	cm[0xA0] = 4 // ... and two glyphs whose largest character code is not printable (no-break space, line separator)
	cm[0x2028] = 5
	f.InstallCMap(cm)
	return f
}

type parseOutcome struct {
	lookups string
	err     string
}

func c19Parse(font *sfnt.Font, input string) (out parseOutcome, panicMsg string) {
	defer func() {
		if r := recover(); r != nil {
			if fmt.Sprintf("%T", r) == "vsched.abortSentinel" {
				panic(r)
			}
			panicMsg = fmt.Sprintf("%v\n%s", r, stackOf())
		}
	}()
	ll, err := builder.Parse(font, input)
	if err != nil {
		out.err = err.Error()
	} else {
		out.lookups = dump.String(ll)
	}
	return
}

var lineNoRe = regexp.MustCompile(`^(\d+):`)

// c19Explore runs Parse on every input under every schedule within the bound.
func c19Schedules(r *run.Run, name, rule string, font *sfnt.Font, inputs []string, bound int, share float64) {
	c19SchedulesOpt(r, name, rule, font, inputs, bound, share, true)
}

// lineClause=false: the font, not the text, is at fault (no usable character map); the property's
// line-number clause speaks about errors in the text
func c19SchedulesOpt(r *run.Run, name, rule string, font *sfnt.Font, inputs []string, bound int, share float64, lineClause bool) {
	// results of the default (free-running) execution
	// (under a watchdog: a goroutine that spins without reaching a channel operation is invisible to the
	// cooperative scheduler, but makes the free-running call hang as well, because the control flow of the
	// lexer and the parser depends on the input only)
	want := make([]parseOutcome, len(inputs))
	hung, notEvaluated := map[int]bool{}, map[int]bool{}
	for i, in := range inputs {
		if len(hung) >= 2 {
			notEvaluated[i] = true // do not start more spinning goroutines
			continue
		}
		var o parseOutcome
		var pm string
		finished, _ := withWatchdog(20*time.Second, func() { o, pm = c19Parse(font, in) })
		if !finished {
			hung[i] = true
			continue
		}
		if pm != "" {
			o.err = "PANIC " + pm
		}
		want[i] = o
	}
	r.Explore(explore.Config{Name: name, Bound: bound, Deadline: r.PartDeadline(share)}, rule,
		func(c *explore.Ctx) {
			i := c.Choose(len(inputs), "input")
			in := inputs[i]
			c.Sample(func() any { return in })
			if notEvaluated[i] {
				c.Skip("not evaluated after two hanging inputs")
			}
			if hung[i] {
				c.FailObserved("C19.terminates", "free-running", "Parse(%q) does not return within 20 s (free-running, no scheduler involved)", in)
				return
			}
			var got parseOutcome
			var pmsg string
			var res *vsched.Result
			finished, _ := withWatchdog(120*time.Second, func() {
				res = vsched.Run(func(n int, curEnabled bool) int {
					// a deviation is a preemption (switching away from the running goroutine) or, when the
					// running goroutine blocks, resuming another goroutine than the lowest-numbered enabled one
					_ = curEnabled
					return c.Deviate(n, "schedule")
				}, 100000, func() { got, pmsg = c19Parse(font, in) })
			})
			if !finished {
				c.FailObserved("C19.terminates", "under scheduler", "Parse(%q) does not return within 120 s under the cooperative scheduler (a goroutine spins between two scheduling points)", in)
				return
			}
			sig := "valid input"
			if want[i].err != "" {
				sig = "invalid input"
			}
			if res.Steps == 0 && res.Spawned == 0 && lineClause {
				explore.Fatal("C19: the builder package is not instrumented (scheduler seam missing)")
			}
			if res.Spawned > 1 || !lineClause {
				c.Nontrivial()
			}
			c.Outcome(in, fmt.Sprint(res.Trace))
			if pmsg != "" {
				c.Fail("C19.panic", sig+" / "+explore.PanicSignature(pmsg), "Parse panics on %q (schedule %v): %s", in, res.Trace, pmsg)
				return
			}
			if res.Deadlock != "" {
				c.Fail("C19.deadlock", sig, "Parse(%q) deadlocks under schedule %v: %s", in, res.Trace, res.Deadlock)
				return
			}
			if res.StepLimit {
				c.Fail("C19.terminates", sig, "Parse(%q) does not finish within 100000 scheduling steps (schedule prefix %v)", in, res.Trace[:min(len(res.Trace), 30)])
				return
			}
			if len(res.Leaked) > 0 {
				c.Fail("C19.leak", sig, "after Parse(%q) returned (%s) a goroutine is left parked forever: %v (schedule %v)", in, got.err, res.Leaked, res.Trace)
			}
			if got != want[i] {
				c.Fail("C19.schedule-dependent", sig, "Parse(%q) gives %.200q / %q under schedule %v, and %.200q / %q when running free", in, got.lookups, got.err, res.Trace, want[i].lookups, want[i].err)
			}
			if got.err != "" && lineClause {
				m := lineNoRe.FindStringSubmatch(got.err)
				lines := strings.Count(in, "\n") + 1
				if m == nil {
					c.Fail("C19.error-line", sig, "the error for %q carries no line number: %q", in, got.err)
				} else if n, _ := strconv.Atoi(m[1]); n < 1 || n > lines+1 {
					lex := "parser error"
					if n == 0 {
						lex = "line 0"
					}
					c.Fail("C19.error-line", lex, "the error for %q carries line number %d, the input has %d line(s): %q", in, n, lines, got.err)
				}
			}
		})
}

// ---- faithfulness: Parse(Explain(L)) == L ----

// canonical form of a lookup list: the representations the parser is free to choose between are identified
func c19Canon(ll gtab.LookupList) string {
	var sb strings.Builder
	for i, l := range ll {
		fmt.Fprintf(&sb, "lookup %d type %d flags %#x set %d\n", i, l.Meta.LookupType, l.Meta.LookupFlags, l.Meta.MarkFilteringSet)
		for _, st := range l.Subtables {
			switch t := st.(type) {
			case *gtab.Gsub1_1:
				m := map[glyph.ID]glyph.ID{}
				for g := range t.Cov {
					m[g] = g + t.Delta
				}
				fmt.Fprintf(&sb, "  single %s\n", dump.String(m))
			case *gtab.Gsub1_2:
				m := map[glyph.ID]glyph.ID{}
				for g, i := range t.Cov {
					m[g] = t.SubstituteGlyphIDs[i]
				}
				fmt.Fprintf(&sb, "  single %s\n", dump.String(m))
			case *gtab.SeqContext3:
				fmt.Fprintf(&sb, "  ctx3 %s %s\n", dump.String(setsToLists(t.Input)), dump.String(t.Actions))
			case *gtab.ChainedSeqContext3:
				fmt.Fprintf(&sb, "  cctx3 %s %s %s %s\n", dump.String(setsToLists(t.Backtrack)), dump.String(setsToLists(t.Input)), dump.String(setsToLists(t.Lookahead)), dump.String(t.Actions))
			default:
				fmt.Fprintf(&sb, "  %T %s\n", st, dump.String(st))
			}
		}
	}
	out := strings.ReplaceAll(sb.String(), "nil[]", "[]") // nil == empty
	// a nil value record and an all-zero one adjust nothing: both are written "_"
	return strings.ReplaceAll(out, "&gtab.GposValueRecord{XPlacement:0 YPlacement:0 XAdvance:0 YAdvance:0 XPlacementDevOffs:0 YPlacementDevOffs:0 XAdvanceDevOffs:0 YAdvanceDevOffs:0 }", "nil")
}

func setsToLists(ss []coverage.Set) [][]glyph.ID {
	var out [][]glyph.ID
	for _, s := range ss {
		out = append(out, s.Glyphs())
	}
	return out
}

// the GPOS menu of the generator plus the forms only this property needs: cursive attachment (GPOS3),
// value records with every field the language has syntax for (x, y, dx; the parser has no dy), pair adjustments with an absent half
var c19GposMenu = append(append([]gen.Simple{}, gen.GposSimple...),
	gen.Simple{Name: "GPOS3 cursive A,M", Type: 3, Sub: func() []gtab.Subtable {
		return []gtab.Subtable{&gtab.Gpos3_1{Cov: coverage.Table{gen.GA: 0, gen.GM: 1}, Records: []gtab.EntryExitRecord{
			{Entry: anchor.Table{X: 10, Y: -20}, Exit: anchor.Table{X: 500, Y: 30}},
			{Entry: anchor.Table{X: 0, Y: 0}, Exit: anchor.Table{X: -7, Y: 700}}}}}
	}},
	gen.Simple{Name: "GPOS3 cursive B", Type: 3, Sub: func() []gtab.Subtable {
		return []gtab.Subtable{&gtab.Gpos3_1{Cov: coverage.Table{gen.GB: 0}, Records: []gtab.EntryExitRecord{{Entry: anchor.Table{X: 1, Y: 2}, Exit: anchor.Table{X: 3, Y: 4}}}}}
	}},
	gen.Simple{Name: "GPOS1.2 all value fields", Type: 1, Sub: func() []gtab.Subtable {
		return []gtab.Subtable{&gtab.Gpos1_2{Cov: coverage.Table{gen.GA: 0, gen.GB: 1, gen.GY: 2}, Adjust: []*gtab.GposValueRecord{
			{XPlacement: 1, YPlacement: -2, XAdvance: 3}, {YPlacement: 9}, {}}}}
	}},
	gen.Simple{Name: "GPOS1.2 extreme values", Type: 1, Sub: func() []gtab.Subtable {
		return []gtab.Subtable{&gtab.Gpos1_2{Cov: coverage.Table{gen.GA: 0, gen.GB: 1}, Adjust: []*gtab.GposValueRecord{
			{XPlacement: -32768, YPlacement: 32767, XAdvance: -32768}, {XPlacement: 32767, YPlacement: -32768, XAdvance: 32767}}}}
	}},
	gen.Simple{Name: "GPOS3 cursive extreme anchors", Type: 3, Sub: func() []gtab.Subtable {
		return []gtab.Subtable{&gtab.Gpos3_1{Cov: coverage.Table{gen.GA: 0}, Records: []gtab.EntryExitRecord{{Entry: anchor.Table{X: -32768, Y: 32767}, Exit: anchor.Table{X: 32767, Y: -32768}}}}}
	}},
	gen.Simple{Name: "GPOS4.1 extreme anchors", Type: 4, Sub: func() []gtab.Subtable {
		return []gtab.Subtable{&gtab.Gpos4_1{MarkCov: coverage.Table{gen.GM: 0}, BaseCov: coverage.Table{gen.GA: 0},
			MarkArray: []markarray.Record{{Class: 0, Table: anchor.Table{X: -32768, Y: -32768}}},
			BaseArray: [][]anchor.Table{{{X: 32767, Y: -32768}}}}}
	}},
	gen.Simple{Name: "GPOS2.1 halves", Type: 2, Sub: func() []gtab.Subtable {
		return []gtab.Subtable{gtab.Gpos2_1{
			{Left: gen.GA, Right: gen.GB}: {First: &gtab.GposValueRecord{XAdvance: -10}},
			{Left: gen.GB, Right: gen.GA}: {Second: &gtab.GposValueRecord{XPlacement: 4, YPlacement: 2}},
			{Left: gen.GX, Right: gen.GY}: {First: &gtab.GposValueRecord{YPlacement: 1}, Second: &gtab.GposValueRecord{YPlacement: -1}}}}
	}},
)

// c19HostileCmap: describing the lookups of a font whose character map names glyphs the font does not have,
// or codes at the end of the 32-bit range (such files are accepted).
func c19HostileCmap(r *run.Run) {
	r.Explore(explore.Config{Name: "C19.explain-hostile-cmap", Workers: 2},
		"ExplainGsub / ExplainGpos for a font with one simple lookup whose character map (format 12) also names a glyph beyond the font (glyph count, 1000 or 65535) and a code at U+10FFFE or 0x7FFFFFFF: the description is produced (no panic, the call returns) and parses back to the lookup",
		func(c *explore.Ctx) {
			gpos := c.Bool("gpos")
			font := c19Font(c.Bool("glyph names"))
			beyond := []glyph.ID{glyph.ID(font.NumGlyphs()), 1000, 65535}[c.Choose(3, "glyph id beyond the font")]
			far := []uint32{0x10FFFE, 0x7FFFFFFF}[c.Choose(2, "largest code")]
			font.CMapTable = cmap.Table{{PlatformID: 3, EncodingID: 10}: cmap.Format12{'A': gen.GA, 'B': gen.GB, 'C': beyond, far: gen.GC}.Encode(0)}
			menu := gen.GsubSimple
			if gpos {
				menu = gen.GposSimple
			}
			ll := gtab.LookupList{gen.MakeLookup(menu[0].Type, gen.Flags[0], menu[0].Sub())}
			if gpos {
				font.Gpos = &gtab.Info{LookupList: ll}
			} else {
				font.Gsub = &gtab.Info{LookupList: ll}
			}
			desc := fmt.Sprintf("gpos %v, the character map names glyph %d and the code %#x", gpos, beyond, far)
			c.Sample(func() any { return desc })
			c.Outcome(desc)
			c.Nontrivial()
			var text string
			var p string
			fin, _ := withWatchdog(30*time.Second, func() {
				p = guard(func() {
					if gpos {
						text = strings.Join(builder.ExplainGpos(font), "\n")
					} else {
						text = builder.ExplainGsub(font)
					}
				})
			})
			if !fin {
				c.FailObserved("C19.terminates", "explain / hostile cmap", "the description is not produced within 30 s; %s", desc)
				c.StopExploration()
				return
			}
			if p != "" {
				c.Fail("C19.panic", "explain / hostile cmap: "+explore.PanicSignature(p), "Explain panics: %s; %s", p, desc)
				return
			}
			got, err := builder.Parse(font, text)
			if err != nil {
				c.Fail("C19.roundtrip", "hostile cmap / parse error", "Parse(Explain(L)) fails: %v; %s\n%s", err, desc, text)
				return
			}
			if a, b := c19Canon(ll), c19Canon(got); a != b {
				c.Fail("C19.roundtrip", "hostile cmap", "Parse(Explain(L)) differs from L; %s\n%s", desc, text)
			}
		})
}

func c19RoundTrip(r *run.Run) {
	fonts := []*sfnt.Font{c19Font(true), c19Font(false)}
	flagMenu := []gtab.LookupFlags{0, gtab.IgnoreMarks, gtab.IgnoreLigatures, gtab.IgnoreBaseGlyphs, gtab.IgnoreMarks | gtab.IgnoreLigatures, gtab.IgnoreMarks | gtab.IgnoreLigatures | gtab.IgnoreBaseGlyphs}
	r.Explore(explore.Config{Name: "C19.roundtrip", Deadline: r.PartDeadline(0.35)},
		"lookup lists the language can express: every simple GSUB lookup of the menu (types 1-4) and every contextual form x pattern x action list (types 5, 6), GPOS 1/2/4 menus, x every flag subset of {marks, ligs, base} x fonts with and without glyph names, alone and with further lookups: Parse(Explain(L)) equals L on a canonical form that identifies only the representations the parser is free to choose (single substitution 1.1 vs 1.2, coverage set vs table)",
		func(c *explore.Ctx) {
			font := fonts[c.Choose(2, "font without glyph names")].Clone()
			gpos := c.Bool("gpos")
			f := gen.FlagSet{Flags: flagMenu[c.Choose(len(flagMenu), "flags")]}
			menu := gen.GsubSimple
			ctxT, chainT := uint16(5), uint16(6)
			if gpos {
				menu = c19GposMenu
				ctxT, chainT = 7, 8
			}
			var ll gtab.LookupList
			var desc string
			if !gpos && c.Bool("contextual") { // the language has no syntax for contextual GPOS lookups
				form := c.Choose(6, "form")
				pat := gen.Patterns[c.Choose(len(gen.Patterns), "pattern")]
				acts := gen.ActionSets[c.Choose(len(gen.ActionSets), "actions")]
				var actions []gtab.SeqLookup
				for _, a := range acts {
					actions = append(actions, gtab.SeqLookup{SequenceIndex: uint16(a[0]), LookupListIndex: gtab.LookupIndex(1 + a[1])})
				}
				t := ctxT
				if form >= 3 {
					t = chainT
				}
				subs := []gtab.Subtable{gen.Context(form, pat, actions)}
				desc = gen.ContextForms[form] + " " + pat.Name
				// several subtables in one lookup ("||"): every form of the same lookup type, with the same or with different class tables
				if k2 := c.Choose(4, "second subtable"); k2 > 0 {
					form2 := form/3*3 + k2 - 1
					pat2 := gen.Patterns[c.Choose(len(gen.Patterns), "second pattern")]
					if c.Bool("different classes") {
						subs = append(subs, gen.ContextClasses(form2, pat2, actions[:1], gen.AltClasses[0], gen.AltClasses[1], gen.AltClasses[2]))
					} else {
						subs = append(subs, gen.Context(form2, pat2, actions[:1]))
					}
					desc += " || " + gen.ContextForms[form2] + " " + pat2.Name
					if c.Bool("third subtable") {
						subs = append(subs, gen.ContextClasses(form/3*3+1, gen.Patterns[0], actions, gen.AltClasses[1], gen.AltClasses[2], gen.AltClasses[0]))
						desc += " || fmt2"
					}
				}
				ll = append(ll, gen.MakeLookup(t, f, subs))
				ll = append(ll, gen.MakeLookup(menu[0].Type, gen.Flags[0], menu[0].Sub()), gen.MakeLookup(menu[1].Type, gen.Flags[0], menu[1].Sub()))
			} else {
				k := c.Choose(len(menu), "lookup")
				if menu[k].Type == 8 || menu[k].Type == 6 && gpos || len(menu[k].Sub()) > 1 && !gpos {
					c.Skip("no syntax for this lookup type / for several subtables of GSUB 1-4")
				}
				if strings.Contains(menu[k].Name, "has no mark glyph") {
					c.Skip("the language numbers mark classes by the marks that use them: a class without marks has no notation")
				}
				if strings.Contains(menu[k].Name, "for classes without a glyph") {
					c.Skip("the language writes a class as the list of its glyphs: trailing classes without glyphs have no notation")
				}
				subs := menu[k].Sub()
				desc = menu[k].Name
				if gpos {
					// several subtables in one GPOS lookup ("||"): every menu entry of the same type
					if k2 := c.Choose(len(menu)+1, "second subtable"); k2 > 0 {
						if menu[k2-1].Type != menu[k].Type || strings.Contains(menu[k2-1].Name, "has no mark glyph") || strings.Contains(menu[k2-1].Name, "for classes without a glyph") {
							c.Skip("different lookup type / no notation")
						}
						subs = append(subs, menu[k2-1].Sub()...)
						desc += " || " + menu[k2-1].Name
					}
				}
				ll = append(ll, gen.MakeLookup(menu[k].Type, f, subs))
				if c.Bool("second subtable/lookup") {
					ll = append(ll, gen.MakeLookup(menu[0].Type, gen.Flags[0], menu[0].Sub()))
				}
			}
			c.Sample(func() any { return fmt.Sprintf("%s flags %#x gpos=%v", desc, f.Flags, gpos) })
			var text string
			p := guard(func() {
				if gpos {
					font.Gpos = &gtab.Info{LookupList: ll}
					text = strings.Join(builder.ExplainGpos(font), "\n")
				} else {
					font.Gsub = &gtab.Info{LookupList: ll}
					text = builder.ExplainGsub(font)
				}
			})
			if p != "" {
				c.Tag("Explain refuses: " + p)
				c.Outcome("refused", desc)
				return
			}
			c.Outcome(text)
			c.Nontrivial()
			back, err := builder.Parse(font, text)
			sig := strings.SplitN(desc, " ", 2)[0]
			if f.Flags != 0 {
				sig += " with flags"
			}
			if err != nil {
				c.Fail("C19.roundtrip", sig+" / parse error", "Parse(Explain(L)) fails: %v\ndescription:\n%s", err, text)
				return
			}
			if a, b := c19Canon(ll), c19Canon(back); a != b {
				c.Fail("C19.roundtrip", sig, "Parse(Explain(L)) differs from L\ndescription:\n%s\nL:\n%.600s\nparsed:\n%.600s", text, a, b)
			}
		})
}

// ---- large lookups under every map iteration order ----

func c19BigFont(n int) *sfnt.Font {
	f, _ := FontFromChoices(gen.FontOpts{NoMeta: true, NoLayout: true}, 0, 1, 0, 0, 0)
	ol := &glyf.Outlines{Maxp: &maxp.TTFInfo{MaxZones: 2}}
	for i := 0; i < n; i++ {
		ol.Glyphs = append(ol.Glyphs, gen.GlyfShape(i%5+1, i))
		ol.Widths = append(ol.Widths, 500)
		ol.Names = append(ol.Names, fmt.Sprintf("g%03d", i))
	}
	ol.Names[0] = ".notdef"
	f.Outlines = ol
	f.InstallCMap(cmap.Format4{'A': 1, 'B': 2})
	return f
}

// c19Large builds the k-th large lookup with about n entries.
func c19Large(k, n int) (gtab.LookupList, bool, string) {
	g := func(i int) glyph.ID { return glyph.ID(1 + i) }
	switch k {
	case 0:
		st := &gtab.Gsub1_2{Cov: coverage.Table{}}
		for i := 0; i < n; i++ {
			st.Cov[g(i)] = i
			st.SubstituteGlyphIDs = append(st.SubstituteGlyphIDs, g((i*7+3)%n+n))
		}
		return gtab.LookupList{gen.MakeLookup(1, gen.Flags[0], []gtab.Subtable{st})}, false, fmt.Sprintf("GSUB1.2 with %d mappings", n)
	case 1:
		st := &gtab.Gsub2_1{Cov: coverage.Table{}}
		for i := 0; i < n; i++ {
			st.Cov[g(i)] = i
			st.Repl = append(st.Repl, []glyph.ID{g(i + n), g((i*5)%n + n), g(i)}[:1+i%3])
		}
		return gtab.LookupList{gen.MakeLookup(2, gen.Flags[0], []gtab.Subtable{st})}, false, fmt.Sprintf("GSUB2 with %d sequences", n)
	case 2:
		st := &gtab.Gsub3_1{Cov: coverage.Table{}}
		for i := 0; i < n; i++ {
			st.Cov[g(i)] = i
			st.Alternates = append(st.Alternates, []glyph.ID{g(i + n), g((i*5)%n + n), g(i)}[:1+i%3])
		}
		return gtab.LookupList{gen.MakeLookup(3, gen.Flags[0], []gtab.Subtable{st})}, false, fmt.Sprintf("GSUB3 with %d alternate sets", n)
	case 3, 4:
		// ligature sets whose candidates share prefixes, so that their order matters
		sets := max(2, n/7)
		if k == 4 {
			sets = max(2, n/2)
		}
		st := &gtab.Gsub4_1{Cov: coverage.Table{}}
		total := 0
		for i := 0; i < sets; i++ {
			var ligs []gtab.Ligature
			for j := 0; total < n && j < (n+sets-1)/sets; j++ {
				in := []glyph.ID{g(j % 3), g((i + j) % 4), g(j / 3 % 5)}[:1+(j+i)%3]
				ligs = append(ligs, gtab.Ligature{In: in, Out: g(n + total)})
				total++
			}
			if len(ligs) == 0 {
				break // a ligature set without ligatures has no notation
			}
			st.Cov[g(i)] = i
			st.Repl = append(st.Repl, ligs)
		}
		return gtab.LookupList{gen.MakeLookup(4, gen.Flags[0], []gtab.Subtable{st})}, false, fmt.Sprintf("GSUB4 with %d ligatures in %d sets", total, len(st.Repl))
	case 5:
		st := &gtab.Gpos1_2{Cov: coverage.Table{}}
		for i := 0; i < n; i++ {
			st.Cov[g(i)] = i
			st.Adjust = append(st.Adjust, &gtab.GposValueRecord{XAdvance: funit.Int16(i - 5), XPlacement: funit.Int16(i % 3)})
		}
		return gtab.LookupList{gen.MakeLookup(1, gen.Flags[0], []gtab.Subtable{st})}, true, fmt.Sprintf("GPOS1.2 with %d records", n)
	default:
		st := gtab.Gpos2_1{}
		for i := 0; i < n; i++ {
			st[glyph.Pair{Left: g(i % 9), Right: g(i / 9)}] = &gtab.PairAdjust{First: &gtab.GposValueRecord{XAdvance: funit.Int16(-i - 1)}}
		}
		return gtab.LookupList{gen.MakeLookup(2, gen.Flags[0], []gtab.Subtable{st})}, true, fmt.Sprintf("GPOS2.1 with %d pairs", n)
	}
}

func c19LargePart(r *run.Run) {
	sizes := []int{5, 12, 13, 14, 30, 60, 150}
	font := c19BigFont(320)
	r.ExploreSharded(explore.Config{Name: "C19.large-map-order", Deadline: r.PartDeadline(0.5)},
		mapOrderRule("large lookups (GSUB 1.2 / 2 / 3 with n entries, GSUB 4 with n ligatures in few and in many ligature sets whose candidates share prefixes, GPOS 1.2 with n records, GPOS 2.1 with n pairs; n = 5, 12, 13, 14, 30, 60, 150) built, described and parsed back: Parse(Explain(L)) == L on the canonical form"),
		mapOrderProcs, 0,
		func(c *explore.Ctx) {
			var desc string
			ref, diff := underOrders(c, func(cc *explore.Ctx) string {
				k := cc.Choose(7, "lookup kind")
				n := sizes[cc.Choose(len(sizes), "size")]
				ll, gpos, d := c19Large(k, n)
				if cc == c {
					desc = d
					c.Sample(func() any { return d })
					c.Shard(explore.KeyOf(k, n))
				}
				fnt := font.Clone()
				var text string
				if gpos {
					fnt.Gpos = &gtab.Info{LookupList: ll}
					text = strings.Join(builder.ExplainGpos(fnt), "\n")
				} else {
					fnt.Gsub = &gtab.Info{LookupList: ll}
					text = builder.ExplainGsub(fnt)
				}
				back, err := builder.Parse(fnt, text)
				if err != nil {
					return "PARSE-ERROR " + err.Error() + "\n" + text
				}
				if a, b := c19Canon(ll), c19Canon(back); a != b {
					return "MISMATCH\n" + firstDiffLine(a, b)
				}
				return "ok " + digestOf([]byte(text))
			})
			c.Nontrivial()
			c.Outcome(desc)
			sig := strings.SplitN(desc, " ", 2)[0]
			switch {
			case diff != "":
				c.Fail("C19.roundtrip", sig+" / map order", "%s: the description, or whether it parses back to the same lookup, depends on map iteration order:\n%s", desc, diff)
			case !strings.HasPrefix(ref, "ok "):
				c.Fail("C19.roundtrip", sig+" / large", "%s: Parse(Explain(L)) differs from L: %.600s", desc, ref)
			}
		})
}

func firstDiffLine(a, b string) string {
	la, lb := strings.Split(a, "\n"), strings.Split(b, "\n")
	for i := 0; i < len(la) && i < len(lb); i++ {
		if la[i] != lb[i] {
			return fmt.Sprintf("L:      %.300s\nparsed: %.300s", la[i], lb[i])
		}
	}
	return fmt.Sprintf("%d vs %d lines", len(la), len(lb))
}

// semantics of the documented syntax on small enumerations
func c19Semantics(r *run.Run) {
	font := c19Font(true)
	type tc struct {
		text string
		want gtab.LookupList
	}
	cases := []tc{
		{`GSUB1: A -> B`, gtab.LookupList{gen.MakeLookup(1, gen.Flags[0], []gtab.Subtable{&gtab.Gsub1_1{Cov: coverage.Set{gen.GA: true}, Delta: 1}})}},
		{`GSUB1: "A" -> "B"`, gtab.LookupList{gen.MakeLookup(1, gen.Flags[0], []gtab.Subtable{&gtab.Gsub1_1{Cov: coverage.Set{gen.GA: true}, Delta: 1}})}},
		{`GSUB1: 1 -> 2`, gtab.LookupList{gen.MakeLookup(1, gen.Flags[0], []gtab.Subtable{&gtab.Gsub1_1{Cov: coverage.Set{gen.GA: true}, Delta: 1}})}},
		{`GSUB1: A-C -> L-N`, gtab.LookupList{gen.MakeLookup(1, gen.Flags[0], []gtab.Subtable{&gtab.Gsub1_1{Cov: coverage.Set{gen.GA: true, gen.GB: true, gen.GC: true}, Delta: 3}})}},
		{`GSUB1: A -> X, M -> N`, gtab.LookupList{gen.MakeLookup(1, gen.Flags[0], []gtab.Subtable{&gtab.Gsub1_2{Cov: coverage.Table{gen.GA: 0, gen.GM: 1}, SubstituteGlyphIDs: []glyph.ID{gen.GX, gen.GN}}})}},
		{`GSUB4: -marks "AB" -> L`, gtab.LookupList{gen.MakeLookup(4, gen.FlagSet{Flags: gtab.IgnoreMarks}, []gtab.Subtable{&gtab.Gsub4_1{Cov: coverage.Table{gen.GA: 0}, Repl: [][]gtab.Ligature{{{In: []glyph.ID{gen.GB}, Out: gen.GL}}}}})}},
		{"GSUB5: \"AA\" -> 1@0 2@1\nGSUB1: A -> X\nGSUB1: A -> Y", nil},
		{`GSUB1: "\"" -> "\\"`, gtab.LookupList{gen.MakeLookup(1, gen.Flags[0], []gtab.Subtable{&gtab.Gsub1_1{Cov: coverage.Set{1: true}, Delta: 1}})}},
	}
	r.Explore(explore.Config{Name: "C19.semantics"},
		"documented syntax: a glyph name denotes the glyph of that name, a quoted string the cmap image of each character (with escapes), an integer a glyph id, A-C consecutive glyph ids, n@k the nested action (lookup n at sequence index k)",
		func(c *explore.Ctx) {
			t := cases[c.Choose(len(cases), "case")]
			c.Sample(func() any { return t.text })
			c.Nontrivial()
			got, err := builder.Parse(font, t.text)
			c.Outcome(t.text)
			if err != nil {
				c.Fail("C19.semantics", "parse error", "Parse(%q) fails: %v", t.text, err)
				return
			}
			if t.want == nil {
				// the nested-action case
				ok := len(got) == 3
				if ok {
					ctx, isCtx := got[0].Subtables[0].(*gtab.SeqContext1)
					ok = isCtx && len(ctx.Rules) == 1 && len(ctx.Rules[0]) == 1 &&
						fmt.Sprint(ctx.Rules[0][0].Actions) == fmt.Sprint([]gtab.SeqLookup{{SequenceIndex: 0, LookupListIndex: 1}, {SequenceIndex: 1, LookupListIndex: 2}})
				}
				if !ok {
					c.Fail("C19.semantics", "nested actions", "Parse(%q): %s", t.text, c19Canon(got))
				}
				return
			}
			if a, b := c19Canon(t.want), c19Canon(got); a != b {
				c.Fail("C19.semantics", "meaning", "Parse(%q) gives\n%s want\n%s", t.text, b, a)
			}
		})
}

// c19Gsub1Semantics: "list -> list" in a single-substitution lookup pairs the glyphs of the two lists up
// position by position, whatever notation (names, quoted string, range) either list is written in.
func c19Gsub1Semantics(r *run.Run) {
	font := c19Font(true)
	glyphs := []glyph.ID{0, gen.GA, gen.GB, gen.GC, gen.GL} // ids 0..4: consecutive, so that ranges exist (also down to glyph 0)
	targets := []glyph.ID{0, gen.GA, gen.GB, gen.GC, gen.GL, gen.GX}
	name := func(g glyph.ID) string { return gen.GlyphNames[g] }
	render := func(seq []glyph.ID, notation int) (string, bool) {
		switch notation {
		case 0:
			var parts []string
			for _, g := range seq {
				parts = append(parts, name(g))
			}
			return strings.Join(parts, " "), true
		case 1:
			out := `"`
			for _, g := range seq {
				if g == 0 {
					return "", false // no character stands for glyph 0
				}
				out += name(g)
			}
			return out + `"`, true
		default: // a range, if the glyph ids run up or down in steps of one
			if len(seq) < 2 {
				return "", false
			}
			d := int(seq[1]) - int(seq[0])
			if d != 1 && d != -1 {
				return "", false
			}
			for i := 1; i < len(seq); i++ {
				if int(seq[i])-int(seq[i-1]) != d {
					return "", false
				}
			}
			return name(seq[0]) + "-" + name(seq[len(seq)-1]), true
		}
	}
	var froms [][]glyph.ID
	var perm func(cur []glyph.ID)
	perm = func(cur []glyph.ID) {
		if len(cur) > 0 {
			froms = append(froms, append([]glyph.ID{}, cur...))
		}
		if len(cur) == 3 {
			return
		}
		for _, g := range glyphs {
			if !slices.Contains(cur, g) {
				perm(append(cur, g))
			}
		}
	}
	perm(nil)
	r.Explore(explore.Config{Name: "C19.gsub1-semantics", Workers: 4},
		fmt.Sprintf("GSUB1 rules 'list -> list': all %d source lists of 1..3 distinct glyphs over {.notdef,A,B,C,L} x all target lists of the same length over {.notdef,A,B,C,L,X} x the notations {names, quoted string, range (where the ids are consecutive, up or down)} for either side: the parsed lookup maps the i-th source glyph to the i-th target glyph", len(froms)),
		func(c *explore.Ctx) {
			from := froms[c.Choose(len(froms), "source list")]
			var to []glyph.ID
			for range from {
				to = append(to, targets[c.Choose(len(targets), "target glyph")])
			}
			fs, ok1 := render(from, c.Choose(3, "source notation"))
			ts, ok2 := render(to, c.Choose(3, "target notation"))
			if !ok1 || !ok2 {
				c.Skip("not a range")
			}
			text := "GSUB1: " + fs + " -> " + ts
			c.Sample(func() any { return text })
			c.Nontrivial()
			c.Outcome(text)
			var got gtab.LookupList
			var err error
			if fin, pmsg := withWatchdog(5*time.Second, func() { got, err = builder.Parse(font, text) }); !fin {
				c.FailObserved("C19.terminates", "gsub1 lists", "Parse(%q) does not return within 5 s", text)
				c.StopExploration() // (a parser that does not return may also allocate without bound)
				return
			} else if pmsg != "" {
				c.Fail("C19.panic", "gsub1 lists / "+explore.PanicSignature(pmsg), "Parse(%q) panics: %s", text, pmsg)
				return
			}
			if err != nil {
				c.Fail("C19.semantics", "gsub1 lists / parse error", "Parse(%q) fails: %v", text, err)
				return
			}
			want := &gtab.Gsub1_2{Cov: coverage.Table{}}
			order := append([]glyph.ID{}, from...)
			slices.Sort(order)
			for i, g := range order {
				want.Cov[g] = i
				want.SubstituteGlyphIDs = append(want.SubstituteGlyphIDs, to[slices.Index(from, g)])
			}
			wl := gtab.LookupList{gen.MakeLookup(1, gen.Flags[0], []gtab.Subtable{want})}
			if a, b := c19Canon(wl), c19Canon(got); a != b {
				c.Fail("C19.semantics", "gsub1 lists / meaning", "Parse(%q) gives\n%s want\n%s", text, b, a)
			}
		})
}

func init() {
	Register("C19", func(r *run.Run) {
		r.Rule = "the goroutines of the parser (lexer, string decoder, parser) run under a cooperative scheduler whose scheduling points are the channel operations and goroutine starts (source rewritten at check time); every schedule within the preemption bound is explored for every input of bounded token-string enumerations and single-token mutations of the repository's descriptions; round trip Parse(Explain(L)) over the lookup generator"
		r.Assume = []string{
			"channel operations (send, receive, range, close, select) and goroutine starts are the only synchronisation in the package (a use of sync or sync/atomic would not be modelled: the package imports neither, and the free-running race pass would see what the scheduler cannot); unsynchronised shared accesses would be invisible to the cooperative scheduler and are the subject of the separate free-running -race pass (part C19.race)",
			"the result under the scheduler is compared with the free-running result of the same call",
		}
		fg, err := testcases.NewFontGen()
		if err != nil {
			explore.Fatal("C19: %v", err)
		}
		tfont, err := fg.GsubTestFont(0)
		if err != nil {
			explore.Fatal("C19: %v", err)
		}
		tfont.Gsub = nil
		var descs []string
		for _, tc := range testcases.Gsub {
			descs = append(descs, tc.Desc)
		}
		// iterate the preemption bound; each bound is a part of its own, so the evidence says which bound was completed
		maxBound := 3
		if !r.Quick() {
			maxBound = 4
		}
		for b := 1; b <= maxBound; b++ {
			share := 0.1
			if b == maxBound {
				share = 0.4
			}
			c19Schedules(r, fmt.Sprintf("C19.schedules-valid-p%d", b), fmt.Sprintf("the %d descriptions of the repository's test cases under ALL schedules with <= %d deviations (preemptions, or a non-default successor when the running goroutine blocks): no deadlock, no goroutine left parked, same result as free-running", len(descs), b), tfont, descs, b, share)
		}
		var muts []string
		for i, d := range descs {
			if r.Quick() && i%2 != 0 {
				continue
			}
			muts = append(muts, c19in.Mutations(d, 0)...)
		}
		mrule := "%d single-token deletions / replacements / insertions of the repository's descriptions under all schedules with <= %d deviation(s): lookups or an error with a line number, no panic, deadlock or leaked goroutine"
		c19Schedules(r, "C19.schedules-mutations-p1", fmt.Sprintf(mrule, len(muts), 1), tfont, muts, 1, 0.5)
		if !r.Quick() {
			c19Schedules(r, "C19.schedules-mutations-p2", fmt.Sprintf(mrule, len(muts), 2), tfont, muts, 2, 0.5)
		}
		maxLen := 3
		if !r.Quick() {
			maxLen = 4
		}
		toks := c19in.TokenStrings(maxLen)
		c19Schedules(r, "C19.schedules-tokens", fmt.Sprintf("all %d token strings of length <= %d over a %d-token alphabet (keywords, flags, glyph names, quoted strings incl. unmapped and unterminated ones, punctuation, integers, newline, illegal characters, comments) under all schedules with <= 2 deviations", len(toks), maxLen, len(c19in.Tokens)), c19Font(true), toks, 2, 0.8)
		// quoted strings longer than any buffer a decoder goroutine might use, with an error at the start,
		// in the middle and at the end (Z is not in the character map)
		{
			as := func(n int) string { return strings.Repeat("A", n) }
			long := []string{
				`GSUB4: "` + as(70) + `" -> L`,
				`GSUB4: "Z` + as(100) + `" -> L`,
				`GSUB4: "` + as(40) + `Z` + as(80) + `" -> L`,
				`GSUB4: "` + as(100) + `Z" -> L`,
				`GSUB4: "` + as(100),
				`GSUB1: "Z` + as(300) + `" -> "` + as(301) + `"`,
				`GSUB5: "` + as(65) + `" -> 1@0 || "Z` + as(65) + `" -> 1@0` + "\nGSUB1: A -> B",
			}
			c19Schedules(r, "C19.schedules-long-strings", fmt.Sprintf("%d descriptions with quoted strings of 65..300 characters, valid or with an unmapped character at the start / in the middle / at the end, or unterminated, under all schedules with <= 1 deviation: lookups or an error with a line number, no panic, no deadlock, no goroutine left parked", len(long)), c19Font(true), long, 1, 0.2)
		}
		// positioning lookups: every single-token deviation of descriptions of GPOS types 1 to 4 (class lists,
		// matrices, anchors: syntax the substitution descriptions of the repository's test cases do not have)
		{
			gposDescs := []string{
				"GPOS1: [A-C] -> y+10 ||\n\tL -> dx-1, M -> dx+1, N -> x+1",
				"GPOS2: A B -> dx-100, C C -> dx+100, \"AB\" -> dx-100 & y-10",
				"GPOS2:\n\t/A L B C/\n\tfirst B C, A L;\n\tsecond A M, B C;\n\t_, _, _,\n\t_, dx-50 & y-10, dx+10,\n\t_, dx-10 & y+10, dx-30",
				"GPOS3:\n\tA: 1,1 to 2,2; B: 1,0 to 0,1 ||\n\tM: 1,1 to 2,2",
				"GPOS4:\n\tmark M: 0@100,100;\n\tmark N: 1@200,100;\n\tbase A: @400,1000 @500,1000;\n\tbase B: @500,1000 @600,900;",
			}
			var gm []string
			for _, d := range gposDescs {
				gm = append(gm, d)
				gm = append(gm, c19in.Mutations(d, 0)...)
			}
			c19Schedules(r, "C19.schedules-gpos-mutations-p1", fmt.Sprintf("%d inputs: descriptions of positioning lookups of types 1 to 4 (ranges, pairs, class lists and matrices, entry / exit points, mark and base anchors) and their single-token deletions / replacements / insertions, under all schedules with <= 1 deviation: lookups or an error with a line number, no panic, deadlock or leaked goroutine, and the call returns", len(gm)), c19Font(true), gm, 1, 0.3)
		}
		// fonts Parse cannot work with: no character map at all, and only a subtable GetBest does not select
		{
			nocmap := c19Font(true)
			nocmap.CMapTable = nil
			symbol := c19Font(true)
			symbol.CMapTable = cmap.Table{cmap.Key{PlatformID: 3, EncodingID: 0}: cmap.Format4{0xF041: 1}.Encode(0)}
			ins := append(append([]string{}, descs[:min(len(descs), 8)]...), "", "GSUB1: A -> B", "GSUB1: \"A\" -> B", "GSUB4: A B -> \"", "xyz", "GSUB1: A ->")
			frule := "%d inputs (valid descriptions, quoted strings, invalid text) parsed for a font %s, under all schedules with <= 2 deviations: an error (or lookups), no panic, no deadlock, no goroutine left parked, same result as free-running"
			c19SchedulesOpt(r, "C19.schedules-no-cmap", fmt.Sprintf(frule, len(ins), "without a character map"), nocmap, ins, 2, 0.3, false)
			c19SchedulesOpt(r, "C19.schedules-symbol-cmap", fmt.Sprintf(frule, len(ins), "whose only cmap subtable is a (3,0) symbol subtable"), symbol, ins, 2, 0.3, false)
		}
		c19RoundTrip(r)
		c19HostileCmap(r)
		c19LargePart(r)
		c19Semantics(r)
		c19Gsub1Semantics(r)
		if (!r.Replaying() || r.ReplayOf("C19.race") != nil) && !explore.StopAll.Load() {
			racePass(r, "C19", "race19.bin", []string{r.Tier}, "free-running goroutines (the repository's own builder sources, no scheduler rewrite) under the Go race detector, 8 concurrent Parse calls, GOMAXPROCS 1, 2, 4, 16; watchdog; goroutine count back to baseline after every batch; results compared across GOMAXPROCS",
				"the repository's descriptions, their single-token mutations and the token strings, every input under every GOMAXPROCS setting: no data race (accesses the cooperative scheduler cannot see), same result, no goroutine left running, no hang")
		}
	})
}
