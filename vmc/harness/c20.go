package harness

import (
	"fmt"
	"regexp"
	"strings"
	"time"

	"seehuhn.de/go/postscript/cid"
	"seehuhn.de/go/postscript/type1/names"
	"seehuhn.de/go/sfnt"
	"seehuhn.de/go/sfnt/cff"
	"seehuhn.de/go/sfnt/cmap"
	"seehuhn.de/go/sfnt/glyf"
	"seehuhn.de/go/sfnt/glyph"
	"seehuhn.de/go/sfnt/opentype/coverage"
	"seehuhn.de/go/sfnt/opentype/gtab"
	"seehuhn.de/go/sfnt/os2"

	"verif/explore"
	"verif/gen"
	"verif/run"
)

// C20: generated glyph names are complete, unique, stable and PostScript-safe.

var c20NameMenu = []string{"", "A", "dup", ".notdef", "a b", "f_i", "B", "orn001"}

func c20Font(c *explore.Ctx) (*sfnt.Font, []string, string) {
	return c20FontKinds(c, []int{0, 1, 2, 3, 4})
}

// c20FontKinds builds the font from choices; the outline / name-storage kind is one of kinds.
func c20FontKinds(c *explore.Ctx, kinds []int) (*sfnt.Font, []string, string) {
	n := 5
	kind := kinds[c.Choose(len(kinds), "outline/names kind")] // cff simple, cid, glyf nil names, glyf short names, glyf full names
	orig := make([]string, n)
	if kind != 1 && kind != 2 {
		for i := 1; i < n; i++ {
			if i <= 2 {
				orig[i] = c20NameMenu[c.Choose(len(c20NameMenu), fmt.Sprintf("name of glyph %d", i))]
			} else {
				// default: named ("dup" for glyph 3 - a duplicate when glyph 1 or 2 is called "dup" - and a
				// unique name for glyph 4), so that "all named, some shared" is reachable without deviations
				menu := append([]string{"dup"}, c20NameMenu...)
				if i == 4 {
					menu = append([]string{"Z4"}, c20NameMenu...)
				}
				orig[i] = menu[c.Deviate(len(menu), fmt.Sprintf("name of glyph %d", i))]
			}
		}
		if c.Bool("glyph 0 named") {
			orig[0] = ".notdef"
		} else if c.Bool("glyph 0 misnamed") {
			orig[0] = "zero"
		}
	}
	f, _ := FontFromChoices(gen.FontOpts{NoMeta: true, NoLayout: true}, 0, 1, 0, 0, 0)
	desc := ""
	switch kind {
	case 0, 1:
		ol := &cff.Outlines{}
		for i := 0; i < n; i++ {
			ol.Glyphs = append(ol.Glyphs, gen.CFFShape(i+1, orig[i], 500))
		}
		f2, _ := FontFromChoices(gen.FontOpts{NoMeta: true, NoLayout: true}, 1+kind, 1, 0, 0, 0)
		base := f2.Outlines.(*cff.Outlines)
		ol.Private, ol.FDSelect = base.Private, base.FDSelect
		if kind == 1 {
			ol.ROS, ol.FontMatrices = base.ROS, base.FontMatrices
			for i := 0; i < n; i++ {
				ol.GIDToCID = append(ol.GIDToCID, cid.CID(i))
			}
			desc = "cid"
		} else {
			desc = "cff"
		}
		f = f2
		f.Outlines = ol
	default:
		ol := &glyf.Outlines{}
		for i := 0; i < n; i++ {
			ol.Glyphs = append(ol.Glyphs, gen.GlyfShape(i+1, i))
			ol.Widths = append(ol.Widths, 500)
		}
		switch kind {
		case 2:
			desc = "glyf, no names"
		case 3:
			ol.Names = append([]string{}, orig[:3]...)
			desc = "glyf, short names list"
			// a names list of the wrong length carries no usable names
			for i := range orig {
				orig[i] = ""
			}
		case 4:
			ol.Names = append([]string{}, orig...)
			desc = "glyf, full names"
		}
		f.Outlines = ol
	}
	// cmap: subsets over {A->1, B->2, fi ligature char->3, PUA->4, astral->2}
	cm12 := cmap.Format12{}
	var cmDesc []string
	for _, e := range []struct {
		r rune
		g glyph.ID
	}{{'A', 1}, {'B', 2}, {0xFB01, 3}, {0xE000, 4}, {0x10000, 2}, {'x', 4}} {
		on := false
		if e.r == 0x10000 || e.r == 'x' || e.r == 0xE000 {
			on = c.Deviate(2, fmt.Sprintf("map %U", e.r)) == 1
		} else {
			on = c.Bool(fmt.Sprintf("map %U", e.r))
		}
		if on {
			cm12[uint32(e.r)] = e.g
			cmDesc = append(cmDesc, fmt.Sprintf("%U->%d", e.r, e.g))
		}
	}
	f.CMapTable = nil
	if len(cm12) > 0 {
		f.InstallCMap(cm12)
	}
	f.Gsub = nil
	switch c.Choose(13, "gsub") {
	case 11:
		// one glyph is an alternate of two covered glyphs (a small capital for 'A' and for 'a'): the covered
		// glyph with the smaller id gives the name
		f.Gsub = &gtab.Info{LookupList: gtab.LookupList{gen.MakeLookup(3, gen.Flags[0], []gtab.Subtable{&gtab.Gsub3_1{Cov: coverage.Table{1: 0, 2: 1}, Alternates: [][]glyph.ID{{3}, {3, 4}}}})}}
		desc += ", GSUB3 1->[3] 2->[3 4]"
	case 12:
		// an alternate that is itself covered, and shared
		f.Gsub = &gtab.Info{LookupList: gtab.LookupList{gen.MakeLookup(3, gen.Flags[0], []gtab.Subtable{&gtab.Gsub3_1{Cov: coverage.Table{1: 0, 2: 1, 3: 2}, Alternates: [][]glyph.ID{{2, 4}, {4}, {4}}}})}}
		desc += ", GSUB3 1->[2 4] 2->[4] 3->[4]"
	case 1:
		f.Gsub = &gtab.Info{LookupList: gtab.LookupList{gen.MakeLookup(1, gen.Flags[0], []gtab.Subtable{&gtab.Gsub1_1{Cov: coverage.Set{1: true, 2: true}, Delta: 2}})}}
		desc += ", GSUB1.1 {1,2}+2"
	case 2:
		f.Gsub = &gtab.Info{LookupList: gtab.LookupList{gen.MakeLookup(1, gen.Flags[0], []gtab.Subtable{&gtab.Gsub1_2{Cov: coverage.Table{1: 0, 2: 1}, SubstituteGlyphIDs: []glyph.ID{4, 4}}})}}
		desc += ", GSUB1.2 1->4 2->4"
	case 3:
		f.Gsub = &gtab.Info{LookupList: gtab.LookupList{gen.MakeLookup(3, gen.Flags[0], []gtab.Subtable{&gtab.Gsub3_1{Cov: coverage.Table{1: 0}, Alternates: [][]glyph.ID{{3, 4}}}})}}
		desc += ", GSUB3 1->[3 4]"
	case 4:
		f.Gsub = &gtab.Info{LookupList: gtab.LookupList{gen.MakeLookup(4, gen.Flags[0], []gtab.Subtable{&gtab.Gsub4_1{Cov: coverage.Table{1: 0}, Repl: [][]gtab.Ligature{{{In: []glyph.ID{2}, Out: 3}}}}})}}
		desc += ", GSUB4 1+2->3"
	case 5:
		f.Gsub = &gtab.Info{LookupList: gtab.LookupList{gen.MakeLookup(4, gen.Flags[0], []gtab.Subtable{&gtab.Gsub4_1{Cov: coverage.Table{1: 0, 2: 1}, Repl: [][]gtab.Ligature{{{In: []glyph.ID{2}, Out: 4}}, {{In: []glyph.ID{1}, Out: 4}}}}})}}
		desc += ", GSUB4 1+2->4 2+1->4"
	case 10:
		// a ligature set whose first entry has a component that has no name yet, followed by an entry to be named
		f.Gsub = &gtab.Info{LookupList: gtab.LookupList{gen.MakeLookup(4, gen.Flags[0], []gtab.Subtable{&gtab.Gsub4_1{Cov: coverage.Table{1: 0}, Repl: [][]gtab.Ligature{{{In: []glyph.ID{2, 4}, Out: 3}, {In: []glyph.ID{2}, Out: 4}}}}})}}
		desc += ", GSUB4 1+2+4->3 1+2->4"
	case 9:
		// variants with smaller glyph ids than their bases: the delta is negative (stored modulo 65536)
		f.Gsub = &gtab.Info{LookupList: gtab.LookupList{gen.MakeLookup(1, gen.Flags[0], []gtab.Subtable{&gtab.Gsub1_1{Cov: coverage.Set{3: true, 4: true}, Delta: 0xFFFE}})}}
		desc += ", GSUB1.1 {3,4}-2"
	case 6:
		// two lookups (e.g. liga and dlig) with the same components and different outputs
		lig := func(out glyph.ID) *gtab.LookupTable {
			return gen.MakeLookup(4, gen.Flags[0], []gtab.Subtable{&gtab.Gsub4_1{Cov: coverage.Table{1: 0}, Repl: [][]gtab.Ligature{{{In: []glyph.ID{2}, Out: out}}}}})
		}
		f.Gsub = &gtab.Info{LookupList: gtab.LookupList{lig(3), lig(4)}}
		desc += ", GSUB4 1+2->3; GSUB4 1+2->4"
	case 7:
		// two single substitutions of the same glyph in two lookups
		f.Gsub = &gtab.Info{LookupList: gtab.LookupList{
			gen.MakeLookup(1, gen.Flags[0], []gtab.Subtable{&gtab.Gsub1_2{Cov: coverage.Table{1: 0}, SubstituteGlyphIDs: []glyph.ID{3}}}),
			gen.MakeLookup(1, gen.Flags[0], []gtab.Subtable{&gtab.Gsub1_1{Cov: coverage.Set{1: true}, Delta: 3}})}}
		desc += ", GSUB1.2 1->3; GSUB1.1 1->4"
	case 8:
		// a ligature of a ligature, the deeper rule first
		f.Gsub = &gtab.Info{LookupList: gtab.LookupList{gen.MakeLookup(4, gen.Flags[0], []gtab.Subtable{&gtab.Gsub4_1{Cov: coverage.Table{1: 0, 3: 1}, Repl: [][]gtab.Ligature{{{In: []glyph.ID{2}, Out: 3}}, {{In: []glyph.ID{1}, Out: 4}}}}})}}
		desc += ", GSUB4 1+2->3 3+1->4"
	}
	return f, orig, desc + " cmap " + strings.Join(cmDesc, " ")
}

func c20Check(c *explore.Ctx, sig string, orig, got []string, n int, desc string) bool {
	if len(got) != n {
		c.Fail("C20.complete", sig, "%d names for %d glyphs; %s", len(got), n, desc)
		return false
	}
	seen := map[string]int{}
	for i, nm := range got {
		if nm == "" {
			c.Fail("C20.complete", sig, "glyph %d has no name: %q; original names %q; %s", i, got, orig, desc)
			return false
		}
		if j, dup := seen[nm]; dup {
			c.Fail("C20.unique", sig, "glyphs %d and %d are both called %q: %q; original names %q; %s", j, i, nm, got, orig, desc)
			return false
		}
		seen[nm] = i
	}
	if got[0] != ".notdef" {
		c.Fail("C20.notdef", sig, "glyph 0 is called %q; %s", got[0], desc)
		return false
	}
	// every existing unique name is kept
	cnt := map[string]int{}
	for _, nm := range orig {
		cnt[nm]++
	}
	for i, nm := range orig {
		if i == 0 || nm == "" || nm == ".notdef" || cnt[nm] != 1 {
			continue
		}
		if got[i] != nm {
			c.Fail("C20.kept", sig+" existing name replaced", "glyph %d was uniquely named %q and is now %q: %q -> %q; %s", i, nm, got[i], orig, got, desc)
			return false
		}
	}
	return true
}

func c20Names(r *run.Run) {
	// the two kinds that carry no names at all (few cases) first, then the three that do
	r.Explore(explore.Config{Name: "C20.names-unnamed", Bound: c20Bound(r), Deadline: r.PartDeadline(0.3)},
		"5-glyph fonts without any glyph name (CID-keyed CFF, glyf without a names list) x all subsets of 6 cmap entries x 13 GSUB variants: same oracle as C20.names",
		c20NamesBody([]int{1, 2}))
	r.Explore(explore.Config{Name: "C20.names", Bound: c20Bound(r), Deadline: r.PartDeadline(0.95)},
		"5-glyph fonts: 3 outline/name-storage kinds that carry names (CFF, glyf with a too short / a full names list; the two kinds without names: C20.names-unnamed) x all name patterns over {empty, A, dup, .notdef, 'a b', f_i, B} per glyph x all subsets of 6 cmap entries (incl. a ligature character, a PUA and an astral code, two codes on one glyph) x 13 GSUB variants (1.1, 1.1 with a negative delta, 3.1 with an alternate shared by two covered glyphs, 3.1 with a covered alternate, a ligature set with a not yet nameable entry before a nameable one, 1.2 with two sources for one target, 3.1, 4.1, 4.1 with one output of two rules, two ligature lookups with equal components and different outputs, two single substitutions of one glyph, a ligature of a ligature): complete, distinct, .notdef first, unique names kept, inference from cmap / substitutions, retrievable after EnsureGlyphNames, identical on repeated calls",
		c20NamesBody([]int{0, 3, 4}))
}

func c20NamesBody(kinds []int) func(c *explore.Ctx) {
	return func(c *explore.Ctx) {
		f, orig, desc := c20FontKinds(c, kinds)
		c.Sample(func() any { return map[string]any{"names": orig, "font": desc} })
		n := f.NumGlyphs()
		got := f.MakeGlyphNames()
		c.Outcome(desc, fmt.Sprint(orig), fmt.Sprint(got))
		missing := false
		for i, nm := range orig {
			if nm == "" && i > 0 {
				missing = true
			}
		}
		if missing {
			c.Nontrivial()
		}
		sig := strings.SplitN(desc, ",", 2)[0]
		if !c20Check(c, sig, orig, got, n, desc) {
			return
		}
		// inference, as a reference model of the documented order: (1) existing names, the first of
		// several equal names wins and glyph 0 is .notdef; (2) character map, code points in
		// ascending order, the Adobe glyph-list name of the first code point whose name is still
		// free; (3) substitution rules from glyphs that have a name by now: variant / ligature names;
		// (4) numbered placeholders for the rest
		ref := append([]string{}, orig...)
		ref[0] = ".notdef"
		taken := map[string]bool{}
		for i, nm := range ref {
			if taken[nm] {
				ref[i] = ""
			} else {
				taken[nm] = true
			}
		}
		if best, _ := f.CMapTable.GetBest(); best != nil {
			for _, ru := range []rune{'A', 'B', 'x', 0xE000, 0xFB01, 0x10000} { // ascending
				g := best.Lookup(ru)
				if g == 0 || ref[g] != "" {
					continue
				}
				if nm := names.FromUnicode(string(ru)); !taken[nm] {
					ref[g], taken[nm] = nm, true
				}
			}
		}
		for g := range ref {
			if ref[g] != "" && got[g] != ref[g] {
				c.Fail("C20.inference", sig+" cmap", "glyph %d: expected %q (existing name, or the glyph-list name of the first code point whose name is free), got %q (%q -> %q); %s", g, ref[g], got[g], orig, got, desc)
				return
			}
		}
		if f.Gsub != nil {
			placeholder := regexp.MustCompile(`^orn[0-9]+$`)
			nameable := map[glyph.ID]string{}
			for _, l := range f.Gsub.LookupList {
				for _, st := range l.Subtables {
					switch st := st.(type) {
					case *gtab.Gsub1_1:
						for g := range st.Cov {
							if ref[g] != "" {
								nameable[g+st.Delta] = ref[g]
							}
						}
					case *gtab.Gsub1_2:
						for g, i := range st.Cov {
							if ref[g] != "" {
								nameable[st.SubstituteGlyphIDs[i]] = ref[g]
							}
						}
					case *gtab.Gsub3_1:
						for g, i := range st.Cov {
							for _, t := range st.Alternates[i] {
								if ref[g] != "" {
									nameable[t] = ref[g]
								}
							}
						}
					case *gtab.Gsub4_1:
						for g, i := range st.Cov {
						ligs:
							for _, lig := range st.Repl[i] {
								if ref[g] == "" {
									continue
								}
								for _, in := range lig.In {
									if ref[in] == "" {
										continue ligs
									}
								}
								nameable[lig.Out] = ref[g]
							}
						}
					}
				}
			}
			for g, base := range nameable {
				if int(g) >= n || ref[g] != "" {
					continue
				}
				if placeholder.MatchString(got[g]) && !placeholder.MatchString(base) {
					c.Fail("C20.inference", sig+" substitution", "glyph %d is the output of a substitution rule whose source glyphs are named (%q ...) but gets the placeholder %q instead of a variant / ligature name (%q -> %q); %s", g, base, got[g], orig, got, desc)
					return
				}
			}
			// a name that is neither existing, nor from the character map, nor a placeholder is the
			// variant name of SOME rule producing the glyph: the source's name (single / alternate
			// substitution) or the component names joined by "_" (ligature), optionally followed
			// by ".<number>" to make it unique
			cands := map[glyph.ID][]string{}
			for _, l := range f.Gsub.LookupList {
				for _, st := range l.Subtables {
					switch st := st.(type) {
					case *gtab.Gsub1_1:
						for g := range st.Cov {
							cands[g+st.Delta] = append(cands[g+st.Delta], got[g])
						}
					case *gtab.Gsub1_2:
						for g, i := range st.Cov {
							cands[st.SubstituteGlyphIDs[i]] = append(cands[st.SubstituteGlyphIDs[i]], got[g])
						}
					case *gtab.Gsub3_1:
						for g, i := range st.Cov {
							for _, t := range st.Alternates[i] {
								cands[t] = append(cands[t], got[g])
							}
						}
					case *gtab.Gsub4_1:
						for g, i := range st.Cov {
							for _, lig := range st.Repl[i] {
								parts := []string{got[g]}
								for _, in := range lig.In {
									parts = append(parts, got[in])
								}
								cands[lig.Out] = append(cands[lig.Out], strings.Join(parts, "_"))
							}
						}
					}
				}
			}
			suffix := regexp.MustCompile(`^\.[0-9]+$`)
			for g := 1; g < n; g++ {
				if ref[g] != "" || placeholder.MatchString(got[g]) {
					continue
				}
				ok := false
				for _, cand := range cands[glyph.ID(g)] {
					if got[g] == cand || strings.HasPrefix(got[g], cand) && suffix.MatchString(got[g][len(cand):]) {
						ok = true
					}
				}
				if !ok {
					c.Fail("C20.inference", sig+" variant name", "glyph %d is called %q, which is neither an existing name, a glyph-list name of one of its characters, a placeholder, nor the variant / ligature name of a rule producing it (candidates %q); %q -> %q; %s", g, got[g], cands[glyph.ID(g)], orig, got, desc)
					return
				}
			}
		}
		// stability: the same on every call
		for k := 0; k < 1; k++ { // (map-order dependence is decided by C20.map-order under the map seam)
			if again := f.MakeGlyphNames(); fmt.Sprint(again) != fmt.Sprint(got) {
				c.FailObserved("C20.stable", sig+" repeated call", "MakeGlyphNames returned %q and then %q; original names %q; %s", got, again, orig, desc)
				return
			}
		}
		// installing the names makes them retrievable, and asking again gives the same list
		f.EnsureGlyphNames()
		var inst []string
		for i := 0; i < n; i++ {
			inst = append(inst, f.GlyphName(glyph.ID(i)))
		}
		if !c20Check(c, sig+" installed", orig, inst, n, desc) {
			return
		}
		if fmt.Sprint(inst) != fmt.Sprint(got) {
			c.FailObserved("C20.stable", sig+" install differs", "EnsureGlyphNames installed %q, MakeGlyphNames had returned %q; %s", inst, got, desc)
		}
		if again := f.MakeGlyphNames(); fmt.Sprint(again) != fmt.Sprint(inst) {
			c.Fail("C20.installed", sig, "after EnsureGlyphNames the glyphs are called %q but MakeGlyphNames gives %q; %s", inst, again, desc)
		}
	}
}

func c20Bound(r *run.Run) int {
	if r.Quick() {
		return 1
	}
	return 4
}

func countOf(l []string, s string) int {
	n := 0
	for _, x := range l {
		if x == s {
			n++
		}
	}
	return n
}

func firstIndex(l []string, s string) int {
	for i, x := range l {
		if x == s {
			return i
		}
	}
	return -1
}

func c20MakeSimple(r *run.Run) {
	r.Explore(explore.Config{Name: "C20.makesimple"},
		"cff.Outlines.MakeSimple on CID-keyed and simple fonts with all name patterns over the menu (5 glyphs) x glyph-text maps (none, nil, short texts with a duplicate, three glyphs sharing a text of 13..17 letters whose derived name crosses the 31-byte limit with or without a suffix): names valid, distinct, identical when asked again, .notdef first, existing valid unique names kept, text-derived names before orn placeholders",
		func(c *explore.Ctx) {
			n := 5
			orig := make([]string, n)
			for i := 0; i < n; i++ {
				orig[i] = c20NameMenu[c.Choose(len(c20NameMenu), fmt.Sprintf("name of glyph %d", i))]
			}
			text := map[glyph.ID]string{}
			switch k := c.Choose(8, "glyph text"); k {
			case 1:
				text = map[glyph.ID]string{1: "A", 2: "A", 3: "fi", 4: "中"}
			case 2:
				text = nil
			case 3, 4, 5, 6, 7:
				// three glyphs with the same text of 13..17 letters: the derived name A_B_..._N has 25..33 bytes, so
				// the name itself or the name with a suffix for the second and third glyph crosses the 31-byte limit
				t := "ABCDEFGHIJKLMNOPQ"[:10+k]
				text = map[glyph.ID]string{1: t, 2: t, 3: t, 4: "A"}
			}
			f2, _ := FontFromChoices(gen.FontOpts{NoMeta: true, NoLayout: true}, 2, 1, 0, 0, 0)
			base := f2.Outlines.(*cff.Outlines)
			ol := &cff.Outlines{Private: base.Private, FDSelect: base.FDSelect, ROS: base.ROS, FontMatrices: base.FontMatrices}
			for i := 0; i < n; i++ {
				ol.Glyphs = append(ol.Glyphs, gen.CFFShape(i+1, orig[i], 500))
				ol.GIDToCID = append(ol.GIDToCID, cid.CID(i))
			}
			c.Sample(func() any { return map[string]any{"names": orig, "text": text} })
			ol.MakeSimple(text)
			var got []string
			for _, g := range ol.Glyphs {
				got = append(got, g.Name)
			}
			c.Outcome(fmt.Sprint(orig), fmt.Sprint(text), fmt.Sprint(got))
			c.Nontrivial()
			// invalid names do not count as existing names
			valid := make([]string, n)
			for i, nm := range orig {
				if names.IsValid(nm) {
					valid[i] = nm
				}
			}
			if !c20Check(c, "MakeSimple", valid, got, n, fmt.Sprintf("text %v", text)) {
				return
			}
			for i, nm := range got {
				if !names.IsValid(nm) {
					c.Fail("C20.valid", "MakeSimple", "glyph %d gets the invalid name %q", i, nm)
				}
			}
			// asking again (without text) returns the same names
			ol.MakeSimple(nil)
			for i, g := range ol.Glyphs {
				if g.Name != got[i] {
					c.Fail("C20.repeatable", "MakeSimple", "glyph %d is called %q after the first call and %q after the second (names %q, text %v)", i, got[i], g.Name, orig, text)
					break
				}
			}
			if ol.IsCIDKeyed() || ol.ROS != nil || ol.GIDToCID != nil || len(ol.Encoding) != 256 {
				c.Fail("C20.makesimple", "structure", "MakeSimple leaves CID data behind or no encoding (ROS=%v, GIDToCID=%v, encoding %d)", ol.ROS, ol.GIDToCID, len(ol.Encoding))
			}
		})
}

// c20CmapBeyond: character maps that name glyphs the font does not have (files like this are accepted).
func c20CmapBeyond(r *run.Run) {
	r.Explore(explore.Config{Name: "C20.cmap-beyond"},
		"5-glyph fonts of every outline kind whose character map (format 4 or 12) also maps characters to the glyph ids 5, 6, 1000 or 65535, which the font does not have, with all or no glyphs named: MakeGlyphNames and EnsureGlyphNames do not panic and give one name per glyph as always",
		func(c *explore.Ctx) {
			kind := c.Choose(3, "outline kind")
			f, _ := FontFromChoices(gen.FontOpts{NoMeta: true, NoLayout: true}, kind, 1, 0, c.Choose(2, "names"), 0)
			n := f.NumGlyphs()
			beyond := []glyph.ID{glyph.ID(n), glyph.ID(n + 1), 1000, 65535}[c.Choose(4, "glyph id beyond the font")]
			far := []uint32{0x10FFFE, 0x7FFFFFFF}[c.Choose(2, "largest code")]
			if c.Bool("format 12") {
				// (also the largest code points: U+10FFFF and, beyond Unicode, the largest positive 32-bit value)
				f.CMapTable = cmap.Table{{PlatformID: 3, EncodingID: 10}: cmap.Format12{'A': 1, 'B': beyond, 0x1F600: beyond, 'C': 2, 0x10FFFF: 1, uint32(far): 2}.Encode(0)}
			} else {
				f.CMapTable = cmap.Table{{PlatformID: 3, EncodingID: 1}: cmap.Format4{'A': 1, 'B': beyond, 'C': 2}.Encode(0)}
			}
			desc := fmt.Sprintf("%s, %d glyphs, the character map names glyph %d", gen.KindNames[kind], n, beyond)
			c.Sample(func() any { return desc })
			c.Outcome(desc)
			c.Nontrivial()
			var got []string
			var p string
			if fin, _ := withWatchdog(30*time.Second, func() { p = guard(func() { got = f.MakeGlyphNames(); f.EnsureGlyphNames() }) }); !fin {
				c.FailObserved("C20.terminates", "cmap beyond", "MakeGlyphNames does not return within 30 s; %s, largest code %#x", desc, far)
				c.StopExploration()
				return
			}
			if p != "" {
				c.Fail("C20.panic", "cmap beyond: "+explore.PanicSignature(p), "panic: %s; %s", p, desc)
				return
			}
			seen := map[string]bool{}
			for i, nm := range got {
				if nm == "" || seen[nm] || (i == 0) != (nm == ".notdef") {
					c.Fail("C20.complete", "cmap beyond", "names %q; %s", got, desc)
					return
				}
				seen[nm] = true
			}
			if len(got) != n {
				c.Fail("C20.complete", "cmap beyond", "%d names for %d glyphs; %s", len(got), n, desc)
			}
		})
}

// c20ManyPlaceholders: fonts in which hundreds or thousands of glyphs get numbered placeholder names (the
// numbers grow from three to four and five digits).
func c20ManyPlaceholders(r *run.Run) {
	counts := []int{2, 99, 100, 101, 998, 999, 1000, 1001, 1002, 1003, 9999, 10000, 10001, 10002}
	r.Explore(explore.Config{Name: "C20.many-placeholders"},
		"CID-keyed fonts with n glyphs, n in {2, 99..101, 998..1003, 9999..10002}, without any glyph text, converted with cff.Outlines.MakeSimple, and the same fonts asked with Font.MakeGlyphNames (no character map): one non-empty valid name per glyph, pairwise distinct, .notdef first, the same names when asked again",
		func(c *explore.Ctx) {
			n := counts[c.Choose(len(counts), "glyphs")]
			viaFont := c.Bool("Font.MakeGlyphNames")
			f2, _ := FontFromChoices(gen.FontOpts{NoMeta: true, NoLayout: true}, 2, 1, 0, 0, 0)
			base := f2.Outlines.(*cff.Outlines)
			ol := &cff.Outlines{Private: base.Private, FDSelect: func(glyph.ID) int { return 0 }, ROS: base.ROS, FontMatrices: base.FontMatrices[:1]}
			for i := 0; i < n; i++ {
				ol.Glyphs = append(ol.Glyphs, gen.CFFShape(1+i%3, "", 500))
				ol.GIDToCID = append(ol.GIDToCID, cid.CID(i))
			}
			desc := fmt.Sprintf("%d glyphs, via Font.MakeGlyphNames %v", n, viaFont)
			c.Sample(func() any { return desc })
			c.Outcome(desc)
			c.Nontrivial()
			var got, again []string
			if p := guard(func() {
				if viaFont {
					f2.Outlines = ol
					f2.CMapTable = nil
					got = f2.MakeGlyphNames()
					again = f2.MakeGlyphNames()
				} else {
					ol.MakeSimple(nil)
					for _, g := range ol.Glyphs {
						got = append(got, g.Name)
					}
					ol.MakeSimple(nil)
					for _, g := range ol.Glyphs {
						again = append(again, g.Name)
					}
				}
			}); p != "" {
				c.Fail("C20.panic", "many placeholders: "+explore.PanicSignature(p), "panic: %s; %s", p, desc)
				return
			}
			if len(got) != n || got[0] != ".notdef" {
				c.Fail("C20.complete", "many placeholders", "%d names for %d glyphs, glyph 0 is called %q; %s", len(got), n, got[0], desc)
				return
			}
			seen := map[string]int{}
			for i, nm := range got {
				if nm == "" || !names.IsValid(nm) {
					c.Fail("C20.valid", "many placeholders", "glyph %d is called %q; %s", i, nm, desc)
					return
				}
				if j, dup := seen[nm]; dup {
					c.Fail("C20.unique", "many placeholders", "glyphs %d and %d are both called %q; %s", j, i, nm, desc)
					return
				}
				seen[nm] = i
				if again[i] != nm {
					c.Fail("C20.repeatable", "many placeholders", "glyph %d is called %q, then %q; %s", i, nm, again[i], desc)
					return
				}
			}
		})
}

func c20PostScript(r *run.Run) {
	forbidden := " \t\n()<>[]{}/%"
	r.Explore(explore.Config{Name: "C20.postscript-name"},
		"PostScript name: every rune 0..0x10FFFF (in blocks of 4096) as a one-character family name, and all pairs over a 14-character alphabet containing the forbidden characters, x 16 width classes (0..12, 255, 1000, 65535) x 15 weights (0..1000, 65535) x 16 style-flag combinations: only characters permitted in a PostScript name remain",
		func(c *explore.Ctx) {
			f := &sfnt.Font{Width: os2.WidthNormal, Weight: os2.WeightNormal}
			blk := c.Choose(0x110+1, "rune block")
			st := 0
			if blk == 0x110 {
				// every width class 0..12 (1..9 are the named ones) and values a reader can deliver unclamped
				widths := []os2.Width{5, 0, 1, 2, 3, 4, 6, 7, 8, 9, 10, 11, 12, 255, 1000, 65535}
				weights := []os2.Weight{400, 700, 0, 1, 100, 200, 250, 300, 500, 600, 800, 900, 950, 1000, 65535}
				f.Width = widths[c.Choose(len(widths), "width")]
				f.Weight = weights[c.Choose(len(weights), "weight")]
				st = c.Choose(16, "style")
				f.IsBold, f.IsItalic, f.IsOblique, f.IsRegular = st&1 != 0, st&2 != 0, st&4 != 0, st&8 != 0
			}
			check := func(fam string) bool {
				f.FamilyName = fam
				ps := f.PostScriptName()
				for _, ch := range ps {
					if ch < 33 || ch > 126 || strings.ContainsRune(forbidden, ch) {
						c.Fail("C20.postscript", "forbidden character", "family %q (width %d, weight %d, bold %v italic %v oblique %v regular %v) gives PostScript name %q containing %q", fam, f.Width, f.Weight, f.IsBold, f.IsItalic, f.IsOblique, f.IsRegular, ps, ch)
						return false
					}
				}
				return true
			}
			if blk < 0x110 {
				c.Sample(func() any { return fmt.Sprintf("runes %#x..%#x", blk*4096, blk*4096+4095) })
				for ru := rune(blk * 4096); ru < rune(blk*4096+4096); ru++ {
					if ru >= 0xD800 && ru <= 0xDFFF {
						continue
					}
					if !check(string(ru)) {
						return
					}
				}
				c.Outcome(blk, st)
			} else {
				alpha := []rune("Aa- _()<>[]{}/%")
				c.Sample(func() any { return "all pairs over " + string(alpha) })
				for _, a := range alpha {
					for _, b := range alpha {
						if !check(string([]rune{a, b, 'x'})) {
							return
						}
					}
				}
				c.Nontrivial()
				c.Outcome("pairs", st)
			}
			if f.Weight == os2.WeightBold {
				c.Nontrivial()
			}
		})
}

func init() {
	Register("C20", func(r *run.Run) {
		r.Rule = "bounded exhaustive enumeration of name patterns, name-storage kinds, cmap subsets and GSUB variants on 5-glyph fonts; all runes / forbidden-character pairs for the PostScript name"
		r.Assume = []string{"cmap targets and GSUB glyphs refer to existing glyphs", "stability: 20 repeated calls inside C20.names, and every map iteration order of the seam's alphabet in C20.map-order"}
		c20MakeSimple(r)
		c20ManyPlaceholders(r)
		c20CmapBeyond(r)
		c20PostScript(r)
		c20MapOrder(r)
		c20Names(r)
	})
}
