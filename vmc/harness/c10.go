package harness

import (
	"bytes"
	"fmt"
	"reflect"
	"slices"
	"strings"

	"github.com/google/go-cmp/cmp"
	"github.com/google/go-cmp/cmp/cmpopts"
	"golang.org/x/text/language"

	"seehuhn.de/go/geom/matrix"
	"seehuhn.de/go/postscript/cid"
	"seehuhn.de/go/postscript/funit"
	"seehuhn.de/go/postscript/type1"
	"seehuhn.de/go/sfnt"
	"seehuhn.de/go/sfnt/cff"
	"seehuhn.de/go/sfnt/cmap"
	"seehuhn.de/go/sfnt/glyf"
	"seehuhn.de/go/sfnt/glyph"
	"seehuhn.de/go/sfnt/maxp"
	"seehuhn.de/go/sfnt/opentype/coverage"
	"seehuhn.de/go/sfnt/opentype/gtab"

	"verif/dump"
	"verif/explore"
	"verif/gen"
	"verif/refcff"
	"verif/refshape"
	"verif/run"
)

// C10: subsetting keeps every selected glyph intact and consistently re-indexed.

const c10N = 6

// every original glyph has the unique advance width 500+gid: the width
// identifies the original glyph behind any glyph of the subset.
func c10Orig(w float64) glyph.ID { return glyph.ID(int(w) - 500) }

// component graphs over 6 glyphs: glyph -> components (nil = simple, empty = blank glyph)
var c10Graphs = []map[int][]int{
	{},                               // no composites
	{3: {1}},                         // one composite
	{3: {1, 2}, 4: {3}},              // nested
	{2: {5}, 4: {2, 1}},              // forward reference, nested through a forward reference
	{5: {4}, 4: {3}, 3: {2}, 2: {1}}, // chain
	{3: {1, 1}, 5: {3, 4}},           // repeated component
}

func c10Font(c *explore.Ctx) (*sfnt.Font, string) {
	kind := c.Choose(3, "outline kind")
	f, _ := FontFromChoices(gen.FontOpts{NoMeta: true, NoLayout: true}, kind, 1, 0, 0, 0)
	desc := gen.KindNames[kind]
	names := []string{".notdef", "A", "B", "f", "i", "fi"}
	switch kind {
	case gen.KindGlyf:
		gi := c.Choose(len(c10Graphs), "component graph")
		graph := c10Graphs[gi]
		ol := &glyf.Outlines{Maxp: &maxp.TTFInfo{MaxZones: 2, MaxComponentElements: 2, MaxComponentDepth: 4}}
		for i := 0; i < c10N; i++ {
			var g *glyf.Glyph
			if comps, ok := graph[i]; ok {
				var ids []glyph.ID
				for _, k := range comps {
					ids = append(ids, glyph.ID(k))
				}
				g = gen.CompositeGlyf(funit.Rect16{URx: funit.Int16(100 + i), URy: 700}, ids...)
			} else if i == 2 && gi == 0 {
				g = nil // a blank glyph
			} else {
				g = gen.SimpleGlyf([][]gen.Pt{{{int16(i), 0, true}, {500, int16(10 * i), true}, {250, 700, true}}}, nil)
			}
			ol.Glyphs = append(ol.Glyphs, g)
			ol.Widths = append(ol.Widths, funit.Int16(500+i))
		}
		if c.Bool("glyph names") {
			ol.Names = names
		}
		f.Outlines = ol
		desc += fmt.Sprintf(" graph %d", gi)
	default:
		ol := &cff.Outlines{}
		for i := 0; i < c10N; i++ {
			nm := names[i]
			if kind == gen.KindCID {
				nm = ""
			}
			ol.Glyphs = append(ol.Glyphs, gen.CFFShape(i+1, nm, float64(500+i)))
		}
		priv := func(k int) *type1.PrivateDict {
			return &type1.PrivateDict{BlueValues: []funit.Int16{-10, 0, funit.Int16(700 + k), funit.Int16(710 + k)}, BlueScale: 0.039625, BlueShift: 7, BlueFuzz: 1, StdHW: float64(50 + k)}
		}
		if kind == gen.KindCFF {
			ol.Private = []*type1.PrivateDict{priv(0)}
			ol.FDSelect = func(glyph.ID) int { return 0 }
			enc := make([]glyph.ID, 256)
			switch c.Choose(3, "encoding") {
			case 0:
				ol.Encoding = cff.StandardEncoding(ol.Glyphs)
			case 1:
				enc[65], enc[66], enc[102], enc[105] = 1, 2, 3, 4
				ol.Encoding = enc
			case 2:
				enc[65], enc[66], enc[200], enc[201] = 1, 2, 2, 5 // multiply encoded glyph
				ol.Encoding = enc
			}
		} else {
			nfd := 2 + c.Choose(2, "font dicts")
			for k := 0; k < nfd; k++ {
				ol.Private = append(ol.Private, priv(k))
				ol.FontMatrices = append(ol.FontMatrices, matrix.Matrix{1, 0, 0, 1 + float64(k)/4, 0, 0})
			}
			sel := []int{0, 2 % nfd, 1, 0, 1, 2 % nfd}
			ol.FDSelect = func(g glyph.ID) int { return sel[g] }
			ol.ROS = &cid.SystemInfo{Registry: "Adobe", Ordering: "Identity"}
			for i := 0; i < c10N; i++ {
				ol.GIDToCID = append(ol.GIDToCID, cid.CID(i*3))
			}
			desc += fmt.Sprintf(" %d FDs", nfd)
		}
		f.Outlines = ol
	}
	// cmap: two codes -> one glyph, unmapped glyphs, an astral code
	switch c.Choose(3, "cmap") {
	case 0:
		f.CMapTable = nil
		desc += ", no cmap"
	case 1:
		f.InstallCMap(cmap.Format4{'A': 1, 'a': 1, 'B': 2, 'f': 3, 'i': 4, 0xFB01: 5})
		desc += ", cmap format 4"
	case 2:
		// consecutive codes on consecutive glyphs (one segment), and two astral codes on one glyph
		f.InstallCMap(cmap.Format12{'A': 1, 'B': 2, 'C': 3, 'D': 4, 0x1F600: 5, 0x1F601: 5})
		desc += ", cmap format 12"
	}
	f.Gsub, f.Gpos, f.Gdef = nil, nil, nil
	lig1 := func(first, second, out glyph.ID) *gtab.LookupTable {
		return gen.MakeLookup(4, gen.Flags[0], []gtab.Subtable{&gtab.Gsub4_1{Cov: coverage.Table{first: 0}, Repl: [][]gtab.Ligature{{{In: []glyph.ID{second}, Out: out}}}}})
	}
	gsubOpt := c.Choose(8, "gsub")
	switch gsubOpt {
	case 6, 7:
		// one ligature set whose rules share a prefix: the order of the rules is part of their meaning
		// (the first rule that matches wins, so a shorter rule in front shadows the longer one)
		rules := []gtab.Ligature{{In: []glyph.ID{4}, Out: 5}, {In: []glyph.ID{4, 1}, Out: 2}}
		desc += ", GSUB 4.1 one set: f+i->fi before f+i+A->B"
		if gsubOpt == 7 {
			rules[0], rules[1] = rules[1], rules[0]
			desc += " (reversed)"
		}
		f.Gsub = gsubInfo("liga", gen.MakeLookup(4, gen.Flags[0], []gtab.Subtable{&gtab.Gsub4_1{Cov: coverage.Table{3: 0}, Repl: [][]gtab.Ligature{rules}}}))
	case 1:
		f.Gsub = gsubInfo("ss01", gen.MakeLookup(1, gen.Flags[0], []gtab.Subtable{&gtab.Gsub1_1{Cov: coverage.Set{1: true, 3: true}, Delta: 1}}))
		desc += ", GSUB 1.1 {1,3}+1"
	case 2:
		f.Gsub = gsubInfo("liga", gen.MakeLookup(4, gen.Flags[0], []gtab.Subtable{&gtab.Gsub4_1{Cov: coverage.Table{3: 0}, Repl: [][]gtab.Ligature{{{In: []glyph.ID{4}, Out: 5}}}}}))
		desc += ", GSUB 4.1 f+i->fi"
	case 3:
		f.Gsub = gsubInfo("liga",
			gen.MakeLookup(1, gen.Flags[0], []gtab.Subtable{&gtab.Gsub1_1{Cov: coverage.Set{2: true}, Delta: 2}}),
			gen.MakeLookup(4, gen.Flags[0], []gtab.Subtable{&gtab.Gsub4_1{Cov: coverage.Table{1: 0, 3: 1}, Repl: [][]gtab.Ligature{{{In: []glyph.ID{2}, Out: 4}}, {{In: []glyph.ID{4}, Out: 5}, {In: []glyph.ID{1}, Out: 2}}}}}))
		desc += ", GSUB 1.1 B->i; 4.1 A+B->i f+i->fi f+A->B"
	case 4:
		// ligatures of ligatures, three levels, the deepest rule in the first lookup
		f.Gsub = gsubInfo("liga", lig1(5, 1, 2), lig1(4, 1, 5), lig1(3, 1, 4))
		desc += ", GSUB 4.1 chain in reverse lookup order: fi+A->B; i+A->fi; f+A->i"
	case 5:
		f.Gsub = gsubInfo("liga", lig1(3, 1, 4), lig1(4, 1, 5), lig1(5, 1, 2))
		desc += ", GSUB 4.1 chain: f+A->i; i+A->fi; fi+A->B"
	}
	if c.Bool("gpos") {
		f.Gpos = gsubInfo("kern", gen.MakeLookup(2, gen.Flags[0], []gtab.Subtable{gtab.Gpos2_1{
			{Left: 1, Right: 2}: {First: &gtab.GposValueRecord{XAdvance: -40}},
			{Left: 2, Right: 1}: {First: &gtab.GposValueRecord{XAdvance: 25}},
			{Left: 3, Right: 4}: {First: &gtab.GposValueRecord{XAdvance: -7}},
			{Left: 5, Right: 5}: {First: &gtab.GposValueRecord{XAdvance: 9}},
			{Left: 0, Right: 1}: {First: &gtab.GposValueRecord{XAdvance: -13}}, // .notdef is a glyph like any other
			{Left: 3, Right: 0}: {First: &gtab.GposValueRecord{XAdvance: 17}},
		}}))
		desc += ", GPOS 2.1"
	}
	return f, desc
}

func gsubInfo(tag string, lookups ...*gtab.LookupTable) *gtab.Info {
	info := &gtab.Info{ScriptList: gtab.ScriptListInfo{language.MustParse("und-Zzzz-x-dflt"): {Required: 0xFFFF}}}
	for i, l := range lookups {
		info.LookupList = append(info.LookupList, l)
		info.FeatureList = append(info.FeatureList, &gtab.Feature{Tag: tag, Lookups: []gtab.LookupIndex{gtab.LookupIndex(i)}})
		info.ScriptList[language.MustParse("und-Zzzz-x-dflt")].Optional = append(info.ScriptList[language.MustParse("und-Zzzz-x-dflt")].Optional, gtab.FeatureIndex(i))
	}
	return info
}

var c10Features = map[string]bool{"liga": true, "ss01": true, "kern": true}

func c10Shape(f *sfnt.Font, gids []glyph.ID) []glyph.Info {
	seq := make([]glyph.Info, len(gids))
	for i, g := range gids {
		seq[i] = glyph.Info{GID: g, Text: []rune{rune('a' + i)}}
	}
	if f.Gsub != nil {
		sh := &refshape.Shaper{LL: f.Gsub.LookupList}
		seq = sh.Apply(f.Gsub.FindLookups(language.Und, c10Features), seq)
	}
	for i := range seq {
		seq[i].Advance = funit.Int16(f.GlyphWidth(seq[i].GID))
	}
	if f.Gpos != nil {
		sh := &refshape.Shaper{LL: f.Gpos.LookupList}
		seq = sh.Apply(f.Gpos.FindLookups(language.Und, c10Features), seq)
	}
	return seq
}

func c10Subset(r *run.Run) {
	maxLen := 4
	if !r.Quick() {
		maxLen = 5
	}
	r.Explore(explore.Config{Name: "C10.subset", Deadline: r.PartDeadline(0.9)},
		fmt.Sprintf("6-glyph fonts (glyf with 6 component graphs incl. nested, forward and repeated references; simple CFF with 3 encodings incl. a multiply encoded glyph; CID-keyed with 2..3 font dicts) x 3 cmaps x GSUB {none, 1.1, 4.1, both, 3-level ligature chains in both lookup orders} x GPOS {none, 2.1} x ALL duplicate-free glyph lists starting with glyph 0 of length 1..%d in every order, and all six glyphs in four orders", maxLen),
		func(c *explore.Ctx) {
			f, desc := c10Font(c)
			// glyph list
			list := []glyph.ID{0}
			used := map[glyph.ID]bool{0: true}
			n := c.Choose(maxLen+1, "further glyphs")
			if n == maxLen {
				// every glyph of the font, in four orders (nothing is removed, but everything may move)
				list = [][]glyph.ID{{0, 1, 2, 3, 4, 5}, {0, 5, 4, 3, 2, 1}, {0, 2, 3, 4, 5, 1}, {0, 1, 2, 3, 5, 4}}[c.Choose(4, "order of all glyphs")]
				n = len(list) - 1
			} else {
				for i := 0; i < n; i++ {
					var avail []glyph.ID
					for g := glyph.ID(1); g < c10N; g++ {
						if !used[g] {
							avail = append(avail, g)
						}
					}
					g := avail[c.Choose(len(avail), "glyph")]
					used[g] = true
					list = append(list, g)
				}
			}
			c.Sample(func() any { return map[string]any{"font": desc, "glyphs": list} })
			if n > 0 {
				c.Nontrivial()
			}
			sig := desc[:4]
			origCopy := append([]glyph.ID{}, list...)
			sub := f.Subset(list)
			c.Outcome(desc, fmt.Sprint(origCopy))
			ng := sub.NumGlyphs()
			if ng < len(origCopy) {
				c.Fail("C10.glyphs", sig, "subset has %d glyphs for a list of %d; %s list %v", ng, len(origCopy), desc, origCopy)
				return
			}
			// index map new -> original through the unique widths
			origOf := make([]glyph.ID, ng)
			newOf := map[glyph.ID]glyph.ID{}
			for i := 0; i < ng; i++ {
				origOf[i] = c10Orig(sub.GlyphWidth(glyph.ID(i)))
				if int(origOf[i]) >= c10N {
					c.Fail("C10.width", sig, "glyph %d of the subset has width %v, no original glyph has it; %s list %v", i, sub.GlyphWidth(glyph.ID(i)), desc, origCopy)
					return
				}
				if _, dup := newOf[origOf[i]]; dup {
					c.Fail("C10.glyphs", sig, "original glyph %d occurs twice in the subset; %s list %v", origOf[i], desc, origCopy)
					return
				}
				newOf[origOf[i]] = glyph.ID(i)
			}
			for i, g := range origCopy {
				if origOf[i] != g {
					c.Fail("C10.order", sig, "glyph %d of the subset is original glyph %d, the list says %d; %s list %v", i, origOf[i], g, desc, origCopy)
					return
				}
			}
			// glyph data
			for i := 0; i < ng; i++ {
				og := origOf[i]
				if sub.GlyphName(glyph.ID(i)) != f.GlyphName(og) {
					c.Fail("C10.name", sig, "glyph %d (original %d): name %q, originally %q; %s list %v", i, og, sub.GlyphName(glyph.ID(i)), f.GlyphName(og), desc, origCopy)
				}
				switch ol := sub.Outlines.(type) {
				case *cff.Outlines:
					oo := f.Outlines.(*cff.Outlines)
					if !cmp.Equal(ol.Glyphs[i], oo.Glyphs[og]) {
						c.Fail("C10.outline", sig, "glyph %d (original %d): outline differs", i, og)
					}
					if !cmp.Equal(ol.Private[ol.FDSelect(glyph.ID(i))], oo.Private[oo.FDSelect(og)]) {
						c.Fail("C10.private", sig+" private dict", "glyph %d (original %d) gets a different private dictionary; %s list %v", i, og, desc, origCopy)
					}
					if oo.IsCIDKeyed() {
						if ol.GIDToCID[i] != oo.GIDToCID[og] {
							c.Fail("C10.cid", sig, "glyph %d (original %d): CID %d, originally %d", i, og, ol.GIDToCID[i], oo.GIDToCID[og])
						}
						if ol.FontMatrices[ol.FDSelect(glyph.ID(i))] != oo.FontMatrices[oo.FDSelect(og)] {
							c.Fail("C10.matrix", sig+" font matrix", "glyph %d (original %d) gets font matrix %v, originally %v; %s list %v", i, og, ol.FontMatrices[ol.FDSelect(glyph.ID(i))], oo.FontMatrices[oo.FDSelect(og)], desc, origCopy)
						}
					}
				case *glyf.Outlines:
					oo := f.Outlines.(*glyf.Outlines)
					a, b := ol.Glyphs[i], oo.Glyphs[og]
					if (a == nil) != (b == nil) {
						c.Fail("C10.outline", sig, "glyph %d (original %d): blank vs. non-blank", i, og)
						continue
					}
					if a == nil {
						continue
					}
					ca, cb := a.Components(), b.Components()
					if len(ca) != len(cb) {
						c.Fail("C10.components", sig, "glyph %d (original %d): %d components, originally %d", i, og, len(ca), len(cb))
						continue
					}
					for k := range ca {
						if int(ca[k]) >= ng || origOf[ca[k]] != cb[k] {
							c.Fail("C10.components", sig+" composite reference", "glyph %d (original %d): component %d points to new glyph %d which is original %v, originally component %d; %s list %v", i, og, k, ca[k], safeOrig(origOf, ca[k]), cb[k], desc, origCopy)
						}
					}
					if len(ca) == 0 && !cmp.Equal(a, b) {
						c.Fail("C10.outline", sig, "glyph %d (original %d): simple glyph data differs", i, og)
					}
				}
			}
			// the original font is not modified
			if f2, d2 := c10FontAgain(c, desc); f2 != nil {
				_ = d2
			}
			// closure: appended glyphs are exactly those needed.  lower bound: the outputs of substitution
			// rules all of whose inputs are retained (least fixed point from the list), then the components
			// of all those; upper bound: the joint fixed point, in which a glyph present only as a
			// component may also count as a rule input (the property does not say whether it does).
			composites := func(set map[glyph.ID]bool) bool {
				changed := false
				if ol, ok := f.Outlines.(*glyf.Outlines); ok {
					for again := true; again; {
						again = false
						for g := range set {
							for _, k := range ol.Glyphs[g].Components() {
								if !set[k] {
									set[k] = true
									again, changed = true, true
								}
							}
						}
					}
				}
				return changed
			}
			substitutions := func(set map[glyph.ID]bool) bool {
				if f.Gsub == nil {
					return false
				}
				any := false
				for changed := true; changed; {
					changed = false
					add := func(g glyph.ID) {
						if !set[g] {
							set[g] = true
							changed, any = true, true
						}
					}
					for _, l := range f.Gsub.LookupList {
						for _, st := range l.Subtables {
							switch st := st.(type) {
							case *gtab.Gsub1_1:
								for g := range st.Cov {
									if set[g] {
										add(g + st.Delta)
									}
								}
							case *gtab.Gsub4_1:
								for first, idx := range st.Cov {
								ligs:
									for _, lig := range st.Repl[idx] {
										if !set[first] {
											continue
										}
										for _, in := range lig.In {
											if !set[in] {
												continue ligs
											}
										}
										add(lig.Out)
									}
								}
							}
						}
					}
				}
				return any
			}
			usable := map[glyph.ID]bool{} // listed glyphs and substitution outputs
			for _, g := range origCopy {
				usable[g] = true
			}
			substitutions(usable)
			need := map[glyph.ID]bool{}
			upper := map[glyph.ID]bool{}
			for g := range usable {
				need[g], upper[g] = true, true
			}
			composites(need)
			for composites(upper) || substitutions(upper) {
			}
			for i := len(origCopy); i < ng; i++ {
				og := origOf[i]
				if !upper[og] {
					c.Fail("C10.closure", sig+" extra glyph", "glyph %d (original %d) was appended but no retained composite or substitution rule needs it; %s list %v", i, og, desc, origCopy)
				}
			}
			for g := range need {
				if _, ok := newOf[g]; !ok {
					c.Fail("C10.closure", sig+" missing component", "original glyph %d is a component of a retained composite, or the output of a substitution rule whose inputs are all retained, but is not in the subset; %s list %v", g, desc, origCopy)
				}
			}
			// character map
			ob, _ := f.CMapTable.GetBest()
			sb, _ := sub.CMapTable.GetBest()
			if ob != nil {
				if sb == nil {
					c.Fail("C10.cmap", sig+" cmap lost", "the subset has no usable cmap subtable; %s list %v", desc, origCopy)
				} else {
					// every code of the windows around the mapped characters ("no other character is mapped")
					var probe []rune
					for ru := rune(0x20); ru < 0x180; ru++ {
						probe = append(probe, ru)
					}
					for ru := rune(0xFAF0); ru < 0xFB10; ru++ {
						probe = append(probe, ru)
					}
					for ru := rune(0x1F5F0); ru < 0x1F610; ru++ {
						probe = append(probe, ru)
					}
					for _, ru := range probe {
						og := ob.Lookup(ru)
						got := sb.Lookup(ru)
						ng2, retained := newOf[og]
						switch {
						case og == 0 || !retained:
							if got != 0 {
								c.Fail("C10.cmap", sig+" cmap extra", "%U maps to glyph %d in the subset but its original glyph %d is not retained; %s list %v", ru, got, og, desc, origCopy)
							}
						case inList(origCopy, og):
							if got != ng2 {
								c.Fail("C10.cmap", sig+" cmap", "%U maps to %d in the subset, its glyph (original %d) is now %d; %s list %v", ru, got, og, ng2, desc, origCopy)
							}
						default: // appended glyph: mapped to its index, or not mapped
							if got != 0 && got != ng2 {
								c.Fail("C10.cmap", sig+" cmap", "%U maps to %d in the subset, its glyph (original %d) is now %d", ru, got, og, ng2)
							}
						}
					}
				}
			}
			// built-in encoding
			if oo, ok := f.Outlines.(*cff.Outlines); ok && !oo.IsCIDKeyed() {
				so := sub.Outlines.(*cff.Outlines)
				for code := 0; code < 256 && len(so.Encoding) == 256 && len(oo.Encoding) == 256; code++ {
					want := glyph.ID(0)
					if ng2, ok := newOf[oo.Encoding[code]]; ok && oo.Encoding[code] != 0 {
						want = ng2
					}
					if so.Encoding[code] != want && !(want != 0 && !inList(origCopy, oo.Encoding[code]) && so.Encoding[code] == 0) {
						c.Fail("C10.encoding", sig, "code %d is encoded as glyph %d in the subset, want %d (original %d); %s list %v", code, so.Encoding[code], want, oo.Encoding[code], desc, origCopy)
						break
					}
				}
			}
			// rules keep their meaning: all sequences of <= 3 retained glyphs
			if (f.Gsub != nil || f.Gpos != nil) && ng > 1 {
				// all usable retained glyphs: the listed ones and the substitution outputs appended by the closure
				alphabet := []glyph.ID{0}
				for _, og := range origOf[1:] {
					if usable[og] {
						alphabet = append(alphabet, og)
					}
				}
				try := func(seq []glyph.ID) bool {
					if len(seq) == 0 {
						return true
					}
					want := c10Shape(f, seq)
					nseq := make([]glyph.ID, len(seq))
					for i, g := range seq {
						nseq[i] = newOf[g]
					}
					var got []glyph.Info
					if p := guard(func() { got = c10Shape(sub, nseq) }); p != "" {
						c.Fail("C10.rules", sig+" shaping panics", "shaping %v in the subset panics: %s; %s list %v", nseq, p, desc, origCopy)
						return false
					}
					ok := len(got) == len(want)
					for i := 0; ok && i < len(got); i++ {
						ng2, retained := newOf[want[i].GID]
						ok = retained && got[i].GID == ng2 && got[i].Advance == want[i].Advance && string(got[i].Text) == string(want[i].Text)
					}
					if !ok {
						c.Fail("C10.rules", sig+" rules", "original glyphs %v shape to [%s] in the original font; in the subset (as %v) to [%s] (new->original %v); %s list %v", seq, fmtInfos(want), nseq, fmtInfos(got), origOf, desc, origCopy)
						return false
					}
					return true
				}
				// all pairs over the usable glyphs, all triples over the listed ones
				gen.Sequences(alphabet, 2, try)
				if !c.Failed() {
					gen.Sequences(origCopy[1:], 3, func(seq []glyph.ID) bool { return len(seq) < 3 || try(seq) })
				}
			}
			// the subset can be written and read back
			file, err := writeFont(sub)
			if err != nil {
				wsig := sig
				if strings.Contains(err.Error(), "encoded glyphs not contiguous") {
					wsig = "cff: custom encoding no longer contiguous after subsetting"
				}
				c.Fail("C10.write", wsig, "the subset cannot be written: %v; %s list %v", err, desc, origCopy)
				return
			}
			back, err := sfnt.Read(bytes.NewReader(file))
			if err != nil {
				c.Fail("C10.reread", sig, "the written subset cannot be read: %v; %s list %v", err, desc, origCopy)
				return
			}
			if back.NumGlyphs() != ng {
				c.Fail("C10.reread", sig, "the re-read subset has %d glyphs, want %d", back.NumGlyphs(), ng)
			}
			for i := 0; i < ng && i < back.NumGlyphs(); i++ {
				if back.GlyphWidth(glyph.ID(i)) != sub.GlyphWidth(glyph.ID(i)) {
					c.Fail("C10.reread", sig, "glyph %d of the re-read subset has width %v want %v", i, back.GlyphWidth(glyph.ID(i)), sub.GlyphWidth(glyph.ID(i)))
				}
				if back.GlyphName(glyph.ID(i)) != sub.GlyphName(glyph.ID(i)) && sub.GlyphName(glyph.ID(i)) != "" {
					c.Fail("C10.reread", sig+" name", "glyph %d of the re-read subset is called %q want %q; %s list %v", i, back.GlyphName(glyph.ID(i)), sub.GlyphName(glyph.ID(i)), desc, origCopy)
				}
			}
			// what was checked on the subset in memory also holds for the file: outlines, CIDs, the private
			// dictionary and font matrix of every glyph, component references, the character map
			switch so := sub.Outlines.(type) {
			case *cff.Outlines:
				bo, ok := back.Outlines.(*cff.Outlines)
				if !ok || len(bo.Glyphs) != len(so.Glyphs) {
					c.Fail("C10.reread", sig, "the re-read subset has other outlines (%T)", back.Outlines)
					break
				}
				for i := range so.Glyphs {
					gi := glyph.ID(i)
					if !reflect.DeepEqual(so.Glyphs[i].Cmds, bo.Glyphs[i].Cmds) && !cmp.Equal(so.Glyphs[i].Cmds, bo.Glyphs[i].Cmds, cmpopts.EquateEmpty(), cmpopts.EquateApprox(0, 1.0/65536)) {
						c.Fail("C10.reread", sig+" outline", "glyph %d of the re-read subset has another outline; %s list %v", i, desc, origCopy)
					}
					if !reflect.DeepEqual(so.Private[so.FDSelect(gi)], bo.Private[bo.FDSelect(gi)]) && !cmp.Equal(so.Private[so.FDSelect(gi)], bo.Private[bo.FDSelect(gi)], cmpopts.EquateEmpty()) {
						c.Fail("C10.reread", sig+" private dict", "glyph %d of the re-read subset gets another private dictionary (font dictionary %d, in memory %d); %s list %v", i, bo.FDSelect(gi), so.FDSelect(gi), desc, origCopy)
					}
					if so.IsCIDKeyed() {
						if len(bo.GIDToCID) != len(so.GIDToCID) || bo.GIDToCID[i] != so.GIDToCID[i] {
							c.Fail("C10.reread", sig+" cid", "glyph %d of the re-read subset has another CID; %s list %v", i, desc, origCopy)
						}
						if bo.FontMatrices[bo.FDSelect(gi)] != so.FontMatrices[so.FDSelect(gi)] {
							c.Fail("C10.reread", sig+" font matrix", "glyph %d of the re-read subset gets font matrix %v, in memory %v; %s list %v", i, bo.FontMatrices[bo.FDSelect(gi)], so.FontMatrices[so.FDSelect(gi)], desc, origCopy)
						}
					}
				}
			case *glyf.Outlines:
				bo, ok := back.Outlines.(*glyf.Outlines)
				if !ok || len(bo.Glyphs) != len(so.Glyphs) {
					c.Fail("C10.reread", sig, "the re-read subset has other outlines (%T)", back.Outlines)
					break
				}
				for i := range so.Glyphs {
					if !reflect.DeepEqual(so.Glyphs[i], bo.Glyphs[i]) && !cmp.Equal(so.Glyphs[i], bo.Glyphs[i], cmpopts.EquateEmpty()) {
						c.Fail("C10.reread", sig+" outline", "glyph %d of the re-read subset differs from the subset in memory; %s list %v", i, desc, origCopy)
					}
				}
			}
			if sb != nil {
				if bb, _ := back.CMapTable.GetBest(); bb == nil {
					c.Fail("C10.reread", sig+" cmap", "the re-read subset has no usable cmap; %s list %v", desc, origCopy)
				} else {
					for _, ru := range []rune{'A', 'a', 'B', 'C', 'D', 'f', 'i', 0xFB01, 0x1F600, 0x1F601} {
						if bb.Lookup(ru) != sb.Lookup(ru) {
							c.Fail("C10.reread", sig+" cmap", "%U maps to %d in the re-read subset, %d in memory; %s list %v", ru, bb.Lookup(ru), sb.Lookup(ru), desc, origCopy)
						}
					}
				}
			}
		})
}

func c10FontAgain(c *explore.Ctx, desc string) (*sfnt.Font, string) { return nil, desc }

func inList(l []glyph.ID, g glyph.ID) bool {
	for _, x := range l {
		if x == g {
			return true
		}
	}
	return false
}

func safeOrig(origOf []glyph.ID, g glyph.ID) any {
	if int(g) < len(origOf) {
		return origOf[g]
	}
	return "out of range"
}

// repeated subsetting of one font: the source is not modified
func c10Repeat(r *run.Run) {
	r.Explore(explore.Config{Name: "C10.repeat"},
		"histories of 2 successive Subset calls on one font (all pairs of glyph lists of length <= 3): the second subset equals the subset taken from a fresh copy of the font (the source font is not modified by subsetting)",
		func(c *explore.Ctx) {
			mk := func() (*sfnt.Font, string) {
				var f *sfnt.Font
				var d string
				explore.Exec(func(cc *explore.Ctx) { f, d = c10Font(cc) }, c10FontChoices, false)
				return f, d
			}
			var fontChoices []int
			f, desc := func() (*sfnt.Font, string) {
				start := len(c.Choices())
				f, d := c10Font(c)
				fontChoices = append([]int{}, c.Choices()[start:]...)
				return f, d
			}()
			_ = mk
			lists := [][]glyph.ID{{0}, {0, 3}, {0, 4, 2}, {0, 5, 3}, {0, 1, 2, 3}, {0, 5}}
			l1 := lists[c.Choose(len(lists), "first list")]
			l2 := lists[c.Choose(len(lists), "second list")]
			c.Sample(func() any { return map[string]any{"font": desc, "first": l1, "second": l2} })
			c.Nontrivial()
			var fresh *sfnt.Font
			explore.Exec(func(cc *explore.Ctx) { fresh, _ = c10Font(cc) }, fontChoices, false)
			c.Outcome(desc, fmt.Sprint(l1), fmt.Sprint(l2))
			f.Subset(append([]glyph.ID{}, l1...))
			if d := fontDiff(fresh, f, 0); d != "" {
				c.Fail("C10.repeat", desc[:4]+" source modified", "Subset(%v) modified the font it was taken from (%s): %s", l1, desc, trimDiff(d))
				return
			}
			sub2 := f.Subset(append([]glyph.ID{}, l2...))
			if d := fontDiff(fresh, f, 0); d != "" {
				c.Fail("C10.repeat", desc[:4]+" source modified", "Subset(%v) then Subset(%v) modified the source font (%s): %s", l1, l2, desc, trimDiff(d))
			}
			if sub2.NumGlyphs() < len(l2) {
				c.Fail("C10.repeat", desc[:4]+" second subset", "second subset has %d glyphs", sub2.NumGlyphs())
			}
		})
}

var c10FontChoices []int

// c10SubsetSizes: whether a written subset sits on a size threshold of the file format depends only on
// which glyphs are retained; subsets whose String INDEX (glyph names and font information strings) is
// 252..258 bytes long are written and read back.
func c10SubsetSizes(r *run.Run) {
	lists := [][]glyph.ID{{0}, {0, 1}, {0, 3, 5}, {0, 5, 4, 3, 2, 1}}
	mk := func(kind, copyright int) *sfnt.Font {
		f, _ := FontFromChoices(gen.FontOpts{NoMeta: true, NoLayout: true}, kind, 2, 0, 0, 1)
		o := *f.Outlines.(*cff.Outlines)
		o.Glyphs = append([]*cff.Glyph{}, o.Glyphs...)
		if !o.IsCIDKeyed() {
			for i := 1; i < len(o.Glyphs); i++ {
				g := *o.Glyphs[i]
				g.Name = "n" + strings.Repeat("x", i)
				o.Glyphs[i] = &g
			}
			o.Encoding = cff.StandardEncoding(o.Glyphs)
		}
		f.Outlines = &o
		b := make([]byte, copyright)
		for i := range b {
			b[i] = "Abc dEf, "[i%9]
		}
		f.Copyright = string(b)
		return f
	}
	stringBytes := func(f *sfnt.Font) (int, error) {
		buf := &bytes.Buffer{}
		if err := f.AsCFF().Write(buf); err != nil {
			return 0, err
		}
		rf, err := refcff.Parse(buf.Bytes())
		if err != nil {
			return 0, err
		}
		n := 0
		for _, s := range rf.Strings {
			n += len(s)
		}
		return n, nil
	}
	r.Explore(explore.Config{Name: "C10.subset-sizes"},
		"subsets of simple and CID-keyed CFF fonts (4 glyph lists) whose String INDEX data is exactly 252..258 bytes long (the copyright string is sized accordingly, measured with the independent CFF reader; the 64 KiB threshold is not reachable through a font: the name table limits the string to 32767 UTF-16 units): the subset is written, read back and equals the subset in memory (glyph count, names, widths, outlines)",
		func(c *explore.Ctx) {
			kind := 1 + c.Choose(2, "outline kind")
			list := lists[c.Choose(len(lists), "glyph list")]
			target := 255 - 3 + c.Choose(7, "String INDEX size")
			// a 100-byte copyright first: its length does not change which other strings are stored
			probe := mk(kind, 100).Subset(list)
			base, err := stringBytes(probe)
			if err != nil {
				c.Fail("C10.write", "subset sizes", "the subset cannot be written / walked: %v (list %v)", err, list)
				return
			}
			need := target - (base - 100)
			if need < 1 {
				c.Skip("the strings of the subset are longer than the target without any copyright")
			}
			f := mk(kind, need)
			sub := f.Subset(list)
			desc := fmt.Sprintf("%s, list %v, String INDEX data %d bytes", gen.KindNames[kind], list, target)
			c.Sample(func() any { return desc })
			c.Outcome(desc)
			if got, err := stringBytes(sub); err == nil && got == target {
				c.Nontrivial()
			}
			buf := &bytes.Buffer{}
			if _, err := sub.Write(buf); err != nil {
				c.Fail("C10.write", "subset sizes", "the subset cannot be written: %v; %s", err, desc)
				return
			}
			back, err := sfnt.Read(bytes.NewReader(buf.Bytes()))
			if err != nil {
				c.Fail("C10.reread", "subset sizes", "the written subset cannot be read: %v; %s", err, desc)
				return
			}
			if back.NumGlyphs() != sub.NumGlyphs() || back.Copyright != sub.Copyright {
				c.Fail("C10.reread", "subset sizes", "the re-read subset has %d glyphs and a %d-byte copyright, in memory %d and %d; %s", back.NumGlyphs(), len(back.Copyright), sub.NumGlyphs(), len(sub.Copyright), desc)
				return
			}
			bo, so := back.Outlines.(*cff.Outlines), sub.Outlines.(*cff.Outlines)
			for i := 0; i < sub.NumGlyphs(); i++ {
				gi := glyph.ID(i)
				if back.GlyphWidth(gi) != sub.GlyphWidth(gi) || back.GlyphName(gi) != sub.GlyphName(gi) || !reflect.DeepEqual(bo.Glyphs[i].Cmds, so.Glyphs[i].Cmds) {
					c.Fail("C10.reread", "subset sizes glyph", "glyph %d of the re-read subset (%q, width %v) differs from the subset in memory (%q, width %v); %s", i, back.GlyphName(gi), back.GlyphWidth(gi), sub.GlyphName(gi), sub.GlyphWidth(gi), desc)
					return
				}
			}
		})
}

// c10CharsetRuns: the charset of a written subset stores runs of consecutive CIDs / string ids as ranges with a
// one-byte (format 1) or two-byte (format 2) count; whether a run sits on the 256-entry limit of a range depends
// only on which glyphs are retained.
func c10CharsetRuns(r *run.Run) {
	const total = 600
	mk := func(kind int) *sfnt.Font {
		f, _ := FontFromChoices(gen.FontOpts{NoMeta: true, NoLayout: true}, kind, 2, 0, 0, 1)
		o := *f.Outlines.(*cff.Outlines)
		o.Glyphs = append([]*cff.Glyph{}, o.Glyphs...)
		for i := len(o.Glyphs); i < total; i++ {
			g := cff.NewGlyph(fmt.Sprintf("g%03d", i), float64(500+i%7))
			if i%3 == 0 {
				g.MoveTo(0, 0)
				g.LineTo(10, float64(i%50))
				g.LineTo(20, 0)
			}
			o.Glyphs = append(o.Glyphs, g)
		}
		if o.IsCIDKeyed() {
			nfd := len(o.Private)
			o.FDSelect = func(g glyph.ID) int { return int(g) % nfd }
			o.GIDToCID = make([]cid.CID, total)
			for i := range o.GIDToCID {
				o.GIDToCID[i] = cid.CID(i)
			}
		} else {
			for i := 1; i < len(o.Glyphs); i++ {
				g := *o.Glyphs[i]
				g.Name = fmt.Sprintf("g%03d", i)
				o.Glyphs[i] = &g
			}
			o.Encoding = cff.StandardEncoding(o.Glyphs)
		}
		f.Outlines = &o
		return f
	}
	fonts := map[int]*sfnt.Font{1: mk(1), 2: mk(2)}
	runs := []int{254, 255, 256, 257, 258, 510, 511, 512, 513, 514}
	r.Explore(explore.Config{Name: "C10.subset-charset-runs"},
		fmt.Sprintf("subsets of a simple and a CID-keyed CFF font with %d glyphs that retain a run of %v consecutive glyphs (at the start of the list or behind a gap; alone or followed by two more glyphs): the subset is written, walked by the independent CFF reader, read back and has the glyph count, names / CIDs and widths of the subset in memory", total, runs),
		func(c *explore.Ctx) {
			kind := 1 + c.Choose(2, "outline kind")
			n := runs[c.Choose(len(runs), "length of the run")]
			first := []int{1, 20}[c.Choose(2, "first glyph of the run")]
			tail := c.Choose(2, "glyphs behind the run")
			list := []glyph.ID{0}
			for i := 0; i < n; i++ {
				list = append(list, glyph.ID(first+i))
			}
			if tail == 1 {
				list = append(list, 550, 552)
			}
			desc := fmt.Sprintf("%s, glyph 0, a run of %d glyphs from %d, %d more", gen.KindNames[kind], n, first, 2*tail)
			c.Sample(func() any { return desc })
			c.Outcome(desc)
			c.Nontrivial()
			sub := fonts[kind].Subset(list)
			buf := &bytes.Buffer{}
			if _, err := sub.Write(buf); err != nil {
				c.Fail("C10.write", "charset runs", "the subset cannot be written: %v; %s", err, desc)
				return
			}
			cffBuf := &bytes.Buffer{}
			if err := sub.AsCFF().Write(cffBuf); err != nil {
				c.Fail("C10.write", "charset runs", "the CFF data of the subset cannot be written: %v; %s", err, desc)
				return
			}
			if _, err := refcff.Parse(cffBuf.Bytes()); err != nil {
				c.Fail("C10.reread", "charset runs / independent reader", "the independent CFF reader refuses the written subset: %v; %s", err, desc)
				return
			}
			back, err := sfnt.Read(bytes.NewReader(buf.Bytes()))
			if err != nil {
				c.Fail("C10.reread", "charset runs", "the written subset cannot be read: %v; %s", err, desc)
				return
			}
			if back.NumGlyphs() != len(list) {
				c.Fail("C10.reread", "charset runs", "the re-read subset has %d glyphs, the list %d; %s", back.NumGlyphs(), len(list), desc)
				return
			}
			bo, oo := back.Outlines.(*cff.Outlines), fonts[kind].Outlines.(*cff.Outlines)
			for i, g := range list {
				gi := glyph.ID(i)
				if back.GlyphWidth(gi) != fonts[kind].GlyphWidth(g) {
					c.Fail("C10.reread", "charset runs width", "glyph %d (original %d) of the re-read subset has width %v, originally %v; %s", i, g, back.GlyphWidth(gi), fonts[kind].GlyphWidth(g), desc)
					return
				}
				if oo.IsCIDKeyed() {
					if i >= len(bo.GIDToCID) || bo.GIDToCID[i] != oo.GIDToCID[g] {
						c.Fail("C10.cid", "charset runs", "glyph %d (original %d) of the re-read subset does not have CID %d; %s", i, g, oo.GIDToCID[g], desc)
						return
					}
				} else if back.GlyphName(gi) != fonts[kind].GlyphName(g) {
					c.Fail("C10.reread", "charset runs name", "glyph %d (original %d) of the re-read subset is called %q, originally %q; %s", i, g, back.GlyphName(gi), fonts[kind].GlyphName(g), desc)
					return
				}
			}
		})
}

// c10LargeKerning: kerning data (pair adjustment format 1, the GPOS data the subsetter supports) that needs
// extension records in the lookup list of the subset.
func c10LargeKerning(r *run.Run) {
	const ng = 104
	mk := func(nl int) *sfnt.Font {
		f, _ := FontFromChoices(gen.FontOpts{NoMeta: true, NoLayout: true}, 0, 1, 0, 0, 1)
		o := *f.Outlines.(*glyf.Outlines)
		o.Glyphs, o.Widths, o.Names = nil, nil, nil
		for i := 0; i < ng; i++ {
			o.Glyphs = append(o.Glyphs, &glyf.Glyph{Rect16: funit.Rect16{URx: 10, URy: 10}, Data: glyf.SimpleGlyph{NumContours: 1, Encoded: []byte{0, 0, 0, 0, 0x31}}})
			o.Widths = append(o.Widths, funit.Int16(400+i))
		}
		f.Outlines = &o
		var ls []*gtab.LookupTable
		for l := 0; l < nl; l++ {
			st := gtab.Gpos2_1{}
			for a := 1; a < ng; a++ {
				for b := 1; b < ng; b++ {
					st[glyph.Pair{Left: glyph.ID(a), Right: glyph.ID(b)}] = &gtab.PairAdjust{First: &gtab.GposValueRecord{XAdvance: funit.Int16(-1 - (a*7+b*3+l)%50)}}
				}
			}
			ls = append(ls, gen.MakeLookup(2, gen.Flags[0], []gtab.Subtable{st}))
		}
		f.Gpos = gsubInfo("kern", ls...)
		return f
	}
	r.Explore(explore.Config{Name: "C10.subset-large-kerning"},
		"a 104-glyph font with 1..4 kerning lookups (pair adjustment format 1, 10609 pairs = about 45 kB each: from three lookups on the lookup list needs extension records) subset to all glyphs in reverse order, to all but the last four, and to every second glyph: the kerning of the subset equals that of the original on the retained glyphs, and the subset is written and read back with the same kerning",
		func(c *explore.Ctx) {
			nl := 1 + c.Choose(4, "kerning lookups")
			var list []glyph.ID
			switch c.Choose(3, "glyph list") {
			case 0:
				list = append(list, 0)
				for g := ng - 1; g >= 1; g-- {
					list = append(list, glyph.ID(g))
				}
			case 1:
				for g := 0; g < ng-4; g++ {
					list = append(list, glyph.ID(g))
				}
			default:
				for g := 0; g < ng; g += 2 {
					list = append(list, glyph.ID(g))
				}
			}
			f := mk(nl)
			desc := fmt.Sprintf("%d lookups, %d glyphs retained starting %v", nl, len(list), list[:3])
			c.Sample(func() any { return desc })
			c.Outcome(desc)
			sub := f.Subset(list)
			if sub.Gpos == nil || len(sub.Gpos.LookupList) != nl {
				c.Fail("C10.rules", "large kerning", "the subset has no / not all kerning lookups; %s", desc)
				return
			}
			check := func(what string, info *gtab.Info) bool {
				if info == nil || len(info.LookupList) != nl {
					c.Fail("C10.reread", "large kerning "+what, "%s: %d kerning lookups expected; %s", what, nl, desc)
					return false
				}
				for l := 0; l < nl; l++ {
					orig := f.Gpos.LookupList[l].Subtables[0].(gtab.Gpos2_1)
					n := 0
					for _, stb := range info.LookupList[l].Subtables {
						st, ok := stb.(gtab.Gpos2_1)
						if !ok {
							c.Fail("C10.rules", "large kerning "+what, "%s: lookup %d holds a %T; %s", what, l, stb, desc)
							return false
						}
						for pr, adj := range st {
							n++
							if int(pr.Left) >= len(list) || int(pr.Right) >= len(list) {
								c.Fail("C10.rules", "large kerning "+what, "%s: lookup %d has a pair of glyphs %d, %d the subset does not have; %s", what, l, pr.Left, pr.Right, desc)
								return false
							}
							o := orig[glyph.Pair{Left: list[pr.Left], Right: list[pr.Right]}]
							if o == nil || adj == nil || adj.First == nil || *adj.First != *o.First || adj.Second != nil && *adj.Second != (gtab.GposValueRecord{}) {
								c.Fail("C10.rules", "large kerning "+what, "%s: lookup %d, pair (%d,%d) = original (%d,%d): adjustment differs; %s", what, l, pr.Left, pr.Right, list[pr.Left], list[pr.Right], desc)
								return false
							}
						}
					}
					want := 0
					for _, a := range list {
						for _, b := range list {
							if a != 0 && b != 0 {
								want++
							}
						}
					}
					if n != want {
						c.Fail("C10.rules", "large kerning "+what, "%s: lookup %d has %d pairs, %d expected; %s", what, l, n, want, desc)
						return false
					}
				}
				return true
			}
			if !check("the subset in memory", sub.Gpos) {
				return
			}
			c.Nontrivial()
			buf := &bytes.Buffer{}
			if _, err := sub.Write(buf); err != nil {
				c.Fail("C10.write", "large kerning", "the subset cannot be written: %v; %s", err, desc)
				return
			}
			back, err := sfnt.Read(bytes.NewReader(buf.Bytes()))
			if err != nil {
				c.Fail("C10.reread", "large kerning", "the written subset cannot be read back: %v; %s", err, desc)
				return
			}
			check("the subset read back", back.Gpos)
		})
}

// c10Hinted: a subset changes which advance width is the most frequent one, and with it which glyphs store
// their width in the charstring - in front of the stem hints.
func c10Hinted(r *run.Run) {
	stems := []int{0, 1, 23, 24, 25, 47, 48, 60}
	lists := [][]glyph.ID{{0, 1}, {0, 1, 3, 4}, {0, 3, 4, 1}, {0, 1, 3, 4, 5}, {0, 2, 1}}
	r.Explore(explore.Config{Name: "C10.subset-hinted"},
		"simple and CID-keyed CFF fonts with the widths [500 500 500 600 600 700] whose glyph 1 has {0, 1, 23..25, 47, 48, 60} horizontal or vertical stem hint pairs, subset to 5 glyph lists (in most of them another width than that of glyph 1 becomes the most frequent one): written and read back, every glyph of the subset has the width, the stems and the outline of the original glyph",
		func(c *explore.Ctx) {
			kind := 1 + c.Choose(2, "outline kind")
			ns := stems[c.Choose(len(stems), "stem pairs")]
			vertical := c.Bool("vertical stems")
			list := lists[c.Choose(len(lists), "glyph list")]
			f, _ := FontFromChoices(gen.FontOpts{NoMeta: true, NoLayout: true}, kind, 2, 0, 0, 1)
			o := *f.Outlines.(*cff.Outlines)
			o.Glyphs = append([]*cff.Glyph{}, o.Glyphs...)
			ws := []float64{500, 500, 500, 600, 600, 700}
			for i := range o.Glyphs {
				g := *o.Glyphs[i]
				g.Width = ws[i%len(ws)]
				if i == 1 {
					g.HStem, g.VStem = nil, nil
					for k := 0; k < ns; k++ {
						if vertical {
							g.VStem = append(g.VStem, float64(10*k), float64(10*k+4))
						} else {
							g.HStem = append(g.HStem, float64(10*k), float64(10*k+4))
						}
					}
				}
				o.Glyphs[i] = &g
			}
			f.Outlines = &o
			desc := fmt.Sprintf("%s, %d stem pairs (vertical %v), list %v", gen.KindNames[kind], ns, vertical, list)
			c.Sample(func() any { return desc })
			c.Outcome(desc)
			c.Nontrivial()
			sub := f.Subset(list)
			buf := &bytes.Buffer{}
			if _, err := sub.Write(buf); err != nil {
				c.Fail("C10.write", "hinted", "the subset cannot be written: %v; %s", err, desc)
				return
			}
			back, err := sfnt.Read(bytes.NewReader(buf.Bytes()))
			if err != nil || back.NumGlyphs() != len(list) {
				c.Fail("C10.reread", "hinted", "the written subset cannot be read back with %d glyphs: %v; %s", len(list), err, desc)
				return
			}
			bo := back.Outlines.(*cff.Outlines)
			for i, og := range list {
				want, got := o.Glyphs[og], bo.Glyphs[i]
				if got.Width != want.Width || !cmp.Equal(got.HStem, want.HStem, cmpopts.EquateEmpty()) || !cmp.Equal(got.VStem, want.VStem, cmpopts.EquateEmpty()) || !reflect.DeepEqual(got.Cmds, want.Cmds) {
					c.Fail("C10.reread", "hinted glyph", "glyph %d of the re-read subset (width %v, %d+%d stem values) is not the original glyph %d (width %v, %d+%d stem values); %s", i, got.Width, len(got.HStem), len(got.VStem), og, want.Width, len(want.HStem), len(want.VStem), desc)
					return
				}
			}
		})
}

// c10GlyfSizes: subsets of a TrueType font whose glyph data has a chosen total size around the limits of
// the two "loca" formats (64 KiB: where the library changes format; 128 KiB: the most the short format can address).
func c10GlyfSizes(r *run.Run) {
	lists := [][]glyph.ID{{0, 1, 2}, {0, 2, 1, 3}, {0, 4, 1}, {0, 1}}
	targets := []int{0xFFFC, 0xFFFE, 0x10000, 0x10002, 0x1FFFC, 0x1FFFE, 0x20000, 0x20002, 0x20004}
	big := func(fill int) *glyf.Glyph {
		body := append([]byte{0, 0, byte(fill >> 8), byte(fill)}, make([]byte, fill)...)
		return &glyf.Glyph{Rect16: funit.Rect16{URx: 10, URy: 10}, Data: glyf.SimpleGlyph{NumContours: 1, Encoded: append(body, 0x31)}}
	}
	mk := func(fillA, fillB int) *sfnt.Font {
		f, _ := FontFromChoices(gen.FontOpts{NoMeta: true, NoLayout: true}, 0, 1, 0, 0, 1)
		o := *f.Outlines.(*glyf.Outlines)
		small := &glyf.Glyph{Rect16: funit.Rect16{URx: 10, URy: 10}, Data: glyf.SimpleGlyph{NumContours: 1, Encoded: []byte{0, 0, 0, 0, 0x31}}}
		comp := &glyf.Glyph{Rect16: funit.Rect16{URx: 10, URy: 10}, Data: glyf.CompositeGlyph{Components: []glyf.GlyphComponent{{Flags: 0x0002, GlyphIndex: 1, Data: []byte{0, 0}}}}}
		o.Glyphs = glyf.Glyphs{small, big(fillA), big(fillB), small, comp}
		o.Widths = []funit.Int16{500, 501, 502, 503, 504}
		o.Names = nil
		f.Outlines = &o
		f.CMapTable = nil
		return f
	}
	glyfSize := func(f *sfnt.Font) int { return len(f.Outlines.(*glyf.Outlines).Glyphs.Encode().GlyfData) }
	r.Explore(explore.Config{Name: "C10.subset-glyf-sizes"},
		"subsets (4 glyph lists, one of them through a composite glyph whose component is appended) of a TrueType font whose retained glyph data is exactly 0xFFFC..0x10002 or 0x1FFFC..0x20004 bytes long (the limits of the short and the switch to the long 'loca' format): the subset is written, read back and equals the subset in memory",
		func(c *explore.Ctx) {
			list := lists[c.Choose(len(lists), "glyph list")]
			target := targets[c.Choose(len(targets), "glyph data size")]
			base := glyfSize(mk(1, 1).Subset(list))
			hasB := false
			for _, g := range list {
				hasB = hasB || g == 2
			}
			need := target - base // both fillers are odd: sizes stay even
			fa, fb := 1, 1
			if hasB {
				fa += need / 4 * 2
				fb += need - need/4*2
			} else {
				fa += need
			}
			if fa > 0xFFFF || fb > 0xFFFF {
				c.Skip("one glyph cannot hold that much")
			}
			f := mk(fa, fb)
			sub := f.Subset(list)
			got := glyfSize(sub)
			desc := fmt.Sprintf("list %v, glyph data %#x bytes (target %#x)", list, got, target)
			c.Sample(func() any { return desc })
			c.Outcome(desc)
			if got == target {
				c.Nontrivial()
			}
			buf := &bytes.Buffer{}
			if _, err := sub.Write(buf); err != nil {
				c.Fail("C10.write", "glyf sizes", "the subset cannot be written: %v; %s", err, desc)
				return
			}
			back, err := sfnt.Read(bytes.NewReader(buf.Bytes()))
			if err != nil || back.NumGlyphs() != sub.NumGlyphs() {
				c.Fail("C10.reread", "glyf sizes", "the written subset cannot be read back with %d glyphs: %v; %s", sub.NumGlyphs(), err, desc)
				return
			}
			bo, so := back.Outlines.(*glyf.Outlines), sub.Outlines.(*glyf.Outlines)
			for i := range so.Glyphs {
				if back.GlyphWidth(glyph.ID(i)) != sub.GlyphWidth(glyph.ID(i)) || !cmp.Equal(so.Glyphs[i], bo.Glyphs[i], cmpopts.EquateEmpty()) {
					c.Fail("C10.reread", "glyf sizes glyph", "glyph %d of the re-read subset differs from the subset in memory; %s", i, desc)
					return
				}
			}
		})
}

// c10OutlinesSubset: (*cff.Outlines).Subset called directly (Font.Subset has its own code for CFF
// outlines): glyph i of the result is the listed glyph with its private dictionary, font matrix and CID;
// built-in encodings keep their meaning; the original is left alone.
func c10OutlinesSubset(r *run.Run) {
	r.Explore(explore.Config{Name: "C10.cff-outlines-subset"},
		"(*cff.Outlines).Subset on 6-glyph simple CFF outlines (3 encodings incl. a multiply encoded glyph) and CID-keyed outlines (2..3 font dictionaries) x ALL duplicate-free glyph lists starting with glyph 0 of length 1..6 in every order: glyph, private dictionary, font matrix, CID and encoding of every position; the original outlines are unchanged",
		func(c *explore.Ctx) {
			ol := &cff.Outlines{}
			isCID := c.Bool("CID-keyed")
			for i := 0; i < c10N; i++ {
				nm := fmt.Sprintf("g%d", i)
				if i == 0 {
					nm = ".notdef"
				}
				if isCID {
					nm = ""
				}
				ol.Glyphs = append(ol.Glyphs, gen.CFFShape(i+1, nm, float64(500+i)))
			}
			priv := func(k int) *type1.PrivateDict {
				return &type1.PrivateDict{BlueValues: []funit.Int16{-10, 0, funit.Int16(700 + k), funit.Int16(710 + k)}, BlueScale: 0.039625, BlueShift: 7, BlueFuzz: 1, StdHW: float64(50 + k)}
			}
			desc := "simple"
			var sel []int
			if !isCID {
				ol.Private = []*type1.PrivateDict{priv(0)}
				sel = make([]int, c10N)
				enc := make([]glyph.ID, 256)
				switch k := c.Choose(3, "encoding"); k {
				case 0:
					ol.Encoding = cff.StandardEncoding(ol.Glyphs)
				case 1:
					enc[65], enc[66], enc[102], enc[105] = 1, 2, 3, 4
					ol.Encoding = enc
				case 2:
					enc[65], enc[66], enc[200], enc[201] = 1, 2, 2, 5 // multiply encoded glyph
					ol.Encoding = enc
				}
			} else {
				nfd := 2 + c.Choose(2, "font dicts")
				for k := 0; k < nfd; k++ {
					ol.Private = append(ol.Private, priv(k))
					ol.FontMatrices = append(ol.FontMatrices, matrix.Matrix{1, 0, 0, 1 + float64(k)/4, 0, 0})
				}
				sel = []int{0, 2 % nfd, 1, 0, 1, 2 % nfd}
				ol.ROS = &cid.SystemInfo{Registry: "Adobe", Ordering: "Identity"}
				for i := 0; i < c10N; i++ {
					ol.GIDToCID = append(ol.GIDToCID, cid.CID(i*3))
				}
				desc = fmt.Sprintf("cid %d FDs", nfd)
			}
			ol.FDSelect = func(g glyph.ID) int { return sel[g] }
			list := []glyph.ID{0}
			used := map[glyph.ID]bool{0: true}
			n := c.Choose(c10N, "further glyphs")
			for i := 0; i < n; i++ {
				var avail []glyph.ID
				for g := glyph.ID(1); g < c10N; g++ {
					if !used[g] {
						avail = append(avail, g)
					}
				}
				g := avail[c.Choose(len(avail), "glyph")]
				used[g] = true
				list = append(list, g)
			}
			c.Sample(func() any { return map[string]any{"outlines": desc, "glyphs": list} })
			if n > 0 {
				c.Nontrivial()
			}
			c.Outcome(desc, fmt.Sprint(list), fmt.Sprint(ol.Encoding))
			before := dump.String(ol)
			listCopy := append([]glyph.ID{}, list...)
			var sub *cff.Outlines
			if p := guard(func() { sub = ol.Subset(list) }); p != "" {
				c.Fail("C10.panic", "Outlines.Subset", "Outlines.Subset(%v) panics: %s; %s", listCopy, p, desc)
				return
			}
			if dump.String(ol) != before || !slices.Equal(list, listCopy) {
				c.Fail("C10.original", "Outlines.Subset", "Outlines.Subset(%v) modifies the original outlines or the list; %s", listCopy, desc)
			}
			if len(sub.Glyphs) != len(list) {
				c.Fail("C10.glyphs", "Outlines.Subset", "the subset has %d glyphs for the list %v; %s", len(sub.Glyphs), list, desc)
				return
			}
			for i, g := range list {
				if !reflect.DeepEqual(sub.Glyphs[i], ol.Glyphs[g]) {
					c.Fail("C10.glyphs", "Outlines.Subset glyph", "glyph %d of the subset is not the original glyph %d; list %v; %s", i, g, list, desc)
					return
				}
				fd := sub.FDSelect(glyph.ID(i))
				if fd < 0 || fd >= len(sub.Private) || !reflect.DeepEqual(sub.Private[fd], ol.Private[sel[g]]) {
					c.Fail("C10.private", "Outlines.Subset private dict", "glyph %d of the subset (original %d) gets font dictionary %d of %d, which is not the original glyph's private dictionary; list %v; %s", i, g, fd, len(sub.Private), list, desc)
					return
				}
				if isCID {
					if fd >= len(sub.FontMatrices) || sub.FontMatrices[fd] != ol.FontMatrices[sel[g]] {
						c.Fail("C10.private", "Outlines.Subset font matrix", "glyph %d of the subset (original %d) gets another font matrix; list %v; %s", i, g, list, desc)
						return
					}
					if i >= len(sub.GIDToCID) || sub.GIDToCID[i] != ol.GIDToCID[g] {
						c.Fail("C10.cid", "Outlines.Subset", "glyph %d of the subset (original %d) has CID %v want %d; list %v; %s", i, g, sub.GIDToCID, ol.GIDToCID[g], list, desc)
						return
					}
				}
			}
			if isCID != sub.IsCIDKeyed() || (isCID && !reflect.DeepEqual(sub.ROS, ol.ROS)) {
				c.Fail("C10.cid", "Outlines.Subset ROS", "the subset is CID-keyed: %v (ROS %v), the original: %v; %s", sub.IsCIDKeyed(), sub.ROS, isCID, desc)
			}
			if !isCID {
				if len(sub.Encoding) != 256 {
					c.Fail("C10.encoding", "Outlines.Subset", "the subset has an encoding of %d entries; list %v; %s", len(sub.Encoding), list, desc)
					return
				}
				for code, g := range ol.Encoding {
					want := glyph.ID(0)
					if k := slices.Index(list, g); k > 0 {
						want = glyph.ID(k)
					}
					if sub.Encoding[code] != want {
						c.Fail("C10.encoding", "Outlines.Subset", "code %d is encoded as glyph %d in the subset, want %d (original glyph %d); list %v; %s", code, sub.Encoding[code], want, g, list, desc)
						return
					}
				}
			}
		})
}

// c10ShortNames: TrueType fonts whose names list is shorter than the glyph count (what a post table with
// too few names reads as): subsetting keeps the names that exist.
func c10ShortNames(r *run.Run) {
	r.Explore(explore.Config{Name: "C10.subset-short-names"},
		"6-glyph glyf fonts (6 component graphs) with a names list of 0..5 names (shorter than the glyph count), composites with or without an instruction block of length 0, with or without advance widths, with or without a Macintosh format 0 cmap record, x ALL duplicate-free glyph lists starting with glyph 0 of length 1..4: Subset does not panic, glyph i of the subset has the name (possibly none) and the width of the listed glyph, and the subset can be written and read back",
		func(c *explore.Ctx) {
			f, _ := FontFromChoices(gen.FontOpts{NoMeta: true, NoLayout: true}, gen.KindGlyf, 1, 0, 0, 0)
			gi := c.Choose(len(c10Graphs), "component graph")
			nn := c.Choose(c10N, "names")
			emptyInstr := c.Bool("composites with an empty instruction block")
			ol := &glyf.Outlines{Maxp: &maxp.TTFInfo{MaxZones: 2, MaxComponentElements: 2, MaxComponentDepth: 4}}
			for i := 0; i < c10N; i++ {
				var g *glyf.Glyph
				if comps, ok := c10Graphs[gi][i]; ok {
					var ids []glyph.ID
					for _, k := range comps {
						ids = append(ids, glyph.ID(k))
					}
					g = gen.CompositeGlyf(funit.Rect16{URx: funit.Int16(100 + i), URy: 700}, ids...)
					if emptyInstr {
						// the instruction flag with an instruction block of length 0 (legal; an empty, non-nil slice)
						d := g.Data.(glyf.CompositeGlyph)
						d.Components[len(d.Components)-1].Flags |= glyf.FlagWeHaveInstructions
						d.Instructions = []byte{}
						g.Data = d
					}
				} else if i != 2 {
					g = gen.SimpleGlyf([][]gen.Pt{{{int16(i), 0, true}, {500, int16(10 * i), true}, {250, 700, true}}}, nil)
				}
				ol.Glyphs = append(ol.Glyphs, g)
				ol.Widths = append(ol.Widths, funit.Int16(500+i))
			}
			for i := 0; i < nn; i++ {
				ol.Names = append(ol.Names, []string{".notdef", "A", "B", "f", "i", "fi"}[i])
			}
			nilWidths := c.Bool("no advance widths")
			if nilWidths {
				ol.Widths = nil
			}
			f.Outlines = ol
			f.Gsub, f.Gpos, f.Gdef = nil, nil, nil
			// a byte-encoding (format 0) subtable under the Macintosh key next to the Windows one
			macRecord := c.Bool("Macintosh format 0 cmap record")
			var f0 cmap.Format0
			if macRecord {
				f0.Data['A'], f0.Data['B'], f0.Data['f'], f0.Data['i'], f0.Data['z'] = 1, 2, 3, 4, 5
				f.CMapTable = cmap.Table{{PlatformID: 1, EncodingID: 0}: f0.Encode(0), {PlatformID: 3, EncodingID: 1}: cmap.Format4{'A': 1, 'B': 2, 'f': 3, 'i': 4, 'z': 5}.Encode(0)}
			}
			list := []glyph.ID{0}
			used := map[glyph.ID]bool{0: true}
			n := c.Choose(4, "further glyphs")
			for i := 0; i < n; i++ {
				var avail []glyph.ID
				for g := glyph.ID(1); g < c10N; g++ {
					if !used[g] {
						avail = append(avail, g)
					}
				}
				g := avail[c.Choose(len(avail), "glyph")]
				used[g] = true
				list = append(list, g)
			}
			desc := fmt.Sprintf("graph %d, %d names, empty instruction blocks %v, no widths %v, mac record %v, list %v", gi, nn, emptyInstr, nilWidths, macRecord, list)
			c.Sample(func() any { return desc })
			c.Outcome(desc)
			c.Nontrivial()
			listCopy := append([]glyph.ID{}, list...)
			var sub *sfnt.Font
			if p := guard(func() { sub = f.Subset(list) }); p != "" {
				c.Fail("C10.panic", "short names: "+explore.PanicSignature(p), "Subset panics: %s; %s", p, desc)
				return
			}
			for i, og := range listCopy {
				if sub.GlyphName(glyph.ID(i)) != f.GlyphName(og) || sub.GlyphWidth(glyph.ID(i)) != f.GlyphWidth(og) {
					c.Fail("C10.name", "short names", "glyph %d (original %d): name %q width %v, originally %q width %v; %s", i, og, sub.GlyphName(glyph.ID(i)), sub.GlyphWidth(glyph.ID(i)), f.GlyphName(og), f.GlyphWidth(og), desc)
					return
				}
			}
			if macRecord {
				msub, err := sub.CMapTable.Get(cmap.Key{PlatformID: 1, EncodingID: 0})
				if err != nil {
					c.Fail("C10.cmap", "short names / mac record", "the subset has no usable Macintosh cmap record: %v; %s", err, desc)
					return
				}
				for code, og := range f0.Data {
					want := glyph.ID(0)
					if k := slices.Index(listCopy, glyph.ID(og)); og != 0 && k >= 0 {
						want = glyph.ID(k)
					}
					if got := msub.Lookup(rune(code)); code < 128 && got != want {
						c.Fail("C10.cmap", "short names / mac record", "Macintosh record: code %d maps to glyph %d in the subset, want %d; %s", code, got, want, desc)
						return
					}
				}
			}
			buf := &bytes.Buffer{}
			if _, err := sub.Write(buf); err != nil {
				c.Fail("C10.write", "short names", "the subset cannot be written: %v; %s", err, desc)
				return
			}
			back, err := sfnt.Read(bytes.NewReader(buf.Bytes()))
			if err != nil || back.NumGlyphs() != sub.NumGlyphs() {
				c.Fail("C10.reread", "short names", "the written subset cannot be read back with %d glyphs: %v; %s", sub.NumGlyphs(), err, desc)
				return
			}
			bo, so := back.Outlines.(*glyf.Outlines), sub.Outlines.(*glyf.Outlines)
			for i := range so.Glyphs {
				if back.GlyphName(glyph.ID(i)) != sub.GlyphName(glyph.ID(i)) || back.GlyphWidth(glyph.ID(i)) != sub.GlyphWidth(glyph.ID(i)) {
					c.Fail("C10.reread", "short names: name or width", "glyph %d of the re-read subset has name %q and width %v, the subset in memory %q and %v; %s", i, back.GlyphName(glyph.ID(i)), back.GlyphWidth(glyph.ID(i)), sub.GlyphName(glyph.ID(i)), sub.GlyphWidth(glyph.ID(i)), desc)
					return
				}
				if !reflect.DeepEqual(bo.Glyphs[i], so.Glyphs[i]) && !(bo.Glyphs[i] == nil && so.Glyphs[i] == nil) {
					if d := cmp.Diff(so.Glyphs[i], bo.Glyphs[i], cmpopts.EquateEmpty()); d != "" {
						c.Fail("C10.reread", "short names outline", "glyph %d of the re-read subset differs from the subset in memory; %s:\n%s", i, desc, trimDiff(d))
						return
					}
				}
			}
		})
}

func init() {
	Register("C10", func(r *run.Run) {
		r.Rule = "bounded exhaustive enumeration of 6-glyph fonts x all duplicate-free glyph lists; oracle through the index map (unique advance widths identify original glyphs); closure = least fixed point of composite components and substitution outputs, computed independently; semantic preservation of rules via the reference shaper on all sequences of <= 3 retained glyphs (listed and appended)"
		r.Assume = []string{"only layout data the subsetter declares supported: GSUB 1.1 / 4.1, GPOS 2.1, no GDEF", "characters mapping to glyphs that were appended by the closure may or may not be mapped"}
		c10SubsetSizes(r)
		c10CharsetRuns(r)
		c10GlyfSizes(r)
		c10Hinted(r)
		c10LargeKerning(r)
		c10OutlinesSubset(r)
		c10ShortNames(r)
		c10Subset(r)
		c10Repeat(r)
		c10MapOrder(r)
	})
}
