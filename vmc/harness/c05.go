package harness

import (
	"bytes"
	"fmt"
	"math"
	"strings"

	"seehuhn.de/go/sfnt/cff"

	"verif/explore"
	"verif/refcff"
	"verif/reft2"
	"verif/run"
)

// C05: Type 2 charstring interpretation conforms to the specification.

// ---- charstring assembler ----

type t2prog struct {
	code []byte
	desc []string
}

func (p *t2prog) num(v float64) *t2prog {
	p.desc = append(p.desc, fmt.Sprint(v))
	if v == math.Trunc(v) && v >= -32768 && v <= 32767 {
		i := int(v)
		switch {
		case i >= -107 && i <= 107:
			p.code = append(p.code, byte(i+139))
		case i >= 108 && i <= 1131:
			i -= 108
			p.code = append(p.code, byte(247+i/256), byte(i%256))
		case i >= -1131 && i <= -108:
			i = -i - 108
			p.code = append(p.code, byte(251+i/256), byte(i%256))
		default:
			p.code = append(p.code, 28, byte(uint16(int16(i))>>8), byte(i))
		}
		return p
	}
	f := int32(math.Round(v * 65536))
	p.code = append(p.code, 255, byte(uint32(f)>>24), byte(uint32(f)>>16), byte(uint32(f)>>8), byte(f))
	return p
}

// numAs forces an encoding form: 28 (int16) or 255 (16.16).
func (p *t2prog) numAs(v float64, form byte) *t2prog {
	p.desc = append(p.desc, fmt.Sprintf("%v(as %d)", v, form))
	if form == 28 {
		i := int16(v)
		p.code = append(p.code, 28, byte(uint16(i)>>8), byte(i))
	} else {
		f := int32(math.Round(v * 65536))
		p.code = append(p.code, 255, byte(uint32(f)>>24), byte(uint32(f)>>16), byte(uint32(f)>>8), byte(f))
	}
	return p
}

func (p *t2prog) nums(vs ...float64) *t2prog {
	for _, v := range vs {
		p.num(v)
	}
	return p
}

var t2names = map[int]string{1: "hstem", 3: "vstem", 4: "vmoveto", 5: "rlineto", 6: "hlineto", 7: "vlineto", 8: "rrcurveto", 10: "callsubr", 11: "return", 14: "endchar", 18: "hstemhm", 19: "hintmask", 20: "cntrmask", 21: "rmoveto", 22: "hmoveto", 23: "vstemhm", 24: "rcurveline", 25: "rlinecurve", 26: "vvcurveto", 27: "hhcurveto", 29: "callgsubr", 30: "vhcurveto", 31: "hvcurveto",
	1203: "and", 1204: "or", 1205: "not", 1209: "abs", 1210: "add", 1211: "sub", 1212: "div", 1214: "neg", 1215: "eq", 1218: "drop", 1220: "put", 1221: "get", 1222: "ifelse", 1224: "mul", 1226: "sqrt", 1227: "dup", 1228: "exch", 1229: "index", 1230: "roll", 1234: "hflex", 1235: "flex", 1236: "hflex1", 1237: "flex1"}

func (p *t2prog) op(o int) *t2prog {
	n := t2names[o]
	if n == "" {
		n = fmt.Sprintf("op%d", o)
	}
	p.desc = append(p.desc, n)
	if o >= 1200 {
		p.code = append(p.code, 12, byte(o-1200))
	} else {
		p.code = append(p.code, byte(o))
	}
	return p
}

func (p *t2prog) raw(b ...byte) *t2prog {
	p.desc = append(p.desc, fmt.Sprintf("<% x>", b))
	p.code = append(p.code, b...)
	return p
}

const (
	oHstem, oVstem, oVmoveto, oRlineto, oHlineto, oVlineto, oRrcurveto = 1, 3, 4, 5, 6, 7, 8
	oCallsubr, oReturn, oEndchar, oHstemhm, oHintmask, oCntrmask       = 10, 11, 14, 18, 19, 20
	oRmoveto, oHmoveto, oVstemhm, oRcurveline, oRlinecurve             = 21, 22, 23, 24, 25
	oVvcurveto, oHhcurveto, oCallgsubr, oVhcurveto, oHvcurveto         = 26, 27, 29, 30, 31
)

var t2vals = []float64{-3, 0, 2, 7, 0.5, 300, -1200.25}

func valsFrom(n, rot int) []float64 {
	out := make([]float64, n)
	for i := range out {
		out[i] = t2vals[(i*(rot+1)+rot*3)%len(t2vals)]
	}
	return out
}

// t2Compare interprets code with the library (through a complete CFF
// assembled by the independent assembler) and with the reference.
type t2Case struct {
	code                     []byte
	gsubrs, lsubrs           [][]byte
	defaultWidth, nominalWid float64
}

func approxEq(a, b float64) bool { return math.Abs(a-b) <= 1.0/65536+1e-12 }

func t2Compare(c *explore.Ctx, sig string, tc t2Case, desc any) {
	env := &reft2.Env{GlobalSubrs: tc.gsubrs, LocalSubrs: tc.lsubrs, DefaultWidthX: tc.defaultWidth, NominalWidthX: tc.nominalWid}
	ref, rerr := reft2.Interpret(tc.code, env)
	notdef := []byte{14}
	data := refcff.Assemble(&refcff.AsmSpec{
		Name:        "Verif",
		CharStrings: [][]byte{notdef, tc.code},
		GlobalSubrs: tc.gsubrs,
		GlyphNames:  []string{"A"},
		Privates:    []refcff.AsmPrivate{{DefaultWidthX: tc.defaultWidth, NominalWidthX: tc.nominalWid, LocalSubrs: tc.lsubrs}},
	})
	font, err := cff.Read(bytes.NewReader(data))
	c.Outcome(tc.code, rerr == nil, err == nil)
	if rerr != nil {
		if rerr == reft2.ErrRandom {
			c.Skip("outside the reference's domain")
		}
		// The property demands rejection for: stack under/overflow, missing endchar (incl. truncation),
		// bad subroutine index, drawing before the first move.  Other ill-formed programs (undefined
		// arithmetic, odd operand counts, misplaced hints, a subroutine without return) are not compared.
		msg := rerr.Error()
		must := ""
		for _, k := range []string{"stack overflow", "stack underflow", "missing endchar", "truncated", "out of range (have", "before the first moveto"} {
			if strings.Contains(msg, k) {
				must = k
			}
		}
		if must == "" {
			c.Tag("ill-formed in a way the property does not list: not compared")
			return
		}
		if err == nil {
			// witness class: the fault class, and whether it is one of the path/hint operators the
			// library skips when they have too few operands
			cls := must
			for _, pn := range []string{"moveto", "lineto", "curveto", "curveline", "linecurve", "flex"} {
				if strings.Contains(msg, pn) && (must == "stack underflow" || must == "before the first moveto") {
					cls = "path operator with too few operands is skipped instead of rejected"
					if g := font.Glyphs[1]; must == "before the first moveto" && len(g.Cmds) > 0 {
						cls = must
					}
				}
			}
			sig = cls
			c.Fail("C05.malformed-accepted", sig, "the specification rejects this charstring (%v) but cff.Read decodes it as %v; program %v", rerr, font.Glyphs[1], desc)
		}
		c.Tag("malformed: rejected by both")
		return
	}
	if err != nil {
		c.Fail("C05.wellformed-rejected", sig, "well-formed charstring rejected: %v; program %v (% x)", err, desc, tc.code)
		return
	}
	c.Nontrivial()
	// the known finding: a single step (operand) of more than 32000 units is clamped; points beyond +-32000
	// that are reached by smaller steps are ordinary points
	clamped := false
	var px, py float64
	for _, o := range ref.Ops {
		if o.Kind == 'H' || o.Kind == 'K' {
			continue
		}
		for k := 0; k+1 < len(o.Args); k += 2 {
			if math.Abs(o.Args[k]-px) > 32000 || math.Abs(o.Args[k+1]-py) > 32000 {
				clamped = true
			}
			px, py = o.Args[k], o.Args[k+1]
		}
	}
	if clamped {
		sig = "coordinates beyond +-32000"
	}
	if len(font.Glyphs) != 2 {
		c.Fail("C05.glyphs", sig, "%d glyphs read, 2 written", len(font.Glyphs))
		return
	}
	g := font.Glyphs[1]
	if !approxEq(g.Width, ref.Width) {
		c.Fail("C05.width", sig, "width %v, specification gives %v (default %v nominal %v); program %v", g.Width, ref.Width, tc.defaultWidth, tc.nominalWid, desc)
	}
	if ref.Seac {
		return // how the accented character is composed is outside the reference's domain; the width is not
	}
	cmpF := func(what string, a, b []float64) {
		if len(a) != len(b) {
			c.Fail("C05.stems", sig, "%s %v, specification gives %v; program %v", what, a, b, desc)
			return
		}
		for i := range a {
			if !approxEq(a[i], b[i]) {
				c.Fail("C05.stems", sig, "%s %v, specification gives %v; program %v", what, a, b, desc)
				return
			}
		}
	}
	cmpF("hstems", g.HStem, ref.HStem)
	cmpF("vstems", g.VStem, ref.VStem)
	if len(g.Cmds) != len(ref.Ops) {
		c.Fail("C05.path", sig, "%d commands %v, specification gives %d %v; program %v", len(g.Cmds), g.Cmds, len(ref.Ops), fmtOps(ref.Ops), desc)
		return
	}
	for i, cmd := range g.Cmds {
		o := ref.Ops[i]
		kind := map[cff.GlyphOpType]byte{cff.OpMoveTo: 'M', cff.OpLineTo: 'L', cff.OpCurveTo: 'C', cff.OpHintMask: 'H', cff.OpCntrMask: 'K'}[cmd.Op]
		ok := kind == o.Kind
		if ok && (kind == 'H' || kind == 'K') {
			ok = len(cmd.Args) == len(o.Mask)
			for k := 0; ok && k < len(o.Mask); k++ {
				ok = cmd.Args[k] == float64(o.Mask[k])
			}
		} else if ok {
			ok = len(cmd.Args) == len(o.Args)
			for k := 0; ok && k < len(o.Args); k++ {
				ok = approxEq(cmd.Args[k], o.Args[k])
			}
		}
		if !ok {
			c.Fail("C05.path", sig, "command %d is %v, specification gives %s; all: %v vs %v; program %v", i, cmd, fmtOps(ref.Ops[i:i+1]), g.Cmds, fmtOps(ref.Ops), desc)
			return
		}
	}
}

func fmtOps(ops []reft2.Op) string {
	s := ""
	for _, o := range ops {
		if o.Kind == 'H' || o.Kind == 'K' {
			s += fmt.Sprintf("%c<% x> ", o.Kind, o.Mask)
		} else {
			s += fmt.Sprintf("%c%v ", o.Kind, o.Args)
		}
	}
	return s
}

// operand-count forms of the path operators
var t2PathForms = []struct {
	op    int
	name  string
	forms []int
}{
	{oRmoveto, "rmoveto", []int{2}}, {oHmoveto, "hmoveto", []int{1}}, {oVmoveto, "vmoveto", []int{1}},
	{oRlineto, "rlineto", []int{2, 4, 6}}, {oHlineto, "hlineto", []int{1, 2, 3, 4, 5}}, {oVlineto, "vlineto", []int{1, 2, 3, 4, 5}},
	{oRrcurveto, "rrcurveto", []int{6, 12}}, {oHhcurveto, "hhcurveto", []int{4, 5, 8, 9}}, {oVvcurveto, "vvcurveto", []int{4, 5, 8, 9}},
	{oHvcurveto, "hvcurveto", []int{4, 5, 8, 9, 12, 13}}, {oVhcurveto, "vhcurveto", []int{4, 5, 8, 9, 12, 13}},
	{oRcurveline, "rcurveline", []int{8, 14}}, {oRlinecurve, "rlinecurve", []int{8, 10}},
	{1235, "flex", []int{13}}, {1234, "hflex", []int{7}}, {1236, "hflex1", []int{9}}, {1237, "flex1", []int{11}},
}

func c05Paths(r *run.Run) {
	r.Explore(explore.Config{Name: "C05.path-operators", Bound: 1},
		"every path operator in every legal operand-count form (and the illegal neighbours count-1, count+1) x 3 operand-value rotations over {-3,0,2,7,0.5,300,-1200.25} x preceded by another path operator (all ordered pairs) x optional width operand; non-trivial = well-formed program",
		func(c *explore.Ctx) {
			f1 := t2PathForms[c.Choose(len(t2PathForms), "operator")]
			n := f1.forms[c.Choose(len(f1.forms), "form")]
			n += []int{0, 1, -1}[c.Deviate(3, "operand count off by")]
			if n < 0 {
				n = 0
			}
			rot := c.Choose(3, "value rotation")
			prev := c.Choose(len(t2PathForms)+1, "preceding operator")
			withWidth := c.Bool("width operand")
			p := &t2prog{}
			first := true
			emit := func(op int, cnt, rot int) {
				isMove := op == oRmoveto || op == oHmoveto || op == oVmoveto
				if first && !isMove {
					if withWidth {
						p.num(55)
					}
					p.nums(10, 20).op(oRmoveto)
					first = false
				} else if first && withWidth {
					p.num(55)
				}
				first = false
				if cnt > 0 {
					p.nums(valsFrom(cnt, rot)...)
				}
				p.op(op)
			}
			if prev > 0 {
				pf := t2PathForms[prev-1]
				emit(pf.op, pf.forms[0], 1)
			}
			emit(f1.op, n, rot)
			p.op(oEndchar)
			c.Sample(func() any { return p.desc })
			t2Compare(c, f1.name, t2Case{code: p.code, defaultWidth: 500, nominalWid: 600}, p.desc)
		})

	r.Explore(explore.Config{Name: "C05.flex1"},
		"flex1 with |sum dx| > |sum dy|, <, and tie, both signs; hflex/hflex1/flex coordinate bookkeeping",
		func(c *explore.Ctx) {
			dxs := [][]float64{{10, 10, 10, 10, 10}, {1, 1, 1, 1, 1}, {10, -10, 5, -5, 0}, {-30, 2, 2, 2, 2}, {3, 4, 5, 6, -18}}
			dys := [][]float64{{1, 1, 1, 1, 1}, {10, 10, 10, 10, 10}, {10, -10, 5, -5, 0}, {2, -30, 2, 2, 2}, {5, 5, 5, 5, -20}}
			dx := dxs[c.Choose(len(dxs), "dx pattern")]
			dy := dys[c.Choose(len(dys), "dy pattern")]
			last := explore.Pick(c, "last operand", 7.0, -7.0, 0.0, 0.25)
			p := (&t2prog{}).nums(100, 200).op(oRmoveto)
			for i := 0; i < 5; i++ {
				p.nums(dx[i], dy[i])
			}
			p.num(last).op(1237).nums(5, 5).op(oRlineto).op(oEndchar)
			c.Sample(func() any { return p.desc })
			t2Compare(c, "flex1", t2Case{code: p.code}, p.desc)
		})
}

// sequences of path operators: the interpreter's state between operators (current point, the
// alternation of the h/v families, the width flag) under every operator in every operand-count form
func c05Sequences(r *run.Run) {
	type tok struct {
		op, n, rot int
		name       string
	}
	// "full" sequences carry two operand-value rotations and run in every context (first move, width
	// operand, placement of the last operator); "long" sequences are one operator longer, with one
	// rotation, in the plain context only
	var toks, toks1 []tok
	fullLen := 2
	if !r.Quick() {
		fullLen = 3
	}
	for _, f := range t2PathForms {
		for _, n := range f.forms {
			for _, rot := range []int{0, 2} {
				toks = append(toks, tok{f.op, n, rot, fmt.Sprintf("%s/%d", f.name, n)})
			}
			toks1 = append(toks1, tok{f.op, n, 1, fmt.Sprintf("%s/%d", f.name, n)})
		}
	}
	placements := []string{"inline", "operator in a local subroutine", "operands and operator in a global subroutine", "operands in a local subroutine"}
	r.Explore(explore.Config{Name: "C05.sequences", Deadline: r.PartDeadline(0.9)},
		fmt.Sprintf("all programs 'move; op1; ..; opk; endchar' over the (path operator, operand-count form) combinations (17 operators, 46 forms): k <= %d with two operand-value rotations, first move from {rmoveto, hmoveto, vmoveto} with and without a width operand, the last operator placed inline / in a local subroutine / with its operands in a global subroutine / with only its operands in a subroutine; and k = %d with one rotation in the plain context", fullLen, fullLen+1),
		func(c *explore.Ctx) {
			k := 1 + c.Choose(fullLen+1, "operators")
			var sel []tok
			menu := toks
			if k > fullLen {
				menu = toks1
			}
			for i := 0; i < k; i++ {
				sel = append(sel, menu[c.Choose(len(menu), "operator")])
			}
			firstMove, width, place := 0, false, 0
			if k <= fullLen {
				firstMove = c.Choose(3, "first move")
				width = c.Bool("width operand")
				place = c.Choose(len(placements), "placement of the last operator")
			}
			p := &t2prog{}
			if width {
				p.num(-21.5)
			}
			switch firstMove {
			case 0:
				p.nums(10, 20).op(oRmoveto)
			case 1:
				p.num(15).op(oHmoveto)
			default:
				p.num(-8).op(oVmoveto)
			}
			tc := t2Case{defaultWidth: 480, nominalWid: 620.5}
			for i, t := range sel {
				vals := valsFrom(t.n, t.rot+i)
				if i < k-1 || place == 0 {
					p.nums(vals...).op(t.op)
					continue
				}
				sub := &t2prog{}
				switch place {
				case 1:
					p.nums(vals...)
					sub.op(t.op).op(oReturn)
					tc.lsubrs = [][]byte{sub.code}
					p.num(-107).op(oCallsubr)
				case 2:
					sub.nums(vals...).op(t.op).op(oReturn)
					tc.gsubrs = [][]byte{sub.code}
					p.num(-107).op(oCallgsubr)
				default:
					sub.nums(vals...).op(oReturn)
					tc.lsubrs = [][]byte{sub.code}
					p.num(-107).op(oCallsubr).op(t.op)
				}
				p.desc = append(p.desc, "{"+strings.Join(sub.desc, " ")+"}")
			}
			p.op(oEndchar)
			tc.code = p.code
			c.Sample(func() any { return map[string]any{"program": p.desc, "placement": placements[place]} })
			t2Compare(c, "sequence ending in "+sel[k-1].name+", "+placements[place], tc, p.desc)
		})
}

func c05Arith(r *run.Run) {
	vals := []float64{-2, 0, 1, 2, 3, 0.5}
	unary := []int{1205, 1209, 1214, 1226, 1227, 1218}
	binary := []int{1203, 1204, 1210, 1211, 1212, 1215, 1224, 1228}
	r.Explore(explore.Config{Name: "C05.arithmetic"},
		"every arithmetic / logic / stack operator on all operand tuples from {-2,0,1,2,3,0.5}, used as operand producer inside rlineto; ifelse on all 4-tuples from {0,1,2}; put/get; roll and index with all (n,j) <= 4",
		func(c *explore.Ctx) {
			p := (&t2prog{}).nums(0, 0).op(oRmoveto)
			name := ""
			var lsubrs, gsubrs [][]byte
			switch k := c.Choose(6, "family"); k {
			case 5:
				// results at the ends of the 16.16 range (-32768 is representable, +32768 is not), brought back
				// into the coordinate range before they are used
				type bcase struct {
					a, b float64
					op   int
					back float64
				}
				cases := []bcase{{-256, 128, 1224, 32767}, {128, -256, 1224, 32767}, {-32768, 1, 1224, 32767}, {1, -32768, 1224, 32767}, {255.5, 128, 1224, -32700}, {-181, 181, 1224, 32760},
					{-32768, 0, 1210, 32767}, {-32767, -1, 1210, 32767}, {32767, 0.5, 1210, -32760}, {-32767, 1, 1211, 32767}, {-32768, 1, 1212, 32767}, {-32768, -2, 1212, -16380}, {32767.5, 0.25, 1211, -32760}}
				bc := cases[c.Choose(len(cases), "boundary case")]
				name = t2names[bc.op] + " at the end of the number range"
				p.nums(bc.a, bc.b).op(bc.op).num(bc.back).op(1210).num(9).op(oRlineto)
			case 0:
				o := unary[c.Choose(len(unary), "unary operator")]
				a := vals[c.Choose(len(vals), "a")]
				name = t2names[o]
				switch o {
				case 1227: // dup: two results
					p.num(a).op(o).op(oRlineto)
				case 1218: // drop
					p.nums(3, 4).num(a).op(o).op(oRlineto)
				default:
					p.num(a).op(o).num(9).op(oRlineto)
				}
			case 1:
				o := binary[c.Choose(len(binary), "binary operator")]
				a := vals[c.Choose(len(vals), "a")]
				b := vals[c.Choose(len(vals), "b")]
				name = t2names[o]
				if o == 1228 {
					p.nums(a, b).op(o).op(oRlineto)
				} else {
					p.nums(a, b).op(o).num(9).op(oRlineto)
				}
			case 2:
				v := []float64{0, 1, 2}
				name = "ifelse"
				p.nums(v[c.Choose(3, "s1")]+10, v[c.Choose(3, "s2")]+20, v[c.Choose(3, "v1")], v[c.Choose(3, "v2")]).op(1222).num(9).op(oRlineto)
			case 3:
				name = "put/get"
				slot := explore.Pick(c, "slot", 0.0, 1.0, 31.0)
				// the transient array lives as long as the charstring: across subroutine calls and returns
				where := c.Choose(5, "put/get across subroutines")
				noop := (&t2prog{}).op(oReturn)
				v := vals[c.Choose(len(vals), "value")]
				putSub := (&t2prog{}).num(v).num(slot).op(1220).op(oReturn)
				getSub := (&t2prog{}).num(slot).op(1221).op(oReturn)
				switch where {
				case 0: // all in the main program
					p.num(v).num(slot).op(1220)
				case 1: // a local subroutine returns between put and get
					p.num(v).num(slot).op(1220).num(-107).op(oCallsubr)
					lsubrs = [][]byte{noop.code}
					name = "put/get across a subroutine return"
				case 2: // put inside a global subroutine, get in the main program
					p.num(-107).op(oCallgsubr)
					gsubrs = [][]byte{putSub.code}
					name = "put in a subroutine, get outside"
				case 3: // put in the main program, get inside a local subroutine
					p.num(v).num(slot).op(1220)
					name = "put outside, get in a subroutine"
				case 4: // put, then a global subroutine that itself calls a local one, then get
					p.num(v).num(slot).op(1220).num(-107).op(oCallgsubr)
					gsubrs = [][]byte{(&t2prog{}).num(-107).op(oCallsubr).op(oReturn).code}
					lsubrs = [][]byte{noop.code}
					name = "put/get across nested subroutine returns"
				}
				if where == 3 {
					p.num(-107).op(oCallsubr)
					lsubrs = [][]byte{getSub.code}
				} else if c.Bool("get same slot") {
					p.num(slot).op(1221)
				} else {
					p.num(7).num(5).op(1220).num(5).op(1221)
				}
				p.num(9).op(oRlineto)
			case 4:
				n := c.Choose(5, "n")
				j := c.Choose(9, "j") - 4
				if c.Bool("index instead of roll") {
					name = "index"
					p.nums(11, 12, 13, 14).num(float64(j)).op(1229)
					// 5 values on the stack: rlineto needs an even count
					p.num(1).op(oRlineto)
				} else {
					name = "roll"
					p.nums(11, 12, 13, 14).num(float64(n)).num(float64(j)).op(1230).op(oRlineto)
				}
			}
			p.op(oEndchar)
			c.Sample(func() any { return p.desc })
			t2Compare(c, name, t2Case{code: p.code, lsubrs: lsubrs, gsubrs: gsubrs}, p.desc)
		})
}

func c05Stems(r *run.Run) {
	r.Explore(explore.Config{Name: "C05.stems-masks-width"},
		"hstem/vstem/hstemhm/vstemhm/implicit vstems before hintmask and cntrmask with 0..9 stems per direction (mask length 1 vs 2 bytes) in one or two operators per direction, width present/absent before each possible first operator, mask after the first moveto",
		func(c *explore.Ctx) {
			nh := c.Choose(10, "hstems")
			nv := c.Choose(10, "vstems")
			hm := c.Bool("hm variants")
			mask := c.Choose(4, "mask") // 0 none, 1 hintmask, 2 cntrmask, 3 hintmask after moveto
			implicit := c.Bool("implicit vstem")
			width := c.Bool("width")
			p := &t2prog{}
			if width {
				p.num(-37.5)
			}
			stemArgs := func(n int, base float64) {
				for i := 0; i < n; i++ {
					p.nums(base+float64(i), 20+0.5*float64(i%2))
				}
			}
			// the stems of one direction may come in several operators (mandatory above 24 stems: the stack
			// holds 48 numbers); every operator starts again relative to 0
			split := c.Bool("two stem operators per direction")
			hop, vop := oHstem, oVstem
			if hm {
				hop, vop = oHstemhm, oVstemhm
			}
			if split && nh >= 2 {
				stemArgs(nh/2, 10)
				p.op(hop)
				nh0 := nh / 2
				stemArgs(nh-nh0, 300)
				p.op(hop)
			} else if nh > 0 {
				stemArgs(nh, 10)
				p.op(hop)
			}
			if split && nv >= 2 {
				stemArgs(nv/2, -50)
				p.op(vop)
				nv0 := nv / 2
				stemArgs(nv-nv0, 400)
				if implicit && (mask == 1 || mask == 2) {
					// operands stay on the stack for the mask operator
				} else {
					p.op(vop)
				}
			} else if nv > 0 {
				stemArgs(nv, -50)
				if implicit && (mask == 1 || mask == 2) {
					// operands stay on the stack for the mask operator
				} else if hm {
					p.op(oVstemhm)
				} else {
					p.op(oVstem)
				}
			}
			nbytes := (nh + nv + 7) / 8
			mb := make([]byte, nbytes)
			for i := range mb {
				mb[i] = byte(0xA5 >> uint(i))
			}
			switch mask {
			case 1:
				p.op(oHintmask).raw(mb...)
			case 2:
				p.op(oCntrmask).raw(mb...)
			}
			p.nums(5, 6).op(oRmoveto)
			if mask == 3 {
				p.op(oHintmask).raw(mb...)
			}
			p.nums(7, 8).op(oRlineto).op(oEndchar)
			c.Sample(func() any { return p.desc })
			t2Compare(c, fmt.Sprintf("stems mask=%d implicit=%v", mask, implicit), t2Case{code: p.code, defaultWidth: 432, nominalWid: 100.5}, p.desc)
		})

	r.Explore(explore.Config{Name: "C05.endchar-forms"},
		"endchar as the first stack-clearing operator: plain, with a width, in the deprecated seac form 'adx ady bchar achar endchar' with and without a width, each also after stem hints (where the stack has been cleared already): the advance width is defaultWidthX, or nominalWidthX plus the width operand",
		func(c *explore.Ctx) {
			width := c.Bool("width operand")
			seac := c.Bool("seac operands")
			stems := c.Bool("hstem first")
			p := &t2prog{}
			if width {
				p.num(explore.Pick(c, "width value", -33.5, 0.0, 250.0))
			}
			if stems {
				p.nums(10, 20).op(oHstem)
			}
			if seac {
				p.nums(explore.Pick(c, "adx", 12.0, 0.0, -40.5), 7, 65, 66)
			}
			p.op(oEndchar)
			c.Sample(func() any { return p.desc })
			t2Compare(c, fmt.Sprintf("endchar forms seac=%v width=%v", seac, width), t2Case{code: p.code, defaultWidth: 432, nominalWid: 100.5}, p.desc)
		})

	r.Explore(explore.Config{Name: "C05.numbers"},
		"the five number encodings at their boundaries (-1131,-1132,-108,-107,107,108,1131,1132,+-32767,-32768; 16.16: 0.5, -0.5, 32767.99998, -32768, 1/65536) as operands of rmoveto",
		func(c *explore.Ctx) {
			vals := []float64{-1132, -1131, -108, -107, 0, 107, 108, 1131, 1132, 32767, -32768, 0.5, -0.5, 32767 + 65535.0/65536, 1.0 / 65536, -1.0 / 65536}
			v := vals[c.Choose(len(vals), "value")]
			form := c.Choose(3, "encoding form")
			p := &t2prog{}
			switch {
			case form == 1 && v == math.Trunc(v):
				p.numAs(v, 28)
			case form == 2:
				p.numAs(v, 255)
			default:
				p.num(v)
			}
			p.num(1).op(oRmoveto).op(oEndchar)
			c.Sample(func() any { return p.desc })
			t2Compare(c, "number encodings", t2Case{code: p.code}, p.desc)
		})
}

func c05Subrs(r *run.Run) {
	sizes := []int{0, 1, 1239, 1240, 33899, 33900, 40000}
	if r.Quick() {
		sizes = []int{0, 1, 1239, 1240, 33899, 33900}
	}
	// subroutine tables: entry i draws a line whose length identifies it
	tables := map[int][][]byte{}
	mk := func(n int) [][]byte {
		if t, ok := tables[n]; ok {
			return t
		}
		t := make([][]byte, n)
		for i := range t {
			p := (&t2prog{}).nums(float64(i%1000), float64(i/1000)).op(oRlineto).op(oReturn)
			t[i] = p.code
		}
		tables[n] = t
		return t
	}
	for _, n := range sizes {
		mk(n)
	}
	r.Explore(explore.Config{Name: "C05.subroutines", Workers: 4},
		"local and global subroutine tables of sizes {0,1,1239,1240,33899,33900(,40000)} called at the first, last and one-past index (bias 107/1131/32768), nesting depth 1..11, endchar inside a subroutine, return missing",
		func(c *explore.Ctx) {
			n := sizes[c.Choose(len(sizes), "table size")]
			global := c.Bool("global")
			which := c.Choose(4, "index") // first, last, one past, -bias-1
			bias := reft2.Bias(n)
			var idx int
			switch which {
			case 0:
				idx = 0
			case 1:
				idx = n - 1
			case 2:
				idx = n
			case 3:
				idx = -1
			}
			tab := tables[n]
			tc := t2Case{}
			if global {
				tc.gsubrs = tab
			} else {
				tc.lsubrs = tab
			}
			op := oCallsubr
			if global {
				op = oCallgsubr
			}
			p := (&t2prog{}).nums(1, 1).op(oRmoveto).num(float64(idx - bias)).op(op).op(oEndchar)
			tc.code = p.code
			c.Sample(func() any {
				return map[string]any{"table_size": n, "global": global, "index": idx, "program": p.desc}
			})
			t2Compare(c, fmt.Sprintf("subr call size=%d which=%d", n, which), tc, p.desc)
		})

	r.Explore(explore.Config{Name: "C05.subr-nesting"},
		"call nesting depth 1..12 alternating local/global; endchar inside the innermost subroutine; innermost subroutine without return; with or without path operators after every call (dead code once an endchar inside a subroutine has ended the glyph)",
		func(c *explore.Ctx) {
			depth := 1 + c.Choose(12, "depth")
			end := c.Choose(3, "innermost ends with") // return, endchar, nothing
			// path operators between a call and the return / the end of the glyph: they run when the callee
			// returns and are dead code when an endchar inside the callee has ended the glyph
			after := c.Bool("operators after the calls")
			var ls, gs [][]byte
			for d := 0; d < depth; d++ {
				p := &t2prog{}
				p.nums(float64(d+1), 0).op(oRlineto)
				if d+1 < depth {
					// call the next level: even levels live in the local table
					if (d+1)%2 == 0 {
						p.num(float64((d+1)/2 - 107)).op(oCallsubr)
					} else {
						p.num(float64((d+1)/2 - 107)).op(oCallgsubr)
					}
					if after {
						p.nums(7, float64(d+1)).op(oRlineto)
					}
					p.op(oReturn)
				} else {
					switch end {
					case 0:
						p.op(oReturn)
					case 1:
						p.op(oEndchar)
					}
				}
				if d%2 == 0 {
					ls = append(ls, p.code)
				} else {
					gs = append(gs, p.code)
				}
			}
			p := (&t2prog{}).nums(0, 0).op(oRmoveto).num(-107).op(oCallsubr)
			if after {
				p.nums(9, 9).op(oRlineto)
			}
			if end != 1 || after {
				p.op(oEndchar)
			}
			c.Sample(func() any { return map[string]any{"depth": depth, "end": end, "operators after the calls": after} })
			t2Compare(c, fmt.Sprintf("nesting end=%d after=%v", end, after), t2Case{code: p.code, lsubrs: ls, gsubrs: gs}, fmt.Sprintf("depth %d end %d operators after the calls %v", depth, end, after))
		})
}

// c05FarPoints: points beyond +-32000 that are reached by steps of at most 32000 units each.
func c05FarPoints(r *run.Run) {
	starts := []float64{30000, -30000, 31999, 0}
	steps := []float64{2500, -2500, 32000, -32000, 700.5}
	r.Explore(explore.Config{Name: "C05.far-points"},
		"paths that start at x or y in {30000, -30000, 31999, 0} and go on with one or two steps from {2500, -2500, 32000, -32000, 700.5} (hlineto, vlineto, rlineto, rrcurveto, rmoveto): points beyond +-32000 that are reached by legal steps are decoded like any other point",
		func(c *explore.Ctx) {
			s0 := starts[c.Choose(len(starts), "start")]
			horizontal := c.Bool("along x")
			p := &t2prog{}
			if horizontal {
				p.num(s0).op(oHmoveto)
			} else {
				p.num(s0).op(oVmoveto)
			}
			n := 1 + c.Choose(2, "steps")
			for i := 0; i < n; i++ {
				d := steps[c.Choose(len(steps), "step")]
				switch c.Choose(5, "operator") {
				case 0:
					p.num(d).op(oHlineto)
				case 1:
					p.num(d).op(oVlineto)
				case 2:
					p.nums(d, 10).op(oRlineto)
				case 3:
					p.nums(d, 1, 2, d, 3, 4).op(oRrcurveto)
				default:
					p.nums(5, d).op(oRmoveto)
				}
			}
			p.op(oEndchar)
			c.Sample(func() any { return p.desc })
			t2Compare(c, "far points", t2Case{code: p.code}, p.desc)
		})
}

// single-fault mutations of a base set of well-formed programs
func c05Faults(r *run.Run) {
	base := func() []*t2prog {
		var ps []*t2prog
		ps = append(ps, (&t2prog{}).nums(10, 20).op(oRmoveto).nums(1, 2, 3, 4).op(oRlineto).nums(1, 2, 3, 4, 5, 6).op(oRrcurveto).op(oEndchar))
		ps = append(ps, (&t2prog{}).num(40).nums(1, 2, 3, 4).op(oHstemhm).nums(5, 6).op(oHintmask).raw(0xC0).nums(3, 3).op(oRmoveto).nums(4, 5, 6).op(oHlineto).op(oEndchar))
		ps = append(ps, (&t2prog{}).nums(5).op(oHmoveto).nums(2, 3).op(1210).num(4).op(oRlineto).nums(1, 2, 3, 4, 5).op(oVvcurveto).op(oEndchar))
		ps = append(ps, (&t2prog{}).nums(1, 2).op(oRmoveto).nums(1, 2, 3, 4, 5, 6, 7, 8, 9, 10, 11, 12, 13).op(1235).nums(1, 2, 3, 4, 5, 6, 7).op(1234).op(oEndchar))
		return ps
	}()
	r.Explore(explore.Config{Name: "C05.faults"},
		"single faults in 4 well-formed base programs: truncation at every byte, every byte deleted, every operator byte replaced by each other operator, 46..50 operands followed by 0..2 dup operators (the stack limit reached by literals and by a pushing operator), stack underflow for every operator on an empty stack, every drawing operator in every operand-count form before the first moveto: the library must reject whatever the specification rejects, and agree on whatever it accepts",
		func(c *explore.Ctx) {
			switch c.Choose(5, "fault family") {
			case 0:
				p := base[c.Choose(len(base), "program")]
				k := c.Choose(len(p.code)+1, "truncate at")
				code := p.code[:k]
				c.Sample(func() any { return fmt.Sprintf("%v truncated to %d bytes", p.desc, k) })
				t2Compare(c, "truncation", t2Case{code: code, defaultWidth: 500, nominalWid: 600}, fmt.Sprintf("%v truncated to %d bytes", p.desc, k))
			case 1:
				p := base[c.Choose(len(base), "program")]
				k := c.Choose(len(p.code), "delete byte")
				code := append(append([]byte{}, p.code[:k]...), p.code[k+1:]...)
				c.Sample(func() any { return fmt.Sprintf("%v with byte %d deleted", p.desc, k) })
				t2Compare(c, "byte deleted", t2Case{code: code, defaultWidth: 500, nominalWid: 600}, fmt.Sprintf("%v with byte %d deleted", p.desc, k))
			case 2:
				ops := []int{1, 3, 4, 5, 6, 7, 8, 10, 11, 14, 18, 19, 20, 21, 22, 23, 24, 25, 26, 27, 29, 30, 31, 1203, 1204, 1205, 1209, 1210, 1211, 1212, 1214, 1215, 1218, 1220, 1221, 1222, 1224, 1226, 1227, 1228, 1229, 1230, 1234, 1235, 1236, 1237, 0, 2, 9, 13, 15, 16, 17, 1200, 1201, 1238}
				o := ops[c.Choose(len(ops), "operator")]
				nargs := c.Choose(4, "operands")
				afterMove := c.Bool("after moveto")
				p := &t2prog{}
				if afterMove {
					p.nums(1, 1).op(oRmoveto)
				}
				p.nums(valsFrom(nargs, 1)...).op(o)
				if o == oHintmask || o == oCntrmask {
					p.raw(0x80)
				}
				p.op(oEndchar)
				c.Sample(func() any { return p.desc })
				t2Compare(c, "operator with 0..3 operands", t2Case{code: p.code, lsubrs: [][]byte{{11}}, gsubrs: [][]byte{{11}}}, p.desc)
			case 4:
				// drawing before the first moveto: every drawing operator in every legal operand-count form
				// as the first path operator (optionally behind a stem hint that has cleared the stack)
				var draw []struct{ op, n int }
				for _, f := range t2PathForms {
					if f.op == oRmoveto || f.op == oHmoveto || f.op == oVmoveto {
						continue
					}
					for _, n := range f.forms {
						draw = append(draw, struct{ op, n int }{f.op, n})
					}
				}
				d := draw[c.Choose(len(draw), "drawing operator and form")]
				p := &t2prog{}
				if c.Bool("stem hint first") {
					p.nums(10, 20).op(oHstem)
				}
				p.nums(valsFrom(d.n, 2)...).op(d.op)
				if c.Bool("moveto afterwards") {
					p.nums(1, 1).op(oRmoveto).nums(2, 2).op(oRlineto)
				}
				p.op(oEndchar)
				c.Sample(func() any { return p.desc })
				t2Compare(c, "drawing before the first moveto", t2Case{code: p.code}, p.desc)
			case 3:
				// the 48-entry argument stack filled by literal operands, or by an operator that pushes (dup;
				// random is left out: its value is not defined) on top of 46..48 operands
				n := explore.Pick(c, "operands", 46, 47, 48, 49, 50)
				pushers := c.Choose(3, "dup operators behind the operands")
				p := (&t2prog{}).nums(1, 1).op(oRmoveto)
				for i := 0; i < n; i++ {
					p.num(float64(i%5 + 1))
				}
				for i := 0; i < pushers; i++ {
					p.op(1227) // dup
				}
				for k := n + pushers; k > 48 || k%2 == 1; k-- {
					p.op(1218) // drop: back to an even count within the limit
				}
				p.op(oRlineto).op(oEndchar)
				desc := fmt.Sprintf("%d operands, %d x dup, then rlineto", n, pushers)
				c.Sample(func() any { return desc })
				t2Compare(c, "stack depth", t2Case{code: p.code}, desc)
			}
		})
}

// CID-keyed fonts: every glyph is interpreted with the subroutines and
// widths of *its* font dictionary.
func c05CID(r *run.Run) {
	r.Explore(explore.Config{Name: "C05.cid-fdselect"},
		"CID-keyed fonts with 2..3 font dictionaries that differ in defaultWidthX/nominalWidthX and in their local subroutines: all FDSelect functions on 4 glyphs x glyph programs {explicit width, default width} calling local and global subroutines",
		func(c *explore.Ctx) {
			nfd := 2 + c.Choose(2, "font dicts")
			var privs []refcff.AsmPrivate
			for k := 0; k < nfd; k++ {
				sub := (&t2prog{}).nums(float64(100*(k+1)), float64(k+1)).op(oRlineto).op(oReturn)
				privs = append(privs, refcff.AsmPrivate{DefaultWidthX: float64(400 + 10*k), NominalWidthX: float64(600 + 7*k), LocalSubrs: [][]byte{sub.code}})
			}
			gsub := (&t2prog{}).nums(3, 4).op(oRlineto).op(oReturn)
			nGlyphs := 4
			fdsel := make([]int, nGlyphs)
			progs := make([][]byte, nGlyphs)
			for g := 0; g < nGlyphs; g++ {
				if g > 0 {
					fdsel[g] = c.Choose(nfd, fmt.Sprintf("FD of glyph %d", g))
				}
				p := &t2prog{}
				if (g+c.Choose(2, "width pattern"))%2 == 0 {
					p.num(float64(20 + g)) // explicit width (relative to nominalWidthX of the glyph's FD)
				}
				p.nums(1, 1).op(oRmoveto).num(-107).op(oCallsubr).num(-107).op(oCallgsubr).op(oEndchar)
				progs[g] = p.code
			}
			c.Sample(func() any { return map[string]any{"fds": nfd, "fdselect": fdsel} })
			data := refcff.Assemble(&refcff.AsmSpec{Name: "VerifCID", CharStrings: progs, GlobalSubrs: [][]byte{gsub.code}, CID: true, Privates: privs, FDSelect: fdsel})
			font, err := cff.Read(bytes.NewReader(data))
			c.Outcome(data)
			if err != nil {
				c.Fail("C05.wellformed-rejected", "cid", "well-formed CID-keyed font rejected: %v (fdselect %v)", err, fdsel)
				return
			}
			c.Nontrivial()
			for g := 0; g < nGlyphs; g++ {
				pr := privs[fdsel[g]]
				ref, rerr := reft2.Interpret(progs[g], &reft2.Env{GlobalSubrs: [][]byte{gsub.code}, LocalSubrs: pr.LocalSubrs, DefaultWidthX: pr.DefaultWidthX, NominalWidthX: pr.NominalWidthX})
				if rerr != nil {
					explore.Fatal("C05.cid: reference rejects its own program: %v", rerr)
				}
				got := font.Glyphs[g]
				if !approxEq(got.Width, ref.Width) {
					c.Fail("C05.width", "cid per-FD widths", "glyph %d (FD %d): width %v, specification gives %v (fdselect %v)", g, fdsel[g], got.Width, ref.Width, fdsel)
				}
				if len(got.Cmds) != len(ref.Ops) {
					c.Fail("C05.path", "cid per-FD subroutines", "glyph %d (FD %d): %v vs %s", g, fdsel[g], got.Cmds, fmtOps(ref.Ops))
					continue
				}
				for i, cmd := range got.Cmds {
					for k2, a := range ref.Ops[i].Args {
						if k2 >= len(cmd.Args) || !approxEq(cmd.Args[k2], a) {
							c.Fail("C05.path", "cid per-FD subroutines", "glyph %d (FD %d): %v, specification gives %s (fdselect %v)", g, fdsel[g], got.Cmds, fmtOps(ref.Ops), fdsel)
							break
						}
					}
				}
				if font.FDSelect(glyphID(g)) != fdsel[g] {
					c.Fail("C05.fdselect", "cid", "FDSelect(%d) = %d want %d", g, font.FDSelect(glyphID(g)), fdsel[g])
				}
			}
		})
}

func init() {
	Register("C05", func(r *run.Run) {
		r.Rule = "grammar-enumerated Type 2 programs, assembled into a complete CFF by the independent assembler (refcff), read by cff.Read and compared with the independent specification interpreter (reft2); non-trivial = program accepted by the specification and compared operand by operand"
		r.Assume = []string{
			"reft2/refcff (written from TN5176/TN5177, cross-checked against x/image on CFFTest.otf and FontAwesome) are the trusted base",
			"random and seac-style endchar are outside the reference's domain and skipped",
		}
		c05Paths(r)
		c05Arith(r)
		c05Stems(r)
		c05Subrs(r)
		c05Faults(r)
		c05FarPoints(r)
		c05CID(r)
		c05Sequences(r)
	})
}
