package harness

import (
	"bytes"
	"fmt"
	"seehuhn.de/go/sfnt"
	"seehuhn.de/go/sfnt/cmap"
	"sort"
	"time"

	"golang.org/x/text/language"

	"seehuhn.de/go/sfnt/glyph"
	"seehuhn.de/go/sfnt/opentype/coverage"
	"seehuhn.de/go/sfnt/opentype/gdef"
	"seehuhn.de/go/sfnt/opentype/gtab"

	"verif/explore"
	"verif/gen"
	"verif/run"
)

// C07: shaping is safe, terminating, text-conserving and history-independent.

// withWatchdog runs f; a call that does not return within the (very generous)
// limit is reported as non-termination.  Normal calls take microseconds.
func withWatchdog(limit time.Duration, f func()) (finished bool, panicMsg string) {
	done := make(chan string, 1)
	go func() {
		defer func() {
			if r := recover(); r != nil {
				done <- fmt.Sprintf("%v\n%s", r, stackOf())
				return
			}
			done <- ""
		}()
		f()
	}()
	select {
	case msg := <-done:
		return true, msg
	case <-time.After(limit):
		return false, ""
	}
}

func stackOf() string {
	buf := make([]byte, 1<<14)
	n := runtimeStack(buf)
	return string(buf[:n])
}

// hostile applies one hostile modification to a lookup list (shapes the
// reader can deliver but a well-formed font would not contain).
func hostile(c *explore.Ctx, ll gtab.LookupList, gd *gdef.Table) (gtab.LookupList, *gdef.Table, string, int) {
	maxRepl := 4
	k := c.Deviate(16, "hostile modification")
	desc := "none"
	setActions := func(st gtab.Subtable, acts []gtab.SeqLookup) {
		switch l := st.(type) {
		case *gtab.SeqContext1:
			l.Rules[0][0].Actions = acts
		case *gtab.SeqContext2:
			for _, rr := range l.Rules {
				for _, r := range rr {
					r.Actions = acts
				}
			}
		case *gtab.SeqContext3:
			l.Actions = acts
		case *gtab.ChainedSeqContext1:
			l.Rules[0][0].Actions = acts
		case *gtab.ChainedSeqContext2:
			for _, rr := range l.Rules {
				for _, r := range rr {
					r.Actions = acts
				}
			}
		case *gtab.ChainedSeqContext3:
			l.Actions = acts
		}
	}
	parent := ll[0].Subtables[0]
	switch k {
	case 1:
		desc = "action refers to lookup index len(list)"
		setActions(parent, []gtab.SeqLookup{{SequenceIndex: 0, LookupListIndex: gtab.LookupIndex(len(ll))}, {SequenceIndex: 1, LookupListIndex: 1}})
	case 2:
		desc = "action refers to lookup index 0xFFFF"
		setActions(parent, []gtab.SeqLookup{{SequenceIndex: 0, LookupListIndex: 0xFFFF}, {SequenceIndex: 0, LookupListIndex: 1}})
	case 3:
		desc = "sequence index beyond the input"
		setActions(parent, []gtab.SeqLookup{{SequenceIndex: 7, LookupListIndex: 1}, {SequenceIndex: 0xFFFF, LookupListIndex: 2}, {SequenceIndex: 0, LookupListIndex: 1}})
	case 4:
		desc = "rule calls its own lookup"
		setActions(parent, []gtab.SeqLookup{{SequenceIndex: 0, LookupListIndex: 0}, {SequenceIndex: 1, LookupListIndex: 1}})
	case 5, 6, 7, 8:
		n := []int{63, 64, 65, 200}[k-5]
		desc = fmt.Sprintf("rule with %d actions", n)
		var acts []gtab.SeqLookup
		for i := 0; i < n; i++ {
			acts = append(acts, gtab.SeqLookup{SequenceIndex: uint16(i % 2), LookupListIndex: gtab.LookupIndex(1 + i%2)})
		}
		setActions(parent, acts)
	case 9:
		desc = "chain of 12 nested context lookups"
		ll = gtab.LookupList{}
		for i := 0; i < 12; i++ {
			ll = append(ll, gen.MakeLookup(5, gen.Flags[0], []gtab.Subtable{gen.Context(i%3, gen.Pattern{Input: []glyph.ID{gen.GA, gen.GA}}, []gtab.SeqLookup{{SequenceIndex: 0, LookupListIndex: gtab.LookupIndex(i + 1)}, {SequenceIndex: 1, LookupListIndex: gtab.LookupIndex(i + 1)}})}))
		}
		ll = append(ll, gen.MakeLookup(2, gen.Flags[0], gen.GsubSimple[3].Sub()))
		maxRepl = 2
	case 10:
		desc = "empty GSUB 2 replacement and empty GSUB 3 alternates"
		ll = append(gtab.LookupList{}, ll...)
		ll[1] = gen.MakeLookup(2, gen.Flags[0], []gtab.Subtable{&gtab.Gsub2_1{Cov: coverage.Table{gen.GA: 0, gen.GB: 1}, Repl: [][]glyph.ID{{}, {gen.GX}}}})
		ll[2] = gen.MakeLookup(3, gen.Flags[0], []gtab.Subtable{&gtab.Gsub3_1{Cov: coverage.Table{gen.GA: 0}, Alternates: [][]glyph.ID{{}}}})
	case 11:
		desc = "class index beyond the rule sets (context format 2)"
		ll = append(gtab.LookupList{}, ll...)
		ll[0] = gen.MakeLookup(5, gen.Flags[0], []gtab.Subtable{&gtab.SeqContext2{Cov: coverage.Table{gen.GA: 0, gen.GB: 1}, Input: map[glyph.ID]uint16{gen.GA: 1, gen.GB: 9}, Rules: [][]*gtab.ClassSeqRule{nil, {{Input: []uint16{9}, Actions: []gtab.SeqLookup{{SequenceIndex: 0, LookupListIndex: 1}}}}}}})
	case 12:
		desc = "mark filtering set index beyond GDEF's sets"
		ll = append(gtab.LookupList{}, ll...)
		ll[1] = &gtab.LookupTable{Meta: &gtab.LookupMetaInfo{LookupType: ll[1].Meta.LookupType, LookupFlags: gtab.UseMarkFilteringSet, MarkFilteringSet: 5}, Subtables: ll[1].Subtables}
		ll[0] = &gtab.LookupTable{Meta: &gtab.LookupMetaInfo{LookupType: ll[0].Meta.LookupType, LookupFlags: gtab.UseMarkFilteringSet, MarkFilteringSet: 0xFFFF}, Subtables: ll[0].Subtables}
	case 13:
		desc = "mark filtering set used but GDEF has no mark sets"
		ll = append(gtab.LookupList{}, ll...)
		ll[0] = &gtab.LookupTable{Meta: &gtab.LookupMetaInfo{LookupType: ll[0].Meta.LookupType, LookupFlags: gtab.UseMarkFilteringSet, MarkFilteringSet: 0}, Subtables: ll[0].Subtables}
		g2, _ := gen.Gdef(1)
		gd = g2
	case 14:
		desc = "coverage index beyond the substitute array"
		ll = append(gtab.LookupList{}, ll...)
		ll[1] = gen.MakeLookup(1, gen.Flags[0], []gtab.Subtable{&gtab.Gsub1_2{Cov: coverage.Table{gen.GA: 3, gen.GB: 0}, SubstituteGlyphIDs: []glyph.ID{gen.GX}}})
	case 15:
		desc = "ligature set index beyond the ligature sets; context rule set missing"
		ll = append(gtab.LookupList{}, ll...)
		ll[1] = gen.MakeLookup(4, gen.Flags[0], []gtab.Subtable{&gtab.Gsub4_1{Cov: coverage.Table{gen.GA: 2}, Repl: [][]gtab.Ligature{{{In: []glyph.ID{gen.GA}, Out: gen.GX}}}}})
		ll[2] = gen.MakeLookup(5, gen.Flags[0], []gtab.Subtable{&gtab.SeqContext1{Cov: coverage.Table{gen.GA: 1}, Rules: [][]*gtab.SeqRule{{}}}})
	}
	return ll, gd, desc, maxRepl
}

// deliver passes a lookup list through the library's own encoder and reader:
// only shapes the reader can deliver are in the property's domain.
func deliver(ll gtab.LookupList, applied []gtab.LookupIndex, gpos bool) gtab.LookupList {
	var rb *gtab.Info
	tp := gtab.Type(gtab.TypeGsub)
	if gpos {
		tp = gtab.TypeGpos
	}
	fin, pmsg := withWatchdog(20*time.Second, func() {
		enc := (&gtab.Info{ScriptList: gtab.ScriptListInfo{language.MustParse("und-Zzzz-x-dflt"): {Required: 0xFFFF, Optional: []gtab.FeatureIndex{0}}},
			FeatureList: []*gtab.Feature{{Tag: "test", Lookups: applied}}, LookupList: ll}).Encode()
		rb, _ = gtab.Read(bytes.NewReader(enc), tp)
	})
	if !fin || pmsg != "" || rb == nil || len(rb.LookupList) != len(ll) {
		return nil
	}
	return rb.LookupList
}

func textConserved(in, out []glyph.Info) string {
	cnt := map[rune]int{}
	for _, g := range out {
		for _, r := range g.Text {
			cnt[r]++
		}
	}
	for _, g := range in {
		for _, r := range g.Text {
			if cnt[r] != 1 {
				return fmt.Sprintf("character %q attached to the input occurs %d times in the output", r, cnt[r])
			}
			delete(cnt, r)
		}
	}
	if len(cnt) != 0 {
		return fmt.Sprintf("output carries %d characters that were not in the input", len(cnt))
	}
	return ""
}

func seqWithText(gids []glyph.ID) []glyph.Info {
	seq := make([]glyph.Info, len(gids))
	for i, g := range gids {
		seq[i] = glyph.Info{GID: g, Text: []rune{rune(0x100 + i)}}
	}
	return seq
}

func c07Structures(r *run.Run) {
	alphabet := []glyph.ID{gen.GA, gen.GB, gen.GM, 0, 0xFFFF}
	maxLen := 4
	bound := 2
	if !r.Quick() {
		bound = 3
	}
	for _, gpos := range []bool{false, true} {
		name := "C07.structures-gsub"
		if gpos {
			name = "C07.structures-gpos"
		}
		gpos := gpos
		r.Explore(explore.Config{Name: name, Bound: bound, Deadline: r.PartDeadline(0.35)},
			"generator lookup lists (deviation-bounded) with one hostile modification from a menu of 15 (out-of-range lookup / sequence / class / coverage / ligature-set / mark-filtering-set indices, empty replacement lists, self reference, 12-deep nesting, rules with 63..200 actions), on all sequences of length <= 4 over {A,B,M,0,0xFFFF} and on sequences of length 200: no panic, terminates, text conserved, output length bounded",
			func(c *explore.Ctx) {
				ll, gd, spec := gen.Nested(c, gpos)
				ll, gd, hdesc, maxRepl := hostile(c, ll, gd)
				c.Sample(func() any { return map[string]any{"lists": spec.Desc, "gdef": spec.Gdef, "hostile": hdesc} })
				if hdesc != "none" {
					c.Nontrivial()
				}
				sig := hdesc
				// only shapes the reader can deliver are in the domain: the structure goes through the
				// library's own encoder and reader first (an encoder panic or a reader error = not deliverable)
				rbl := deliver(ll, spec.Applied, gpos)
				if rbl == nil {
					c.Tag("shape not deliverable by the reader: " + hdesc)
					c.Outcome("undeliverable", hdesc)
					return
				}
				ll = rbl
				check := func(gids []glyph.ID) bool {
					in := seqWithText(gids)
					var out []glyph.Info
					fin, pmsg := withWatchdog(20*time.Second, func() {
						out = gtab.NewContext(ll, gd, spec.Applied).Apply(seqWithText(gids))
					})
					if !fin {
						c.Fail("C07.terminates", sig, "Apply did not return within 20 s on input %s; lookups %v, hostile: %s", gen.SeqName(gids), spec.Desc, hdesc)
						return false
					}
					if pmsg != "" {
						c.Fail("C07.panic", sig+" / "+explore.PanicSignature(pmsg), "Apply panicked on input %s; lookups %v, hostile: %s\n%s", gen.SeqName(gids), spec.Desc, hdesc, pmsg)
						return false
					}
					if msg := textConserved(in, out); msg != "" {
						c.Fail("C07.text", sig, "input %s: %s; output [%s]; lookups %v, hostile: %s", gen.SeqName(gids), msg, fmtInfos(out), spec.Desc, hdesc)
						return false
					}
					_ = maxRepl
					return true
				}
				ok := true
				gen.Sequences(alphabet, maxLen, func(g []glyph.ID) bool { ok = check(g); return ok })
				if ok {
					long := make([]glyph.ID, 200)
					for i := range long {
						long[i] = alphabet[(i*i+i/3)%3]
					}
					check(long)
				}
				c.Outcome(fmt.Sprint(spec.Desc), hdesc)
			})
	}
}

// history independence for positional state: every simple lookup on ALL ordered pairs of short
// sequences - the second Apply on a used Context must not see anything the first one left behind
// (positions of earlier matches, cached search results).
func c07HistoryPairs(r *run.Run) {
	alphabet := []glyph.ID{gen.GA, gen.GB, gen.GM, gen.GL}
	flags := []int{0, 1, 4}
	var first, second [][]glyph.ID
	l1, l2 := 3, 4
	if !r.Quick() {
		l1, l2 = 4, 5
	}
	gen.Sequences(alphabet, l1, func(g []glyph.ID) bool { first = append(first, append([]glyph.ID{}, g...)); return true })
	gen.Sequences(alphabet, l2, func(g []glyph.ID) bool { second = append(second, append([]glyph.ID{}, g...)); return true })
	r.Explore(explore.Config{Name: "C07.history-pairs", Deadline: r.PartDeadline(0.3)},
		fmt.Sprintf("every simple GSUB and GPOS lookup of the menus x flags {none, ignore marks, mark set 0} on ALL ordered pairs (first sequence of length <= 3 (quick) / 4, second of length <= 4 / 5 over {A,B,M,L}: %d x %d pairs): Apply(second) on the Context that has just processed the first equals Apply(second) on a fresh Context", len(first), len(second)),
		func(c *explore.Ctx) {
			gpos := c.Bool("gpos")
			menu := gen.GsubSimple
			if gpos {
				menu = gen.GposSimple
			}
			k := c.Choose(len(menu), "lookup")
			f := gen.Flags[flags[c.Choose(len(flags), "flags")]]
			gd, _ := gen.Gdef(0)
			ll := gtab.LookupList{gen.MakeLookup(menu[k].Type, f, menu[k].Sub())}
			desc := menu[k].Name + " " + f.Name
			c.Sample(func() any { return desc })
			c.Outcome(desc)
			mk := func(g []glyph.ID) []glyph.Info { return mkSeq(g, gpos) }
			fresh := make([]string, len(second))
			if p := guard(func() {
				for i, s2 := range second {
					fresh[i] = fmtInfos(gtab.NewContext(ll, gd, []gtab.LookupIndex{0}).Apply(mk(s2)))
				}
			}); p != "" {
				c.Tag("panic on a fresh Context (reported by C07.simple): " + explore.PanicSignature(p))
				return
			}
			c.Nontrivial()
			ctx := gtab.NewContext(ll, gd, []gtab.LookupIndex{0})
			var bad string
			if p := guard(func() {
				for _, s1 := range first {
					for i, s2 := range second {
						ctx.Apply(mk(s1))
						if got := fmtInfos(ctx.Apply(mk(s2))); got != fresh[i] {
							bad = fmt.Sprintf("after Apply(%s) on one Context, Apply(%s) gives [%s], a fresh Context gives [%s]", gen.SeqName(s1), gen.SeqName(s2), got, fresh[i])
							return
						}
					}
				}
			}); p != "" {
				c.Fail("C07.panic", "history pairs: "+explore.PanicSignature(p), "Apply on a used Context panics: %s; %s", p, desc)
				return
			}
			if bad != "" {
				c.Fail("C07.history", "pairs: "+menu[k].Name, "%s; lookup %s", bad, desc)
			}
		})
}

// every simple lookup of the menus under every flag combination on all short sequences: the safety
// clauses (no panic, termination, text conserved) do not need the reference shaper, so lookup types it
// does not model (cursive attachment) are included
// c07ContextProduct: the full product of contextual forms, patterns and lookup flags (the deviation-bounded
// lists of C07.structures reach a form, a pattern and a flag set together only beyond their bound).
func c07ContextProduct(r *run.Run) {
	alphabet := []glyph.ID{gen.GA, gen.GB, gen.GM, gen.GN, gen.GL}
	r.Explore(explore.Config{Name: "C07.context-product", Deadline: r.PartDeadline(0.2)},
		fmt.Sprintf("all 6 contextual forms x %d patterns (with backtrack and lookahead) x %d lookup flag sets x GSUB / GPOS with one nested simple lookup, delivered through Encode/Read, asked for alone or together with lookup indices at and beyond the end of the list, on all glyph sequences of length <= 4 over {A,B,M,N,L} (texts that end in glyphs the lookup ignores): no panic, termination, every input character exactly once in the output", len(gen.Patterns), len(gen.Flags)),
		func(c *explore.Ctx) {
			gpos := c.Bool("gpos")
			form := c.Choose(len(gen.ContextForms), "form")
			pat := gen.Patterns[c.Choose(len(gen.Patterns), "pattern")]
			f := gen.Flags[c.Choose(len(gen.Flags), "flags")]
			menu, typ := gen.GsubSimple, uint16(5)
			if gpos {
				menu, typ = gen.GposSimple, 7
			}
			if form >= 3 {
				typ++
			}
			gd, _ := gen.Gdef(0)
			ll := gtab.LookupList{
				gen.MakeLookup(typ, f, []gtab.Subtable{gen.Context(form, pat, []gtab.SeqLookup{{SequenceIndex: 0, LookupListIndex: 1}})}),
				gen.MakeLookup(menu[0].Type, gen.Flags[0], menu[0].Sub()),
			}
			// the lookups the caller asks for: the context lookup alone, or with indices just beyond the list
			applied := [][]gtab.LookupIndex{{0}, {0, 2}, {2, 0xFFFF, 0, 3}}[c.Choose(3, "lookups asked for")]
			desc := fmt.Sprintf("%s %s %s, child %s, lookups asked for %v (the list has 2)", gen.ContextForms[form], pat.Name, f.Name, menu[0].Name, applied)
			c.Sample(func() any { return desc })
			if ll = deliver(ll, []gtab.LookupIndex{0}, gpos); ll == nil {
				c.Tag("not deliverable by the reader: " + desc)
				return
			}
			c.Nontrivial()
			c.Outcome(desc)
			gen.Sequences(alphabet, 4, func(g []glyph.ID) bool {
				var out []glyph.Info
				fin, pmsg := withWatchdog(20*time.Second, func() { out = gtab.NewContext(ll, gd, applied).Apply(seqWithText(g)) })
				if !fin {
					c.FailObserved("C07.terminates", "context product: "+gen.ContextForms[form], "Apply(%s) does not return within 20 s; %s", gen.SeqName(g), desc)
					return false
				}
				if pmsg != "" {
					c.Fail("C07.panic", "context product: "+explore.PanicSignature(pmsg), "Apply(%s) panics: %s; %s", gen.SeqName(g), pmsg, desc)
					return false
				}
				if msg := textConserved(seqWithText(g), out); msg != "" {
					c.Fail("C07.text", "context product: "+gen.ContextForms[form], "Apply(%s): %s; %s", gen.SeqName(g), msg, desc)
					return false
				}
				return true
			})
		})
}

func c07Simple(r *run.Run) {
	alphabet := []glyph.ID{gen.GA, gen.GB, gen.GM, gen.GN, gen.GL}
	r.Explore(explore.Config{Name: "C07.simple", Deadline: r.PartDeadline(0.2)},
		"every simple GSUB and GPOS lookup of the menus (incl. cursive attachment) x every flag combination x 5 GDEF variants (one with glyph classes outside 1..4), delivered through Encode/Read, on all glyph sequences of length <= 4 over {A,B,M,N,L}: no panic, termination, every input character exactly once in the output",
		func(c *explore.Ctx) {
			gpos := c.Bool("gpos")
			menu := gen.GsubSimple
			if gpos {
				menu = gen.GposSimple
			}
			k := c.Choose(len(menu), "lookup")
			f := gen.Flags[c.Choose(len(gen.Flags), "flags")]
			gd, gdn := gen.Gdef(c.Choose(5, "gdef"))
			ll := gtab.LookupList{gen.MakeLookup(menu[k].Type, f, menu[k].Sub())}
			desc := menu[k].Name + " " + f.Name + ", gdef:" + gdn
			c.Sample(func() any { return desc })
			if ll = deliver(ll, []gtab.LookupIndex{0}, gpos); ll == nil {
				c.Tag("not deliverable by the reader: " + desc)
				return
			}
			c.Nontrivial()
			c.Outcome(desc)
			gen.Sequences(alphabet, 4, func(g []glyph.ID) bool {
				var out []glyph.Info
				fin, pmsg := withWatchdog(20*time.Second, func() { out = gtab.NewContext(ll, gd, []gtab.LookupIndex{0}).Apply(seqWithText(g)) })
				if !fin {
					c.FailObserved("C07.terminates", "simple: "+menu[k].Name, "Apply(%s) does not return within 20 s; %s", gen.SeqName(g), desc)
					return false
				}
				if pmsg != "" {
					c.Fail("C07.panic", "simple: "+explore.PanicSignature(pmsg), "Apply(%s) panics: %s; %s", gen.SeqName(g), pmsg, desc)
					return false
				}
				var runes []rune
				for _, gi := range out {
					runes = append(runes, gi.Text...)
				}
				sort.Slice(runes, func(i, j int) bool { return runes[i] < runes[j] })
				want := ""
				for i := range g {
					want += string(rune(0x100 + i)) // the characters seqWithText attaches
				}
				if string(runes) != want {
					c.Fail("C07.text", "simple: "+menu[k].Name, "Apply(%s): the output carries the characters %q, the input %q; %s", gen.SeqName(g), string(runes), want, desc)
					return false
				}
				return true
			})
		})
}

// history independence: after any history of Apply calls on one Context,
// Apply(s) equals Apply(s) on a fresh Context.
func c07History(r *run.Run) {
	inputs := [][]glyph.ID{
		{},
		{gen.GA, gen.GA, gen.GM, gen.GA, gen.GA},
		{gen.GA, gen.GB, gen.GA},
		{gen.GA, gen.GA, gen.GA, gen.GA, gen.GA, gen.GA, gen.GA, gen.GA},
		{gen.GB, gen.GA, gen.GM, gen.GM, gen.GA, gen.GB},
		{gen.GA, gen.GM, gen.GA},
	}
	depth := 3
	for _, gpos := range []bool{false, true} {
		gpos := gpos
		name := "C07.history-gsub"
		if gpos {
			name = "C07.history-gpos"
		}
		r.Explore(explore.Config{Name: name, Bound: 2, Deadline: r.PartDeadline(0.5)},
			"all histories of <= 3 Apply calls (6 inputs: empty, matching, non-matching, long, with skipped marks) on one gtab.Context built from generator lists (deviation bound 2, incl. the hostile menu: budget exhaustion, out-of-range sequence index): every probe input gives the same result on the used Context as on a fresh one",
			func(c *explore.Ctx) {
				ll, gd, spec := gen.Nested(c, gpos)
				ll, gd, hdesc, _ := hostile(c, ll, gd)
				if ll = deliver(ll, spec.Applied, gpos); ll == nil {
					c.Tag("shape not deliverable by the reader: " + hdesc)
					return
				}
				var hist []string
				c.Sample(func() any { return map[string]any{"lists": spec.Desc, "hostile": hdesc, "history": hist} })
				ctx := gtab.NewContext(ll, gd, spec.Applied)
				apply := func(cx *gtab.Context, g []glyph.ID) (out string, bad string) {
					fin, pmsg := withWatchdog(20*time.Second, func() { out = fmtInfos(cx.Apply(seqWithText(g))) })
					if !fin {
						return "", "did not terminate"
					}
					if pmsg != "" {
						return "", "panic: " + explore.PanicSignature(pmsg)
					}
					return out, ""
				}
				n := c.Choose(depth+1, "history length")
				for i := 0; i < n; i++ {
					in := inputs[c.Choose(len(inputs), "call")]
					hist = append(hist, gen.SeqName(in))
					if _, bad := apply(ctx, in); bad != "" {
						c.Tag("history call " + bad + " (reported by C07.structures)")
						return
					}
				}
				if n > 0 {
					c.Nontrivial()
				}
				for _, probe := range inputs {
					got, bad1 := apply(ctx, probe)
					want, bad2 := apply(gtab.NewContext(ll, gd, spec.Applied), probe)
					if bad1 != "" || bad2 != "" {
						c.Tag("probe " + bad1 + bad2 + " (reported by C07.structures)")
						return
					}
					if got != want {
						c.Fail("C07.history", hdesc, "after Apply history %v on one Context, Apply(%s) gives [%s], a fresh Context gives [%s]; lookups %v, hostile: %s", hist, gen.SeqName(probe), got, want, spec.Desc, hdesc)
						return
					}
				}
				c.Outcome(fmt.Sprint(spec.Desc), hdesc, hist)
			})
	}
}

// history independence across lookups that differ only in data kept outside the flag word: two context
// rules with different first glyphs run two copies of one child lookup under ALL pairs of child flags
// (incl. equal flag words with different mark filtering sets), so which child is used first on a
// Context depends on the text of the earlier calls.
func c07HistoryFlags(r *run.Run) {
	mk := func(s string) []glyph.ID {
		var g []glyph.ID
		for _, ch := range s {
			g = append(g, map[rune]glyph.ID{'A': gen.GA, 'B': gen.GB, 'C': gen.GC, 'M': gen.GM, 'N': gen.GN, 'L': gen.GL}[ch])
		}
		return g
	}
	var inputs [][]glyph.ID
	for _, s := range []string{"", "CAA", "CAMA", "CANA", "CAMNA", "BAA", "BAMA", "BANA", "BANMA", "CAMABAMA", "BAMACAMA", "M", "CALA", "BALA", "AMA"} {
		inputs = append(inputs, mk(s))
	}
	r.Explore(explore.Config{Name: "C07.history-flags", Deadline: r.PartDeadline(0.5)},
		fmt.Sprintf("lists [context 'C A A' -> child a at 1, context 'B A A' -> child b at 1, child a, child b] where a and b are copies of one lookup (GSUB: ligature / single substitution; GPOS: single / pair adjustment) with ALL pairs of flags from the 11-entry flag menu, parents ignoring marks and ligatures; all histories of <= 2 Apply calls over %d inputs on one Context: every probe gives the same result as on a fresh Context", len(inputs)),
		func(c *explore.Ctx) {
			gpos := c.Bool("gpos")
			menu, ctxType := gen.GsubSimple, uint16(5)
			kids := []int{5, 1}
			if gpos {
				menu, ctxType = gen.GposSimple, 7
				kids = []int{1, 2}
			}
			child := menu[kids[c.Choose(len(kids), "child")]]
			fa := gen.Flags[c.Choose(len(gen.Flags), "flags of child a")]
			fb := gen.Flags[c.Choose(len(gen.Flags), "flags of child b")]
			pf := gen.FlagSet{Flags: gtab.IgnoreMarks | gtab.IgnoreLigatures, Name: "-marks-ligs"}
			ll := gtab.LookupList{
				gen.MakeLookup(ctxType, pf, []gtab.Subtable{gen.Context(2, gen.Pattern{Input: []glyph.ID{gen.GC, gen.GA, gen.GA}}, []gtab.SeqLookup{{SequenceIndex: 1, LookupListIndex: 2}})}),
				gen.MakeLookup(ctxType, pf, []gtab.Subtable{gen.Context(2, gen.Pattern{Input: []glyph.ID{gen.GB, gen.GA, gen.GA}}, []gtab.SeqLookup{{SequenceIndex: 1, LookupListIndex: 3}})}),
				gen.MakeLookup(child.Type, fa, child.Sub()),
				gen.MakeLookup(child.Type, fb, child.Sub()),
			}
			gd, _ := gen.Gdef(0)
			applied := []gtab.LookupIndex{0, 1}
			desc := []string{"0: context fmt3 -marks-ligs [CAA] 2@1", "1: context fmt3 -marks-ligs [BAA] 3@1", "2: " + child.Name + " " + fa.Name, "3: " + child.Name + " " + fb.Name}
			var hist []string
			c.Sample(func() any { return map[string]any{"lists": desc, "history": hist} })
			ctx := gtab.NewContext(ll, gd, applied)
			n := c.Choose(3, "history length")
			for i := 0; i < n; i++ {
				in := inputs[c.Choose(len(inputs), "call")]
				hist = append(hist, gen.SeqName(in))
				ctx.Apply(seqWithText(in))
			}
			if n > 0 {
				c.Nontrivial()
			}
			for _, probe := range inputs {
				got := fmtInfos(ctx.Apply(seqWithText(probe)))
				want := fmtInfos(gtab.NewContext(ll, gd, applied).Apply(seqWithText(probe)))
				if got != want {
					c.Fail("C07.history", "child flags "+fa.Name+" / "+fb.Name, "after Apply history %v on one Context, Apply(%s) gives [%s], a fresh Context gives [%s]; lookups %v", hist, gen.SeqName(probe), got, want, desc)
					return
				}
			}
			c.Outcome(fmt.Sprint(desc), hist)
		})
}

// Layouter: Layout(s) does not depend on earlier Layout calls.
func c07Layouter(r *run.Run) {
	strs := []string{"", "AB", "fBi", "AfiB", "xB", "fifi", "AfBBiB"}
	r.Explore(explore.Config{Name: "C07.layouter", Deadline: r.PartDeadline(0.5)},
		"sfnt.Layouter: all histories of <= 3 Layout calls over 6 strings on generator fonts with GSUB/GPOS/GDEF and on a font with the synthetic ligature table: the next Layout equals that of a fresh Layouter, text conserved",
		func(c *explore.Ctx) {
			f, spec := gen.Font(c, gen.FontOpts{Compact: true, NoMeta: true, GlyphCounts: []int{6}, Kinds: []int{gen.KindGlyf, gen.KindCFF}})
			if f.CMapTable == nil {
				c.Skip("no cmap")
			}
			var hist []string
			c.Sample(func() any { return map[string]any{"font": spec, "history": hist} })
			lay, err := f.NewLayouter(language.English, nil, nil)
			if err != nil {
				c.Skip("no layouter: " + err.Error())
			}
			n := c.Choose(4, "history length")
			for i := 0; i < n; i++ {
				s := strs[c.Choose(len(strs), "call")]
				hist = append(hist, s)
				lay.Layout(s)
			}
			if n > 0 {
				c.Nontrivial()
			}
			for _, probe := range strs {
				got := lay.Layout(probe)
				gs := fmtInfos(got)
				var runes []rune
				for _, g := range got {
					runes = append(runes, g.Text...)
				}
				sortRunes := func(r []rune) string {
					s := append([]rune{}, r...)
					sort.Slice(s, func(i, j int) bool { return s[i] < s[j] })
					return string(s)
				}
				if sortRunes(runes) != sortRunes([]rune(probe)) {
					c.Fail("C07.text", "Layouter", "Layout(%q) carries text %q", probe, string(runes))
				}
				fresh, _ := f.NewLayouter(language.English, nil, nil)
				want := fmtInfos(fresh.Layout(probe))
				if gs != want {
					c.Fail("C07.history", "Layouter", "after Layout history %q, Layout(%q) gives [%s], a fresh Layouter gives [%s]", hist, probe, gs, want)
					return
				}
			}
			c.Outcome(spec.Kind, spec.Gsub, spec.Gpos, hist)
		})
}

// Layouter on fonts whose substitution rules (or character map) name glyph ids the font does not have:
// adversarial, but what the readers accept; Layout has to survive them.
func c07LayouterHostile(r *run.Run) {
	strs := []string{"", "A", "AB", "BA", "fAi", "ABAB"}
	type variant struct {
		name string
		mk   func() []gtab.Subtable
		typ  uint16
	}
	big := glyph.ID(60000)
	variants := []variant{
		{"GSUB1.1 A,B + 1000", func() []gtab.Subtable {
			return []gtab.Subtable{&gtab.Gsub1_1{Cov: coverage.Set{1: true, 2: true}, Delta: 1000}}
		}, 1},
		{"GSUB1.2 A -> 0xFFFF", func() []gtab.Subtable {
			return []gtab.Subtable{&gtab.Gsub1_2{Cov: coverage.Table{1: 0}, SubstituteGlyphIDs: []glyph.ID{0xFFFF}}}
		}, 1},
		{"GSUB2.1 A -> B 60000", func() []gtab.Subtable {
			return []gtab.Subtable{&gtab.Gsub2_1{Cov: coverage.Table{1: 0}, Repl: [][]glyph.ID{{2, big}}}}
		}, 2},
		{"GSUB4.1 A B -> 60000", func() []gtab.Subtable {
			return []gtab.Subtable{&gtab.Gsub4_1{Cov: coverage.Table{1: 0}, Repl: [][]gtab.Ligature{{{In: []glyph.ID{2}, Out: big}}}}}
		}, 4},
		{"GSUB1.1 A -> last glyph + 1", func() []gtab.Subtable {
			return []gtab.Subtable{&gtab.Gsub1_1{Cov: coverage.Set{1: true}, Delta: 5}}
		}, 1},
		{"no GSUB; the character map sends B to glyph 500", nil, 0},
	}
	r.Explore(explore.Config{Name: "C07.layouter-hostile", Deadline: r.PartDeadline(0.2)},
		"sfnt.Layouter on 6-glyph glyf and CFF fonts, written and read back, whose GSUB rules produce glyph ids the font does not have (6, 1001, 60000, 0xFFFF; single, multiple and ligature substitution) or whose character map does, with and without a GPOS table: Layout of 6 strings does not panic and conserves the text",
		func(c *explore.Ctx) {
			kind := []int{gen.KindGlyf, gen.KindCFF}[c.Choose(2, "outline kind")]
			v := variants[c.Choose(len(variants), "variant")]
			withGpos := c.Bool("gpos")
			f, _ := FontFromChoices(gen.FontOpts{NoMeta: true, NoLayout: true}, kind, 2, 0, 0, 1)
			cm := cmap.Format4{'A': 1, 'B': 2, 'f': 3, 'i': 4}
			f.Gsub, f.Gpos, f.Gdef = nil, nil, nil
			if v.mk == nil {
				cm['B'] = 500
			} else {
				f.Gsub = gsubInfo("liga", gen.MakeLookup(v.typ, gen.Flags[0], v.mk()))
			}
			f.InstallCMap(cm)
			if withGpos {
				f.Gpos = gsubInfo("kern", gen.MakeLookup(2, gen.Flags[0], []gtab.Subtable{gtab.Gpos2_1{{Left: 1, Right: 2}: {First: &gtab.GposValueRecord{XAdvance: -40}}, {Left: big, Right: 1}: {First: &gtab.GposValueRecord{XAdvance: 7}}}}))
			}
			desc := fmt.Sprintf("%s, %s, gpos=%v", gen.KindNames[kind], v.name, withGpos)
			c.Sample(func() any { return desc })
			c.Outcome(desc)
			file, err := writeFont(f)
			if err != nil {
				c.Tag("not writable: " + err.Error())
				return
			}
			g, err := sfnt.Read(bytes.NewReader(file))
			if err != nil {
				c.Tag("not accepted by the reader: " + err.Error())
				return
			}
			c.Nontrivial()
			for _, s := range strs {
				var out []glyph.Info
				fin, pmsg := withWatchdog(20*time.Second, func() {
					lay, err := g.NewLayouter(language.English, nil, nil)
					if err != nil {
						return
					}
					out = append(out, lay.Layout(s)...)
					out = append(out[:0], lay.Layout(s)...)
				})
				if !fin {
					c.FailObserved("C07.terminates", "Layouter / hostile glyph ids", "Layout(%q) does not return within 20 s; %s", s, desc)
					return
				}
				if pmsg != "" {
					c.Fail("C07.panic", "Layouter: "+explore.PanicSignature(pmsg), "Layout(%q) panics: %s; %s", s, pmsg, desc)
					return
				}
				var runes []rune
				for _, gi := range out {
					runes = append(runes, gi.Text...)
				}
				sort.Slice(runes, func(i, j int) bool { return runes[i] < runes[j] })
				want := []rune(s)
				sort.Slice(want, func(i, j int) bool { return want[i] < want[j] })
				if string(runes) != string(want) {
					c.Fail("C07.text", "Layouter / hostile glyph ids", "Layout(%q) carries the text %q; %s", s, string(runes), desc)
					return
				}
			}
		})
}

// Layouter on all ordered pairs of short strings: the buffer a Layouter reuses between calls must not
// carry anything over (glyphs inserted by a multiple substitution land in slots that held positioned
// glyphs of the previous call).
func c07LayouterPairs(r *run.Run) {
	alphabet := []rune{'A', 'B', 'M', 'L'}
	gsubs := []int{2, 3, 5, 1} // GSUB2 A->AM B->XYA; GSUB2 A->AA; GSUB4 AAA->X AA->Y AB->L; GSUB1.2
	var first, second []string
	allStrings(alphabet, 3, func(s string) bool { first = append(first, s); return true })
	allStrings(alphabet, 4, func(s string) bool { second = append(second, s); return true })
	r.Explore(explore.Config{Name: "C07.layouter-pairs", Deadline: r.PartDeadline(0.3)},
		fmt.Sprintf("sfnt.Layouter on fonts with one of 4 GSUB lookups (two multiple substitutions, ligatures, single) and every GPOS lookup of the menu, GDEF with classes: ALL ordered pairs of strings (first of length <= 3, second <= 4 over {A,B,M,L}: %d x %d): Layout(second) on the Layouter that has just laid out the first equals Layout(second) on a fresh Layouter", len(first), len(second)),
		func(c *explore.Ctx) {
			gs := gen.GsubSimple[gsubs[c.Choose(len(gsubs), "gsub lookup")]]
			gp := gen.GposSimple[c.Choose(len(gen.GposSimple), "gpos lookup")]
			f := c19Font(true)
			f.Gdef, _ = gen.Gdef(0)
			f.Gsub = gsubInfo("liga", gen.MakeLookup(gs.Type, gen.Flags[0], gs.Sub()))
			f.Gpos = gsubInfo("kern", gen.MakeLookup(gp.Type, gen.Flags[0], gp.Sub()))
			desc := gs.Name + "; " + gp.Name
			c.Sample(func() any { return desc })
			c.Outcome(desc)
			var bad string
			if p := guard(func() {
				fresh := make([]string, len(second))
				for i, s2 := range second {
					lay, err := f.NewLayouter(language.Und, nil, nil)
					if err != nil {
						bad = "NewLayouter: " + err.Error()
						return
					}
					fresh[i] = fmtInfos(lay.Layout(s2))
				}
				lay, _ := f.NewLayouter(language.Und, nil, nil)
				for _, s1 := range first {
					for i, s2 := range second {
						lay.Layout(s1)
						if got := fmtInfos(lay.Layout(s2)); got != fresh[i] {
							bad = fmt.Sprintf("after Layout(%q), Layout(%q) gives [%s], a fresh Layouter gives [%s]", s1, s2, got, fresh[i])
							return
						}
					}
				}
			}); p != "" {
				c.Fail("C07.panic", "layouter pairs: "+explore.PanicSignature(p), "Layout panics: %s; %s", p, desc)
				return
			}
			c.Nontrivial()
			if bad != "" {
				c.Fail("C07.history", "Layouter pairs: "+gs.Name, "%s; lookups %s", bad, desc)
			}
		})
}

// every (lookup type, subtable format) pair the 16-bit fields can hold: whatever gtab.Read accepts can be
// applied (the reader dispatches on 10*type+format; types it does not know must be refused, not aliased)
func c07TypeFormat(r *run.Run) {
	r.Explore(explore.Config{Name: "C07.type-format", Deadline: r.PartDeadline(0.3)},
		"GSUB and GPOS tables with one lookup of every type 0..65535 (in 256 blocks) whose subtable starts with every format word 0..9 followed by an extension-style body (type 1, offset 8) and a minimal single-substitution / adjustment subtable, or (formats 1 and 7) by an extension body naming an extension type or an alias of one (7, 9, 6560, 6562) in front of a second extension-shaped record: gtab.Read refuses, or the lookup can be applied to a glyph sequence without a panic",
		func(c *explore.Ctx) {
			gpos := c.Bool("gpos")
			blk := c.Choose(256, "lookup type block")
			tp := gtab.Type(gtab.TypeGsub)
			if gpos {
				tp = gtab.TypeGpos
			}
			accepted := 0
			type variant struct{ f, extType, innerFormat int }
			var variants []variant
			for f := 0; f < 10; f++ {
				variants = append(variants, variant{f, 1, 1})
			}
			for _, f := range []int{1, 7} {
				for _, et := range []int{7, 9, 6560, 6562} { // an extension that names an extension type (or an alias of one)
					for _, fi := range []int{1, 7} {
						variants = append(variants, variant{f, et, fi})
					}
				}
			}
			for t := blk * 256; t < blk*256+256; t++ {
				for _, v := range variants {
					f := v.f
					// subtable: format f, then what an extension subtable has (lookup type, 32-bit offset 8); at offset 8
					// either a format 1 single substitution / adjustment with a one-glyph coverage table, or a second
					// extension-shaped record in front of it
					sub := be16(f, v.extType, 0, 8)
					if v.extType != 1 {
						sub = append(sub, be16(v.innerFormat, 1, 0, 8)...)
					}
					sub = append(sub, be16(1, 6, 1, 1, 1, 1)...)
					data := be16(1, 0, 10, 12, 14)
					data = append(data, be16(0)...)
					data = append(data, be16(0)...)
					data = append(data, be16(1, 4)...)
					data = append(data, be16(t, 0, 1, 8)...)
					data = append(data, sub...)
					info, err := gtab.Read(bytes.NewReader(data), tp)
					if err != nil {
						continue
					}
					accepted++
					var pmsg string
					fin := true
					if p := guard(func() {
						gtab.NewContext(info.LookupList, nil, []gtab.LookupIndex{0}).Apply(seqWithText([]glyph.ID{1, 2, 1}))
					}); p != "" {
						pmsg = p
					}
					_ = fin
					if pmsg != "" {
						c.Fail("C07.panic", "type/format: "+explore.PanicSignature(pmsg), "lookup type %d, subtable format %d (accepted by gtab.Read as %T): Apply panics: %s", t, f, info.LookupList[0].Subtables[0], pmsg)
						return
					}
				}
			}
			c.Count("accepted (type, format) pairs", int64(accepted))
			if accepted > 0 {
				c.Nontrivial()
			}
			c.Outcome(gpos, blk, accepted)
		})
}

// tables obtained from bytes: every single-field corruption of encoded
// well-formed tables that gtab.Read accepts is applied.
func c07Bytes(r *run.Run) {
	alphabet := []glyph.ID{gen.GA, gen.GB, gen.GM, 0, 0xFFFF}
	r.Explore(explore.Config{Name: "C07.bytes", Bound: 1, Deadline: r.PartDeadline(0.4)},
		"GSUB/GPOS tables from bytes: the default generator lists and their 1-deviation neighbours are encoded; every 16-bit field is overwritten with each of {0,1,2,len-1,len,0x7FFF,0xFFFF}; whatever gtab.Read accepts is applied to all sequences of length <= 3: no panic, terminates, text conserved",
		func(c *explore.Ctx) {
			gpos := c.Bool("gpos")
			ll, gd, spec := gen.Nested(c, gpos)
			info := &gtab.Info{
				ScriptList:  gtab.ScriptListInfo{language.MustParse("und-Zzzz-x-dflt"): {Required: 0xFFFF, Optional: []gtab.FeatureIndex{0}}},
				FeatureList: []*gtab.Feature{{Tag: "test", Lookups: spec.Applied}},
				LookupList:  ll,
			}
			enc := info.Encode()
			tp := gtab.Type(gtab.TypeGsub)
			if gpos {
				tp = gtab.TypeGpos
			}
			nf := len(enc) / 2
			pos := c.Choose(nf, "16-bit field")
			vals := []int{0, 1, 2, len(enc) - 1, len(enc), 0x7FFF, 0xFFFF}
			val := vals[c.Choose(len(vals), "value")]
			b := append([]byte{}, enc...)
			b[2*pos], b[2*pos+1] = byte(val>>8), byte(val)
			c.Sample(func() any {
				return map[string]any{"lists": spec.Desc, "table_len": len(enc), "field_offset": 2 * pos, "value": val}
			})
			var info2 *gtab.Info
			var err error
			fin, pmsg := withWatchdog(20*time.Second, func() { info2, err = gtab.Read(bytes.NewReader(b), tp) })
			if !fin || pmsg != "" {
				c.Tag("gtab.Read panics or hangs (reported by C02)")
				return
			}
			if err != nil || info2 == nil {
				c.Outcome("rejected")
				return
			}
			c.Nontrivial()
			var applied []gtab.LookupIndex
			for i := range info2.LookupList {
				applied = append(applied, gtab.LookupIndex(i))
			}
			sig := "mutated bytes"
			gen.Sequences(alphabet, 3, func(gids []glyph.ID) bool {
				in := seqWithText(gids)
				var out []glyph.Info
				fin, pmsg := withWatchdog(20*time.Second, func() { out = gtab.NewContext(info2.LookupList, gd, applied).Apply(seqWithText(gids)) })
				if !fin {
					c.Fail("C07.terminates", sig, "Apply on a table accepted by gtab.Read did not return within 20 s (field at %d := %#x; lookups %v)", 2*pos, val, spec.Desc)
					return false
				}
				if pmsg != "" {
					if bytes.Contains([]byte(pmsg), []byte("not implemented")) {
						c.Tag("declared unimplemented positioning data")
						return false
					}
					c.Fail("C07.panic", sig+" / "+explore.PanicSignature(pmsg), "Apply panicked on a table accepted by gtab.Read (field at %d := %#x, input %s; lookups %v)\n%s", 2*pos, val, gen.SeqName(gids), spec.Desc, pmsg)
					return false
				}
				if msg := textConserved(in, out); msg != "" {
					c.Fail("C07.text", sig, "input %s: %s (field at %d := %#x; lookups %v)", gen.SeqName(gids), msg, 2*pos, val, spec.Desc)
					return false
				}
				return true
			})
			c.Outcome(b)
		})
}

func init() {
	Register("C07", func(r *run.Run) {
		r.Rule = "bounded exhaustive enumeration of (hostile) lookup structures, mutated table bytes, input sequences and Apply/Layout histories on the real engine; non-trivial = a hostile modification / non-empty history / accepted mutation"
		r.Assume = []string{
			"termination is observed with a 20 s watchdog per call (normal calls take microseconds); a stuck call leaks one goroutine",
			"map-order independence: every map iteration order of the seam's alphabet in C07.map-order-* (generator lists, deviation bound 1, sequences of length <= 3)",
			"positioning data the library declares unimplemented (device offsets, vertical advance) is excluded",
		}
		// cheap parts first; the history search is by far the largest and takes what remains
		c07Simple(r)
		c07ContextProduct(r)
		c07HistoryPairs(r)
		c07LayouterHostile(r)
		c07LayouterPairs(r)
		c07TypeFormat(r)
		c07Structures(r)
		c07Bytes(r)
		c07MapOrder(r)
		c07MapOrderLayouter(r)
		c07HistoryFlags(r)
		c07Layouter(r)
		c07History(r)
	})
}
