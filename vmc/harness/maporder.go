package harness

import (
	"bytes"
	"crypto/sha1"
	"fmt"
	"sort"

	"golang.org/x/text/language"

	"seehuhn.de/go/sfnt"

	"seehuhn.de/go/sfnt/glyph"
	"seehuhn.de/go/sfnt/opentype/coverage"
	"seehuhn.de/go/sfnt/opentype/gtab"

	"verif/explore"
	"verif/gen"
	"verif/mapseed"
	"verif/run"
)

// Map-order parts (C01, C07, C10, C15, C20): the clauses "the same bytes on
// every write", "the same on every call", "not on map iteration order" are
// decided with the map-iteration seam (package mapseed): the case is built
// and the operation is run once under every seed of the seam's alphabet (for
// every map: each of the 8 offsets inside a bucket x 4 start buckets, under
// two hash seeds), in a process where a single goroutine runs, and all
// results must be identical.  For maps of up to 8 entries these are all the
// orders the runtime can produce.

const mapOrderProcs = 16

// underOrders runs build once normally (recording its choices) and once per
// seed on the recorded choices; it reports the first seed whose result
// differs from the result under the first seed.
func underOrders(c *explore.Ctx, build func(cc *explore.Ctx) string) (ref string, diff string) {
	start := len(c.Choices())
	plain := build(c)
	choices := append([]int{}, c.Choices()[start:]...)
	c.Checkpoint()
	var first string
	for i, o := range mapseed.Orders() {
		var out string
		mapseed.Set(o[0], o[1])
		_, pm := explore.Exec(func(cc *explore.Ctx) { out = build(cc) }, choices, false)
		mapseed.Off()
		if pm != "" {
			out = "PANIC " + explore.PanicSignature(pm)
		}
		if i == 0 {
			first = out
			if out != plain {
				return plain, fmt.Sprintf("under the runtime's own order: %.300s\nunder iteration start %d, hash seed %d: %.300s", plain, o[0], o[1], out)
			}
		} else if out != first {
			return plain, fmt.Sprintf("under iteration start 0, hash seed 0: %.300s\nunder iteration start %d, hash seed %d: %.300s", first, o[0], o[1], out)
		}
	}
	return plain, ""
}

func digestOf(b []byte) string { return fmt.Sprintf("%d bytes, sha1 %x", len(b), sha1.Sum(b)) }

func mapOrderRule(what string) string {
	return what + fmt.Sprintf(": built and run under every seed of the map-iteration seam (%d seeds: 8 offsets inside a bucket x start buckets x hash seeds, the same seed for every map of the execution); all results must be identical", len(mapseed.Orders()))
}

func c01MapOrder(r *run.Run) {
	r.ExploreSharded(explore.Config{Name: "C01.map-order", Bound: 0, Deadline: r.PartDeadline(0.5)},
		mapOrderRule("every generator font of the structure product (outline kinds x glyph counts x shapes x names/encodings x cmap layouts x layout tables), written with Font.Write"),
		mapOrderProcs, 0,
		func(c *explore.Ctx) {
			var key []int
			_, diff := underOrders(c, func(cc *explore.Ctx) string {
				f, spec := gen.Font(cc, gen.FontOpts{Compact: true})
				if cc == c {
					c.Sample(func() any { return spec })
					key = append([]int{}, c.Choices()...)
					c.Shard(explore.KeyOf(key...))
				}
				w, err := writeFont(f)
				if err != nil {
					return "error " + err.Error()
				}
				return digestOf(w)
			})
			c.Nontrivial()
			c.Outcome(fmt.Sprint(key))
			if diff != "" {
				c.Fail("C01.deterministic", "map order", "the bytes written for one font depend on map iteration order:\n%s", diff)
			}
		})
}

func c20MapOrder(r *run.Run) {
	r.ExploreSharded(explore.Config{Name: "C20.map-order", Bound: 0, Deadline: r.PartDeadline(0.3)},
		mapOrderRule("every 5-glyph font of C20.names (name patterns x cmap subsets x GSUB variants), MakeGlyphNames"),
		mapOrderProcs, 0,
		func(c *explore.Ctx) {
			_, diff := underOrders(c, func(cc *explore.Ctx) string {
				f, orig, desc := c20Font(cc)
				if cc == c {
					c.Sample(func() any { return map[string]any{"names": orig, "font": desc} })
					c.Shard(explore.KeyOf(c.Choices()...))
				}
				return fmt.Sprint(f.MakeGlyphNames())
			})
			c.Nontrivial()
			c.Outcome(fmt.Sprint(c.Choices()))
			if diff != "" {
				c.Fail("C20.repeatable", "map order", "MakeGlyphNames depends on map iteration order:\n%s", diff)
			}
		})
}

func c10MapOrder(r *run.Run) {
	lists := [][]glyph.ID{{0}, {0, 3}, {0, 4, 2}, {0, 5, 3}, {0, 1, 2, 3}, {0, 5}, {0, 2, 1, 5, 4}}
	r.ExploreSharded(explore.Config{Name: "C10.map-order", Deadline: r.PartDeadline(0.5)},
		mapOrderRule("every 6-glyph font of C10.subset x 7 glyph lists, Subset followed by Write and Read: no panic or error in any order, the listed glyphs, the SET of appended glyphs (their order is not specified) and the characters of the listed glyphs"),
		mapOrderProcs, 0,
		func(c *explore.Ctx) {
			_, diff := underOrders(c, func(cc *explore.Ctx) string {
				f, desc := c10Font(cc)
				li := cc.Choose(len(lists), "glyph list")
				if cc == c {
					c.Sample(func() any { return map[string]any{"font": desc, "glyphs": lists[li]} })
					c.Shard(explore.KeyOf(c.Choices()...))
				}
				var out string
				if p := guard(func() {
					list := lists[li]
					s := f.Subset(list)
					buf := &bytes.Buffer{}
					if _, err := s.Write(buf); err != nil {
						out = "write error " + err.Error()
						return
					}
					g, err := sfnt.Read(bytes.NewReader(buf.Bytes()))
					if err != nil {
						out = "read error " + err.Error()
						return
					}
					// what the property specifies: glyph i of the subset is the listed glyph (advance widths
					// identify the original glyphs in these fonts); the glyphs appended by the closure as a
					// set - their order is not specified; the characters of the listed glyphs
					var listed, appended []float64
					for i := 0; i < g.NumGlyphs(); i++ {
						if i < len(list) {
							listed = append(listed, g.GlyphWidth(glyph.ID(i)))
						} else {
							appended = append(appended, g.GlyphWidth(glyph.ID(i)))
						}
					}
					sort.Float64s(appended)
					chars := ""
					if best, err := g.CMapTable.GetBest(); err == nil && best != nil {
						for _, r := range []rune{'A', 'B', 'f', 'i', 0xFB01, 'a', ' '} {
							if gid := best.Lookup(r); int(gid) < len(list) {
								chars += fmt.Sprintf("%c->%d ", r, gid)
							}
						}
					}
					out = fmt.Sprint(g.NumGlyphs(), listed, appended, chars)
				}); p != "" {
					out = "PANIC " + explore.PanicSignature(p)
				}
				return out
			})
			c.Nontrivial()
			c.Outcome(fmt.Sprint(c.Choices()))
			if diff != "" {
				c.Fail("C10.map-order", "map order", "subsetting (the listed glyphs, the set of appended glyphs, their characters, or whether the subset can be written and read) depends on map iteration order:\n%s", diff)
			}
		})
}

func c15MapOrder(r *run.Run) {
	swMenu := []map[string]bool{nil, {"liga": true, "kern": true, "ss01": true, "cpsp": true}}
	strs := []string{"fi", "ffi", "AB", "fAiB", "ZfiZ"}
	r.ExploreSharded(explore.Config{Name: "C15.map-order", Deadline: r.PartDeadline(0.25)},
		mapOrderRule("every generator font of C15.layout x languages {und,tr} x 2 feature-switch maps: FindLookups for GSUB and GPOS, NewLayouter and Layout on 5 strings"),
		mapOrderProcs, 0,
		func(c *explore.Ctx) {
			_, diff := underOrders(c, func(cc *explore.Ctx) string {
				f, spec := gen.Font(cc, gen.FontOpts{Compact: true, NoMeta: true, GlyphCounts: []int{6}})
				lang := []language.Tag{language.Und, language.Turkish}[cc.Choose(2, "language")]
				sw := swMenu[cc.Choose(len(swMenu), "switches")]
				if cc == c {
					c.Sample(func() any { return map[string]any{"font": spec, "lang": lang.String(), "switches": sw} })
					c.Shard(explore.KeyOf(c.Choices()...))
					if f.CMapTable == nil {
						c.Skip("no cmap")
					}
				}
				out := fmt.Sprint(f.Gsub.FindLookups(lang, sw), f.Gpos.FindLookups(lang, sw))
				lay, err := f.NewLayouter(lang, sw, sw)
				if err != nil {
					return out + " layouter error " + err.Error()
				}
				for _, s := range strs {
					out += " | " + fmtInfos(lay.Layout(s))
				}
				return out
			})
			c.Nontrivial()
			c.Outcome(fmt.Sprint(c.Choices()))
			if diff != "" {
				c.Fail("C15.repeatable", "map order", "feature selection / layout depends on map iteration order:\n%s", diff)
			}
		})
}

// the language systems of C15.findlookups: every subset of four systems, under every seed
func c15MapOrderFind(r *run.Run) {
	tags := c15Tags
	langs := []language.Tag{language.Und, language.English, language.German, language.Turkish, language.Japanese, language.Russian}
	features := []*gtab.Feature{{Tag: "liga", Lookups: []gtab.LookupIndex{2, 0}}, {Tag: "kern", Lookups: []gtab.LookupIndex{1}}, {Tag: "locl", Lookups: []gtab.LookupIndex{3, 3, 1}}, {Tag: "smcp", Lookups: []gtab.LookupIndex{4, 9}}}
	r.ExploreSharded(explore.Config{Name: "C15.map-order-findlookups", Deadline: r.PartDeadline(0.5)},
		mapOrderRule("FindLookups on every script list over the subsets of {DFLT, latn, latn/TRK, latn/DEU, cyrl} x 4 required-feature settings per system x 6 languages"),
		mapOrderProcs, 0,
		func(c *explore.Ctx) {
			_, diff := underOrders(c, func(cc *explore.Ctx) string {
				info := &gtab.Info{ScriptList: gtab.ScriptListInfo{}, FeatureList: features}
				for i := 0; i < 5; i++ {
					info.LookupList = append(info.LookupList, gen.MakeLookup(1, gen.Flags[0], gen.GsubSimple[0].Sub()))
				}
				for i, t := range tags {
					if !cc.Bool("system " + t) {
						continue
					}
					fe := &gtab.Features{Required: []gtab.FeatureIndex{0xFFFF, 0, 2, 77}[cc.Choose(4, "required")]}
					for k := 0; k < 4; k++ {
						if (i+k)%2 == 0 {
							fe.Optional = append(fe.Optional, gtab.FeatureIndex(k))
						}
					}
					info.ScriptList[language.MustParse(t)] = fe
				}
				lang := langs[cc.Choose(len(langs), "language")]
				if cc == c {
					c.Shard(explore.KeyOf(c.Choices()...))
				}
				return fmt.Sprint(info.FindLookups(lang, map[string]bool{"liga": true, "kern": true, "locl": true, "smcp": true}))
			})
			c.Nontrivial()
			c.Outcome(fmt.Sprint(c.Choices()))
			if diff != "" {
				c.Fail("C15.repeatable", "map order", "FindLookups depends on map iteration order:\n%s", diff)
			}
		})
}

// c07MapOrderLayouter: the whole pipeline behind Layouter.Layout (choice of the language system, lookup
// selection, application) under every map iteration order.
func c07MapOrderLayouter(r *run.Run) {
	tags := []string{"und-Zzzz-x-dflt", "und-Latn-x-latn", "tr-Latn-x-latn-trk", "de-Latn-x-latn-deu", "nl-Latn-x-latn-nld"}
	langs := []language.Tag{language.Und, language.English, language.German, language.Turkish, language.French}
	r.ExploreSharded(explore.Config{Name: "C07.map-order-layouter", Deadline: r.PartDeadline(0.3)},
		mapOrderRule("fonts whose GSUB script list holds every subset of {DFLT, latn, latn/TRK, latn/DEU, latn/NLD}, each language system enabling its own single substitution of 'A', laid out through NewLayouter / Layout for 5 languages (incl. languages no system matches exactly)"),
		mapOrderProcs, 0,
		func(c *explore.Ctx) {
			_, diff := underOrders(c, func(cc *explore.Ctx) string {
				f, _ := FontFromChoices(gen.FontOpts{NoMeta: true, NoLayout: true}, gen.KindGlyf, 2, 0, 0, 1)
				info := &gtab.Info{ScriptList: gtab.ScriptListInfo{}}
				for i, t := range tags {
					// language system i substitutes glyph 1 ('A') by glyph 2+i%4
					info.LookupList = append(info.LookupList, gen.MakeLookup(1, gen.Flags[0], []gtab.Subtable{&gtab.Gsub1_2{Cov: coverage.Table{1: 0}, SubstituteGlyphIDs: []glyph.ID{glyph.ID(2 + i%4)}}}))
					info.FeatureList = append(info.FeatureList, &gtab.Feature{Tag: "locl", Lookups: []gtab.LookupIndex{gtab.LookupIndex(i)}})
					if cc.Bool("system " + t) {
						info.ScriptList[language.MustParse(t)] = &gtab.Features{Required: 0xFFFF, Optional: []gtab.FeatureIndex{gtab.FeatureIndex(i)}}
					}
				}
				f.Gsub = info
				lang := langs[cc.Choose(len(langs), "language")]
				if cc == c {
					c.Shard(explore.KeyOf(c.Choices()...))
				}
				lay, err := f.NewLayouter(lang, map[string]bool{"locl": true}, nil)
				if err != nil {
					return "error " + err.Error()
				}
				return fmtInfos(lay.Layout("AAB"))
			})
			c.Nontrivial()
			c.Outcome(fmt.Sprint(c.Choices()))
			if diff != "" {
				c.Fail("C07.map-order", "layouter", "what Layout returns depends on map iteration order (choices %v):\n%s", c.Choices(), diff)
			}
		})
}

func c07MapOrder(r *run.Run) {
	alphabet := []glyph.ID{gen.GA, gen.GB, gen.GM}
	for _, gpos := range []bool{false, true} {
		name := "C07.map-order-gsub"
		if gpos {
			name = "C07.map-order-gpos"
		}
		gpos := gpos
		r.ExploreSharded(explore.Config{Name: name, Bound: 1, Deadline: r.PartDeadline(0.3)},
			mapOrderRule("generator lookup lists (deviation bound 1, as in C07.structures) applied to all sequences of length <= 3 over {A,B,M}"),
			mapOrderProcs, 0,
			func(c *explore.Ctx) {
				_, diff := underOrders(c, func(cc *explore.Ctx) string {
					ll, gd, spec := gen.Nested(cc, gpos)
					if cc == c {
						c.Sample(func() any { return map[string]any{"lists": spec.Desc, "gdef": spec.Gdef} })
						c.Shard(explore.KeyOf(c.Choices()...))
					}
					out := ""
					gen.Sequences(alphabet, 3, func(g []glyph.ID) bool {
						out += fmtInfos(gtab.NewContext(ll, gd, spec.Applied).Apply(seqWithText(g))) + ";"
						return true
					})
					return fmt.Sprintf("sha1 %x", sha1.Sum([]byte(out)))
				})
				c.Nontrivial()
				c.Outcome(fmt.Sprint(c.Choices()))
				if diff != "" {
					c.Fail("C07.map-order", "map order", "the result of applying lookups depends on map iteration order:\n%s", diff)
				}
			})
	}
}
