package harness

import (
	"bufio"
	"bytes"
	"fmt"
	"os"
	"os/exec"
	"path/filepath"
	"strings"
	"time"

	"verif/explore"
	"verif/run"
)

// racePass runs a free-running -race binary (protocol: MARK / MISMATCH / LEAK /
// HANG / DONE lines on stderr, race detector reports in between) and turns its
// output into an evidence part.  clauseOf maps a line kind to the clause name.
func racePass(r *run.Run, prop, binName string, args []string, engine, rule string) {
	bin := filepath.Join(os.Getenv("VERIF_BUILD"), binName)
	if _, err := os.Stat(bin); err != nil {
		explore.Fatal("%s: %s not built (the check script builds it with -race): %v", prop, bin, err)
	}
	start := time.Now()
	name := prop + ".race"
	p := &run.Part{Name: name, Engine: engine, Rule: rule, Exhaustive: true}
	var viol []*explore.Violation
	var samples []any
	var herr []string
	seen := map[string]bool{}
	cmd := exec.Command(bin, args...)
	cmd.Env = append(os.Environ(), "GORACE=halt_on_error=0 history_size=3")
	var stderr bytes.Buffer
	cmd.Stderr = &stderr
	cmd.Stdout = &stderr
	err := cmd.Run()
	mark := ""
	done := false
	var raceText []string
	sc := bufio.NewScanner(&stderr)
	sc.Buffer(make([]byte, 1<<20), 1<<22)
	inRace := false
	add := func(clause, sig, msg string) {
		key := clause + "\x00" + sig
		if !seen[key] {
			seen[key] = true
			viol = append(viol, &explore.Violation{Failure: explore.Failure{Clause: clause, Sig: sig, Msg: msg, Observed: true}, Harness: name, Case: mark, Count: 1})
		}
	}
	flush := func() {
		if len(raceText) > 0 {
			add(prop+".race", raceSig(raceText), "data race during {"+mark+"}:\n"+strings.Join(raceText[:min(len(raceText), 30)], "\n"))
			raceText = nil
		}
	}
	for sc.Scan() {
		line := sc.Text()
		switch {
		case strings.HasPrefix(line, "MARK "):
			flush()
			inRace = false
			mark = strings.TrimPrefix(line, "MARK ")
			p.States++
			if len(samples) < 4 {
				samples = append(samples, mark)
			}
		case strings.HasPrefix(line, "MISMATCH "):
			add(prop+".schedule-dependent", "free-running result differs", strings.TrimPrefix(line, "MISMATCH "))
		case strings.HasPrefix(line, "LEAK "):
			add(prop+".leak", "free-running", strings.TrimPrefix(line, "LEAK "))
		case strings.HasPrefix(line, "HANG "):
			add(prop+".terminates", "free-running", strings.TrimPrefix(line, "HANG "))
		case strings.HasPrefix(line, "DONE "):
			done = true
			fmt.Sscan(strings.TrimPrefix(line, "DONE "), &p.Executions)
		case strings.HasPrefix(line, "WARNING: DATA RACE"):
			flush()
			inRace = true
			raceText = []string{line}
		case strings.HasPrefix(line, "=================="):
			if inRace && len(raceText) > 1 {
				flush()
				inRace = false
			}
		default:
			if inRace {
				raceText = append(raceText, line)
			}
		}
	}
	flush()
	if !done {
		herr = append(herr, fmt.Sprintf("%s: race binary did not finish: %v\n%s", name, err, tail(stderr.String(), 2000)))
	}
	p.Transitions = p.Executions
	p.DistinctOutcomes, p.Nontrivial, p.DistinctNontriv = p.States, p.Executions, p.States
	p.WallS = time.Since(start).Seconds()
	r.AddPart(p, samples, viol, herr, nil)
}

func tail(s string, n int) string {
	if len(s) > n {
		return s[len(s)-n:]
	}
	return s
}
