package harness

import (
	"bytes"
	"errors"
	"fmt"
	"io"
	"seehuhn.de/go/postscript/funit"
	"seehuhn.de/go/sfnt/cff"
	"sort"
	"sync"
	"time"
	"verif/refcff"
	"verif/refsfnt"

	"golang.org/x/image/font/gofont/goregular"

	"seehuhn.de/go/sfnt"
	"seehuhn.de/go/sfnt/glyf"
	"seehuhn.de/go/sfnt/header"

	"verif/explore"
	"verif/gen"
	"verif/run"
)

// C18: I/O faults and truncation surface as errors with accurate byte counts.

var errInjected = errors.New("verif: injected I/O fault")

// faultWriter accepts k bytes.  short=false: the first call that does not fit
// is rejected as a whole (n=0); short=true: it accepts the part that fits.
type faultWriter struct {
	k        int
	short    bool
	err      error // the error reported (errInjected if nil)
	accepted int
	failed   bool
	calls    int
	// quota: a destination with room for k bytes: every write that fits succeeds (also an empty one,
	// also after a write that did not fit), every other write fails
	quota bool
}

func (w *faultWriter) Write(p []byte) (int, error) {
	w.calls++
	errInjected := errInjected
	if w.err != nil {
		errInjected = w.err
	}
	if w.failed && !w.quota {
		return 0, errInjected
	}
	if w.accepted+len(p) <= w.k {
		w.accepted += len(p)
		return len(p), nil
	}
	w.failed = true
	n := 0
	if w.short {
		n = w.k - w.accepted
	}
	w.accepted += n
	return n, errInjected
}

// faultReaderAt answers every access touching offset >= k with an error.
type faultReaderAt struct {
	data     []byte
	k        int
	partial  bool
	injected bool
}

func (r *faultReaderAt) ReadAt(p []byte, off int64) (int, error) {
	if off < 0 {
		return 0, errors.New("negative offset")
	}
	if off >= int64(len(r.data)) {
		if int64(r.k) <= off && r.k < len(r.data) {
			r.injected = true
			return 0, errInjected
		}
		return 0, io.EOF
	}
	end := off + int64(len(p))
	if end > int64(r.k) && r.k < len(r.data) && len(p) > 0 {
		r.injected = true
		n := 0
		if r.partial && int64(r.k) > off {
			n = copy(p, r.data[off:r.k])
		}
		return n, errInjected
	}
	n := copy(p, r.data[off:])
	if n < len(p) {
		return n, io.EOF
	}
	return n, nil
}

// Read is only there to satisfy io.Reader; sfnt.Read uses ReadAt when available.
func (r *faultReaderAt) Read(p []byte) (int, error) {
	r.injected = true
	return 0, errInjected
}

// plainReader hides ReadAt; after k bytes it fails (fail=true) or reports EOF.
type plainReader struct {
	data     []byte
	k        int
	off      int
	fail     bool
	injected bool
}

func (r *plainReader) Read(p []byte) (int, error) {
	lim := min(r.k, len(r.data))
	if r.off >= lim {
		if r.fail {
			r.injected = true
			return 0, errInjected
		}
		return 0, io.EOF
	}
	n := copy(p, r.data[r.off:lim])
	r.off += n
	return n, nil
}

type c18Font struct {
	name string
	font *sfnt.Font
	file []byte
	end  int // end of the last table's data
	// large: the file is too long for every fault point to be tried; the fault points are the table and
	// 64 KiB boundaries (+-1) of the output, see c18Points
	large bool
}

// c18Points: the fault points tried for a large output: 0..16, every multiple of 64 KiB and the start and end of
// every table (each with its two neighbours), the last 16 offsets and the length itself.
func c18Points(out []byte) []int {
	set := map[int]bool{}
	add := func(k int) {
		for _, d := range []int{-1, 0, 1} {
			if k+d >= 0 && k+d <= len(out) {
				set[k+d] = true
			}
		}
	}
	for k := 0; k <= 16; k++ {
		add(k)
		add(len(out) - k)
	}
	for k := 0; k <= len(out); k += 1 << 16 {
		add(k)
	}
	if cont, err := refsfnt.Walk(out); err == nil {
		for _, rec := range cont.Records {
			add(int(rec.Offset))
			add(int(rec.Offset + rec.Length))
		}
	}
	var pts []int
	for k := range set {
		pts = append(pts, k)
	}
	sort.Ints(pts)
	return pts
}

var (
	c18Once   sync.Once
	c18Corpus []*c18Font
)

func tableEnd(file []byte) int {
	dir, err := header.Read(bytes.NewReader(file))
	if err != nil {
		panic(err)
	}
	end := 0
	for _, rec := range dir.Toc {
		end = max(end, int(rec.Offset+rec.Length))
	}
	return end
}

// FontFromChoices builds a generator font from a fixed choice sequence.
func FontFromChoices(o gen.FontOpts, choices ...int) (*sfnt.Font, *gen.FontSpec) {
	var f *sfnt.Font
	var s *gen.FontSpec
	_, pm := explore.Exec(func(c *explore.Ctx) { f, s = gen.Font(c, o) }, choices, false)
	if pm != "" {
		panic(pm)
	}
	return f, s
}

func c18Fonts(thorough bool) []*c18Font {
	c18Once.Do(func() {
		add := func(name string, f *sfnt.Font) {
			buf := &bytes.Buffer{}
			_, err := f.Write(buf) // (the count reported here is judged by the part itself)
			if err != nil {
				explore.Fatal("C18 corpus: cannot write %s: len=%d err=%v", name, buf.Len(), err)
			}
			c18Corpus = append(c18Corpus, &c18Font{name: name, font: f, file: buf.Bytes(), end: tableEnd(buf.Bytes())})
		}
		// kind, glyph count index 2 (6 glyphs), shape rotation 1, ...
		g, _ := FontFromChoices(gen.FontOpts{NoMeta: true}, 0, 2, 1, 1, 1, 2, 1, 2)
		add("glyf-6", g)
		// a font whose physically last table is raw data no decoder looks into (gasp)
		g2, _ := FontFromChoices(gen.FontOpts{NoMeta: true, NoLayout: true}, 0, 1, 2, 2, 1)
		g2.Outlines.(*glyf.Outlines).Tables = map[string][]byte{"gasp": {0, 1, 0, 1, 0xFF, 0xFF, 0, 3}, "cvt ": {0, 1, 0, 2, 0, 3}}
		add("glyf-3-gasp-last", g2)
		// ... and one whose physically last table is empty (a zero-length placeholder table), behind raw data
		g3, _ := FontFromChoices(gen.FontOpts{NoMeta: true, NoLayout: true}, 0, 1, 2, 2, 1)
		g3.Outlines.(*glyf.Outlines).Tables = map[string][]byte{"gasp": {0, 1, 0, 1, 0xFF, 0xFF, 0, 3}, "zzzz": {}}
		add("glyf-3-empty-last", g3)
		// ... and one whose physically last table is a private table the reader never looks into
		g4, _ := FontFromChoices(gen.FontOpts{NoMeta: true, NoLayout: true}, 0, 1, 2, 2, 1)
		g4.Outlines.(*glyf.Outlines).Tables = map[string][]byte{"gasp": {0, 1, 0, 1, 0xFF, 0xFF, 0, 3}, "zzzz": {1, 2, 3, 4, 5, 6, 7, 8, 9, 10, 11, 12, 13}}
		add("glyf-3-private-last", g4)
		cf, _ := FontFromChoices(gen.FontOpts{NoMeta: true}, 1, 2, 1, 1, 2, 1, 3, 1)
		add("cff-6", cf)
		ci, _ := FontFromChoices(gen.FontOpts{NoMeta: true}, 2, 2, 2, 1, 1, 3, 2, 1, 0)
		add("cid-6", ci)
		// a font with a table of more than 2 MiB (36 glyphs with 60000 bytes of instructions each)
		big, _ := FontFromChoices(gen.FontOpts{NoMeta: true, NoLayout: true}, 0, 1, 2, 2, 1)
		bo := *big.Outlines.(*glyf.Outlines)
		bo.Glyphs = append(glyf.Glyphs{}, bo.Glyphs...)
		bo.Widths = append([]funit.Int16{}, bo.Widths...)
		bo.Names = nil
		for i := 0; i < 36; i++ {
			body := append([]byte{0, 0, 60000 >> 8, 60000 & 0xFF}, make([]byte, 60000)...)
			bo.Glyphs = append(bo.Glyphs, &glyf.Glyph{Rect16: funit.Rect16{URx: 10, URy: 10}, Data: glyf.SimpleGlyph{NumContours: 1, Encoded: append(body, 0x31)}})
			bo.Widths = append(bo.Widths, funit.Int16(500+i))
		}
		big.Outlines = &bo
		add("glyf-large", big)
		c18Corpus[len(c18Corpus)-1].large = true
	})
	if thorough && len(c18Corpus) == 7 {
		f, err := sfnt.Read(bytes.NewReader(goregular.TTF))
		if err != nil {
			explore.Fatal("C18: go regular: %v", err)
		}
		c18Corpus = append(c18Corpus, &c18Font{name: "goregular", font: f, file: goregular.TTF, end: tableEnd(goregular.TTF)})
	}
	return c18Corpus
}

var c18Modes = []string{
	"Write/reject", "Write/short",
	"WritePDF/reject", "WritePDF/short",
	"cff.Write/reject", "cff.Write/short",
	"truncate/ReaderAt", "truncate/Reader",
	"fault/ReaderAt", "fault/ReaderAt-partial", "fault/Reader",
	// a destination whose failure is reported as io.ErrShortWrite, persistently (a sink with a quota, a
	// bufio.Writer after a short write underneath)
	"Write/ErrShortWrite", "WritePDF/ErrShortWrite", "cff.Write/ErrShortWrite",
	// bare CFF data (as embedded in PDF files), cut short / read through a source that starts failing
	"cff.Read/truncated", "cff.Read/fault",
	// a destination with a quota of k bytes (a write that fits succeeds, also an empty one after a failure)
	"Write/quota", "WritePDF/quota", "cff.Write/quota",
}

// seekFaultReader is a seekable source of known size that fails (not with EOF) on any read touching offset >= k.
type seekFaultReader struct {
	data     []byte
	k        int
	pos      int64
	injected bool
}

func (r *seekFaultReader) Size() int64 { return int64(len(r.data)) }
func (r *seekFaultReader) Seek(off int64, whence int) (int64, error) {
	switch whence {
	case io.SeekCurrent:
		off += r.pos
	case io.SeekEnd:
		off += int64(len(r.data))
	}
	if off < 0 {
		return r.pos, errors.New("negative position")
	}
	r.pos = off
	return off, nil
}
func (r *seekFaultReader) Read(p []byte) (int, error) {
	if r.pos >= int64(len(r.data)) {
		return 0, io.EOF
	}
	if len(p) == 0 {
		return 0, nil
	}
	lim := int64(min(r.k, len(r.data)))
	if r.pos >= lim {
		r.injected = true
		return 0, errInjected
	}
	n := copy(p, r.data[r.pos:lim])
	r.pos += int64(n)
	return n, nil
}

func init() {
	Register("C18", func(r *run.Run) {
		r.Level = "fault_enumeration"
		r.Rule = "every fault point k in 0..len(file) x every fault mode x corpus font; non-trivial = the fault was actually hit (the destination/source returned the injected error or the file was cut inside table data); distinct = distinct (font, mode, outcome) digests"
		r.Assume = []string{
			"writers fail permanently once they have failed; short writes are reported together with an error (io.Writer contract)",
			"corpus: generated glyf, CFF and CID-keyed fonts (quick), plus Go Regular (thorough)",
			"for the one large font (a glyf table of more than 2 MiB) the fault points are the table and 64 KiB boundaries with their neighbours and the first and last 16 offsets, not every offset",
		}
		fonts := c18Fonts(!r.Quick())
		r.Explore(explore.Config{Name: "C18.faults"}, "font x mode x fault offset, all uniform", func(c *explore.Ctx) {
			fi := c.Choose(len(fonts), "font")
			fo := fonts[fi]
			mode := c.Choose(len(c18Modes), "mode")
			mname := c18Modes[mode]
			var werr error
			if mode >= 11 && mode <= 13 {
				mode, werr = []int{1, 3, 5}[mode-11], io.ErrShortWrite
			}
			quota := false
			if mode >= 16 && mode <= 18 {
				mode, quota = []int{0, 2, 4}[mode-16], true
			}
			isCFF := fo.font.IsCFF()
			// reference output for the write modes
			var ref []byte
			switch mode {
			case 0, 1:
				ref = fo.file
			case 2, 3:
				buf := &bytes.Buffer{}
				if isCFF {
					if err := fo.font.WriteOpenTypeCFFPDF(buf); err != nil {
						c.Fail("C18.write-ok", mname, "fault-free WriteOpenTypeCFFPDF failed: %v", err)
						return
					}
				} else {
					if _, err := fo.font.WriteTrueTypePDF(buf); err != nil {
						c.Fail("C18.write-ok", mname, "fault-free WriteTrueTypePDF failed: %v", err)
						return
					}
				}
				ref = buf.Bytes()
			case 4, 5, 14, 15:
				if !isCFF {
					c.Skip("cff.Write on a glyf font")
				}
				buf := &bytes.Buffer{}
				if err := fo.font.AsCFF().Write(buf); err != nil {
					c.Fail("C18.write-ok", mname, "fault-free cff.Write failed: %v", err)
					return
				}
				ref = buf.Bytes()
				if mode >= 14 && fo.name == "cid-6" && c.Bool("the encoding is the last section") {
					// ... or in the built-in encoding of a simple font (every section is found through its offset)
					fo = &c18Font{name: "assembled CFF data ending in a custom encoding", font: fo.font}
					mk := func(encAt int) []byte {
						return refcff.Assemble(&refcff.AsmSpec{Name: "Other", CharStrings: [][]byte{{14}, {239, 139, 21, 189, 189, 5, 14}, {14}}, GlyphNames: []string{"A", "B"},
							TopExtra: refcff.DictEntry(16, encAt), Privates: []refcff.AsmPrivate{{DefaultWidthX: 500}}})
					}
					n := len(mk(50))
					for i := 0; i < 4 && len(mk(n)) != n; i++ {
						n = len(mk(n)) // (the size of the operand depends on its value)
					}
					if len(mk(n)) != n {
						explore.Fatal("C18: no fixed point for the offset of the encoding (%d bytes)", n)
					}
					ref = append(mk(n), 0, 2, 65, 66) // format 0: two codes, 'A' and 'B'
				} else if mode >= 14 && fo.name == "cid-6" {
					fo = &c18Font{name: "assembled CFF data ending in four local subroutines", font: fo.font}
					// (in place of a second font written by the library:) CFF data as other producers lay it
					// out, ending in a non-empty INDEX (local subroutines no glyph calls)
					ref = refcff.Assemble(&refcff.AsmSpec{Name: "Other", CharStrings: [][]byte{{14}, {239, 139, 21, 189, 189, 5, 14}}, GlyphNames: []string{"A"},
						Privates: []refcff.AsmPrivate{{DefaultWidthX: 500, LocalSubrs: [][]byte{{11}, {139, 11}, {189, 189, 5, 11}, {11}}}}})
				}
			default:
				ref = fo.file
			}
			var k int
			if fo.large {
				pts := c18Points(ref)
				k = pts[c.Choose(len(pts), "fault offset (table and 64 KiB boundaries)")]
			} else {
				k = c.Choose(len(ref)+1, "fault offset")
			}
			c.Sample(func() any {
				return map[string]any{"font": fo.name, "mode": mname, "fault_offset": k, "file_len": len(ref)}
			})
			sig := mname
			switch mode {
			case 0, 1, 2, 3, 4, 5:
				w := &faultWriter{k: k, short: mode%2 == 1, err: werr, quota: quota}
				var n int64 = -1
				var err error
				fin, pmsg := withWatchdog(20*time.Second, func() {
					switch mode {
					case 0, 1:
						n, err = fo.font.Write(w)
					case 2, 3:
						if isCFF {
							err = fo.font.WriteOpenTypeCFFPDF(w)
						} else {
							n, err = fo.font.WriteTrueTypePDF(w)
						}
					default:
						err = fo.font.AsCFF().Write(w)
					}
				})
				if !fin {
					c.FailObserved("C18.terminates", sig, "%s on %s: the write does not return within 20 s when the destination fails after %d bytes", mname, fo.name, k)
					return
				}
				if pmsg != "" {
					c.Fail("C18.panic", sig+" / "+explore.PanicSignature(pmsg), "%s on %s: the write panics when the destination fails after %d bytes: %s", mname, fo.name, k, pmsg)
					return
				}
				if w.failed {
					c.Nontrivial()
					if err == nil {
						c.Fail("C18.write-err", sig, "%s on %s: destination failed after %d bytes but the write returned a nil error (n=%d)", mname, fo.name, w.accepted, n)
					}
					if n >= 0 && n != int64(w.accepted) {
						c.Fail("C18.write-count", sig, "%s on %s: destination accepted %d bytes, write reported %d (fault offset %d, err=%v)", mname, fo.name, w.accepted, n, k, err)
					}
				} else {
					if err != nil {
						c.Fail("C18.write-ok", sig, "%s on %s: destination accepted everything but write returned %v", mname, fo.name, err)
					}
					if n >= 0 && n != int64(len(ref)) {
						c.Fail("C18.write-count", sig, "%s on %s: success with count %d, file length %d", mname, fo.name, n, len(ref))
					}
					if w.accepted != len(ref) {
						c.Fail("C18.write-count", sig, "%s on %s: %d bytes written, reference output has %d", mname, fo.name, w.accepted, len(ref))
					}
				}
				c.Outcome(fi, mode, w.failed, err != nil, n == int64(w.accepted), w.calls)
			case 6, 7:
				var rd io.Reader
				if mode == 6 {
					rd = bytes.NewReader(ref[:k])
				} else {
					rd = &plainReader{data: ref, k: k}
				}
				f, err := sfnt.Read(rd)
				if k < fo.end {
					c.Nontrivial()
					if err == nil {
						c.Fail("C18.truncated", sig, "%s: %s truncated to %d of %d bytes (table data ends at %d) was accepted", mname, fo.name, k, len(ref), fo.end)
					}
				} else if err != nil {
					// cut inside the trailing padding: the property does not say; nothing to check
					c.Tag("truncated-in-padding-rejected")
				}
				c.Outcome(fi, mode, err != nil, f != nil, errClass(err))
			case 8, 9:
				ra := &faultReaderAt{data: ref, k: k, partial: mode == 9}
				_, err := sfnt.Read(ra)
				if ra.injected {
					c.Nontrivial()
					if err == nil {
						c.Fail("C18.read-fault", sig, "%s: %s with reader failing from offset %d: an access was answered with the injected error but Read succeeded", mname, fo.name, k)
					}
				} else if err != nil {
					c.Fail("C18.read-ok", sig, "%s: %s: no fault was hit (k=%d) but Read failed: %v", mname, fo.name, k, err)
				}
				c.Outcome(fi, mode, ra.injected, err != nil, errClass(err))
			case 14:
				var err error
				pmsg := guard(func() { _, err = cff.Read(bytes.NewReader(ref[:k])) })
				if pmsg != "" {
					c.Fail("C18.panic", sig+" / "+explore.PanicSignature(pmsg), "%s: %s cut to %d of %d bytes: cff.Read panics: %s", mname, fo.name, k, len(ref), pmsg)
					return
				}
				if k < len(ref) {
					c.Nontrivial()
					if err == nil {
						c.Fail("C18.truncated", sig, "%s: the CFF data of %s truncated to %d of %d bytes was accepted", mname, fo.name, k, len(ref))
					}
				} else if err != nil {
					c.Fail("C18.read-ok", sig, "%s: %s: complete data but cff.Read failed: %v", mname, fo.name, err)
				}
				c.Outcome(fi, mode, err != nil, errClass(err))
			case 15:
				sr := &seekFaultReader{data: ref, k: k}
				var err error
				pmsg := guard(func() { _, err = cff.Read(sr) })
				if pmsg != "" {
					c.Fail("C18.panic", sig+" / "+explore.PanicSignature(pmsg), "%s: %s with the source failing from offset %d: cff.Read panics: %s", mname, fo.name, k, pmsg)
					return
				}
				if sr.injected {
					c.Nontrivial()
					if err == nil {
						c.Fail("C18.read-fault", sig, "%s: %s with the source failing from offset %d: a read was answered with the injected error but cff.Read succeeded", mname, fo.name, k)
					}
				} else if err != nil {
					c.Fail("C18.read-ok", sig, "%s: %s: no fault was hit (k=%d) but cff.Read failed: %v", mname, fo.name, k, err)
				}
				c.Outcome(fi, mode, sr.injected, err != nil, errClass(err))
			case 10:
				pr := &plainReader{data: ref, k: k, fail: true}
				_, err := sfnt.Read(pr)
				if pr.injected {
					c.Nontrivial()
					if err == nil {
						c.Fail("C18.read-fault", sig, "%s: %s with stream failing after %d bytes: Read succeeded", mname, fo.name, k)
					}
				}
				c.Outcome(fi, mode, pr.injected, err != nil, errClass(err))
			}
		})
	})
}

func errClass(err error) string {
	if err == nil {
		return "nil"
	}
	s := err.Error()
	if len(s) > 40 {
		s = s[:40]
	}
	return fmt.Sprintf("%T:%s", err, s)
}
