// Package harness holds the per-property harnesses.
package harness

import (
	"sort"

	"verif/run"
)

// Func runs all parts of one property's check.
type Func func(r *run.Run)

var registry = map[string]Func{}

// Register adds a property harness.
func Register(id string, f Func) { registry[id] = f }

// Get returns the harness for a property.
func Get(id string) Func { return registry[id] }

// IDs lists the registered properties.
func IDs() []string {
	var ids []string
	for k := range registry {
		ids = append(ids, k)
	}
	sort.Strings(ids)
	return ids
}
