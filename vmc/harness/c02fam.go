package harness

import (
	"encoding/binary"
	"fmt"
	"time"

	"seehuhn.de/go/sfnt"

	"verif/explore"
	"verif/refcff"
	"verif/run"
)

// Amplification families of C02: hand-derived from the loop structure of each
// decoder - a count field is scaled up while the data it refers to is shared
// or overlapping, so that the work a naive decoder does grows faster than the
// input.  Each family is run at growing scale k; the step and allocation
// counters must stay within the linear bound, and the steps per input byte
// must not grow with the scale.

type c02Family struct {
	name   string
	dec    string
	gen    func(k int) []byte
	scales []int
}

func be32(v int) []byte { return binary.BigEndian.AppendUint32(nil, uint32(v)) }

func c02PredefinedCharset(which int) func(k int) []byte {
	return func(k int) []byte {
		cs := make([][]byte, k)
		for i := range cs {
			cs[i] = []byte{14}
		}
		return refcff.Assemble(&refcff.AsmSpec{Name: "Pre", CharStrings: cs, Predefined: which, Privates: []refcff.AsmPrivate{{}}})
	}
}

var c02PredefinedCounts = []int{1, 86, 87, 88, 89, 165, 166, 167, 168, 228, 229, 230, 231, 400}

// c02ScriptListShared: k script records that all point at one script table, whose k language system records
// all point at one language system table with k feature indices: 14k bytes that decode to k^3 entries.
func c02ScriptListShared(k int) []byte {
	lookupList := append(be16(1, 4, 1, 0, 1, 8), append(be16(1, 6, 1), be16(1, 1, 1)...)...)
	featureList := append(append(be16(1), 't', 'e', 's', 't'), be16(8, 0, 1, 0)...)
	scriptList := be16(k)
	scriptAt := 2 + 6*k
	for i := 0; i < k; i++ {
		scriptList = append(append(scriptList, 'l', 'a', 't', 'n'), be16(scriptAt)...)
	}
	langSysAt := 4 + 6*k
	scriptList = append(scriptList, be16(0, k)...)
	for i := 0; i < k; i++ {
		scriptList = append(append(scriptList, 'D', 'E', 'U', ' '), be16(langSysAt)...)
	}
	scriptList = append(scriptList, be16(0, 0xFFFF, k)...)
	scriptList = append(scriptList, make([]byte, 2*k)...) // k times feature index 0
	out := be16(1, 0, 10, 10+len(scriptList), 10+len(scriptList)+len(featureList))
	return append(append(append(out, scriptList...), featureList...), lookupList...)
}

var c02Families = []c02Family{
	{"GPOS: pair adjustment format 2 without any value (both value formats 0) and k x k classes: the class records take no bytes", "gtab.Read/GPOS",
		func(k int) []byte {
			// subtable: format 2, coverage offset, value formats 0 / 0, class definition offsets, class counts
			sub := be16(2, 16, 0, 0, 22, 22, k, k)
			sub = append(sub, be16(1, 1, 1)...)    // coverage: glyph 1
			sub = append(sub, be16(1, 1, 1, 1)...) // class definition format 1: glyph 1 has class 1
			return c02GtabWrap(2, sub)
		}, []int{16, 100, 255, 1000, 6000}},
	{"classdef: format 2 with k pairs of ranges (1..0xFFFE), (0xFFFF..0): the second range of a pair ends before it starts and takes the end of the previous range back to glyph 0", "classdef.Read",
		func(k int) []byte {
			out := be16(2, 2*k)
			for i := 0; i < k; i++ {
				out = append(out, be16(1, 0xFFFE, 1, 0xFFFF, 0, 1)...)
			}
			return out
		}, []int{4, 16, 64, 256, 1024}},
	{"GSUB: k script records sharing one script table whose k language system records share one language system with k feature indices (k^3 entries from 14k bytes)", "gtab.Read/GSUB", c02ScriptListShared, []int{25, 50, 100, 200, 400}},
	{"CFF: a simple font that uses the predefined ISOAdobe charset (229 names) and has k glyphs", "cff.Read", c02PredefinedCharset(1), c02PredefinedCounts},
	{"CFF: a simple font that uses the predefined Expert charset (166 names) and has k glyphs", "cff.Read", c02PredefinedCharset(2), c02PredefinedCounts},
	{"CFF: a simple font that uses the predefined ExpertSubset charset (87 names) and has k glyphs", "cff.Read", c02PredefinedCharset(3), c02PredefinedCounts},
	{"kern: k subtables of the minimal length 14 whose pair arrays (64k pairs each) overlap the following subtables", "kern.Read",
		func(k int) []byte {
			p := min(65535, 64*k)
			out := be16(0, k)
			for i := 0; i < k; i++ {
				out = append(out, be16(0, 14, 0x0001, p, 0, 0, 0)...)
			}
			return append(out, make([]byte, 6*p+16)...)
		}, []int{4, 16, 64, 256}},
	{"kern: k subtables of the minimal length 14 with 32768 pairs each (6*nPairs is a multiple of 65536), pair arrays overlapping the following subtables", "kern.Read",
		func(k int) []byte { return c02KernWrap(k, 32768) }, []int{4, 16, 64, 256, 1024}},
	{"kern: k subtables of the minimal length 14 with 21846 pairs each (6*nPairs = 2*65536 + 4), pair arrays overlapping the following subtables", "kern.Read",
		func(k int) []byte { return c02KernWrap(k, 21846) }, []int{4, 16, 64, 256, 1024}},
	{"kern: k subtables of the minimal length 14 with 10923 pairs each (6*nPairs = 65536 + 2), pair arrays overlapping the following subtables", "kern.Read",
		func(k int) []byte { return c02KernWrap(k, 10923) }, []int{4, 16, 64, 256, 1024}},
	{"CFF: charstring calling a tree of local subroutines, depth 9, fan-out k (k^9 calls from 9(2k+1) bytes)", "cff.Read",
		func(k int) []byte {
			call := func(idx int) []byte { return []byte{byte(idx - 107 + 139), 10} }
			var subrs [][]byte
			for lvl := 0; lvl < 8; lvl++ {
				var s []byte
				for j := 0; j < k; j++ {
					s = append(s, call(lvl+1)...)
				}
				subrs = append(subrs, append(s, 11))
			}
			subrs = append(subrs, []byte{11})
			var g []byte
			for j := 0; j < k; j++ {
				g = append(g, call(0)...)
			}
			g = append(g, 14)
			return refcff.Assemble(&refcff.AsmSpec{Name: "Amp", CharStrings: [][]byte{{14}, g}, GlyphNames: []string{"A"}, Privates: []refcff.AsmPrivate{{LocalSubrs: subrs}}})
		}, []int{1, 2, 3, 4, 6, 8}},
	{"CFF: a well-formed Private DICT of 3k bytes (k repeated BlueFuzz entries; the last one counts)", "cff.Read",
		func(k int) []byte {
			var extra []byte
			for i := 0; i < k; i++ {
				extra = append(extra, refcff.DictEntry(1211, 1+i%3)...) // BlueFuzz
			}
			return refcff.Assemble(&refcff.AsmSpec{Name: "BigPriv", CharStrings: [][]byte{{14}, {14}}, GlyphNames: []string{"A"}, Privates: []refcff.AsmPrivate{{Extra: extra}}})
		}, []int{4, 64, 340, 342, 1000, 20000}},
	{"CFF: the Private operator declares a DICT of 1024*k*k bytes in a file of a few dozen bytes", "cff.Read",
		func(k int) []byte {
			return refcff.Assemble(&refcff.AsmSpec{Name: "Big", CharStrings: [][]byte{{14}, {14}}, GlyphNames: []string{"A"}, Privates: []refcff.AsmPrivate{{}}, PrivateSize: 1024 * k * k})
		}, []int{1, 4, 32, 256, 1024}},
	{"CFF (CID-keyed): the Private operator of a Font DICT declares a DICT of 1024*k*k bytes", "cff.Read",
		func(k int) []byte {
			return refcff.Assemble(&refcff.AsmSpec{Name: "Big", CID: true, CharStrings: [][]byte{{14}, {14}}, Privates: []refcff.AsmPrivate{{}}, FDSelect: []int{0, 0}, PrivateSize: 1024 * k * k})
		}, []int{1, 4, 32, 256, 1024}},
	{"name: k records that all refer to one shared string of 64k bytes", "name.Decode",
		func(k int) []byte {
			l := min(65534, 64*k)
			out := be16(0, k, 6+12*k)
			for i := 0; i < k; i++ {
				out = append(out, be16(3, 1, 0x409, i%26, l, 0)...)
			}
			for i := 0; i < l/2; i++ {
				out = append(out, 0, 'A')
			}
			return out
		}, []int{4, 16, 64, 256, 1024}},
	{"name: k records with distinct language ids that all refer to one shared string", "name.Decode",
		func(k int) []byte {
			l := min(65534, 64*k)
			out := be16(0, k, 6+12*k)
			for i := 0; i < k; i++ {
				out = append(out, be16(3, 1, 0x401+i*0x400, 1, l, 0)...)
			}
			for i := 0; i < l/2; i++ {
				out = append(out, 0, 'A')
			}
			return out
		}, []int{4, 16, 64}},
	{"GSUB: lookup list of k offsets that all point at one lookup whose subtable covers 16k glyphs", "gtab.Read/GSUB",
		func(k int) []byte {
			n := min(65000, 16*k)
			out := be16(1, 0, 10, 12, 14) // header: script list, feature list, lookup list
			out = append(out, be16(0)...) // script list: no scripts
			out = append(out, be16(0)...) // feature list: no features
			out = append(out, be16(k)...)
			for i := 0; i < k; i++ {
				out = append(out, be16(2+2*k)...)
			}
			out = append(out, be16(1, 0, 1, 8)...)  // lookup: type 1, one subtable
			out = append(out, be16(2, 6+2*n, n)...) // single substitution format 2
			for i := 0; i < n; i++ {
				out = append(out, be16(i+2)...)
			}
			return append(out, be16(2, 1, 1, n, 0)...) // coverage format 2: glyphs 1..n
		}, []int{4, 16, 64, 256, 1024}},
	{"GDEF: k mark glyph sets that all point at one coverage table of 16k glyphs", "gdef.Read",
		func(k int) []byte {
			n := min(65000, 16*k)
			out := be16(1, 2, 0, 0, 0, 0, 14)
			out = append(out, be16(1, k)...)
			for i := 0; i < k; i++ {
				out = append(out, be32(4+4*k)...)
			}
			out = append(out, be16(1, n)...)
			for i := 0; i < n; i++ {
				out = append(out, be16(i+1)...)
			}
			return out
		}, []int{4, 16, 64, 256, 1024}},
	{"cmap: k encoding records that all point at one format 12 subtable mapping 64k codes from one 12-byte group", "cmap.Decode",
		func(k int) []byte {
			n := min(65535, 64*k)
			out := be16(0, k)
			for i := 0; i < k; i++ {
				out = append(out, be16(0, i)...)
				out = append(out, be32(4+8*k)...)
			}
			out = append(out, be16(12, 0)...)
			out = append(out, be32(28)...)
			out = append(out, be32(0)...)
			out = append(out, be32(1)...)
			out = append(out, be32(0x20)...)
			out = append(out, be32(0x20+n-1)...)
			return append(out, be32(1)...)
		}, []int{4, 16, 64, 256}},
	{"coverage: format 2 with k single-glyph ranges (linear reference family)", "coverage.Read",
		func(k int) []byte {
			out := be16(2, k)
			for i := 0; i < k; i++ {
				out = append(out, be16(2*i+1, 2*i+1, i)...)
			}
			return out
		}, []int{4, 16, 64, 256, 1024, 4096}},
	{"post: format 2 with k glyphs that all use one custom name of 255 bytes", "post.Read",
		func(k int) []byte {
			out := append(be32(0x00020000), make([]byte, 28)...)
			out = append(out, be16(k)...)
			for i := 0; i < k; i++ {
				out = append(out, be16(258)...)
			}
			out = append(out, 255)
			for i := 0; i < 255; i++ {
				out = append(out, 'a')
			}
			return out
		}, []int{4, 16, 64, 256, 1024, 4096}},
}

func c02KernWrap(k, pairs int) []byte {
	out := be16(0, k)
	for i := 0; i < k; i++ {
		out = append(out, be16(0, 14, 0x0001, pairs, 0, 0, 0)...)
	}
	return append(out, make([]byte, 6*pairs+16)...)
}

func c02FamiliesPart(r *run.Run) {
	fams := c02Families
	r.ExploreSharded(explore.Config{Name: "C02.families", Deadline: r.PartDeadline(0.25)},
		fmt.Sprintf("%d amplification families (count fields scaled up over shared or overlapping data), each at growing scale: steps <= %d + %d per byte, allocation <= %d + %d per byte at every scale, and steps per input byte must not grow more than 8-fold from the smallest to the largest scale", len(fams), c02S0, c02S1, c02A0, c02A1),
		len(fams), c02Mem,
		func(c *explore.Ctx) {
			fi := c.Choose(len(fams), "family")
			fam := fams[fi]
			c.Shard(uint64(fi))
			c.Checkpoint()
			c.Sample(func() any { return fam.name })
			seed := c02TableSeed(fam.dec, fam.name, nil)
			var firstRate, lastRate float64
			var report string
			for i, k := range fam.scales {
				b := fam.gen(k)
				budget := int64(c02S0 + c02S1*len(b))
				a0 := c02AllocBytes()
				sfnt.VerifTickStart(budget)
				finished, err, pm, stage := c02RunOne(seed, b, 300*time.Second)
				steps, exceeded := sfnt.VerifTickStop()
				alloc := c02AllocBytes() - a0
				rate := float64(steps) / float64(len(b)+1024)
				if i == 0 {
					firstRate = rate
				}
				lastRate = rate
				report += fmt.Sprintf("  scale %d: %d bytes, %d steps (%.1f per byte), %d bytes allocated, accepted=%v\n", k, len(b), steps, float64(steps)/float64(len(b)), alloc, err == nil && pm == "")
				if err == nil && pm == "" {
					c.Nontrivial()
				}
				sig := fam.dec + " / " + fam.name
				if !finished {
					c.FailObserved("C02.terminates", sig, "%s does not return within 300 s at scale %d (%d bytes)\n%s", fam.dec, k, len(b), report)
					return
				}
				if exceeded {
					c.Fail("C02.amplification", sig, "%s (%s) needs more than %d steps (bound %d + %d per byte) on the %d-byte member of the family at scale %d\n%s", fam.dec, stage, budget, c02S0, c02S1, len(b), k, report)
					return
				}
				if pm != "" {
					c.Fail("C02.panic", c02Sig(seed, pm), "%s panics (%s) on the member of family %q at scale %d:\n%s", fam.dec, stage, fam.name, k, pm)
					return
				}
				if alloc > uint64(c02A0+c02A1*len(b)) {
					c.Fail("C02.amplification", sig, "%s (%s) allocates %d bytes (bound %d + %d per byte) at scale %d (%d bytes)\n%s", fam.dec, stage, alloc, c02A0, c02A1, k, len(b), report)
					return
				}
			}
			c.Outcome(fam.name, report)
			if lastRate > 8*firstRate+64 {
				c.Fail("C02.amplification", fam.dec+" / "+fam.name, "the work of %s per input byte grows with the scale of the family (super-linear):\n%s", fam.dec, report)
			}
			c.Tag(fmt.Sprintf("family %q:\n%s", fam.name, report))
		})
}
