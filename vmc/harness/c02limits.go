package harness

import (
	"fmt"
	"sync"
	"time"

	"seehuhn.de/go/sfnt/opentype/gtab"

	"verif/explore"
	"verif/run"
)

// c02OffsetFields: positions of the 16-bit offsets to coverage (false) / class definition (true) tables
// inside the subtable kinds of c08Scaled.
var c02OffsetFields = map[int][][2]int{
	0: {{2, 0}}, 1: {{2, 0}}, 2: {{2, 0}}, 3: {{2, 0}}, 4: {{2, 0}}, 5: {{2, 0}}, 6: {{2, 0}}, 7: {{2, 0}}, 8: {{2, 0}},
	9: {{2, 0}, {8, 1}, {10, 1}}, 10: {{2, 0}, {4, 0}}, 11: {{2, 0}, {4, 1}}, 12: {{2, 0}, {4, 1}, {6, 1}, {8, 1}},
	13: {{6, 0}}, 14: {{4, 0}}, 15: {{2, 0}, {6, 0}}, 16: {{2, 0}}, 17: {{2, 0}, {4, 0}},
	18: {{2, 0}, {4, 1}}, 19: {{2, 0}, {4, 1}, {6, 1}, {8, 1}}, 20: {{2, 0}, {8, 1}, {10, 1}}, 21: {{2, 0}}, 22: {{2, 0}},
}

// c02GtabWrap puts one subtable into a GSUB/GPOS table with an empty script and feature list; the
// subtable is the last thing in the table and may extend beyond 64 KiB.
func c02GtabWrap(lookupType uint16, sub []byte) []byte {
	out := be16(1, 0, 10, 12, 14)
	out = append(out, be16(0)...)
	out = append(out, be16(0)...)
	out = append(out, be16(1, 4)...)
	out = append(out, be16(int(lookupType), 0, 1, 8)...)
	return append(out, sub...)
}

// c02Regrow points the offset field at a new coverage / class definition table with m entries, appended to
// the subtable: the decoded structure is larger than any subtable the library's encoder can write.
func c02Regrow(sub []byte, pos int, classdef bool, m int) []byte {
	if len(sub) > 0xFFFF || pos+2 > len(sub) {
		return nil
	}
	out := append([]byte(nil), sub...)
	out[pos], out[pos+1] = byte(len(sub)>>8), byte(len(sub))
	if classdef {
		out = append(out, be16(1, 1, m)...) // format 1 from glyph 1: classes 1, 2, 1, 2, ...
		for i := 0; i < m; i++ {
			out = append(out, be16(1+i%2)...)
		}
	} else {
		out = append(out, be16(1, m)...) // format 1: glyphs 1, 3, 5, ...
		for i := 0; i < m; i++ {
			out = append(out, be16(1+2*i)...)
		}
	}
	return out
}

// c02ReencodeLimits: "whatever a successful decode returns can be re-encoded": subtables at the 64 KiB
// limit whose coverage / class definition tables are replaced, in the file, by larger ones.  The reader
// has to refuse what the encoder cannot write.
func c02ReencodeLimits(r *run.Run) {
	type caseT struct {
		kind, n, pos int
		classdef     bool
		typ          uint16
		gpos         bool
		sub          []byte
		mAcc         int
	}
	seeds := map[bool]*c02Seed{false: c02TableSeed("gtab.Read/GSUB", "re-encode limits", nil), true: c02TableSeed("gtab.Read/GPOS", "re-encode limits", nil)}
	encode := func(k, n int) (sub []byte, typ uint16, gpos bool) {
		st, typ, gpos := c08Scaled(k, n)
		if p := guard(func() { sub = gtab.VerifEncodeSubtable(st) }); p != "" || len(sub) > 0xFFFF {
			return nil, typ, gpos
		}
		return sub, typ, gpos
	}
	accepted := func(cs *caseT, m int) bool {
		b := c02Regrow(cs.sub, cs.pos, cs.classdef, m)
		if b == nil {
			return false
		}
		_, err, pm, _ := c02RunOne(seeds[cs.gpos], c02GtabWrap(cs.typ, b), 120*time.Second)
		return err == nil && pm == ""
	}
	// the cases of one subtable kind are built when the first execution asks for them (the bisections
	// take seconds; worker processes of other parts must not pay for them)
	nvals, maxFields := 4, 4
	type kindCases struct {
		once  sync.Once
		cases map[[2]int]*caseT // (index of the entry count, index of the offset field)
	}
	perKind := make([]kindCases, len(c08ScaledKinds))
	build := func(k int) map[[2]int]*caseT {
		kc := &perKind[k]
		kc.once.Do(func() {
			kc.cases = map[[2]int]*caseT{}
			lo, hi := 1, 40000 // largest n the encoder writes within 64 KiB
			for lo < hi {
				mid := (lo + hi + 1) / 2
				if sub, _, _ := encode(k, mid); sub != nil {
					lo = mid
				} else {
					hi = mid - 1
				}
			}
			for ni, n := range []int{lo, lo * 3 / 4, lo / 2, 1} {
				if n < 1 {
					continue
				}
				sub, typ, gpos := encode(k, n)
				if sub == nil {
					continue
				}
				for fi, f := range c02OffsetFields[k] {
					cs := &caseT{kind: k, n: n, pos: f[0], classdef: f[1] == 1, typ: typ, gpos: gpos, sub: sub}
					// the largest replacement table the reader accepts (bisection; acceptance is monotone on the unchanged tree)
					a, b := 0, 32767
					for a < b {
						mid := (a + b + 1) / 2
						if accepted(cs, mid) {
							a = mid
						} else {
							b = mid - 1
						}
					}
					cs.mAcc = a
					kc.cases[[2]int{ni, fi}] = cs
				}
			}
		})
		return kc.cases
	}
	fixed := []int{1, 2, 100, 5000, 16000, 32767}
	r.Explore(explore.Config{Name: "C02.reencode-limits", Deadline: r.PartDeadline(0.3)},
		fmt.Sprintf("%d subtable kinds (as in C08.subtable-limit) with {largest, 3/4, 1/2 of the largest, 1} entry counts the encoder writes within 64 KiB, every coverage / class definition offset of the subtable re-pointed at an appended table of m entries, m in %v and -2..+3 around the largest m the reader accepts (bisection): gtab.Read returns an error or a value whose Encode does not panic", len(c08ScaledKinds), fixed),
		func(c *explore.Ctx) {
			k := c.Choose(len(c08ScaledKinds), "subtable kind")
			ni := c.Choose(nvals, "entry count")
			fi := c.Choose(maxFields, "offset field")
			if fi >= len(c02OffsetFields[k]) {
				c.Skip("no such offset field")
			}
			cs := build(k)[[2]int{ni, fi}]
			if cs == nil {
				c.Skip("the encoder does not write this entry count")
			}
			var m int
			if mk := c.Choose(len(fixed)+6, "entries of the replacement table"); mk < len(fixed) {
				m = fixed[mk]
			} else {
				m = cs.mAcc - 2 + (mk - len(fixed))
			}
			if m < 1 || m > 32767 {
				c.Skip("replacement table size out of range")
			}
			b := c02Regrow(cs.sub, cs.pos, cs.classdef, m)
			what := func() string {
				return fmt.Sprintf("%s with %d entries (%d bytes), offset at byte %d re-pointed at an appended %s table of %d entries (the reader accepts up to %d)", c08ScaledKinds[cs.kind], cs.n, len(cs.sub), cs.pos, map[bool]string{false: "coverage", true: "class definition"}[cs.classdef], m, cs.mAcc)
			}
			c.Sample(func() any { return what() })
			c02Check(c, seeds[cs.gpos], c02GtabWrap(cs.typ, b), what)
		})
}

// c02ReencodeHeader: GSUB files whose three lists stand in another order than the library writes them, with a
// feature list that reaches beyond 64 KiB (its last feature has many lookup indices): every offset of the
// file fits into its 16 bits, so the file is well formed; gtab.Read refuses it or returns a value that
// Encode can write.
func c02ReencodeHeader(r *run.Run) {
	seed := c02TableSeed("gtab.Read/GSUB", "re-encode header", nil)
	lookupList := append(be16(1, 4, 1, 0, 1, 8), append(be16(1, 6, 1), be16(1, 1, 1)...)...)
	scriptList := append(append(be16(1), 'D', 'F', 'L', 'T'), be16(8, 4, 0, 0, 0xFFFF, 1, 0)...)
	featureList := func(n, m int) []byte {
		out := be16(n + 1)
		pos := 2 + 6*(n+1)
		for i := 0; i <= n; i++ {
			out = append(out, []byte(fmt.Sprintf("f%03d", i%1000))...)
			out = append(out, be16(pos)...)
			pos += 6
		}
		for i := 0; i < n; i++ {
			out = append(out, be16(0, 1, 0)...)
		}
		out = append(out, be16(0, m)...)
		return append(out, make([]byte, 2*m)...) // m times lookup index 0
	}
	ms := []int{1, 1000, 16000}
	for m := 32640; m <= 32768; m += 8 {
		ms = append(ms, m)
	}
	ms = append(ms, 40000, 65535)
	r.Explore(explore.Config{Name: "C02.reencode-header", Workers: 1, Deadline: r.PartDeadline(0.2)},
		"GSUB tables assembled byte by byte whose lists stand in every one of the 6 orders, with 1 or 100 small features and a last feature with m lookup indices, m in {1, 1000, 16000, every 8th value 32640..32768, 40000, 65535} (the feature list reaches beyond 64 KiB; orders in which a list would start beyond 64 KiB cannot be written down and are skipped): gtab.Read returns an error or a value whose Encode does not panic",
		func(c *explore.Ctx) {
			order := [][3]int{{0, 1, 2}, {0, 2, 1}, {1, 0, 2}, {1, 2, 0}, {2, 0, 1}, {2, 1, 0}}[c.Choose(6, "order of script list, feature list, lookup list")]
			n := []int{1, 100}[c.Choose(2, "small features")]
			m := ms[c.Choose(len(ms), "lookup indices of the last feature")]
			parts := [3][]byte{scriptList, featureList(n, m), lookupList}
			var offs [3]int
			pos := 10
			body := []byte{}
			for _, k := range order {
				offs[k] = pos
				pos += len(parts[k])
				body = append(body, parts[k]...)
			}
			if offs[0] > 0xFFFF || offs[1] > 0xFFFF || offs[2] > 0xFFFF {
				c.Skip("a list would start beyond 64 KiB")
			}
			b := append(be16(1, 0, offs[0], offs[1], offs[2]), body...)
			what := func() string {
				return fmt.Sprintf("GSUB with the lists in the order %v (0 script, 1 feature, 2 lookup list), %d small features and a last feature with %d lookup indices (%d bytes)", order, n, m, len(b))
			}
			c.Sample(func() any { return what() })
			c02Check(c, seed, b, what)
		})
}

// c02ReencodeGdef: GDEF files whose class definition tables are large, shared between the two class
// offsets, or laid out with the large table last: gdef.Read refuses or returns a value Encode can write.
func c02ReencodeGdef(r *run.Run) {
	classDef := func(n int) []byte { // format 1 from glyph 1: n alternating classes (6 + 2n bytes)
		out := be16(1, 1, n)
		for i := 0; i < n; i++ {
			out = append(out, be16(1+2*(i%2))...)
		}
		return out
	}
	counts := []int{1, 1000, 16370, 16380, 16390}
	for n := 32744; n <= 32770; n++ {
		counts = append(counts, n)
	}
	counts = append(counts, 40000, 65535)
	seed := c02TableSeed("gdef.Read", "re-encode limits", nil)
	r.Explore(explore.Config{Name: "C02.reencode-gdef", Deadline: r.PartDeadline(0.2)},
		"GDEF tables (versions 1.0 and 1.2) with a class definition table of n alternating classes, n in {1, 1000, about 16380, every value 32744..32770, 40000, 65535}, used as glyph class table, as mark attachment class table, as both (one shared table), or as both in two copies; the small tables in front of the large one; with and without mark glyph sets: gdef.Read returns an error or a value whose Encode does not panic",
		func(c *explore.Ctx) {
			n := counts[c.Choose(len(counts), "entries of the large class table")]
			layout := c.Choose(5, "layout")
			sets := c.Bool("mark glyph sets")
			hdr := 12
			if sets {
				hdr = 14
			}
			small := classDef(2)
			var setTab []byte
			if sets {
				setTab = append(be16(1, 1), be32(8)...)
				setTab = append(setTab, be16(1, 1, 2)...)
			}
			big := classDef(n)
			var gOff, aOff, sOff int
			body := []byte{}
			place := func(b []byte) int {
				off := hdr + len(body)
				body = append(body, b...)
				return off
			}
			if sets {
				sOff = place(setTab)
			}
			switch layout {
			case 0: // small mark attachment classes, large glyph classes last
				aOff = place(small)
				gOff = place(big)
			case 1: // small glyph classes, large mark attachment classes last
				gOff = place(small)
				aOff = place(big)
			case 2: // one shared large table
				gOff = place(big)
				aOff = gOff
			case 3: // two copies of half the size
				half := classDef(n / 2)
				gOff = place(half)
				aOff = place(half)
			default: // only glyph classes
				gOff = place(big)
			}
			if gOff > 0xFFFF || aOff > 0xFFFF {
				c.Skip("the file format cannot express this layout")
			}
			minor := 0
			if sets {
				minor = 2
			}
			b := be16(1, minor, gOff, 0, 0, aOff)
			if sets {
				b = append(b, be16(sOff)...)
			}
			b = append(b, body...)
			what := func() string {
				return fmt.Sprintf("GDEF 1.%d, class table of %d entries, layout %d", minor, n, layout)
			}
			c.Sample(func() any { return what() })
			c02Check(c, seed, b, what)
		})
}
