package harness

import (
	"bytes"
	"encoding/binary"
	"fmt"

	"github.com/google/go-cmp/cmp"
	"github.com/google/go-cmp/cmp/cmpopts"

	"seehuhn.de/go/postscript/funit"
	"seehuhn.de/go/sfnt/glyf"
	"seehuhn.de/go/sfnt/glyph"

	"verif/explore"
	"verif/run"
)

// C11: TrueType glyph data round-trips and decodes as the specification says.

// refPoint is a decoded outline point.
type refPoint struct {
	X, Y int16
	On   bool
}

// refDecodeSimple decodes a simple glyph body (after the 10-byte header) per
// the TrueType specification: endPtsOfContours, instructions, flags with
// repeats, x then y deltas.
func refDecodeSimple(numContours int, b []byte) (contours [][]refPoint, instr []byte, used int, err error) {
	p := 0
	need := func(n int) bool { return p+n <= len(b) }
	if numContours == 0 {
		// no points; an instruction block may still follow
		if need(2) {
			il := int(binary.BigEndian.Uint16(b))
			if need(2 + il) {
				return nil, b[2 : 2+il], 2 + il, nil
			}
		}
		return nil, nil, 0, nil
	}
	var ends []int
	for i := 0; i < numContours; i++ {
		if !need(2) {
			return nil, nil, 0, fmt.Errorf("endPts truncated")
		}
		ends = append(ends, int(binary.BigEndian.Uint16(b[p:])))
		p += 2
	}
	for i := 1; i < len(ends); i++ {
		if ends[i] < ends[i-1] {
			return nil, nil, 0, fmt.Errorf("endPts not monotone")
		}
	}
	if !need(2) {
		return nil, nil, 0, fmt.Errorf("no instruction length")
	}
	il := int(binary.BigEndian.Uint16(b[p:]))
	p += 2
	if !need(il) {
		return nil, nil, 0, fmt.Errorf("instructions truncated")
	}
	instr = b[p : p+il]
	p += il
	n := ends[len(ends)-1] + 1
	flags := make([]byte, 0, n)
	for len(flags) < n {
		if !need(1) {
			return nil, nil, 0, fmt.Errorf("flags truncated")
		}
		f := b[p]
		p++
		flags = append(flags, f)
		if f&8 != 0 {
			if !need(1) {
				return nil, nil, 0, fmt.Errorf("repeat count truncated")
			}
			k := int(b[p])
			p++
			for ; k > 0 && len(flags) < n; k-- {
				flags = append(flags, f)
			}
		}
	}
	coord := func(short, same byte) ([]int16, error) {
		out := make([]int16, n)
		var v int16
		for i, f := range flags {
			switch {
			case f&short != 0:
				if !need(1) {
					return nil, fmt.Errorf("coordinates truncated")
				}
				d := int16(b[p])
				p++
				if f&same != 0 {
					v += d
				} else {
					v -= d
				}
			case f&same == 0:
				if !need(2) {
					return nil, fmt.Errorf("coordinates truncated")
				}
				v += int16(binary.BigEndian.Uint16(b[p:]))
				p += 2
			}
			out[i] = v
		}
		return out, nil
	}
	xs, err := coord(2, 0x10)
	if err != nil {
		return nil, nil, 0, err
	}
	ys, err := coord(4, 0x20)
	if err != nil {
		return nil, nil, 0, err
	}
	start := 0
	for _, e := range ends {
		var ct []refPoint
		for i := start; i <= e; i++ {
			ct = append(ct, refPoint{xs[i], ys[i], flags[i]&1 != 0})
		}
		contours = append(contours, ct)
		start = e + 1
	}
	return contours, instr, p, nil
}

// encoding styles of the assembler
const (
	encLong = iota
	encShort
	encRepeat
)

// assembleSimple encodes contours with a chosen coordinate/flag style.
func assembleSimple(contours [][]refPoint, instr []byte, style int, pad int) []byte {
	return assembleSimpleFlags(contours, instr, style, pad, 0)
}

// assembleSimpleFlags: firstExtra is or-ed into the flag byte of the first point (OVERLAP_SIMPLE, bit 6,
// is legal there since OpenType 1.8 and carries no coordinate information).
func assembleSimpleFlags(contours [][]refPoint, instr []byte, style int, pad int, firstExtra byte) []byte {
	var b []byte
	n := 0
	for _, c := range contours {
		n += len(c)
		b = append(b, byte((n-1)>>8), byte(n-1))
	}
	b = append(b, byte(len(instr)>>8), byte(len(instr)))
	b = append(b, instr...)
	var flags, xs, ys []byte
	var px, py int16
	for _, c := range contours {
		for _, p := range c {
			f := byte(0)
			if p.On {
				f |= 1
			}
			dx, dy := int(p.X)-int(px), int(p.Y)-int(py)
			enc := func(d int, short, same byte, out *[]byte) {
				switch {
				case d == 0 && style != encLong:
					f |= same
				case style != encLong && d > 0 && d < 256:
					f |= short | same
					*out = append(*out, byte(d))
				case style != encLong && d < 0 && d > -256:
					f |= short
					*out = append(*out, byte(-d))
				default:
					*out = append(*out, byte(uint16(int16(d))>>8), byte(int16(d)))
				}
			}
			enc(dx, 2, 0x10, &xs)
			enc(dy, 4, 0x20, &ys)
			if len(flags) == 0 {
				f |= firstExtra
			}
			flags = append(flags, f)
			px, py = p.X, p.Y
		}
	}
	if style == encRepeat {
		var packed []byte
		for i := 0; i < len(flags); {
			j := i
			for j+1 < len(flags) && flags[j+1] == flags[i] && j-i < 255 {
				j++
			}
			if j > i {
				packed = append(packed, flags[i]|8, byte(j-i))
			} else {
				packed = append(packed, flags[i])
			}
			i = j + 1
		}
		flags = packed
	}
	b = append(b, flags...)
	b = append(b, xs...)
	b = append(b, ys...)
	for i := 0; i < pad; i++ {
		b = append(b, 0)
	}
	return b
}

func bboxOf(contours [][]refPoint) funit.Rect16 {
	var bb funit.Rect16
	first := true
	for _, c := range contours {
		for _, p := range c {
			x, y := funit.Int16(p.X), funit.Int16(p.Y)
			if first {
				bb = funit.Rect16{LLx: x, LLy: y, URx: x, URy: y}
				first = false
			}
			bb.LLx, bb.LLy, bb.URx, bb.URy = min(bb.LLx, x), min(bb.LLy, y), max(bb.URx, x), max(bb.URy, y)
		}
	}
	return bb
}

var c11Quick bool

var c11Coords = []int16{0, 1, -1, 255, 256, -256, 32767, -32768}

// c11Glyph builds one glyph from choice points; returns the glyf record bytes
// (header + body, unpadded) and the expected decoded form.
type c11Spec struct {
	desc     string
	data     []byte // full glyph record
	contours [][]refPoint
	instr    []byte
	comps    []glyph.ID
	simple   bool
}

// full=false draws from a reduced alphabet (used for the 2nd and 3rd glyph of a
// set, where only offsets, padding and glyph kind interact).
func c11MakeGlyph(c *explore.Ctx, full bool) *c11Spec { return c11MakeGlyphOpt(c, full, false) }

// c11MakeGlyphOpt: with compositeFlags the glyph is a composite glyph whose components carry every
// combination of the three transform flags (the first of scale, x-and-y scale and 2x2 decides the size).
func c11MakeGlyphOpt(c *explore.Ctx, full, compositeFlags bool) *c11Spec {
	coords := c11Coords
	if c11Quick {
		coords = []int16{0, 1, -256, 32767}
	}
	if !full {
		coords = []int16{0, -256}
	}
	kind := 2
	if !compositeFlags {
		kind = c.Choose(3, "glyph kind")
	}
	switch kind {
	case 0:
		return &c11Spec{desc: "empty"}
	case 1: // simple
		nc := c.Choose(3, "contours") // 0, 1, 2
		var contours [][]refPoint
		maxNp := 3
		if !full {
			maxNp = 1
		}
		np := 1 + c.Choose(maxNp, "points per contour")
		ci := 0
		for k := 0; k < nc; k++ {
			var ct []refPoint
			for i := 0; i < np; i++ {
				var x int16
				if k == 0 {
					x = coords[c.Choose(len(coords), "x")]
				} else {
					x = c11Coords[(ci*5+1)%len(c11Coords)]
				}
				y := c11Coords[(ci*3+i*5+k)%len(c11Coords)]
				ct = append(ct, refPoint{x, y, (i+k)%2 == 0})
				ci++
			}
			contours = append(contours, ct)
		}
		style := c.Choose(3, "coordinate style")
		var instr []byte
		if full && c.Bool("instruction byte") {
			instr = []byte{0x4B}
		}
		pad := []int{0, 1, 3}[c.Choose(3, "trailing padding")]
		var firstExtra byte
		if full && nc == 1 && style == 0 && c.Bool("OVERLAP_SIMPLE on the first flag") {
			firstExtra = 0x40
		}
		body := assembleSimpleFlags(contours, instr, style, pad, firstExtra)
		bb := bboxOf(contours)
		hdr := []byte{byte(nc >> 8), byte(nc), byte(uint16(bb.LLx) >> 8), byte(bb.LLx), byte(uint16(bb.LLy) >> 8), byte(bb.LLy), byte(uint16(bb.URx) >> 8), byte(bb.URx), byte(uint16(bb.URy) >> 8), byte(bb.URy)}
		return &c11Spec{desc: fmt.Sprintf("simple contours=%v style=%d pad=%d instr=%d firstflag|=%#x", contours, style, pad, len(instr), firstExtra), data: append(hdr, body...), contours: contours, instr: instr, simple: true}
	default: // composite
		maxComp := 3
		if !full {
			maxComp = 1
		}
		ncomp := 1 + c.Choose(maxComp, "components")
		var body []byte
		var comps []glyph.ID
		// none, empty, two bytes (WE_HAVE_INSTRUCTIONS on every record), two bytes with the flag on the
		// last record only, two bytes with the flag on the first record only
		nInstr := 6 // 5: one instruction byte (odd length)
		if ncomp == 1 {
			nInstr = 7 // 6: three instruction bytes
		}
		withInstr := c.Choose(nInstr, "composite instructions")
		flagOn := func(i int) bool {
			switch withInstr {
			case 0:
				return false
			case 3:
				return i == ncomp-1
			case 4:
				return i == 0
			}
			return true
		}
		sameTwice := compositeFlags && ncomp > 1 && c.Bool("the same component glyph in every record")
		for i := 0; i < ncomp; i++ {
			var fl uint16
			args := []byte{byte(i), byte(2 * i)}
			if full && c.Bool("word args") {
				fl |= 1
				args = []byte{0, byte(i), 0xFF, byte(2 * i)}
			}
			ntr := 4
			if compositeFlags {
				ntr = 8
			}
			switch c.Choose(ntr, "transform") {
			case 1:
				fl |= 0x0008
				args = append(args, 0x40, 0)
			case 2:
				fl |= 0x0040
				args = append(args, 0x40, 0, 0x20, 0)
			case 3:
				fl |= 0x0080
				args = append(args, 0x40, 0, 0, 1, 0, 2, 0x40, 0)
			case 4: // more than one transform flag: the first in the order scale, x-and-y scale, 2x2 counts
				fl |= 0x0008 | 0x0040
				args = append(args, 0x40, 0)
			case 5:
				fl |= 0x0008 | 0x0080
				args = append(args, 0x40, 0)
			case 6:
				fl |= 0x0040 | 0x0080
				args = append(args, 0x40, 0, 0x20, 0)
			case 7:
				fl |= 0x0008 | 0x0040 | 0x0080
				args = append(args, 0x40, 0)
			}
			fl |= 2
			if i+1 < ncomp {
				fl |= 0x20
			}
			if flagOn(i) {
				fl |= 0x100
			}
			gid := glyph.ID(i + 1)
			if sameTwice && i > 0 {
				gid = 1 // the same component glyph again (a colon made of two periods)
			}
			comps = append(comps, gid)
			body = append(body, byte(fl>>8), byte(fl), byte(gid>>8), byte(gid))
			body = append(body, args...)
		}
		var instr []byte
		switch withInstr {
		case 1:
			body = append(body, 0, 0)
			instr = []byte{}
		case 2, 3, 4:
			body = append(body, 0, 2, 0xB0, 0x01)
			instr = []byte{0xB0, 0x01}
		case 5:
			body = append(body, 0, 1, 0x4B)
			instr = []byte{0x4B}
		case 6:
			body = append(body, 0, 3, 0xB0, 0x01, 0x4B)
			instr = []byte{0xB0, 0x01, 0x4B}
		}
		hdr := []byte{0xFF, 0xFF, 0, 0, 0, 0, 1, 0, 2, 0}
		return &c11Spec{desc: fmt.Sprintf("composite comps=%d instr=%d", ncomp, withInstr), data: append(hdr, body...), comps: comps, instr: instr}
	}
}

func c11Sets(r *run.Run) {
	c11Quick = r.Quick()
	maxGlyphs := 2
	if !r.Quick() {
		maxGlyphs = 3
	}
	r.Explore(explore.Config{Name: "C11.sets", Deadline: r.PartDeadline(0.95)},
		"glyph sets of 1..2 (quick) / 1..3 glyphs from {empty, simple (0..2 contours, 1..3 points, coordinates at the 8/16-bit boundaries, long/short/repeat-packed flags, instructions, 0/1/3 padding bytes), composite (1..3 components, byte/word args, every transform size, no/empty/2-byte instructions)} assembled independently; Decode -> Encode -> Decode is the identity bit for bit, loca is well formed, simple-glyph points agree with an independent decoder",
		c11SetsBody(maxGlyphs, false))
	r.Explore(explore.Config{Name: "C11.component-flags"},
		"one composite glyph of 1..3 components whose components carry all 8 combinations of the transform flags WE_HAVE_A_SCALE, WE_HAVE_AN_X_AND_Y_SCALE and WE_HAVE_A_TWO_BY_TWO (with more than one set, the first in this order decides the size of the record, as in the specification's pseudo code), byte/word arguments, every instruction variant, different component glyphs or the same glyph in every record: same oracle as C11.sets",
		c11SetsBody(1, true))
}

func c11SetsBody(maxGlyphs int, compositeFlags bool) func(c *explore.Ctx) {
	return func(c *explore.Ctx) {
		n := 1 + c.Choose(maxGlyphs, "glyphs")
		if compositeFlags {
			n = 1
		}
		var specs []*c11Spec
		var glyfData []byte
		offs := []int{0}
		for i := 0; i < n; i++ {
			s := c11MakeGlyphOpt(c, i == 0, compositeFlags)
			specs = append(specs, s)
			glyfData = append(glyfData, s.data...)
			if len(glyfData)%2 != 0 {
				glyfData = append(glyfData, 0)
			}
			offs = append(offs, len(glyfData))
		}
		var desc []string
		for _, s := range specs {
			desc = append(desc, s.desc)
		}
		c.Sample(func() any { return desc })
		long := c.Bool("long loca")
		var loca []byte
		for _, o := range offs {
			if long {
				loca = append(loca, byte(o>>24), byte(o>>16), byte(o>>8), byte(o))
			} else {
				loca = append(loca, byte(o/2>>8), byte(o/2))
			}
		}
		lf := int16(0)
		if long {
			lf = 1
		}
		gg, err := glyf.Decode(&glyf.Encoded{GlyfData: glyfData, LocaData: loca, LocaFormat: lf})
		if err != nil {
			c.Fail("C11.decode", "Decode", "well-formed glyf/loca rejected: %v (%v)", err, desc)
			return
		}
		c.Outcome(glyfData, long)
		if len(gg) != n {
			c.Fail("C11.decode", "count", "%d glyphs decoded, want %d", len(gg), n)
			return
		}
		nontrivial := false
		for i, s := range specs {
			g := gg[i]
			if s.data == nil {
				if g != nil {
					c.Fail("C11.decode", "empty", "empty glyph %d decodes to %v", i, g)
				}
				continue
			}
			if g == nil {
				c.Fail("C11.decode", "nil", "glyph %d (%s) decodes to nil", i, s.desc)
				continue
			}
			if s.simple {
				sg, ok := g.Data.(glyf.SimpleGlyph)
				if !ok {
					c.Fail("C11.decode", "kind", "simple glyph decoded as %T", g.Data)
					continue
				}
				nontrivial = true
				info, err := func() (gi *glyf.GlyphInfo, err error) {
					defer func() {
						if r := recover(); r != nil {
							err = fmt.Errorf("panic: %v", r)
						}
					}()
					return sg.Decode()
				}()
				wantC, wantI, _, rerr := refDecodeSimple(int(sg.NumContours), s.data[10:])
				if rerr != nil {
					explore.Fatal("C11: reference decoder rejects its own assembly: %v (%s)", rerr, s.desc)
				}
				if err != nil {
					sig := "SimpleGlyph.Decode"
					if len(s.contours) == 0 {
						sig = "SimpleGlyph.Decode zero contours"
					}
					c.Fail("C11.points", sig, "SimpleGlyph.Decode fails on a well-formed glyph: %v (%s)", err, s.desc)
					continue
				}
				var got [][]refPoint
				for _, ct := range info.Contours {
					var pts []refPoint
					for _, p := range ct {
						pts = append(pts, refPoint{int16(p.X), int16(p.Y), p.OnCurve})
					}
					got = append(got, pts)
				}
				if !cmp.Equal(got, wantC, cmpopts.EquateEmpty()) || !cmp.Equal(got, s.contours, cmpopts.EquateEmpty()) {
					c.Fail("C11.points", "contours", "points %v, independent decoder %v, assembled %v (%s)", got, wantC, s.contours, s.desc)
				}
				if !bytes.Equal(info.Instructions, wantI) {
					c.Fail("C11.points", "instructions", "instructions % x want % x", info.Instructions, wantI)
				}
			} else {
				cg, ok := g.Data.(glyf.CompositeGlyph)
				if !ok {
					c.Fail("C11.decode", "kind", "composite glyph decoded as %T", g.Data)
					continue
				}
				nontrivial = true
				if fmt.Sprint(g.Components()) != fmt.Sprint(s.comps) {
					c.Fail("C11.components", "Components", "Components() = %v want %v", g.Components(), s.comps)
				}
				if !bytes.Equal(cg.Instructions, s.instr) {
					c.Fail("C11.components", "instructions", "composite instructions % x want % x (%s)", cg.Instructions, s.instr, s.desc)
				}
				m := map[glyph.ID]glyph.ID{}
				for _, id := range s.comps {
					m[id] = id + 100
				}
				g2 := g.FixComponents(m)
				for k, id := range g2.Components() {
					if id != s.comps[k]+100 {
						c.Fail("C11.components", "FixComponents", "component %d rewritten to %d want %d", k, id, s.comps[k]+100)
					}
				}
				if fmt.Sprint(g.Components()) != fmt.Sprint(s.comps) {
					c.Fail("C11.components", "FixComponents aliasing", "FixComponents modified the original glyph: %v", g.Components())
				}
				// a renumbering that moves the first component glyph to position 0 (and glyph 0 elsewhere)
				m0 := map[glyph.ID]glyph.ID{0: 7}
				for _, id := range s.comps {
					m0[id] = id + 100
				}
				m0[s.comps[0]] = 0
				for k, id := range g.FixComponents(m0).Components() {
					if id != m0[s.comps[k]] {
						c.Fail("C11.components", "FixComponents to glyph 0", "component %d (glyph %d) rewritten to %d under a map that sends it to %d", k, s.comps[k], id, m0[s.comps[k]])
					}
				}
				d1 := g.Data.(glyf.CompositeGlyph)
				d2 := g2.Data.(glyf.CompositeGlyph)
				for k := range d1.Components {
					if d1.Components[k].Flags != d2.Components[k].Flags || !bytes.Equal(d1.Components[k].Data, d2.Components[k].Data) {
						c.Fail("C11.components", "FixComponents", "flags/arguments of component %d changed", k)
					}
				}
				// ... and, glyph indices apart, the rewritten glyph is the same glyph: the instruction block
				// (also an empty one that is present) and the encoded length
				if !bytes.Equal(d1.Instructions, d2.Instructions) || (d1.Instructions == nil) != (d2.Instructions == nil) {
					c.Fail("C11.components", "FixComponents instructions", "FixComponents changes the instruction block from %#v to %#v (%s)", d1.Instructions, d2.Instructions, s.desc)
				}
				if l1, l2 := len((glyf.Glyphs{g}).Encode().GlyfData), len((glyf.Glyphs{g2}).Encode().GlyfData); l1 != l2 {
					c.Fail("C11.components", "FixComponents length", "the glyph takes %d bytes, after FixComponents %d (%s)", l1, l2, s.desc)
				}
			}
		}
		if nontrivial {
			c.Nontrivial()
		}
		// re-encode: the result must decode to equal glyphs, and a second encode must be identical
		enc := gg.Encode()
		if probs := checkLoca(enc, n); len(probs) > 0 {
			c.Fail("C11.loca", "loca", "%s (%v)", probs[0], desc)
		}
		gg2, err := glyf.Decode(enc)
		if err != nil {
			c.Fail("C11.roundtrip", "Decode(Encode)", "Decode(Encode(gs)) fails: %v (%v)", err, desc)
			return
		}
		if d := cmp.Diff(gg, gg2, cmpopts.EquateEmpty()); d != "" {
			c.Fail("C11.roundtrip", "glyphs", "Decode(Encode(gs)) != gs (%v):\n%s", desc, trimDiff(d))
		}
		enc2 := gg2.Encode()
		if !bytes.Equal(enc.GlyfData, enc2.GlyfData) || !bytes.Equal(enc.LocaData, enc2.LocaData) || enc.LocaFormat != enc2.LocaFormat {
			c.Fail("C11.roundtrip", "bytes", "second Encode differs (%v)", desc)
		}
		// each glyph's bytes are preserved (modulo the trailing padding of simple glyphs)
		p := 0
		for i, s := range specs {
			want := s.data
			if s.simple {
				_, _, used, _ := refDecodeSimple(len(s.contours), s.data[10:])
				want = s.data[:10+used]
			}
			if len(want)%2 != 0 {
				want = append(append([]byte{}, want...), 0)
			}
			if p+len(want) > len(enc.GlyfData) || !bytes.Equal(enc.GlyfData[p:p+len(want)], want) {
				c.Fail("C11.roundtrip", "glyph bytes", "glyph %d (%s) is not preserved bit for bit", i, s.desc)
				break
			}
			p += len(want)
		}
	}
}

func checkLoca(enc *glyf.Encoded, n int) []string {
	var probs []string
	var offs []int
	switch enc.LocaFormat {
	case 0:
		if len(enc.LocaData) != 2*(n+1) {
			return []string{fmt.Sprintf("short loca has %d bytes for %d glyphs", len(enc.LocaData), n)}
		}
		for i := 0; i <= n; i++ {
			offs = append(offs, 2*int(binary.BigEndian.Uint16(enc.LocaData[2*i:])))
		}
	case 1:
		if len(enc.LocaData) != 4*(n+1) {
			return []string{fmt.Sprintf("long loca has %d bytes for %d glyphs", len(enc.LocaData), n)}
		}
		for i := 0; i <= n; i++ {
			offs = append(offs, int(binary.BigEndian.Uint32(enc.LocaData[4*i:])))
		}
	default:
		return []string{fmt.Sprintf("loca format %d", enc.LocaFormat)}
	}
	for i, o := range offs {
		if o%2 != 0 {
			probs = append(probs, fmt.Sprintf("loca offset %d is odd", o))
		}
		if o > len(enc.GlyfData) {
			probs = append(probs, fmt.Sprintf("loca offset %d beyond glyf data (%d bytes)", o, len(enc.GlyfData)))
		}
		if i > 0 && o < offs[i-1] {
			probs = append(probs, fmt.Sprintf("loca offsets decrease: %d after %d", o, offs[i-1]))
		}
	}
	if offs[0] != 0 || offs[n] != len(enc.GlyfData) {
		probs = append(probs, fmt.Sprintf("loca spans [%d,%d], glyf data has %d bytes", offs[0], offs[n], len(enc.GlyfData)))
	}
	return probs
}

// point counts of simple glyphs at the 8/15/16-bit thresholds (endPtsOfContours is a uint16 array: the
// largest legal glyph has 65536 points, last end point 0xFFFF)
func c11PointCounts(r *run.Run) {
	counts := []int{1, 2, 254, 255, 256, 257, 258, 511, 512, 513, 32767, 32768, 32769, 65535, 65536}
	r.Explore(explore.Config{Name: "C11.point-counts"},
		"simple glyphs with 1, 2, 254..258, 511..513, 32767..32769, 65535 and 65536 points (last end point 0xFFFF) x {one contour, two contours, split after the first point} x {long, short, repeat-packed flags} x {varied steps, uniform steps (one flag byte for all points: repeat counts up to 255)}: glyf.Decode accepts the assembled glyph, SimpleGlyph.Decode returns exactly the assembled points, Encode/Decode is the identity",
		func(c *explore.Ctx) {
			n := counts[c.Choose(len(counts), "points")]
			split := c.Choose(3, "contours")
			style := c.Choose(3, "flag encoding")
			uniform := c.Bool("uniform steps")
			pts := make([]refPoint, n)
			for i := range pts {
				pts[i] = refPoint{X: int16(i % 7 * 40), Y: int16(i % 3 * 300), On: i%5 != 1}
				if uniform {
					// every point one unit to the right of the previous one: all flag bytes are equal, so the
					// repeat-packed form has runs with the largest repeat count (255)
					pts[i] = refPoint{X: int16(i%30000 - 15000), Y: 7, On: true}
					if i > 0 && i%30000 == 0 {
						pts[i].Y = 8 // (the x coordinate starts again: a step that needs a long delta)
					}
				}
			}
			var contours [][]refPoint
			switch {
			case split == 0 || n < 2:
				contours = [][]refPoint{pts}
			case split == 1:
				contours = [][]refPoint{pts[:n/2], pts[n/2:]}
			default:
				contours = [][]refPoint{pts[:1], pts[1:]}
			}
			desc := fmt.Sprintf("%d points in %d contours, flag style %d, uniform steps %v", n, len(contours), style, uniform)
			c.Sample(func() any { return desc })
			c.Nontrivial()
			body := assembleSimple(contours, nil, style, 0)
			bb := bboxOf(contours)
			data := []byte{byte(len(contours) >> 8), byte(len(contours)), byte(uint16(bb.LLx) >> 8), byte(bb.LLx), byte(uint16(bb.LLy) >> 8), byte(bb.LLy), byte(uint16(bb.URx) >> 8), byte(bb.URx), byte(uint16(bb.URy) >> 8), byte(bb.URy)}
			data = append(data, body...)
			if len(data)%2 != 0 {
				data = append(data, 0)
			}
			l := len(data)
			loca := []byte{0, 0, 0, 0, byte(l >> 24), byte(l >> 16), byte(l >> 8), byte(l)}
			gg, err := glyf.Decode(&glyf.Encoded{GlyfData: data, LocaData: loca, LocaFormat: 1})
			if err != nil || len(gg) != 1 || gg[0] == nil {
				c.Fail("C11.decode", "point counts", "well-formed glyph rejected: %v (%s)", err, desc)
				return
			}
			c.Outcome(n, split, style, uniform)
			sg, ok := gg[0].Data.(glyf.SimpleGlyph)
			if !ok {
				c.Fail("C11.decode", "kind", "simple glyph decoded as %T (%s)", gg[0].Data, desc)
				return
			}
			var info *glyf.GlyphInfo
			if p := guard(func() { info, err = sg.Decode() }); p != "" {
				c.Fail("C11.points", "SimpleGlyph.Decode point counts", "SimpleGlyph.Decode panics: %s (%s)", p, desc)
				return
			}
			if err != nil {
				c.Fail("C11.points", "SimpleGlyph.Decode point counts", "SimpleGlyph.Decode fails on a well-formed glyph: %v (%s)", err, desc)
				return
			}
			bad := len(info.Contours) != len(contours)
			for k := 0; !bad && k < len(contours); k++ {
				bad = len(info.Contours[k]) != len(contours[k])
				for i := 0; !bad && i < len(contours[k]); i++ {
					p, q := info.Contours[k][i], contours[k][i]
					bad = int16(p.X) != q.X || int16(p.Y) != q.Y || p.OnCurve != q.On
				}
			}
			if bad {
				c.Fail("C11.points", "contours point counts", "SimpleGlyph.Decode returns other points than were assembled (%s)", desc)
			}
			enc := gg.Encode()
			gg2, err := glyf.Decode(enc)
			if err != nil || len(gg2) != 1 || !cmp.Equal(gg[0], gg2[0], cmpopts.EquateEmpty()) {
				c.Fail("C11.roundtrip", "point counts", "Encode/Decode changes the glyph (err=%v) (%s)", err, desc)
			}
		})
}

func c11Scaled(r *run.Run) {
	sizes := []int{0xFFFC, 0xFFFE, 0x10000, 0x10002, 0x1FFFC, 0x1FFFE, 0x20000, 0x20002}
	r.Explore(explore.Config{Name: "C11.scaled"}, "scaled glyph sets: total glyf size just below/at/above 64 KiB and 128 KiB (short/long loca switch), and glyph counts 1, 2, 65535: Decode(Encode(gs)) == gs with a well-formed loca",
		func(c *explore.Ctx) {
			var gg glyf.Glyphs
			var desc string
			if c.Bool("many glyphs") {
				n := explore.Pick(c, "count", 1, 2, 65535)
				for i := 0; i < n; i++ {
					if i%3 == 1 {
						gg = append(gg, nil)
					} else {
						gg = append(gg, &glyf.Glyph{Rect16: funit.Rect16{URx: 10, URy: 10}, Data: glyf.SimpleGlyph{NumContours: 1, Encoded: []byte{0, 0, 0, 0, 0x31}}})
					}
				}
				desc = fmt.Sprintf("%d glyphs", n)
			} else {
				total := sizes[c.Choose(len(sizes), "total size")]
				// one big glyph (instructions as filler) + a small one + an empty one
				small := &glyf.Glyph{Rect16: funit.Rect16{URx: 10, URy: 10}, Data: glyf.SimpleGlyph{NumContours: 1, Encoded: []byte{0, 0, 0, 0, 0x31}}}
				fill := total - 16 - 10 - 2 - 2 - 1 // small glyph (16 with padding), header, endPts, instruction length, flag
				if fill%2 != 0 {
					fill--
				}
				body := []byte{0, 0, byte(fill >> 8), byte(fill)}
				if fill > 0xFFFF {
					// two big glyphs
					half := fill / 2
					if half%2 != 0 {
						half--
					}
					b1 := append([]byte{0, 0, byte(half >> 8), byte(half)}, make([]byte, half)...)
					b1 = append(b1, 0x31)
					gg = append(gg, &glyf.Glyph{Data: glyf.SimpleGlyph{NumContours: 1, Encoded: b1}})
					fill -= half + 15
					if fill%2 != 0 {
						fill--
					}
					body = []byte{0, 0, byte(fill >> 8), byte(fill)}
				}
				body = append(body, make([]byte, fill)...)
				body = append(body, 0x31)
				gg = append(gg, &glyf.Glyph{Data: glyf.SimpleGlyph{NumContours: 1, Encoded: body}}, nil, small)
				desc = fmt.Sprintf("target total %#x", total)
			}
			c.Sample(func() any { return desc })
			c.Nontrivial()
			enc := gg.Encode()
			c.Outcome(len(enc.GlyfData), enc.LocaFormat, len(enc.LocaData))
			if probs := checkLoca(enc, len(gg)); len(probs) > 0 {
				c.Fail("C11.loca", "loca scaled", "%s (%s, glyf %d bytes, loca format %d)", probs[0], desc, len(enc.GlyfData), enc.LocaFormat)
			}
			gg2, err := glyf.Decode(enc)
			if err != nil {
				c.Fail("C11.roundtrip", "scaled", "Decode(Encode(gs)) fails: %v (%s, glyf %d bytes, loca format %d)", err, desc, len(enc.GlyfData), enc.LocaFormat)
				return
			}
			if len(gg2) != len(gg) {
				c.Fail("C11.roundtrip", "scaled", "%d glyphs come back as %d", len(gg), len(gg2))
				return
			}
			for i := range gg {
				if !cmp.Equal(gg[i], gg2[i], cmpopts.EquateEmpty()) {
					c.Fail("C11.roundtrip", "scaled", "glyph %d differs after the round trip (%s)", i, desc)
					break
				}
			}
		})
}

func init() {
	Register("C11", func(r *run.Run) {
		r.Rule = "bounded exhaustive enumeration of glyph sets assembled by an independent assembler; independent simple-glyph decoder"
		r.Assume = []string{"coordinates from the 8/16-bit boundary set; at most 3 glyphs per enumerated set, plus scaled sets"}
		c11Scaled(r)
		c11PointCounts(r)
		c11Sets(r)
	})
}
