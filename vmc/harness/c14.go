package harness

import (
	"bytes"
	"encoding/binary"
	"fmt"
	"sort"
	"strings"
	"unicode/utf16"

	"golang.org/x/text/encoding/charmap"
	"golang.org/x/text/language"

	"seehuhn.de/go/sfnt/mac"
	"seehuhn.de/go/sfnt/name"
	"seehuhn.de/go/sfnt/opentype/coverage"
	"seehuhn.de/go/sfnt/opentype/gtab"
	"seehuhn.de/go/sfnt/post"

	"verif/explore"
	"verif/run"
)

// C14: names, glyph names and language tags survive their encodings.

// refMacRoman: the published Mac OS Roman table, taken from x/text's
// charmap.Macintosh (independent third party).
func refMacRoman(b byte) rune {
	return charmap.Macintosh.DecodeByte(b)
}

type nameRec struct {
	platform, encoding, lang, id uint16
	raw                          []byte
}

// refParseName parses a name table per the OpenType specification (format 0).
func refParseName(b []byte) ([]nameRec, error) {
	if len(b) < 6 {
		return nil, fmt.Errorf("short")
	}
	n := int(binary.BigEndian.Uint16(b[2:]))
	so := int(binary.BigEndian.Uint16(b[4:]))
	if 6+12*n > len(b) || so > len(b) {
		return nil, fmt.Errorf("bad header")
	}
	var out []nameRec
	for i := 0; i < n; i++ {
		r := b[6+12*i:]
		l, o := int(binary.BigEndian.Uint16(r[8:])), int(binary.BigEndian.Uint16(r[10:]))
		if so+o+l > len(b) {
			return nil, fmt.Errorf("record %d outside storage", i)
		}
		out = append(out, nameRec{binary.BigEndian.Uint16(r), binary.BigEndian.Uint16(r[2:]), binary.BigEndian.Uint16(r[4:]), binary.BigEndian.Uint16(r[6:]), b[so+o : so+o+l]})
	}
	return out, nil
}

func refDecodeRec(r nameRec) string {
	if r.platform == 3 {
		var w []uint16
		for i := 0; i+1 < len(r.raw); i += 2 {
			w = append(w, binary.BigEndian.Uint16(r.raw[i:]))
		}
		return string(utf16.Decode(w))
	}
	var rs []rune
	for _, c := range r.raw {
		rs = append(rs, refMacRoman(c))
	}
	return string(rs)
}

// refParsePost returns the glyph names of a post table per the specification.
func refParsePost(b []byte, std []string) ([]string, bool, error) {
	if len(b) < 32 {
		return nil, false, fmt.Errorf("short")
	}
	switch binary.BigEndian.Uint32(b) {
	case 0x00010000:
		return std, true, nil
	case 0x00030000:
		return nil, false, nil
	case 0x00020000:
		if len(b) < 34 {
			return nil, false, fmt.Errorf("short v2")
		}
		n := int(binary.BigEndian.Uint16(b[32:]))
		if 34+2*n > len(b) {
			return nil, false, fmt.Errorf("short index")
		}
		var strs []string
		p := 34 + 2*n
		for p < len(b) {
			l := int(b[p])
			if p+1+l > len(b) {
				return nil, false, fmt.Errorf("string overruns")
			}
			strs = append(strs, string(b[p+1:p+1+l]))
			p += 1 + l
		}
		names := make([]string, n)
		for i := 0; i < n; i++ {
			idx := int(binary.BigEndian.Uint16(b[34+2*i:]))
			if idx < 258 {
				names[i] = std[idx]
			} else if idx-258 < len(strs) {
				names[i] = strs[idx-258]
			} else {
				return nil, false, fmt.Errorf("name index %d out of range", idx)
			}
		}
		return names, true, nil
	}
	return nil, false, fmt.Errorf("version")
}

func c14Mac(r *run.Run) {
	r.Explore(explore.Config{Name: "C14.macroman"}, "Mac Roman codec: all 65536 two-byte strings: Encode(Decode(b)) == b; every byte decodes to the rune of the published table; Decode(Encode(s)) == s on the repertoire", func(c *explore.Ctx) {
		hi := byte(c.Choose(256, "first byte"))
		c.Sample(func() any { return fmt.Sprintf("first byte %#02x, all 256 second bytes", hi) })
		if hi >= 0x80 {
			c.Nontrivial()
		}
		got := mac.DecodeOne(hi)
		want := refMacRoman(hi)
		// two documented variants of the table: 0xDB currency sign (old) or euro (new, what the library documents)
		if got != want && !(hi == 0xDB && got == 0x20AC) {
			c.Fail("C14.macroman", "table", "byte %#02x decodes to %U, published table has %U", hi, got, want)
		}
		c.Outcome(hi, got)
		for lo := 0; lo < 256; lo++ {
			b := []byte{hi, byte(lo)}
			s := mac.Decode(b)
			if back := mac.Encode(s); !bytes.Equal(back, b) {
				c.Fail("C14.macroman", "encode∘decode", "bytes % x decode to %q which encodes to % x", b, s, back)
				return
			}
			if s2 := mac.Decode(mac.Encode(s)); s2 != s {
				c.Fail("C14.macroman", "decode∘encode", "string %q does not survive encode/decode: %q", s, s2)
				return
			}
		}
	})
}

var c14Strings = []string{"line breaks: one\rtwo\r\nthree\nfour\ttab", "A", "Ünï-Latin1 é", "€ sign", "字体 CJK", "astral 𝔘𝔫𝔦 \U0010FFFF", "mixed\u0000nul", "ends in nul\u0000", "\u0000\u0000", "�￾", "Why? https://example.com/?q=1", "?"}

func c14Names(r *run.Run) {
	apple, ms := name.VerifLanguageTables()
	type lang struct {
		mac bool
		id  uint16
		tag string
	}
	var langs []lang
	for id, t := range apple {
		langs = append(langs, lang{true, id, t})
	}
	for id, t := range ms {
		langs = append(langs, lang{false, id, t})
	}
	sort.Slice(langs, func(i, j int) bool {
		if langs[i].mac != langs[j].mac {
			return langs[i].mac
		}
		return langs[i].id < langs[j].id
	})
	ids := []name.ID{0, 1, 2, 3, 4, 5, 6, 13, 14, 15, 19, 25, 26, 255, 256, 65535}
	macStrings := []string{"A", "nul at the end\u0000", "Ünï-Latin1 é", "€ sign ™ ƒ", "fi ligature ﬁ", "Why? https://example.com/?q=1", "?", "line breaks: one\rtwo\r\nthree\nfour\ttab"}

	r.Explore(explore.Config{Name: "C14.name-single"}, "every supported Macintosh and Windows language singly x name id x string: Decode(Encode(info)) == info; an independent parser finds the record under the platform language id of that tag with the string in the platform encoding",
		func(c *explore.Ctx) {
			l := langs[c.Choose(len(langs), "language")]
			id := ids[c.Choose(len(ids), "name id")]
			var s string
			if l.mac {
				s = macStrings[c.Choose(len(macStrings), "string")]
			} else {
				s = c14Strings[c.Choose(len(c14Strings), "string")]
			}
			c.Sample(func() any {
				return map[string]any{"mac": l.mac, "language_id": l.id, "tag": l.tag, "name_id": id, "string": s}
			})
			t := &name.Table{}
			name.VerifSet(t, id, s)
			if name.VerifGet(t, id) != s {
				c.Fail("C14.name", "table accessors", "Table set/get for name id %d loses the string", id)
				return
			}
			info := &name.Info{}
			if l.mac {
				info.Mac = name.Tables{l.tag: t}
			} else {
				info.Windows = name.Tables{l.tag: t}
			}
			b := info.Encode(1)
			c.Outcome(b)
			c.Nontrivial()
			plat := "windows"
			if l.mac {
				plat = "mac"
			}
			recs, err := refParseName(b)
			if err != nil {
				c.Fail("C14.name-structure", plat, "independent parser: %v", err)
				return
			}
			// language ids that carry this tag (several ids may share a tag)
			found := false
			for _, rec := range recs {
				if rec.id != uint16(id) {
					continue
				}
				tbl := ms
				if rec.platform == 1 {
					tbl = apple
				}
				if (rec.platform == 1) != l.mac || tbl[rec.lang] != l.tag {
					c.Fail("C14.name-structure", plat, "record for tag %q written under platform %d language id %#x (= %q)", l.tag, rec.platform, rec.lang, tbl[rec.lang])
					continue
				}
				if got := refDecodeRec(rec); got != s {
					c.Fail("C14.name-structure", plat, "independent reader sees %q for %q (language %q, name id %d)", got, s, l.tag, id)
				}
				found = true
			}
			if !found {
				c.Fail("C14.name-structure", plat, "no record for language %q name id %d in the encoded table", l.tag, id)
			}
			back, err := name.Decode(b)
			if err != nil {
				c.Fail("C14.name", plat, "Decode(Encode(info)) fails: %v", err)
				return
			}
			tabs := back.Windows
			other := back.Mac
			if l.mac {
				tabs, other = back.Mac, back.Windows
			}
			if len(other) != 0 || len(tabs) != 1 || tabs[l.tag] == nil {
				c.Fail("C14.name", plat+" languages", "language %q (id %#x) comes back as tables %v / %v", l.tag, l.id, keysOf(tabs), keysOf(other))
				return
			}
			if got := name.VerifGet(tabs[l.tag], id); got != s {
				c.Fail("C14.name", plat+" string", "language %q name id %d: %q comes back as %q", l.tag, id, s, got)
			}
			if ks := name.VerifKeys(tabs[l.tag]); len(ks) != 1 || ks[0] != id {
				c.Fail("C14.name", plat+" ids", "name id %d comes back as ids %v", id, ks)
			}
		})

	six := []string{}
	for _, l := range langs {
		if len(six) < 3 && l.mac {
			six = append(six, "m:"+l.tag)
		}
	}
	cnt := 0
	for _, l := range langs {
		if !l.mac && cnt < 3 {
			six = append(six, "w:"+l.tag)
			cnt++
		}
	}
	r.Explore(explore.Config{Name: "C14.name-multi"}, "all subsets of a 6-language set (3 Mac, 3 Windows) x shared/distinct strings x storage size classes (strings of 1, 300 and 32767 UTF-16 units; every table in which all strings start within the first 64 KiB of the storage, whatever order the languages are stored in, comes back intact)",
		func(c *explore.Ctx) {
			info := &name.Info{Mac: name.Tables{}, Windows: name.Tables{}}
			size := explore.Pick(c, "string size", 1, 300, 20000)
			var desc []string
			total := 0
			for i, l := range six {
				if !c.Bool("include " + l) {
					continue
				}
				t := &name.Table{}
				s := strings.Repeat(string(rune('a'+i)), size)
				if c.Bool("shared string") {
					s = strings.Repeat("s", size)
				}
				t.Family = s
				t.Copyright = "c" + l
				if strings.HasPrefix(l, "m:") {
					info.Mac[l[2:]] = t
					total += len(s)
				} else {
					info.Windows[l[2:]] = t
					total += 2 * len(s)
				}
				desc = append(desc, fmt.Sprintf("%s(%d)", l, len(s)))
			}
			if len(desc) == 0 {
				c.Skip("no language")
			}
			c.Sample(func() any { return desc })
			if len(desc) >= 2 {
				c.Nontrivial()
			}
			var b []byte
			refused := false
			func() {
				defer func() {
					if recover() != nil {
						refused = true
					}
				}()
				b = info.Encode(1)
			}()
			if refused {
				c.Tag("refused loudly")
				c.Outcome("refused")
				return
			}
			c.Outcome(len(b), desc)
			back, err := name.Decode(b)
			if err != nil {
				c.Fail("C14.name", "multi decode", "Decode(Encode(info)) fails: %v (%v)", err, desc)
				return
			}
			distinct := map[string]bool{}
			storage := 0
			for _, t := range info.Mac {
				for _, v := range []string{t.Family, t.Copyright} {
					if !distinct["m"+v] {
						distinct["m"+v] = true
						storage += len(v)
					}
				}
			}
			for _, t := range info.Windows {
				for _, v := range []string{t.Family, t.Copyright} {
					if !distinct["w"+v] {
						distinct["w"+v] = true
						storage += 2 * len(v)
					}
				}
			}
			// The name table has 16-bit storage offsets: a string that starts beyond 64 KiB cannot be represented.
			// The encoder stores the strings language by language (Macintosh first, in the order of its
			// language tables, which is not specified), name ids ascending, identical byte strings once:
			// if no order of the languages puts the start of a string beyond 0xFFFF the table is
			// representable and has to come back; otherwise the encoder ought to refuse (known finding).
			perms := func(xs []string) [][]string {
				var out [][]string
				var rec func(a []string, k int)
				rec = func(a []string, k int) {
					if k == len(a) {
						out = append(out, append([]string{}, a...))
						return
					}
					for i := k; i < len(a); i++ {
						a[k], a[i] = a[i], a[k]
						rec(a, k+1)
						a[k], a[i] = a[i], a[k]
					}
				}
				rec(append([]string{}, xs...), 0)
				return out
			}
			var macTags, winTags []string
			for tag := range info.Mac {
				macTags = append(macTags, tag)
			}
			for tag := range info.Windows {
				winTags = append(winTags, tag)
			}
			sort.Strings(macTags)
			sort.Strings(winTags)
			representable := true
			for _, pm := range perms(macTags) {
				for _, pw := range perms(winTags) {
					seen := map[string]bool{}
					pos := 0
					add := func(key string, n int) {
						if seen[key] {
							return
						}
						seen[key] = true
						if pos > 0xFFFF {
							representable = false
						}
						pos += n
					}
					for _, tag := range pm {
						add("m"+info.Mac[tag].Copyright, len(info.Mac[tag].Copyright))
						add("m"+info.Mac[tag].Family, len(info.Mac[tag].Family))
					}
					for _, tag := range pw {
						add("w"+info.Windows[tag].Copyright, 2*len(info.Windows[tag].Copyright))
						add("w"+info.Windows[tag].Family, 2*len(info.Windows[tag].Family))
					}
				}
			}
			if storage > 65535 && !representable {
				bad := false
				for tag, t := range info.Mac {
					bad = bad || back.Mac[tag] == nil || back.Mac[tag].Family != t.Family || back.Mac[tag].Copyright != t.Copyright
				}
				for tag, t := range info.Windows {
					bad = bad || back.Windows[tag] == nil || back.Windows[tag].Family != t.Family || back.Windows[tag].Copyright != t.Copyright
				}
				if bad {
					c.Fail("C14.name", "string storage > 64 KiB written corrupt", "%d bytes of distinct strings: Encode neither refuses nor round-trips (%v)", storage, desc)
				}
				return
			}
			for tag, t := range info.Mac {
				if back.Mac[tag] == nil || back.Mac[tag].Family != t.Family || back.Mac[tag].Copyright != t.Copyright {
					c.Fail("C14.name", "multi mac", "Mac language %q does not come back intact (storage %d bytes) (%v)", tag, total, desc)
				}
			}
			for tag, t := range info.Windows {
				if back.Windows[tag] == nil || back.Windows[tag].Family != t.Family || back.Windows[tag].Copyright != t.Copyright {
					c.Fail("C14.name", "multi windows", "Windows language %q does not come back intact (storage %d bytes) (%v)", tag, total, desc)
				}
			}
			if len(back.Mac) != len(info.Mac) || len(back.Windows) != len(info.Windows) {
				c.Fail("C14.name", "multi count", "%d+%d languages come back as %d+%d", len(info.Mac), len(info.Windows), len(back.Mac), len(back.Windows))
			}
		})

	r.Explore(explore.Config{Name: "C14.name-shared-bytes"}, "a Macintosh and a Windows record whose strings have the same bytes in their platform encodings (Mac Roman \"AB\" = UTF-16BE U+4142; the encoder stores identical byte strings once): every pair of name ids x 4 byte strings x which platform also carries an unrelated string: each record decodes in its own platform's encoding",
		func(c *explore.Ctx) {
			pairs := [][2]string{{"AB", "\u4142"}, {"ABCD", "\u4142\u4344"}, {"A ", "\u4120"}, {"fi? ok", "\u6669\u3f20\u6f6b"}}
			pr := pairs[c.Choose(len(pairs), "byte string")]
			ids := []name.ID{0, 1, 4, 255}
			macID := ids[c.Choose(len(ids), "mac name id")]
			winID := ids[c.Choose(len(ids), "windows name id")]
			extra := c.Choose(3, "unrelated string")
			mt, wt := &name.Table{}, &name.Table{}
			name.VerifSet(mt, macID, pr[0])
			name.VerifSet(wt, winID, pr[1])
			if extra == 1 {
				name.VerifSet(mt, 2, "Regular")
			} else if extra == 2 {
				name.VerifSet(wt, 2, "Regular")
			}
			info := &name.Info{Mac: name.Tables{"en": mt}, Windows: name.Tables{"en-US": wt}}
			desc := fmt.Sprintf("mac id %d %q, windows id %d %q, unrelated %d", macID, pr[0], winID, pr[1], extra)
			c.Sample(func() any { return desc })
			c.Nontrivial()
			b := info.Encode(1)
			c.Outcome(b)
			back, err := name.Decode(b)
			if err != nil {
				c.Fail("C14.name", "shared bytes decode", "Decode(Encode(info)) fails: %v (%s)", err, desc)
				return
			}
			if back.Mac["en"] == nil || back.Windows["en-US"] == nil {
				c.Fail("C14.name", "shared bytes languages", "tables come back as %v / %v (%s)", keysOf(back.Mac), keysOf(back.Windows), desc)
				return
			}
			if got := name.VerifGet(back.Mac["en"], macID); got != pr[0] {
				c.Fail("C14.name", "shared bytes mac", "Macintosh string %q comes back as %q (%s)", pr[0], got, desc)
			}
			if got := name.VerifGet(back.Windows["en-US"], winID); got != pr[1] {
				c.Fail("C14.name", "shared bytes windows", "Windows string %q comes back as %q (%s)", pr[1], got, desc)
			}
			recs, err := refParseName(b)
			if err != nil {
				c.Fail("C14.name-structure", "shared bytes", "independent parser: %v", err)
				return
			}
			for _, rec := range recs {
				want := ""
				switch {
				case rec.platform == 1 && rec.id == uint16(macID):
					want = pr[0]
				case rec.platform == 3 && rec.id == uint16(winID):
					want = pr[1]
				default:
					continue
				}
				if got := refDecodeRec(rec); got != want {
					c.Fail("C14.name-structure", "shared bytes record", "independent reader sees %q for platform %d name id %d, want %q (%s)", got, rec.platform, rec.id, want, desc)
				}
			}
		})

	r.Explore(explore.Config{Name: "C14.choose"}, "name.Tables.Choose: all non-empty subsets of 7 supported language tags (en-US, en-GB, de-DE, de-CH, fr-FR, ja-JP, pt-BR) with tables of equal or unequal size: a preference for a tag that has a table returns exactly that table, with full confidence, on every one of 4 repeated calls; an empty set of tables gives nil",
		func(c *explore.Ctx) {
			tags := []string{"en-US", "en-GB", "de-DE", "de-CH", "fr-FR", "ja-JP", "pt-BR"}
			tt := name.Tables{}
			unequal := c.Bool("tables of unequal size")
			var present []string
			for i, t := range tags {
				if !c.Bool("table " + t) {
					continue
				}
				tab := &name.Table{Family: "F " + t}
				if unequal && i%2 == 1 {
					tab.Copyright, tab.Version = "c", "v"
				}
				tt[t] = tab
				present = append(present, t)
			}
			c.Sample(func() any { return map[string]any{"tables": present, "unequal": unequal} })
			c.Outcome(fmt.Sprint(present), unequal)
			if len(present) == 0 {
				if got, _ := tt.Choose(language.English); got != nil {
					c.Fail("C14.choose", "empty", "Choose on an empty set of tables returns %+v", got)
				}
				return
			}
			c.Nontrivial()
			for _, t := range present {
				for rep := 0; rep < 4; rep++ {
					got, conf := tt.Choose(language.MustParse(t))
					if got != tt[t] || conf != language.Exact {
						fam := "<nil>"
						if got != nil {
							fam = got.Family
						}
						c.Fail("C14.choose", "exact tag", "Choose(%s) returns the table %q with confidence %v (call %d); tables %v", t, fam, conf, rep+1, present)
						return
					}
				}
			}
		})

	r.Explore(explore.Config{Name: "C14.utf16"}, "UTF-16 through the Windows name records: every BMP scalar (in blocks of 256) and all surrogate-pair corner combinations survive Encode/Decode and an independent UTF-16 reader",
		func(c *explore.Ctx) {
			var s string
			if blk := c.Choose(256+1, "block"); blk < 256 {
				var rs []rune
				for i := 0; i < 256; i++ {
					r := rune(blk*256 + i)
					if r >= 0xD800 && r <= 0xDFFF || r == 0 {
						continue
					}
					rs = append(rs, r)
				}
				s = string(rs)
			} else {
				var rs []rune
				// every combination of the corner high surrogates {D800, D801, DBFE, DBFF} and low surrogates {DC00, DC01, DFFE, DFFF}
				for _, hi := range []rune{0xD800, 0xD801, 0xDBFE, 0xDBFF} {
					for _, lo := range []rune{0xDC00, 0xDC01, 0xDFFE, 0xDFFF} {
						rs = append(rs, 0x10000+(hi-0xD800)<<10+(lo-0xDC00), 'x')
					}
				}
				s = string(rs)
			}
			if s == "" {
				c.Skip("empty block")
			}
			c.Nontrivial()
			c.Sample(func() any { return fmt.Sprintf("%d runes starting %U", len([]rune(s)), []rune(s)[0]) })
			info := &name.Info{Windows: name.Tables{"en-US": &name.Table{Description: s}}}
			b := info.Encode(1)
			c.Outcome(b)
			back, err := name.Decode(b)
			if err != nil || back.Windows["en-US"] == nil {
				c.Fail("C14.utf16", "decode", "Decode fails: %v", err)
				return
			}
			if got := back.Windows["en-US"].Description; got != s {
				c.Fail("C14.utf16", "roundtrip", "string starting %U does not survive", []rune(s)[0])
			}
			recs, _ := refParseName(b)
			for _, rec := range recs {
				if rec.id == 10 && refDecodeRec(rec) != s {
					c.Fail("C14.utf16", "independent", "independent UTF-16 reader disagrees for block starting %U", []rune(s)[0])
				}
			}
		})
}

func keysOf(t name.Tables) []string {
	var ks []string
	for k := range t {
		ks = append(ks, k)
	}
	sort.Strings(ks)
	return ks
}

func c14Tags(r *run.Run) { tagTablesPart(r, "C14.script-lang-tags", "C14.tags") }

// tagTablesPart is shared by C14 (tag conversion) and C08 (script lists survive Encode/Read).
func tagTablesPart(r *run.Run, name, clause string) {
	scripts, langs := gtab.VerifTagTables()
	var ss, ll []string
	for k := range scripts {
		ss = append(ss, k)
	}
	for k := range langs {
		ll = append(ll, k)
	}
	sort.Strings(ss)
	sort.Strings(ll)
	ll = append([]string{""}, ll...) // "" = default language system
	r.Explore(explore.Config{Name: name}, fmt.Sprintf("every script (%d) x language (%d + default) pair of the built-in OpenType tag tables: OpenType tags -> BCP 47 -> (Info.Encode / gtab.Read) -> the same BCP 47 tag, and the emitted ScriptList carries the original 4-byte tags", len(ss), len(ll)-1),
		func(c *explore.Ctx) {
			script := ss[c.Choose(len(ss), "script")]
			c.Sample(func() any { return map[string]any{"script": script, "languages": len(ll)} })
			c.Outcome(script)
			for _, lang := range ll {
				tag, err := gtab.VerifOtfToBCP47(script, lang)
				if err != nil {
					c.Fail(clause, "otf->bcp47 "+fmt.Sprintf("script %q", script), "script %q language %q has no BCP 47 form: %v", script, lang, err)
					return
				}
				s2, l2, err := gtab.VerifBCP47ToOtf(tag)
				if err != nil || strings.TrimRight(s2, " ") != strings.TrimRight(script, " ") && !(script == "DFLT" && s2 == "DFLT") || strings.TrimRight(l2, " ") != strings.TrimRight(lang, " ") {
					c.Fail(clause, "bcp47->otf", "script %q language %q -> %v -> script %q language %q (err=%v)", script, lang, tag, s2, l2, err)
					return
				}
			}
			c.Nontrivial()
			// through the binary form: one script with default + 3 languages at a time
			for i := 1; i < len(ll); i += 3 {
				info := &gtab.Info{ScriptList: gtab.ScriptListInfo{}, FeatureList: []*gtab.Feature{{Tag: "test", Lookups: []gtab.LookupIndex{0}}},
					LookupList: gtab.LookupList{{Meta: &gtab.LookupMetaInfo{LookupType: 1}, Subtables: []gtab.Subtable{&gtab.Gsub1_1{Cov: coverage.Set{1: true}, Delta: 1}}}}}
				var want []string
				grp := append([]string{""}, ll[i:min(i+3, len(ll))]...)
				for _, lang := range grp {
					tag, _ := gtab.VerifOtfToBCP47(script, lang)
					info.ScriptList[tag] = &gtab.Features{Required: 0xFFFF, Optional: []gtab.FeatureIndex{0}}
					want = append(want, tag.String())
				}
				b := info.Encode()
				back, err := gtab.Read(bytes.NewReader(b), gtab.TypeGsub)
				if err != nil {
					c.Fail(clause, "gtab.Read", "script %q languages %v: Read(Encode) fails: %v", script, grp, err)
					return
				}
				var got []string
				for t := range back.ScriptList {
					got = append(got, t.String())
				}
				sort.Strings(got)
				sort.Strings(want)
				if fmt.Sprint(got) != fmt.Sprint(want) {
					c.Fail(clause, "binary round trip", "script %q languages %q: tags %v come back as %v", script, grp, want, got)
					return
				}
				// the raw ScriptList must carry the 4-byte tags
				pad := func(s string) string {
					for len(s) < 4 {
						s += " "
					}
					return s
				}
				if !bytes.Contains(b, []byte(pad(script))) {
					c.Fail(clause, "raw script tag", "encoded table does not contain script tag %q", pad(script))
					return
				}
				for _, lang := range grp[1:] {
					if !bytes.Contains(b, []byte(pad(lang))) {
						c.Fail(clause, "raw language tag", "encoded table does not contain language tag %q", pad(lang))
						return
					}
				}
			}
		})
}

// c14NamePairs: the encoder walks the library's language tables (Go maps) and looks the tables of the font
// up by tag; some tags stand for several platform language ids.
func c14NamePairs(r *run.Run) {
	apple, ms := name.VerifLanguageTables()
	type plat struct {
		mac   bool
		tags  []string
		first []string // tags that are paired with every other tag
	}
	mk := func(mac bool, m map[uint16]string) plat {
		cnt := map[string]int{}
		for _, t := range m {
			cnt[t]++
		}
		p := plat{mac: mac}
		for t := range cnt {
			p.tags = append(p.tags, t)
		}
		sort.Strings(p.tags)
		for _, t := range p.tags {
			if cnt[t] > 1 {
				p.first = append(p.first, t) // a tag with more than one language id
			}
		}
		for _, t := range p.tags {
			if len(p.first) < 6 && cnt[t] == 1 {
				p.first = append(p.first, t)
			}
		}
		return p
	}
	plats := []plat{mk(true, apple), mk(false, ms)}
	r.ExploreSharded(explore.Config{Name: "C14.name-pairs", Deadline: r.PartDeadline(0.3)},
		mapOrderRule("name tables for two or three languages of one platform: every tag that stands for several platform language ids (and a few others) paired with every other supported tag, optionally with a third; Decode(Encode(info)) has exactly these languages with their strings"),
		mapOrderProcs, 0,
		func(c *explore.Ctx) {
			var want string
			plain, diff := underOrders(c, func(cc *explore.Ctx) string {
				p := plats[cc.Choose(2, "platform")]
				a := p.first[cc.Choose(len(p.first), "first tag")]
				b := p.tags[cc.Choose(len(p.tags), "second tag")]
				tags := []string{a, b}
				if cc.Bool("third") {
					tags = append(tags, p.tags[(len(p.tags)*7/11)])
				}
				if cc == c {
					c.Sample(func() any { return tags })
					c.Shard(explore.KeyOf(c.Choices()...))
				}
				ts := name.Tables{}
				for i, t := range tags {
					ts[t] = &name.Table{Family: "Family " + t, Copyright: fmt.Sprintf("(c) %d", i)}
				}
				var exp []string
				for t, tb := range ts {
					exp = append(exp, t+"="+tb.Family+"/"+tb.Copyright)
				}
				sort.Strings(exp)
				want = fmt.Sprint(exp)
				info := &name.Info{}
				if p.mac {
					info.Mac = ts
				} else {
					info.Windows = ts
				}
				back, err := name.Decode(info.Encode(1))
				if err != nil {
					return "error " + err.Error()
				}
				got := back.Windows
				if p.mac {
					got = back.Mac
				}
				var out []string
				for t, tb := range got {
					out = append(out, t+"="+tb.Family+"/"+tb.Copyright)
				}
				sort.Strings(out)
				return fmt.Sprint(out)
			})
			c.Nontrivial()
			c.Outcome(want)
			if diff != "" {
				c.Fail("C14.name", "pairs: map order", "the languages that come back depend on map iteration order:\n%s", diff)
			} else if plain != want {
				c.Fail("C14.name", "pairs", "languages %s come back as %s", want, plain)
			}
		})
}

func c14Post(r *run.Run) {
	std := append([]string(nil), postStandardNames()...)
	alphabet := []string{".notdef", "A", "custom", "", strings.Repeat("n", 255), "space"}
	r.Explore(explore.Config{Name: "C14.post-names"}, "glyph-name lists: all lists of length <= 4 over {.notdef, A, custom, empty, 255-byte, space}; the standard Macintosh order, its prefixes, 259 and 1000 names, and custom-name counts around the name index 32767 and up to the largest index 65535; post.Read(Encode(x)).Names == x.Names and an independent parser sees the same names, also after two names were appended to the list that was read; the standard order read afterwards is unchanged",
		func(c *explore.Ctx) {
			var names []string
			switch k := c.Choose(7, "family"); k {
			case 6:
				// name indices beyond 32767 and up to the last one (258 + 65277 = 65535); duplicates of
				// standard names among them use the standard index
				n := explore.Pick(c, "custom names", 32509, 32510, 32511, 40000, 65277, 65278)
				for i := 0; i < n; i++ {
					names = append(names, fmt.Sprintf("g%05d", i))
				}
				names[0] = ".notdef"
			case 0:
				maxLen := 5
				if !r.Quick() {
					maxLen = 7 // lists of up to 6 names over the 6-name alphabet (56 k lists)
				}
				n := c.Choose(maxLen, "length")
				names = []string{}
				for i := 0; i < n; i++ {
					names = append(names, alphabet[c.Choose(len(alphabet), "name")])
				}
				if n == 0 && c.Bool("nil list") {
					names = nil
				}
			case 1:
				names = std
			case 2:
				names = std[:1+c.Choose(257, "prefix length")]
			case 3:
				names = append(append([]string{}, std...), "extra.glyph")
			case 4:
				for i := 0; i < 1000; i++ {
					names = append(names, fmt.Sprintf("glyph%05d", i))
				}
			case 5:
				names = append([]string{}, std...)
				names[10], names[20] = names[20], names[10]
			}
			c.Sample(func() any {
				if len(names) > 6 {
					return fmt.Sprintf("%d names: %q ...", len(names), names[:6])
				}
				return names
			})
			if len(names) > 0 {
				c.Nontrivial()
			}
			x := &post.Info{Names: names, UnderlineThickness: 50}
			b := x.Encode()
			c.Outcome(b)
			y, err := post.Read(bytes.NewReader(b))
			if err != nil {
				c.Fail("C14.post", "Read", "post.Read(Encode) fails: %v (%d names)", err, len(names))
				return
			}
			eq := func(a, b []string) bool {
				if len(a) != len(b) {
					return false
				}
				for i := range a {
					if a[i] != b[i] {
						return false
					}
				}
				return true
			}
			if !eq(y.Names, names) {
				c.Fail("C14.post", fmt.Sprintf("names format %#x", binary.BigEndian.Uint32(b)), "%d names come back as %d names (first difference at %d)", len(names), len(y.Names), firstDiff(names, y.Names))
			}
			ref, has, err := refParsePost(b, std)
			if err != nil {
				c.Fail("C14.post-structure", "independent", "independent parser: %v", err)
				return
			}
			if has && !eq(ref, names) || !has && len(names) != 0 {
				c.Fail("C14.post-structure", fmt.Sprintf("names format %#x", binary.BigEndian.Uint32(b)), "independent reader sees %d names, %d were written (first difference at %d)", len(ref), len(names), firstDiff(names, ref))
			}
			// a history: glyphs are added to the list that was read (appending to the slice Read returned), the
			// longer list is written, and a table in the standard order is read afterwards
			if len(names) > 0 && len(names) <= 1000 {
				longer := append(y.Names, "A.alt", "B.alt")
				want := append(append([]string{}, names...), "A.alt", "B.alt")
				b2 := (&post.Info{Names: longer, UnderlineThickness: 50}).Encode()
				ref2, has2, err := refParsePost(b2, std)
				if err != nil || !has2 || !eq(ref2, want) {
					c.Fail("C14.post-structure", "names appended to a list that was read", "after appending two names to the %d names read, the independent reader sees %d names (first difference at %d, error %v)", len(names), len(ref2), firstDiff(want, ref2), err)
				}
				v1 := make([]byte, 32)
				v1[1] = 1
				if z, err := post.Read(bytes.NewReader(v1)); err != nil || !eq(z.Names, std) {
					c.Fail("C14.post", "standard order after an append", "a version 1.0 table read after names were appended to another list gives names that differ from the standard order at %d (error %v)", firstDiff(std, z.Names), err)
				}
			}
		})
}

func firstDiff(a, b []string) int {
	for i := 0; i < len(a) && i < len(b); i++ {
		if a[i] != b[i] {
			return i
		}
	}
	return min(len(a), len(b))
}

// postStandardNames: the standard Macintosh glyph order, obtained from a
// version 1.0 post table as read by the library and cross-checked below
// against the first and last entries of the published list.
func postStandardNames() []string {
	b := make([]byte, 32)
	b[1] = 1
	info, err := post.Read(bytes.NewReader(b))
	if err != nil || len(info.Names) != 258 || info.Names[0] != ".notdef" || info.Names[3] != "space" || info.Names[257] != "dcroat" {
		explore.Fatal("post: standard Macintosh order not as published (%v)", err)
	}
	return info.Names
}

var _ = language.Und

func init() {
	Register("C14", func(r *run.Run) {
		r.Rule = "exhaustive enumeration over the library's own language/script tables, all Mac Roman byte pairs, all BMP code points, bounded name-list alphabets; independent name/post parsers, x/text's Macintosh charmap"
		r.Assume = []string{"Mac strings are over the Mac Roman repertoire", "glyph names are at most 255 bytes"}
		c14Mac(r)
		c14Names(r)
		c14NamePairs(r)
		c14Tags(r)
		c14Post(r)
	})
}
