package harness

import (
	"bytes"
	"fmt"
	"math"
	"strings"
	"time"

	"github.com/google/go-cmp/cmp"
	"github.com/google/go-cmp/cmp/cmpopts"

	"seehuhn.de/go/geom/matrix"
	"seehuhn.de/go/postscript/cid"
	"seehuhn.de/go/postscript/funit"
	"seehuhn.de/go/postscript/type1"
	"seehuhn.de/go/sfnt/cff"
	"seehuhn.de/go/sfnt/glyph"

	"verif/explore"
	"verif/refcff"
	"verif/reft2"
	"verif/run"
)

// C13: CFF structures and numbers survive write/read (simple and CID-keyed fonts).

func c13Glyph(name string, w float64, k int) *cff.Glyph {
	g := cff.NewGlyph(name, w)
	if k%3 != 0 {
		g.MoveTo(float64(k), 0)
		g.LineTo(100, float64(10*k))
		g.LineTo(50.5, 700)
	}
	return g
}

func hasMove(g *cff.Glyph) bool { return len(g.Cmds) > 0 }

// c13Roundtrip writes, walks the bytes with the independent reader, reads back and compares.
func c13Roundtrip(c *explore.Ctx, sig string, f *cff.Font, desc any) (*refcff.Font, *cff.Font) {
	buf := &bytes.Buffer{}
	var err error
	fin, pmsg := withWatchdog(20*time.Second, func() { err = f.Write(buf) })
	if !fin {
		c.FailObserved("C13.write", sig+" / does not return", "Write does not return within 20 s; %v", desc)
		return nil, nil
	}
	if pmsg != "" {
		c.Fail("C13.write", sig+" / "+explore.PanicSignature(pmsg), "Write panics: %s; %v", pmsg, desc)
		return nil, nil
	}
	if err != nil {
		c.Fail("C13.write", sig, "Write failed: %v; %v", err, desc)
		return nil, nil
	}
	data := buf.Bytes()
	c.Outcome(data)
	rf, perr := refcff.Parse(data)
	if perr != nil {
		c.Fail("C13.structure", sig, "independent CFF reader cannot walk the output: %v; %v", perr, desc)
	} else {
		for _, p := range rf.Problems {
			c.Fail("C13.structure", sig+" / "+strings.SplitN(p, ":", 2)[0], "structural problem in the written table: %s; %v", p, desc)
			break
		}
	}
	g, err := cff.Read(bytes.NewReader(data))
	if err != nil {
		c.Fail("C13.read", sig, "Read(Write(F)) fails: %v; %v", err, desc)
		return rf, nil
	}
	return rf, g
}

var c13cmp = []cmp.Option{
	cmpopts.EquateEmpty(),
	cmpopts.EquateApprox(1e-8, 1.0/65536),
	cmp.Comparer(func(a, b cff.FDSelectFn) bool { return true }),
}

func c13Compare(c *explore.Ctx, sig string, f, g *cff.Font, desc any) {
	// FontInfo: a zero font matrix means the default
	fi, gi := *f.FontInfo, *g.FontInfo
	// matrix entries are small numbers: relative precision (nine significant digits), no absolute margin;
	// an all-zero matrix means the default
	fm, gm := fi.FontMatrix, gi.FontMatrix
	if fm == (matrix.Matrix{}) {
		fm = matrix.Matrix{0.001, 0, 0, 0.001, 0, 0}
	}
	for i := range fm {
		if math.Abs(fm[i]-gm[i]) > 1e-8*math.Max(math.Abs(fm[i]), math.Abs(gm[i]))+1e-15 {
			c.Fail("C13.fontinfo", sig+" / FontMatrix", "the font matrix %v comes back as %v (%v)", fi.FontMatrix, gi.FontMatrix, desc)
			break
		}
	}
	// (the same for the underline metrics, whose type the approximate comparison does not know)
	for _, p := range [][2]float64{{float64(fi.UnderlinePosition), float64(gi.UnderlinePosition)}, {float64(fi.UnderlineThickness), float64(gi.UnderlineThickness)}} {
		if math.Abs(p[0]-p[1]) > 1e-8*math.Max(math.Abs(p[0]), math.Abs(p[1]))+1e-15 {
			c.Fail("C13.fontinfo", sig+" / underline", "underline metric %v comes back as %v (%v)", p[0], p[1], desc)
		}
	}
	gi.UnderlinePosition, gi.UnderlineThickness = fi.UnderlinePosition, fi.UnderlineThickness
	if d := cmp.Diff(&fi, &gi, c13cmp...); d != "" {
		c.Fail("C13.fontinfo", sig+" / "+diffSig(d), "FontInfo differs after the round trip (%v):\n%s", desc, trimDiff(d))
	}
	fo, gro := *f.Outlines, *g.Outlines
	if len(fo.Glyphs) != len(gro.Glyphs) {
		c.Fail("C13.glyphs", sig, "%d glyphs come back as %d; %v", len(fo.Glyphs), len(gro.Glyphs), desc)
		return
	}
	for i := range fo.Glyphs {
		a, b := fo.Glyphs[i], gro.Glyphs[i]
		if a.Name != b.Name {
			c.Fail("C13.names", sig, "glyph %d: name %q comes back as %q; %v", i, a.Name, b.Name, desc)
			return
		}
		if math.Abs(a.Width-b.Width) > 1.0/65536+1e-12 {
			c.Fail("C13.width", sig, "glyph %d: width %v comes back as %v; %v", i, a.Width, b.Width, desc)
			return
		}
		if d := cmp.Diff(a.Cmds, b.Cmds, c13cmp...); d != "" {
			c.Fail("C13.glyphs", sig, "glyph %d: outline differs: %s", i, trimDiff(d))
			return
		}
		if fo.FDSelect(glyph.ID(i)) != gro.FDSelect(glyph.ID(i)) {
			c.Fail("C13.fdselect", sig, "glyph %d: font dict %d comes back as %d; %v", i, fo.FDSelect(glyph.ID(i)), gro.FDSelect(glyph.ID(i)), desc)
			return
		}
	}
	// real numbers of the private dictionaries to nine significant digits (the margin of c13cmp is meant for
	// coordinates)
	for i := 0; i < len(fo.Private) && i < len(gro.Private); i++ {
		a, b := fo.Private[i], gro.Private[i]
		if a == nil || b == nil {
			continue
		}
		for _, p := range [][2]float64{{a.BlueScale, b.BlueScale}, {a.StdHW, b.StdHW}, {a.StdVW, b.StdVW}} {
			if math.Abs(p[0]-p[1]) > 1e-8*math.Max(math.Abs(p[0]), math.Abs(p[1]))+1e-15 {
				c.Fail("C13.private", sig+" / real number", "private dictionary %d: %v comes back as %v (%v)", i, p[0], p[1], desc)
			}
		}
	}
	if d := cmp.Diff(fo.Private, gro.Private, c13cmp...); d != "" {
		c.Fail("C13.private", sig+" / "+diffSig(d), "private dictionaries differ (%v):\n%s", desc, trimDiff(d))
	}
	if d := cmp.Diff(fo.ROS, gro.ROS, c13cmp...); d != "" {
		c.Fail("C13.ros", sig, "ROS differs: %s", trimDiff(d))
	}
	if d := cmp.Diff(fo.GIDToCID, gro.GIDToCID, c13cmp...); d != "" {
		c.Fail("C13.cids", sig, "GID->CID map differs (%v): %s", desc, trimDiff(d))
	}
	if d := cmp.Diff(fo.FontMatrices, gro.FontMatrices, c13cmp...); d != "" {
		c.Fail("C13.matrices", sig, "font matrices differ (%v): %s", desc, trimDiff(d))
	}
	// encoding: compare as code -> glyph (an empty vector means the standard encoding of the glyph names)
	enc := func(o *cff.Outlines) []glyph.ID {
		if o.ROS != nil {
			return nil
		}
		if len(o.Encoding) == 0 {
			return cff.StandardEncoding(o.Glyphs)
		}
		return o.Encoding
	}
	if d := cmp.Diff(enc(&fo), enc(&gro), cmpopts.EquateEmpty()); d != "" {
		c.Fail("C13.encoding", sig, "built-in encoding differs (%v): %s", desc, trimDiff(d))
	}
}

func c13Info() *type1.FontInfo {
	return &type1.FontInfo{FontName: "Verif-Regular", FullName: "Verif Regular", FamilyName: "Verif", Weight: "Regular", Version: "1.000",
		FontMatrix: matrix.Matrix{0.001, 0, 0, 0.001, 0, 0}, UnderlinePosition: -100, UnderlineThickness: 50}
}

func c13Priv(k int) *type1.PrivateDict {
	return &type1.PrivateDict{BlueValues: []funit.Int16{-10, 0, funit.Int16(700 + k), funit.Int16(710 + k)}, BlueScale: 0.039625, BlueShift: 7, BlueFuzz: 1, StdHW: float64(50 + k), StdVW: 80}
}

var c13Std = []string{"space", "exclam", "A", "B", "zero", "Aacute", "Semibold", "fi", "onequarter"}

func c13Simple(r *run.Run) {
	nameSets := map[string]func(n int) []string{
		"standard in order": func(n int) []string {
			out := []string{".notdef"}
			for i := 1; i < n; i++ {
				out = append(out, stdSID(i))
			}
			return out
		},
		"standard out of order": func(n int) []string {
			out := []string{".notdef"}
			for i := 1; i < n; i++ {
				out = append(out, stdSID(1+(i*7)%228))
			}
			return dedupe(out)
		},
		"custom": func(n int) []string {
			out := []string{".notdef"}
			for i := 1; i < n; i++ {
				out = append(out, fmt.Sprintf("glyph.%03d", i))
			}
			return out
		},
		"mixed with 1-char and 127-char names": func(n int) []string {
			out := []string{".notdef"}
			for i := 1; i < n; i++ {
				switch i % 4 {
				case 0:
					out = append(out, stdSID(i))
				case 1:
					out = append(out, fmt.Sprintf("c%d", i))
				case 2:
					out = append(out, strings.Repeat("n", 120)+fmt.Sprintf("%07d", i))
				default:
					out = append(out, string(rune('a'+i%26))+fmt.Sprint(i))
				}
			}
			return out
		},
	}
	nameKinds := []string{"standard in order", "standard out of order", "custom", "mixed with 1-char and 127-char names"}
	counts := []int{1, 2, 3, 229, 230, 300}
	r.Explore(explore.Config{Name: "C13.simple"},
		"simple CFF fonts: glyph counts {1,2,3,229,230,300} x name sets (standard strings in / out of order forcing charset formats 0/1/2 and the predefined charset, custom, 1- and 127-character names) x encodings (standard, expert-like, custom with gaps, multiply encoded glyph, full 256 codes in k ranges, no code at all) x charstring payload sizes crossing the INDEX offSize boundaries",
		func(c *explore.Ctx) {
			n := counts[c.Choose(len(counts), "glyphs")]
			kind := nameKinds[c.Choose(len(nameKinds), "names")]
			names := nameSets[kind](n)
			n = len(names)
			encKind := c.Choose(7, "encoding")
			payload := explore.Pick(c, "payload per glyph (segments)", 1, 20, 300)
			f := &cff.Font{FontInfo: c13Info(), Outlines: &cff.Outlines{Private: []*type1.PrivateDict{c13Priv(0)}, FDSelect: func(glyph.ID) int { return 0 }}}
			for i, nm := range names {
				g := c13Glyph(nm, float64(400+i%5*50), i)
				if i == 1 || i == n-1 {
					if !hasMove(g) {
						g.MoveTo(1, 1)
					}
					for k := 0; k < payload; k++ {
						g.LineTo(float64(k*3), float64(700-k))
					}
				}
				f.Glyphs = append(f.Glyphs, g)
			}
			switch encKind {
			case 0:
				f.Encoding = cff.StandardEncoding(f.Glyphs)
			case 1:
				f.Encoding = nil
			case 2:
				e := make([]glyph.ID, 256)
				for i := 1; i < n && i < 40; i++ {
					e[0x20+2*i] = glyph.ID(i) // every code its own range
				}
				f.Encoding = e
			case 3:
				e := make([]glyph.ID, 256)
				for i := 1; i < n && i < 100; i++ {
					e[0x41+i-1] = glyph.ID(i)
				}
				if n > 1 {
					e[0xF0], e[0xF1] = 1, 1 // multiply encoded
				}
				f.Encoding = e
			case 5:
				// a strict subset of the standard encoding: the glyph with the largest id that has a standard code
				// is left unencoded (the others keep the contiguity rule); not the same as the standard encoding
				e := append([]glyph.ID{}, cff.StandardEncoding(f.Glyphs)...)
				top := glyph.ID(0)
				for _, g := range e {
					top = max(top, g)
				}
				if top == 0 {
					c.Skip("no glyph with a standard code")
				}
				seen := map[glyph.ID]bool{}
				for code, g := range e {
					if g == top {
						e[code] = 0
					} else if g != 0 {
						seen[g] = true
					}
				}
				for g := glyph.ID(1); int(g) <= len(seen); g++ {
					if !seen[g] {
						c.Skip("outside the documented contiguity rule: the encoded glyphs are not 1..k")
					}
				}
				f.Encoding = e
			case 6:
				f.Encoding = make([]glyph.ID, 256) // a built-in encoding that gives no glyph a code
			case 4:
				e := make([]glyph.ID, 256)
				// all 256 codes in use; the encoded glyphs are 1..k without gaps (the documented contiguity rule)
				k := min(n-1, 255)
				for code := 0; code < 256 && k > 0; code++ {
					e[code] = glyph.ID(1 + (code*7)%k)
				}
				f.Encoding = e
			}
			desc := fmt.Sprintf("%d glyphs, names %s, encoding kind %d, payload %d", n, kind, encKind, payload)
			c.Sample(func() any { return desc })
			if n > 1 {
				c.Nontrivial()
			}
			rf, g := c13Roundtrip(c, "simple", f, desc)
			if g == nil {
				return
			}
			c13Compare(c, "simple", f, g, desc)
			if rf != nil {
				// glyph names as the independent reader sees them
				for i := 1; i < n && rf.Charset != nil && i < len(rf.Charset); i++ {
					if got := rf.SIDString(rf.Charset[i]); got != names[i] {
						c.Fail("C13.structure", "simple / charset", "independent reader sees name %q for glyph %d, want %q; %v", got, i, names[i], desc)
						break
					}
				}
			}
		})
}

// c13Sizes: INDEX bodies of every size near the offSize boundaries, and
// full 256-code encodings split into k ranges.
func c13Sizes(r *run.Run) {
	r.Explore(explore.Config{Name: "C13.index-sizes"},
		"INDEX bodies swept through the offset-size boundaries: Notice string length (String INDEX), FontName length (Name INDEX) and charstring payload (CharStrings INDEX) each swept over 300 consecutive sizes around 255, and around 65535 for the String INDEX; full 256-code encodings of 257 glyphs split into k ranges for k in {1,2,3,127,128,129,200,254,255}",
		func(c *explore.Ctx) {
			f := &cff.Font{FontInfo: c13Info(), Outlines: &cff.Outlines{Private: []*type1.PrivateDict{c13Priv(0)}, FDSelect: func(glyph.ID) int { return 0 }}}
			f.Glyphs = []*cff.Glyph{c13Glyph(".notdef", 500, 1), c13Glyph("A", 600, 2)}
			var desc string
			switch c.Choose(5, "family") {
			case 0:
				n := 1 + c.Choose(300, "Notice length")
				f.FontInfo.Notice = strings.Repeat("n", n)
				desc = fmt.Sprintf("Notice of %d bytes", n)
			case 1:
				n := 65300 + c.Choose(300, "Notice length")
				f.FontInfo.Notice = strings.Repeat("N", n)
				desc = fmt.Sprintf("Notice of %d bytes", n)
			case 2:
				n := 100 + c.Choose(200, "FontName length")
				f.FontInfo.FontName = strings.Repeat("F", n)
				desc = fmt.Sprintf("FontName of %d bytes", n)
			case 3:
				n := c.Choose(150, "segments")
				for k := 0; k < n; k++ {
					f.Glyphs[1].LineTo(float64(k%7), float64(k%3))
				}
				desc = fmt.Sprintf("glyph with %d extra segments", n)
			case 4:
				k := explore.Pick(c, "ranges", 1, 2, 3, 127, 128, 129, 200, 254, 255) // 256 single-code ranges are not representable (Card8 counts)
				f.Glyphs = f.Glyphs[:1]
				for i := 1; i <= 256; i++ {
					f.Glyphs = append(f.Glyphs, c13Glyph(fmt.Sprintf("g%03d", i), 500, i))
				}
				// split the codes 0..255 into k blocks and assign the blocks to the glyphs in reverse block order
				e := make([]glyph.ID, 256)
				gid := 1
				for b := k - 1; b >= 0; b-- {
					lo, hi := b*256/k, (b+1)*256/k
					for code := lo; code < hi; code++ {
						e[code] = glyph.ID(gid)
						gid++
					}
				}
				f.Encoding = e
				desc = fmt.Sprintf("256 codes in %d ranges", k)
			}
			if f.Encoding == nil {
				f.Encoding = cff.StandardEncoding(f.Glyphs)
			}
			c.Sample(func() any { return desc })
			c.Nontrivial()
			sig := strings.SplitN(desc, " of ", 2)[0]
			_, g := c13Roundtrip(c, "sizes: "+sig, f, desc)
			if g != nil {
				c13Compare(c, "sizes: "+sig, f, g, desc)
			}
		})
}

func stdSID(i int) string {
	f := &refcff.Font{}
	return f.SIDString(i)
}

func dedupe(in []string) []string {
	seen := map[string]bool{}
	var out []string
	for _, s := range in {
		if !seen[s] {
			seen[s] = true
			out = append(out, s)
		}
	}
	return out
}

func c13CID(r *run.Run) {
	r.Explore(explore.Config{Name: "C13.cid"},
		"CID-keyed fonts: all FDSelect functions on 5 glyphs -> 3 font dicts (formats 0 vs 3), FD counts {1,2,3,256}, GID->CID maps {identity, gaps, large CIDs}, 4 patterns of per-dictionary / top-level font matrices over {identity, 1/1000, skewed}, supplements",
		func(c *explore.Ctx) {
			nfd := explore.Pick(c, "font dicts", 3, 1, 2, 256)
			n := 5
			sel := make([]int, n)
			if nfd <= 3 {
				for i := 1; i < n; i++ {
					sel[i] = c.Choose(nfd, fmt.Sprintf("FD of glyph %d", i))
				}
			} else {
				n = 300
				sel = make([]int, n)
				for i := range sel {
					sel[i] = (i * 37) % nfd
				}
			}
			cidKind := c.Choose(3, "cid map")
			f := &cff.Font{FontInfo: c13Info(), Outlines: &cff.Outlines{ROS: &cid.SystemInfo{Registry: "Adobe", Ordering: "Japan1", Supplement: int32(c.Choose(2, "supplement") * 6)}}}
			// font matrices: the per-dictionary matrices and the top-level matrix each from {identity, the
			// 1/1000 default of simple fonts, a skewed one} (the writer omits default values, and the
			// defaults of the two levels differ)
			mp := c.Choose(4, "font matrices")
			thousandth := matrix.Matrix{0.001, 0, 0, 0.001, 0, 0}
			for k := 0; k < nfd; k++ {
				f.Private = append(f.Private, c13Priv(k%50))
				m := matrix.Identity
				switch {
				case mp == 0 && k%2 == 1:
					m = matrix.Matrix{0.5, 0, 0.125, 2, 0, 0}
				case mp == 1:
					m = thousandth
				case mp == 2 && k%2 == 0:
					m = thousandth
				case mp == 3 && k%3 == 1:
					m = thousandth
				case mp == 3 && k%3 == 2:
					m = matrix.Matrix{0.5, 0, 0.125, 2, 0, 0}
				}
				f.FontMatrices = append(f.FontMatrices, m)
			}
			if mp == 1 || mp == 3 {
				f.FontInfo.FontMatrix = matrix.Identity
			}
			selCopy := append([]int{}, sel...)
			f.FDSelect = func(g glyph.ID) int { return selCopy[g] }
			for i := 0; i < n; i++ {
				f.Glyphs = append(f.Glyphs, c13Glyph("", float64(1000-i%3*100), i+1))
				switch cidKind {
				case 0:
					f.GIDToCID = append(f.GIDToCID, cid.CID(i))
				case 1:
					f.GIDToCID = append(f.GIDToCID, cid.CID((i*i+i/2*3)%65000+min(i, 1)*i/300)) // strictly increasing below 65536 for n <= 300
					if i > 0 && f.GIDToCID[i] <= f.GIDToCID[i-1] {
						f.GIDToCID[i] = f.GIDToCID[i-1] + 1
					}
				default:
					if i == 0 {
						f.GIDToCID = append(f.GIDToCID, 0)
					} else {
						f.GIDToCID = append(f.GIDToCID, cid.CID(60000+i))
					}
				}
			}
			desc := fmt.Sprintf("%d FDs, fdselect %v, cid map kind %d", nfd, sel[:min(len(sel), 8)], cidKind)
			c.Sample(func() any { return desc })
			c.Nontrivial()
			rf, g := c13Roundtrip(c, "cid", f, desc)
			if g == nil {
				return
			}
			c13Compare(c, "cid", f, g, desc)
			if rf != nil && rf.FDSelect != nil {
				for i := 0; i < n && i < len(rf.FDSelect); i++ {
					if rf.FDSelect[i] != sel[i] {
						c.Fail("C13.structure", "cid / fdselect", "independent reader sees FD %d for glyph %d, want %d; %v", rf.FDSelect[i], i, sel[i], desc)
						break
					}
				}
				for i := 0; i < n && rf.Charset != nil && i < len(rf.Charset); i++ {
					if rf.Charset[i] != int(f.GIDToCID[i]) {
						c.Fail("C13.structure", "cid / charset", "independent reader sees CID %d for glyph %d, want %d; %v", rf.Charset[i], i, f.GIDToCID[i], desc)
						break
					}
				}
			}
		})
}

// run lengths: the range-based formats (charset 1 / 2, FDSelect 3, encoding 1) pack runs into records
// with 8- and 16-bit counts, and readers fetch the records in bulk
func c13Runs(r *run.Run) {
	runLens := []int{1, 2, 255, 256, 257, 511, 512, 513, 768}
	periods := []int{1, 2, 3, 4, 5, 8}
	if !r.Quick() {
		// every run length up to just beyond four full ranges, every period up to 16
		runLens, periods = nil, nil
		for n := 1; n <= 1030; n++ {
			runLens = append(runLens, n)
		}
		for n := 1; n <= 16; n++ {
			periods = append(periods, n)
		}
	}
	r.Explore(explore.Config{Name: "C13.runs"},
		"CID-keyed fonts with a run of {1,2,255,256,257,511,512,513,768} (quick) / every length 1..1030 (thorough) consecutive CIDs followed by isolated CIDs, or 1500 glyphs whose font dictionary changes every {1,2,3,4,5,8} glyphs (up to 1500 FDSelect ranges); simple fonts with such a run of custom glyph names followed by standard names: Read(Write(F)) == F, the independent reader sees the same charset / FDSelect",
		func(c *explore.Ctx) {
			family := c.Choose(3, "family")
			var f *cff.Font
			var desc string
			var sel []int
			switch family {
			case 0: // CID runs
				run := runLens[c.Choose(len(runLens), "run length")]
				start := explore.Pick(c, "first CID of the run", 1, 100)
				f = &cff.Font{FontInfo: c13Info(), Outlines: &cff.Outlines{ROS: &cid.SystemInfo{Registry: "Adobe", Ordering: "Identity"}, Private: []*type1.PrivateDict{c13Priv(0)}, FontMatrices: []matrix.Matrix{matrix.Identity}, FDSelect: func(glyph.ID) int { return 0 }}}
				cids := []int{0}
				for i := 0; i < run; i++ {
					cids = append(cids, start+i)
				}
				cids = append(cids, start+run+10, start+run+12, start+run+14)
				for i, cd := range cids {
					f.Glyphs = append(f.Glyphs, c13Glyph("", float64(500+i%7), i%5+1))
					f.GIDToCID = append(f.GIDToCID, cid.CID(cd))
				}
				desc = fmt.Sprintf("CID-keyed, CIDs 0, %d..%d, then 3 isolated ones", start, start+run-1)
			case 1: // FDSelect ranges
				per := periods[c.Choose(len(periods), "glyphs per font dictionary run")]
				n := explore.Pick(c, "glyphs", 1500, 700)
				f = &cff.Font{FontInfo: c13Info(), Outlines: &cff.Outlines{ROS: &cid.SystemInfo{Registry: "Adobe", Ordering: "Identity"}}}
				for k := 0; k < 3; k++ {
					f.Private = append(f.Private, c13Priv(k))
					f.FontMatrices = append(f.FontMatrices, matrix.Identity)
				}
				sel = make([]int, n)
				for i := range sel {
					sel[i] = i / per % 3
					f.Glyphs = append(f.Glyphs, c13Glyph("", float64(500+i%7), i%5+1))
					f.GIDToCID = append(f.GIDToCID, cid.CID(i))
				}
				selCopy := sel
				f.FDSelect = func(g glyph.ID) int { return selCopy[g] }
				desc = fmt.Sprintf("CID-keyed, %d glyphs, font dictionary changes every %d glyphs (%d ranges)", n, per, (n+per-1)/per)
			default: // simple font: custom names (consecutive new string ids), then standard names
				run := runLens[c.Choose(len(runLens), "run length")]
				f = &cff.Font{FontInfo: c13Info(), Outlines: &cff.Outlines{Private: []*type1.PrivateDict{c13Priv(0)}, FDSelect: func(glyph.ID) int { return 0 }}}
				f.Glyphs = append(f.Glyphs, c13Glyph(".notdef", 500, 1))
				for i := 0; i < run; i++ {
					f.Glyphs = append(f.Glyphs, c13Glyph(fmt.Sprintf("custom%04d", i), float64(500+i%7), i%5+1))
				}
				for i, nm := range []string{"A", "C", "space", "zero"} {
					f.Glyphs = append(f.Glyphs, c13Glyph(nm, 600, i+1))
				}
				f.Encoding = cff.StandardEncoding(f.Glyphs)
				desc = fmt.Sprintf("simple font, %d custom names then 4 standard names", run)
			}
			c.Sample(func() any { return desc })
			c.Nontrivial()
			rf, g := c13Roundtrip(c, "runs", f, desc)
			if g == nil {
				return
			}
			c13Compare(c, "runs", f, g, desc)
			if rf != nil && sel != nil && rf.FDSelect != nil {
				for i := 0; i < len(sel) && i < len(rf.FDSelect); i++ {
					if rf.FDSelect[i] != sel[i] {
						c.Fail("C13.structure", "runs / fdselect", "independent reader sees FD %d for glyph %d, want %d; %v", rf.FDSelect[i], i, sel[i], desc)
						break
					}
				}
			}
			if rf != nil && f.GIDToCID != nil && rf.Charset != nil {
				for i := 0; i < len(f.GIDToCID) && i < len(rf.Charset); i++ {
					if rf.Charset[i] != int(f.GIDToCID[i]) {
						c.Fail("C13.structure", "runs / charset", "independent reader sees CID %d for glyph %d, want %d; %v", rf.Charset[i], i, f.GIDToCID[i], desc)
						break
					}
				}
			}
		})
}

// DICT operands as other producers write them: the library's writer always emits a real number for a
// real-valued field, but the format allows integer operands wherever a number is expected (most fonts
// store the zeros of the font matrix, an integral italic angle or underline position as integers).
func c13AssembledDicts(r *run.Run) {
	const (
		opFontMatrix  = 1207
		opItalicAngle = 1202
		opUnderlinePo = 1203
		opUnderlineTh = 1204
	)
	mats := []matrix.Matrix{{0.001, 0, 0, 0.001, 0, 0}, {0.0005, 0, 0, 0.0005, 0, 0}, {1, 0, 0, 1, 0, 0}, {0.001, 0, 0.000176, 0.001, 0, 0}, {0.00048828125, 0, 0, 0.00048828125, 0, 0}, {2, 0, 0, 3, 0, 0}}
	r.Explore(explore.Config{Name: "C13.assembled-dicts"},
		"CFF tables assembled by the independent assembler whose Top DICT (and, for CID-keyed fonts, Font DICTs) carry FontMatrix, ItalicAngle, UnderlinePosition and UnderlineThickness with the operands written as real numbers / as integers where the value is integral (the usual encoding of the zeros of a font matrix): cff.Read returns the values written",
		func(c *explore.Ctx) {
			m := mats[c.Choose(len(mats), "font matrix")]
			asInt := c.Bool("integral operands as integers")
			cid := c.Bool("CID-keyed")
			angle := explore.Pick(c, "italic angle", 0.0, -12.0, -9.5)
			under := explore.Pick(c, "underline position", -100.0, -75.5)
			num := func(v float64) any {
				if asInt && v == math.Trunc(v) {
					return int(v)
				}
				return v
			}
			var ops []any
			for _, v := range m {
				ops = append(ops, num(v))
			}
			entry := refcff.DictEntry(opFontMatrix, ops...)
			top := append([]byte{}, refcff.DictEntry(opItalicAngle, num(angle))...)
			top = append(top, refcff.DictEntry(opUnderlinePo, num(under))...)
			top = append(top, refcff.DictEntry(opUnderlineTh, num(50))...)
			spec := &refcff.AsmSpec{Name: "Asm", CharStrings: [][]byte{{14}, {139, 139, 21, 14}}, GlyphNames: []string{"A"}, Privates: []refcff.AsmPrivate{{}}}
			if cid {
				spec.CID = true
				spec.Privates = []refcff.AsmPrivate{{}, {}}
				spec.FDSelect = []int{0, 1}
				spec.FDExtra = [][]byte{entry, nil} // the second font dictionary has no matrix of its own
			} else {
				top = append(entry, top...)
			}
			spec.TopExtra = top
			desc := fmt.Sprintf("FontMatrix %v, italic angle %v, underline position %v, integral operands as integers: %v, CID-keyed: %v", m, angle, under, asInt, cid)
			c.Sample(func() any { return desc })
			c.Nontrivial()
			data := refcff.Assemble(spec)
			c.Outcome(data)
			f, err := cff.Read(bytes.NewReader(data))
			if err != nil {
				c.Fail("C13.read", "assembled dicts", "cff.Read rejects the assembled table: %v; %s", err, desc)
				return
			}
			near := func(a, b float64) bool { return math.Abs(a-b) <= 1e-9*math.Max(1, math.Abs(b)) }
			got := f.FontInfo.FontMatrix
			if cid {
				if len(f.FontMatrices) != 2 {
					c.Fail("C13.matrices", "assembled dicts", "%d font matrices for 2 font dictionaries; %s", len(f.FontMatrices), desc)
					return
				}
				got = f.FontMatrices[0]
			}
			for i := range m {
				if !near(got[i], m[i]) {
					c.Fail("C13.matrices", fmt.Sprintf("assembled dicts / integers=%v", asInt), "FontMatrix read as %v, the DICT holds %v; %s", got, m, desc)
					break
				}
			}
			if !near(f.FontInfo.ItalicAngle, angle) {
				c.Fail("C13.numbers", fmt.Sprintf("assembled dicts / ItalicAngle integers=%v", asInt), "ItalicAngle read as %v, the DICT holds %v; %s", f.FontInfo.ItalicAngle, angle, desc)
			}
			if !near(float64(f.FontInfo.UnderlinePosition), under) {
				c.Fail("C13.numbers", fmt.Sprintf("assembled dicts / UnderlinePosition integers=%v", asInt), "UnderlinePosition read as %v, the DICT holds %v; %s", f.FontInfo.UnderlinePosition, under, desc)
			}
			if !near(float64(f.FontInfo.UnderlineThickness), 50) {
				c.Fail("C13.numbers", fmt.Sprintf("assembled dicts / UnderlineThickness integers=%v", asInt), "UnderlineThickness read as %v, the DICT holds 50; %s", f.FontInfo.UnderlineThickness, desc)
			}
		})
}

// the predefined charsets (a file refers to them by id instead of storing a charset): prefixes and the full length
func c13Predefined(r *run.Run) {
	full := []int{229, 166, 87}
	r.Explore(explore.Config{Name: "C13.predefined-charsets"},
		"CFF tables assembled with the predefined charsets ISOAdobe (229 glyphs), Expert (166) and ExpertSubset (87) and 2, 3, n-1 and n glyphs: cff.Read accepts them; for ISOAdobe the glyph names are the standard strings 1..228 in order",
		func(c *explore.Ctx) {
			id := c.Choose(3, "predefined charset")
			n := []int{2, 3, full[id] - 1, full[id]}[c.Choose(4, "glyphs")]
			spec := &refcff.AsmSpec{Name: "Pre", Predefined: id + 1, Privates: []refcff.AsmPrivate{{}}}
			for i := 0; i < n; i++ {
				spec.CharStrings = append(spec.CharStrings, []byte{139, 139, 21, 14})
			}
			desc := fmt.Sprintf("predefined charset %d with %d glyphs", id, n)
			c.Sample(func() any { return desc })
			c.Nontrivial()
			data := refcff.Assemble(spec)
			c.Outcome(desc)
			f, err := cff.Read(bytes.NewReader(data))
			if err != nil {
				c.Fail("C13.read", "predefined charset", "cff.Read rejects a table with %s: %v", desc, err)
				return
			}
			if len(f.Glyphs) != n {
				c.Fail("C13.read", "predefined charset", "%d glyphs read, %d written (%s)", len(f.Glyphs), n, desc)
				return
			}
			if id == 0 {
				for i := 1; i < n; i++ {
					if want := refcff.StdString(i); f.Glyphs[i].Name != want {
						c.Fail("C13.names", "predefined charset", "glyph %d is called %q, ISOAdobe says %q (%s)", i, f.Glyphs[i].Name, want, desc)
						break
					}
				}
			}
			seen := map[string]bool{}
			for i, g := range f.Glyphs {
				if g.Name == "" || seen[g.Name] {
					c.Fail("C13.names", "predefined charset", "glyph %d has the empty or repeated name %q (%s)", i, g.Name, desc)
					break
				}
				seen[g.Name] = true
			}
		})
}

// c13DeltaArrays: BlueValues / OtherBlues are stored delta-encoded; the deltas of neighbouring entries
// far apart do not fit into 16 bits (DICT integers have 32).
func c13DeltaArrays(r *run.Run) {
	vals := []funit.Int16{-32768, -30000, -20000, -1, 0, 1, 700, 12767, 20000, 32767}
	r.Explore(explore.Config{Name: "C13.delta-arrays"},
		"BlueValues and OtherBlues of a private dictionary: all increasing pairs and quadruples over {-32768, -30000, -20000, -1, 0, 1, 700, 12767, 20000, 32767} (steps up to 65535 between neighbouring entries): the arrays read back, and the running sums of the operands an independent DICT parser finds, equal the values written",
		func(c *explore.Ctx) {
			var arr []funit.Int16
			n := 2 * (1 + c.Choose(2, "pairs"))
			prev := -1
			for i := 0; i < n; i++ {
				k := prev + 1 + c.Choose(len(vals)-prev-1-(n-1-i), "next value")
				arr = append(arr, vals[k])
				prev = k
			}
			other := c.Bool("OtherBlues")
			f := &cff.Font{FontInfo: c13Info(), Outlines: &cff.Outlines{Private: []*type1.PrivateDict{c13Priv(0)}, FDSelect: func(glyph.ID) int { return 0 }}}
			f.Glyphs = []*cff.Glyph{c13Glyph(".notdef", 500, 1), c13Glyph("A", 600, 2)}
			f.Encoding = cff.StandardEncoding(f.Glyphs)
			op := 6
			if other {
				f.Private[0].OtherBlues = arr
				op = 7
			} else {
				f.Private[0].BlueValues = arr
			}
			desc := fmt.Sprintf("operator %d = %v", op, arr)
			c.Sample(func() any { return desc })
			c.Nontrivial()
			rf, g := c13Roundtrip(c, "delta arrays", f, desc)
			if g == nil {
				return
			}
			c13Compare(c, "delta arrays", f, g, desc)
			if rf != nil && len(rf.Privates) == 1 {
				ops := rf.Privates[0].Dict[op]
				sum := 0.0
				var got []float64
				for _, d := range ops {
					sum += d
					got = append(got, sum)
				}
				ok := len(got) == len(arr)
				for i := range arr {
					ok = ok && got[i] == float64(arr[i])
				}
				if !ok {
					c.Fail("C13.structure", "delta arrays / dict operands", "independent DICT parser finds the deltas %v, i.e. the values %v, for operator %d; written %v", ops, got, op, arr)
				}
			}
		})
}

// c13FontInfo: the top-level font information: every string field over {empty, a standard string of the
// format (stored by number), a custom string, a long string}, both flags, for simple and CID-keyed fonts.
func c13FontInfo(r *run.Run) {
	strs := []string{"", "Bold", "Verif Custom", strings.Repeat("Long string, ", 25)}
	names := []string{"V", "Verif-Regular", strings.Repeat("N", 63)}
	r.Explore(explore.Config{Name: "C13.fontinfo"},
		"FontInfo of simple and CID-keyed fonts: Version, Notice, Copyright, FullName, FamilyName, Weight each over {empty, the standard string 'Bold', a custom string, 325 characters} (all combinations of two fields deviating from a default, the others fixed), FontName over 3 lengths, IsFixedPitch and ForceBold in all combinations: read back unchanged, and the independent reader finds the strings",
		func(c *explore.Ctx) {
			f := &cff.Font{FontInfo: c13Info(), Outlines: &cff.Outlines{Private: []*type1.PrivateDict{c13Priv(0)}, FDSelect: func(glyph.ID) int { return 0 }}}
			cidKeyed := c.Bool("CID-keyed")
			if cidKeyed {
				f.ROS = &cid.SystemInfo{Registry: "Adobe", Ordering: "Identity"}
				f.FontMatrices = []matrix.Matrix{matrix.Identity}
				f.Glyphs = []*cff.Glyph{c13Glyph("", 500, 1), c13Glyph("", 600, 2)}
				f.GIDToCID = []cid.CID{0, 5}
			} else {
				f.Glyphs = []*cff.Glyph{c13Glyph(".notdef", 500, 1), c13Glyph("A", 600, 2)}
				f.Encoding = cff.StandardEncoding(f.Glyphs)
			}
			fields := []*string{&f.FontInfo.Version, &f.FontInfo.Notice, &f.FontInfo.Copyright, &f.FontInfo.FullName, &f.FontInfo.FamilyName, &f.FontInfo.Weight}
			a := c.Choose(len(fields), "first field")
			b := c.Choose(len(fields), "second field")
			*fields[a] = strs[c.Choose(len(strs), "first value")]
			if b != a {
				*fields[b] = strs[c.Choose(len(strs), "second value")]
			}
			f.FontInfo.FontName = names[c.Choose(len(names), "font name")]
			f.FontInfo.IsFixedPitch = c.Bool("fixed pitch")
			f.Private[0].ForceBold = c.Bool("force bold")
			desc := fmt.Sprintf("cid=%v %+v forceBold=%v", cidKeyed, *f.FontInfo, f.Private[0].ForceBold)
			if len(desc) > 300 {
				desc = desc[:300] + "..."
			}
			c.Sample(func() any { return desc })
			c.Nontrivial()
			rf, g := c13Roundtrip(c, "font info", f, desc)
			if g == nil {
				return
			}
			c13Compare(c, "font info", f, g, desc)
			if rf != nil && rf.Name != f.FontInfo.FontName {
				c.Fail("C13.structure", "font info / name index", "the Name INDEX holds %q, the font is called %q", rf.Name, f.FontInfo.FontName)
			}
		})
}

// c13GlyphCounts: fonts with so many custom glyph names that the string identifiers reach the end of their
// 16-bit range (391 standard strings + 65145 custom ones): the writer refuses, or the font reads back.
func c13GlyphCounts(r *run.Run) {
	counts := []int{60000, 65135}
	for n := 65138; n <= 65152; n++ {
		counts = append(counts, n)
	}
	counts = append(counts, 65535)
	r.Explore(explore.Config{Name: "C13.glyph-counts"},
		"simple fonts with n custom glyph names, n in {60000, 65135, every value 65138..65152 (string identifiers reach 65535), 65535}, and CID-keyed fonts with the same numbers of glyphs: Write returns an error or the font reads back with every name / CID and the (custom) strings of the font information (a file that cannot be read back is never written)",
		func(c *explore.Ctx) {
			n := counts[c.Choose(len(counts), "glyphs")]
			cidKeyed := c.Bool("CID-keyed")
			f := &cff.Font{FontInfo: c13Info(), Outlines: &cff.Outlines{Private: []*type1.PrivateDict{c13Priv(0)}, FDSelect: func(glyph.ID) int { return 0 }}}
			f.FontInfo.Notice = "a notice of the verif font"
			f.FontInfo.Copyright = "(c) verif"
			if cidKeyed {
				f.ROS = &cid.SystemInfo{Registry: "Adobe", Ordering: "Identity"}
				f.FontMatrices = []matrix.Matrix{matrix.Identity}
			}
			for i := 0; i < n; i++ {
				name := fmt.Sprintf("g%05d", i)
				if i == 0 {
					name = ".notdef"
				}
				if cidKeyed {
					name = ""
					f.GIDToCID = append(f.GIDToCID, cid.CID(i))
				}
				f.Glyphs = append(f.Glyphs, cff.NewGlyph(name, 500))
			}
			if !cidKeyed {
				f.Encoding = cff.StandardEncoding(f.Glyphs)
			}
			desc := fmt.Sprintf("%d glyphs, CID-keyed %v", n, cidKeyed)
			c.Sample(func() any { return desc })
			c.Nontrivial()
			buf := &bytes.Buffer{}
			var err error
			if p := guard(func() { err = f.Write(buf) }); p != "" {
				c.Tag("refused loudly: " + explore.PanicSignature(p))
				c.Outcome("refused", desc)
				return
			}
			if err != nil {
				c.Tag("refused: " + err.Error())
				c.Outcome("refused", desc)
				return
			}
			c.Outcome(buf.Len(), desc)
			g, err := cff.Read(bytes.NewReader(buf.Bytes()))
			if err != nil {
				c.Fail("C13.read", "glyph counts", "Read(Write(F)) fails: %v (%s)", err, desc)
				return
			}
			if len(g.Glyphs) != n {
				c.Fail("C13.glyphs", "glyph counts", "%d glyphs come back as %d (%s)", n, len(g.Glyphs), desc)
				return
			}
			for i := range f.Glyphs {
				if g.Glyphs[i].Name != f.Glyphs[i].Name || cidKeyed && g.GIDToCID[i] != f.GIDToCID[i] {
					c.Fail("C13.names", "glyph counts", "glyph %d comes back as %q (%s)", i, g.Glyphs[i].Name, desc)
					return
				}
			}
			// the strings of the font information share the identifier space with the glyph names
			a, b := f.FontInfo, g.FontInfo
			if a.FontName != b.FontName || a.FullName != b.FullName || a.FamilyName != b.FamilyName || a.Weight != b.Weight || a.Version != b.Version || a.Notice != b.Notice || a.Copyright != b.Copyright {
				c.Fail("C13.fontinfo", "glyph counts", "the font information %+v comes back as %+v (%s)", *a, *b, desc)
			}
		})
}

func c13Numbers(r *run.Run) {
	ints := []int32{0, 107, 108, -107, -108, 1131, 1132, -1131, -1132, 32767, 32768, -32768, -32769, 1<<31 - 1, -1 << 31}
	// (1/1005, 1/992: a font matrix for 1005 or 992 units per em is close to the default 0.001 but not equal to it)
	reals := []float64{0.5, 0.001, 0.039625, 1e-5, 123456789, 1.23456789e-20, -7.5e12, 0.1, -0.25, 3.0e-3, 1e10, 1e300, -2.5e-300, 3e-310, 5e-324, 1.0 / 1005, 1.0 / 992, 0.001000001}
	unit := []float64{0.5, 0.001, 0.25, 1e-5, 0.123456789, 1, 0.0397, 0.0396255, 0.03962501} // BlueScale is clamped to [0,1] on reading
	angles := []float64{0.5, -12.25, 89.999, -0.001, 7.123456789, 1e-7, 180, -179.5}
	r.Explore(explore.Config{Name: "C13.numbers"},
		"DICT numbers through the private dictionary, FontInfo and font matrix: integers at every size-class boundary +-1 (BlueShift/BlueFuzz), reals {0.5,0.001,0.039625,1e-5,123456789,1.23456789e-20,-7.5e12,...} (BlueScale, StdHW, ItalicAngle, underline, matrix entries): the value read back and the value an independent DICT parser finds equal the value written (reals to 9 significant digits)",
		func(c *explore.Ctx) {
			f := &cff.Font{FontInfo: c13Info(), Outlines: &cff.Outlines{Private: []*type1.PrivateDict{c13Priv(0)}, FDSelect: func(glyph.ID) int { return 0 }}}
			f.Glyphs = []*cff.Glyph{c13Glyph(".notdef", 500, 1), c13Glyph("A", 600, 2)}
			f.Encoding = cff.StandardEncoding(f.Glyphs)
			var desc string
			var wantOp int
			var want float64
			if c.Bool("real") {
				v := reals[c.Choose(len(reals), "value")]
				switch c.Choose(5, "field") {
				case 0:
					v = unit[c.Choose(len(unit), "unit value")]
					f.Private[0].BlueScale = v
					wantOp, want = 1209, v
					desc = fmt.Sprintf("BlueScale=%v", v)
				case 1:
					v = math.Abs(v)
					if v > 10000 {
						v = 9999.5 // StdHW is clamped to [0,10000] on reading
					}
					f.Private[0].StdHW = v
					wantOp, want = 10, v
					desc = fmt.Sprintf("StdHW=%v", v)
				case 2:
					v = angles[c.Choose(len(angles), "angle")]
					f.FontInfo.ItalicAngle = v
					wantOp, want = -1, v
					desc = fmt.Sprintf("ItalicAngle=%v", v)
				case 3:
					f.FontInfo.UnderlinePosition = funit.Float64(v)
					wantOp, want = -1, v
					desc = fmt.Sprintf("UnderlinePosition=%v", v)
				case 4:
					f.FontInfo.FontMatrix = matrix.Matrix{v, 0, 0, v, 0, 0}
					wantOp, want = -1, v
					desc = fmt.Sprintf("FontMatrix scale=%v", v)
				}
			} else {
				v := ints[c.Choose(len(ints), "value")]
				if c.Bool("BlueFuzz") {
					f.Private[0].BlueFuzz = v
					wantOp, want = 1211, float64(v)
					desc = fmt.Sprintf("BlueFuzz=%d", v)
				} else {
					f.Private[0].BlueShift = v
					wantOp, want = 1210, float64(v)
					desc = fmt.Sprintf("BlueShift=%d", v)
				}
			}
			c.Sample(func() any { return desc })
			c.Nontrivial()
			rf, g := c13Roundtrip(c, "numbers", f, desc)
			if g == nil {
				return
			}
			// the reader flushes numbers below 1e-300 to zero and clamps at 1e300 (its documented range):
			// such values are compared in the written bytes only, through the independent DICT parser
			if math.Abs(want) >= 1e-300 || want == 0 {
				c13Compare(c, "numbers "+strings.SplitN(desc, "=", 2)[0], f, g, desc)
			}
			if rf != nil && wantOp >= 0 && len(rf.Privates) == 1 {
				got, ok := rf.Privates[0].Dict[wantOp]
				def := map[int]float64{1209: 0.039625, 10: 0, 1210: 7, 1211: 1}[wantOp]
				if !ok {
					got = []float64{def}
				}
				if len(got) != 1 || math.Abs(got[0]-want) > 1e-8*math.Abs(want) {
					c.Fail("C13.structure", "numbers / dict operand", "independent DICT parser finds %v for operator %d, written %v", got, wantOp, want)
				}
			}
		})
}

// widths via the independent interpreter: every width pattern of a 4-glyph
// CID font with 2 FDs (all FDs share one default/nominal width pair).
func c13Widths(r *run.Run) {
	ws := []float64{0, 500, 500.5, 607, -50}
	r.Explore(explore.Config{Name: "C13.widths-cid"},
		"advance widths of CID-keyed fonts with 2 private dictionaries: all 5^4 width assignments incl. fractional and negative widths are recovered to 16.16 precision by cff.Read and by the independent interpreter",
		func(c *explore.Ctx) {
			f := &cff.Font{FontInfo: c13Info(), Outlines: &cff.Outlines{ROS: &cid.SystemInfo{Registry: "Adobe", Ordering: "Identity"},
				Private: []*type1.PrivateDict{c13Priv(0), c13Priv(1)}, FontMatrices: []matrix.Matrix{matrix.Identity, matrix.Identity},
				FDSelect: func(g glyph.ID) int { return int(g) % 2 }}}
			var sel []float64
			for i := 0; i < 4; i++ {
				w := ws[c.Choose(len(ws), "width")]
				sel = append(sel, w)
				f.Glyphs = append(f.Glyphs, c13Glyph("", w, i+1))
				f.GIDToCID = append(f.GIDToCID, cid.CID(i))
			}
			c.Sample(func() any { return sel })
			c.Nontrivial()
			rf, g := c13Roundtrip(c, "cid widths", f, sel)
			if g == nil {
				return
			}
			c13Compare(c, "cid widths", f, g, sel)
			if rf != nil && len(rf.Privates) == 2 && len(rf.CharStrings) == 4 {
				for i := 0; i < 4; i++ {
					p := rf.Privates[i%2]
					ref, err := reft2.Interpret(rf.CharStrings[i], &reft2.Env{GlobalSubrs: rf.GlobalSubrs, LocalSubrs: p.LocalSubrs, DefaultWidthX: p.DefaultWidthX, NominalWidthX: p.NominalWidthX})
					if err != nil {
						c.Fail("C13.structure", "cid widths / charstring", "glyph %d: %v", i, err)
					} else if math.Abs(ref.Width-sel[i]) > 1.0/65536+1e-12 {
						c.Fail("C13.width", "cid widths / independent", "glyph %d: independent interpreter recovers width %v, want %v (widths %v)", i, ref.Width, sel[i], sel)
					}
				}
			}
		})
}

// c13WidthsExtreme: widths near and beyond the range of a Type 2 operand (the width operand is the
// difference to nominalWidthX, a DICT number, so such widths are representable).
func c13WidthsExtreme(r *run.Run) {
	// (20000.123456, 30000.123456: more than nine significant digits - the stored default / nominal width is rounded)
	ws := []float64{0, 500, 31999.5, 32000, 32001, 32100, 32500, 32767, -32000, -32100, -32767, 20000.123456, 30000.123456}
	r.Explore(explore.Config{Name: "C13.widths-extreme"},
		"advance widths of simple fonts with 4 or 5 glyphs, widths [w1 w1 w2 w3 (w4)] over {0, 500, 31999.5, 32000, 32001, 32100, 32500, 32767, -32000, -32100, -32767, 20000.123456, 30000.123456} (at and beyond the clamp of the path coordinates, up to the ends of the Type 2 number range; widths outside +-32767 are not in the domain): recovered to 16.16 precision by cff.Read and by the independent interpreter",
		func(c *explore.Ctx) {
			f := &cff.Font{FontInfo: c13Info(), Outlines: &cff.Outlines{Private: []*type1.PrivateDict{c13Priv(0)}, FDSelect: func(glyph.ID) int { return 0 }}}
			w1 := ws[c.Choose(len(ws), "repeated width")]
			sel := []float64{w1, w1, ws[c.Choose(len(ws), "third width")], ws[c.Choose(len(ws), "fourth width")]}
			if k := c.Choose(len(ws)+1, "fifth width"); k > 0 {
				sel = append(sel, ws[k-1])
			}
			for i, w := range sel {
				name := []string{".notdef", "A", "B", "C", "D"}[i]
				f.Glyphs = append(f.Glyphs, c13Glyph(name, w, i+1))
			}
			f.Encoding = cff.StandardEncoding(f.Glyphs)
			c.Sample(func() any { return sel })
			c.Nontrivial()
			rf, g := c13Roundtrip(c, "extreme widths", f, sel)
			if g == nil {
				return
			}
			c13Compare(c, "extreme widths", f, g, sel)
			if rf != nil && len(rf.Privates) == 1 && len(rf.CharStrings) == len(sel) {
				p := rf.Privates[0]
				for i := range sel {
					ref, err := reft2.Interpret(rf.CharStrings[i], &reft2.Env{GlobalSubrs: rf.GlobalSubrs, LocalSubrs: p.LocalSubrs, DefaultWidthX: p.DefaultWidthX, NominalWidthX: p.NominalWidthX})
					if err != nil {
						c.Fail("C13.structure", "extreme widths / charstring", "glyph %d: %v", i, err)
					} else if math.Abs(ref.Width-sel[i]) > 1.0/65536+1e-12 {
						c.Fail("C13.width", "extreme widths / independent", "glyph %d: independent interpreter recovers width %v, want %v (widths %v, defaultWidthX %v, nominalWidthX %v)", i, ref.Width, sel[i], sel, p.DefaultWidthX, p.NominalWidthX)
					}
				}
			}
		})
}

// c13WidthsFew: fonts of one to three glyphs whose widths are not numbers a DICT holds exactly.
func c13WidthsFew(r *run.Run) {
	ws := []float64{500, 20000.123456, 0.1, 1.0 / 3, -250.000001, 0}
	r.Explore(explore.Config{Name: "C13.widths-few"},
		"fonts of 1..3 glyphs with every combination of the widths {500, 20000.123456, 0.1, 1/3, -250.000001, 0} (values a DICT real number with its nine digits does not hold exactly): recovered to 16.16 precision",
		func(c *explore.Ctx) {
			n := 1 + c.Choose(3, "glyphs")
			f := &cff.Font{FontInfo: c13Info(), Outlines: &cff.Outlines{Private: []*type1.PrivateDict{c13Priv(0)}, FDSelect: func(glyph.ID) int { return 0 }}}
			var sel []float64
			for i := 0; i < n; i++ {
				w := ws[c.Choose(len(ws), "width")]
				sel = append(sel, w)
				f.Glyphs = append(f.Glyphs, c13Glyph([]string{".notdef", "A", "B"}[i], w, i+1))
			}
			f.Encoding = cff.StandardEncoding(f.Glyphs)
			c.Sample(func() any { return sel })
			c.Nontrivial()
			_, g := c13Roundtrip(c, "few widths", f, sel)
			if g == nil {
				return
			}
			for i := range sel {
				if math.Abs(g.Glyphs[i].Width-sel[i]) > 1.0/65536 {
					c.Fail("C13.width", "few widths", "glyph %d: width %v comes back as %v (widths %v)", i, sel[i], g.Glyphs[i].Width, sel)
				}
			}
		})
}

// c13WidthsHinted: the width operand shares the operand stack with the first stem hints of the charstring.
func c13WidthsHinted(r *run.Run) {
	counts := []int{0, 1, 22, 23, 24, 25, 47, 48, 49}
	r.Explore(explore.Config{Name: "C13.widths-hinted"},
		"advance widths of glyphs with {0, 1, 22..25, 47..49} horizontal and/or vertical stem hints (the width operand shares the 48-entry operand stack with the first stem operator), width equal to / different from the most frequent width, simple and CID-keyed: recovered to 16.16 precision, stems kept",
		func(c *explore.Ctx) {
			nh := counts[c.Choose(len(counts), "hstems")]
			nv := counts[c.Choose(len(counts), "vstems")]
			w := []float64{500, 620, 0.25}[c.Choose(3, "width")]
			f := &cff.Font{FontInfo: c13Info(), Outlines: &cff.Outlines{Private: []*type1.PrivateDict{c13Priv(0)}, FDSelect: func(glyph.ID) int { return 0 }}}
			cidKeyed := c.Bool("CID-keyed")
			ws := []float64{500, 500, w, 500}
			for i, wd := range ws {
				g := c13Glyph([]string{".notdef", "A", "B", "C"}[i], wd, i+1)
				if i == 2 {
					for k := 0; k < nh; k++ {
						g.HStem = append(g.HStem, float64(10*k), float64(10*k+4))
					}
					for k := 0; k < nv; k++ {
						g.VStem = append(g.VStem, float64(12*k), float64(12*k+5))
					}
				}
				if cidKeyed {
					g.Name = ""
					f.GIDToCID = append(f.GIDToCID, cid.CID(i))
				}
				f.Glyphs = append(f.Glyphs, g)
			}
			if cidKeyed {
				f.ROS = &cid.SystemInfo{Registry: "Adobe", Ordering: "Identity"}
				f.FontMatrices = []matrix.Matrix{matrix.Identity}
			} else {
				f.Encoding = cff.StandardEncoding(f.Glyphs)
			}
			desc := fmt.Sprintf("%d hstems, %d vstems, width %v, CID-keyed %v", nh, nv, w, cidKeyed)
			c.Sample(func() any { return desc })
			c.Nontrivial()
			_, g := c13Roundtrip(c, "hinted widths", f, desc)
			if g == nil {
				return
			}
			c13Compare(c, "hinted widths", f, g, desc)
			for i := range f.Glyphs {
				if math.Abs(g.Glyphs[i].Width-f.Glyphs[i].Width) > 1.0/65536 || !cmp.Equal(g.Glyphs[i].HStem, f.Glyphs[i].HStem, cmpopts.EquateEmpty()) || !cmp.Equal(g.Glyphs[i].VStem, f.Glyphs[i].VStem, cmpopts.EquateEmpty()) {
					c.Fail("C13.width", "hinted widths", "glyph %d: width %v and %d+%d stem values come back as width %v and %d+%d (%s)", i, f.Glyphs[i].Width, len(f.Glyphs[i].HStem), len(f.Glyphs[i].VStem), g.Glyphs[i].Width, len(g.Glyphs[i].HStem), len(g.Glyphs[i].VStem), desc)
				}
			}
		})
}

func init() {
	Register("C13", func(r *run.Run) {
		r.Rule = "bounded exhaustive enumeration of cff.Font values; Read(Write(F)) compared field by field; the bytes walked by the independent CFF reader (INDEX offsets and minimal offSize, DICT operands, charset/encoding/FDSelect) and widths re-derived by the independent interpreter"
		r.Assume = []string{"refcff/reft2 are the trusted base", "reals compared to 9 significant digits, coordinates and widths to 2^-16"}
		c13Simple(r)
		c13Sizes(r)
		c13CID(r)
		c13Runs(r)
		c13AssembledDicts(r)
		c13Predefined(r)
		c13GlyphCounts(r)
		c13FontInfo(r)
		c13Numbers(r)
		c13DeltaArrays(r)
		c13Widths(r)
		c13WidthsExtreme(r)
		c13WidthsHinted(r)
		c13WidthsFew(r)
	})
}
