// Package refcmap decodes cmap subtables exactly as the OpenType
// specification describes them (linear scans, no binary-search fields), and
// assembles byte-level test cases.
package refcmap

import (
	"encoding/binary"
	"errors"
)

// Map is a decoded subtable: code -> glyph (entries with glyph 0 omitted).
type Map map[uint32]uint16

var ErrMalformed = errors.New("refcmap: malformed subtable")

func u16(b []byte, off int) int { return int(binary.BigEndian.Uint16(b[off:])) }

// Decode decodes a subtable of format 0, 4, 6 or 12.  Codes are the
// subtable's own character codes (no platform mapping).
func Decode(b []byte) (Map, error) {
	if len(b) < 6 {
		return nil, ErrMalformed
	}
	m := Map{}
	switch u16(b, 0) {
	case 0:
		if len(b) < 262 {
			return nil, ErrMalformed
		}
		for i := 0; i < 256; i++ {
			if b[6+i] != 0 {
				m[uint32(i)] = uint16(b[6+i])
			}
		}
	case 4:
		if len(b) < 16 {
			return nil, ErrMalformed
		}
		segX2 := u16(b, 6)
		n := segX2 / 2
		if segX2%2 != 0 {
			return nil, ErrMalformed
		}
		endOff := 14
		startOff := 14 + segX2 + 2
		deltaOff := startOff + segX2
		rangeOff := deltaOff + segX2
		if rangeOff+segX2 > len(b) {
			return nil, ErrMalformed
		}
		for k := 0; k < n; k++ {
			start, end := u16(b, startOff+2*k), u16(b, endOff+2*k)
			delta, ro := u16(b, deltaOff+2*k), u16(b, rangeOff+2*k)
			if end < start {
				return nil, ErrMalformed
			}
			for c := start; c <= end; c++ {
				var g int
				if ro == 0 {
					g = (c + delta) & 0xFFFF
				} else {
					// address arithmetic of the specification:
					// glyphId = *(idRangeOffset[k]/2 + (c - startCode[k]) + &idRangeOffset[k])
					p := rangeOff + 2*k + ro + 2*(c-start)
					if p+2 > len(b) {
						if start == 0xFFFF {
							continue // the customary broken final segment
						}
						return nil, ErrMalformed
					}
					g = u16(b, p)
					if g != 0 {
						g = (g + delta) & 0xFFFF
					}
				}
				if g != 0 {
					m[uint32(c)] = uint16(g)
				}
			}
		}
	case 6:
		if len(b) < 10 {
			return nil, ErrMalformed
		}
		first, count := u16(b, 6), u16(b, 8)
		if 10+2*count > len(b) {
			return nil, ErrMalformed
		}
		for i := 0; i < count; i++ {
			if g := u16(b, 10+2*i); g != 0 {
				m[uint32(first+i)] = uint16(g)
			}
		}
	case 12:
		if len(b) < 16 {
			return nil, ErrMalformed
		}
		n := int(binary.BigEndian.Uint32(b[12:]))
		if 16+12*n > len(b) {
			return nil, ErrMalformed
		}
		for i := 0; i < n; i++ {
			s := binary.BigEndian.Uint32(b[16+12*i:])
			e := binary.BigEndian.Uint32(b[20+12*i:])
			g := binary.BigEndian.Uint32(b[24+12*i:])
			if e < s {
				return nil, ErrMalformed
			}
			for c := s; ; c++ {
				if v := g + (c - s); v != 0 && v <= 0xFFFF {
					m[c] = uint16(v)
				}
				if c == e {
					break
				}
			}
		}
	default:
		return nil, ErrMalformed
	}
	return m, nil
}

// Seg4 is one segment of a hand-assembled format 4 subtable.
type Seg4 struct {
	Start, End uint16
	Delta      uint16
	Glyphs     []uint16 // nil: idRangeOffset = 0; else values stored in glyphIdArray
}

// Assemble4 builds a format 4 subtable from explicit segments (the caller
// adds the final 0xFFFF segment if wanted).
func Assemble4(segs []Seg4, language uint16) []byte {
	n := len(segs)
	var arr []uint16
	ro := make([]uint16, n)
	for k, s := range segs {
		if s.Glyphs != nil {
			ro[k] = uint16(2 * (n - k + len(arr)))
			arr = append(arr, s.Glyphs...)
		}
	}
	length := 16 + 8*n + 2*len(arr)
	b := make([]byte, 0, length)
	put := func(v ...uint16) {
		for _, x := range v {
			b = append(b, byte(x>>8), byte(x))
		}
	}
	p, l := 1, 0
	for p*2 <= n {
		p *= 2
		l++
	}
	put(4, uint16(length), language, uint16(2*n), uint16(2*p), uint16(l), uint16(2*n-2*p))
	for _, s := range segs {
		put(s.End)
	}
	put(0)
	for _, s := range segs {
		put(s.Start)
	}
	for _, s := range segs {
		put(s.Delta)
	}
	put(ro...)
	put(arr...)
	return b
}

// Assemble6 builds a format 6 subtable.
func Assemble6(first uint16, glyphs []uint16, language uint16, trailingPad bool) []byte {
	length := 10 + 2*len(glyphs)
	b := []byte{0, 6, byte(length >> 8), byte(length), byte(language >> 8), byte(language), byte(first >> 8), byte(first), byte(len(glyphs) >> 8), byte(len(glyphs))}
	for _, g := range glyphs {
		b = append(b, byte(g>>8), byte(g))
	}
	if trailingPad {
		b = append(b, 0, 0)
	}
	return b
}

// Assemble0 builds a format 0 subtable.
func Assemble0(glyphs [256]byte, language uint16) []byte {
	b := []byte{0, 0, 1, 6, byte(language >> 8), byte(language)}
	return append(b, glyphs[:]...)
}

// Check4 verifies the header fields of a format 4 subtable against the
// specification and returns a list of problems.
func Check4(b []byte) []string {
	var probs []string
	if len(b) < 16 || u16(b, 0) != 4 {
		return []string{"not a format 4 subtable"}
	}
	if u16(b, 2) != len(b) {
		probs = append(probs, "length field does not equal the subtable size")
	}
	segX2 := u16(b, 6)
	n := segX2 / 2
	if segX2%2 != 0 || n == 0 || 16+8*n > len(b) {
		return append(probs, "bad segCountX2")
	}
	p, l := 1, 0
	for p*2 <= n {
		p *= 2
		l++
	}
	if u16(b, 8) != 2*p || u16(b, 10) != l || u16(b, 12) != 2*n-2*p {
		probs = append(probs, "binary-search fields do not follow the specification formulas")
	}
	if u16(b, 14+2*(n-1)) != 0xFFFF {
		probs = append(probs, "last segment does not end at 0xFFFF")
	}
	if u16(b, 14+2*n) != 0 {
		probs = append(probs, "reservedPad not zero")
	}
	prevEnd := -1
	for k := 0; k < n; k++ {
		s, e := u16(b, 16+2*n+2*k), u16(b, 14+2*k)
		if s > e || s <= prevEnd {
			probs = append(probs, "segments not sorted / overlapping")
			break
		}
		prevEnd = e
	}
	return probs
}
