// Package refsfnt is an independent, deliberately plain walker of the sfnt
// container format (OpenType spec, "Organization of an OpenType Font").
package refsfnt

import (
	"encoding/binary"
	"fmt"
	"sort"
)

// Record is one directory entry.
type Record struct {
	Tag      string
	Checksum uint32
	Offset   uint32
	Length   uint32
}

// Container is the parsed directory.
type Container struct {
	Scaler  uint32
	Records []Record
}

// Sum is the sfnt checksum of b, zero padded to a multiple of four bytes.
func Sum(b []byte) uint32 {
	var s uint32
	for i := 0; i < len(b); i += 4 {
		var w [4]byte
		copy(w[:], b[i:])
		s += binary.BigEndian.Uint32(w[:])
	}
	return s
}

// Walk checks every structural clause of a well-formed container and returns
// the list of problems (empty = well formed).
func Walk(b []byte) (*Container, []string) {
	var probs []string
	bad := func(f string, a ...any) { probs = append(probs, fmt.Sprintf(f, a...)) }
	if len(b) < 12 {
		return nil, []string{"file shorter than the 12-byte offset table"}
	}
	c := &Container{Scaler: binary.BigEndian.Uint32(b)}
	n := int(binary.BigEndian.Uint16(b[4:]))
	sr := int(binary.BigEndian.Uint16(b[6:]))
	es := int(binary.BigEndian.Uint16(b[8:]))
	rs := int(binary.BigEndian.Uint16(b[10:]))
	if len(b) < 12+16*n {
		return c, []string{fmt.Sprintf("numTables=%d but file has only %d bytes", n, len(b))}
	}
	if n == 0 {
		bad("numTables is 0")
	} else {
		// spec: searchRange = (largest power of two <= numTables) * 16, entrySelector = log2 of it, rangeShift = numTables*16 - searchRange
		p, l := 1, 0
		for p*2 <= n {
			p *= 2
			l++
		}
		if sr != p*16 || es != l || rs != n*16-p*16 {
			bad("binary-search fields (searchRange=%d entrySelector=%d rangeShift=%d) want (%d %d %d) for %d tables", sr, es, rs, p*16, l, n*16-p*16, n)
		}
	}
	for i := 0; i < n; i++ {
		r := b[12+16*i:]
		rec := Record{Tag: string(r[:4]), Checksum: binary.BigEndian.Uint32(r[4:]), Offset: binary.BigEndian.Uint32(r[8:]), Length: binary.BigEndian.Uint32(r[12:])}
		c.Records = append(c.Records, rec)
		for _, ch := range r[:4] {
			if ch < 0x20 || ch > 0x7E {
				bad("record %d: tag %q is not printable", i, rec.Tag)
				break
			}
		}
		if i > 0 && c.Records[i-1].Tag >= rec.Tag {
			bad("directory not sorted/unique: %q before %q", c.Records[i-1].Tag, rec.Tag)
		}
		if rec.Offset%4 != 0 {
			bad("table %q at offset %d: not on a 4-byte boundary", rec.Tag, rec.Offset)
		}
		if int(rec.Offset) < 12+16*n {
			bad("table %q at offset %d lies inside the directory", rec.Tag, rec.Offset)
		}
		if uint64(rec.Offset)+uint64(rec.Length) > uint64(len(b)) {
			bad("table %q [%d,+%d) extends beyond the file (%d bytes)", rec.Tag, rec.Offset, rec.Length, len(b))
			continue
		}
		body := b[rec.Offset : rec.Offset+rec.Length]
		want := Sum(body)
		if rec.Tag == "head" && rec.Length >= 12 {
			tmp := append([]byte(nil), body...)
			copy(tmp[8:12], []byte{0, 0, 0, 0})
			want = Sum(tmp)
		}
		if rec.Checksum != want {
			bad("table %q: directory checksum %#08x, checksum of the zero-padded table %#08x", rec.Tag, rec.Checksum, want)
		}
	}
	// overlap
	idx := make([]int, len(c.Records))
	for i := range idx {
		idx[i] = i
	}
	sort.Slice(idx, func(i, j int) bool {
		a, bb := c.Records[idx[i]], c.Records[idx[j]]
		if a.Offset != bb.Offset {
			return a.Offset < bb.Offset
		}
		return a.Length < bb.Length
	})
	for k := 1; k < len(idx); k++ {
		p, q := c.Records[idx[k-1]], c.Records[idx[k]]
		if uint64(p.Offset)+uint64(p.Length) > uint64(q.Offset) {
			bad("tables %q [%d,+%d) and %q [%d,+%d) overlap", p.Tag, p.Offset, p.Length, q.Tag, q.Offset, q.Length)
		}
	}
	for _, r := range c.Records {
		if r.Tag == "head" && r.Length >= 12 {
			if s := Sum(b); s != 0xB1B0AFBA {
				bad("whole-file checksum %#08x, want 0xB1B0AFBA", s)
			}
		}
	}
	return c, probs
}

// Table returns the bytes of a table.
func (c *Container) Table(b []byte, tag string) ([]byte, bool) {
	for _, r := range c.Records {
		if r.Tag == tag && uint64(r.Offset)+uint64(r.Length) <= uint64(len(b)) {
			return b[r.Offset : r.Offset+r.Length], true
		}
	}
	return nil, false
}
