// Command vrewrite rewrites the channel and goroutine operations of the
// lookup-description-language package (opentype/gtab/builder) to calls into
// verif/vsched, using type information (golang.org/x/tools/go/packages).
//
// usage: vrewrite <repo> <outdir>   (writes <outdir>/overlay_sched.json)
package main

import (
	"bytes"
	"encoding/json"
	"fmt"
	"go/ast"
	"go/format"
	"go/token"
	"go/types"
	"os"
	"path/filepath"
	"strings"

	"golang.org/x/tools/go/ast/astutil"
	"golang.org/x/tools/go/packages"
)

func main() {
	repo, out := os.Args[1], os.Args[2]
	cfg := &packages.Config{Mode: packages.NeedName | packages.NeedFiles | packages.NeedCompiledGoFiles | packages.NeedSyntax | packages.NeedTypes | packages.NeedTypesInfo | packages.NeedImports | packages.NeedDeps, Dir: repo, Env: os.Environ()}
	pkgs, err := packages.Load(cfg, "./opentype/gtab/builder")
	if err != nil || len(pkgs) != 1 || len(pkgs[0].Errors) > 0 {
		fmt.Fprintln(os.Stderr, "vrewrite: cannot load the builder package:", err)
		if len(pkgs) > 0 {
			for _, e := range pkgs[0].Errors {
				fmt.Fprintln(os.Stderr, " ", e)
			}
		}
		os.Exit(1)
	}
	pkg := pkgs[0]
	info := pkg.TypesInfo
	isChan := func(e ast.Expr) bool {
		t := info.TypeOf(e)
		if t == nil {
			return false
		}
		_, ok := t.Underlying().(*types.Chan)
		return ok
	}
	genDir := filepath.Join(out, "gen", "sched")
	os.RemoveAll(genDir)
	os.MkdirAll(genDir, 0o755)
	overlay := map[string]string{}
	nOps := 0
	sel := func(x ast.Expr, name string) *ast.SelectorExpr {
		return &ast.SelectorExpr{X: x, Sel: ast.NewIdent(name)}
	}
	chanType := func(elem ast.Expr) ast.Expr {
		return &ast.StarExpr{X: &ast.IndexExpr{X: sel(ast.NewIdent("vsched"), "Chan"), Index: elem}}
	}
	for i, f := range pkg.Syntax {
		fname := pkg.CompiledGoFiles[i]
		changed := false
		tmp := 0
		var pre, post astutil.ApplyFunc
		rewriteExpr := func(e ast.Expr) ast.Expr { return astutil.Apply(e, pre, post).(ast.Expr) }
		rewriteStmt := func(st ast.Stmt) ast.Stmt { return astutil.Apply(st, pre, post).(ast.Stmt) }
		pre = func(c *astutil.Cursor) bool {
			switch n := c.Node().(type) {
			case *ast.SelectStmt:
				// { c0 := vsched.SendCase(ch, v); c1 := vsched.RecvCase(ch2); switch vsched.Select(hasDefault, c0, c1) { case 0: ...; case 1: x, ok := c1.Val, c1.Ok; ...; case -1: default body } }
				if _, ok := c.Parent().(*ast.LabeledStmt); ok {
					fmt.Fprintln(os.Stderr, "vrewrite: labelled select statements are not supported")
					os.Exit(1)
				}
				tmp++
				var decls []ast.Stmt
				var args []ast.Expr
				var clauses []ast.Stmt
				hasDefault := false
				k := 0
				for _, cl := range n.Body.List {
					cc := cl.(*ast.CommClause)
					var body []ast.Stmt
					idx := -1
					if cc.Comm == nil {
						hasDefault = true
					} else {
						idx = k
						name := fmt.Sprintf("verifSel%dc%d", tmp, k)
						k++
						var mk ast.Expr
						switch comm := cc.Comm.(type) {
						case *ast.SendStmt:
							mk = &ast.CallExpr{Fun: sel(ast.NewIdent("vsched"), "SendCase"), Args: []ast.Expr{rewriteExpr(comm.Chan), rewriteExpr(comm.Value)}}
						case *ast.ExprStmt:
							u, ok := comm.X.(*ast.UnaryExpr)
							if !ok || u.Op != token.ARROW {
								fmt.Fprintln(os.Stderr, "vrewrite: unexpected communication clause")
								os.Exit(1)
							}
							mk = &ast.CallExpr{Fun: sel(ast.NewIdent("vsched"), "RecvCase"), Args: []ast.Expr{rewriteExpr(u.X)}}
						case *ast.AssignStmt:
							u, ok := comm.Rhs[0].(*ast.UnaryExpr)
							if !ok || u.Op != token.ARROW || len(comm.Rhs) != 1 {
								fmt.Fprintln(os.Stderr, "vrewrite: unexpected communication clause")
								os.Exit(1)
							}
							mk = &ast.CallExpr{Fun: sel(ast.NewIdent("vsched"), "RecvCase"), Args: []ast.Expr{rewriteExpr(u.X)}}
							rhs := []ast.Expr{sel(ast.NewIdent(name), "Val")}
							if len(comm.Lhs) == 2 {
								rhs = append(rhs, sel(ast.NewIdent(name), "Ok"))
							}
							body = append(body, &ast.AssignStmt{Lhs: comm.Lhs, Tok: comm.Tok, Rhs: rhs})
						}
						decls = append(decls, &ast.AssignStmt{Lhs: []ast.Expr{ast.NewIdent(name)}, Tok: token.DEFINE, Rhs: []ast.Expr{mk}})
						args = append(args, ast.NewIdent(name))
					}
					for _, st := range cc.Body {
						body = append(body, rewriteStmt(st))
					}
					clauses = append(clauses, &ast.CaseClause{List: []ast.Expr{&ast.BasicLit{Kind: token.INT, Value: fmt.Sprint(idx)}}, Body: body})
				}
				hd := "false"
				if hasDefault {
					hd = "true"
				}
				call := &ast.CallExpr{Fun: sel(ast.NewIdent("vsched"), "Select"), Args: append([]ast.Expr{ast.NewIdent(hd)}, args...)}
				c.Replace(&ast.BlockStmt{List: append(decls, &ast.SwitchStmt{Tag: call, Body: &ast.BlockStmt{List: clauses}})})
				changed = true
				nOps++
				return false
			case *ast.RangeStmt:
				if !isChan(n.X) {
					return true
				}
				// { __ch := X; for { v, ok := __ch.RecvOk(); if !ok { break }; body } }
				tmp++
				chName := fmt.Sprintf("verifCh%d", tmp)
				okName := fmt.Sprintf("verifOk%d", tmp)
				var lhs ast.Expr = ast.NewIdent("_")
				tok := token.DEFINE
				if n.Key != nil {
					lhs = n.Key
					tok = n.Tok
				}
				var recv ast.Stmt
				if tok == token.DEFINE {
					recv = &ast.AssignStmt{Lhs: []ast.Expr{lhs, ast.NewIdent(okName)}, Tok: token.DEFINE, Rhs: []ast.Expr{&ast.CallExpr{Fun: sel(ast.NewIdent(chName), "RecvOk")}}}
				} else {
					// assignment to an existing variable: declare ok separately
					recv = &ast.BlockStmt{} // not expected in this package
					fmt.Fprintln(os.Stderr, "vrewrite: range with '=' over a channel is not supported")
					os.Exit(1)
				}
				body := append([]ast.Stmt{recv, &ast.IfStmt{Cond: &ast.UnaryExpr{Op: token.NOT, X: ast.NewIdent(okName)}, Body: &ast.BlockStmt{List: []ast.Stmt{&ast.BranchStmt{Tok: token.BREAK}}}}}, n.Body.List...)
				loop := &ast.ForStmt{Body: &ast.BlockStmt{List: body}}
				var loopStmt ast.Stmt = loop
				if ls, ok := c.Parent().(*ast.LabeledStmt); ok {
					// keep the label on the loop: replace the labeled statement's inner statement
					_ = ls
				}
				block := &ast.BlockStmt{List: []ast.Stmt{&ast.AssignStmt{Lhs: []ast.Expr{ast.NewIdent(chName)}, Tok: token.DEFINE, Rhs: []ast.Expr{n.X}}, loopStmt}}
				if _, ok := c.Parent().(*ast.LabeledStmt); ok {
					fmt.Fprintln(os.Stderr, "vrewrite: labelled range over a channel is not supported")
					os.Exit(1)
				}
				c.Replace(block)
				changed = true
				nOps++
				return true
			}
			return true
		}
		post = func(c *astutil.Cursor) bool {
			switch n := c.Node().(type) {
			case *ast.ChanType:
				c.Replace(chanType(n.Value))
				changed = true
			case *ast.SendStmt:
				c.Replace(&ast.ExprStmt{X: &ast.CallExpr{Fun: sel(n.Chan, "Send"), Args: []ast.Expr{n.Value}}})
				changed = true
				nOps++
			case *ast.UnaryExpr:
				if n.Op == token.ARROW {
					c.Replace(&ast.CallExpr{Fun: sel(n.X, "Recv")})
					changed = true
					nOps++
				}
			case *ast.GoStmt:
				c.Replace(&ast.ExprStmt{X: &ast.CallExpr{Fun: sel(ast.NewIdent("vsched"), "Go"), Args: []ast.Expr{&ast.FuncLit{Type: &ast.FuncType{Params: &ast.FieldList{}}, Body: &ast.BlockStmt{List: []ast.Stmt{&ast.ExprStmt{X: n.Call}}}}}}})
				changed = true
				nOps++
			case *ast.CallExpr:
				if id, ok := n.Fun.(*ast.Ident); ok {
					switch id.Name {
					case "close":
						if len(n.Args) == 1 && isChan(n.Args[0]) {
							c.Replace(&ast.CallExpr{Fun: sel(n.Args[0], "Close")})
							changed = true
							nOps++
						}
					case "make":
						if len(n.Args) >= 1 {
							if ct, ok := n.Args[0].(*ast.StarExpr); ok {
								// make(chan T) whose type argument has already been rewritten to *vsched.Chan[T]
								if ix, ok := ct.X.(*ast.IndexExpr); ok {
									if len(n.Args) > 1 {
										c.Replace(&ast.CallExpr{Fun: &ast.IndexExpr{X: sel(ast.NewIdent("vsched"), "NewChanBuf"), Index: ix.Index}, Args: n.Args[1:2]})
									} else {
										c.Replace(&ast.CallExpr{Fun: &ast.IndexExpr{X: sel(ast.NewIdent("vsched"), "NewChan"), Index: ix.Index}})
									}
									changed = true
									nOps++
								}
							}
						}
					}
				}
			}
			return true
		}
		result := astutil.Apply(f, pre, post)
		if !changed {
			continue
		}
		nf := result.(*ast.File)
		astutil.AddImport(pkg.Fset, nf, "verif/vsched")
		var buf bytes.Buffer
		if err := format.Node(&buf, pkg.Fset, nf); err != nil {
			fmt.Fprintln(os.Stderr, "vrewrite: format:", err)
			os.Exit(1)
		}
		outFile := filepath.Join(genDir, filepath.Base(fname))
		os.WriteFile(outFile, buf.Bytes(), 0o644)
		overlay[fname] = outFile
	}
	if nOps < 5 || !strings.Contains(fmt.Sprint(overlay), "lexer.go") {
		fmt.Fprintf(os.Stderr, "vrewrite: only %d channel/goroutine operations found - the package has changed shape\n", nOps)
		os.Exit(1)
	}
	js, _ := json.MarshalIndent(map[string]any{"Replace": overlay}, "", " ")
	os.WriteFile(filepath.Join(out, "overlay_sched.json"), js, 0o644)
	fmt.Printf("vrewrite: %d operations rewritten in %d files\n", nOps, len(overlay))
}
