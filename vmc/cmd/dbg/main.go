package main

import (
	"fmt"

	"golang.org/x/text/language"

	"verif/explore"
	"verif/gen"
)

func main() {
	for cm := 1; cm < 4; cm++ {
		explore.Exec(func(c *explore.Ctx) {
			f, spec := gen.Font(c, gen.FontOpts{Compact: true, NoMeta: true, GlyphCounts: []int{6}, Kinds: []int{gen.KindGlyf, gen.KindCFF}})
			fmt.Printf("%+v\n", spec)
			lay, err := f.NewLayouter(language.English, nil, nil)
			fmt.Println(err)
			for _, g := range lay.Layout("fBi") {
				fmt.Printf("%d %q; ", g.GID, string(g.Text))
			}
			fmt.Println()
		}, []int{0, 0, 0, 0, cm, 5}, false)
	}
}
