package main

import (
	"fmt"

	"verif/mapseed"
)

func main() {
	m := map[string]int{"a": 1, "b": 2, "c": 3, "d": 4, "e": 5}
	res := mapseed.Under(func() string {
		s := ""
		for k := range m {
			s += k
		}
		return s
	})
	fmt.Println(res)
	big := mapseed.Under(func() string {
		m := map[int]int{}
		for i := 0; i < 20; i++ {
			m[i] = i
		}
		s := ""
		for k := range m {
			s += fmt.Sprint(k, ",")
		}
		return s
	})
	seen := map[string]bool{}
	for _, b := range big {
		seen[b] = true
	}
	fmt.Println(len(seen), big[0], big[1])
}
