// Command race is built with -race and run free (no scheduler): for every
// multiset of 2 and 3 operations it starts the operations behind a barrier
// on one shared font and compares every result with the sequential result.
// The race detector is the access monitor; MARK lines attribute its reports.
//
// usage: race <font index> <max multiset size> <repetitions>
package main

import (
	"fmt"
	"os"
	"runtime"
	"strconv"
	"sync"

	"verif/c16ops"
)

func main() {
	k, _ := strconv.Atoi(os.Args[1])
	size, _ := strconv.Atoi(os.Args[2])
	reps, _ := strconv.Atoi(os.Args[3])
	kind := c16ops.FontNames[k]
	ops := c16ops.Applicable(kind)
	font := c16ops.Font(k)
	// sequential reference on a pristine font
	ref := make([]string, len(ops))
	pristine := c16ops.Font(k)
	for i, o := range ops {
		ref[i] = o.Run(pristine)
	}
	runtime.GOMAXPROCS(16)
	count := 0
	var multi func(start int, cur []int)
	multi = func(start int, cur []int) {
		if len(cur) >= 2 {
			count++
			names := ""
			for _, i := range cur {
				names += ops[i].Name + " "
			}
			fmt.Fprintf(os.Stderr, "MARK %s| %s\n", kind, names)
			for r := 0; r < reps; r++ {
				var wg sync.WaitGroup
				startCh := make(chan struct{})
				res := make([]string, len(cur))
				for j, i := range cur {
					wg.Add(1)
					go func(j, i int) {
						defer wg.Done()
						<-startCh
						res[j] = ops[i].Run(font)
					}(j, i)
				}
				close(startCh)
				wg.Wait()
				for j, i := range cur {
					if res[j] != ref[i] {
						fmt.Fprintf(os.Stderr, "MISMATCH %s| %s: %s returned a different result than when run alone\n", kind, names, ops[i].Name)
					}
				}
			}
		}
		if len(cur) == size {
			return
		}
		for i := start; i < len(ops); i++ {
			multi(i, append(append([]int{}, cur...), i))
		}
	}
	multi(0, nil)
	fmt.Fprintf(os.Stderr, "DONE %s multisets=%d\n", kind, count)
}
