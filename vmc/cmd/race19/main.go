// Command race19 is the free-running pass of C19: built with -race and WITHOUT
// the scheduler rewrite (the builder package is the repository's own source),
// it runs builder.Parse on the input families of the C19 harness with real
// goroutines under GOMAXPROCS 1, 2, 4 and 16, several calls at a time.  The
// race detector monitors the accesses the cooperative scheduler cannot see;
// results are compared across GOMAXPROCS settings, every call is under a
// watchdog, and after every batch the number of goroutines must return to the
// baseline (no goroutine left running).
//
// usage: race19 <quick|thorough>
package main

import (
	"fmt"
	"os"
	"runtime"
	"runtime/pprof"
	"strings"
	"sync"
	"time"

	"seehuhn.de/go/sfnt/opentype/gtab/builder"
	"seehuhn.de/go/sfnt/opentype/gtab/testcases"

	"verif/c19in"
	"verif/dump"
)

func main() {
	thorough := len(os.Args) > 1 && os.Args[1] == "thorough"
	fg, err := testcases.NewFontGen()
	if err != nil {
		fmt.Fprintln(os.Stderr, "ERROR", err)
		os.Exit(2)
	}
	font, err := fg.GsubTestFont(0)
	if err != nil {
		fmt.Fprintln(os.Stderr, "ERROR", err)
		os.Exit(2)
	}
	font.Gsub = nil
	var inputs []string
	for i, tc := range testcases.Gsub {
		inputs = append(inputs, tc.Desc)
		if thorough || i%3 == 0 {
			inputs = append(inputs, c19in.Mutations(tc.Desc, 0)...)
		}
	}
	maxLen := 2
	if thorough {
		maxLen = 3
	}
	inputs = append(inputs, c19in.TokenStrings(maxLen)...)

	parse := func(in string) (res string) {
		defer func() {
			if r := recover(); r != nil {
				res = fmt.Sprintf("PANIC %v", r)
			}
		}()
		ll, err := builder.Parse(font, in)
		if err != nil {
			return "error " + err.Error()
		}
		return dump.String(ll)
	}

	ref := make([]string, len(inputs))
	const batch = 2000
	total := 0
	for pi, procs := range []int{1, 2, 4, 16} {
		runtime.GOMAXPROCS(procs)
		for lo := 0; lo < len(inputs); lo += batch {
			hi := min(lo+batch, len(inputs))
			fmt.Fprintf(os.Stderr, "MARK GOMAXPROCS=%d inputs %d..%d\n", procs, lo, hi-1)
			base := runtime.NumGoroutine()
			res := make([]string, hi-lo)
			var wg sync.WaitGroup
			next := make(chan int)
			for w := 0; w < 8; w++ {
				wg.Add(1)
				go func() {
					defer wg.Done()
					for i := range next {
						res[i-lo] = parse(inputs[i])
					}
				}()
			}
			finished := make(chan struct{})
			go func() {
				for i := lo; i < hi; i++ {
					next <- i
				}
				close(next)
				wg.Wait()
				close(finished)
			}()
			select {
			case <-finished:
			case <-time.After(120 * time.Second):
				// find an input without a result
				for i := lo; i < hi; i++ {
					if res[i-lo] == "" {
						fmt.Fprintf(os.Stderr, "HANG GOMAXPROCS=%d: Parse(%q) did not return within 120 s\n", procs, inputs[i])
						break
					}
				}
				fmt.Fprintf(os.Stderr, "DONE %d\n", total)
				os.Exit(0)
			}
			total += hi - lo
			for i := lo; i < hi; i++ {
				if pi == 0 {
					ref[i] = res[i-lo]
				} else if res[i-lo] != ref[i] {
					fmt.Fprintf(os.Stderr, "MISMATCH GOMAXPROCS=%d: Parse(%q) gives %.150q, with GOMAXPROCS=1 %.150q\n", procs, inputs[i], res[i-lo], ref[i])
				}
				if strings.HasPrefix(res[i-lo], "PANIC") {
					fmt.Fprintf(os.Stderr, "MISMATCH GOMAXPROCS=%d: Parse(%q): %.200s\n", procs, inputs[i], res[i-lo])
				}
			}
			// every goroutine started by Parse must have ended
			deadline := time.Now().Add(10 * time.Second)
			for runtime.NumGoroutine() > base && time.Now().Before(deadline) {
				runtime.Gosched()
				time.Sleep(time.Millisecond)
			}
			if n := runtime.NumGoroutine(); n > base {
				var sb strings.Builder
				pprof.Lookup("goroutine").WriteTo(&sb, 1)
				where := ""
				for _, l := range strings.Split(sb.String(), "\n") {
					if strings.Contains(l, "gtab/builder") {
						where = strings.TrimSpace(l)
						break
					}
				}
				fmt.Fprintf(os.Stderr, "LEAK GOMAXPROCS=%d inputs %d..%d: %d goroutine(s) still running 10 s after all calls returned: %s\n", procs, lo, hi-1, n-base, where)
			}
		}
	}
	fmt.Fprintf(os.Stderr, "DONE %d\n", total)
}
