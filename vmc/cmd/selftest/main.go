package main

import (
	"fmt"
	"os"

	"verif/refshape"
)

func main() {
	n, rep, err := refshape.SelfTest()
	for _, r := range rep {
		fmt.Println(r)
	}
	fmt.Println("checked", n)
	if err != nil {
		fmt.Println("ERROR:", err)
		os.Exit(1)
	}
}
