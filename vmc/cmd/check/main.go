// Command check runs the model-checking harness of one property.
package main

import (
	"flag"
	"fmt"
	"os"
	"runtime/debug"
	"runtime/pprof"
	"strconv"
	"strings"

	"verif/harness"
	"verif/mapseed"
	"verif/run"
)

func main() {
	debug.SetGCPercent(400)
	tier := flag.String("tier", "quick", "quick or thorough")
	replay := flag.String("replay", "", "replay file")
	list := flag.Bool("list", false, "list properties")
	// allow flags after the property id: ./check C17 --tier quick
	var pos, fl []string
	args := os.Args[1:]
	for i := 0; i < len(args); i++ {
		a := args[i]
		if len(a) > 1 && a[0] == '-' {
			fl = append(fl, a)
			if !strings.Contains(a, "=") && a != "--list" && a != "-list" && i+1 < len(args) {
				i++
				fl = append(fl, args[i])
			}
		} else {
			pos = append(pos, a)
		}
	}
	flag.CommandLine.Parse(append(fl, pos...))
	if *list {
		for _, id := range harness.IDs() {
			fmt.Println(id)
		}
		return
	}
	if flag.NArg() != 1 {
		fmt.Fprintln(os.Stderr, "usage: check [--tier quick|thorough] [--replay file] <ID>")
		os.Exit(2)
	}
	id := flag.Arg(0)
	if t := os.Getenv("VERIF_TIER"); t != "" && !isFlagSet("tier") {
		*tier = t
	}
	if *tier != "quick" && *tier != "thorough" {
		fmt.Fprintln(os.Stderr, "bad tier", *tier)
		os.Exit(2)
	}
	var seed int64
	if s := os.Getenv("VERIF_SEED"); s != "" {
		seed, _ = strconv.ParseInt(s, 10, 64)
	}
	f := harness.Get(id)
	if f == nil {
		fmt.Fprintln(os.Stderr, "HARNESS-ERROR: no harness for", id)
		os.Exit(2)
	}
	r := run.New(id, *tier, seed)
	if *replay != "" {
		os.Setenv("VERIF_REPLAY_PATH", *replay)
		rp := run.LoadReplay(*replay)
		r.Tier = rp.Tier
		r.SetReplay(rp)
	}
	mapseed.Full = r.Tier == "thorough"
	if pf := os.Getenv("VERIF_CPUPROFILE"); pf != "" {
		w, err := os.Create(pf)
		if err == nil {
			pprof.StartCPUProfile(w)
			defer pprof.StopCPUProfile()
		}
	}
	f(r)
	pprof.StopCPUProfile()
	r.Finish()
}

func isFlagSet(name string) bool {
	set := false
	flag.Visit(func(f *flag.Flag) {
		if f.Name == name {
			set = true
		}
	})
	return set
}
