// Command vtick generates the step-counter seam of C02: a copy of every
// library source file in which each function body and each loop body starts
// with vtick.Tick().  The copies are used through a build overlay; nothing in
// /repo changes.  The call is inserted on the line of the opening brace, so
// line numbers in stack traces are those of the original source.
//
// usage: vtick <repo> <build dir>
package main

import (
	"encoding/json"
	"fmt"
	"go/ast"
	"go/parser"
	"go/token"
	"os"
	"path/filepath"
	"sort"
	"strings"
)

const tickPkg = "seehuhn.de/go/sfnt/internal/vtick"

func main() {
	repo, build := os.Args[1], os.Args[2]
	verifRoot := filepath.Dir(build)
	outDir := filepath.Join(build, "gen", "tick")
	os.RemoveAll(outDir)
	replace := map[string]string{}
	nFiles, nPoints := 0, 0
	err := filepath.Walk(repo, func(path string, fi os.FileInfo, err error) error {
		if err != nil {
			return err
		}
		if fi.IsDir() {
			n := fi.Name()
			if n == "testdata" || n == ".git" || strings.HasPrefix(n, "_") || n == "builder" || n == "examples" {
				return filepath.SkipDir
			}
			return nil
		}
		if !strings.HasSuffix(path, ".go") || strings.HasSuffix(path, "_test.go") {
			return nil
		}
		src, err := os.ReadFile(path)
		if err != nil {
			return err
		}
		fset := token.NewFileSet()
		f, err := parser.ParseFile(fset, path, src, parser.SkipObjectResolution)
		if err != nil {
			return fmt.Errorf("%s: %v", path, err)
		}
		if f.Name.Name == "main" {
			return nil
		}
		var offs []int
		ast.Inspect(f, func(n ast.Node) bool {
			var body *ast.BlockStmt
			switch x := n.(type) {
			case *ast.FuncDecl:
				body = x.Body
			case *ast.FuncLit:
				body = x.Body
			case *ast.ForStmt:
				body = x.Body
			case *ast.RangeStmt:
				body = x.Body
			}
			if body != nil {
				offs = append(offs, fset.Position(body.Lbrace).Offset+1)
			}
			return true
		})
		if len(offs) == 0 {
			return nil
		}
		sort.Ints(offs)
		var sb strings.Builder
		last := 0
		// the import goes on the line of the package clause
		pkgEnd := fset.Position(f.Name.End()).Offset
		sb.Write(src[:pkgEnd])
		sb.WriteString("; import vtick \"" + tickPkg + "\"")
		last = pkgEnd
		for _, o := range offs {
			sb.Write(src[last:o])
			sb.WriteString("vtick.Tick();")
			last = o
		}
		sb.Write(src[last:])
		rel, _ := filepath.Rel(repo, path)
		out := filepath.Join(outDir, rel)
		os.MkdirAll(filepath.Dir(out), 0o755)
		if err := os.WriteFile(out, []byte(sb.String()), 0o644); err != nil {
			return err
		}
		replace[path] = out
		nFiles++
		nPoints += len(offs)
		return nil
	})
	if err != nil {
		fmt.Fprintln(os.Stderr, "vtick:", err)
		os.Exit(1)
	}
	// the counter package (inside the library's module, so that the library may import it) and its
	// exported face in the root package
	replace[filepath.Join(repo, "internal", "vtick", "vtick.go")] = filepath.Join(verifRoot, "hooks", "tick", "vtick.go")
	replace[filepath.Join(repo, "zz_verif_tick.go")] = filepath.Join(verifRoot, "hooks", "tick", "export.go")
	data, _ := json.MarshalIndent(map[string]any{"Replace": replace}, "", " ")
	if err := os.WriteFile(filepath.Join(build, "overlay_tick.json"), data, 0o644); err != nil {
		fmt.Fprintln(os.Stderr, "vtick:", err)
		os.Exit(1)
	}
	fmt.Printf("vtick: %d files, %d tick points\n", nFiles, nPoints)
}
