package refshape

import (
	"fmt"
	"strings"

	"seehuhn.de/go/sfnt/glyph"
	"seehuhn.de/go/sfnt/opentype/gtab"
	"seehuhn.de/go/sfnt/opentype/gtab/testcases"
)

// SelfTest runs the reference shaper on the repository's pinned GSUB test
// cases.  Sections 1-3 (the documented decisions) must be reproduced exactly;
// for later sections the result is only reported.
func SelfTest() (checked int, report []string, err error) {
	fg, err := testcases.NewFontGen()
	if err != nil {
		return 0, nil, err
	}
	for i, tc := range testcases.Gsub {
		font, err := fg.GsubTestFont(i)
		if err != nil {
			return checked, report, fmt.Errorf("%s: %v", tc.Name, err)
		}
		var seq []glyph.Info
		for _, r := range tc.In {
			seq = append(seq, glyph.Info{GID: fg.CMap.Lookup(r), Text: []rune{r}})
		}
		s := &Shaper{LL: font.Gsub.LookupList, Gdef: font.Gdef}
		out := s.Apply([]gtab.LookupIndex{0}, seq)
		var o, t []rune
		for _, g := range out {
			o = append(o, fg.Rev[g.GID])
			t = append(t, g.Text...)
		}
		wantText := tc.Text
		if wantText == "" {
			wantText = tc.In
		}
		ok := string(o) == tc.Out && string(t) == wantText
		core := strings.HasPrefix(tc.Name, "1_") || strings.HasPrefix(tc.Name, "2_") || strings.HasPrefix(tc.Name, "3_")
		if core {
			checked++
			if !ok {
				return checked, report, fmt.Errorf("reference shaper fails pinned case %s (%q on %q): got %q text %q, want %q text %q", tc.Name, tc.Desc, tc.In, string(o), string(t), tc.Out, wantText)
			}
			if len(s.Undefined) > 0 {
				report = append(report, fmt.Sprintf("%s: reproduced, but flagged undefined: %s", tc.Name, s.Undefined[0]))
			}
		} else {
			report = append(report, fmt.Sprintf("%s: agrees=%v undefined=%v", tc.Name, ok, len(s.Undefined) > 0))
		}
	}
	return checked, report, nil
}
