// Package refshape is a straightforward reference implementation of
// OpenType lookup application (GSUB 1-6, 8; GPOS 1, 2, 4, 6, 7, 8), written
// from the OpenType specification and the documented decisions of
// opentype/gtab/testcases sections 1-3.
//
// It is structurally different from the library's engine: the glyph sequence
// is a list of token objects; a context match holds *tokens* (its live input
// sequence) and a token marking the end of its range, so insertions,
// deletions and ligature merges need no index arithmetic.
//
// The shaper also decides whether the outcome is *defined* by the
// specification plus the documented decisions; see Undefined.
package refshape

import (
	"fmt"

	"seehuhn.de/go/postscript/funit"
	"seehuhn.de/go/sfnt/glyph"
	"seehuhn.de/go/sfnt/opentype/anchor"
	"seehuhn.de/go/sfnt/opentype/classdef"
	"seehuhn.de/go/sfnt/opentype/coverage"
	"seehuhn.de/go/sfnt/opentype/gdef"
	"seehuhn.de/go/sfnt/opentype/gtab"
	"seehuhn.de/go/sfnt/opentype/markarray"
)

// Tok is one glyph of the sequence.
type Tok struct {
	GID       glyph.ID
	Text      []rune
	X, Y, Adv int
}

// frame is a contextual match in progress.
type frame struct {
	input   []*Tok // live input sequence
	end     *Tok   // first token beyond the match range (nil = end of sequence)
	pending int    // actions not yet run
	keep    func(*Tok) bool
}

// Shaper applies lookups.
type Shaper struct {
	LL   gtab.LookupList
	Gdef *gdef.Table

	seq       []*Tok
	stack     []*frame
	Undefined []string // reasons why the outcome is not defined by spec + documented decisions
	Matched   int      // number of subtable matches (non-triviality measure)
	actions   int
	MaxActs   int
}

func (s *Shaper) undefined(format string, a ...any) {
	if len(s.Undefined) < 4 {
		s.Undefined = append(s.Undefined, fmt.Sprintf(format, a...))
	}
}

// keepFn: which glyphs a lookup with these flags looks at (OpenType spec, "lookupFlag").
func (s *Shaper) keepFn(meta *gtab.LookupMetaInfo) func(*Tok) bool {
	flags := meta.LookupFlags
	g := s.Gdef
	if g == nil || g.GlyphClass == nil {
		// without glyph classes no glyph can be classified as base/ligature/mark
		return func(*Tok) bool { return true }
	}
	return func(t *Tok) bool {
		switch g.GlyphClass[t.GID] {
		case gdef.GlyphClassBase:
			return flags&gtab.IgnoreBaseGlyphs == 0
		case gdef.GlyphClassLigature:
			return flags&gtab.IgnoreLigatures == 0
		case gdef.GlyphClassMark:
			if flags&gtab.IgnoreMarks != 0 {
				return false
			}
			if flags&gtab.UseMarkFilteringSet != 0 {
				// the filtering set supersedes the attachment type
				k := int(meta.MarkFilteringSet)
				return k < len(g.MarkGlyphSets) && g.MarkGlyphSets[k][t.GID]
			}
			if at := flags & gtab.MarkAttachTypeMask; at != 0 {
				return g.MarkAttachClass != nil && g.MarkAttachClass[t.GID] == uint16(at>>8)
			}
		}
		return true
	}
}

func (s *Shaper) index(t *Tok) int {
	if t == nil {
		return len(s.seq)
	}
	for i, x := range s.seq {
		if x == t {
			return i
		}
	}
	panic("refshape: token not in sequence")
}

// Apply runs the lookups, in the given order, over the glyph sequence.
func (s *Shaper) Apply(lookups []gtab.LookupIndex, in []glyph.Info) []glyph.Info {
	s.seq = s.seq[:0]
	for _, g := range in {
		s.seq = append(s.seq, &Tok{GID: g.GID, Text: append([]rune(nil), g.Text...), X: int(g.XOffset), Y: int(g.YOffset), Adv: int(g.Advance)})
	}
	for _, li := range lookups {
		if int(li) >= len(s.LL) {
			continue
		}
		s.applyLookup(s.LL[li])
	}
	out := make([]glyph.Info, len(s.seq))
	for i, t := range s.seq {
		out[i] = glyph.Info{GID: t.GID, Text: t.Text, XOffset: funit.Int16(t.X), YOffset: funit.Int16(t.Y), Advance: funit.Int16(t.Adv)}
	}
	return out
}

func (s *Shaper) applyLookup(L *gtab.LookupTable) {
	keep := s.keepFn(L.Meta)
	if L.Meta.LookupType == 8 && isGsub8(L) {
		s.checkReverseOrder(L, keep)
	}
	i := 0
	for i < len(s.seq) {
		t := s.seq[i]
		if !keep(t) {
			i++
			continue
		}
		s.actions = 0
		matched, resume := s.applyAt(L, keep, t, nil)
		if !matched {
			i++
			continue
		}
		j := s.index(resume)
		if j <= i {
			// every match consumes at least the glyph it started on
			j = i + 1
		}
		i = j
	}
}

func isGsub8(L *gtab.LookupTable) bool {
	for _, st := range L.Subtables {
		if _, ok := st.(*gtab.Gsub8_1); ok {
			return true
		}
	}
	return false
}

// next kept token after t and before end; skipped tokens are appended to *skipped.
func (s *Shaper) next(t *Tok, end *Tok, keep func(*Tok) bool, skipped *[]*Tok) *Tok {
	for i := s.index(t) + 1; i < len(s.seq); i++ {
		x := s.seq[i]
		if x == end {
			return nil
		}
		if keep(x) {
			return x
		}
		if skipped != nil {
			*skipped = append(*skipped, x)
		}
	}
	return nil
}

// prev kept token before t.
func (s *Shaper) prev(t *Tok, keep func(*Tok) bool) *Tok {
	for i := s.index(t) - 1; i >= 0; i-- {
		if keep(s.seq[i]) {
			return s.seq[i]
		}
	}
	return nil
}

// after returns the token following t (nil at the end).
func (s *Shaper) after(t *Tok) *Tok {
	i := s.index(t)
	if i+1 < len(s.seq) {
		return s.seq[i+1]
	}
	return nil
}

// applyAt tries the subtables of L at token t; the match may not use tokens
// at or beyond end.  Returns whether a subtable matched and where scanning
// resumes.
func (s *Shaper) applyAt(L *gtab.LookupTable, keep func(*Tok) bool, t *Tok, end *Tok) (bool, *Tok) {
	for _, st := range L.Subtables {
		if ok, resume := s.applySubtable(st, keep, t, end); ok {
			s.Matched++
			return true, resume
		}
	}
	return false, nil
}

func inCovT(c coverage.Table, g glyph.ID) (int, bool) { i, ok := c[g]; return i, ok }

func (s *Shaper) applySubtable(st gtab.Subtable, keep func(*Tok) bool, t *Tok, end *Tok) (bool, *Tok) {
	switch l := st.(type) {
	case *gtab.Gsub1_1:
		if !l.Cov[t.GID] {
			return false, nil
		}
		s.modify(t)
		t.GID += l.Delta
		return true, s.after(t)
	case *gtab.Gsub1_2:
		i, ok := inCovT(l.Cov, t.GID)
		if !ok || i >= len(l.SubstituteGlyphIDs) {
			return false, nil
		}
		s.modify(t)
		t.GID = l.SubstituteGlyphIDs[i]
		return true, s.after(t)
	case *gtab.Gsub2_1:
		i, ok := inCovT(l.Cov, t.GID)
		if !ok || i >= len(l.Repl) || len(l.Repl[i]) == 0 {
			return false, nil
		}
		return true, s.expand(t, l.Repl[i])
	case *gtab.Gsub3_1:
		i, ok := inCovT(l.Cov, t.GID)
		if !ok || i >= len(l.Alternates) || len(l.Alternates[i]) == 0 {
			return false, nil // an empty alternate set means: not applicable (documented, case 1_09)
		}
		s.modify(t)
		t.GID = l.Alternates[i][0] // documented decision: always the first alternate
		return true, s.after(t)
	case *gtab.Gsub4_1:
		i, ok := inCovT(l.Cov, t.GID)
		if !ok || i >= len(l.Repl) {
			return false, nil
		}
		for _, lig := range l.Repl[i] { // ligatures in order of preference
			comps := []*Tok{t}
			var skipped []*Tok
			cur := t
			good := true
			for _, want := range lig.In {
				var sk []*Tok
				n := s.next(cur, end, keep, &sk)
				if n == nil || n.GID != want {
					good = false
					break
				}
				skipped = append(skipped, sk...)
				comps = append(comps, n)
				cur = n
			}
			if !good {
				continue
			}
			return true, s.merge(comps, skipped, lig.Out)
		}
		return false, nil
	case *gtab.Gsub8_1:
		i, ok := inCovT(l.Input, t.GID)
		if !ok || i >= len(l.SubstituteGlyphIDs) {
			return false, nil
		}
		cur := t
		for _, cov := range l.Backtrack {
			cur = s.prev(cur, keep)
			if cur == nil || !cov.Contains(cur.GID) {
				return false, nil
			}
		}
		cur = t
		for _, cov := range l.Lookahead {
			cur = s.nextLookahead(cur, end, keep)
			if cur == nil || !cov.Contains(cur.GID) {
				return false, nil
			}
		}
		s.modify(t)
		t.GID = l.SubstituteGlyphIDs[i]
		return true, s.after(t)

	case *gtab.SeqContext1:
		i, ok := inCovT(l.Cov, t.GID)
		if !ok || i >= len(l.Rules) {
			return false, nil
		}
		for _, rule := range l.Rules[i] {
			if rule == nil {
				continue
			}
			in, ok := s.matchInput(t, end, keep, len(rule.Input), func(k int, x *Tok) bool { return x.GID == rule.Input[k] })
			if ok {
				return true, s.runActions(in, end, keep, rule.Actions)
			}
		}
		return false, nil
	case *gtab.SeqContext2:
		if _, ok := l.Cov[t.GID]; !ok {
			return false, nil
		}
		cls := int(l.Input[t.GID])
		if cls >= len(l.Rules) {
			return false, nil
		}
		for _, rule := range l.Rules[cls] {
			if rule == nil {
				continue
			}
			in, ok := s.matchInput(t, end, keep, len(rule.Input), func(k int, x *Tok) bool { return l.Input[x.GID] == rule.Input[k] })
			if ok {
				return true, s.runActions(in, end, keep, rule.Actions)
			}
		}
		return false, nil
	case *gtab.SeqContext3:
		if len(l.Input) == 0 || !l.Input[0][t.GID] {
			return false, nil
		}
		in, ok := s.matchInput(t, end, keep, len(l.Input)-1, func(k int, x *Tok) bool { return l.Input[k+1][x.GID] })
		if ok {
			return true, s.runActions(in, end, keep, l.Actions)
		}
		return false, nil

	case *gtab.ChainedSeqContext1:
		i, ok := inCovT(l.Cov, t.GID)
		if !ok || i >= len(l.Rules) {
			return false, nil
		}
		for _, rule := range l.Rules[i] {
			if rule == nil {
				continue
			}
			in, ok := s.matchInput(t, end, keep, len(rule.Input), func(k int, x *Tok) bool { return x.GID == rule.Input[k] })
			if !ok {
				continue
			}
			if !s.matchBack(t, keep, len(rule.Backtrack), func(k int, x *Tok) bool { return x.GID == rule.Backtrack[k] }) {
				continue
			}
			if !s.matchAhead(in[len(in)-1], end, keep, len(rule.Lookahead), func(k int, x *Tok) bool { return x.GID == rule.Lookahead[k] }) {
				continue
			}
			return true, s.runActions(in, end, keep, rule.Actions)
		}
		return false, nil
	case *gtab.ChainedSeqContext2:
		if _, ok := l.Cov[t.GID]; !ok {
			return false, nil
		}
		cls := int(l.Input[t.GID])
		if cls >= len(l.Rules) {
			return false, nil
		}
		for _, rule := range l.Rules[cls] {
			if rule == nil {
				continue
			}
			in, ok := s.matchInput(t, end, keep, len(rule.Input), func(k int, x *Tok) bool { return l.Input[x.GID] == rule.Input[k] })
			if !ok {
				continue
			}
			if !s.matchBack(t, keep, len(rule.Backtrack), func(k int, x *Tok) bool { return l.Backtrack[x.GID] == rule.Backtrack[k] }) {
				continue
			}
			if !s.matchAhead(in[len(in)-1], end, keep, len(rule.Lookahead), func(k int, x *Tok) bool { return l.Lookahead[x.GID] == rule.Lookahead[k] }) {
				continue
			}
			return true, s.runActions(in, end, keep, rule.Actions)
		}
		return false, nil
	case *gtab.ChainedSeqContext3:
		if len(l.Input) == 0 || !l.Input[0][t.GID] {
			return false, nil
		}
		in, ok := s.matchInput(t, end, keep, len(l.Input)-1, func(k int, x *Tok) bool { return l.Input[k+1][x.GID] })
		if !ok {
			return false, nil
		}
		if !s.matchBack(t, keep, len(l.Backtrack), func(k int, x *Tok) bool { return l.Backtrack[k][x.GID] }) {
			return false, nil
		}
		if !s.matchAhead(in[len(in)-1], end, keep, len(l.Lookahead), func(k int, x *Tok) bool { return l.Lookahead[k][x.GID] }) {
			return false, nil
		}
		return true, s.runActions(in, end, keep, l.Actions)

	case *gtab.Gpos1_1:
		if _, ok := l.Cov[t.GID]; !ok {
			return false, nil
		}
		s.adjust(t, l.Adjust)
		return true, s.after(t)
	case *gtab.Gpos1_2:
		i, ok := inCovT(l.Cov, t.GID)
		if !ok || i >= len(l.Adjust) {
			return false, nil
		}
		s.adjust(t, l.Adjust[i])
		return true, s.after(t)
	case gtab.Gpos2_1:
		n := s.next(t, end, keep, nil)
		if n == nil {
			return false, nil
		}
		adj, ok := l[glyph.Pair{Left: t.GID, Right: n.GID}]
		if !ok || adj == nil {
			return false, nil
		}
		return true, s.pair(t, n, adj)
	case *gtab.Gpos2_2:
		if !l.Cov[t.GID] {
			return false, nil
		}
		n := s.next(t, end, keep, nil)
		if n == nil {
			return false, nil
		}
		c1, c2 := int(l.Class1[t.GID]), int(l.Class2[n.GID])
		if c1 >= len(l.Adjust) || c2 >= len(l.Adjust[c1]) || l.Adjust[c1][c2] == nil {
			return false, nil
		}
		return true, s.pair(t, n, l.Adjust[c1][c2])
	case *gtab.Gpos4_1:
		return s.attach(t, keep, l.MarkCov, l.BaseCov, l.MarkArray, l.BaseArray, "GPOS4")
	case *gtab.Gpos6_1:
		return s.attach(t, keep, l.Mark1Cov, l.Mark2Cov, l.Mark1Array, l.Mark2Array, "GPOS6")
	}
	s.undefined("subtable type %T is not modelled", st)
	return false, nil
}

func (s *Shaper) matchInput(t, end *Tok, keep func(*Tok) bool, n int, ok func(int, *Tok) bool) ([]*Tok, bool) {
	in := []*Tok{t}
	cur := t
	for k := 0; k < n; k++ {
		cur = s.next(cur, end, keep, nil)
		if cur == nil || !ok(k, cur) {
			return nil, false
		}
		in = append(in, cur)
	}
	return in, true
}

func (s *Shaper) matchBack(t *Tok, keep func(*Tok) bool, n int, ok func(int, *Tok) bool) bool {
	cur := t
	for k := 0; k < n; k++ {
		cur = s.prev(cur, keep)
		if cur == nil || !ok(k, cur) {
			return false
		}
	}
	return true
}

// nextLookahead: like next, but not limited to the parent's match inside a nested application: the
// input of a nested lookup must lie inside the parent's match, its backtrack and lookahead context is
// the whole glyph sequence (all implementations agree, cf. case 5_09 of the repository's test cases).
func (s *Shaper) nextLookahead(t, end *Tok, keep func(*Tok) bool) *Tok {
	return s.next(t, nil, keep, nil)
}

func (s *Shaper) matchAhead(last, end *Tok, keep func(*Tok) bool, n int, ok func(int, *Tok) bool) bool {
	cur := last
	for k := 0; k < n; k++ {
		cur = s.nextLookahead(cur, end, keep)
		if cur == nil || !ok(k, cur) {
			return false
		}
	}
	return true
}

// runActions pushes the match and runs the nested lookups at their sequence
// positions, resolved against the live input sequence at the time each runs.
func (s *Shaper) runActions(in []*Tok, outerEnd *Tok, keep func(*Tok) bool, actions []gtab.SeqLookup) *Tok {
	// the match range extends over glyphs this lookup ignores after the last input glyph
	last := in[len(in)-1]
	end := outerEnd
	for i := s.index(last) + 1; i < len(s.seq); i++ {
		x := s.seq[i]
		if x == outerEnd {
			break
		}
		if keep(x) {
			end = x
			break
		}
	}
	f := &frame{input: in, end: end, pending: len(actions), keep: keep}
	s.stack = append(s.stack, f)
	for _, a := range actions {
		f.pending--
		s.actions++
		if s.actions > 60 {
			s.undefined("more nested actions than the engine's budget of 64")
			break
		}
		if int(a.SequenceIndex) >= len(f.input) || int(a.LookupListIndex) >= len(s.LL) {
			continue // child lookups which do not apply are ignored
		}
		t := f.input[a.SequenceIndex]
		child := s.LL[a.LookupListIndex]
		ckeep := s.keepFn(child.Meta)
		if !ckeep(t) {
			continue
		}
		s.applyAt(child, ckeep, t, f.end)
	}
	s.stack = s.stack[:len(s.stack)-1]
	return f.end
}

func contains(list []*Tok, t *Tok) bool {
	for _, x := range list {
		if x == t {
			return true
		}
	}
	return false
}

// embeddedIgnored reports whether t lies strictly inside frame f's input
// sequence without being part of it (a glyph f's lookup ignored).
func (s *Shaper) embeddedIgnored(f *frame, t *Tok) bool {
	if contains(f.input, t) || len(f.input) == 0 {
		return false
	}
	i := s.index(t)
	return i > s.index(f.input[0]) && i < s.index(f.input[len(f.input)-1])
}

// modify is called before a glyph is replaced in place.
func (s *Shaper) modify(t *Tok) {
	for _, f := range s.stack {
		if f.pending > 0 && s.embeddedIgnored(f, t) {
			s.undefined("a nested lookup replaces a glyph its parent ignored, with further actions pending (testcases section 4)")
		}
	}
}

// expand replaces t by several glyphs (multiple substitution).
func (s *Shaper) expand(t *Tok, repl []glyph.ID) *Tok {
	s.modify(t)
	i := s.index(t)
	t.GID = repl[0]
	var extra []*Tok
	for _, g := range repl[1:] {
		extra = append(extra, &Tok{GID: g})
	}
	s.seq = append(s.seq[:i+1], append(extra, s.seq[i+1:]...)...)
	for _, f := range s.stack {
		for k, x := range f.input {
			if x == t {
				// new glyphs join the input sequence, whatever their class (case 3_08)
				f.input = append(f.input[:k+1], append(append([]*Tok{}, extra...), f.input[k+1:]...)...)
				break
			}
		}
	}
	last := t
	if len(extra) > 0 {
		last = extra[len(extra)-1]
	}
	return s.after(last)
}

// merge replaces the components by one ligature glyph at the position of the
// first component; skipped glyphs between the components move behind it.
func (s *Shaper) merge(comps, skipped []*Tok, out glyph.ID) *Tok {
	for _, f := range s.stack {
		if f.pending == 0 {
			continue
		}
		member := 0
		for _, c := range comps {
			if contains(f.input, c) {
				member++
			}
		}
		if member != len(comps) && !contains(f.input, comps[0]) && member > 0 {
			s.undefined("a nested ligature starts on a glyph an ancestor ignored but consumes glyphs of its input, with further actions pending")
		}
		for _, c := range comps[1:] {
			if !contains(f.input, c) && s.embeddedIgnored(f, c) && c.GID != 0 {
				// removing embedded ignored glyphs does not affect the input sequence (cases 2_08, 4_01): defined
				_ = c
			}
		}
	}
	lig := comps[0]
	var text []rune
	for _, c := range comps {
		text = append(text, c.Text...)
	}
	lig.GID = out
	lig.Text = text
	drop := map[*Tok]bool{}
	for _, c := range comps[1:] {
		drop[c] = true
	}
	moved := map[*Tok]bool{}
	for _, x := range skipped {
		moved[x] = true
	}
	var nseq []*Tok
	for _, x := range s.seq {
		if drop[x] || moved[x] {
			continue
		}
		nseq = append(nseq, x)
		if x == lig {
			nseq = append(nseq, skipped...)
		}
	}
	s.seq = nseq
	for _, f := range s.stack {
		hadLig := contains(f.input, lig)
		set := map[*Tok]bool{}
		for _, x := range f.input {
			if !drop[x] {
				set[x] = true
			}
		}
		if !hadLig {
			delete(set, lig)
		}
		var in []*Tok
		for _, x := range s.seq { // the input sequence is always in glyph order
			if set[x] {
				in = append(in, x)
			}
		}
		f.input = in
	}
	resume := lig
	if len(skipped) > 0 {
		resume = skipped[len(skipped)-1]
	}
	return s.after(resume)
}

func (s *Shaper) adjust(t *Tok, vr *gtab.GposValueRecord) {
	if vr == nil {
		return
	}
	t.X += int(vr.XPlacement)
	t.Y += int(vr.YPlacement)
	t.Adv += int(vr.XAdvance)
}

func (s *Shaper) pair(a, b *Tok, adj *gtab.PairAdjust) *Tok {
	s.adjust(a, adj.First)
	if adj.Second == nil {
		return b // the second glyph may start the next pair
	}
	s.adjust(b, adj.Second)
	return s.after(b)
}

func (s *Shaper) attach(t *Tok, keep func(*Tok) bool, markCov, baseCov coverage.Table, marks []markarray.Record, bases [][]anchor.Table, what string) (bool, *Tok) {
	mi, ok := markCov[t.GID]
	if !ok || mi >= len(marks) {
		return false, nil
	}
	// The glyph to attach to.  The specification attaches to the preceding glyph the lookup looks at;
	// what happens when that glyph is not covered, or when a glyph the lookup ignores is covered, is
	// not specified (the library searches back over all glyphs for the nearest covered one).
	var covered *Tok
	for p := s.prev(t, func(*Tok) bool { return true }); p != nil; p = s.prev(p, func(*Tok) bool { return true }) {
		if _, ok := baseCov[p.GID]; ok {
			covered = p
			break
		}
	}
	if covered == nil {
		return false, nil // nothing to attach to under any reading
	}
	cand := s.prev(t, keep)
	if cand != covered {
		s.undefined("%s: the nearest covered glyph is not the nearest glyph the lookup looks at (search-back is not specified)", what)
		return false, nil
	}
	bi := baseCov[cand.GID]
	rec := marks[mi]
	if bi >= len(bases) || int(rec.Class) >= len(bases[bi]) {
		return false, nil
	}
	ba := bases[bi][rec.Class]
	if ba.IsEmpty() {
		return false, nil
	}
	// "positioning adds exactly the value-record and anchor adjustments": an offset the mark already has
	// (from an earlier lookup) stays, the anchor adjustment is added to it.  Whether an offset of the
	// glyph attached TO moves the mark along is not specified.
	// For mark-to-mark attachment (GPOS 6) a later attachment conventionally replaces an earlier
	// mark-to-base attachment of the same mark: set vs. add is left undefined there.
	if cand.X != 0 || cand.Y != 0 {
		s.undefined("%s: the glyph attached to already carries an offset (whether the mark follows it is not specified)", what)
	}
	if (t.X != 0 || t.Y != 0) && what == "GPOS6" {
		s.undefined("%s: the mark already carries an offset (for mark-to-mark attachment set vs. add is not specified)", what)
	}
	dx := int(ba.X) - int(rec.X)
	dy := int(ba.Y) - int(rec.Y)
	for i := s.index(cand); i < s.index(t); i++ {
		dx -= s.seq[i].Adv
	}
	t.X += dx
	t.Y += dy
	return true, s.after(t)
}

// checkReverseOrder: GSUB type 8 is specified to process the glyphs in
// reverse order; if forward processing would give a different result the
// outcome of a forward engine is not the specified one.
func (s *Shaper) checkReverseOrder(L *gtab.LookupTable, keep func(*Tok) bool) {
	run := func(reverse bool) string {
		saveSeq := s.seq
		saveU := s.Undefined
		saveM := s.Matched
		cp := make([]*Tok, len(s.seq))
		for i, t := range s.seq {
			c := *t
			cp[i] = &c
		}
		s.seq = cp
		n := len(cp)
		for k := 0; k < n; k++ {
			i := k
			if reverse {
				i = n - 1 - k
			}
			if keep(s.seq[i]) {
				s.applyAt(L, keep, s.seq[i], nil)
			}
		}
		out := ""
		for _, t := range s.seq {
			out += fmt.Sprint(t.GID, " ")
		}
		s.seq, s.Undefined, s.Matched = saveSeq, saveU, saveM
		return out
	}
	if run(false) != run(true) {
		s.undefined("GSUB 8: forward and reverse processing differ (contexts overlap substituted glyphs)")
	}
}

var _ = classdef.Table{}
