// Package mapseed is the harness side of the map-iteration-order seam (see
// /verif/hooks/gen_maprt.py).  While a seed is set, every map iteration of
// the process starts at the position given by the seed and every map made
// meanwhile gets the hash seed given by it, so the order in which a piece of
// code sees the entries of its maps is a deterministic function of the seed.
// For maps of up to 8 entries (one bucket) the 8 iteration offsets are all
// orders the runtime can produce.  The seam is process-wide: it may only be
// used where one goroutine runs the code under test (sharded explorations,
// replays).
package mapseed

import _ "unsafe" // for go:linkname

//go:linkname seedOn runtime.verifMapSeedOn
var seedOn bool

//go:linkname seed runtime.verifMapSeed
var seed uint64

// Set switches the seam on with iteration start r and hash-seed selector h.
func Set(r, h int) { seed = uint64(r&0xFFFF) | uint64(h)<<16; seedOn = true }

// Off restores the runtime's own randomisation.
func Off() { seedOn = false }

// Full selects the large alphabet (thorough tier).
var Full bool

// Orders is the alphabet of seeds explored per case: the 8 offsets inside a
// bucket x 2 start buckets under one hash seed (16 seeds), or x 4 start
// buckets under 2 hash seeds (64 seeds) when Full is set.
func Orders() [][2]int {
	var out [][2]int
	nh, nr := 1, 16
	if Full {
		nh, nr = 2, 32
	}
	for h := 0; h < nh; h++ {
		for r := 0; r < nr; r++ {
			out = append(out, [2]int{r, h})
		}
	}
	return out
}

// Under runs f under every seed of the alphabet and returns the results.
func Under(f func() string) []string {
	var out []string
	for _, o := range Orders() {
		Set(o[0], o[1])
		s := f()
		Off()
		out = append(out, s)
	}
	return out
}
