package reft2

import (
	"encoding/binary"
	"fmt"
	"math"
	"os"
	"strings"
	"testing"

	"golang.org/x/image/font"
	"golang.org/x/image/font/sfnt"
	"golang.org/x/image/math/fixed"

	"verif/refcff"
)

const cffTestFont = "/root/go/pkg/mod/golang.org/x/image@v0.18.0/font/testdata/CFFTest.otf"

// sfntTable extracts a table from an sfnt file by walking the table
// directory by hand.
func sfntTable(data []byte, tag string) ([]byte, error) {
	if len(data) < 12 {
		return nil, fmt.Errorf("sfnt header truncated")
	}
	numTables := int(binary.BigEndian.Uint16(data[4:]))
	for i := 0; i < numTables; i++ {
		rec := 12 + 16*i
		if rec+16 > len(data) {
			return nil, fmt.Errorf("sfnt directory truncated")
		}
		if string(data[rec:rec+4]) != tag {
			continue
		}
		off := int(binary.BigEndian.Uint32(data[rec+8:]))
		length := int(binary.BigEndian.Uint32(data[rec+12:]))
		if off+length > len(data) {
			return nil, fmt.Errorf("table %q runs past the end of the file", tag)
		}
		return data[off : off+length], nil
	}
	return nil, fmt.Errorf("table %q not found", tag)
}

// segString formats an x/image outline.
func segString(segs sfnt.Segments) string {
	var parts []string
	for _, s := range segs {
		switch s.Op {
		case sfnt.SegmentOpMoveTo:
			parts = append(parts, fmt.Sprintf("M %d %d", s.Args[0].X, s.Args[0].Y))
		case sfnt.SegmentOpLineTo:
			parts = append(parts, fmt.Sprintf("L %d %d", s.Args[0].X, s.Args[0].Y))
		case sfnt.SegmentOpQuadTo:
			parts = append(parts, fmt.Sprintf("Q %d %d %d %d", s.Args[0].X, s.Args[0].Y, s.Args[1].X, s.Args[1].Y))
		case sfnt.SegmentOpCubeTo:
			parts = append(parts, fmt.Sprintf("C %d %d %d %d %d %d", s.Args[0].X, s.Args[0].Y, s.Args[1].X, s.Args[1].Y, s.Args[2].X, s.Args[2].Y))
		}
	}
	return strings.Join(parts, "|")
}

// refString formats a reft2 outline in the conventions of x/image at
// ppem = unitsPerEm: 26.6 fixed point, y pointing down, every subpath which
// does not end at its start point closed by an explicit LineTo, and no hint
// masks.
func refString(g *Glyph) string {
	fix := func(v float64) int { return int(math.Round(v * 64)) }
	var parts []string
	var startX, startY, curX, curY float64
	open := false
	closePath := func() {
		if open && (curX != startX || curY != startY) {
			parts = append(parts, fmt.Sprintf("L %d %d", fix(startX), fix(-startY)))
		}
	}
	for _, o := range g.Ops {
		a := o.Args
		switch o.Kind {
		case 'M':
			closePath()
			open = true
			startX, startY = a[0], a[1]
			curX, curY = a[0], a[1]
			parts = append(parts, fmt.Sprintf("M %d %d", fix(a[0]), fix(-a[1])))
		case 'L':
			curX, curY = a[0], a[1]
			parts = append(parts, fmt.Sprintf("L %d %d", fix(a[0]), fix(-a[1])))
		case 'C':
			curX, curY = a[4], a[5]
			parts = append(parts, fmt.Sprintf("C %d %d %d %d %d %d", fix(a[0]), fix(-a[1]), fix(a[2]), fix(-a[3]), fix(a[4]), fix(-a[5])))
		}
	}
	closePath()
	return strings.Join(parts, "|")
}

// A larger CFF font which happens to be in the module cache; used when present.
const fontAwesome = "/root/go/pkg/mod/github.com/smartystreets/goconvey@v1.8.1/web/client/resources/fonts/FontAwesome/fonts/FontAwesome.otf"

func TestCrossCheckXImageFontAwesome(t *testing.T) {
	data, err := os.ReadFile(fontAwesome)
	if err != nil {
		t.Skip("font not available")
	}
	cffData, err := sfntTable(data, "CFF ")
	if err != nil {
		t.Fatal(err)
	}
	cff, err := refcff.Parse(cffData)
	if err != nil {
		t.Fatal(err)
	}
	for _, p := range cff.Problems {
		if !strings.HasPrefix(p, "non-minimal offSize") {
			t.Errorf("refcff problem: %s", p)
		}
	}
	xf, err := sfnt.Parse(data)
	if err != nil {
		t.Fatal(err)
	}
	if xf.NumGlyphs() != len(cff.CharStrings) {
		t.Fatalf("glyph count: x/image %d, refcff %d", xf.NumGlyphs(), len(cff.CharStrings))
	}
	ppem := fixed.I(int(xf.UnitsPerEm()))
	env := &Env{
		GlobalSubrs:   cff.GlobalSubrs,
		LocalSubrs:    cff.Privates[0].LocalSubrs,
		DefaultWidthX: cff.Privates[0].DefaultWidthX,
		NominalWidthX: cff.Privates[0].NominalWidthX,
	}
	var buf sfnt.Buffer
	compared := 0
	for gid, code := range cff.CharStrings {
		segs, xerr := xf.LoadGlyph(&buf, sfnt.GlyphIndex(gid), ppem, nil)
		g, err := Interpret(code, env)
		if err != nil {
			t.Errorf("glyph %d: reft2: %v (x/image: %v)", gid, err, xerr)
			continue
		}
		if xerr != nil {
			continue // x/image has implementation limits of its own
		}
		compared++
		if got, want := refString(g), segString(segs); got != want {
			t.Errorf("glyph %d: outlines differ:\n reft2   %s\n x/image %s", gid, got, want)
		}
		adv, err := xf.GlyphAdvance(&buf, sfnt.GlyphIndex(gid), ppem, font.HintingNone)
		if err == nil && int(adv) != int(math.Round(g.Width*64)) {
			t.Errorf("glyph %d: width %g, hmtx advance %v", gid, g.Width, adv)
		}
	}
	t.Logf("%d of %d glyphs compared", compared, len(cff.CharStrings))
	if compared < len(cff.CharStrings)/2 {
		t.Errorf("only %d of %d glyphs compared", compared, len(cff.CharStrings))
	}
}

func TestCrossCheckXImage(t *testing.T) {
	data, err := os.ReadFile(cffTestFont)
	if err != nil {
		t.Fatal(err)
	}
	cffData, err := sfntTable(data, "CFF ")
	if err != nil {
		t.Fatal(err)
	}
	cff, err := refcff.Parse(cffData)
	if err != nil {
		t.Fatal(err)
	}
	// The font was written by FontForge, which uses offSize 2 for two small
	// INDEXes.  This is legal under TN5176; refcff reports it with a fixed
	// prefix so that it can be told apart from real structural problems.
	nonMinimal := 0
	for _, p := range cff.Problems {
		if strings.HasPrefix(p, "non-minimal offSize") {
			nonMinimal++
			continue
		}
		t.Errorf("refcff problem: %s", p)
	}
	if nonMinimal != 2 {
		t.Errorf("expected 2 non-minimal offSize notes, got %d: %q", nonMinimal, cff.Problems)
	}
	if cff.IsCID || len(cff.Privates) != 1 {
		t.Fatalf("expected a simple font with one Private DICT")
	}

	xf, err := sfnt.Parse(data)
	if err != nil {
		t.Fatal(err)
	}
	if xf.NumGlyphs() != len(cff.CharStrings) {
		t.Fatalf("glyph count: x/image %d, refcff %d", xf.NumGlyphs(), len(cff.CharStrings))
	}
	if len(cff.CharStrings) < 2 {
		t.Fatalf("only %d glyphs", len(cff.CharStrings))
	}
	ppem := fixed.I(int(xf.UnitsPerEm()))

	env := &Env{
		GlobalSubrs:   cff.GlobalSubrs,
		LocalSubrs:    cff.Privates[0].LocalSubrs,
		DefaultWidthX: cff.Privates[0].DefaultWidthX,
		NominalWidthX: cff.Privates[0].NominalWidthX,
	}
	var buf sfnt.Buffer
	nonEmpty := 0
	for gid, code := range cff.CharStrings {
		g, err := Interpret(code, env)
		if err != nil {
			t.Errorf("glyph %d: reft2: %v", gid, err)
			continue
		}
		segs, err := xf.LoadGlyph(&buf, sfnt.GlyphIndex(gid), ppem, nil)
		if err != nil {
			t.Errorf("glyph %d: x/image: %v", gid, err)
			continue
		}
		got, want := refString(g), segString(segs)
		if got != want {
			t.Errorf("glyph %d: outlines differ:\n reft2   %s\n x/image %s", gid, got, want)
		}
		if got != "" {
			nonEmpty++
		}

		// In a consistent OpenType font the CFF width equals the hmtx advance.
		adv, err := xf.GlyphAdvance(&buf, sfnt.GlyphIndex(gid), ppem, font.HintingNone)
		if err != nil {
			t.Errorf("glyph %d: GlyphAdvance: %v", gid, err)
		} else if int(adv) != int(math.Round(g.Width*64)) {
			t.Errorf("glyph %d: width %g, hmtx advance %v", gid, g.Width, adv)
		}
	}

	// x/image does not expose CFF glyph names; the expected names are those
	// of the FontForge source of the test font (testdata/CFFTest.sfd).
	wantNames := []string{".notdef", "zero", "one", "Q", "uni4E2D"}
	if cff.Charset == nil || len(cff.Charset) != len(wantNames) {
		t.Fatalf("charset: got %v", cff.Charset)
	}
	for gid, want := range wantNames {
		if got := cff.SIDString(cff.Charset[gid]); got != want {
			t.Errorf("glyph %d: name %q, want %q", gid, got, want)
		}
	}
	if nonEmpty == 0 {
		t.Error("no glyph has an outline")
	}
}
