// Package reft2 is a strict reference interpreter for Type 2 charstrings,
// written from Adobe Technical Note #5177 "The Type 2 Charstring Format".
//
// It is meant to be used as a test oracle: it favours clarity over speed and
// rejects every program that is not well formed.
package reft2

import (
	"errors"
	"fmt"
	"math"
)

// Op is one element of the decoded glyph program, in ABSOLUTE coordinates.
type Op struct {
	Kind byte      // 'M' moveto (2 args), 'L' lineto (2 args), 'C' curveto (6 args: x1 y1 x2 y2 x3 y3), 'H' hintmask, 'K' cntrmask
	Args []float64 // for M/L/C
	Mask []byte    // for H/K: the mask bytes
}

// Glyph is the result of interpreting one charstring.
type Glyph struct {
	Ops      []Op
	HStem    []float64 // absolute edge pairs: [bottom0, top0, bottom1, top1, ...] in declaration order
	VStem    []float64 // same for vertical stems, including the implicit vstems before the first hintmask/cntrmask
	Width    float64   // advance width: nominalWidthX + w if a width operand is present, else defaultWidthX
	HasWidth bool      // whether the charstring carried an explicit width operand
	MaxStack int       // maximal operand stack depth observed
	Seac     bool      // the charstring ended with the deprecated seac form of endchar (composition not modelled)
}

// Env is the environment a charstring is executed in.
type Env struct {
	GlobalSubrs   [][]byte
	LocalSubrs    [][]byte
	DefaultWidthX float64
	NominalWidthX float64
}

// Implementation limits of TN5177, Appendix B.
const (
	maxStack     = 48
	maxCallDepth = 10
	maxStems     = 96
	numTransient = 32
)

// Errors for constructs which are legal but deliberately not supported.
var (
	ErrRandom = errors.New("reft2: random not supported")
	ErrSeac   = errors.New("reft2: seac not supported")
)

// Bias returns the subroutine number bias for a subroutine INDEX with n entries.
func Bias(n int) int {
	switch {
	case n < 1240:
		return 107
	case n < 33900:
		return 1131
	default:
		return 32768
	}
}

type interp struct {
	env   *Env
	g     *Glyph
	stack []float64

	x, y float64 // current point

	cleared  bool // the first stack-clearing operator has been seen (width has been decided)
	moved    bool // the first moveto has been seen
	masked   bool // the first hintmask/cntrmask has been seen
	vstemmed bool // a vertical stem has been declared (no hstem allowed afterwards)
	ended    bool // endchar has been executed

	lastH, lastV float64 // last stem edges

	trans    [numTransient]float64
	transSet [numTransient]bool
}

// Interpret executes a Type 2 charstring. It returns an error for every
// program that is not well formed under TN5177.
func Interpret(code []byte, env *Env) (*Glyph, error) {
	if env == nil {
		env = &Env{}
	}
	ip := &interp{env: env, g: &Glyph{Width: env.DefaultWidthX}}
	if err := ip.run(code, 0); err != nil {
		return nil, err
	}
	if !ip.ended {
		return nil, errors.New("reft2: missing endchar")
	}
	return ip.g, nil
}

func (ip *interp) push(v float64) error {
	if len(ip.stack) >= maxStack {
		return errors.New("reft2: stack overflow")
	}
	ip.stack = append(ip.stack, v)
	if len(ip.stack) > ip.g.MaxStack {
		ip.g.MaxStack = len(ip.stack)
	}
	return nil
}

// need checks that at least n operands are on the stack.
func (ip *interp) need(n int, name string) error {
	if len(ip.stack) < n {
		return fmt.Errorf("reft2: stack underflow in %s: have %d, need %d", name, len(ip.stack), n)
	}
	return nil
}

func (ip *interp) pop() float64 {
	v := ip.stack[len(ip.stack)-1]
	ip.stack = ip.stack[:len(ip.stack)-1]
	return v
}

func (ip *interp) clear() {
	ip.stack = ip.stack[:0]
}

// takeWidth is called by every stack-clearing operator which may carry the
// width.  hasWidth tells whether, according to the operand count, the bottom
// element of the stack is the width.
func (ip *interp) takeWidth(hasWidth bool) {
	if ip.cleared {
		return
	}
	ip.cleared = true
	if hasWidth {
		ip.g.HasWidth = true
		ip.g.Width = ip.env.NominalWidthX + ip.stack[0]
		ip.stack = ip.stack[1:]
	}
}

// run executes code.  depth is 0 for the top-level charstring.  When run
// returns nil, either ip.ended is set (endchar) or, for depth > 0, a return
// operator was executed.
func (ip *interp) run(code []byte, depth int) error {
	pos := 0
	for pos < len(code) {
		b := code[pos]
		pos++

		// ---- numbers ----
		switch {
		case b >= 32 && b <= 246:
			if err := ip.push(float64(int(b) - 139)); err != nil {
				return err
			}
			continue
		case b >= 247 && b <= 250:
			if pos+1 > len(code) {
				return errors.New("reft2: truncated number")
			}
			v := (int(b)-247)*256 + int(code[pos]) + 108
			pos++
			if err := ip.push(float64(v)); err != nil {
				return err
			}
			continue
		case b >= 251 && b <= 254:
			if pos+1 > len(code) {
				return errors.New("reft2: truncated number")
			}
			v := -(int(b)-251)*256 - int(code[pos]) - 108
			pos++
			if err := ip.push(float64(v)); err != nil {
				return err
			}
			continue
		case b == 28:
			if pos+2 > len(code) {
				return errors.New("reft2: truncated number")
			}
			v := int16(uint16(code[pos])<<8 | uint16(code[pos+1]))
			pos += 2
			if err := ip.push(float64(v)); err != nil {
				return err
			}
			continue
		case b == 255:
			if pos+4 > len(code) {
				return errors.New("reft2: truncated number")
			}
			v := int32(uint32(code[pos])<<24 | uint32(code[pos+1])<<16 | uint32(code[pos+2])<<8 | uint32(code[pos+3]))
			pos += 4
			if err := ip.push(float64(v) / 65536); err != nil {
				return err
			}
			continue
		}

		// ---- operators ----
		switch b {
		case 1, 18: // hstem, hstemhm
			if err := ip.stem(false, opName(b)); err != nil {
				return err
			}
		case 3, 23: // vstem, vstemhm
			if err := ip.stem(true, opName(b)); err != nil {
				return err
			}
		case 19, 20: // hintmask, cntrmask
			n, err := ip.mask(opName(b))
			if err != nil {
				return err
			}
			if pos+n > len(code) {
				return fmt.Errorf("reft2: truncated %s bytes", opName(b))
			}
			m := append([]byte(nil), code[pos:pos+n]...)
			pos += n
			kind := byte('H')
			if b == 20 {
				kind = 'K'
			}
			ip.g.Ops = append(ip.g.Ops, Op{Kind: kind, Mask: m})

		case 21: // rmoveto
			if err := ip.moveto("rmoveto", 2); err != nil {
				return err
			}
		case 22: // hmoveto
			if err := ip.moveto("hmoveto", 1); err != nil {
				return err
			}
		case 4: // vmoveto
			if err := ip.moveto("vmoveto", 1); err != nil {
				return err
			}

		case 5, 6, 7, 8, 24, 25, 26, 27, 30, 31:
			if err := ip.draw(b); err != nil {
				return err
			}

		case 10, 29: // callsubr, callgsubr
			name := opName(b)
			subrs := ip.env.LocalSubrs
			if b == 29 {
				subrs = ip.env.GlobalSubrs
			}
			if err := ip.need(1, name); err != nil {
				return err
			}
			v := ip.pop()
			if v != math.Trunc(v) {
				return fmt.Errorf("reft2: %s: non-integer subroutine number %v", name, v)
			}
			idx := int(v) + Bias(len(subrs))
			if idx < 0 || idx >= len(subrs) {
				return fmt.Errorf("reft2: %s: subroutine index %d out of range (have %d)", name, idx, len(subrs))
			}
			if depth+1 > maxCallDepth {
				return errors.New("reft2: subroutine calls nested too deeply")
			}
			if err := ip.run(subrs[idx], depth+1); err != nil {
				return err
			}
			if ip.ended {
				return nil
			}

		case 11: // return
			if depth == 0 {
				return errors.New("reft2: return outside of a subroutine")
			}
			return nil

		case 14: // endchar
			n := len(ip.stack)
			if !ip.cleared && (n == 4 || n == 5) {
				// the deprecated seac form "adx ady bchar achar endchar" (TN5177 appendix C), with
				// an optional leading width; the accented character itself is not composed here
				ip.takeWidth(n == 5)
				ip.g.Seac = true
				ip.stack = ip.stack[:0]
				ip.ended = true
				return nil
			}
			if !ip.cleared && n == 1 {
				ip.takeWidth(true)
			} else if n == 0 {
				ip.takeWidth(false)
			} else {
				return fmt.Errorf("reft2: %d operands left on the stack at endchar", n)
			}
			ip.ended = true
			return nil

		case 12:
			if pos+1 > len(code) {
				return errors.New("reft2: truncated escape operator")
			}
			b2 := code[pos]
			pos++
			if err := ip.escaped(b2); err != nil {
				return err
			}

		default:
			return fmt.Errorf("reft2: reserved operator %d", b)
		}
	}
	if depth == 0 {
		return errors.New("reft2: missing endchar")
	}
	return errors.New("reft2: subroutine ends without return")
}

func opName(b byte) string {
	switch b {
	case 1:
		return "hstem"
	case 3:
		return "vstem"
	case 4:
		return "vmoveto"
	case 5:
		return "rlineto"
	case 6:
		return "hlineto"
	case 7:
		return "vlineto"
	case 8:
		return "rrcurveto"
	case 10:
		return "callsubr"
	case 18:
		return "hstemhm"
	case 19:
		return "hintmask"
	case 20:
		return "cntrmask"
	case 23:
		return "vstemhm"
	case 24:
		return "rcurveline"
	case 25:
		return "rlinecurve"
	case 26:
		return "vvcurveto"
	case 27:
		return "hhcurveto"
	case 29:
		return "callgsubr"
	case 30:
		return "vhcurveto"
	case 31:
		return "hvcurveto"
	}
	return fmt.Sprintf("op%d", b)
}

// addStems converts the delta pairs on the stack into absolute edges.
func (ip *interp) addStems(vertical bool) error {
	nNew := len(ip.stack) / 2
	if len(ip.g.HStem)/2+len(ip.g.VStem)/2+nNew > maxStems {
		return errors.New("reft2: more than 96 stem hints")
	}
	// TN5177: "in the first pair, y is relative to 0" - for every stem operator.  (An earlier version of
	// this reference accumulated edges across consecutive operators of the same direction; FreeType's
	// cf2_doStems and the library restart at 0, which is the reading adopted here.)
	ip.lastH, ip.lastV = 0, 0
	for i := 0; i+1 < len(ip.stack); i += 2 {
		if vertical {
			a := ip.lastV + ip.stack[i]
			b := a + ip.stack[i+1]
			ip.lastV = b
			ip.g.VStem = append(ip.g.VStem, a, b)
		} else {
			a := ip.lastH + ip.stack[i]
			b := a + ip.stack[i+1]
			ip.lastH = b
			ip.g.HStem = append(ip.g.HStem, a, b)
		}
	}
	if vertical && nNew > 0 {
		ip.vstemmed = true
	}
	ip.clear()
	return nil
}

// stem implements hstem, hstemhm, vstem and vstemhm.
func (ip *interp) stem(vertical bool, name string) error {
	if ip.moved || ip.masked {
		return fmt.Errorf("reft2: %s after the first moveto or mask operator", name)
	}
	if !vertical && ip.vstemmed {
		return fmt.Errorf("reft2: %s after a vertical stem declaration", name)
	}
	if err := ip.need(2, name); err != nil {
		return err
	}
	ip.takeWidth(len(ip.stack)%2 == 1)
	if len(ip.stack)%2 != 0 {
		return fmt.Errorf("reft2: %s with an odd number of operands", name)
	}
	if err := ip.need(2, name); err != nil {
		return err
	}
	return ip.addStems(vertical)
}

// mask implements the stack part of hintmask and cntrmask and returns the
// number of mask bytes which follow the operator.
func (ip *interp) mask(name string) (int, error) {
	ip.takeWidth(len(ip.stack)%2 == 1)
	if len(ip.stack)%2 != 0 {
		return 0, fmt.Errorf("reft2: %s with an odd number of operands", name)
	}
	if len(ip.stack) > 0 {
		// implicit vstem
		if ip.moved || ip.masked {
			return 0, fmt.Errorf("reft2: %s with operands after the first moveto or mask operator", name)
		}
		if err := ip.addStems(true); err != nil {
			return 0, err
		}
	}
	ip.masked = true
	nStems := len(ip.g.HStem)/2 + len(ip.g.VStem)/2
	if nStems == 0 {
		return 0, fmt.Errorf("reft2: %s without any stem hints", name)
	}
	return (nStems + 7) / 8, nil
}

// moveto implements rmoveto (nArgs=2), hmoveto and vmoveto (nArgs=1).
func (ip *interp) moveto(name string, nArgs int) error {
	if err := ip.need(nArgs, name); err != nil {
		return err
	}
	ip.takeWidth(len(ip.stack) == nArgs+1)
	if len(ip.stack) != nArgs {
		return fmt.Errorf("reft2: %s with %d operands", name, len(ip.stack))
	}
	switch name {
	case "rmoveto":
		ip.x += ip.stack[0]
		ip.y += ip.stack[1]
	case "hmoveto":
		ip.x += ip.stack[0]
	case "vmoveto":
		ip.y += ip.stack[0]
	}
	ip.clear()
	ip.moved = true
	ip.g.Ops = append(ip.g.Ops, Op{Kind: 'M', Args: []float64{ip.x, ip.y}})
	return nil
}

func (ip *interp) lineRel(dx, dy float64) {
	ip.x += dx
	ip.y += dy
	ip.g.Ops = append(ip.g.Ops, Op{Kind: 'L', Args: []float64{ip.x, ip.y}})
}

func (ip *interp) curveRel(dx1, dy1, dx2, dy2, dx3, dy3 float64) {
	x1 := ip.x + dx1
	y1 := ip.y + dy1
	x2 := x1 + dx2
	y2 := y1 + dy2
	x3 := x2 + dx3
	y3 := y2 + dy3
	ip.curveAbs(x1, y1, x2, y2, x3, y3)
}

func (ip *interp) curveAbs(x1, y1, x2, y2, x3, y3 float64) {
	ip.x = x3
	ip.y = y3
	ip.g.Ops = append(ip.g.Ops, Op{Kind: 'C', Args: []float64{x1, y1, x2, y2, x3, y3}})
}

// checkDraw is the common entry check of all path construction operators
// other than the movetos.
func (ip *interp) checkDraw(name string, minArgs int) error {
	if !ip.moved {
		return fmt.Errorf("reft2: %s before the first moveto", name)
	}
	return ip.need(minArgs, name)
}

func badCount(name string, n int) error {
	return fmt.Errorf("reft2: %s with an illegal number of operands (%d)", name, n)
}

// draw implements the unescaped line and curve operators.
func (ip *interp) draw(b byte) error {
	name := opName(b)
	s := ip.stack
	n := len(s)
	switch b {
	case 5: // rlineto: {dxa dya}+
		if err := ip.checkDraw(name, 2); err != nil {
			return err
		}
		if n%2 != 0 {
			return badCount(name, n)
		}
		for i := 0; i < n; i += 2 {
			ip.lineRel(s[i], s[i+1])
		}

	case 6, 7: // hlineto, vlineto: alternating, any count >= 1
		if err := ip.checkDraw(name, 1); err != nil {
			return err
		}
		horizontal := b == 6
		for i := 0; i < n; i++ {
			if horizontal {
				ip.lineRel(s[i], 0)
			} else {
				ip.lineRel(0, s[i])
			}
			horizontal = !horizontal
		}

	case 8: // rrcurveto: {dxa dya dxb dyb dxc dyc}+
		if err := ip.checkDraw(name, 6); err != nil {
			return err
		}
		if n%6 != 0 {
			return badCount(name, n)
		}
		for i := 0; i < n; i += 6 {
			ip.curveRel(s[i], s[i+1], s[i+2], s[i+3], s[i+4], s[i+5])
		}

	case 24: // rcurveline: {dxa dya dxb dyb dxc dyc}+ dxd dyd
		if err := ip.checkDraw(name, 8); err != nil {
			return err
		}
		if (n-2)%6 != 0 {
			return badCount(name, n)
		}
		i := 0
		for ; i < n-2; i += 6 {
			ip.curveRel(s[i], s[i+1], s[i+2], s[i+3], s[i+4], s[i+5])
		}
		ip.lineRel(s[i], s[i+1])

	case 25: // rlinecurve: {dxa dya}+ dxb dyb dxc dyc dxd dyd
		if err := ip.checkDraw(name, 8); err != nil {
			return err
		}
		if (n-6)%2 != 0 {
			return badCount(name, n)
		}
		i := 0
		for ; i < n-6; i += 2 {
			ip.lineRel(s[i], s[i+1])
		}
		ip.curveRel(s[i], s[i+1], s[i+2], s[i+3], s[i+4], s[i+5])

	case 26: // vvcurveto: dx1? {dya dxb dyb dyc}+
		if err := ip.checkDraw(name, 4); err != nil {
			return err
		}
		if n%4 > 1 {
			return badCount(name, n)
		}
		i := 0
		dx1 := 0.0
		if n%4 == 1 {
			dx1 = s[0]
			i = 1
		}
		for ; i < n; i += 4 {
			ip.curveRel(dx1, s[i], s[i+1], s[i+2], 0, s[i+3])
			dx1 = 0
		}

	case 27: // hhcurveto: dy1? {dxa dxb dyb dxc}+
		if err := ip.checkDraw(name, 4); err != nil {
			return err
		}
		if n%4 > 1 {
			return badCount(name, n)
		}
		i := 0
		dy1 := 0.0
		if n%4 == 1 {
			dy1 = s[0]
			i = 1
		}
		for ; i < n; i += 4 {
			ip.curveRel(s[i], dy1, s[i+1], s[i+2], s[i+3], 0)
			dy1 = 0
		}

	case 30, 31: // vhcurveto, hvcurveto
		// A sequence of curves of four operands each which alternately
		// start horizontal/end vertical and start vertical/end horizontal.
		// The last curve may have a fifth operand, which makes its end
		// tangent arbitrary.
		if err := ip.checkDraw(name, 4); err != nil {
			return err
		}
		if n%4 > 1 {
			return badCount(name, n)
		}
		horizontal := b == 31
		for i := 0; i+4 <= n; i += 4 {
			last := 0.0
			if i+5 == n {
				last = s[i+4]
			}
			if horizontal {
				// dx1 dx2 dy2 dy3 (dx3)
				ip.curveRel(s[i], 0, s[i+1], s[i+2], last, s[i+3])
			} else {
				// dy1 dx2 dy2 dx3 (dy3)
				ip.curveRel(0, s[i], s[i+1], s[i+2], s[i+3], last)
			}
			horizontal = !horizontal
		}
	}
	ip.clear()
	return nil
}

func bool2num(b bool) float64 {
	if b {
		return 1
	}
	return 0
}

// round16 rounds v to the nearest multiple of 1/65536.
func round16(v float64) float64 {
	return math.Round(v*65536) / 65536
}

// toInt converts an operand which must be an integer.
func toInt(v float64, name string) (int, error) {
	if v != math.Trunc(v) {
		return 0, fmt.Errorf("reft2: %s: operand %v is not an integer", name, v)
	}
	return int(v), nil
}

// escaped implements the two-byte operators "12 b".
func (ip *interp) escaped(b byte) error {
	switch b {
	case 0: // dotsection (deprecated): no-op which clears the stack
		ip.clear()

	case 3: // and
		if err := ip.need(2, "and"); err != nil {
			return err
		}
		v2, v1 := ip.pop(), ip.pop()
		ip.stack = append(ip.stack, bool2num(v1 != 0 && v2 != 0))
	case 4: // or
		if err := ip.need(2, "or"); err != nil {
			return err
		}
		v2, v1 := ip.pop(), ip.pop()
		ip.stack = append(ip.stack, bool2num(v1 != 0 || v2 != 0))
	case 5: // not
		if err := ip.need(1, "not"); err != nil {
			return err
		}
		v := ip.pop()
		ip.stack = append(ip.stack, bool2num(v == 0))
	case 9: // abs
		if err := ip.need(1, "abs"); err != nil {
			return err
		}
		v := ip.pop()
		ip.stack = append(ip.stack, math.Abs(v))
	case 10: // add
		if err := ip.need(2, "add"); err != nil {
			return err
		}
		v2, v1 := ip.pop(), ip.pop()
		ip.stack = append(ip.stack, v1+v2)
	case 11: // sub
		if err := ip.need(2, "sub"); err != nil {
			return err
		}
		v2, v1 := ip.pop(), ip.pop()
		ip.stack = append(ip.stack, v1-v2)
	case 12: // div
		if err := ip.need(2, "div"); err != nil {
			return err
		}
		v2, v1 := ip.pop(), ip.pop()
		if v2 == 0 {
			return errors.New("reft2: div by zero")
		}
		ip.stack = append(ip.stack, round16(v1/v2))
	case 14: // neg
		if err := ip.need(1, "neg"); err != nil {
			return err
		}
		v := ip.pop()
		ip.stack = append(ip.stack, -v)
	case 15: // eq
		if err := ip.need(2, "eq"); err != nil {
			return err
		}
		v2, v1 := ip.pop(), ip.pop()
		ip.stack = append(ip.stack, bool2num(v1 == v2))
	case 18: // drop
		if err := ip.need(1, "drop"); err != nil {
			return err
		}
		ip.pop()
	case 20: // put: val i put
		if err := ip.need(2, "put"); err != nil {
			return err
		}
		i, err := toInt(ip.pop(), "put")
		if err != nil {
			return err
		}
		v := ip.pop()
		if i < 0 || i >= numTransient {
			return fmt.Errorf("reft2: put: index %d out of range", i)
		}
		ip.trans[i] = v
		ip.transSet[i] = true
	case 21: // get: i get
		if err := ip.need(1, "get"); err != nil {
			return err
		}
		i, err := toInt(ip.pop(), "get")
		if err != nil {
			return err
		}
		if i < 0 || i >= numTransient {
			return fmt.Errorf("reft2: get: index %d out of range", i)
		}
		if !ip.transSet[i] {
			return fmt.Errorf("reft2: get: transient array entry %d was never set", i)
		}
		ip.stack = append(ip.stack, ip.trans[i])
	case 22: // ifelse: s1 s2 v1 v2 ifelse -> s1 if v1 <= v2, else s2
		if err := ip.need(4, "ifelse"); err != nil {
			return err
		}
		v2, v1, s2, s1 := ip.pop(), ip.pop(), ip.pop(), ip.pop()
		if v1 <= v2 {
			ip.stack = append(ip.stack, s1)
		} else {
			ip.stack = append(ip.stack, s2)
		}
	case 23: // random
		return ErrRandom
	case 24: // mul
		if err := ip.need(2, "mul"); err != nil {
			return err
		}
		v2, v1 := ip.pop(), ip.pop()
		ip.stack = append(ip.stack, round16(v1*v2))
	case 26: // sqrt
		if err := ip.need(1, "sqrt"); err != nil {
			return err
		}
		v := ip.pop()
		if v < 0 {
			return errors.New("reft2: sqrt of a negative number")
		}
		ip.stack = append(ip.stack, math.Sqrt(v))
	case 27: // dup
		if err := ip.need(1, "dup"); err != nil {
			return err
		}
		return ip.push(ip.stack[len(ip.stack)-1])
	case 28: // exch
		if err := ip.need(2, "exch"); err != nil {
			return err
		}
		n := len(ip.stack)
		ip.stack[n-1], ip.stack[n-2] = ip.stack[n-2], ip.stack[n-1]
	case 29: // index: numX ... num0 i index -> numX ... num0 numi
		if err := ip.need(2, "index"); err != nil {
			return err
		}
		i, err := toInt(ip.pop(), "index")
		if err != nil {
			return err
		}
		if i < 0 {
			i = 0
		}
		if err := ip.need(i+1, "index"); err != nil {
			return err
		}
		ip.stack = append(ip.stack, ip.stack[len(ip.stack)-1-i])
	case 30: // roll: num(N-1) ... num0 N J roll
		if err := ip.need(2, "roll"); err != nil {
			return err
		}
		j, err := toInt(ip.pop(), "roll")
		if err != nil {
			return err
		}
		n, err := toInt(ip.pop(), "roll")
		if err != nil {
			return err
		}
		if n < 0 {
			return fmt.Errorf("reft2: roll: negative count %d", n)
		}
		if err := ip.need(n, "roll"); err != nil {
			return err
		}
		if n > 0 {
			// Positive j rolls towards the top of the stack: the element
			// at position i (counted from the bottom of the group) moves
			// to position (i+j) mod n.
			group := ip.stack[len(ip.stack)-n:]
			tmp := make([]float64, n)
			for i, v := range group {
				k := ((i+j)%n + n) % n
				tmp[k] = v
			}
			copy(group, tmp)
		}

	case 34: // hflex: dx1 dx2 dy2 dx3 dx4 dx5 dx6
		if err := ip.flexCheck("hflex", 7); err != nil {
			return err
		}
		s := ip.stack
		y0 := ip.y
		ip.curveRel(s[0], 0, s[1], s[2], s[3], 0)
		x1 := ip.x + s[4]
		x2 := x1 + s[5]
		x3 := x2 + s[6]
		ip.curveAbs(x1, ip.y, x2, y0, x3, y0)
		ip.clear()
	case 35: // flex: dx1 dy1 ... dx6 dy6 fd
		if err := ip.flexCheck("flex", 13); err != nil {
			return err
		}
		s := ip.stack
		ip.curveRel(s[0], s[1], s[2], s[3], s[4], s[5])
		ip.curveRel(s[6], s[7], s[8], s[9], s[10], s[11])
		ip.clear()
	case 36: // hflex1: dx1 dy1 dx2 dy2 dx3 dx4 dx5 dy5 dx6
		if err := ip.flexCheck("hflex1", 9); err != nil {
			return err
		}
		s := ip.stack
		y0 := ip.y
		ip.curveRel(s[0], s[1], s[2], s[3], s[4], 0)
		x1 := ip.x + s[5]
		y1 := ip.y
		x2 := x1 + s[6]
		y2 := y1 + s[7]
		x3 := x2 + s[8]
		ip.curveAbs(x1, y1, x2, y2, x3, y0)
		ip.clear()
	case 37: // flex1: dx1 dy1 dx2 dy2 dx3 dy3 dx4 dy4 dx5 dy5 d6
		if err := ip.flexCheck("flex1", 11); err != nil {
			return err
		}
		s := ip.stack
		x0, y0 := ip.x, ip.y
		dx := s[0] + s[2] + s[4] + s[6] + s[8]
		dy := s[1] + s[3] + s[5] + s[7] + s[9]
		ip.curveRel(s[0], s[1], s[2], s[3], s[4], s[5])
		x1 := ip.x + s[6]
		y1 := ip.y + s[7]
		x2 := x1 + s[8]
		y2 := y1 + s[9]
		var x3, y3 float64
		if math.Abs(dx) > math.Abs(dy) {
			x3 = x2 + s[10]
			y3 = y0
		} else {
			x3 = x0
			y3 = y2 + s[10]
		}
		ip.curveAbs(x1, y1, x2, y2, x3, y3)
		ip.clear()

	default:
		return fmt.Errorf("reft2: reserved operator 12 %d", b)
	}
	return nil
}

// flexCheck is the entry check of the four flex operators, which take an
// exact number of operands.
func (ip *interp) flexCheck(name string, nArgs int) error {
	if err := ip.checkDraw(name, nArgs); err != nil {
		return err
	}
	if len(ip.stack) != nArgs {
		return badCount(name, len(ip.stack))
	}
	return nil
}
