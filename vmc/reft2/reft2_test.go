package reft2

import (
	"errors"
	"fmt"
	"math"
	"reflect"
	"strings"
	"testing"
)

// ---- a tiny charstring assembler for the tests ----

type op byte  // single byte operator
type esc byte // escaped operator "12 x"

const (
	hstem      op = 1
	vstem      op = 3
	vmoveto    op = 4
	rlineto    op = 5
	hlineto    op = 6
	vlineto    op = 7
	rrcurveto  op = 8
	callsubr   op = 10
	ret        op = 11
	endchar    op = 14
	hstemhm    op = 18
	hintmask   op = 19
	cntrmask   op = 20
	rmoveto    op = 21
	hmoveto    op = 22
	vstemhm    op = 23
	rcurveline op = 24
	rlinecurve op = 25
	vvcurveto  op = 26
	hhcurveto  op = 27
	callgsubr  op = 29
	vhcurveto  op = 30
	hvcurveto  op = 31

	dotsection esc = 0
	and        esc = 3
	or         esc = 4
	not        esc = 5
	abs        esc = 9
	add        esc = 10
	sub        esc = 11
	div        esc = 12
	neg        esc = 14
	eq         esc = 15
	drop       esc = 18
	put        esc = 20
	get        esc = 21
	ifelse     esc = 22
	random     esc = 23
	mul        esc = 24
	sqrt       esc = 26
	dup        esc = 27
	exch       esc = 28
	index      esc = 29
	roll       esc = 30
	hflex      esc = 34
	flex       esc = 35
	hflex1     esc = 36
	flex1      esc = 37
)

// cs assembles a charstring from ints (shortest encoding), float64s (16.16
// encoding), operators and raw bytes.
func cs(items ...interface{}) []byte {
	var out []byte
	for _, it := range items {
		switch v := it.(type) {
		case int:
			switch {
			case v >= -107 && v <= 107:
				out = append(out, byte(v+139))
			case v >= 108 && v <= 1131:
				w := v - 108
				out = append(out, byte(w>>8)+247, byte(w))
			case v >= -1131 && v <= -108:
				w := -v - 108
				out = append(out, byte(w>>8)+251, byte(w))
			case v >= -32768 && v <= 32767:
				out = append(out, 28, byte(v>>8), byte(v))
			default:
				panic("integer out of range")
			}
		case float64:
			w := int32(math.Round(v * 65536))
			out = append(out, 255, byte(w>>24), byte(w>>16), byte(w>>8), byte(w))
		case op:
			out = append(out, byte(v))
		case esc:
			out = append(out, 12, byte(v))
		case []byte:
			out = append(out, v...)
		default:
			panic(fmt.Sprintf("bad item %T", it))
		}
	}
	return out
}

// show formats the ops of a glyph for comparison.
func show(g *Glyph) string {
	var parts []string
	for _, o := range g.Ops {
		s := string(o.Kind)
		for _, a := range o.Args {
			s += fmt.Sprintf(" %g", a)
		}
		if o.Kind == 'H' || o.Kind == 'K' {
			s += fmt.Sprintf(" %x", o.Mask)
		}
		parts = append(parts, s)
	}
	return strings.Join(parts, "|")
}

func mustRun(t *testing.T, code []byte, env *Env) *Glyph {
	t.Helper()
	g, err := Interpret(code, env)
	if err != nil {
		t.Fatalf("unexpected error: %v", err)
	}
	return g
}

func f64eq(a, b []float64) bool {
	if len(a) == 0 && len(b) == 0 {
		return true
	}
	return reflect.DeepEqual(a, b)
}

// ---- numbers ----

func TestNumbers(t *testing.T) {
	cases := []struct {
		code []byte
		want float64
	}{
		{[]byte{32}, -107},
		{[]byte{139}, 0},
		{[]byte{246}, 107},
		{[]byte{247, 0}, 108},
		{[]byte{250, 255}, 1131},
		{[]byte{251, 0}, -108},
		{[]byte{254, 255}, -1131},
		{[]byte{28, 0x04, 0x6c}, 1132},
		{[]byte{28, 0x7f, 0xff}, 32767},
		{[]byte{28, 0x80, 0x00}, -32768},
		{[]byte{28, 0xff, 0xff}, -1},
		{[]byte{255, 0, 1, 0x80, 0}, 1.5},
		{[]byte{255, 0xff, 0xff, 0x80, 0}, -0.5},
		{[]byte{255, 0, 0, 0, 1}, 1.0 / 65536},
		{[]byte{255, 0x7f, 0xff, 0xff, 0xff}, 32768 - 1.0/65536},
		{[]byte{255, 0x80, 0, 0, 0}, -32768},
	}
	for _, c := range cases {
		// "<num> hmoveto endchar" moves to (num, 0).
		g := mustRun(t, cs(c.code, hmoveto, endchar), nil)
		if len(g.Ops) != 1 || g.Ops[0].Args[0] != c.want {
			t.Errorf("% x: got %s, want %g", c.code, show(g), c.want)
		}
		if g.HasWidth {
			t.Errorf("% x: unexpected width", c.code)
		}
	}
	// the test assembler agrees with the decoder
	for _, v := range []int{-32768, -1132, -1131, -108, -107, 0, 107, 108, 1131, 1132, 32767} {
		g := mustRun(t, cs(v, hmoveto, endchar), nil)
		if g.Ops[0].Args[0] != float64(v) {
			t.Errorf("%d: got %s", v, show(g))
		}
	}
}

// ---- well-formed programs ----

type goodCase struct {
	name  string
	code  []byte
	env   *Env
	ops   string
	hstem []float64
	vstem []float64
	width float64
	hasW  bool
}

func runGood(t *testing.T, cases []goodCase) {
	t.Helper()
	for _, c := range cases {
		g, err := Interpret(c.code, c.env)
		if err != nil {
			t.Errorf("%s: unexpected error: %v", c.name, err)
			continue
		}
		if got := show(g); got != c.ops {
			t.Errorf("%s: ops:\n got  %s\n want %s", c.name, got, c.ops)
		}
		if !f64eq(g.HStem, c.hstem) {
			t.Errorf("%s: hstem: got %v, want %v", c.name, g.HStem, c.hstem)
		}
		if !f64eq(g.VStem, c.vstem) {
			t.Errorf("%s: vstem: got %v, want %v", c.name, g.VStem, c.vstem)
		}
		if g.Width != c.width || g.HasWidth != c.hasW {
			t.Errorf("%s: width: got %g/%v, want %g/%v", c.name, g.Width, g.HasWidth, c.width, c.hasW)
		}
	}
}

var wEnv = &Env{DefaultWidthX: 500, NominalWidthX: 600}

func TestWidthRule(t *testing.T) {
	runGood(t, []goodCase{
		{name: "endchar no width", code: cs(endchar), env: wEnv, width: 500},
		{name: "endchar width", code: cs(-50, endchar), env: wEnv, width: 550, hasW: true},
		{name: "endchar nil env", code: cs(endchar)},
		{name: "endchar width nil env", code: cs(7, endchar), width: 7, hasW: true},
		{name: "endchar fractional width", code: cs(0.25, endchar), env: wEnv, width: 600.25, hasW: true},

		{name: "rmoveto no width", code: cs(1, 2, rmoveto, endchar), env: wEnv, ops: "M 1 2", width: 500},
		{name: "rmoveto width", code: cs(10, 1, 2, rmoveto, endchar), env: wEnv, ops: "M 1 2", width: 610, hasW: true},
		{name: "hmoveto no width", code: cs(3, hmoveto, endchar), env: wEnv, ops: "M 3 0", width: 500},
		{name: "hmoveto width", code: cs(10, 3, hmoveto, endchar), env: wEnv, ops: "M 3 0", width: 610, hasW: true},
		{name: "vmoveto no width", code: cs(3, vmoveto, endchar), env: wEnv, ops: "M 0 3", width: 500},
		{name: "vmoveto width", code: cs(10, 3, vmoveto, endchar), env: wEnv, ops: "M 0 3", width: 610, hasW: true},

		{name: "hstem no width", code: cs(10, 20, hstem, endchar), env: wEnv, hstem: []float64{10, 30}, width: 500},
		{name: "hstem width", code: cs(-1, 10, 20, hstem, endchar), env: wEnv, hstem: []float64{10, 30}, width: 599, hasW: true},
		{name: "hstemhm width", code: cs(1, 10, 20, hstemhm, endchar), env: wEnv, hstem: []float64{10, 30}, width: 601, hasW: true},
		{name: "vstem no width", code: cs(10, 20, vstem, endchar), env: wEnv, vstem: []float64{10, 30}, width: 500},
		{name: "vstem width", code: cs(2, 10, 20, vstem, endchar), env: wEnv, vstem: []float64{10, 30}, width: 602, hasW: true},
		{name: "vstemhm width", code: cs(3, 10, 20, vstemhm, endchar), env: wEnv, vstem: []float64{10, 30}, width: 603, hasW: true},
		{name: "vstemhm no width", code: cs(10, 20, vstemhm, endchar), env: wEnv, vstem: []float64{10, 30}, width: 500},

		// the first stack clearing operator is a mask with implicit vstems
		{name: "hintmask width", code: cs(4, 10, 20, hintmask, []byte{0x80}, endchar), env: wEnv,
			ops: "H 80", vstem: []float64{10, 30}, width: 604, hasW: true},
		{name: "hintmask no width", code: cs(10, 20, hintmask, []byte{0x80}, endchar), env: wEnv,
			ops: "H 80", vstem: []float64{10, 30}, width: 500},
		{name: "cntrmask width", code: cs(5, 10, 20, cntrmask, []byte{0x80}, endchar), env: wEnv,
			ops: "K 80", vstem: []float64{10, 30}, width: 605, hasW: true},
		{name: "cntrmask no width", code: cs(10, 20, cntrmask, []byte{0x80}, endchar), env: wEnv,
			ops: "K 80", vstem: []float64{10, 30}, width: 500},

		// only the FIRST stack clearing operator may carry the width
		{name: "width then moves", code: cs(9, 1, 2, rmoveto, 3, 4, rmoveto, 5, hmoveto, 6, vmoveto, endchar), env: wEnv,
			ops: "M 1 2|M 4 6|M 9 6|M 9 12", width: 609, hasW: true},
		{name: "width on stem, not on moveto", code: cs(9, 10, 20, hstem, 1, 2, rmoveto, endchar), env: wEnv,
			ops: "M 1 2", hstem: []float64{10, 30}, width: 609, hasW: true},
		// width computed by arithmetic
		{name: "computed width", code: cs(3, 4, add, 1, 2, rmoveto, endchar), env: wEnv, ops: "M 1 2", width: 607, hasW: true},
		// dotsection does not count as the first stack clearing operator
		{name: "dotsection", code: cs(1, 2, 3, dotsection, 8, 1, 2, rmoveto, endchar), env: wEnv, ops: "M 1 2", width: 608, hasW: true},
	})

	bad := []struct {
		name string
		code []byte
	}{
		{"second width", cs(9, 1, 2, rmoveto, 9, 3, 4, rmoveto, endchar)},
		{"width at endchar after moveto", cs(1, 2, rmoveto, 9, endchar)},
		{"width at endchar after stem", cs(1, 2, hstem, 9, endchar)},
		{"hmoveto width twice", cs(9, 1, hmoveto, 9, 1, hmoveto, endchar)},
		{"vmoveto width twice", cs(9, 1, vmoveto, 9, 1, vmoveto, endchar)},
		{"odd stem after width", cs(9, 1, 2, hstem, 9, 1, 2, vstem, endchar)},
		{"odd mask after width", cs(9, 1, 2, hstem, 9, hintmask, []byte{0x80}, endchar)},
	}
	for _, c := range bad {
		if _, err := Interpret(c.code, wEnv); err == nil {
			t.Errorf("%s: expected an error", c.name)
		}
	}
}

func TestSeac(t *testing.T) {
	// the accented character is not composed, but the width rule applies: 4 operands = no width
	// (defaultWidthX), 5 operands = nominalWidthX + first operand
	env := &Env{DefaultWidthX: 432, NominalWidthX: 100}
	for i, code := range [][]byte{
		cs(0, 0, 65, 96, endchar),
		cs(500, 0, 0, 65, 96, endchar),
	} {
		g, err := Interpret(code, env)
		if err != nil || !g.Seac {
			t.Errorf("% x: got %v, seac=%v", code, err, g != nil && g.Seac)
			continue
		}
		if want := []float64{432, 600}[i]; g.Width != want {
			t.Errorf("% x: width %v, want %v", code, g.Width, want)
		}
	}
	// after the first stack clearing operator this is not seac, just garbage
	_, err := Interpret(cs(1, 2, rmoveto, 0, 0, 65, 96, endchar), nil)
	if err == nil || errors.Is(err, ErrSeac) {
		t.Errorf("got %v, want an operand count error", err)
	}
}

func TestStemsAndMasks(t *testing.T) {
	runGood(t, []goodCase{
		{name: "hstem pairs", code: cs(10, 20, 5, 5, -30, -20, hstem, endchar),
			hstem: []float64{10, 30, 35, 40, 10, -10}},
		{name: "each hstem operator restarts at 0", code: cs(10, 20, hstem, 5, 5, hstemhm, endchar),
			hstem: []float64{10, 30, 5, 10}},
		{name: "each vstem operator restarts at 0", code: cs(10, 20, vstem, 5, 5, vstemhm, endchar),
			vstem: []float64{10, 30, 5, 10}},
		{name: "h and v are independent", code: cs(10, 20, hstem, 1, 2, vstem, endchar),
			hstem: []float64{10, 30}, vstem: []float64{1, 3}},
		{name: "fractional stems", code: cs(0.5, 20, hstem, endchar), hstem: []float64{0.5, 20.5}},
		{name: "implicit vstem", code: cs(10, 20, hstemhm, 1, 2, 3, 4, hintmask, []byte{0xe0}, 5, 5, rmoveto, endchar),
			ops: "H e0|M 5 5", hstem: []float64{10, 30}, vstem: []float64{1, 3, 6, 10}},
		{name: "implicit vstem after explicit restarts at 0", code: cs(10, 20, hstemhm, 1, 2, vstemhm, 3, 4, cntrmask, []byte{0xa0}, hintmask, []byte{0x40}, endchar),
			ops: "K a0|H 40", hstem: []float64{10, 30}, vstem: []float64{1, 3, 3, 7}},
		{name: "mask without operands", code: cs(10, 20, hstemhm, 1, 2, vstemhm, hintmask, []byte{0xc0}, endchar),
			ops: "H c0", hstem: []float64{10, 30}, vstem: []float64{1, 3}},
		{name: "masks inside the path", code: cs(10, 20, hstemhm, 5, 5, rmoveto, hintmask, []byte{0x80}, 1, hlineto, hintmask, []byte{0x00}, 1, vlineto, cntrmask, []byte{0x80}, endchar),
			ops: "M 5 5|H 80|L 6 5|H 00|L 6 6|K 80", hstem: []float64{10, 30}},
		{name: "8 stems 1 byte", code: cs(1, 1, 1, 1, 1, 1, 1, 1, 1, 1, 1, 1, 1, 1, 1, 1, hstemhm, hintmask, []byte{0xff}, endchar),
			ops: "H ff", hstem: []float64{1, 2, 3, 4, 5, 6, 7, 8, 9, 10, 11, 12, 13, 14, 15, 16}},
		{name: "9 stems 2 bytes", code: cs(1, 1, 1, 1, 1, 1, 1, 1, 1, 1, 1, 1, 1, 1, 1, 1, hstemhm, 1, 1, hintmask, []byte{0xff, 0x80}, endchar),
			ops: "H ff80", hstem: []float64{1, 2, 3, 4, 5, 6, 7, 8, 9, 10, 11, 12, 13, 14, 15, 16}, vstem: []float64{1, 2}},
		// mask bytes which look like operators are not executed
		{name: "mask bytes are data", code: cs(1, 1, hstemhm, hintmask, []byte{0x0e}, cntrmask, []byte{0x00}, endchar), ops: "H 0e|K 00", hstem: []float64{1, 2}},
	})

	// 96 stems are fine, 97 are not
	stems := func(n int) []byte {
		var code []byte
		for n > 0 {
			k := n
			if k > 24 {
				k = 24
			}
			for i := 0; i < k; i++ {
				code = append(code, cs(1, 1)...)
			}
			code = append(code, byte(hstemhm))
			n -= k
		}
		return code
	}
	g := mustRun(t, cs(stems(96), hintmask, make([]byte, 12), endchar), nil)
	if len(g.HStem) != 192 || len(g.Ops) != 1 || len(g.Ops[0].Mask) != 12 {
		t.Errorf("96 stems: got %d edges, ops %s", len(g.HStem), show(g))
	}
	if _, err := Interpret(cs(stems(97), hintmask, make([]byte, 13), endchar), nil); err == nil {
		t.Errorf("97 stems: expected an error")
	}
}

func TestPathOperators(t *testing.T) {
	m := cs(10, 20, rmoveto) // start at (10,20)
	runGood(t, []goodCase{
		{name: "rlineto 2", code: cs(m, 1, 2, rlineto, endchar), ops: "M 10 20|L 11 22"},
		{name: "rlineto 4", code: cs(m, 1, 2, -3, -4, rlineto, endchar), ops: "M 10 20|L 11 22|L 8 18"},
		{name: "hlineto 1", code: cs(m, 1, hlineto, endchar), ops: "M 10 20|L 11 20"},
		{name: "hlineto 2", code: cs(m, 1, 2, hlineto, endchar), ops: "M 10 20|L 11 20|L 11 22"},
		{name: "hlineto 3", code: cs(m, 1, 2, 3, hlineto, endchar), ops: "M 10 20|L 11 20|L 11 22|L 14 22"},
		{name: "hlineto 4", code: cs(m, 1, 2, 3, 4, hlineto, endchar), ops: "M 10 20|L 11 20|L 11 22|L 14 22|L 14 26"},
		{name: "vlineto 1", code: cs(m, 1, vlineto, endchar), ops: "M 10 20|L 10 21"},
		{name: "vlineto 2", code: cs(m, 1, 2, vlineto, endchar), ops: "M 10 20|L 10 21|L 12 21"},
		{name: "vlineto 3", code: cs(m, 1, 2, 3, vlineto, endchar), ops: "M 10 20|L 10 21|L 12 21|L 12 24"},
		{name: "rrcurveto 6", code: cs(m, 1, 2, 3, 4, 5, 6, rrcurveto, endchar), ops: "M 10 20|C 11 22 14 26 19 32"},
		{name: "rrcurveto 12", code: cs(m, 1, 2, 3, 4, 5, 6, -1, -2, -3, -4, -5, -6, rrcurveto, endchar),
			ops: "M 10 20|C 11 22 14 26 19 32|C 18 30 15 26 10 20"},
		{name: "rcurveline 8", code: cs(m, 1, 2, 3, 4, 5, 6, 7, 8, rcurveline, endchar),
			ops: "M 10 20|C 11 22 14 26 19 32|L 26 40"},
		{name: "rcurveline 14", code: cs(m, 1, 2, 3, 4, 5, 6, 1, 1, 1, 1, 1, 1, 7, 8, rcurveline, endchar),
			ops: "M 10 20|C 11 22 14 26 19 32|C 20 33 21 34 22 35|L 29 43"},
		{name: "rlinecurve 8", code: cs(m, 7, 8, 1, 2, 3, 4, 5, 6, rlinecurve, endchar),
			ops: "M 10 20|L 17 28|C 18 30 21 34 26 40"},
		{name: "rlinecurve 10", code: cs(m, 7, 8, 1, 1, 1, 2, 3, 4, 5, 6, rlinecurve, endchar),
			ops: "M 10 20|L 17 28|L 18 29|C 19 31 22 35 27 41"},

		// vvcurveto: dx1? {dya dxb dyb dyc}+
		{name: "vvcurveto 4", code: cs(m, 1, 2, 3, 4, vvcurveto, endchar), ops: "M 10 20|C 10 21 12 24 12 28"},
		{name: "vvcurveto 5", code: cs(m, 9, 1, 2, 3, 4, vvcurveto, endchar), ops: "M 10 20|C 19 21 21 24 21 28"},
		{name: "vvcurveto 8", code: cs(m, 1, 2, 3, 4, 5, 6, 7, 8, vvcurveto, endchar),
			ops: "M 10 20|C 10 21 12 24 12 28|C 12 33 18 40 18 48"},
		{name: "vvcurveto 9", code: cs(m, 9, 1, 2, 3, 4, 5, 6, 7, 8, vvcurveto, endchar),
			ops: "M 10 20|C 19 21 21 24 21 28|C 21 33 27 40 27 48"},
		// hhcurveto: dy1? {dxa dxb dyb dxc}+
		{name: "hhcurveto 4", code: cs(m, 1, 2, 3, 4, hhcurveto, endchar), ops: "M 10 20|C 11 20 13 23 17 23"},
		{name: "hhcurveto 5", code: cs(m, 9, 1, 2, 3, 4, hhcurveto, endchar), ops: "M 10 20|C 11 29 13 32 17 32"},
		{name: "hhcurveto 8", code: cs(m, 1, 2, 3, 4, 5, 6, 7, 8, hhcurveto, endchar),
			ops: "M 10 20|C 11 20 13 23 17 23|C 22 23 28 30 36 30"},
		{name: "hhcurveto 9", code: cs(m, 9, 1, 2, 3, 4, 5, 6, 7, 8, hhcurveto, endchar),
			ops: "M 10 20|C 11 29 13 32 17 32|C 22 32 28 39 36 39"},

		// hvcurveto: dx1 dx2 dy2 dy3 {dya dxb dyb dxc  dxd dxe dye dyf}* dxf?
		{name: "hvcurveto 4", code: cs(m, 1, 2, 3, 4, hvcurveto, endchar), ops: "M 10 20|C 11 20 13 23 13 27"},
		{name: "hvcurveto 5", code: cs(m, 1, 2, 3, 4, 5, hvcurveto, endchar), ops: "M 10 20|C 11 20 13 23 18 27"},
		{name: "hvcurveto 8", code: cs(m, 1, 2, 3, 4, 5, 6, 7, 8, hvcurveto, endchar),
			ops: "M 10 20|C 11 20 13 23 13 27|C 13 32 19 39 27 39"},
		{name: "hvcurveto 9", code: cs(m, 1, 2, 3, 4, 5, 6, 7, 8, 9, hvcurveto, endchar),
			ops: "M 10 20|C 11 20 13 23 13 27|C 13 32 19 39 27 48"},
		{name: "hvcurveto 12", code: cs(m, 1, 2, 3, 4, 5, 6, 7, 8, 1, 1, 1, 1, hvcurveto, endchar),
			ops: "M 10 20|C 11 20 13 23 13 27|C 13 32 19 39 27 39|C 28 39 29 40 29 41"},
		{name: "hvcurveto 13", code: cs(m, 1, 2, 3, 4, 5, 6, 7, 8, 1, 1, 1, 1, 9, hvcurveto, endchar),
			ops: "M 10 20|C 11 20 13 23 13 27|C 13 32 19 39 27 39|C 28 39 29 40 38 41"},
		// vhcurveto: dy1 dx2 dy2 dx3 {dxa dxb dyb dyc  dyd dxe dye dxf}* dyf?
		{name: "vhcurveto 4", code: cs(m, 1, 2, 3, 4, vhcurveto, endchar), ops: "M 10 20|C 10 21 12 24 16 24"},
		{name: "vhcurveto 5", code: cs(m, 1, 2, 3, 4, 5, vhcurveto, endchar), ops: "M 10 20|C 10 21 12 24 16 29"},
		{name: "vhcurveto 8", code: cs(m, 1, 2, 3, 4, 5, 6, 7, 8, vhcurveto, endchar),
			ops: "M 10 20|C 10 21 12 24 16 24|C 21 24 27 31 27 39"},
		{name: "vhcurveto 9", code: cs(m, 1, 2, 3, 4, 5, 6, 7, 8, 9, vhcurveto, endchar),
			ops: "M 10 20|C 10 21 12 24 16 24|C 21 24 27 31 36 39"},
		{name: "vhcurveto 12", code: cs(m, 1, 2, 3, 4, 5, 6, 7, 8, 1, 1, 1, 1, vhcurveto, endchar),
			ops: "M 10 20|C 10 21 12 24 16 24|C 21 24 27 31 27 39|C 27 40 28 41 29 41"},
		{name: "vhcurveto 13", code: cs(m, 1, 2, 3, 4, 5, 6, 7, 8, 1, 1, 1, 1, 9, vhcurveto, endchar),
			ops: "M 10 20|C 10 21 12 24 16 24|C 21 24 27 31 27 39|C 27 40 28 41 29 50"},

		// flex: two rrcurvetos, flex depth ignored
		{name: "flex", code: cs(m, 1, 2, 3, 4, 5, 6, 7, 8, 9, 10, 11, 12, 50, flex, endchar),
			ops: "M 10 20|C 11 22 14 26 19 32|C 26 40 35 50 46 62"},
		// hflex: dx1 dx2 dy2 dx3 dx4 dx5 dx6
		{name: "hflex", code: cs(m, 1, 2, 3, 4, 5, 6, 7, hflex, endchar),
			ops: "M 10 20|C 11 20 13 23 17 23|C 22 23 28 20 35 20"},
		// hflex1: dx1 dy1 dx2 dy2 dx3 dx4 dx5 dy5 dx6
		{name: "hflex1", code: cs(m, 1, 2, 3, 4, 5, 6, 7, 8, 9, hflex1, endchar),
			ops: "M 10 20|C 11 22 14 26 19 26|C 25 26 32 34 41 20"},
		// flex1: dx1 dy1 dx2 dy2 dx3 dy3 dx4 dy4 dx5 dy5 d6
		{name: "flex1 horizontal", code: cs(m, 10, 1, 10, 1, 10, 1, 10, -1, 10, -1, 10, flex1, endchar),
			ops: "M 10 20|C 20 21 30 22 40 23|C 50 22 60 21 70 20"},
		{name: "flex1 vertical", code: cs(m, 1, 10, 1, 10, 1, 10, -1, 10, -1, 10, 10, flex1, endchar),
			ops: "M 10 20|C 11 30 12 40 13 50|C 12 60 11 70 10 80"},
		// |dx| == |dy|: the last operand is dy
		{name: "flex1 tie", code: cs(m, 1, 1, 1, 1, 1, 1, 1, 1, 1, 1, 7, flex1, endchar),
			ops: "M 10 20|C 11 21 12 22 13 23|C 14 24 15 25 10 32"},
		// the sign of the sums does not matter, only the magnitude
		{name: "flex1 negative dx", code: cs(m, -10, 1, -10, 1, -10, 1, -10, -1, -10, 2, -10, flex1, endchar),
			ops: "M 10 20|C 0 21 -10 22 -20 23|C -30 22 -40 24 -50 20"},

		// movetos start new subpaths without closing linetos
		{name: "subpaths", code: cs(1, 2, rmoveto, 3, hlineto, 4, hmoveto, 5, vlineto, 6, vmoveto, endchar),
			ops: "M 1 2|L 4 2|M 8 2|L 8 7|M 8 13"},
		// dotsection is a no-op
		{name: "dotsection in path", code: cs(m, dotsection, 1, hlineto, dotsection, endchar), ops: "M 10 20|L 11 20"},
		// fractional coordinates
		{name: "fixed", code: cs(0.5, 0.25, rmoveto, 1.5, hlineto, endchar), ops: "M 0.5 0.25|L 2 0.25"},
	})
}

func TestArithmetic(t *testing.T) {
	// Each program leaves one number x on the stack; "x hmoveto" shows it.
	one := func(items ...interface{}) []byte {
		return cs(cs(items...), hmoveto, endchar)
	}
	cases := []struct {
		name string
		code []byte
		want float64
	}{
		{"and 1 1", one(1, 1, and), 1},
		{"and 1 0", one(1, 0, and), 0},
		{"and 0 0", one(0, 0, and), 0},
		{"and frac", one(0.5, -3, and), 1},
		{"or 1 0", one(1, 0, or), 1},
		{"or 0 0", one(0, 0, or), 0},
		{"or 0 -2", one(0, -2, or), 1},
		{"not 0", one(0, not), 1},
		{"not 5", one(5, not), 0},
		{"abs -5", one(-5, abs), 5},
		{"abs 5", one(5, abs), 5},
		{"abs frac", one(-0.5, abs), 0.5},
		{"add", one(3, 4, add), 7},
		{"add frac", one(0.5, 0.25, add), 0.75},
		{"sub", one(3, 4, sub), -1},
		{"div", one(7, 2, div), 3.5},
		{"div negative", one(-7, 2, div), -3.5},
		{"div rounds", one(1, 3, div), math.Round(65536.0/3) / 65536},
		{"div rounds 2/3", one(2, 3, div), math.Round(2*65536.0/3) / 65536},
		{"neg", one(5, neg), -5},
		{"neg neg", one(-5, neg), 5},
		{"eq true", one(5, 5, eq), 1},
		{"eq false", one(5, 6, eq), 0},
		{"drop", one(5, 6, drop), 5},
		{"put get", one(42, 3, put, 3, get), 42},
		{"put get 0", one(42, 0, put, 0, get), 42},
		{"put get 31", one(42, 31, put, 31, get), 42},
		{"put overwrite", one(1, 3, put, 2, 3, put, 3, get), 2},
		{"ifelse <", one(10, 20, 1, 2, ifelse), 10},
		{"ifelse ==", one(10, 20, 2, 2, ifelse), 10},
		{"ifelse >", one(10, 20, 3, 2, ifelse), 20},
		{"mul", one(3, 4, mul), 12},
		{"mul frac", one(0.5, 0.5, mul), 0.25},
		{"mul rounds", one(1.0/65536, 0.5, mul), 1.0 / 65536}, // 2^-17 rounds half away from zero
		{"mul rounds down", one(1.0/65536, 0.25, mul), 0},
		{"sqrt", one(16, sqrt), 4},
		{"sqrt frac", one(0.25, sqrt), 0.5},
		{"sqrt 0", one(0, sqrt), 0},
		{"dup", one(3, dup, add), 6},
		{"exch", one(3, 4, exch, sub), 1},
		{"index 0", one(1, 2, 3, 0, index, 0, put, drop, drop, drop, 0, get), 3},
		{"index 1", one(1, 2, 3, 1, index, 0, put, drop, drop, drop, 0, get), 2},
		{"index 2", one(1, 2, 3, 2, index, 0, put, drop, drop, drop, 0, get), 1},
		{"index negative", one(1, 2, 3, -5, index, 0, put, drop, drop, drop, 0, get), 3},
	}
	for _, c := range cases {
		g, err := Interpret(c.code, nil)
		if err != nil {
			t.Errorf("%s: %v", c.name, err)
			continue
		}
		if len(g.Ops) != 1 || g.Ops[0].Args[0] != c.want || g.HasWidth {
			t.Errorf("%s: got %s (width %v), want %g", c.name, show(g), g.HasWidth, c.want)
		}
	}

	// roll: the result is shown through rlineto
	rollCases := []struct {
		name string
		code []byte
		ops  string
	}{
		// a b c d 4 1 roll -> d a b c
		{"roll 4 1", cs(0, hmoveto, 1, 2, 3, 4, 4, 1, roll, rlineto, endchar), "M 0 0|L 4 1|L 6 4"},
		// a b c d 4 -1 roll -> b c d a
		{"roll 4 -1", cs(0, hmoveto, 1, 2, 3, 4, 4, -1, roll, rlineto, endchar), "M 0 0|L 2 3|L 6 4"},
		{"roll 4 2", cs(0, hmoveto, 1, 2, 3, 4, 4, 2, roll, rlineto, endchar), "M 0 0|L 3 4|L 4 6"},
		{"roll 4 5", cs(0, hmoveto, 1, 2, 3, 4, 4, 5, roll, rlineto, endchar), "M 0 0|L 4 1|L 6 4"},
		{"roll 4 -7", cs(0, hmoveto, 1, 2, 3, 4, 4, -7, roll, rlineto, endchar), "M 0 0|L 4 1|L 6 4"},
		{"roll 4 0", cs(0, hmoveto, 1, 2, 3, 4, 4, 0, roll, rlineto, endchar), "M 0 0|L 1 2|L 4 6"},
		{"roll 4 4", cs(0, hmoveto, 1, 2, 3, 4, 4, 4, roll, rlineto, endchar), "M 0 0|L 1 2|L 4 6"},
		// only the top 3 are rolled: 1 [2 3 4] -> 1 4 2 3
		{"roll 3 1", cs(0, hmoveto, 1, 2, 3, 4, 3, 1, roll, rlineto, endchar), "M 0 0|L 1 4|L 3 7"},
		{"roll 1 3", cs(0, hmoveto, 1, 2, 3, 4, 1, 3, roll, rlineto, endchar), "M 0 0|L 1 2|L 4 6"},
		{"roll 0 3", cs(0, hmoveto, 1, 2, 3, 4, 0, 3, roll, rlineto, endchar), "M 0 0|L 1 2|L 4 6"},
	}
	for _, c := range rollCases {
		g, err := Interpret(c.code, nil)
		if err != nil {
			t.Errorf("%s: %v", c.name, err)
			continue
		}
		if show(g) != c.ops {
			t.Errorf("%s: got %s, want %s", c.name, show(g), c.ops)
		}
	}

	// the transient array is per charstring, not global
	mustRun(t, cs(1, 0, put, endchar), nil)
	if _, err := Interpret(cs(0, get, hmoveto, endchar), nil); err == nil {
		t.Error("get of an unset entry must fail")
	}

	bad := []struct {
		name string
		code []byte
	}{
		{"div by zero", one(1, 0, div)},
		{"sqrt negative", one(-1, sqrt)},
		{"get unset", one(5, get)},
		{"get -1", one(-1, get)},
		{"get 32", one(32, get)},
		{"get fractional", one(1, 0, put, 0.5, get)},
		{"put -1", one(1, -1, put, 1)},
		{"put 32", one(1, 32, put, 1)},
		{"put fractional", one(1, 0.5, put, 1)},
		{"index too deep", one(1, 2, 2, index)},
		{"index fractional", one(1, 2, 0.5, index)},
		{"index alone", one(0, index)},
		{"roll too many", one(1, 2, 3, 1, roll)},
		{"roll negative n", one(1, 2, -1, 1, roll)},
		{"roll fractional n", one(1, 2, 1.5, 1, roll)},
		{"roll fractional j", one(1, 2, 2, 1.5, roll)},
		{"and underflow", one(1, and)},
		{"or underflow", one(1, or)},
		{"not underflow", one(not)},
		{"abs underflow", one(abs)},
		{"add underflow", one(1, add)},
		{"sub underflow", one(1, sub)},
		{"div underflow", one(1, div)},
		{"neg underflow", one(neg)},
		{"eq underflow", one(1, eq)},
		{"drop underflow", one(drop)},
		{"put underflow", one(1, put)},
		{"get underflow", one(get)},
		{"ifelse underflow", one(1, 2, 3, ifelse)},
		{"mul underflow", one(1, mul)},
		{"sqrt underflow", one(sqrt)},
		{"dup underflow", one(dup)},
		{"exch underflow", one(1, exch)},
		{"roll underflow", one(1, roll)},
	}
	for _, c := range bad {
		if _, err := Interpret(c.code, nil); err == nil {
			t.Errorf("%s: expected an error", c.name)
		}
	}

	_, err := Interpret(one(random), nil)
	if !errors.Is(err, ErrRandom) || !strings.Contains(err.Error(), "random not supported") {
		t.Errorf("random: got %v", err)
	}
}

// ---- subroutines ----

func TestSubrs(t *testing.T) {
	env := &Env{
		LocalSubrs: [][]byte{
			cs(1, 2, rlineto, ret),               // 0 = -107
			cs(-106, callgsubr, 5, hlineto, ret), // 1 = -106: calls global 1
			cs(7, 8, rmoveto, endchar),           // 2 = -105: endchar inside a subr
			cs(3, 4, ret),                        // 3 = -104: leaves operands
			cs(ret, 0, 0, 0),                     // 4 = -103: bytes after return are ignored
			cs(1, 2, rlineto),                    // 5 = -102: no return
			cs(10, 20, hstemhm, 3, 4, ret),       // 6 = -101: stems and implicit vstem operands
			cs(hintmask),                         // 7 = -100: the mask bytes are missing
			cs(hintmask, []byte{0x0b}, ret),      // 8 = -99: the mask byte looks like "return"
		},
		GlobalSubrs: [][]byte{
			cs(10, 20, rlineto, ret), // 0 = -107
			cs(-107, callsubr, ret),  // 1 = -106: calls local 0
		},
		DefaultWidthX: 100,
		NominalWidthX: 200,
	}
	runGood(t, []goodCase{
		{name: "callsubr", code: cs(0, hmoveto, -107, callsubr, endchar), env: env, ops: "M 0 0|L 1 2", width: 100},
		{name: "callgsubr", code: cs(0, hmoveto, -107, callgsubr, endchar), env: env, ops: "M 0 0|L 10 20", width: 100},
		{name: "nested", code: cs(0, hmoveto, -106, callsubr, endchar), env: env, ops: "M 0 0|L 1 2|L 6 2", width: 100},
		{name: "endchar in subr", code: cs(50, -105, callsubr, 0, 0, 0), env: env, ops: "M 7 8", width: 250, hasW: true},
		{name: "operands from subr", code: cs(-104, callsubr, rmoveto, endchar), env: env, ops: "M 3 4", width: 100},
		{name: "return first", code: cs(-103, callsubr, endchar), env: env, width: 100},
		{name: "stems in subr", code: cs(-101, callsubr, hintmask, []byte{0xc0}, endchar), env: env, ops: "H c0",
			hstem: []float64{10, 30}, vstem: []float64{3, 7}, width: 100},
		{name: "mask in subr", code: cs(1, 2, hstemhm, -99, callsubr, endchar), env: env, ops: "H 0b", hstem: []float64{1, 3}, width: 100},
		{name: "computed subr number", code: cs(0, hmoveto, -100, -7, add, callsubr, endchar), env: env, ops: "M 0 0|L 1 2", width: 100},
	})

	bad := []struct {
		name string
		code []byte
	}{
		{"subr without return", cs(0, hmoveto, -102, callsubr, endchar)},
		{"local out of range high", cs(-98, callsubr, endchar)},
		{"local out of range low", cs(-108, callsubr, endchar)},
		{"global out of range high", cs(-105, callgsubr, endchar)},
		{"global out of range low", cs(-108, callgsubr, endchar)},
		{"fractional subr number", cs(0, hmoveto, -106.5, callsubr, endchar)},
		{"callsubr underflow", cs(callsubr, endchar)},
		{"callgsubr underflow", cs(callgsubr, endchar)},
		// mask bytes are taken from the charstring which holds the operator
		{"mask bytes missing in subr", cs(1, 2, hstemhm, -100, callsubr, []byte{0x80}, endchar)},
		{"return at top level", cs(ret)},
		{"return at top level 2", cs(0, hmoveto, ret, endchar)},
	}
	for _, c := range bad {
		if _, err := Interpret(c.code, env); err == nil {
			t.Errorf("%s: expected an error", c.name)
		}
	}

	// no subrs at all
	if _, err := Interpret(cs(-107, callsubr, endchar), nil); err == nil {
		t.Error("callsubr without subrs: expected an error")
	}
	if _, err := Interpret(cs(-107, callgsubr, endchar), &Env{}); err == nil {
		t.Error("callgsubr without subrs: expected an error")
	}
}

func TestCallDepth(t *testing.T) {
	// local subr i calls local subr i+1; the last one draws.
	chain := func(n int) *Env {
		env := &Env{}
		for i := 0; i < n-1; i++ {
			env.LocalSubrs = append(env.LocalSubrs, cs(i+1-107, callsubr, ret))
		}
		env.LocalSubrs = append(env.LocalSubrs, cs(1, hlineto, ret))
		return env
	}
	code := cs(0, hmoveto, -107, callsubr, endchar)
	g, err := Interpret(code, chain(10)) // nesting depth 10
	if err != nil {
		t.Errorf("depth 10: %v", err)
	} else if show(g) != "M 0 0|L 1 0" {
		t.Errorf("depth 10: got %s", show(g))
	}
	if _, err := Interpret(code, chain(11)); err == nil {
		t.Errorf("depth 11: expected an error")
	}

	// the limit applies to mixed local/global nesting and to recursion
	env := &Env{
		LocalSubrs:  [][]byte{cs(-107, callgsubr, ret)},
		GlobalSubrs: [][]byte{cs(-107, callsubr, ret)},
	}
	if _, err := Interpret(code, env); err == nil {
		t.Errorf("mutual recursion: expected an error")
	}
	env = &Env{LocalSubrs: [][]byte{cs(-107, callsubr, ret)}}
	if _, err := Interpret(code, env); err == nil {
		t.Errorf("recursion: expected an error")
	}

	// the depth is nesting, not the number of calls
	env = &Env{LocalSubrs: [][]byte{cs(1, hlineto, ret)}}
	var many []byte
	many = append(many, cs(0, hmoveto)...)
	for i := 0; i < 30; i++ {
		many = append(many, cs(-107, callsubr)...)
	}
	many = append(many, byte(endchar))
	g, err = Interpret(many, env)
	if err != nil || len(g.Ops) != 31 {
		t.Errorf("30 sequential calls: %v", err)
	}
}

func TestBias(t *testing.T) {
	for _, c := range []struct{ n, bias int }{
		{0, 107}, {1, 107}, {1239, 107}, {1240, 1131}, {33899, 1131}, {33900, 32768}, {65535, 32768},
	} {
		if got := Bias(c.n); got != c.bias {
			t.Errorf("Bias(%d) = %d, want %d", c.n, got, c.bias)
		}
	}

	// All subroutines fail (reserved operator 0), except the target.
	bad := []byte{0}
	good := cs(7, hlineto, ret)
	for _, c := range []struct{ n, bias int }{
		{1, 107}, {1239, 107}, {1240, 1131}, {33899, 1131}, {33900, 32768},
	} {
		for _, global := range []bool{false, true} {
			for _, target := range []int{0, c.n / 2, c.n - 1} {
				subrs := make([][]byte, c.n)
				for i := range subrs {
					subrs[i] = bad
				}
				subrs[target] = good
				env := &Env{LocalSubrs: subrs}
				call := callsubr
				if global {
					env = &Env{GlobalSubrs: subrs}
					call = callgsubr
				}
				g, err := Interpret(cs(0, hmoveto, target-c.bias, call, endchar), env)
				if err != nil {
					t.Errorf("n=%d global=%v target=%d: %v", c.n, global, target, err)
				} else if show(g) != "M 0 0|L 7 0" {
					t.Errorf("n=%d global=%v target=%d: got %s", c.n, global, target, show(g))
				}
				// one off in either direction hits a bad subroutine or is out of range
				for _, delta := range []int{-1, 1} {
					num := target - c.bias + delta
					if num < -32768 || num > 32767 {
						continue
					}
					if _, err := Interpret(cs(0, hmoveto, num, call, endchar), env); err == nil {
						t.Errorf("n=%d global=%v target=%d delta=%d: expected an error", c.n, global, target, delta)
					}
				}
			}
			// out of range on both sides
			subrs := make([][]byte, c.n)
			for i := range subrs {
				subrs[i] = good
			}
			env := &Env{LocalSubrs: subrs, GlobalSubrs: subrs}
			call := callsubr
			if global {
				call = callgsubr
			}
			for _, num := range []int{-c.bias - 1, c.n - c.bias} {
				if num < -32768 || num > 32767 {
					continue
				}
				_, err := Interpret(cs(0, hmoveto, num, call, endchar), env)
				if err == nil || !strings.Contains(err.Error(), "out of range") {
					t.Errorf("n=%d global=%v num=%d: got %v, want out of range", c.n, global, num, err)
				}
			}
		}
	}

	// size 0: every subroutine number is out of range
	for _, num := range []int{-107, 0, 107} {
		for _, call := range []op{callsubr, callgsubr} {
			_, err := Interpret(cs(0, hmoveto, num, call, endchar), &Env{})
			if err == nil || !strings.Contains(err.Error(), "out of range") {
				t.Errorf("n=0 num=%d: got %v, want out of range", num, err)
			}
		}
	}

	// local and global biases are independent
	local := make([][]byte, 1240)
	for i := range local {
		local[i] = bad
	}
	local[0] = cs(1, hlineto, ret)
	env := &Env{LocalSubrs: local, GlobalSubrs: [][]byte{cs(2, hlineto, ret)}}
	g := mustRun(t, cs(0, hmoveto, -1131, callsubr, -107, callgsubr, endchar), env)
	if show(g) != "M 0 0|L 1 0|L 3 0" {
		t.Errorf("independent biases: got %s", show(g))
	}
}

// ---- the stack ----

func TestStackDepth(t *testing.T) {
	nums := func(n int) []byte {
		var out []byte
		for i := 0; i < n; i++ {
			out = append(out, cs(1)...)
		}
		return out
	}
	g := mustRun(t, cs(0, hmoveto, nums(48), hlineto, endchar), nil)
	if g.MaxStack != 48 || len(g.Ops) != 49 {
		t.Errorf("48 operands: MaxStack %d, %d ops", g.MaxStack, len(g.Ops))
	}
	if _, err := Interpret(cs(0, hmoveto, nums(49), hlineto, endchar), nil); err == nil {
		t.Error("49 operands: expected an error")
	}
	// overflow through dup
	if _, err := Interpret(cs(0, hmoveto, nums(48), dup, hlineto, endchar), nil); err == nil {
		t.Error("48 operands + dup: expected an error")
	}
	// overflow is detected even if the operands are dropped again
	if _, err := Interpret(cs(0, hmoveto, nums(49), drop, hlineto, endchar), nil); err == nil {
		t.Error("49 operands + drop: expected an error")
	}
	// overflow inside a subroutine
	env := &Env{LocalSubrs: [][]byte{cs(nums(10), ret)}}
	if _, err := Interpret(cs(0, hmoveto, nums(40), -107, callsubr, hlineto, endchar), env); err == nil {
		t.Error("overflow in subr: expected an error")
	}
	g = mustRun(t, cs(0, hmoveto, nums(37), -107, callsubr, hlineto, endchar), env)
	if g.MaxStack != 47 {
		t.Errorf("MaxStack: got %d, want 47", g.MaxStack)
	}

	for _, c := range []struct {
		code []byte
		want int
	}{
		{cs(endchar), 0},
		{cs(5, endchar), 1},
		{cs(1, 2, rmoveto, endchar), 2},
		{cs(1, 2, rmoveto, 1, 2, 3, 4, 5, 6, rrcurveto, 1, hlineto, endchar), 6},
		{cs(1, 2, add, 3, add, hmoveto, endchar), 2},
		{cs(1, dup, dup, add, add, hmoveto, endchar), 3},
	} {
		g := mustRun(t, c.code, nil)
		if g.MaxStack != c.want {
			t.Errorf("% x: MaxStack %d, want %d", c.code, g.MaxStack, c.want)
		}
	}
}

// ---- malformed programs ----

func TestMalformed(t *testing.T) {
	m := cs(10, 20, rmoveto)
	h := cs(1, 2, hstemhm)
	env := &Env{LocalSubrs: [][]byte{cs(1, 2, rlineto)}}
	cases := []struct {
		name string
		code []byte
	}{
		// stack underflow
		{"rmoveto 0", cs(rmoveto, endchar)},
		{"rmoveto 1", cs(1, rmoveto, endchar)},
		{"hmoveto 0", cs(hmoveto, endchar)},
		{"vmoveto 0", cs(vmoveto, endchar)},
		{"hstem 0", cs(hstem, endchar)},
		{"hstem 1", cs(1, hstem, endchar)},
		{"vstem 1", cs(1, vstem, endchar)},
		{"hstemhm 0", cs(hstemhm, endchar)},
		{"vstemhm 1", cs(1, vstemhm, endchar)},
		{"rlineto 0", cs(m, rlineto, endchar)},
		{"hlineto 0", cs(m, hlineto, endchar)},
		{"vlineto 0", cs(m, vlineto, endchar)},
		{"rrcurveto 0", cs(m, rrcurveto, endchar)},
		{"rrcurveto 5", cs(m, 1, 2, 3, 4, 5, rrcurveto, endchar)},
		{"hhcurveto 3", cs(m, 1, 2, 3, hhcurveto, endchar)},
		{"vvcurveto 1", cs(m, 1, vvcurveto, endchar)},
		{"hvcurveto 3", cs(m, 1, 2, 3, hvcurveto, endchar)},
		{"vhcurveto 0", cs(m, vhcurveto, endchar)},
		{"rcurveline 6", cs(m, 1, 2, 3, 4, 5, 6, rcurveline, endchar)},
		{"rcurveline 2", cs(m, 1, 2, rcurveline, endchar)},
		{"rlinecurve 6", cs(m, 1, 2, 3, 4, 5, 6, rlinecurve, endchar)},
		{"flex 6", cs(m, 1, 2, 3, 4, 5, 6, flex, endchar)},
		{"hflex 6", cs(m, 1, 2, 3, 4, 5, 6, hflex, endchar)},
		{"hflex1 8", cs(m, 1, 2, 3, 4, 5, 6, 7, 8, hflex1, endchar)},
		{"flex1 10", cs(m, 1, 2, 3, 4, 5, 6, 7, 8, 9, 10, flex1, endchar)},

		// illegal operand counts
		{"rlineto 1", cs(m, 1, rlineto, endchar)},
		{"rlineto 3", cs(m, 1, 2, 3, rlineto, endchar)},
		{"rrcurveto 7", cs(m, 1, 2, 3, 4, 5, 6, 7, rrcurveto, endchar)},
		{"rrcurveto 11", cs(m, 1, 2, 3, 4, 5, 6, 7, 8, 9, 10, 11, rrcurveto, endchar)},
		{"hhcurveto 6", cs(m, 1, 2, 3, 4, 5, 6, hhcurveto, endchar)},
		{"hhcurveto 7", cs(m, 1, 2, 3, 4, 5, 6, 7, hhcurveto, endchar)},
		{"vvcurveto 6", cs(m, 1, 2, 3, 4, 5, 6, vvcurveto, endchar)},
		{"vvcurveto 7", cs(m, 1, 2, 3, 4, 5, 6, 7, vvcurveto, endchar)},
		{"hvcurveto 6", cs(m, 1, 2, 3, 4, 5, 6, hvcurveto, endchar)},
		{"hvcurveto 7", cs(m, 1, 2, 3, 4, 5, 6, 7, hvcurveto, endchar)},
		{"hvcurveto 10", cs(m, 1, 2, 3, 4, 5, 6, 7, 8, 9, 10, hvcurveto, endchar)},
		{"vhcurveto 6", cs(m, 1, 2, 3, 4, 5, 6, vhcurveto, endchar)},
		{"vhcurveto 11", cs(m, 1, 2, 3, 4, 5, 6, 7, 8, 9, 10, 11, vhcurveto, endchar)},
		{"rcurveline 9", cs(m, 1, 2, 3, 4, 5, 6, 7, 8, 9, rcurveline, endchar)},
		{"rcurveline 10", cs(m, 1, 2, 3, 4, 5, 6, 7, 8, 9, 10, rcurveline, endchar)},
		{"rlinecurve 9", cs(m, 1, 2, 3, 4, 5, 6, 7, 8, 9, rlinecurve, endchar)},
		{"flex 12", cs(m, 1, 2, 3, 4, 5, 6, 7, 8, 9, 10, 11, 12, flex, endchar)},
		{"flex 14", cs(m, 1, 2, 3, 4, 5, 6, 7, 8, 9, 10, 11, 12, 13, 14, flex, endchar)},
		{"hflex 8", cs(m, 1, 2, 3, 4, 5, 6, 7, 8, hflex, endchar)},
		{"hflex1 10", cs(m, 1, 2, 3, 4, 5, 6, 7, 8, 9, 10, hflex1, endchar)},
		{"flex1 12", cs(m, 1, 2, 3, 4, 5, 6, 7, 8, 9, 10, 11, 12, flex1, endchar)},
		{"first rmoveto 4", cs(1, 2, 3, 4, rmoveto, endchar)},
		{"first hmoveto 3", cs(1, 2, 3, hmoveto, endchar)},
		{"first vmoveto 3", cs(1, 2, 3, vmoveto, endchar)},
		{"second rmoveto 3", cs(m, 1, 2, 3, rmoveto, endchar)},
		{"second hmoveto 2", cs(m, 1, 2, hmoveto, endchar)},
		{"second vmoveto 2", cs(m, 1, 2, vmoveto, endchar)},
		{"second hstem odd", cs(h, 1, 2, 3, hstemhm, endchar)},
		{"second mask odd", cs(h, hintmask, []byte{0}, 1, hintmask, []byte{0}, endchar)},

		// operands left at endchar
		{"endchar 2", cs(1, 2, endchar)},
		{"endchar 3", cs(1, 2, 3, endchar)},
		{"endchar 6", cs(1, 2, 3, 4, 5, 6, endchar)},
		{"endchar after moveto", cs(m, 1, endchar)},
		{"endchar 4 after moveto", cs(m, 1, 2, 3, 4, endchar)},

		// missing endchar
		{"empty", nil},
		{"no endchar", cs(m, 1, 2, rlineto)},
		{"operands only", cs(1, 2, 3)},
		{"subr without return", cs(m, -107, callsubr, endchar)},

		// drawing before the first moveto
		{"rlineto first", cs(1, 2, rlineto, endchar)},
		{"hlineto first", cs(1, hlineto, endchar)},
		{"vlineto first", cs(1, vlineto, endchar)},
		{"rrcurveto first", cs(1, 2, 3, 4, 5, 6, rrcurveto, endchar)},
		{"rcurveline first", cs(1, 2, 3, 4, 5, 6, 7, 8, rcurveline, endchar)},
		{"rlinecurve first", cs(1, 2, 3, 4, 5, 6, 7, 8, rlinecurve, endchar)},
		{"vvcurveto first", cs(1, 2, 3, 4, vvcurveto, endchar)},
		{"hhcurveto first", cs(1, 2, 3, 4, hhcurveto, endchar)},
		{"vhcurveto first", cs(1, 2, 3, 4, vhcurveto, endchar)},
		{"hvcurveto first", cs(1, 2, 3, 4, hvcurveto, endchar)},
		{"flex first", cs(1, 2, 3, 4, 5, 6, 7, 8, 9, 10, 11, 12, 13, flex, endchar)},
		{"hflex first", cs(1, 2, 3, 4, 5, 6, 7, hflex, endchar)},
		{"hflex1 first", cs(1, 2, 3, 4, 5, 6, 7, 8, 9, hflex1, endchar)},
		{"flex1 first", cs(1, 2, 3, 4, 5, 6, 7, 8, 9, 10, 11, flex1, endchar)},
		{"rlineto after stems", cs(h, 1, 2, rlineto, endchar)},

		// stem operators in the wrong place
		{"hstem after moveto", cs(m, 1, 2, hstem, endchar)},
		{"vstem after moveto", cs(m, 1, 2, vstem, endchar)},
		{"hstemhm after moveto", cs(m, 1, 2, hstemhm, endchar)},
		{"vstemhm after moveto", cs(m, 1, 2, vstemhm, endchar)},
		{"hstemhm after hintmask", cs(h, hintmask, []byte{0}, 1, 2, hstemhm, endchar)},
		{"vstemhm after cntrmask", cs(h, cntrmask, []byte{0}, 1, 2, vstemhm, endchar)},
		{"implicit vstem after mask", cs(h, cntrmask, []byte{0}, 1, 2, hintmask, []byte{0}, endchar)},
		{"implicit vstem after moveto", cs(h, m, 1, 2, hintmask, []byte{0}, endchar)},
		{"hstem after vstem", cs(1, 2, vstem, 1, 2, hstem, endchar)},
		{"hstemhm after implicit... vstemhm", cs(1, 2, vstemhm, 1, 2, hstemhm, endchar)},

		// masks without stems
		{"hintmask no stems", cs(hintmask, []byte{0}, endchar)},
		{"cntrmask no stems", cs(cntrmask, []byte{0}, endchar)},
		{"hintmask width only", cs(5, hintmask, []byte{0}, endchar)},
		{"hintmask after moveto no stems", cs(m, hintmask, []byte{0}, endchar)},

		// truncated data
		{"truncated 28 a", []byte{28}},
		{"truncated 28 b", []byte{28, 0}},
		{"truncated 247", []byte{247}},
		{"truncated 250", []byte{250}},
		{"truncated 251", []byte{251}},
		{"truncated 254", []byte{254}},
		{"truncated 255 a", []byte{255}},
		{"truncated 255 b", []byte{255, 0, 0, 0}},
		{"truncated escape", cs(m, []byte{12})},
		{"truncated hintmask", cs(h, hintmask)},
		{"truncated cntrmask", cs(h, cntrmask)},
		{"truncated hintmask 2 bytes", cs(1, 1, 1, 1, 1, 1, 1, 1, 1, 1, 1, 1, 1, 1, 1, 1, 1, 1, hstemhm, hintmask, []byte{0xff})},
		{"mask bytes eat endchar", cs(1, 1, 1, 1, 1, 1, 1, 1, 1, 1, 1, 1, 1, 1, 1, 1, 1, 1, hstemhm, hintmask, []byte{0xff}, endchar)},
	}
	for _, c := range cases {
		if g, err := Interpret(c.code, env); err == nil {
			t.Errorf("%s: expected an error, got %s", c.name, show(g))
		}
	}

	// reserved operators
	for _, b := range []byte{0, 2, 9, 13, 15, 16, 17} {
		if _, err := Interpret(cs(m, []byte{b}, endchar), nil); err == nil {
			t.Errorf("operator %d: expected an error", b)
		}
	}
	legal := map[byte]bool{0: true, 3: true, 4: true, 5: true, 9: true, 10: true, 11: true, 12: true, 14: true, 15: true,
		18: true, 20: true, 21: true, 22: true, 23: true, 24: true, 26: true, 27: true, 28: true, 29: true, 30: true,
		34: true, 35: true, 36: true, 37: true}
	for b := 0; b < 256; b++ {
		if legal[byte(b)] {
			continue
		}
		_, err := Interpret(cs(m, 1, 2, 3, 4, []byte{12, byte(b)}, endchar), nil)
		if err == nil || !strings.Contains(err.Error(), "reserved") {
			t.Errorf("operator 12 %d: got %v, want reserved operator error", b, err)
		}
	}
}

func TestAfterEndchar(t *testing.T) {
	// Everything after the top-level endchar is ignored and not executed.
	for _, tail := range [][]byte{
		{0},                     // reserved operator
		{28},                    // truncated number
		{12},                    // truncated escape
		cs(1, 2, rlineto),       // would be fine
		cs(1, 2, 3, 4, endchar), // would be an error
		cs(hintmask),            // no stems
	} {
		g, err := Interpret(cs(10, 20, rmoveto, 1, hlineto, endchar, tail), nil)
		if err != nil {
			t.Errorf("tail % x: %v", tail, err)
		} else if show(g) != "M 10 20|L 11 20" {
			t.Errorf("tail % x: got %s", tail, show(g))
		}
	}

	// After an endchar inside a subroutine nothing is executed either, not
	// even the rest of the calling charstring.
	env := &Env{
		LocalSubrs:  [][]byte{cs(-107, callgsubr, 0, 0, 0), cs(1, 2, rmoveto, -107, callsubr, []byte{0})},
		GlobalSubrs: [][]byte{cs(endchar, []byte{0})},
	}
	g, err := Interpret(cs(-106, callsubr, []byte{0, 0}), env)
	if err != nil || show(g) != "M 1 2" {
		t.Errorf("endchar in nested subr: %v", err)
	}
}
