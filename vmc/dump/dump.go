// Package dump renders any Go value (including unexported fields, maps in
// sorted order, pointer graphs with cycles) as a canonical string, so that
// two snapshots of a data structure can be compared for deep equality.
package dump

import (
	"fmt"
	"hash/fnv"
	"reflect"
	"sort"
	"strings"
)

// String returns the canonical dump of v.
func String(v any) string {
	d := &dumper{seen: map[uintptr]int{}}
	d.val(reflect.ValueOf(v), 0)
	return d.b.String()
}

// Hash returns a 64-bit digest of the canonical dump.
func Hash(v any) uint64 {
	h := fnv.New64a()
	h.Write([]byte(String(v)))
	return h.Sum64()
}

type dumper struct {
	b    strings.Builder
	seen map[uintptr]int
}

func (d *dumper) val(v reflect.Value, depth int) {
	if !v.IsValid() {
		d.b.WriteString("nil")
		return
	}
	if depth > 200 {
		d.b.WriteString("<deep>")
		return
	}
	switch v.Kind() {
	case reflect.Bool:
		fmt.Fprint(&d.b, v.Bool())
	case reflect.Int, reflect.Int8, reflect.Int16, reflect.Int32, reflect.Int64:
		fmt.Fprint(&d.b, v.Int())
	case reflect.Uint, reflect.Uint8, reflect.Uint16, reflect.Uint32, reflect.Uint64, reflect.Uintptr:
		fmt.Fprint(&d.b, v.Uint())
	case reflect.Float32, reflect.Float64:
		fmt.Fprintf(&d.b, "%x", v.Float())
	case reflect.Complex64, reflect.Complex128:
		fmt.Fprint(&d.b, v.Complex())
	case reflect.String:
		fmt.Fprintf(&d.b, "%q", v.String())
	case reflect.Ptr:
		if v.IsNil() {
			d.b.WriteString("nil")
			return
		}
		p := v.Pointer()
		if id, ok := d.seen[p]; ok {
			fmt.Fprintf(&d.b, "<ptr#%d>", id)
			return
		}
		d.seen[p] = len(d.seen)
		d.b.WriteString("&")
		d.val(v.Elem(), depth+1)
	case reflect.Interface:
		if v.IsNil() {
			d.b.WriteString("nil")
			return
		}
		fmt.Fprintf(&d.b, "(%s)", v.Elem().Type())
		d.val(v.Elem(), depth+1)
	case reflect.Slice:
		if v.IsNil() {
			d.b.WriteString("nil[]")
			return
		}
		fallthrough
	case reflect.Array:
		if v.Type().Elem().Kind() == reflect.Uint8 && v.Kind() == reflect.Slice {
			h := fnv.New64a()
			h.Write(v.Bytes())
			fmt.Fprintf(&d.b, "bytes[%d]#%x", v.Len(), h.Sum64())
			return
		}
		d.b.WriteString("[")
		for i := 0; i < v.Len(); i++ {
			if i > 0 {
				d.b.WriteString(" ")
			}
			d.val(v.Index(i), depth+1)
		}
		d.b.WriteString("]")
	case reflect.Map:
		if v.IsNil() {
			d.b.WriteString("nilmap")
			return
		}
		type kv struct{ k, v string }
		var items []kv
		iter := v.MapRange()
		for iter.Next() {
			kd := &dumper{seen: d.seen}
			kd.val(iter.Key(), depth+1)
			vd := &dumper{seen: d.seen}
			vd.val(iter.Value(), depth+1)
			items = append(items, kv{kd.b.String(), vd.b.String()})
		}
		sort.Slice(items, func(i, j int) bool { return items[i].k < items[j].k })
		d.b.WriteString("map{")
		for _, it := range items {
			d.b.WriteString(it.k + ":" + it.v + " ")
		}
		d.b.WriteString("}")
	case reflect.Struct:
		if pk := v.Type().PkgPath(); pk == "sync" || pk == "sync/atomic" {
			// synchronisation objects carry scheduler-dependent internal state; they are not data
			d.b.WriteString(v.Type().String() + "{opaque}")
			return
		}
		if v.Type().PkgPath() == "time" && v.Type().Name() == "Location" {
			// time.Local is filled in lazily (under a sync.Once) by the first operation that needs the zone data
			d.b.WriteString("time.Location{opaque}")
			return
		}
		d.b.WriteString(v.Type().String() + "{")
		for i := 0; i < v.NumField(); i++ {
			d.b.WriteString(v.Type().Field(i).Name + ":")
			d.val(v.Field(i), depth+1)
			d.b.WriteString(" ")
		}
		d.b.WriteString("}")
	case reflect.Func:
		if v.IsNil() {
			d.b.WriteString("nilfunc")
		} else {
			d.b.WriteString("func")
		}
	case reflect.Chan, reflect.UnsafePointer:
		d.b.WriteString(v.Kind().String())
	default:
		d.b.WriteString("?" + v.Kind().String())
	}
}
